#![no_main]
use libfuzzer_sys::fuzz_target;
use std::io::{BufRead, Read};
#[path = "feat.rs"]
mod feat;
#[path = "../../harness/src/fuzzdec.rs"]
mod fuzzdec;
use feat::*;

fuzz_target!(|data: &[u8]| {
    let c = fuzzdec::dec_body(data);
    let st = std::io::Cursor::new(c.st.clone());
    let mut rd = if let Some(n) = c.kind.strip_prefix("fixed:") {
        let n: usize = n.parse().unwrap_or(0);
        if n == 0 { khttp::BodyReader::new_empty(st) } else { khttp::BodyReader::new_fixed(&c.lo, st, n) }
    } else {
        khttp::BodyReader::new_chunked(&c.lo, st)
    };
    let mut out = Vec::new();
    let mut ok = true;
    if c.api == "buf" {
        loop {
            match rd.fill_buf() {
                Ok(b) if b.is_empty() => break,
                Ok(b) => { let n = b.len(); out.extend_from_slice(b); rd.consume(n) }
                Err(_) => { ok = false; break }
            }
            if out.len() > 1 << 20 { break }
        }
    } else {
        let mut buf = [0u8; 4096];
        let mut k = 0;
        loop {
            let want = c.sched.get(k).copied().unwrap_or(4096).min(4096);
            k += 1;
            match rd.read(&mut buf[..want]) {
                Ok(0) => break,
                Ok(n) => out.extend_from_slice(&buf[..n]),
                Err(_) => { ok = false; break }
            }
            if out.len() > 1 << 20 { break }
        }
    }
    let total = c.lo.len() + c.st.len();
    let ob = match out.len() { 0 => 0u64, 1 => 1, 2..=7 => 2, 8..=23 => 3, _ => 4 };
    let tb = match total { 0 => 0u64, 1..=3 => 1, 4..=7 => 2, 8..=15 => 3, 16..=31 => 4, 32..=63 => 5, 64..=127 => 6, _ => 7 };
    feature(&[c.kind.starts_with("fixed") as u64, ok as u64, ob, tb, (c.api == "buf") as u64]);
    // number of line ends and semicolons in the encoding against the outcome (extensions, trailers, chunk counts)
    let all: Vec<u8> = c.lo.iter().chain(c.st.iter()).copied().collect();
    let nl = all.iter().filter(|b| **b == b'\n').count().min(8) as u64;
    let sc = all.iter().filter(|b| **b == b';').count().min(3) as u64;
    let first_digits = all.iter().take_while(|b| b.is_ascii_hexdigit()).count().min(20) as u64;
    feature(&[7, ok as u64, nl.min(5), sc.min(2), first_digits.min(18)]);
});
