//! behaviour features for libFuzzer: an input that produces a (input-shape x outcome) combination not seen before is kept in
//! the corpus even when it reaches no new code edge (extra counters section, read by libFuzzer like coverage counters)
#[link_section = "__libfuzzer_extra_counters"]
static mut FEATURES: [u8; 65536] = [0; 65536];

pub fn feature(parts: &[u64]) {
    let mut h: u64 = 0xcbf29ce484222325;
    for p in parts {
        h ^= *p;
        h = h.wrapping_mul(0x100000001b3);
        h ^= h >> 29;
    }
    unsafe {
        let i = (h % 65536) as usize;
        FEATURES[i] = FEATURES[i].saturating_add(1);
    }
}

/// number of decimal digits (0 for None): a coarse bucket of a length / value
pub fn digits(n: Option<u64>) -> u64 {
    match n {
        None => 0,
        Some(v) => v.to_string().len() as u64,
    }
}

/// shape of a field value: 0 empty, 1 all digits, 2 digits with OWS around, 3 digits and one other byte, 4 other
pub fn value_shape(v: &[u8]) -> u64 {
    if v.is_empty() {
        return 0;
    }
    let t: &[u8] = {
        let mut a = 0;
        let mut b = v.len();
        while a < b && (v[a] == b' ' || v[a] == b'\t') { a += 1 }
        while b > a && (v[b - 1] == b' ' || v[b - 1] == b'\t') { b -= 1 }
        &v[a..b]
    };
    let nd = t.iter().filter(|c| c.is_ascii_digit()).count();
    if !t.is_empty() && nd == t.len() {
        return if t.len() == v.len() { 1 } else { 2 };
    }
    if !t.is_empty() && nd + 1 == t.len() {
        return 3;
    }
    4
}
