#![no_main]
use libfuzzer_sys::fuzz_target;
#[path = "feat.rs"]
mod feat;
#[path = "../../harness/src/fuzzdec.rs"]
mod fuzzdec;
use feat::*;
use fuzzdec::HOp;

fn name_class(n: &str) -> u64 {
    let l = n.to_ascii_lowercase();
    match l.as_str() {
        "content-length" => 1,
        "transfer-encoding" => 2,
        "connection" => 3,
        _ => 0,
    }
}

fuzz_target!(|data: &[u8]| {
    let ops = fuzzdec::dec_hdr(data);
    let mut h = khttp::Headers::new_nodate();
    for (i, op) in ops.iter().enumerate() {
        let (kind, nc, vlen, shape) = match op {
            HOp::Add(n, v) => { let _ = h.add(n.as_str(), v.as_slice()); (0u64, name_class(n), v.len().min(64) as u64, value_shape(v)) }
            HOp::Rep(n, v) => { let _ = h.replace(n.as_str(), v.as_slice()); (1, name_class(n), v.len().min(64) as u64, value_shape(v)) }
            HOp::Rm(n) => { let _ = h.remove(n.as_str()); (2, name_class(n), 0, 0) }
            HOp::Scl(n) => { let _ = h.set_content_length(*n); (3, 1, digits(*n), 0) }
            HOp::Ste => { let _ = h.set_transfer_encoding_chunked(); (4, 2, 0, 0) }
            HOp::Scc => { let _ = h.set_connection_close(); (5, 3, 0, 0) }
        };
        // what this operation did to the derived answers, by the shape of what was stored
        let vb = if nc == 1 { vlen } else { match vlen { 0 => 0, 1..=7 => 1, 8..=15 => 2, _ => 3 } };
        let cl = h.get_content_length();
        let clb = if nc == 1 { digits(cl) } else { cl.is_some() as u64 };
        feature(&[kind, nc, vb, shape, clb, h.is_transfer_encoding_chunked() as u64, h.is_connection_close() as u64, h.has_invalid_framing() as u64]);
        let _ = i;
    }
    feature(&[9, h.get_count().min(8) as u64, h.get("content-length").is_some() as u64, h.get("connection").map(|v| v.len().min(8) + 1).unwrap_or(0) as u64,
              h.get("x-sig~1").is_some() as u64, h.get_all("transfer-encoding").count().min(3) as u64]);
});
