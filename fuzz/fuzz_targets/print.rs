#![no_main]
use libfuzzer_sys::fuzz_target;
#[path = "feat.rs"]
mod feat;
#[path = "../../harness/src/fuzzdec.rs"]
mod fuzzdec;
use feat::*;
use fuzzdec::HOp;
use std::io::Read;

struct Pieces { left: usize, pieces: Vec<usize>, k: usize }
impl Read for Pieces {
    fn read(&mut self, buf: &mut [u8]) -> std::io::Result<usize> {
        let piece = if self.k < self.pieces.len() { self.pieces[self.k] } else { buf.len() };
        self.k += 1;
        let n = buf.len().min(piece).min(self.left);
        for b in &mut buf[..n] { *b = b'x' }
        self.left -= n;
        Ok(n)
    }
}

fuzz_target!(|data: &[u8]| {
    let p = fuzzdec::dec_print(data);
    let mut h = if p.nodate { khttp::Headers::new_nodate() } else { khttp::Headers::new() };
    for op in &p.ops {
        match op {
            HOp::Add(n, v) => { let _ = h.add(n.as_str(), v.as_slice()); }
            HOp::Rep(n, v) => { let _ = h.replace(n.as_str(), v.as_slice()); }
            HOp::Rm(n) => { let _ = h.remove(n.as_str()); }
            HOp::Scl(n) => { let _ = h.set_content_length(*n); }
            HOp::Ste => { let _ = h.set_transfer_encoding_chunked(); }
            HOp::Scc => { let _ = h.set_connection_close(); }
        }
    }
    let status = khttp::Status::owned(p.code, String::from_utf8_lossy(&p.reason).to_string());
    let mut out: Vec<u8> = Vec::new();
    let body = vec![b'x'; p.n];
    let rd = Pieces { left: p.n, pieces: p.pieces.clone(), k: 0 };
    let res = match p.entry {
        "empty" => khttp::HttpPrinter::write_response_empty(&mut out, &status, &h),
        "bytes" => khttp::HttpPrinter::write_response_bytes(&mut out, &status, &h, &body),
        "reader" => khttp::HttpPrinter::write_response(&mut out, &status, &h, rd),
        _ => khttp::HttpPrinter::write_request(&mut out, &khttp::Method::from(p.method), p.uri, &h, rd),
    };
    let head_end = out.windows(4).position(|w| w == b"\r\n\r\n").unwrap_or(out.len());
    let head = &out[..head_end];
    let has_cl = head.windows(15).any(|w| w.eq_ignore_ascii_case(b"content-length:"));
    let has_te = head.windows(18).any(|w| w.eq_ignore_ascii_case(b"transfer-encoding:"));
    let e = ["empty", "bytes", "reader", "request"].iter().position(|x| *x == p.entry).unwrap_or(0) as u64;
    let nb = match p.n { 0 => 0u64, 1..=5 => 1, 6..=2047 => 2, 2048 => 3, 2049..=8191 => 4, 8192 => 5, _ => 6 };
    feature(&[e, res.is_ok() as u64, has_cl as u64, has_te as u64, nb, h.get_content_length().map(|c| (c as usize).cmp(&p.n) as i64 + 2).unwrap_or(0) as u64,
              h.is_transfer_encoding_chunked() as u64, (p.pieces.len().min(2)) as u64]);
    feature(&[9, (p.code == 200) as u64, (p.reason == b"OK") as u64, p.code as u64 / 100, p.ops.len().min(4) as u64, h.is_connection_close() as u64]);
});
