#![no_main]
use libfuzzer_sys::fuzz_target;
#[path = "feat.rs"]
mod feat;
use feat::*;

fuzz_target!(|data: &[u8]| {
    match khttp::Request::parse(data) {
        Ok(r) => {
            let h = &r.headers;
            let cl = h.get_content_length();
            feature(&[1, h.get_count().min(6) as u64, digits(cl), h.is_transfer_encoding_chunked() as u64, h.is_connection_close() as u64]);
            let pl = r.uri.path().len();
            let pb = match pl { 0 => 0u64, 1 => 1, 2..=7 => 2, 8 => 3, 9..=15 => 4, 16 => 5, _ => 6 };
            let qb = match r.uri.query().map(|q| q.len()) { None => 0u64, Some(0) => 1, Some(1..=7) => 2, Some(_) => 3 };
            let ab = match r.uri.authority().map(|a| a.len()) { None => 0u64, Some(0..=7) => 1, Some(8) => 2, Some(_) => 3 };
            feature(&[2, pb, qb]);
            feature(&[5, ab, r.uri.scheme().is_some() as u64, r.method.as_str().len().min(9) as u64]);
            // method x target form (origin / absolute / authority / asterisk): every combination is a shape of its own
            let form = if r.uri.as_str() == "*" { 3u64 } else if r.uri.scheme().is_some() { 1 } else if r.uri.as_str().starts_with('/') { 0 } else { 2 };
            let mi = ["GET", "POST", "HEAD", "PUT", "PATCH", "DELETE", "OPTIONS", "TRACE", "CONNECT"].iter().position(|m| *m == r.method.as_str()).unwrap_or(9) as u64;
            feature(&[4, mi, form, r.http_version as u64, (h.get_count() > 0) as u64]);
            // the longest run of digits in the head (a Content-Length numeral of unusual width) against what was decoded
            let mut run = 0u64;
            let mut best = 0u64;
            for b in &data[..r.buf_offset.min(data.len())] {
                if b.is_ascii_digit() { run += 1; best = best.max(run) } else { run = 0 }
            }
            feature(&[3, best.min(50), cl.is_some() as u64]);
            let _ = r.uri.path_and_query();
            let _ = format!("{}", r.uri);
        }
        Err(e) => feature(&[0, format!("{:?}", e).len() as u64, data.len().min(40) as u64]),
    }
});
