#![no_main]
use libfuzzer_sys::fuzz_target;
#[path = "feat.rs"]
mod feat;
use feat::*;

fuzz_target!(|data: &[u8]| {
    match khttp::Request::parse(data) {
        Ok(r) => {
            let h = &r.headers;
            let cl = h.get_content_length();
            feature(&[1, h.get_count().min(6) as u64, digits(cl), h.is_transfer_encoding_chunked() as u64, h.is_connection_close() as u64]);
            feature(&[2, r.method.as_str().len().min(9) as u64, r.uri.path().len().min(20) as u64, r.uri.query().map(|q| q.len().min(9) + 1).unwrap_or(0) as u64,
                      r.uri.scheme().is_some() as u64, r.uri.authority().map(|a| a.len().min(12) + 1).unwrap_or(0) as u64, r.http_version as u64]);
            // the longest run of digits in the head (a Content-Length numeral of unusual width) against what was decoded
            let mut run = 0u64;
            let mut best = 0u64;
            for b in &data[..r.buf_offset.min(data.len())] {
                if b.is_ascii_digit() { run += 1; best = best.max(run) } else { run = 0 }
            }
            feature(&[3, best.min(50), digits(cl)]);
            let _ = r.uri.path_and_query();
            let _ = format!("{}", r.uri);
        }
        Err(e) => feature(&[0, format!("{:?}", e).len() as u64, data.len().min(40) as u64]),
    }
});
