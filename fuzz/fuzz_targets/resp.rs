#![no_main]
use libfuzzer_sys::fuzz_target;
#[path = "feat.rs"]
mod feat;
use feat::*;

fuzz_target!(|data: &[u8]| {
    match khttp::Response::parse(data) {
        Ok(r) => {
            let h = &r.headers;
            feature(&[1, h.get_count().min(6) as u64, digits(h.get_content_length()), h.is_transfer_encoding_chunked() as u64]);
            let rb = match r.status.reason.len() { 0 => 0u64, 1..=7 => 1, 8 => 2, _ => 3 };
            feature(&[2, r.status.code as u64 / 100, rb, r.http_version as u64]);
        }
        Err(e) => feature(&[0, format!("{:?}", e).len() as u64, data.len().min(40) as u64]),
    }
});
