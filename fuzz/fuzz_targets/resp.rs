#![no_main]
use libfuzzer_sys::fuzz_target;
#[path = "feat.rs"]
mod feat;
use feat::*;

fuzz_target!(|data: &[u8]| {
    match khttp::Response::parse(data) {
        Ok(r) => {
            let h = &r.headers;
            feature(&[1, h.get_count().min(6) as u64, digits(h.get_content_length()), h.is_transfer_encoding_chunked() as u64, r.status.code as u64 / 100,
                      r.status.reason.len().min(12) as u64, r.http_version as u64]);
        }
        Err(e) => feature(&[0, format!("{:?}", e).len() as u64, data.len().min(40) as u64]),
    }
});
