#![no_main]
use libfuzzer_sys::fuzz_target;
#[path = "feat.rs"]
mod feat;
#[path = "../../harness/src/fuzzdec.rs"]
mod fuzzdec;
use feat::*;

fn unhex(s: &str) -> Vec<u8> {
    if s == "e" { return Vec::new() }
    (0..s.len() / 2).map(|i| u8::from_str_radix(&s[2 * i..2 * i + 2], 16).unwrap_or(0)).collect()
}

fuzz_target!(|data: &[u8]| {
    // (the line is the canonical form of the case: decode it back the way kimpl does)
    let line = fuzzdec::line_route(data);
    let rest = &line[6..];
    let mut halves = rest.splitn(2, '|');
    let regs = halves.next().unwrap_or("").trim();
    let q = halves.next().unwrap_or("").trim();
    let mut b: khttp::RouterBuilder<i64> = khttp::RouterBuilder::new(-1);
    let mut n = 0u64;
    for (i, r) in regs.split(';').enumerate() {
        let mut it = r.trim().splitn(2, ':');
        let m = it.next().unwrap_or("");
        let p = String::from_utf8(unhex(it.next().unwrap_or("e"))).unwrap_or_default();
        b.add_route(&khttp::Method::from(m), &p, i as i64);
        n += 1;
    }
    let router = b.build();
    let mut it = q.splitn(2, ':');
    let m = it.next().unwrap_or("");
    let p = String::from_utf8(unhex(it.next().unwrap_or("e"))).unwrap_or_default();
    let mt = router.match_route(&khttp::Method::from(m), &p);
    let np = mt.params.iter().count() as u64;
    feature(&[n, (*mt.route + 1) as u64, np.min(9), p.matches('/').count().min(9) as u64]);
});
