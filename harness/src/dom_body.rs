//! BODY domain: BodyReader (Read / BufRead / drop-drain) over a scripted raw stream.
use crate::util::*;
use khttp::BodyReader;
use std::io::{BufRead, Read};
use std::sync::atomic::{AtomicBool, AtomicUsize, Ordering};
use std::sync::Arc;

/// raw stream with TCP-segment semantics: a read takes from the current segment and leaves its rest pending;
/// when the segment list is exhausted everything that is left is one segment
struct Raw {
    data: Vec<u8>,
    pos: usize,
    segs: std::collections::VecDeque<usize>,
    pulled: Arc<AtomicUsize>,
    starved: Arc<AtomicBool>,
    /// `eintr=<k>`: raw read number k (0-based) fails once with `Interrupted`, consuming nothing
    intr_at: Option<usize>,
    reads: usize,
}
impl Read for Raw {
    fn read(&mut self, buf: &mut [u8]) -> std::io::Result<usize> {
        if buf.is_empty() {
            return Ok(0);
        }
        let k = self.reads;
        self.reads += 1;
        if self.intr_at == Some(k) {
            return Err(std::io::Error::new(std::io::ErrorKind::Interrupted, "EINTR"));
        }
        let left = self.data.len() - self.pos;
        if left == 0 {
            self.starved.store(true, Ordering::SeqCst); // the reader ran into the end of the stream
            return Ok(0);
        }
        let g = match self.segs.front() {
            Some(g) => (*g).max(1),
            None => left,
        };
        let n = buf.len().min(g).min(left);
        buf[..n].copy_from_slice(&self.data[self.pos..self.pos + n]);
        self.pos += n;
        if !self.segs.is_empty() {
            self.segs.pop_front();
            if n < g {
                self.segs.push_front(g - n);
            }
        }
        self.pulled.fetch_add(n, Ordering::SeqCst);
        Ok(n)
    }
}

fn nums(v: &str) -> Vec<usize> {
    if v == "-" { Vec::new() } else { v.split(',').filter_map(|s| s.parse().ok()).collect() }
}

pub fn body(arg: &str) -> String {
    let mut kind = "empty".to_string();
    let mut lo: Vec<u8> = Vec::new();
    let mut st: Vec<u8> = Vec::new();
    let mut segs = Vec::new();
    let mut api = "read".to_string();
    let mut sched = Vec::new();
    let mut ek = false;
    let mut intr_at: Option<usize> = None;
    for w in arg.split_whitespace() {
        if let Some(v) = w.strip_prefix("eintr=") { intr_at = v.parse().ok() }
        if let Some(v) = w.strip_prefix("kind=") { kind = v.to_string() }
        if let Some(v) = w.strip_prefix("lo=") { lo = unhex(v) }
        if let Some(v) = w.strip_prefix("st=") { st = unhex(v) }
        if let Some(v) = w.strip_prefix("segs=") { segs = nums(v) }
        if let Some(v) = w.strip_prefix("api=") { api = v.to_string() }
        if let Some(v) = w.strip_prefix("sched=") { sched = nums(v) }
        if w == "ek=1" { ek = true }
    }
    let pulled = Arc::new(AtomicUsize::new(0));
    let starved = Arc::new(AtomicBool::new(false));
    let raw = Raw { data: st, pos: 0, segs: segs.into_iter().collect(), pulled: Arc::clone(&pulled), starved: Arc::clone(&starved), intr_at, reads: 0 };
    let flag = AtomicBool::new(false);
    let reader = if let Some(n) = kind.strip_prefix("fixed:") {
        let n: usize = n.parse().unwrap_or(0);
        if n == 0 { BodyReader::new_empty(raw) } else { BodyReader::new_fixed(&lo, raw, n) }
    } else if kind == "chunked" {
        BodyReader::new_chunked(&lo, raw)
    } else if kind == "eof" {
        BodyReader::new_eof(&lo, raw)
    } else {
        BodyReader::new_empty(raw)
    };
    let mut reader = reader.verif_on_failure(&flag);
    let mut out: Vec<u8> = Vec::new();
    let mut outcome = "END".to_string();
    let size_at = |i: usize| -> usize {
        if sched.is_empty() { 1024 } else { sched[i.min(sched.len() - 1)].max(1) }
    };
    let errname = |e: &std::io::Error| -> &'static str {
        match e.kind() {
            std::io::ErrorKind::UnexpectedEof => "eof",
            std::io::ErrorKind::InvalidData => "invalid",
            _ => "other",
        }
    };
    if api == "read" {
        let mut i = 0;
        loop {
            let mut buf = vec![0u8; size_at(i)];
            i += 1;
            match reader.read(&mut buf) {
                Ok(0) => break,
                Ok(n) => out.extend_from_slice(&buf[..n]),
                // an interrupted read is retried, as `read_to_end` and every careful caller do
                Err(e) if e.kind() == std::io::ErrorKind::Interrupted => continue,
                Err(e) => {
                    outcome = if ek { format!("ERR:{}", errname(&e)) } else { "ERR".into() };
                    break;
                }
            }
            if i > 10_000_000 { outcome = "LOOP".into(); break; }
        }
    } else if api == "buf" {
        let mut i = 0;
        loop {
            let k = size_at(i);
            i += 1;
            let n = match reader.fill_buf() {
                Ok(b) => {
                    if b.is_empty() { break; }
                    let n = k.min(b.len());
                    out.extend_from_slice(&b[..n]);
                    n
                }
                Err(e) if e.kind() == std::io::ErrorKind::Interrupted => continue,
                Err(e) => {
                    outcome = if ek { format!("ERR:{}", errname(&e)) } else { "ERR".into() };
                    break;
                }
            };
            reader.consume(n);
            if i > 10_000_000 { outcome = "LOOP".into(); break; }
        }
    }
    drop(reader); // drain (api=drain: nothing was read before)
    let fail = flag.load(Ordering::SeqCst);
    if api == "drain" {
        outcome = if fail { "ERR".into() } else { "END".into() };
    }
    format!(
        "DATA {} {} pulled={} fail={} starved={}",
        hex(&out),
        outcome,
        pulled.load(Ordering::SeqCst),
        fail as u8,
        starved.load(Ordering::SeqCst) as u8
    )
}
