//! CLI domain: `Client::exchange` against a scripted origin server that writes the response in the given
//! segments (with pauses, TCP_NODELAY) and then closes or keeps the connection open.
use crate::util::*;
use khttp::{Client, ClientError, Headers, Method};
use std::io::{Read, Write};
use std::net::TcpListener;
use std::time::Duration;

/// `CLI segs=<hex>,<hex>,… close=<0|1>`
pub fn cli(arg: &str) -> String {
    let mut segs: Vec<Vec<u8>> = Vec::new();
    let mut close = true;
    for w in arg.split_whitespace() {
        if let Some(v) = w.strip_prefix("segs=") {
            segs = v.split(',').filter(|s| !s.is_empty()).map(unhex).collect();
        }
        if let Some(v) = w.strip_prefix("close=") {
            close = v == "1";
        }
    }
    let listener = TcpListener::bind("127.0.0.1:0").unwrap();
    let addr = listener.local_addr().unwrap();
    let (tx_done, rx_done) = std::sync::mpsc::channel::<()>();
    let srv = std::thread::spawn(move || {
        let (mut s, _) = listener.accept().unwrap();
        s.set_nodelay(true).ok();
        // read the request head
        let mut buf = Vec::new();
        let mut tmp = [0u8; 4096];
        s.set_read_timeout(Some(Duration::from_millis(1000))).ok();
        while !buf.windows(4).any(|w| w == b"\r\n\r\n") {
            match s.read(&mut tmp) {
                Ok(0) | Err(_) => break,
                Ok(n) => buf.extend_from_slice(&tmp[..n]),
            }
        }
        for seg in &segs {
            if s.write_all(seg).is_err() {
                break;
            }
            let _ = s.flush();
            std::thread::sleep(Duration::from_millis(3));
        }
        if close {
            let _ = s.shutdown(std::net::Shutdown::Write);
        }
        // keep the socket until the client side is done (or a deadline passes)
        let _ = rx_done.recv_timeout(Duration::from_millis(1500));
    });
    let (tx_res, rx_res) = std::sync::mpsc::channel::<String>();
    std::thread::spawn(move || {
        let mut client = Client::new(addr);
        let out = match client.exchange(&Method::Get, "/", Headers::empty_nodate(), std::io::empty()) {
            Ok(mut h) => {
                let mut hs = String::new();
                for (k, v) in h.headers.iter() {
                    if !hs.is_empty() {
                        hs.push(',');
                    }
                    hs.push_str(&hex(k.as_bytes()));
                    hs.push(':');
                    hs.push_str(&hex(v));
                }
                if hs.is_empty() {
                    hs.push('e');
                }
                let cl = match h.headers.get_content_length() {
                    Some(n) => n.to_string(),
                    None => "-".into(),
                };
                let ch = h.headers.is_transfer_encoding_chunked() as u8;
                let code = h.status.code;
                let reason = hex(h.status.reason.as_bytes());
                h.stream().set_read_timeout(Some(Duration::from_millis(400))).ok();
                let body = match h.body().vec() {
                    Ok(b) => format!("body={}", hex(&b)),
                    Err(e) => format!("bodyerr={:?}", e.kind()),
                };
                format!("OK c={} r={} h={} cl={} ch={} {}", code, reason, hs, cl, ch, body)
            }
            Err(ClientError::UnexpectedEof) => "ERR unexpectedEof".into(),
            Err(ClientError::ParsingFailure(khttp::HttpParsingError::UnexpectedEof)) => "ERR headTooLarge".into(),
            Err(ClientError::ParsingFailure(_)) => "ERR parsing".into(),
            Err(ClientError::ReadFailure(_)) => "ERR read".into(),
            Err(_) => "ERR other".into(),
        };
        let _ = tx_res.send(out);
    });
    let res = rx_res.recv_timeout(Duration::from_millis(1200)).unwrap_or_else(|_| "ERR hang".into());
    let _ = tx_done.send(());
    let _ = srv.join();
    res
}
