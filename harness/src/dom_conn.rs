//! CONN domain: one keep-alive connection served by the REAL `Server::handle` (handle_connection) on a
//! loopback socket pair; the client side is played from a script with exact, gated segmentation.
//!
//! Fixed server configuration — handler behaviour is selected by the request itself:
//!   POST /echo        read the whole body, answer 200 with it
//!   POST /noread      answer 200 "noread" without touching the body
//!   POST /read/:k     read exactly k bytes (or to end), answer 200 with them
//!   POST /early       answer 200 "early" first, then read the whole body
//!   POST /swallow     read the body ignoring errors (unwrap_or_default), answer 200 with its length
//!   GET  /close       answer 200 with a `connection: close` response header
//!   GET  /err         handler returns Err without answering
//!   GET  /errint      handler returns Err of kind Interrupted without answering
//!   GET  /bigr/:n     answer 200 from a reader of n bytes 'x' (auto framing)
//!   GET  /p/:a/:b     answer 200 "<a>,<b>"
//!   anything else     404 (fallback)
//! pre-routing hook:  request header `x-hook: drop` -> 405 + Drop; `x-hook: dropclose` -> 405 with
//!   `connection: close` + Drop; otherwise Proceed.
use crate::interpose::{RECV_COUNT, RECV_FAIL_AT, RECV_FAIL_ERRNO, RECV_LOG_FD, RECV_MAX_LEN, RECV_PARKED};
use crate::util::*;
use khttp::{Headers, Method, PreRoutingAction, Server, Status};
use std::io::{Read, Write};
use std::net::{TcpListener, TcpStream};
use std::os::unix::io::AsRawFd;
use std::sync::atomic::Ordering;
use std::time::{Duration, Instant};

pub fn build_server(max_head: usize) -> Server {
    let mut b = Server::builder("127.0.0.1:0").unwrap();
    b.max_request_head_size(max_head);
    b.thread_count(1);
    b.route(Method::Post, "/echo", |mut ctx, res| {
        let body = ctx.body().vec()?;
        res.ok(Headers::empty_nodate(), body)
    });
    b.route(Method::Post, "/noread", |_ctx, res| res.ok(Headers::empty_nodate(), "noread"));
    b.route(Method::Post, "/read/:k", |mut ctx, res| {
        let k: usize = ctx.params.get("k").and_then(|s| s.parse().ok()).unwrap_or(0);
        let mut buf = vec![0u8; k];
        let mut got = 0;
        while got < k {
            let n = ctx.body().read(&mut buf[got..])?;
            if n == 0 {
                break;
            }
            got += n;
        }
        res.ok(Headers::empty_nodate(), &buf[..got])
    });
    b.route(Method::Post, "/early", |mut ctx, res| {
        res.ok(Headers::empty_nodate(), "early")?;
        let _ = ctx.body().vec()?;
        Ok(())
    });
    b.route(Method::Post, "/swallow", |mut ctx, res| {
        let body = ctx.body().vec().unwrap_or_default();
        res.ok(Headers::empty_nodate(), body.len().to_string())
    });
    b.route(Method::Get, "/close", |_ctx, res| {
        let mut h = Headers::new_nodate();
        h.set_connection_close();
        res.ok(&h, "bye")
    });
    // connection: close announced on responses with an EMPTY body, through each of the handle's sending methods
    b.route(Method::Get, "/closeempty/:how", |ctx, res| {
        let mut h = Headers::new_nodate();
        h.set_connection_close();
        match ctx.params.get("how") {
            Some("ok") => res.ok(&h, ""),
            Some("send") => res.send(&Status::OK, &h, b""),
            Some("send0") => res.send0(&Status::OK, &h),
            Some("okr") => res.okr(&h, std::io::empty()),
            _ => res.sendr(&Status::OK, &h, std::io::empty()),
        }
    });
    // a header set edited with `replace` before it is passed to the handle: what goes out on the wire and what the server does
    // with the connection must agree
    b.route(Method::Get, "/closerep/:how", |ctx, res| {
        let mut h = Headers::new_nodate();
        match ctx.params.get("how") {
            Some("toclose") => {
                h.add("connection", &b"keep-alive"[..]);
                h.replace("connection", &b"close"[..]);
            }
            Some("tokeep") => {
                h.set_connection_close();
                h.replace("connection", &b"keep-alive"[..]);
            }
            Some("twice") => {
                h.add("Connection", &b"close"[..]);
                h.add("x-a", &b"1"[..]);
                h.replace("CONNECTION", &b"upgrade"[..]);
            }
            _ => {
                h.add("connection", &b"x"[..]);
                let _ = h.remove("Connection");
                h.add("connection", &b"Close"[..]);
            }
        }
        res.ok(&h, "rep")
    });
    // ... and with a body, through the reader variants
    b.route(Method::Get, "/closer/:n", |ctx, res| {
        let n: u64 = ctx.params.get("n").and_then(|s| s.parse().ok()).unwrap_or(0);
        let mut h = Headers::new_nodate();
        h.add("Connection", &b"keep-alive, Close"[..]);
        res.sendr(&Status::OK, &h, std::io::repeat(b'x').take(n))
    });
    b.route(Method::Get, "/err", |_ctx, _res| Err(std::io::Error::other("handler error")));
    // a body on methods that usually have none: the framing fields decide, not the method
    for m in [Method::Get, Method::Put, Method::Delete] {
        b.route(m, "/gecho", |mut ctx, res| {
            let body = ctx.body().vec()?;
            res.ok(Headers::empty_nodate(), body)
        });
    }
    // interim response first (Expect: 100-continue), then the body is read and echoed
    b.route(Method::Post, "/continue", |mut ctx, res| {
        res.send_100_continue()?;
        let body = ctx.body().vec()?;
        res.ok(Headers::empty_nodate(), body)
    });
    // the handler returns Ok without answering: nothing is sent, the connection stays usable
    b.route(Method::Get, "/silent", |_ctx, _res| Ok(()));
    // the handler fails with an error of the named kind (a failed write to a peer that went away, a truncated upload, ...)
    b.route(Method::Get, "/errkind/:k", |ctx, _res| {
        use std::io::ErrorKind::*;
        let kind = match ctx.params.get("k") {
            Some("brokenpipe") => BrokenPipe,
            Some("reset") => ConnectionReset,
            Some("aborted") => ConnectionAborted,
            Some("eof") => UnexpectedEof,
            Some("wouldblock") => WouldBlock,
            Some("interrupted") => Interrupted,
            Some("timedout") => TimedOut,
            Some("invaliddata") => InvalidData,
            _ => Other,
        };
        Err(std::io::Error::new(kind, "handler error"))
    });
    b.route(Method::Get, "/errint", |_ctx, _res| {
        Err(std::io::Error::new(std::io::ErrorKind::Interrupted, "interrupted"))
    });
    b.route(Method::Get, "/bigr/:n", |ctx, res| {
        let n: u64 = ctx.params.get("n").and_then(|s| s.parse().ok()).unwrap_or(0);
        res.okr(Headers::empty_nodate(), std::io::repeat(b'x').take(n))
    });
    b.route(Method::Get, "/p/:a/:b", |ctx, res| {
        let s = format!("{},{}", ctx.params.get("a").unwrap_or("?"), ctx.params.get("b").unwrap_or("?"));
        res.ok(Headers::empty_nodate(), s)
    });
    // the fallback gets an EMPTY parameter set (C12): anything left over from an earlier lookup or request shows as a 500
    b.fallback_route(|ctx, res| {
        if ctx.params.iter().next().is_some() {
            return res.ok(Headers::empty_nodate(), "stale-params");
        }
        res.send0(&Status::NOT_FOUND, Headers::empty_nodate())
    });
    b.pre_routing_hook(|req, res| match req.headers.get("x-hook") {
        Some(b"drop") => {
            let _ = res.send0(&Status::of(405), Headers::empty_nodate());
            PreRoutingAction::Drop
        }
        Some(b"dropclose") => {
            let mut h = Headers::new_nodate();
            h.set_connection_close();
            let _ = res.send0(&Status::of(405), &h);
            PreRoutingAction::Drop
        }
        // the hook edits the request's header set (removes an internal field) and lets the request through
        Some(b"strip") => {
            req.headers.remove("x-internal-auth");
            PreRoutingAction::Proceed
        }
        // the hook answers with an empty body through `send` and announces close
        Some(b"dropclosesend") => {
            let mut h = Headers::new_nodate();
            h.set_connection_close();
            let _ = res.send(&Status::of(405), &h, b"");
            PreRoutingAction::Drop
        }
        _ => PreRoutingAction::Proceed,
    });
    b.build()
}

fn fionread(fd: i32) -> i32 {
    let mut n: libc::c_int = 0;
    unsafe { libc::ioctl(fd, libc::FIONREAD, &mut n) };
    n
}

/// Reads one response (head, then body by content-length / chunked). Ok(None) = clean EOF before any byte.
pub fn read_response(c: &mut TcpStream, pending: &mut Vec<u8>, timeout: Duration) -> Result<Option<(u16, bool, Vec<u8>)>, &'static str> {
    read_response_idle(c, pending, timeout, &|| false)
}

/// As `read_response`, but gives up early (HANG) once `idle()` holds on two consecutive polls 15 ms apart with nothing
/// arriving in between: `idle` is evidence that the server is waiting for the client (parked in a read with nothing left to
/// read), so no further byte can come — a verdict that does not depend on how loaded the machine is.
pub fn read_response_idle(c: &mut TcpStream, pending: &mut Vec<u8>, timeout: Duration, idle: &dyn Fn() -> bool) -> Result<Option<(u16, bool, Vec<u8>)>, &'static str> {
    let deadline = Instant::now() + timeout;
    let mut tmp = [0u8; 65536];
    let mut fill = |c: &mut TcpStream, pending: &mut Vec<u8>| -> Result<bool, &'static str> {
        let mut idle_seen = false;
        loop {
            let left = deadline.saturating_duration_since(Instant::now());
            if left.is_zero() {
                return Err("HANG");
            }
            c.set_read_timeout(Some(left.min(Duration::from_millis(15)).max(Duration::from_millis(1)))).ok();
            match c.read(&mut tmp) {
                Ok(0) => return Ok(false),
                Ok(n) => {
                    pending.extend_from_slice(&tmp[..n]);
                    return Ok(true);
                }
                Err(e) if e.kind() == std::io::ErrorKind::WouldBlock || e.kind() == std::io::ErrorKind::TimedOut => {
                    if idle() {
                        if idle_seen {
                            return Err("HANG");
                        }
                        idle_seen = true;
                    } else {
                        idle_seen = false;
                    }
                }
                Err(_) => return Ok(false), // reset: treat as closed
            }
        }
    };
    // head
    let head_end = loop {
        if let Some(p) = pending.windows(4).position(|w| w == b"\r\n\r\n") {
            break p + 4;
        }
        if !fill(c, pending)? {
            return if pending.is_empty() { Ok(None) } else { Err("TRUNC") };
        }
    };
    let head = pending[..head_end].to_vec();
    let text = String::from_utf8_lossy(&head).to_lowercase();
    let status: u16 = text.get(9..12).and_then(|s| s.parse().ok()).unwrap_or(0);
    let close = text.lines().any(|l| l.starts_with("connection:") && l.contains("close"));
    let cl: Option<usize> = text.lines().find_map(|l| l.strip_prefix("content-length:").and_then(|v| v.trim().parse().ok()));
    let chunked = text.lines().any(|l| l.starts_with("transfer-encoding:") && l.contains("chunked"));
    pending.drain(..head_end);
    let mut body = Vec::new();
    if chunked {
        loop {
            let nl = loop {
                if let Some(p) = pending.windows(2).position(|w| w == b"\r\n") {
                    break p;
                }
                if !fill(c, pending)? {
                    return Err("TRUNC");
                }
            };
            let size = usize::from_str_radix(String::from_utf8_lossy(&pending[..nl]).trim(), 16).map_err(|_| "BADCHUNK")?;
            pending.drain(..nl + 2);
            while pending.len() < size + 2 {
                if !fill(c, pending)? {
                    return Err("TRUNC");
                }
            }
            if size == 0 {
                pending.drain(..2);
                break;
            }
            body.extend_from_slice(&pending[..size]);
            pending.drain(..size + 2);
        }
    } else if let Some(n) = cl {
        while pending.len() < n {
            if !fill(c, pending)? {
                return Err("TRUNC");
            }
        }
        body.extend_from_slice(&pending[..n]);
        pending.drain(..n);
    }
    Ok(Some((status, close, body)))
}

/// `CONN max=<N> [rto=<ms>] script=<step>,<step>,…` with steps `s:<hex>` (send one segment, then wait until the server
/// has consumed it), `r` (read one response), `c` (half-close the sending side), `e` (EOF or still open?), `w:<ms>`
/// (the client stalls). `rto` = read time-out set on the accepted socket. "Still open" / "no response is coming" are
/// decided from the server being parked in `recv` on the connection with nothing left to read, not from a short timer.
pub fn conn(arg: &str) -> String {
    let mut max = 4096usize;
    let mut script = "";
    let mut warm = 0usize;
    let mut rto = 0u64;
    let mut fail_at: i64 = -1;
    let mut fail_errno = 0;
    for w in arg.split_whitespace() {
        if let Some(v) = w.strip_prefix("rto=") { rto = v.parse().unwrap_or(0) }
        if let Some(v) = w.strip_prefix("fail=") {
            // fail=<k>:<EINTR|EAGAIN|ECONNRESET|ETIMEDOUT>: the k-th read of the server on this connection fails that way
            let mut it = v.split(':');
            fail_at = it.next().and_then(|x| x.parse().ok()).unwrap_or(-1);
            fail_errno = match it.next().unwrap_or("") {
                "EINTR" => libc::EINTR,
                "EAGAIN" => libc::EAGAIN,
                "ETIMEDOUT" => libc::ETIMEDOUT,
                _ => libc::ECONNRESET,
            };
        }
        if let Some(v) = w.strip_prefix("max=") { max = v.parse().unwrap_or(4096) }
        if let Some(v) = w.strip_prefix("script=") { script = v }
        if let Some(v) = w.strip_prefix("warm=") { warm = v.parse().unwrap_or(0) }
    }
    let server = build_server(max);
    // `warm=M`: the SAME thread first serves a connection of another server whose head limit is M
    // (per-thread state such as the request buffer must not leak from one server configuration into the next)
    let warm_pair = if warm > 0 {
        let l = TcpListener::bind("127.0.0.1:0").unwrap();
        let mut c = TcpStream::connect(l.local_addr().unwrap()).unwrap();
        let (s, _) = l.accept().unwrap();
        let _ = c.write_all(b"GET /p/1/2 HTTP/1.1\r\n\r\n");
        let _ = c.shutdown(std::net::Shutdown::Write);
        Some((build_server(warm), s, c))
    } else {
        None
    };
    let listener = TcpListener::bind("127.0.0.1:0").unwrap();
    let addr = listener.local_addr().unwrap();
    let mut client = TcpStream::connect(addr).unwrap();
    client.set_nodelay(true).ok();
    let (srv_stream, _) = listener.accept().unwrap();
    srv_stream.set_nodelay(true).ok();
    if rto > 0 {
        // what a connection set-up hook does in the README: reads on the accepted socket time out
        srv_stream.set_read_timeout(Some(Duration::from_millis(rto))).ok();
    }
    let srv_fd = srv_stream.as_raw_fd();
    // (after the client's FIN the server's pending read returns 0 as soon as it is scheduled: a FIN does not show in FIONREAD)
    let client_shut = std::sync::atomic::AtomicBool::new(false);
    let idle = || !client_shut.load(Ordering::SeqCst) && RECV_PARKED.load(Ordering::SeqCst) > 0 && fionread(srv_fd) == 0;
    RECV_MAX_LEN.store(0, Ordering::SeqCst);
    RECV_COUNT.store(0, Ordering::SeqCst);
    RECV_FAIL_ERRNO.store(fail_errno, Ordering::SeqCst);
    RECV_FAIL_AT.store(fail_at, Ordering::SeqCst);
    RECV_LOG_FD.store(srv_fd, Ordering::SeqCst);
    let th = std::thread::spawn(move || {
        if let Some((ws, wstream, wclient)) = warm_pair {
            let _ = ws.handle(&wstream);
            drop(wstream);
            drop(wclient);
        }
        let r = server.handle(&srv_stream);
        drop(srv_stream);
        r.is_ok()
    });
    let mut out: Vec<String> = Vec::new();
    let mut pending = Vec::new();
    for step in script.split(',') {
        if step.is_empty() {
            continue;
        }
        if let Some(h) = step.strip_prefix("s:") {
            let data = unhex(h);
            if client.write_all(&data).is_err() {
                // the server already closed the connection: not an observation about the server's answers
                continue;
            }
            // gate: wait until the server has taken the segment (or has stopped reading)
            let t0 = Instant::now();
            // (raw fd only: a dup would keep the connection open after the server closed it)
            while !th.is_finished() && fionread(srv_fd) > 0 && t0.elapsed() < Duration::from_millis(120) {
                std::thread::sleep(Duration::from_micros(200));
            }
        } else if step == "r" {
            match read_response_idle(&mut client, &mut pending, Duration::from_millis(6000), &idle) {
                Ok(Some((st, close, body))) => out.push(format!("R{}:{}:{}", st, close as u8, hex(&body))),
                Ok(None) => out.push("EOF".into()),
                Err(e) => out.push(e.into()),
            }
        } else if let Some(ms) = step.strip_prefix("w:") {
            // the client stalls (longer than the server's read time-out when the case sets one)
            std::thread::sleep(Duration::from_millis(ms.parse().unwrap_or(0)));
        } else if step == "c" {
            client_shut.store(true, Ordering::SeqCst);
            let _ = client.shutdown(std::net::Shutdown::Write);
        } else if step == "e" {
            match read_response_idle(&mut client, &mut pending, Duration::from_millis(if rto > 0 { 400 } else { 4000 }), &idle) {
                Ok(None) => out.push("EOF".into()),
                Ok(Some((st, close, body))) => out.push(format!("R{}:{}:{}", st, close as u8, hex(&body))),
                Err("HANG") => out.push("OPEN".into()),
                Err(e) => out.push(e.into()),
            }
        }
    }
    let maxrecv = RECV_MAX_LEN.load(Ordering::SeqCst);
    let recvs = RECV_COUNT.load(Ordering::SeqCst);
    RECV_LOG_FD.store(-1, Ordering::SeqCst);
    RECV_FAIL_AT.store(-1, Ordering::SeqCst);
    drop(client);
    let t0 = Instant::now();
    while !th.is_finished() && t0.elapsed() < Duration::from_millis(2000) {
        std::thread::sleep(Duration::from_millis(1));
    }
    let fin = if th.is_finished() { if th.join().unwrap_or(false) { "ok" } else { "err" } } else { "stuck" };
    format!("T {} maxrecv={} srv={} recvs={}", if out.is_empty() { "-".to_string() } else { out.join(",") }, maxrecv, fin, recvs)
}
