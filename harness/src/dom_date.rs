//! DATE / DATECACHE domains: khttp::date
use crate::interpose::{FAKE_CLOCK, FAKE_SEC};
use crate::util::*;
use std::sync::atomic::Ordering;

pub fn date(arg: &str) -> String {
    let secs: i64 = match arg.trim().parse() {
        Ok(v) => v,
        Err(_) => return "BAD-ARG".into(),
    };
    match std::panic::catch_unwind(|| khttp::date::get_date_from_secs(secs)) {
        Ok(b) => hex(&b),
        Err(_) => "PANIC".into(),
    }
}

/// successive get_date_now() calls of ONE fresh thread (fresh thread-local cache), the coarse clock
/// returning the scripted readings
pub fn date_cache(arg: &str) -> String {
    let readings: Vec<i64> = arg.trim().split(',').filter(|s| !s.is_empty()).filter_map(|s| s.trim().parse().ok()).collect();
    let h = std::thread::spawn(move || {
        let mut out = Vec::new();
        FAKE_CLOCK.store(true, Ordering::SeqCst);
        for r in readings {
            FAKE_SEC.store(r, Ordering::SeqCst);
            let b = khttp::date::get_date_now();
            out.push(hex(&b));
        }
        FAKE_CLOCK.store(false, Ordering::SeqCst);
        out.join(",")
    });
    match h.join() {
        Ok(s) => s,
        Err(_) => {
            FAKE_CLOCK.store(false, Ordering::SeqCst);
            "PANIC".into()
        }
    }
}
