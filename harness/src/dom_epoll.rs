//! EPOLL domain: the real `serve_epoll` under concurrent scripted clients, with the cfg-gated trace,
//! injected EPOLL_CTL_ADD failures, per-socket close counts and a census of live connection records.
//!
//!   EPOLL w=<workers> failadd=<i,j|-> plan=<step>,<step>,…
//!   steps: o<i> open connection i | s<i>:<hex> send (one complete request) | r<i> read one response |
//!          x<i> close connection i | h<i> half-close | w short pause (3 ms) | z long pause (40 ms) |
//!          y wait until a `/slow` handler has started since the previous y (its request is off the socket) |
//!          H / U hold / release the event loop inside the set-up hook | q<n> wait for the n-th hook entry | O<i> open, no pause
//! Output: `E tr=<conn transcripts '/'-separated> ev=<raw trace> closes=<peerport:count,…> ports=<port per conn>
//!          live_before_stop=<records> returned=<0|1>`
use crate::dom_conn::read_response;
use crate::interpose::{ADD_FAIL_PLAN, CLOSE_LOG, CLOSE_LOG_ON};
use crate::util::*;
use khttp::{ConnectionSetupAction, Headers, Method, Server, Status};
use std::io::Write;
use std::net::TcpStream;
use std::sync::atomic::{AtomicBool, Ordering};
use std::sync::Arc;
use std::time::{Duration, Instant};

pub fn epoll(arg: &str) -> String {
    let mut workers = 2usize;
    let mut plan = "";
    let mut failadd: Vec<usize> = Vec::new();
    let mut maxev: usize = 0;
    for w in arg.split_whitespace() {
        if let Some(v) = w.strip_prefix("maxev=") { maxev = v.parse().unwrap_or(0) }
        if let Some(v) = w.strip_prefix("w=") { workers = v.parse().unwrap_or(2) }
        if let Some(v) = w.strip_prefix("plan=") { plan = v }
        if let Some(v) = w.strip_prefix("failadd=") {
            if v != "-" { failadd = v.split(',').filter_map(|s| s.parse().ok()).collect() }
        }
    }
    let port = crate::dom_serve::free_port();   // (own block of ports per process, see there)
    let stop = Arc::new(AtomicBool::new(false));
    let mut b = Server::builder(format!("127.0.0.1:{port}")).unwrap();
    b.thread_count(workers);
    if maxev > 0 {
        // a tiny event buffer: every batch is "full"
        b.epoll_queue_max_events(maxev);
    }
    b.route(Method::Post, "/echo", |mut ctx, res| {
        let body = ctx.body().vec()?;
        res.ok(Headers::empty_nodate(), body)
    });
    let slow_started: Arc<std::sync::Mutex<std::collections::HashMap<u16, usize>>> = Arc::new(Default::default());
    let slow2 = Arc::clone(&slow_started);
    b.route(Method::Get, "/slow/:ms", move |ctx, res| {
        // the request has been read off the socket: from now on a further request of this connection arrives separately
        if let Ok(peer) = ctx.get_stream().peer_addr() {
            *slow2.lock().unwrap().entry(peer.port()).or_insert(0) += 1;
        }
        let ms: u64 = ctx.params.get("ms").and_then(|s| s.parse().ok()).unwrap_or(0);
        std::thread::sleep(Duration::from_millis(ms));
        res.ok(Headers::empty_nodate(), "slow")
    });
    b.route(Method::Get, "/close", |_ctx, res| {
        let mut h = Headers::new_nodate();
        h.set_connection_close();
        res.ok(&h, "bye")
    });
    b.route(Method::Get, "/err", |_ctx, _res| Err(std::io::Error::other("handler error")));
    b.route(Method::Get, "/p/:a/:b", |ctx, res| {
        let s = format!("{},{}", ctx.params.get("a").unwrap_or("?"), ctx.params.get("b").unwrap_or("?"));
        res.ok(Headers::empty_nodate(), s)
    });
    b.fallback_route(|_ctx, res| res.send0(&Status::NOT_FOUND, Headers::empty_nodate()));
    let stop2 = Arc::clone(&stop);
    // `H` / `U` steps: while HOLD is set the set-up hook (which runs on the event-loop thread) does not return, so that
    // several clients can connect between two looks of the loop at the listener; SETUPS counts hook entries (`q<n>` waits)
    let hold = Arc::new(AtomicBool::new(false));
    let setups = Arc::new(std::sync::atomic::AtomicUsize::new(0));
    let (hold2, setups2) = (Arc::clone(&hold), Arc::clone(&setups));
    b.connection_setup_hook(move |conn| match conn {
        Ok((stream, _)) => {
            setups2.fetch_add(1, Ordering::SeqCst);
            let th = Instant::now();
            while hold2.load(Ordering::SeqCst) && th.elapsed() < Duration::from_millis(3000) {
                std::thread::sleep(Duration::from_micros(200));
            }
            if stop2.load(Ordering::SeqCst) {
                ConnectionSetupAction::StopAccepting
            } else {
                let _ = stream.set_read_timeout(Some(Duration::from_millis(3000)));
                ConnectionSetupAction::Proceed(stream)
            }
        }
        Err(_) => ConnectionSetupAction::Drop,
    });
    let server = b.build();
    khttp::verif::reset();
    *ADD_FAIL_PLAN.lock().unwrap() = (0, failadd.clone());
    CLOSE_LOG.lock().unwrap().clear();
    CLOSE_LOG_ON.store(true, Ordering::SeqCst);
    let live0 = crate::live_records();
    let (tx, rx) = std::sync::mpsc::channel();
    std::thread::spawn(move || {
        let r = server.serve_epoll();
        let _ = tx.send(r.is_ok());
    });
    let t0 = Instant::now();
    let mut conns: Vec<Option<TcpStream>> = Vec::new();
    let mut pend: Vec<Vec<u8>> = Vec::new();
    let mut trs: Vec<Vec<String>> = Vec::new();
    let mut ports: Vec<u16> = Vec::new();
    let idx = |s: &str| -> usize { s.parse().unwrap_or(0) };
    let mut seen_slow: std::collections::HashMap<u16, usize> = Default::default();
    for step in plan.split(',') {
        if step.is_empty() {
            continue;
        }
        let (op, rest) = step.split_at(1);
        match op {
            "H" => hold.store(true, Ordering::SeqCst),
            "U" => hold.store(false, Ordering::SeqCst),
            "q" => {
                let want = idx(rest);
                let t = Instant::now();
                while setups.load(Ordering::SeqCst) < want && t.elapsed() < Duration::from_millis(2000) {
                    std::thread::sleep(Duration::from_micros(200));
                }
            }
            "o" | "O" => {
                let i = idx(rest);
                let c = loop {
                    match TcpStream::connect(("127.0.0.1", port)) {
                        Ok(c) => break Some(c),
                        Err(_) if t0.elapsed() < Duration::from_millis(2000) => std::thread::sleep(Duration::from_millis(2)),
                        Err(_) => break None,
                    }
                };
                while conns.len() <= i {
                    conns.push(None);
                    pend.push(Vec::new());
                    trs.push(Vec::new());
                    ports.push(0);
                }
                if let Some(c) = &c {
                    c.set_nodelay(true).ok();
                    ports[i] = c.local_addr().map(|a| a.port()).unwrap_or(0);
                }
                conns[i] = c;
                // let the accept be processed before anything else happens on the listener (`O`: no pause — a burst of connects)
                if op == "o" {
                    std::thread::sleep(Duration::from_millis(4));
                }
            }
            "s" => {
                let mut it = rest.splitn(2, ':');
                let i = idx(it.next().unwrap_or("0"));
                let data = unhex(it.next().unwrap_or("e"));
                if let Some(Some(c)) = conns.get_mut(i) {
                    khttp::verif::emit(format!("CS:{}", ports[i]));
                    if data.starts_with(b"GET /slow/") {
                        *seen_slow.entry(ports[i]).or_insert(0) += 1;
                    }
                    let _ = c.write_all(&data);
                }
            }
            "r" => {
                let i = idx(rest);
                if let Some(Some(c)) = conns.get_mut(i) {
                    match read_response(c, &mut pend[i], Duration::from_millis(4000)) {
                        Ok(Some((st, close, body))) => trs[i].push(format!("R{}:{}:{}", st, close as u8, hex(&body))),
                        Ok(None) => trs[i].push("EOF".into()),
                        Err(e) => trs[i].push(e.into()),
                    }
                }
            }
            "x" => {
                let i = idx(rest);
                if let Some(c) = conns.get_mut(i) {
                    if c.is_some() {
                        khttp::verif::emit(format!("CC:{}", ports[i]));
                    }
                    *c = None;
                }
            }
            "h" => {
                let i = idx(rest);
                if let Some(Some(c)) = conns.get(i) {
                    khttp::verif::emit(format!("CC:{}", ports[i]));
                    let _ = c.shutdown(std::net::Shutdown::Write);
                }
            }
            "w" => std::thread::sleep(Duration::from_millis(3)),
            "y" => {
                // y<i>: wait until every `/slow` request sent so far on connection i has had its handler started
                let i = idx(rest);
                let port = ports.get(i).copied().unwrap_or(0);
                let want = seen_slow.get(&port).copied().unwrap_or(0);
                let t = Instant::now();
                loop {
                    let now = slow_started.lock().unwrap().get(&port).copied().unwrap_or(0);
                    if now >= want || t.elapsed() > Duration::from_millis(400) {
                        break;
                    }
                    std::thread::sleep(Duration::from_micros(300));
                }
            }
            "z" => std::thread::sleep(Duration::from_millis(40)),
            _ => {}
        }
    }
    // quiesce, then take the census BEFORE stopping (StopAccepting abandons whatever is still open: known finding)
    // (wait until the server has released what it is going to release — at most 1.5 s — rather than a fixed pause: under
    // load a worker may still be on its way through the close path)
    let tq = Instant::now();
    std::thread::sleep(Duration::from_millis(20));
    while crate::live_records() - live0 > 0 && tq.elapsed() < Duration::from_millis(1500) {
        std::thread::sleep(Duration::from_millis(2));
    }
    std::thread::sleep(Duration::from_millis(10));
    let live_before = crate::live_records() - live0;
    stop.store(true, Ordering::SeqCst);
    let _ = TcpStream::connect(("127.0.0.1", port));
    let returned = rx.recv_timeout(Duration::from_millis(4500)).is_ok(); // > the 3 s read time-out of a worker pinned by a spurious dispatch (K14)
    std::thread::sleep(Duration::from_millis(10));
    CLOSE_LOG_ON.store(false, Ordering::SeqCst);
    *ADD_FAIL_PLAN.lock().unwrap() = (0, Vec::new());
    let ev = collapse_spin(khttp::verif::take());
    let closes: Vec<String> = {
        let log = CLOSE_LOG.lock().unwrap();
        let mut m: std::collections::BTreeMap<u16, u32> = std::collections::BTreeMap::new();
        for p in log.iter() {
            *m.entry(*p).or_insert(0) += 1;
        }
        m.iter().map(|(p, n)| format!("{}:{}", p, n)).collect()
    };
    drop(conns);
    format!(
        "E tr={} ev={} closes={} ports={} live_before_stop={} returned={}",
        trs.iter().map(|t| if t.is_empty() { "-".to_string() } else { t.join(",") }).collect::<Vec<_>>().join("/"),
        if ev.is_empty() { "e".to_string() } else { ev.join(",") },
        if closes.is_empty() { "e".to_string() } else { closes.join(",") },
        ports.iter().map(|p| p.to_string()).collect::<Vec<_>>().join(","),
        live_before,
        returned as u8
    )
}

/// While a connection is in flight with unread data the event loop spins (level-triggered epoll): batches whose
/// events are all ignored (`LF`/`LK`) repeat thousands of times. A batch cycle `B…, L?…, BE` that is identical to the
/// cycle logged immediately before it (nothing else in between) is dropped.
fn collapse_spin(ev: Vec<String>) -> Vec<String> {
    let mut out: Vec<String> = Vec::with_capacity(ev.len().min(8192));
    let mut last_cycle: Option<Vec<String>> = None; // the cycle that ends at the end of `out`
    let mut cur: Vec<String> = Vec::new();
    let mut in_cycle = false;
    for e in ev {
        if !in_cycle {
            if e.starts_with('B') && e != "BE" {
                in_cycle = true;
                cur.clear();
                cur.push(e);
            } else {
                out.push(e);
                last_cycle = None;
            }
            continue;
        }
        let noop = e.starts_with("LF") || e.starts_with("LK");
        if e == "BE" {
            cur.push(e);
            if last_cycle.as_ref() == Some(&cur) {
                // identical no-op cycle: drop
            } else {
                out.extend(cur.iter().cloned());
                last_cycle = Some(cur.clone());
            }
            in_cycle = false;
        } else if noop {
            cur.push(e);
        } else {
            // something else happened inside this batch: keep everything as is
            out.extend(cur.drain(..));
            out.push(e);
            last_cycle = None;
            in_cycle = false;
            // the rest of this batch is copied verbatim by the `!in_cycle` branch
        }
    }
    out.extend(cur.into_iter().filter(|_| in_cycle));
    out
}
