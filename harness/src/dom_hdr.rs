//! HDR domain: operation sequences on the public `Headers` API.
use crate::util::*;
use khttp::Headers;

pub fn hdr(arg: &str) -> String {
    let mut halves = arg.splitn(2, '|');
    let ops = halves.next().unwrap_or("").trim();
    let gets = halves.next().unwrap_or("-").trim();
    // owned storage so that `Headers<'a>` can borrow names/values
    let mut store: Vec<(String, Vec<u8>)> = Vec::new();
    let mut plan: Vec<(u8, usize, Option<u64>)> = Vec::new(); // (op, index into store, number)
    let mut nodate = false;
    if ops != "-" {
        for (i, op) in ops.split(';').enumerate() {
            let op = op.trim();
            if op.is_empty() {
                continue;
            }
            if i == 0 && op == "nodate" {
                nodate = true;
                continue;
            }
            let parts: Vec<&str> = op.split(':').collect();
            match parts[0] {
                "add" | "rep" if parts.len() == 3 => {
                    let name = match String::from_utf8(unhex(parts[1])) {
                        Ok(s) => s,
                        Err(_) => return "BAD-OP".into(),
                    };
                    store.push((name, unhex(parts[2])));
                    plan.push((if parts[0] == "add" { 0 } else { 1 }, store.len() - 1, None));
                }
                "rm" if parts.len() == 2 => {
                    let name = match String::from_utf8(unhex(parts[1])) {
                        Ok(s) => s,
                        Err(_) => return "BAD-OP".into(),
                    };
                    store.push((name, Vec::new()));
                    plan.push((2, store.len() - 1, None));
                }
                "scl" if parts.len() == 2 => {
                    let n = if parts[1] == "-" { None } else { parts[1].parse::<u64>().ok() };
                    if parts[1] != "-" && n.is_none() {
                        return "BAD-OP".into();
                    }
                    plan.push((3, 0, n));
                }
                "ste" => plan.push((4, 0, None)),
                "scc" => plan.push((5, 0, None)),
                _ => return "BAD-OP".into(),
            }
        }
    }
    let mut h = if nodate { Headers::new_nodate() } else { Headers::new() };
    for (op, idx, n) in &plan {
        match op {
            0 => { let _ = h.add(store[*idx].0.as_str(), store[*idx].1.as_slice()); }
            1 => { let _ = h.replace(store[*idx].0.as_str(), store[*idx].1.as_slice()); }
            2 => { let _ = h.remove(store[*idx].0.as_str()); }
            3 => { let _ = h.set_content_length(*n); }
            4 => { let _ = h.set_transfer_encoding_chunked(); }
            _ => { let _ = h.set_connection_close(); }
        }
    }
    let mut f = String::new();
    for (k, v) in h.iter() {
        if !f.is_empty() {
            f.push(',');
        }
        f.push_str(&hex(k.as_bytes()));
        f.push(':');
        f.push_str(&hex(v));
    }
    if f.is_empty() {
        f.push('e');
    }
    let mut g = String::new();
    if gets != "-" && !gets.is_empty() {
        for (i, name) in gets.split(';').enumerate() {
            if i > 0 {
                g.push(',');
            }
            match String::from_utf8(unhex(name.trim())) {
                Ok(n) => g.push_str(&hex_opt(h.get(&n))),
                Err(_) => return "BAD-OP".into(),
            }
        }
    } else {
        g.push('e');
    }
    let cl = match h.get_content_length() {
        Some(n) => n.to_string(),
        None => "-".into(),
    };
    format!(
        "f={} cl={} ch={} cc={} inv={} g={}",
        f,
        cl,
        h.is_transfer_encoding_chunked() as u8,
        h.is_connection_close() as u8,
        h.has_invalid_framing() as u8,
        g
    )
}
