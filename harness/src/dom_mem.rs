//! MEM domain: peak live heap bytes (counting global allocator) while the real server receives a request body /
//! sends a response body of a given length. Bodies are generated and discarded on the fly on the client side.
//!
//!   MEM dir=<req|reqdrain|resp> framing=<cl|chunked|auto> n=<bytes> [ver=0] [csize=<chunk size> ext=<0|1>]     (ver=0: an HTTP/1.0 request line)
//! Output: `M peak=<bytes above the level at the start of the transfer> ok=<0|1> n=<bytes seen by the other side>`
use crate::{LIVE_BYTES, PEAK_BYTES};
use khttp::{Headers, Method, Server};
use std::io::{Read, Write};
use std::net::{TcpListener, TcpStream};
use std::sync::atomic::Ordering;

struct Gen { left: u64, piece: usize }
impl Read for Gen {
    fn read(&mut self, buf: &mut [u8]) -> std::io::Result<usize> {
        // `piece` > 0: a source that hands out at most that many bytes per read (a socket, a pipe, a decompressor)
        let cap = if self.piece > 0 { buf.len().min(self.piece) } else { buf.len() };
        let n = (cap as u64).min(self.left) as usize;
        for b in &mut buf[..n] { *b = b'x'; }
        self.left -= n as u64;
        Ok(n)
    }
}

pub fn mem(arg: &str) -> String {
    let mut dir = "resp";
    let mut framing = "auto";
    let mut n: u64 = 1024;
    let mut ver = "1.1";
    let mut piece = 0usize;
    let mut csize = 16384usize;
    let mut ext = false;
    for w in arg.split_whitespace() {
        if let Some(v) = w.strip_prefix("piece=") { piece = v.parse().unwrap_or(0) }
        if let Some(v) = w.strip_prefix("csize=") { csize = v.parse::<usize>().unwrap_or(16384).clamp(1, 16384) }
        if let Some(v) = w.strip_prefix("ext=") { ext = v == "1" }
        if let Some(v) = w.strip_prefix("ver=") { ver = if v == "0" { "1.0" } else { "1.1" } }
        if let Some(v) = w.strip_prefix("dir=") { dir = v }
        if let Some(v) = w.strip_prefix("framing=") { framing = v }
        if let Some(v) = w.strip_prefix("n=") { n = v.parse().unwrap_or(1024) }
    }
    let mut b = Server::builder("127.0.0.1:0").unwrap();
    b.thread_count(1);
    // request direction: the handler streams the body through a fixed 8 KiB buffer and answers with the count
    b.route(Method::Post, "/sink", |mut ctx, res| {
        let mut buf = [0u8; 8192];
        let mut total: u64 = 0;
        loop {
            let k = ctx.body().read(&mut buf)?;
            if k == 0 { break; }
            total += k as u64;
        }
        res.ok(Headers::empty_nodate(), total.to_string())
    });
    // request direction, body NOT read by the handler: discarded by the drop-drain
    b.route(Method::Post, "/ignore", |_ctx, res| res.ok(Headers::empty_nodate(), "ignored"));
    // response direction: the body comes from a reader
    b.route(Method::Get, "/gen/:framing/:n/:piece", |ctx, res| {
        let n: u64 = ctx.params.get("n").and_then(|s| s.parse().ok()).unwrap_or(0);
        let piece: usize = ctx.params.get("piece").and_then(|s| s.parse().ok()).unwrap_or(0);
        let mut h = Headers::new_nodate();
        match ctx.params.get("framing") {
            Some("cl") => h.set_content_length(Some(n)),
            Some("chunked") => h.set_transfer_encoding_chunked(),
            _ => {}
        }
        res.okr(&h, Gen { left: n, piece })
    });
    let server = b.build();
    let listener = TcpListener::bind("127.0.0.1:0").unwrap();
    let addr = listener.local_addr().unwrap();
    let mut client = TcpStream::connect(addr).unwrap();
    let (srv, _) = listener.accept().unwrap();
    // warm up thread-locals / lazies with a tiny exchange so that one-off allocations are not attributed to the transfer
    let th = std::thread::spawn(move || { let _ = server.handle(&srv); drop(srv); });
    client.write_all(b"GET /gen/cl/1/0 HTTP/1.1\r\n\r\n").unwrap();
    let mut tmp = vec![0u8; 65536];
    let mut got = 0usize;
    while got < 39 { match client.read(&mut tmp) { Ok(0) | Err(_) => break, Ok(k) => got += k } }
    std::thread::sleep(std::time::Duration::from_millis(5));
    let base = LIVE_BYTES.load(Ordering::SeqCst);
    PEAK_BYTES.store(base, Ordering::SeqCst);
    let mut seen: u64 = 0;
    let mut ok = false;
    if dir == "req" || dir == "reqdrain" {
        let path = if dir == "req" { "/sink" } else { "/ignore" };
        let head = if framing == "chunked" {
            format!("POST {} HTTP/1.1\r\nTransfer-Encoding: chunked\r\n\r\n", path)
        } else {
            format!("POST {} HTTP/1.1\r\nContent-Length: {}\r\n\r\n", path, n)
        };
        client.write_all(head.as_bytes()).unwrap();
        let block = [b'x'; 16384];
        let mut left = n;
        while left > 0 {
            let k = left.min(if framing == "chunked" { csize } else { block.len() } as u64) as usize;
            if framing == "chunked" {
                // `ext=1`: every chunk carries a chunk extension (aws-chunked style signature); `csize`: many small chunks
                let _ = client.write_all(if ext { format!("{:x};chunk-signature=0123456789abcdef0123456789abcdef\r\n", k) } else { format!("{:x}\r\n", k) }.as_bytes());
                let _ = client.write_all(&block[..k]);
                let _ = client.write_all(b"\r\n");
            } else {
                let _ = client.write_all(&block[..k]);
            }
            left -= k as u64;
        }
        if framing == "chunked" { let _ = client.write_all(b"0\r\n\r\n"); }
        // response: "HTTP/1.1 200 OK\r\ncontent-length: L\r\n\r\n<digits>"
        let mut resp = Vec::with_capacity(0);
        client.set_read_timeout(Some(std::time::Duration::from_secs(20))).ok();
        loop {
            match client.read(&mut tmp) {
                Ok(0) | Err(_) => break,
                Ok(k) => { resp.extend_from_slice(&tmp[..k]); if resp.windows(4).any(|w| w == b"\r\n\r\n") && resp.last().map(|c| c.is_ascii_digit() || *c == b'd').unwrap_or(false) { break; } }
            }
        }
        let text = String::from_utf8_lossy(&resp);
        if dir == "req" {
            seen = text.rsplit("\r\n\r\n").next().and_then(|s| s.trim().parse().ok()).unwrap_or(0);
            ok = seen == n;
        } else {
            // the body was discarded; prove the connection is still usable (the drain consumed exactly the body)
            ok = text.ends_with("ignored") && {
                // (the handler answered before the body was discarded: give the drain time to finish, the chunked reader's
                // read-ahead must not see the probe — known finding K07)
                std::thread::sleep(std::time::Duration::from_millis(if framing == "chunked" { 150 } else { 0 }));
                let _ = client.write_all(b"GET /gen/cl/1/0 HTTP/1.1\r\n\r\n");
                let mut g = 0usize;
                let mut small = [0u8; 256];
                while g < 39 { match client.read(&mut small) { Ok(0) | Err(_) => break, Ok(k) => g += k } }
                g >= 39
            };
            seen = n;
        }
    } else {
        let req = format!("GET /gen/{}/{}/{} HTTP/{}\r\n\r\n", framing, n, piece, ver);
        client.write_all(req.as_bytes()).unwrap();
        client.set_read_timeout(Some(std::time::Duration::from_secs(20))).ok();
        // count 'x' bytes after the head (chunk framing bytes are not 'x'); allocation-free on the client side
        let mut head_done = false;
        let mut head_bytes: Vec<u8> = Vec::with_capacity(1024); // allocated before the measurement matters: client side, small, fixed
        let mut chunked = false;
        let mut crlf_state = 0u8; // progress through "\r\n\r\n"
        let mut total_x: u64 = 0;
        let mut tail = [0u8; 5];
        let deadline = std::time::Instant::now() + std::time::Duration::from_secs(120);
        'outer: loop {
            match client.read(&mut tmp) {
                Ok(0) | Err(_) => break,
                Ok(k) => {
                    for &c in &tmp[..k] {
                        if !head_done {
                            if head_bytes.len() < 1024 {
                                head_bytes.push(c.to_ascii_lowercase());
                            }
                            crlf_state = match (crlf_state, c) {
                                (0, b'\r') => 1,
                                (1, b'\n') => 2,
                                (2, b'\r') => 3,
                                (3, b'\n') => 4,
                                (_, b'\r') => 1,
                                _ => 0,
                            };
                            if crlf_state == 4 {
                                head_done = true;
                                // which framing the printer chose is read from the head (not assumed from a threshold)
                                chunked = head_bytes.windows(26).any(|w| w == b"transfer-encoding: chunked");
                            }
                        } else {
                            if c == b'x' {
                                total_x += 1;
                            }
                            tail.copy_within(1..5, 0);
                            tail[4] = c;
                        }
                    }
                    let done = total_x >= n && (!chunked || &tail == b"0\r\n\r\n");
                    if head_done && done {
                        break 'outer;
                    }
                }
            }
            if std::time::Instant::now() > deadline { break; }
        }
        seen = total_x;
        ok = seen == n;
    }
    let peak = PEAK_BYTES.load(Ordering::SeqCst) - base;
    drop(client);
    let _ = th.join();
    format!("M peak={} ok={} n={}", peak, ok as u8, seen)
}
