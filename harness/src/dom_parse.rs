//! REQ / RESP domains: Request::parse, Response::parse and every RequestUri accessor.
use crate::util::*;
use khttp::{HttpParsingError, Request, Response};
use std::panic::{catch_unwind, AssertUnwindSafe};

fn err_name(e: &HttpParsingError) -> &'static str {
    match e {
        HttpParsingError::UnexpectedEof => "eof",
        HttpParsingError::UnsupportedHttpVersion => "ver",
        HttpParsingError::MalformedStatusLine => "status",
        HttpParsingError::MalformedHeader => "header",
        _ => "other",
    }
}

fn acc<'a, F: FnOnce() -> Option<&'a str>>(f: F) -> Result<Option<&'a [u8]>, ()> {
    match catch_unwind(AssertUnwindSafe(f)) {
        Ok(v) => Ok(v.map(|s| s.as_bytes())),
        Err(_) => Err(()),
    }
}
fn show(r: &Result<Option<&[u8]>, ()>) -> String {
    match r {
        Ok(v) => hex_opt(*v),
        Err(_) => "PANIC".to_string(),
    }
}

fn headers_str(buf: &[u8], h: &khttp::Headers, safe: &mut bool, names_in_input: bool) -> String {
    let mut s = String::new();
    for (k, v) in h.iter() {
        if !s.is_empty() {
            s.push(',');
        }
        if names_in_input && (!inside(buf, k.as_bytes()) || !inside(buf, v)) {
            *safe = false;
        }
        if !ascii(k.as_bytes()) {
            *safe = false;
        }
        s.push_str(&hex(k.as_bytes()));
        s.push(':');
        s.push_str(&hex(v));
    }
    if s.is_empty() {
        s.push('e');
    }
    let cl = match h.get_content_length() {
        Some(n) => n.to_string(),
        None => "-".to_string(),
    };
    format!(
        "h={} cl={} ch={} cc={}",
        s,
        cl,
        h.is_transfer_encoding_chunked() as u8,
        h.is_connection_close() as u8
    )
}

pub fn req(arg: &str) -> String {
    let data = unhex(arg.trim());
    let buf: &[u8] = &data;
    let r = catch_unwind(AssertUnwindSafe(|| Request::parse(buf)));
    match r {
        Err(_) => "PANIC".to_string(),
        Ok(Err(e)) => format!("ERR {}", err_name(&e)),
        Ok(Ok(rq)) => {
            let mut safe = true;
            let m = rq.method.as_str().as_bytes().to_vec();
            if !ascii(&m) {
                safe = false;
            }
            let full = rq.uri.as_str().as_bytes();
            // the asterisk-form target is the static string "*" (equal to the input byte, not a slice of it)
            if !(inside(buf, full) || full == b"*") || !ascii(full) {
                safe = false;
            }
            if rq.buf_offset > buf.len() {
                safe = false;
            }
            let path = acc(|| Some(rq.uri.path()));
            let query = acc(|| rq.uri.query());
            let scheme = acc(|| rq.uri.scheme());
            let auth = acc(|| rq.uri.authority());
            let pq = acc(|| Some(rq.uri.path_and_query()));
            let disp = catch_unwind(AssertUnwindSafe(|| format!("{}", rq.uri).into_bytes()));
            for a in [&path, &query, &scheme, &auth, &pq] {
                match a {
                    Ok(Some(s)) => {
                        if !(inside(buf, s) || (full == b"*" && *s == b"*")) || !ascii(s) {
                            safe = false
                        }
                    }
                    Ok(None) => {}
                    Err(_) => safe = false,
                }
            }
            let disp_s = match &disp {
                Ok(d) => {
                    if d.as_slice() != full {
                        safe = false;
                    }
                    "1"
                }
                Err(_) => {
                    safe = false;
                    "PANIC"
                }
            };
            let hs = headers_str(buf, &rq.headers, &mut safe, true);
            format!(
                "OK m={} t={} p={} q={} s={} a={} pq={} d={} v={} {} off={} safe={}",
                hex(&m),
                hex(full),
                show(&path),
                show(&query),
                show(&scheme),
                show(&auth),
                show(&pq),
                disp_s,
                rq.http_version,
                hs,
                rq.buf_offset,
                safe as u8
            )
        }
    }
}

pub fn resp(arg: &str) -> String {
    let data = unhex(arg.trim());
    let buf: &[u8] = &data;
    let r = catch_unwind(AssertUnwindSafe(|| Response::parse(buf)));
    match r {
        Err(_) => "PANIC".to_string(),
        Ok(Err(e)) => format!("ERR {}", err_name(&e)),
        Ok(Ok(rs)) => {
            let mut safe = true;
            let reason = rs.status.reason.as_bytes();
            if !inside(buf, reason) || !ascii(reason) {
                safe = false;
            }
            if rs.buf_offset > buf.len() {
                safe = false;
            }
            let hs = headers_str(buf, &rs.headers, &mut safe, true);
            format!(
                "OK c={} r={} v={} {} off={} safe={}",
                rs.status.code,
                hex(reason),
                rs.http_version,
                hs,
                rs.buf_offset,
                safe as u8
            )
        }
    }
}

/// `REQG <hex>` / `RESPG <hex>`: the input is placed so that its last byte is the last byte of a readable page and the page after
/// it is inaccessible (PROT_NONE): a parser that reads even one byte past its input — with an unaligned word load, say — dies
/// with SIGSEGV, which the orchestrator sees as a crashed shard (C01: "without touching memory outside the input").
pub fn guarded(arg: &str, resp: bool) -> String {
    let data = unhex(arg.trim());
    let page = 4096usize;
    let n = data.len();
    let total = (n / page + 2) * page;
    unsafe {
        let base = libc::mmap(std::ptr::null_mut(), total, libc::PROT_READ | libc::PROT_WRITE, libc::MAP_PRIVATE | libc::MAP_ANONYMOUS, -1, 0);
        if base == libc::MAP_FAILED {
            return "BAD-MMAP".into();
        }
        let base = base as *mut u8;
        let guard = base.add(total - page);
        if libc::mprotect(guard as *mut libc::c_void, page, libc::PROT_NONE) != 0 {
            libc::munmap(base as *mut libc::c_void, total);
            return "BAD-MPROTECT".into();
        }
        let start = guard.sub(n);
        std::ptr::copy_nonoverlapping(data.as_ptr(), start, n);
        let slice: &[u8] = std::slice::from_raw_parts(start, n);
        let r = std::panic::catch_unwind(|| {
            if resp {
                match khttp::Response::parse(slice) { Ok(_) => "G OK", Err(_) => "G ERR" }
            } else {
                match khttp::Request::parse(slice) {
                    Ok(rq) => { let _ = (rq.uri.path().len(), rq.uri.query().map(|q| q.len()), rq.uri.authority().map(|a| a.len())); "G OK" }
                    Err(_) => "G ERR",
                }
            }
        });
        libc::munmap(base as *mut libc::c_void, total);
        match r { Ok(s) => s.to_string(), Err(_) => "PANIC".into() }
    }
}
