//! POOL domain: drives the real thread pool (through the cfg-gated khttp::verif::VerifPool) with
//! scripted jobs and returns the recorded synchronisation trace plus direct observations.
use khttp::verif::{self, Task, VerifPool};
use std::sync::atomic::{AtomicUsize, Ordering};
use std::sync::{Arc, Barrier, Condvar, Mutex};
use std::time::{Duration, Instant};

struct Shared {
    done: AtomicUsize, // jobs whose `run` has returned
    released: std::sync::atomic::AtomicBool, // `flood`: set once every job has been submitted
    runs: Vec<AtomicUsize>,
    barrier: Option<Barrier>,
    gate: (Mutex<usize>, Condvar), // number of finished non-blocker jobs
}

struct Job {
    id: u64,
    kind: u8, // 0 plain, 1 barrier participant, 2 blocker (waits until `need` other jobs finished), 3 sleeper
    need: usize,
    sh: Arc<Shared>,
}

impl Task for Job {
    fn run(self) {
        self.sh.runs[self.id as usize].fetch_add(1, Ordering::SeqCst);
        let _done = Done(Arc::clone(&self.sh));
        match self.kind {
            1 => {
                self.sh.barrier.as_ref().unwrap().wait();
            }
            2 => {
                let (m, cv) = &self.sh.gate;
                let mut g = m.lock().unwrap();
                let deadline = Instant::now() + Duration::from_secs(5);
                while *g < self.need && Instant::now() < deadline {
                    g = cv.wait_timeout(g, Duration::from_millis(50)).unwrap().0;
                }
                return;
            }
            3 => std::thread::sleep(Duration::from_micros(200 + (self.id % 7) * 150)),
            4 => {
                // occupies its worker until the owner has submitted every job (so that they all queue up)
                let deadline = Instant::now() + Duration::from_secs(5);
                while !self.sh.released.load(Ordering::SeqCst) && Instant::now() < deadline {
                    std::thread::sleep(Duration::from_micros(200));
                }
            }
            _ => {}
        }
        if self.kind != 2 {
            let (m, cv) = &self.sh.gate;
            *m.lock().unwrap() += 1;
            cv.notify_all();
        }
    }
    fn verif_id(&self) -> u64 {
        self.id
    }
}

struct Done(Arc<Shared>);
impl Drop for Done {
    fn drop(&mut self) {
        self.0.done.fetch_add(1, Ordering::SeqCst);
    }
}

/// `POOL n=<size> jobs=<k> mode=<plain|sleep|barrier|blocker|unwind>`
/// `flood`: the first n jobs occupy every worker until all jobs have been submitted (a long queue builds up);
/// `unwind`: the pool's owner panics after submitting (sleeping) jobs, so the pool is shut down by an unwinding thread;
/// `doneatreturn` = number of jobs that had finished when the shutdown returned.
pub fn pool(arg: &str) -> String {
    let mut n = 1usize;
    let mut jobs = 0usize;
    let mut mode = "plain".to_string();
    for w in arg.split_whitespace() {
        if let Some(v) = w.strip_prefix("n=") { n = v.parse().unwrap_or(1) }
        if let Some(v) = w.strip_prefix("jobs=") { jobs = v.parse().unwrap_or(0) }
        if let Some(v) = w.strip_prefix("mode=") { mode = v.to_string() }
    }
    if n == 0 || n > 64 || jobs > 5000 {
        return "BAD-ARG".into();
    }
    // barrier: the first min(n, jobs) jobs rendezvous: completes iff that many jobs really run in parallel
    let par = n.min(jobs);
    let sh = Arc::new(Shared {
        done: AtomicUsize::new(0),
        released: std::sync::atomic::AtomicBool::new(false),
        runs: (0..jobs).map(|_| AtomicUsize::new(0)).collect(),
        barrier: if mode == "barrier" && par > 0 { Some(Barrier::new(par)) } else { None },
        gate: (Mutex::new(0), Condvar::new()),
    });
    verif::reset();
    let t0 = Instant::now();
    let (tx, rx) = std::sync::mpsc::channel();
    let sh2 = Arc::clone(&sh);
    let mode2 = mode.clone();
    let done_at_return = Arc::new(AtomicUsize::new(usize::MAX));
    let dar = Arc::clone(&done_at_return);
    let th = std::thread::spawn(move || {
        let sh3 = Arc::clone(&sh2);
        let body = move || {
            let pool: VerifPool<Job> = VerifPool::new(n);
            for id in 0..jobs {
                let kind = match mode2.as_str() {
                    "barrier" if id < par => 1,
                    // job 0 blocks until all other jobs are done: needs the others to proceed on the remaining workers
                    "blocker" if id == 0 && n >= 2 => 2,
                    "sleep" | "unwind" => 3,
                    // flood: the first n jobs pin every worker while all the others are submitted and wait in the queue
                    "flood" if id < n => 4,
                    _ => 0,
                };
                pool.execute(Job { id: id as u64, kind, need: jobs.saturating_sub(1), sh: Arc::clone(&sh2) });
            }
            sh2.released.store(true, Ordering::SeqCst);
            if mode2 == "unwind" {
                panic!("the owner of the pool panics: the pool is dropped while unwinding");
            }
            drop(pool);
        };
        let _ = std::panic::catch_unwind(std::panic::AssertUnwindSafe(body));
        // the shutdown (normal or by unwinding) has returned: how many jobs had finished by then?
        dar.store(sh3.done.load(Ordering::SeqCst), Ordering::SeqCst);
        let _ = tx.send(());
    });
    let finished = rx.recv_timeout(Duration::from_secs(20)).is_ok();
    if finished {
        let _ = th.join();
    }
    let ev = verif::take();
    let runs: Vec<String> = sh.runs.iter().map(|c| c.load(Ordering::SeqCst).to_string()).collect();
    format!(
        "n={} jobs={} mode={} returned={} doneatreturn={} runs={} ms={} ev={}",
        n,
        jobs,
        mode,
        finished as u8,
        done_at_return.load(Ordering::SeqCst) as isize,
        if runs.is_empty() { "e".to_string() } else { runs.join(",") },
        t0.elapsed().as_millis(),
        if ev.is_empty() { "e".to_string() } else { ev.join(",") }
    )
}
