//! PRINT domain: the four HttpPrinter entry points + write_request, with a reader that delivers the body in
//! scripted pieces and a writer whose first vectored write accepts a scripted count and whose plain writes are short.
use crate::interpose::{FAKE_CLOCK, FAKE_SEC};
use crate::util::*;
use khttp::{Headers, HttpPrinter, Method, Status};
use std::io::{self, IoSlice, Read, Write};
use std::sync::atomic::Ordering;

struct PieceReader {
    data: Vec<u8>,
    pos: usize,
    pieces: Vec<usize>,
    k: usize,
    /// `rerr=<kind>:<k>`: read number k fails once with that error kind and hands over nothing (a source that is not ready yet,
    /// a time-out, an interrupted call); the following reads carry on
    fail: Option<(io::ErrorKind, usize)>,
    /// `bump=<s>`: the source is slow — the (interposed) clock has advanced by s seconds when its first read returns
    bump: i64,
    calls: usize,
}
impl Read for PieceReader {
    fn read(&mut self, buf: &mut [u8]) -> io::Result<usize> {
        let call = self.calls;
        self.calls += 1;
        if call == 0 && self.bump != 0 {
            FAKE_SEC.fetch_add(self.bump, Ordering::SeqCst);
        }
        if let Some((kind, at)) = self.fail {
            if at == call {
                return Err(io::Error::new(kind, "source not ready"));
            }
        }
        let piece = if self.k < self.pieces.len() { self.pieces[self.k] } else { buf.len() };
        self.k += 1;
        let n = buf.len().min(piece).min(self.data.len() - self.pos);
        buf[..n].copy_from_slice(&self.data[self.pos..self.pos + n]);
        self.pos += n;
        Ok(n)
    }
}

struct Sink {
    /// the (interposed) clock reading when the first byte of the message was written
    first_write_sec: Option<i64>,
    out: Vec<u8>,
    accept: Option<usize>,
    first_vectored_done: bool,
    bad_accept: bool,
}
impl Write for Sink {
    fn write(&mut self, buf: &[u8]) -> io::Result<usize> {
        if self.first_write_sec.is_none() { self.first_write_sec = Some(FAKE_SEC.load(Ordering::SeqCst)); }
        let n = buf.len().min(1000); // short writes: write_all must loop
        self.out.extend_from_slice(&buf[..n]);
        Ok(n)
    }
    fn write_vectored(&mut self, bufs: &[IoSlice<'_>]) -> io::Result<usize> {
        if self.first_write_sec.is_none() { self.first_write_sec = Some(FAKE_SEC.load(Ordering::SeqCst)); }
        let total: usize = bufs.iter().map(|b| b.len()).sum();
        let mut n = total;
        if !self.first_vectored_done {
            self.first_vectored_done = true;
            if let Some(a) = self.accept {
                if a > total {
                    self.bad_accept = true; // outside the Write contract: case is skipped
                } else {
                    n = a;
                }
            }
        }
        let mut left = n;
        for b in bufs {
            let k = left.min(b.len());
            self.out.extend_from_slice(&b[..k]);
            left -= k;
        }
        Ok(n)
    }
    fn flush(&mut self) -> io::Result<()> {
        Ok(())
    }
}

/// a writer that accepts `left` more bytes and then fails (a peer that went away): used for the messages that PRECEDE the
/// case on the same thread (`pre=entry:k,…`) — whatever a failed write leaves behind must not leak into the next message
struct FailSink {
    left: usize,
}
impl Write for FailSink {
    fn write(&mut self, buf: &[u8]) -> io::Result<usize> {
        if self.left == 0 {
            return Err(io::Error::new(io::ErrorKind::BrokenPipe, "peer went away"));
        }
        let n = buf.len().min(self.left);
        self.left -= n;
        Ok(n)
    }
    fn flush(&mut self) -> io::Result<()> {
        Ok(())
    }
}

fn run_pre(spec: &str) {
    for item in spec.split(',') {
        let mut it = item.split(':');
        let entry = it.next().unwrap_or("empty").to_string();
        let k: usize = it.next().and_then(|s| s.parse().ok()).unwrap_or(0);
        let _ = std::panic::catch_unwind(move || {
            let mut sink = FailSink { left: k };
            let status = Status::owned(503, "PRE FAILED".to_string());
            let mut h = Headers::new_nodate();
            h.add("x-pre", &b"stale"[..]);
            let body = b"pre-body-pre-body".to_vec();
            let rd = PieceReader { data: body.clone(), pos: 0, pieces: vec![3], k: 0, fail: None, bump: 0, calls: 0 };
            let _ = match entry.as_str() {
                "empty" => HttpPrinter::write_response_empty(&mut sink, &status, &h),
                "bytes" => HttpPrinter::write_response_bytes(&mut sink, &status, &h, &body),
                "reader" => HttpPrinter::write_response(&mut sink, &status, &h, rd),
                "request" => HttpPrinter::write_request(&mut sink, &Method::from("POST"), "/pre", &h, rd),
                "cont" => HttpPrinter::write_100_continue(&mut sink),
                _ => Ok(()),
            };
        });
    }
}

pub fn print(arg: &str) -> String {
    let mut entry = "bytes";
    let mut code: u16 = 200;
    let mut reason: Option<Vec<u8>> = None;
    let mut nodate = false;
    let mut ops = "-";
    let mut body: Vec<u8> = Vec::new();
    let mut pieces: Vec<usize> = Vec::new();
    let mut accept: Option<usize> = None;
    let mut method = "GET".to_string();
    let mut uri: Vec<u8> = b"/".to_vec();
    let mut rerr: Option<(io::ErrorKind, usize)> = None;
    let mut bump: i64 = 0;
    for w in arg.split_whitespace() {
        if let Some(v) = w.strip_prefix("entry=") { entry = v }
        if let Some(v) = w.strip_prefix("code=") { code = v.parse().unwrap_or(200) }
        if let Some(v) = w.strip_prefix("reason=") { reason = Some(unhex(v)) }
        if let Some(v) = w.strip_prefix("nodate=") { nodate = v == "1" }
        if let Some(v) = w.strip_prefix("hdr=") { ops = v }
        if let Some(v) = w.strip_prefix("body=") { body = unhex(v) }
        if let Some(v) = w.strip_prefix("bodyrep=") {
            let mut it = v.split('*');
            let b = unhex(it.next().unwrap_or("78"));
            let n: usize = it.next().and_then(|s| s.parse().ok()).unwrap_or(0);
            body = vec![*b.first().unwrap_or(&b'x'); n];
        }
        if let Some(v) = w.strip_prefix("pieces=") {
            if v != "-" { pieces = v.split(',').filter_map(|s| s.parse().ok()).collect() }
        }
        if let Some(v) = w.strip_prefix("accept=") { accept = v.parse().ok() }
        if let Some(v) = w.strip_prefix("method=") { method = v.to_string() }
        if let Some(v) = w.strip_prefix("uri=") { uri = unhex(v) }
        if let Some(v) = w.strip_prefix("pre=") { run_pre(v) }
        if let Some(v) = w.strip_prefix("rerr=") {
            let mut it = v.split(':');
            let kind = match it.next().unwrap_or("") {
                "wouldblock" => io::ErrorKind::WouldBlock,
                "timedout" => io::ErrorKind::TimedOut,
                "interrupted" => io::ErrorKind::Interrupted,
                _ => io::ErrorKind::Other,
            };
            rerr = Some((kind, it.next().and_then(|x| x.parse().ok()).unwrap_or(0)));
        }
        if let Some(v) = w.strip_prefix("bump=") { bump = v.parse().unwrap_or(0) }
    }
    // headers
    let mut store: Vec<(String, Vec<u8>)> = Vec::new();
    let mut plan: Vec<(u8, usize, Option<u64>)> = Vec::new();
    if ops != "-" {
        for op in ops.split(';') {
            let parts: Vec<&str> = op.split(':').collect();
            match parts[0] {
                "nodate" => nodate = true,
                "add" | "rep" if parts.len() == 3 => {
                    let n = match String::from_utf8(unhex(parts[1])) { Ok(s) => s, Err(_) => return "BAD-ARG name".into() };
                    store.push((n, unhex(parts[2])));
                    plan.push((if parts[0] == "add" { 0 } else { 1 }, store.len() - 1, None));
                }
                "rm" if parts.len() == 2 => {
                    let n = match String::from_utf8(unhex(parts[1])) { Ok(s) => s, Err(_) => return "BAD-ARG name".into() };
                    store.push((n, Vec::new()));
                    plan.push((2, store.len() - 1, None));
                }
                "scl" if parts.len() == 2 => plan.push((3, 0, parts[1].parse::<u64>().ok())),
                "ste" => plan.push((4, 0, None)),
                "scc" => plan.push((5, 0, None)),
                _ => return "BAD-ARG op".into(),
            }
        }
    }
    let mut h = if nodate { Headers::new_nodate() } else { Headers::new() };
    for (op, idx, n) in &plan {
        match op {
            0 => { let _ = h.add(store[*idx].0.as_str(), store[*idx].1.as_slice()); }
            1 => { let _ = h.replace(store[*idx].0.as_str(), store[*idx].1.as_slice()); }
            2 => { let _ = h.remove(store[*idx].0.as_str()); }
            3 => { let _ = h.set_content_length(*n); }
            4 => { let _ = h.set_transfer_encoding_chunked(); }
            _ => { let _ = h.set_connection_close(); }
        }
    }
    let reason_s = match reason {
        Some(r) => match String::from_utf8(r) { Ok(s) => Some(s), Err(_) => return "BAD-ARG reason".into() },
        None => None,
    };
    let status = Status::owned(code, reason_s.unwrap_or_default());
    let uri_s = match String::from_utf8(uri) { Ok(s) => s, Err(_) => return "BAD-ARG uri".into() };
    FAKE_SEC.store(0, Ordering::SeqCst);
    FAKE_CLOCK.store(true, Ordering::SeqCst);
    let mut sink = Sink { first_write_sec: None, out: Vec::new(), accept, first_vectored_done: false, bad_accept: false };
    let res = std::panic::catch_unwind(std::panic::AssertUnwindSafe(|| {
        let rd = PieceReader { data: body.clone(), pos: 0, pieces: pieces.clone(), k: 0, fail: rerr, bump, calls: 0 };
        match entry {
            "empty" => HttpPrinter::write_response_empty(&mut sink, &status, &h),
            "bytes" => HttpPrinter::write_response_bytes(&mut sink, &status, &h, &body),
            "reader" => HttpPrinter::write_response(&mut sink, &status, &h, rd),
            "request" => HttpPrinter::write_request(&mut sink, &Method::from(method.as_str()), &uri_s, &h, rd),
            _ => Err(io::Error::other("bad entry")),
        }
    }));
    FAKE_CLOCK.store(false, Ordering::SeqCst);
    if sink.bad_accept {
        return "BAD-ACCEPT".into();
    }
    if bump != 0 {
        // PRINT … bump=<s>: `LAG <clock at the first write> <hex of the emitted bytes>` (answered by the real code only)
        return match res {
            Ok(Ok(())) => format!("LAG {} {}", sink.first_write_sec.unwrap_or(-1), hex(&sink.out)),
            Ok(Err(_)) => "ERR".into(),
            Err(_) => "PANIC".into(),
        };
    }
    match res {
        Err(_) => "PANIC".into(),
        Ok(Ok(())) => hex(&sink.out),
        Ok(Err(_)) => format!("ERR {}", hex(&sink.out)),
    }
}
