//! ROUTE domain: RouterBuilder / Router through the public API; handlers are route ids.
use crate::util::*;
use khttp::{Method, RouterBuilder};

fn method_of(tok: &str) -> Method {
    Method::from(tok)
}

pub fn route(arg: &str) -> String {
    let mut halves = arg.splitn(2, '|');
    let regs = halves.next().unwrap_or("").trim();
    let queries = halves.next().unwrap_or("").trim();
    let mut b: RouterBuilder<i64> = RouterBuilder::new(-1);
    if regs != "-" && !regs.is_empty() {
        for (i, r) in regs.split(';').enumerate() {
            let mut it = r.trim().splitn(2, ':');
            let m = it.next().unwrap_or("");
            let p = match String::from_utf8(unhex(it.next().unwrap_or("e"))) {
                Ok(s) => s,
                Err(_) => return "BAD-ROUTE-LINE".into(),
            };
            b.add_route(&method_of(m), &p, i as i64);
        }
    }
    let router = b.build();
    let mut out = Vec::new();
    for q in queries.split(';') {
        let q = q.trim();
        if q.is_empty() {
            continue;
        }
        let mut it = q.splitn(2, ':');
        let m = it.next().unwrap_or("");
        let p = match String::from_utf8(unhex(it.next().unwrap_or("e"))) {
            Ok(s) => s,
            Err(_) => return "BAD-ROUTE-LINE".into(),
        };
        let method = method_of(m);
        let res = std::panic::catch_unwind(std::panic::AssertUnwindSafe(|| {
            let mt = router.match_route(&method, &p);
            let id = if *mt.route < 0 { "F".to_string() } else { mt.route.to_string() };
            let ps: Vec<String> = mt.params.iter().map(|(k, v)| format!("{}={}", hex(k.as_bytes()), hex(v.as_bytes()))).collect();
            format!("{}/{}", id, if ps.is_empty() { "e".to_string() } else { ps.join(",") })
        }));
        out.push(res.unwrap_or_else(|_| "PANIC".into()));
    }
    out.join(";")
}
