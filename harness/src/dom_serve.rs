//! SERVE domain: the three real serve modes on a loopback port, scripted sequential client connections,
//! lifecycle hooks logging into a per-run log.
//!
//!   SERVE mode=<serve|threaded|epoll> threads=<n> plan=<conn>/<conn>/…
//!   conn = <P|D|S>:<script>      setup decision for that connection + client script (CONN step syntax;
//!                                 for D and S the script is normally just `e`)
//! Output: `V <conn transcript>/<conn transcript>/… hooks=<per-connection hook summary>/… returned=<0|1>`
//!   hook summary per connection: s<setup calls>p<pre-routing calls>t<teardown calls><o|e|-> (teardown result ok/err)
use crate::dom_conn::read_response;
use crate::util::*;
use khttp::{ConnectionSetupAction, Headers, Method, PreRoutingAction, Server, Status};
use std::collections::HashMap;
use std::io::{Read, Write};
use std::net::{TcpListener, TcpStream};
use std::os::unix::io::AsRawFd;
use std::sync::{Arc, Mutex};
use std::time::{Duration, Instant};

#[derive(Default, Clone)]
struct ConnLog {
    setup: u32,
    pre: u32,
    teardown: u32,
    result: char,
}

struct Shared {
    decisions: Mutex<Vec<char>>,         // per accepted connection, in accept order
    accepted: Mutex<usize>,
    by_port: Mutex<HashMap<u16, usize>>, // peer port -> connection index
    by_fd: Mutex<HashMap<i32, usize>>,   // accepted descriptor -> connection index (a reset socket has no peer address any more)
    logs: Mutex<Vec<ConnLog>>,
}

/// A port for the server of this scenario.  Many kimpl processes run side by side: a port picked with bind(0) and released again can
/// be handed to another process before our server binds it (two servers then share the scenario's connections — seen once as a
/// "handler error did not end the connection" false alarm).  Each process therefore draws from its own block of 60 ports below the
/// ephemeral range and takes the next one that can be bound.
pub fn free_port() -> u16 {
    use std::sync::atomic::{AtomicU32, Ordering};
    static NEXT: AtomicU32 = AtomicU32::new(0);
    let base = 12000 + (std::process::id() % 300) * 60;
    for _ in 0..60 {
        let p = (base + NEXT.fetch_add(1, Ordering::SeqCst) % 60) as u16;
        if TcpListener::bind(("127.0.0.1", p)).is_ok() {
            return p;
        }
    }
    let l = TcpListener::bind("127.0.0.1:0").unwrap();
    l.local_addr().unwrap().port()
}

fn build(port: u16, threads: usize, sh: Arc<Shared>, slow_teardown: bool, max_head: Option<usize>) -> Server {
    let mut b = Server::builder(format!("127.0.0.1:{port}")).unwrap();
    b.thread_count(threads);
    // `maxhead=<n>`: a non-default request-head limit (must hold in every serve mode)
    if let Some(mh) = max_head {
        b.max_request_head_size(mh);
    }
    b.route(Method::Post, "/echo", |mut ctx, res| {
        let body = ctx.body().vec()?;
        res.ok(Headers::empty_nodate(), body)
    });
    b.route(Method::Post, "/noread", |_ctx, res| res.ok(Headers::empty_nodate(), "noread"));
    b.route(Method::Get, "/close", |_ctx, res| {
        let mut h = Headers::new_nodate();
        h.set_connection_close();
        res.ok(&h, "bye")
    });
    b.route(Method::Get, "/err", |_ctx, _res| Err(std::io::Error::other("handler error")));
    // a body on methods that usually have none: the framing fields decide, not the method
    for m in [Method::Get, Method::Put, Method::Delete] {
        b.route(m, "/gecho", |mut ctx, res| {
            let body = ctx.body().vec()?;
            res.ok(Headers::empty_nodate(), body)
        });
    }
    // interim response first (Expect: 100-continue), then the body is read and echoed
    b.route(Method::Post, "/continue", |mut ctx, res| {
        res.send_100_continue()?;
        let body = ctx.body().vec()?;
        res.ok(Headers::empty_nodate(), body)
    });
    // the handler returns Ok without answering: nothing is sent, the connection stays usable
    b.route(Method::Get, "/silent", |_ctx, _res| Ok(()));
    // the handler fails with an error of the named kind (a failed write to a peer that went away, a truncated upload, ...)
    b.route(Method::Get, "/errkind/:k", |ctx, _res| {
        use std::io::ErrorKind::*;
        let kind = match ctx.params.get("k") {
            Some("brokenpipe") => BrokenPipe,
            Some("reset") => ConnectionReset,
            Some("aborted") => ConnectionAborted,
            Some("eof") => UnexpectedEof,
            Some("wouldblock") => WouldBlock,
            Some("interrupted") => Interrupted,
            Some("timedout") => TimedOut,
            Some("invaliddata") => InvalidData,
            _ => Other,
        };
        Err(std::io::Error::new(kind, "handler error"))
    });
    b.route(Method::Get, "/slow/:ms", |ctx, res| {
        let ms: u64 = ctx.params.get("ms").and_then(|s| s.parse().ok()).unwrap_or(0);
        std::thread::sleep(Duration::from_millis(ms));
        res.ok(Headers::empty_nodate(), "slow")
    });
    b.route(Method::Get, "/bigr/:n", |ctx, res| {
        let n: u64 = ctx.params.get("n").and_then(|s| s.parse().ok()).unwrap_or(0);
        res.okr(Headers::empty_nodate(), std::io::repeat(b'x').take(n))
    });
    b.route(Method::Get, "/p/:a/:b", |ctx, res| {
        let s = format!("{},{}", ctx.params.get("a").unwrap_or("?"), ctx.params.get("b").unwrap_or("?"));
        res.ok(Headers::empty_nodate(), s)
    });
    // the fallback gets an EMPTY parameter set (C12): anything left over from an earlier lookup or request shows as a 500
    b.fallback_route(|ctx, res| {
        if ctx.params.iter().next().is_some() {
            return res.ok(Headers::empty_nodate(), "stale-params");
        }
        res.send0(&Status::NOT_FOUND, Headers::empty_nodate())
    });
    let s1 = Arc::clone(&sh);
    b.connection_setup_hook(move |conn| match conn {
        Ok((stream, peer)) => {
            let idx = {
                let mut a = s1.accepted.lock().unwrap();
                let i = *a;
                *a += 1;
                i
            };
            s1.by_port.lock().unwrap().insert(peer.port(), idx);
            s1.by_fd.lock().unwrap().insert(stream.as_raw_fd(), idx);
            {
                let mut logs = s1.logs.lock().unwrap();
                while logs.len() <= idx {
                    logs.push(ConnLog { result: '-', ..Default::default() });
                }
                logs[idx].setup += 1;
            }
            let d = s1.decisions.lock().unwrap().get(idx).copied().unwrap_or('P');
            match d {
                'D' => ConnectionSetupAction::Drop,
                'S' => ConnectionSetupAction::StopAccepting,
                _ => {
                    let _ = stream.set_read_timeout(Some(Duration::from_millis(3000)));
                    ConnectionSetupAction::Proceed(stream)
                }
            }
        }
        Err(_) => ConnectionSetupAction::Drop,
    });
    let s2 = Arc::clone(&sh);
    b.pre_routing_hook(move |_req, res| {
        if let Ok(peer) = res.get_stream().peer_addr() {
            if let Some(i) = s2.by_port.lock().unwrap().get(&peer.port()) {
                s2.logs.lock().unwrap()[*i].pre += 1;
            }
        }
        PreRoutingAction::Proceed
    });
    let s3 = Arc::clone(&sh);
    b.connection_teardown_hook(move |stream, result| {
        let idx = match stream.peer_addr() {
            Ok(peer) => s3.by_port.lock().unwrap().get(&peer.port()).copied(),
            Err(_) => s3.by_fd.lock().unwrap().get(&stream.as_raw_fd()).copied(),
        };
        if let Some(i) = idx {
            let mut logs = s3.logs.lock().unwrap();
            logs[i].teardown += 1;
            logs[i].result = if result.is_ok() { 'o' } else { 'e' };
        }
        if slow_teardown {
            // a hook that closes the connection first and then does slow work (the descriptor number is free meanwhile)
            drop(stream);
            std::thread::sleep(Duration::from_millis(40));
        }
    });
    b.build()
}

pub fn serve(arg: &str) -> String {
    let mut mode = "serve";
    let mut threads = 2usize;
    let mut plan = "";
    let mut slow_teardown = false;
    let mut max_head: Option<usize> = None;
    let mut late = false; // late=1: deferred script parts run AFTER the stop connection (connections still queued / open at StopAccepting)
    for w in arg.split_whitespace() {
        if w == "slowtd=1" { slow_teardown = true }
        if w == "late=1" { late = true }
        if let Some(v) = w.strip_prefix("maxhead=") { max_head = v.parse().ok() }
        if let Some(v) = w.strip_prefix("mode=") { mode = v }
        if let Some(v) = w.strip_prefix("threads=") { threads = v.parse().unwrap_or(2) }
        if let Some(v) = w.strip_prefix("plan=") { plan = v }
    }
    let conns: Vec<(char, &str)> = plan.split('/').filter(|c| !c.is_empty()).map(|c| {
        let mut it = c.splitn(2, ':');
        let d = it.next().unwrap_or("P").chars().next().unwrap_or('P');
        (d, it.next().unwrap_or(""))
    }).collect();
    let sh = Arc::new(Shared {
        decisions: Mutex::new(conns.iter().map(|c| c.0).collect()),
        accepted: Mutex::new(0),
        by_port: Mutex::new(HashMap::new()),
        by_fd: Mutex::new(HashMap::new()),
        logs: Mutex::new(Vec::new()),
    });
    let port = free_port();
    let server = build(port, threads, Arc::clone(&sh), slow_teardown, max_head);
    let mode_s = mode.to_string();
    let (tx, rx) = std::sync::mpsc::channel();
    std::thread::spawn(move || {
        let r = match mode_s.as_str() {
            "threaded" => server.serve_threaded(),
            "epoll" => server.serve_epoll(),
            _ => server.serve(),
        };
        let _ = tx.send(r.is_ok());
    });
    // wait until the port accepts
    let t0 = Instant::now();
    let mut transcripts: Vec<String> = vec![String::new(); conns.len()];
    // a script may contain one `|`: the steps after it run after all other connections have finished their scripts
    // (the connection stays open meanwhile)
    let mut deferred: Vec<(usize, TcpStream, Vec<u8>, Vec<String>, String)> = Vec::new();
    for (ci, (d_, script)) in conns.iter().enumerate() {
        if *d_ == 'S' && !late {
            // deferred script parts run before accepting is stopped (a stop abandons open connections in epoll mode: K16)
            for (cj, mut client, mut pending, mut out, rest) in deferred.drain(..) {
                run_steps(&mut client, &rest, &mut pending, &mut out);
                drop(client);
                transcripts[cj] = if out.is_empty() { "-".into() } else { out.join(",") };
                std::thread::sleep(Duration::from_millis(15));
            }
        }
        let mut client = loop {
            match TcpStream::connect(("127.0.0.1", port)) {
                Ok(c) => break Some(c),
                Err(_) if t0.elapsed() < Duration::from_millis(2000) && ci == 0 => std::thread::sleep(Duration::from_millis(2)),
                Err(_) => break None,
            }
        };
        let mut out: Vec<String> = Vec::new();
        let (now, later) = match script.split_once(",|,") {
            Some((a, b)) => (a, Some(b)),
            None => (*script, None),
        };
        if let Some(client) = client.as_mut() {
            client.set_nodelay(true).ok();
            let mut pending = Vec::new();
            run_steps(client, now, &mut pending, &mut out);
            if let Some(rest) = later {
                deferred.push((ci, client.try_clone().unwrap(), pending, out, rest.to_string()));
                // keep `client` alive through the clone; the original is dropped below without closing the connection
                continue;
            }
        } else {
            out.push("NOCONN".into());
        }
        drop(client);
        transcripts[ci] = if out.is_empty() { "-".into() } else { out.join(",") };
        // let the server observe the close before the next connection
        std::thread::sleep(Duration::from_millis(if slow_teardown { 20 } else { 15 }));
    }
    // the stop connection (last in the plan) must not be overtaken: deferred parts run before it was sent only if the plan
    // puts them there; here they run after every other script, which is what the plans that use `|` ask for
    for (ci, mut client, mut pending, mut out, rest) in deferred {
        run_steps(&mut client, &rest, &mut pending, &mut out);
        drop(client);
        transcripts[ci] = if out.is_empty() { "-".into() } else { out.join(",") };
        std::thread::sleep(Duration::from_millis(15));
    }
    let returned = rx.recv_timeout(Duration::from_millis(if conns.iter().any(|c| c.0 == 'S') { 2500 } else { 50 })).is_ok();
    // teardown hooks of the last connections may still be running (serve_threaded does not join its threads): wait until
    // every proceeded connection has been torn down, or a deadline
    let want_td = conns.iter().filter(|c| c.0 == 'P').count() as u32;
    let tw = Instant::now();
    while tw.elapsed() < Duration::from_millis(1500) {
        let got: u32 = sh.logs.lock().unwrap().iter().map(|l| l.teardown.min(1)).sum();
        if got >= want_td { break; }
        std::thread::sleep(Duration::from_millis(2));
    }
    std::thread::sleep(Duration::from_millis(5));
    let logs = sh.logs.lock().unwrap().clone();
    let mut hooks = Vec::new();
    for i in 0..conns.len() {
        match logs.get(i) {
            Some(l) => hooks.push(format!("s{}p{}t{}{}", l.setup, l.pre, l.teardown, l.result)),
            None => hooks.push("s0p0t0-".into()),
        }
    }
    format!("V {} hooks={} returned={}", transcripts.join("/"), hooks.join("/"), returned as u8)
}


fn run_steps(client: &mut TcpStream, script: &str, pending: &mut Vec<u8>, out: &mut Vec<String>) {
    for step in script.split(',') {
                if let Some(h) = step.strip_prefix("s:") {
                    let _ = client.write_all(&unhex(h));
                    std::thread::sleep(Duration::from_millis(2));
                } else if let Some(h) = step.strip_prefix("S:") {
                    // send and half-close at once: the FIN is in the socket together with the request
                    let _ = client.write_all(&unhex(h));
                    let _ = client.shutdown(std::net::Shutdown::Write);
                    std::thread::sleep(Duration::from_millis(2));
                } else if step == "r" {
                    match read_response(client, pending, Duration::from_millis(4000)) {
                        Ok(Some((st, close, body))) => out.push(format!("R{}:{}:{}", st, close as u8, hex(&body))),
                        Ok(None) => out.push("EOF".into()),
                        Err(e) => out.push(e.into()),
                    }
                } else if step == "X" {
                    // abortive close (RST); must be the last step of the script
                    let lg = libc::linger { l_onoff: 1, l_linger: 0 };
                    unsafe { libc::setsockopt(client.as_raw_fd(), libc::SOL_SOCKET, libc::SO_LINGER, &lg as *const _ as *const libc::c_void, std::mem::size_of::<libc::linger>() as u32) };
                    break; // the socket is dropped right after the script: close() with linger 0 sends the RST
                } else if step == "c" {
                    let _ = client.shutdown(std::net::Shutdown::Write);
                } else if step == "e" {
                    match read_response(client, pending, Duration::from_millis(2200)) {
                        Ok(None) => out.push("EOF".into()),
                        Ok(Some((st, close, body))) => out.push(format!("R{}:{}:{}", st, close as u8, hex(&body))),
                        Err("HANG") => out.push("OPEN".into()),
                        Err(e) => out.push(e.into()),
                    }
                } else if step == "w" {
                    std::thread::sleep(Duration::from_millis(60));
                }
    }
}

#[allow(dead_code)]
fn _unused(_: &mut dyn Read) {}
