//! Decoders from raw fuzz input bytes to case lines of the kimpl / kmodel line protocol.
//! Shared (via `#[path]`) by the libFuzzer targets in /verif/fuzz/fuzz_targets and by `kimpl FUZZLINE <target> <hex>`,
//! so that an input the fuzzer keeps is replayed through the real code, the Lean model and the oracles as the SAME case.
#![allow(dead_code)]

pub fn hex(b: &[u8]) -> String {
    if b.is_empty() {
        return "e".into();
    }
    let mut s = String::with_capacity(b.len() * 2);
    for x in b {
        s.push_str(&format!("{:02x}", x));
    }
    s
}

pub struct Cur<'a> {
    pub d: &'a [u8],
    pub i: usize,
}
impl<'a> Cur<'a> {
    pub fn new(d: &'a [u8]) -> Self {
        Cur { d, i: 0 }
    }
    pub fn u8(&mut self) -> Option<u8> {
        let b = self.d.get(self.i).copied();
        if b.is_some() {
            self.i += 1;
        }
        b
    }
    pub fn take(&mut self, n: usize) -> &'a [u8] {
        let end = (self.i + n).min(self.d.len());
        let s = &self.d[self.i..end];
        self.i = end;
        s
    }
    pub fn rest(&mut self) -> &'a [u8] {
        let s = &self.d[self.i.min(self.d.len())..];
        self.i = self.d.len();
        s
    }
}

// ------------------------------------------------------------------------------------------------ HDR

pub const NAMES: [&str; 20] = [
    "content-length", "Content-Length", "CONTENT-LENGTH", "transfer-encoding", "Transfer-Encoding", "TRANSFER-ENCODING",
    "connection", "Connection", "CONNECTION", "x-foo", "X-Foo", "host", "x-sig^1", "x-sig~1", "content-lengt", "content-lengthh",
    "transfer_encoding", "connectio", "a@b", "a`b",
];
const TCHAR: &[u8] = b"!#$%&'*+-.^_`|~0123456789ABCDEFGHIJKLMNOPQRSTUVWXYZabcdefghijklmnopqrstuvwxyz";
const SCL: [Option<u64>; 8] = [None, Some(0), Some(1), Some(5), Some(7), Some(42), Some(4294967296), Some(u64::MAX)];

pub enum HOp {
    Add(String, Vec<u8>),
    Rep(String, Vec<u8>),
    Rm(String),
    Scl(Option<u64>),
    Ste,
    Scc,
}

fn dec_name(c: &mut Cur) -> String {
    let nb = c.u8().unwrap_or(0);
    if nb < 0xe0 {
        return NAMES[nb as usize % NAMES.len()].to_string();
    }
    let len = (c.u8().unwrap_or(0) % 20) as usize + 1;
    let s: String = c.take(len).iter().map(|b| TCHAR[*b as usize % TCHAR.len()] as char).collect();
    if s.is_empty() { "x".into() } else { s }
}

/// record stream: [op][name selector …][value length][value bytes]; at most 10 operations
pub fn dec_hdr(d: &[u8]) -> Vec<HOp> {
    let mut c = Cur::new(d);
    let mut ops = Vec::new();
    while ops.len() < 10 {
        let b = match c.u8() {
            Some(b) => b,
            None => break,
        };
        match b % 8 {
            4 => ops.push(HOp::Scl(SCL[c.u8().unwrap_or(0) as usize % 8])),
            5 => ops.push(HOp::Ste),
            6 => ops.push(HOp::Scc),
            k => {
                let name = dec_name(&mut c);
                if k == 3 {
                    ops.push(HOp::Rm(name));
                } else {
                    let vlen = (c.u8().unwrap_or(0) % 72) as usize;
                    let v = c.take(vlen).to_vec();
                    ops.push(if k == 2 { HOp::Rep(name, v) } else { HOp::Add(name, v) });
                }
            }
        }
    }
    ops
}

pub fn line_hdr(d: &[u8]) -> String {
    let ops = dec_hdr(d);
    let mut parts: Vec<String> = Vec::new();
    for op in &ops {
        parts.push(match op {
            HOp::Add(n, v) => format!("add:{}:{}", hex(n.as_bytes()), hex(v)),
            HOp::Rep(n, v) => format!("rep:{}:{}", hex(n.as_bytes()), hex(v)),
            HOp::Rm(n) => format!("rm:{}", hex(n.as_bytes())),
            HOp::Scl(None) => "scl:-".to_string(),
            HOp::Scl(Some(n)) => format!("scl:{}", n),
            HOp::Ste => "ste".to_string(),
            HOp::Scc => "scc".to_string(),
        });
    }
    let gets = ["content-length", "TRANSFER-encoding", "connection", "X-FOO", "x-sig~1"];
    format!(
        "HDR {} | {}",
        if parts.is_empty() { "-".to_string() } else { parts.join(";") },
        gets.iter().map(|g| hex(g.as_bytes())).collect::<Vec<_>>().join(";")
    )
}

// ------------------------------------------------------------------------------------------------ BODY

pub struct BodyCase {
    pub kind: String,
    pub lo: Vec<u8>,
    pub st: Vec<u8>,
    pub segs: Vec<usize>,
    pub api: &'static str,
    pub sched: Vec<usize>,
}

const SEG_SIZES: [usize; 8] = [1, 2, 3, 7, 100, 4095, 4096, 4097];
const READ_SIZES: [usize; 8] = [1, 2, 3, 5, 16, 100, 1024, 4096];

/// [kind][fixed length][api][#segs][segs…][#reads][reads…][split][encoded stream …]
pub fn dec_body(d: &[u8]) -> BodyCase {
    let mut c = Cur::new(d);
    let k = c.u8().unwrap_or(1);
    let n = c.u8().unwrap_or(0);
    let kind = if k % 4 == 0 { format!("fixed:{}", n % 40) } else { "chunked".to_string() };
    let api = ["read", "buf", "drain", "read"][c.u8().unwrap_or(0) as usize % 4];
    let nsegs = c.u8().unwrap_or(0) as usize % 4;
    let mut segs = Vec::new();
    for _ in 0..nsegs {
        segs.push(SEG_SIZES[c.u8().unwrap_or(0) as usize % 8]);
    }
    let nreads = c.u8().unwrap_or(0) as usize % 4;
    let mut sched = Vec::new();
    for _ in 0..nreads {
        sched.push(READ_SIZES[c.u8().unwrap_or(0) as usize % 8]);
    }
    let split = c.u8().unwrap_or(0) as usize;
    let total = c.rest();
    let cut = if total.is_empty() { 0 } else { split % (total.len() + 1) };
    BodyCase { kind, lo: total[..cut].to_vec(), st: total[cut..].to_vec(), segs, api, sched }
}

fn nums(v: &[usize]) -> String {
    if v.is_empty() { "-".into() } else { v.iter().map(|x| x.to_string()).collect::<Vec<_>>().join(",") }
}

pub fn line_body(d: &[u8]) -> String {
    let b = dec_body(d);
    format!("BODY kind={} lo={} st={} segs={} api={} sched={}", b.kind, hex(&b.lo), hex(&b.st), nums(&b.segs), b.api, nums(&b.sched))
}

// ------------------------------------------------------------------------------------------------ ROUTE

const SEG_ALPHA: &[u8] = b"abcxyz019-_.~";
const METHODS: [&str; 6] = ["GET", "POST", "PUT", "DELETE", "PURGE", "purge"];

fn dec_word(c: &mut Cur, max: usize) -> String {
    let len = (c.u8().unwrap_or(1) as usize % max) + 1;
    c.take(len).iter().map(|b| SEG_ALPHA[*b as usize % SEG_ALPHA.len()] as char).collect::<String>()
}

fn dec_pattern(c: &mut Cur) -> String {
    let nseg = c.u8().unwrap_or(1) as usize % 9;
    let mut p = String::new();
    for _ in 0..nseg {
        p.push('/');
        match c.u8().unwrap_or(0) % 8 {
            0 | 1 => {
                p.push(':');
                p.push_str(&dec_word(c, 3));
            }
            2 => p.push('*'),
            3 => {
                p.push_str("**");
                break;
            }
            _ => p.push_str(&dec_word(c, 4)),
        }
    }
    if p.is_empty() { "/".into() } else { p }
}

/// [#routes]{[method][pattern]}… [query method][query path: #segments, words, optional trailing slash]
pub fn line_route(d: &[u8]) -> String {
    let mut c = Cur::new(d);
    let n = c.u8().unwrap_or(1) as usize % 7 + 1;
    let mut tbl = Vec::new();
    for _ in 0..n {
        let m = METHODS[c.u8().unwrap_or(0) as usize % METHODS.len()];
        tbl.push(format!("{}:{}", m, hex(dec_pattern(&mut c).as_bytes())));
    }
    let qm = METHODS[c.u8().unwrap_or(0) as usize % METHODS.len()];
    let nseg = c.u8().unwrap_or(1) as usize % 10;
    let mut path = String::new();
    for _ in 0..nseg {
        path.push('/');
        if c.u8().unwrap_or(1) % 9 != 0 {
            path.push_str(&dec_word(&mut c, 4));
        }
    }
    if path.is_empty() || c.u8().unwrap_or(0) % 5 == 0 {
        path.push('/');
    }
    format!("ROUTE {} | {}:{}", tbl.join(";"), qm, hex(path.as_bytes()))
}

pub fn line_for(target: &str, d: &[u8]) -> String {
    match target {
        "req" => format!("REQ {}", hex(d)),
        "resp" => format!("RESP {}", hex(d)),
        "hdr" => line_hdr(d),
        "body" => line_body(d),
        "route" => line_route(d),
        "print" => line_print(d),
        _ => "BAD-TARGET".into(),
    }
}

// ------------------------------------------------------------------------------------------------ PRINT

pub struct PrintCase {
    pub entry: &'static str,
    pub code: u16,
    pub reason: Vec<u8>,
    pub nodate: bool,
    pub ops: Vec<HOp>,
    pub n: usize,
    pub pieces: Vec<usize>,
    pub method: &'static str,
    pub uri: &'static str,
}

const VALCH: &[u8] = b"abcxyzABC019 ,;=-_./\t";
const BODY_SIZES: [usize; 12] = [0, 1, 2, 5, 100, 2047, 2048, 2049, 8191, 8192, 8193, 9000];
const PIECE_SIZES: [usize; 8] = [1, 2, 7, 127, 128, 1024, 4096, 70000];
const PRINT_VALUES: [&str; 12] = ["chunked", "gzip, chunked", "chunked,", ",Chunked", "chunked , ", "close", "keep-alive, Close", "5", "0", "007", "x", ""];

/// [entry][code hi][code lo][reason][nodate][size][#pieces][pieces…][#ops]{[op][name…][value selector / bytes]}
pub fn dec_print(d: &[u8]) -> PrintCase {
    let mut c = Cur::new(d);
    let entry = ["bytes", "reader", "empty", "request", "reader"][c.u8().unwrap_or(0) as usize % 5];
    let raw = ((c.u8().unwrap_or(0) as u16) << 8) | c.u8().unwrap_or(200) as u16;
    let code = 100 + raw % 900;
    let reason: Vec<u8> = match c.u8().unwrap_or(0) % 6 {
        0 => b"OK".to_vec(),
        1 => Vec::new(),
        2 => b"NOT FOUND".to_vec(),
        3 => b"Fine".to_vec(),
        4 => b"ok".to_vec(),
        _ => {
            let len = c.u8().unwrap_or(1) as usize % 12 + 1;
            let r: Vec<u8> = c.take(len).iter().map(|b| b"abcXYZ' -0"[*b as usize % 10]).collect();
            let t: Vec<u8> = r.iter().copied().skip_while(|b| *b == b' ').collect();
            let mut t2 = t.clone();
            while t2.last() == Some(&b' ') { t2.pop(); }
            if t2.is_empty() { b"Fine".to_vec() } else { t2 }
        }
    };
    let nodate = c.u8().unwrap_or(1) % 4 != 0;
    let mut n = BODY_SIZES[c.u8().unwrap_or(0) as usize % BODY_SIZES.len()];
    if entry == "empty" {
        n = 0;
    }
    let np = c.u8().unwrap_or(0) as usize % 4;
    let mut pieces = Vec::new();
    for _ in 0..np {
        pieces.push(PIECE_SIZES[c.u8().unwrap_or(0) as usize % 8]);
    }
    let nops = c.u8().unwrap_or(0) as usize % 6;
    let mut ops = Vec::new();
    for _ in 0..nops {
        let b = match c.u8() {
            Some(b) => b,
            None => break,
        };
        match b % 8 {
            4 => {
                let k = c.u8().unwrap_or(0) % 6;
                let v = [0usize, n, n.saturating_sub(1), n + 1, 3, n + 7][k as usize];
                ops.push(HOp::Scl(Some(v as u64)));
            }
            5 => ops.push(HOp::Ste),
            6 => ops.push(HOp::Scc),
            k => {
                let name = dec_name(&mut c);
                if k == 3 {
                    ops.push(HOp::Rm(name));
                } else {
                    let sel = c.u8().unwrap_or(0);
                    let v: Vec<u8> = if sel < 0xc0 {
                        PRINT_VALUES[sel as usize % PRINT_VALUES.len()].as_bytes().to_vec()
                    } else {
                        let len = c.u8().unwrap_or(0) as usize % 16;
                        let raw: Vec<u8> = c.take(len).iter().map(|b| VALCH[*b as usize % VALCH.len()]).collect();
                        // values are stored trimmed by the generators of this domain (no leading / trailing OWS)
                        let s: Vec<u8> = raw.iter().copied().skip_while(|b| *b == b' ' || *b == b'\t').collect();
                        let mut s2 = s.clone();
                        while matches!(s2.last(), Some(b' ') | Some(b'\t')) { s2.pop(); }
                        s2
                    };
                    ops.push(if k == 2 { HOp::Rep(name, v) } else { HOp::Add(name, v) });
                }
            }
        }
    }
    let method = ["GET", "POST", "PURGE"][c.u8().unwrap_or(0) as usize % 3];
    let uri = ["/", "/api/v1?x=1", "*"][c.u8().unwrap_or(0) as usize % 3];
    PrintCase { entry, code, reason, nodate, ops, n, pieces, method, uri }
}

pub fn line_print(d: &[u8]) -> String {
    let p = dec_print(d);
    let mut parts: Vec<String> = Vec::new();
    for op in &p.ops {
        parts.push(match op {
            HOp::Add(n, v) => format!("add:{}:{}", hex(n.as_bytes()), hex(v)),
            HOp::Rep(n, v) => format!("rep:{}:{}", hex(n.as_bytes()), hex(v)),
            HOp::Rm(n) => format!("rm:{}", hex(n.as_bytes())),
            HOp::Scl(None) => "scl:0".to_string(),
            HOp::Scl(Some(n)) => format!("scl:{}", n),
            HOp::Ste => "ste".to_string(),
            HOp::Scc => "scc".to_string(),
        });
    }
    let mut line = format!(
        "PRINT entry={} code={} reason={} nodate={} hdr={} bodyrep=78*{} pieces={}",
        p.entry, p.code, hex(&p.reason), p.nodate as u8, if parts.is_empty() { "-".to_string() } else { parts.join(";") }, p.n, nums(&p.pieces)
    );
    if p.entry == "request" {
        line.push_str(&format!(" method={} uri={}", p.method, hex(p.uri.as_bytes())));
    }
    line
}
