//! libc symbols overridden in this binary (the definitions here win over libc's for calls made by
//! std, by the `libc` crate and by khttp's own `extern "C"` declarations).
use std::sync::atomic::{AtomicBool, AtomicI64, Ordering};

/// when set, `clock_gettime(CLOCK_REALTIME_COARSE)` returns FAKE_SEC
pub static FAKE_CLOCK: AtomicBool = AtomicBool::new(false);
pub static FAKE_SEC: AtomicI64 = AtomicI64::new(0);

#[repr(C)]
pub struct Ts {
    tv_sec: i64,
    tv_nsec: i64,
}

#[no_mangle]
pub unsafe extern "C" fn clock_gettime(clk: i32, tp: *mut Ts) -> i32 {
    let rc = libc::syscall(libc::SYS_clock_gettime, clk as libc::c_long, tp) as i32;
    if rc == 0 && clk == 5 && FAKE_CLOCK.load(Ordering::SeqCst) {
        (*tp).tv_sec = FAKE_SEC.load(Ordering::SeqCst);
        (*tp).tv_nsec = 0;
    }
    rc
}
