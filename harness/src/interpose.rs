//! libc symbols overridden in this binary (the definitions here win over libc's for calls made by
//! std, by the `libc` crate and by khttp's own `extern "C"` declarations).
use std::sync::atomic::{AtomicBool, AtomicI32, AtomicI64, AtomicUsize, Ordering};

/// when set, `clock_gettime(CLOCK_REALTIME_COARSE)` returns FAKE_SEC
pub static FAKE_CLOCK: AtomicBool = AtomicBool::new(false);
pub static FAKE_SEC: AtomicI64 = AtomicI64::new(0);

#[repr(C)]
pub struct Ts {
    tv_sec: i64,
    tv_nsec: i64,
}

#[no_mangle]
pub unsafe extern "C" fn clock_gettime(clk: i32, tp: *mut Ts) -> i32 {
    let rc = libc::syscall(libc::SYS_clock_gettime, clk as libc::c_long, tp) as i32;
    if rc == 0 && clk == 5 && FAKE_CLOCK.load(Ordering::SeqCst) {
        (*tp).tv_sec = FAKE_SEC.load(Ordering::SeqCst);
        (*tp).tv_nsec = 0;
    }
    rc
}

/// fd whose `recv` calls are observed (-1 = none) and the largest length requested on it
pub static RECV_LOG_FD: AtomicI32 = AtomicI32::new(-1);
pub static RECV_MAX_LEN: AtomicUsize = AtomicUsize::new(0);

#[no_mangle]
pub unsafe extern "C" fn recv(fd: i32, buf: *mut libc::c_void, len: usize, flags: i32) -> isize {
    if fd == RECV_LOG_FD.load(Ordering::Relaxed) {
        RECV_MAX_LEN.fetch_max(len, Ordering::SeqCst);
    }
    libc::syscall(libc::SYS_recvfrom, fd as libc::c_long, buf, len, flags as libc::c_long, 0usize, 0usize) as isize
}
