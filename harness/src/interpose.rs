//! libc symbols overridden in this binary (the definitions here win over libc's for calls made by
//! std, by the `libc` crate and by khttp's own `extern "C"` declarations).
use std::sync::atomic::{AtomicBool, AtomicI32, AtomicI64, AtomicUsize, Ordering};
use std::sync::Mutex;

/// when set, `clock_gettime(CLOCK_REALTIME_COARSE)` returns FAKE_SEC
pub static FAKE_CLOCK: AtomicBool = AtomicBool::new(false);
pub static FAKE_SEC: AtomicI64 = AtomicI64::new(0);

#[repr(C)]
pub struct Ts {
    tv_sec: i64,
    tv_nsec: i64,
}

#[no_mangle]
pub unsafe extern "C" fn clock_gettime(clk: i32, tp: *mut Ts) -> i32 {
    let rc = libc::syscall(libc::SYS_clock_gettime, clk as libc::c_long, tp) as i32;
    if rc == 0 && clk == 5 && FAKE_CLOCK.load(Ordering::SeqCst) {
        (*tp).tv_sec = FAKE_SEC.load(Ordering::SeqCst);
        (*tp).tv_nsec = 0;
    }
    rc
}

/// fd whose `recv` calls are observed (-1 = none) and the largest length requested on it
pub static RECV_LOG_FD: AtomicI32 = AtomicI32::new(-1);
pub static RECV_MAX_LEN: AtomicUsize = AtomicUsize::new(0);

/// number of threads currently inside `recv` on RECV_LOG_FD ("the server is parked in a read on that connection")
pub static RECV_PARKED: AtomicI32 = AtomicI32::new(0);
/// number of `recv` calls made on RECV_LOG_FD so far; the call with index RECV_FAIL_AT (if >= 0) fails with errno
/// RECV_FAIL_ERRNO without touching the socket (fault injection: EINTR, EAGAIN, ECONNRESET at an exact point)
pub static RECV_COUNT: AtomicI64 = AtomicI64::new(0);
pub static RECV_FAIL_AT: AtomicI64 = AtomicI64::new(-1);
pub static RECV_FAIL_ERRNO: AtomicI32 = AtomicI32::new(0);

#[no_mangle]
pub unsafe extern "C" fn recv(fd: i32, buf: *mut libc::c_void, len: usize, flags: i32) -> isize {
    let watched = fd == RECV_LOG_FD.load(Ordering::Relaxed);
    if watched {
        RECV_MAX_LEN.fetch_max(len, Ordering::SeqCst);
        let k = RECV_COUNT.fetch_add(1, Ordering::SeqCst);
        if k == RECV_FAIL_AT.load(Ordering::SeqCst) {
            *libc::__errno_location() = RECV_FAIL_ERRNO.load(Ordering::SeqCst);
            return -1;
        }
        RECV_PARKED.fetch_add(1, Ordering::SeqCst);
    }
    let r = libc::syscall(libc::SYS_recvfrom, fd as libc::c_long, buf, len, flags as libc::c_long, 0usize, 0usize) as isize;
    if watched {
        RECV_PARKED.fetch_sub(1, Ordering::SeqCst);
    }
    r
}

/// (number of EPOLL_CTL_ADD calls on connection sockets seen so far, indices that must fail)
pub static ADD_FAIL_PLAN: Mutex<(usize, Vec<usize>)> = Mutex::new((0, Vec::new()));
pub static ADD_SKIP: AtomicUsize = AtomicUsize::new(2); // listener + wake eventfd registrations come first

#[no_mangle]
pub unsafe extern "C" fn epoll_ctl(epfd: i32, op: i32, fd: i32, ev: *mut libc::epoll_event) -> i32 {
    if op == libc::EPOLL_CTL_ADD {
        // only TCP connection sockets (those with a peer) are counted
        let mut addr: libc::sockaddr_storage = std::mem::zeroed();
        let mut len = std::mem::size_of::<libc::sockaddr_storage>() as libc::socklen_t;
        let has_peer = libc::getpeername(fd, &mut addr as *mut _ as *mut libc::sockaddr, &mut len) == 0;
        if has_peer {
            let mut g = ADD_FAIL_PLAN.lock().unwrap_or_else(|e| e.into_inner());
            let k = g.0;
            g.0 += 1;
            if g.1.contains(&k) {
                *libc::__errno_location() = libc::ENOSPC;
                return -1;
            }
        }
    }
    libc::syscall(libc::SYS_epoll_ctl, epfd as libc::c_long, op as libc::c_long, fd as libc::c_long, ev) as i32
}

/// peer ports of the TCP sockets closed while CLOSE_LOG_ON (one entry per close call)
pub static CLOSE_LOG: Mutex<Vec<u16>> = Mutex::new(Vec::new());
pub static CLOSE_LOG_ON: AtomicBool = AtomicBool::new(false);

#[no_mangle]
pub unsafe extern "C" fn close(fd: i32) -> i32 {
    if CLOSE_LOG_ON.load(Ordering::Relaxed) {
        let mut addr: libc::sockaddr_in = std::mem::zeroed();
        let mut len = std::mem::size_of::<libc::sockaddr_in>() as libc::socklen_t;
        if libc::getpeername(fd, &mut addr as *mut _ as *mut libc::sockaddr, &mut len) == 0 && addr.sin_family == libc::AF_INET as u16 {
            // only the server side of a connection: its LOCAL port is the listening port, its peer port is the client's
            let mut la: libc::sockaddr_in = std::mem::zeroed();
            let mut ll = std::mem::size_of::<libc::sockaddr_in>() as libc::socklen_t;
            if libc::getsockname(fd, &mut la as *mut _ as *mut libc::sockaddr, &mut ll) == 0 {
                let lp = u16::from_be(la.sin_port);
                let pp = u16::from_be(addr.sin_port);
                if lp < pp || true {
                    if let Ok(mut g) = CLOSE_LOG.try_lock() {
                        // server-side sockets are recognised in post-processing (their peer port is a client port)
                        if SERVER_PORT.load(Ordering::Relaxed) == 0 || lp as usize == SERVER_PORT.load(Ordering::Relaxed) {
                            g.push(pp);
                        }
                    }
                }
            }
        }
    }
    libc::syscall(libc::SYS_close, fd as libc::c_long) as i32
}
pub static SERVER_PORT: AtomicUsize = AtomicUsize::new(0);
