//! kimpl: answers one case line per input line from the *real* khttp code (path dependency on /repo).
//! Line protocol shared with the Lean model driver `kmodel` (see /verif/DESIGN.md §3.3).
use std::io::{self, BufRead, Write};

mod util;
mod dom_parse;
mod dom_hdr;
mod dom_date;
mod dom_pool;
mod dom_route;
mod dom_conn;
mod dom_client;
mod dom_print;
mod dom_body;
mod dom_serve;
mod dom_epoll;
mod dom_mem;
mod fuzzdec;
mod interpose;

/// Counting allocator: live blocks of exactly 64 bytes with 64-byte alignment = live epoll `Handle` records
/// (`#[repr(align(64))]`), plus total live heap bytes (for the C20 measurements).
struct Counting;
static LIVE_64: std::sync::atomic::AtomicIsize = std::sync::atomic::AtomicIsize::new(0);
pub static LIVE_BYTES: std::sync::atomic::AtomicIsize = std::sync::atomic::AtomicIsize::new(0);
pub static PEAK_BYTES: std::sync::atomic::AtomicIsize = std::sync::atomic::AtomicIsize::new(0);
unsafe impl std::alloc::GlobalAlloc for Counting {
    unsafe fn alloc(&self, l: std::alloc::Layout) -> *mut u8 {
        use std::sync::atomic::Ordering::Relaxed;
        if l.size() == 64 && l.align() == 64 {
            LIVE_64.fetch_add(1, Relaxed);
        }
        let now = LIVE_BYTES.fetch_add(l.size() as isize, Relaxed) + l.size() as isize;
        PEAK_BYTES.fetch_max(now, Relaxed);
        std::alloc::System.alloc(l)
    }
    unsafe fn dealloc(&self, p: *mut u8, l: std::alloc::Layout) {
        use std::sync::atomic::Ordering::Relaxed;
        if l.size() == 64 && l.align() == 64 {
            LIVE_64.fetch_sub(1, Relaxed);
        }
        LIVE_BYTES.fetch_sub(l.size() as isize, Relaxed);
        std::alloc::System.dealloc(p, l)
    }
    unsafe fn realloc(&self, p: *mut u8, l: std::alloc::Layout, new_size: usize) -> *mut u8 {
        use std::sync::atomic::Ordering::Relaxed;
        let d = new_size as isize - l.size() as isize;
        let now = LIVE_BYTES.fetch_add(d, Relaxed) + d;
        PEAK_BYTES.fetch_max(now, Relaxed);
        std::alloc::System.realloc(p, l, new_size)
    }
}
#[global_allocator]
static ALLOC: Counting = Counting;

pub fn live_records() -> isize {
    LIVE_64.load(std::sync::atomic::Ordering::SeqCst)
}

fn main() {
    // panics inside the code under test are outcomes, not crashes; keep stderr quiet
    std::panic::set_hook(Box::new(|_| {}));
    let stdin = io::stdin();
    let stdout = io::stdout();
    let mut out = io::BufWriter::new(stdout.lock());
    for line in stdin.lock().lines() {
        let line = match line {
            Ok(l) => l,
            Err(_) => break,
        };
        let line = line.trim_end();
        if line.is_empty() || line.starts_with('#') {
            continue;
        }
        let mut it = line.splitn(2, ' ');
        let dom = it.next().unwrap_or("");
        let rest = it.next().unwrap_or("");
        let ans = match dom {
            "REQ" => dom_parse::req(rest),
            "RESP" => dom_parse::resp(rest),
            "REQG" => dom_parse::guarded(rest, false),
            "RESPG" => dom_parse::guarded(rest, true),
            "HDR" => dom_hdr::hdr(rest),
            "DATE" => dom_date::date(rest),
            "DATECACHE" => dom_date::date_cache(rest),
            "POOL" => dom_pool::pool(rest),
            "ROUTE" => dom_route::route(rest),
            "CONN" => dom_conn::conn(rest),
            "CLI" => dom_client::cli(rest),
            "PRINT" => dom_print::print(rest),
            "BODY" => dom_body::body(rest),
            "SERVE" => dom_serve::serve(rest),
            "EPOLL" => dom_epoll::epoll(rest),
            "MEM" => dom_mem::mem(rest),
            // STATUS <code>: `Status::of(code)` -> "S <code> <reason hex>"
            "STATUS" => {
                let code: u16 = rest.trim().parse().unwrap_or(0);
                let st = khttp::Status::of(code);
                format!("S {} {}", st.code, util::hex(st.reason.as_bytes()))
            }
            // FUZZLINE <target> <hex>: the case line a fuzz input of that target stands for (same decoder as the fuzz target)
            "FUZZLINE" => {
                let mut p = rest.splitn(2, ' ');
                let t = p.next().unwrap_or("");
                fuzzdec::line_for(t, &util::unhex(p.next().unwrap_or("e").trim()))
            }
            _ => "BAD-DOMAIN".to_string(),
        };
        let _ = writeln!(out, "{}", ans);
    }
    let _ = out.flush();
}
