//! kimpl: answers one case line per input line from the *real* khttp code (path dependency on /repo).
//! Line protocol shared with the Lean model driver `kmodel` (see /verif/DESIGN.md §3.3).
use std::io::{self, BufRead, Write};

mod util;
mod dom_parse;
mod dom_hdr;
mod dom_date;
mod dom_pool;
mod dom_route;
mod dom_conn;
mod dom_client;
mod dom_print;
mod dom_body;
mod interpose;

fn main() {
    // panics inside the code under test are outcomes, not crashes; keep stderr quiet
    std::panic::set_hook(Box::new(|_| {}));
    let stdin = io::stdin();
    let stdout = io::stdout();
    let mut out = io::BufWriter::new(stdout.lock());
    for line in stdin.lock().lines() {
        let line = match line {
            Ok(l) => l,
            Err(_) => break,
        };
        let line = line.trim_end();
        if line.is_empty() || line.starts_with('#') {
            continue;
        }
        let mut it = line.splitn(2, ' ');
        let dom = it.next().unwrap_or("");
        let rest = it.next().unwrap_or("");
        let ans = match dom {
            "REQ" => dom_parse::req(rest),
            "RESP" => dom_parse::resp(rest),
            "HDR" => dom_hdr::hdr(rest),
            "DATE" => dom_date::date(rest),
            "DATECACHE" => dom_date::date_cache(rest),
            "POOL" => dom_pool::pool(rest),
            "ROUTE" => dom_route::route(rest),
            "CONN" => dom_conn::conn(rest),
            "CLI" => dom_client::cli(rest),
            "PRINT" => dom_print::print(rest),
            "BODY" => dom_body::body(rest),
            _ => "BAD-DOMAIN".to_string(),
        };
        let _ = writeln!(out, "{}", ans);
    }
    let _ = out.flush();
}
