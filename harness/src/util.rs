pub fn unhex(s: &str) -> Vec<u8> {
    let b = s.as_bytes();
    let mut v = Vec::with_capacity(b.len() / 2);
    let mut i = 0;
    while i + 1 < b.len() {
        v.push((hv(b[i]) << 4) | hv(b[i + 1]));
        i += 2;
    }
    v
}
fn hv(c: u8) -> u8 {
    match c {
        b'0'..=b'9' => c - b'0',
        b'a'..=b'f' => c - b'a' + 10,
        b'A'..=b'F' => c - b'A' + 10,
        _ => 0,
    }
}
pub fn hex(b: &[u8]) -> String {
    const H: &[u8; 16] = b"0123456789abcdef";
    let mut s = String::with_capacity(b.len() * 2 + 1);
    if b.is_empty() {
        return "e".to_string(); // explicit token for the empty string
    }
    for &x in b {
        s.push(H[(x >> 4) as usize] as char);
        s.push(H[(x & 15) as usize] as char);
    }
    s
}
pub fn hex_opt(b: Option<&[u8]>) -> String {
    match b {
        Some(x) => hex(x),
        None => "-".to_string(),
    }
}
/// true iff slice `s` lies inside buffer `buf` (pointer containment)
pub fn inside(buf: &[u8], s: &[u8]) -> bool {
    if s.is_empty() {
        return true;
    }
    let b0 = buf.as_ptr() as usize;
    let b1 = b0 + buf.len();
    let s0 = s.as_ptr() as usize;
    let s1 = s0 + s.len();
    b0 <= s0 && s1 <= b1
}
pub fn ascii(s: &[u8]) -> bool {
    s.iter().all(|b| *b < 0x80)
}
