import Khttp.Gen.Consts
import Khttp.Model.Basic
import Khttp.Model.Swar
import Khttp.Model.Headers
import Khttp.Model.Method
import Khttp.Model.Parser
import Khttp.Spec.Head
