import Khttp.Gen.Consts
import Khttp.Model.Basic
import Khttp.Model.Swar
import Khttp.Model.Headers
import Khttp.Model.Parser
