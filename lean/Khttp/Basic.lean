def hello := "world"
