/- `ACCEPT` domain of the `kmodel` line protocol (unverified glue around `Khttp/Model/Accept.lean`) -/
import Khttp.Driver.Util
import Khttp.Model.Accept
namespace Khttp.Driver
open Khttp Khttp.Accept

/-- replay with the index of the first event that is not enabled -/
def acceptReplay (cap : Option Nat) : St → List Ev → Nat → Except Nat St
  | s, [], _ => .ok s
  | s, e :: es, i => if enabled cap s e then acceptReplay cap (step s e) es (i + 1) else .error i

/-- `ACCEPT cap=<k|-> ev=<a|r|x|e>,…` (a = arrive, r = the listener event is reported, x = accept returned a connection,
    e = the accept loop ends) → `OK backlog=<n> edge=<0|1> inloop=<0|1> accepted=<n> stranded=<0|1>` or `FAIL@<index>` -/
def acceptLine (arg : String) : String :=
  let ws := (arg.trimAscii.toString.splitOn " ").filter (· ≠ "")
  let get := fun (k : String) => (ws.find? (·.startsWith (k ++ "="))).map (fun w => (w.drop (k.length + 1)).toString)
  let cap : Option Nat := match get "cap" with
    | some "-" | none => none
    | some v => v.toNat?
  let evs := match get "ev" with
    | none | some "-" => some []
    | some v => (v.splitOn ",").mapM fun t => match t with
      | "a" => some Ev.arrive | "r" => some Ev.report | "x" => some Ev.acceptOne | "e" => some Ev.endLoop | _ => none
  match evs with
  | none => "BAD-ARG"
  | some es =>
    match acceptReplay cap {} es 0 with
    | .error i => s!"FAIL@{i}"
    | .ok s =>
      let b := fun (x : Bool) => if x then "1" else "0"
      let stranded := decide (0 < s.backlog) && !s.edge && !s.inLoop
      s!"OK backlog={s.backlog} edge={b s.edge} inloop={b s.inLoop} accepted={s.accepted} stranded={b stranded}"

end Khttp.Driver
