/- `BODY` line of the `kmodel` driver (unverified glue around `Khttp/Model/Body.lean`, kept small).

   input : `BODY kind=<fixed:N|chunked|empty|eof> lo=<hex leftover> st=<hex stream> segs=<n1,n2,…|-> api=<read|buf|drain> sched=<k1,k2,…|->`
           (`bodyLine` receives the text after `BODY`; hex of the empty string is `e`)
     segs  : sizes of the pending TCP segments of the stream, in order (n_i ≥ 1); a `read` takes from the current
             segment and leaves its rest pending; bytes beyond the listed segments form one last segment
     sched : api=read: sizes of the caller's buffers for successive `read` calls until `Ok(0)` / `Err`;
             api=buf : after each `fill_buf` the caller consumes `min(k_i, available)` bytes, until an empty slice / `Err`;
             (k_i ≥ 1; an exhausted schedule repeats its last element; an empty schedule `-` means 1024 every time)
             api=drain: `sched` is ignored, the reader is drained as by `Drop` (DATA is `e`)
   output: `DATA <hex of all delivered bytes> <END|ERR> pulled=<bytes taken from the raw stream> fail=<0|1> starved=<0|1>`
           (`starved`: some raw `read` with a non-empty buffer found the stream at its end)
           (with the optional input word `ek=1`: `ERR:<eof|invalid|fuel>` carries the error kind after a colon)
           or `BAD-ARG <what>` -/
import Khttp.Driver.Util
import Khttp.Model.Body
namespace Khttp.Driver
open Khttp Khttp.Body

def natList (s : String) : List Nat :=
  if s == "-" || s.isEmpty then [] else (s.splitOn ",").map natOf

def bodyLine (arg : String) : String :=
  let ws := arg.trimAscii.toString.splitOn " "
  match kv ws "kind", kv ws "lo", kv ws "st", kv ws "api" with
  | some kind, some lo, some st, some api =>
    let lo := unhex lo
    let st := unhex st
    let segs := natList ((kv ws "segs").getD "-")
    let sched := natList ((kv ws "sched").getD "-")
    let src : Src := { data := st, segs := segs }
    let reader? : Option BodyReader :=
      if kind == "chunked" then some (BodyReader.newChunked lo src)
      else if kind == "empty" then some (BodyReader.newEmpty src)
      else if kind == "eof" then some (BodyReader.newEof lo src)
      else if kind.startsWith "fixed:" then
        match (kind.drop 6).toString.toNat? with
        | some n => some (BodyReader.fromRequest lo src false (some n))
        | none => none
      else none
    match reader? with
    | none => "BAD-ARG kind"
    | some r =>
      let res? : Option (List Bytes × Outcome × BodyReader) :=
        if api == "read" then some (runRead' r sched)
        else if api == "buf" then some (runBuf' r sched)
        else if api == "drain" then
          let r1 := r.drain
          some ([], (if r1.fail then .err .unexpectedEof else .eof), r1)
        else none
      match res? with
      | none => "BAD-ARG api"
      | some (chunks, o, r0) =>
        -- the real reader is dropped at the end of the scenario: `Drop` drains whatever is left (also after an error)
        let r1 := if api == "drain" then r0 else r0.drain
        let pulled := st.length - r1.src.data.length
        let oc := match o with
          | .eof => "END"
          | .err e => if api != "drain" && kv ws "ek" == some "1" then "ERR:" ++ e.name else "ERR"
        s!"DATA {hex chunks.flatten} {oc} pulled={pulled} fail={if r1.fail then 1 else 0} starved={if r1.src.starved then 1 else 0}"
  | _, _, _, _ => "BAD-ARG missing"

end Khttp.Driver
