/- CONN line of kmodel: the fixed server configuration of harness/src/dom_conn.rs, in model form. -/
import Khttp.Driver.Loop
import Khttp.Model.Conn
namespace Khttp.Driver
open Khttp Khttp.Body Khttp.Router

def natOfBytes (b : Bytes) : Option Nat := (String.ofList (b.map fun c => Char.ofNat c.toNat)).toNat?

def param (ps : Params) (k : String) : Option Bytes := (ps.find? fun kv => kv.1 == str k).map (·.2)

def ok200 (body : Bytes) : Resp := ⟨200, false, body⟩

/-- `ctx.body().vec()`: read to the end (the schedule of read sizes does not matter: C06) -/
def readAll (b : BodyReader) : Option Bytes × BodyReader :=
  let (chunks, outc, b') := runRead' b []
  match outc with
  | .eof => (some chunks.flatten, b')
  | _ => (none, b')

/-- the `read/:k` handler: `while got < k { n = read(&mut buf[got..]); if n == 0 break }` -/
def readK : Nat → BodyReader → Nat → Bytes → Option Bytes × BodyReader
  | 0, b, _, acc => (some acc, b)
  | fuel + 1, b, k, acc =>
    if acc.length ≥ k then (some acc, b)
    else match b.read (k - acc.length) with
      | (.ok out, b') => if out.isEmpty then (some acc, b') else readK fuel b' k (acc ++ out)
      | (.err _, b') => (none, b')

def hEcho : Handler := fun _ _ b =>
  match readAll b with
  | (some body, b') => ⟨[ok200 body], b', true⟩
  | (none, b') => ⟨[], b', false⟩
def hNoread : Handler := fun _ _ b => ⟨[ok200 (str "noread")], b, true⟩
def hReadK : Handler := fun _ ps b =>
  let k := ((param ps "k").bind natOfBytes).getD 0
  match readK (k + 1) b k [] with
  | (some got, b') => ⟨[ok200 got], b', true⟩
  | (none, b') => ⟨[], b', false⟩
def hEarly : Handler := fun _ _ b =>
  match readAll b with
  | (some _, b') => ⟨[ok200 (str "early")], b', true⟩
  | (none, b') => ⟨[ok200 (str "early")], b', false⟩
def hSwallow : Handler := fun _ _ b =>
  match readAll b with
  | (some body, b') => ⟨[ok200 (str (toString body.length))], b', true⟩
  | (none, b') => ⟨[ok200 (str "0")], b', true⟩
def hClose : Handler := fun _ _ b => ⟨[⟨200, true, str "bye"⟩], b, true⟩
def hCloseEmpty : Handler := fun _ _ b => ⟨[⟨200, true, []⟩], b, true⟩
def hCloser : Handler := fun _ ps b =>
  let n := ((param ps "n").bind natOfBytes).getD 0
  ⟨[⟨200, true, List.replicate n 0x78⟩], b, true⟩
def hErr : Handler := fun _ _ b => ⟨[], b, false⟩
def hSilent : Handler := fun _ _ b => ⟨[], b, true⟩
/-- `/closerep/:how`: the close token of the response headers after add / replace / remove edits (evaluated with the
    header-collection model itself) -/
def hCloseRep : Handler := fun _ ps b =>
  let how := (param ps "how").getD []
  let h0 := Headers.newNodate
  let h :=
    if how == str "toclose" then (h0.add (str "connection") (str "keep-alive")).replace (str "connection") (str "close")
    else if how == str "tokeep" then h0.setConnectionClose.replace (str "connection") (str "keep-alive")
    else if how == str "twice" then ((h0.add (str "Connection") (str "close")).add (str "x-a") (str "1")).replace (str "CONNECTION") (str "upgrade")
    else ((h0.add (str "connection") (str "x")).remove (str "Connection")).add (str "connection") (str "Close")
  ⟨[⟨200, h.close, str "rep"⟩], b, true⟩
/-- `/continue`: interim 100 first, then the body is read and echoed -/
def hContinue : Handler := fun _ _ b =>
  match readAll b with
  | (some body, b') => ⟨[⟨100, false, []⟩, ok200 body], b', true⟩
  | (none, b') => ⟨[⟨100, false, []⟩], b', false⟩
def hBigr : Handler := fun _ ps b =>
  let n := ((param ps "n").bind natOfBytes).getD 0
  ⟨[ok200 (List.replicate n 0x78)], b, true⟩
def hP : Handler := fun _ ps b =>
  ⟨[ok200 ((param ps "a").getD (str "?") ++ str "," ++ (param ps "b").getD (str "?"))], b, true⟩
def hFallback : Handler := fun _ _ b => ⟨[⟨404, false, []⟩], b, true⟩

def harnessHook (r : Request) : HookOut :=
  match r.headers.get (str "x-hook") with
  | some v =>
    if v == str "drop" then .drop (some ⟨405, false, []⟩)
    else if v == str "dropclose" then .drop (some ⟨405, true, []⟩)
    else if v == str "dropclosesend" then .drop (some ⟨405, true, []⟩)
    else .proceed
  | none => .proceed

def harnessCfg (max : Nat) : Cfg :=
  { max := max
    hook := some harnessHook
    routes := [(.post, str "/echo"), (.post, str "/noread"), (.post, str "/read/:k"), (.post, str "/early"),
               (.post, str "/swallow"), (.get, str "/close"), (.get, str "/err"), (.get, str "/bigr/:n"),
               (.get, str "/p/:a/:b"), (.get, str "/errint"), (.get, str "/closeempty/:how"), (.get, str "/closer/:n"),
               (.get, str "/silent"), (.get, str "/errkind/:k"),
               (.get, str "/gecho"), (.put, str "/gecho"), (.delete, str "/gecho"), (.post, str "/continue"),
               (.get, str "/closerep/:how")]
    handler := fun i => [hEcho, hNoread, hReadK, hEarly, hSwallow, hClose, hErr, hBigr, hP, hErr, hCloseEmpty, hCloser, hSilent, hErr,
                         hEcho, hEcho, hEcho, hContinue, hCloseRep].getD i hFallback
    fallback := hFallback }

def showResp (r : Resp) : String := s!"R{r.status}:{if r.close then 1 else 0}:{hex r.body}"

/-- replay the client script: the server is re-run on the segments sent so far at every observation point -/
def connLine (arg : String) : String :=
  let ws := arg.splitOn " "
  let max := natOf ((kv ws "max").getD "4096")
  let steps := ((kv ws "script").getD "").splitOn ","
  let cfg := harnessCfg max
  let rec go (steps : List String) (segs : List Bytes) (eof : Bool) (taken : Nat) (out : List String) (mr : Nat) : List String × Nat :=
    match steps with
    | [] => (out.reverse, mr)
    | st :: rest =>
      if st.startsWith "s:" then go rest (segs ++ [unhex (st.drop 2).toString]) eof taken out mr
      else if st == "c" then go rest segs true taken out mr
      else if st == "r" || st == "e" then
        let o := handleConnection cfg ⟨segs, eof⟩
        let mr := Nat.max mr o.maxRecv
        match o.resps[taken]? with
        | some r => go rest segs eof (taken + 1) (showResp r :: out) mr
        | none =>
          let item := match o.fin with
            | .closed => "EOF"
            | .hang => if st == "r" then "HANG" else "OPEN"
          go rest segs eof taken (item :: out) mr
      else go rest segs eof taken out mr
  let (items, mr) := go steps [] false 0 [] 0
  s!"T {if items.isEmpty then "-" else ",".intercalate items} maxrecv={mr}"

end Khttp.Driver
