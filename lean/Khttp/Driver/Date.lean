/- `DATE` / `DATECACHE` domains of the `kmodel` line protocol (unverified glue around `Khttp/Model/Date.lean`) -/
import Khttp.Driver.Util
import Khttp.Model.Date
namespace Khttp.Driver
open Khttp Khttp.Date

def i64Max : Int := 9223372036854775807

/-- a decimal `i64` (optional leading `-` or `+`) -/
def parseI64 (s : String) : Option Int :=
  match s.trimAscii.toString.toInt? with
  | some v => if i64Min ≤ v ∧ v ≤ i64Max then some v else none
  | none => none

/-- `DATE <secs>` → lowercase hex of the 37 bytes of `get_date_from_secs(secs)`; `PANIC` if the model panics,
    `BAD-ARG` if `<secs>` is not a decimal `i64`. -/
def dateLine (arg : String) : String :=
  match parseI64 arg with
  | some secs => showRes hex (formatHttpDateR secs)
  | none => "BAD-ARG"

/-- `DATECACHE <r1>,<r2>,…` → the buffers returned by successive `get_date_now()` calls of one fresh thread whose
    clock readings are `r1, r2, …`; each hex-encoded, joined by `,`. -/
def dateCacheLine (arg : String) : String :=
  let parts := (arg.trimAscii.toString.splitOn ",").map parseI64
  if parts.all Option.isSome then
    let readings := parts.filterMap id
    -- `get_date_now` unwinds if `format_http_date` panics (never happens: `formatHttpDateR_ok`)
    if readings.all fun r => (formatHttpDateR r).isOk then
      ",".intercalate ((runCache DateCache.init readings).map hex)
    else "PANIC"
  else "BAD-ARG"

end Khttp.Driver
