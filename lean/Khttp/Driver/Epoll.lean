/- `EPOLLTRACE` line of the `kmodel` driver: replay a recorded trace of the real epoll server through the model
   `Khttp/Model/Epoll.lean` (unverified glue around `step?`, kept small).

   input : `EPOLLTRACE w=<nWorkers> ev=<e1>,<e2>,…`   (`epollTraceLine` receives the text after `EPOLLTRACE`;
           a leading `EPOLLTRACE` word is tolerated)

   Trace tokens (`<c>` connection id 0,1,2,… in accept order, `<w>` worker index):
     coarse (one token = one observable action of the server; expanded to the model's micro steps)
       `AC<c>`        accept + box stream + box handle + `EPOLL_CTL_ADD` ok
       `AF<c>`        accept + box stream + box handle + `EPOLL_CTL_ADD` FAILED + handle freed + stream torn down
       `CS<c>`        client: a complete request arrived on c          `CC<c>`  client: peer closed c
       `B<t1>+<t2>+…` `epoll_wait` returned these tokens in this order; `<t>` = `<c>` | `W` (wake eventfd) |
                      `L` (listener); `B` alone = only the wake token (= `BW`)
       `LK<c>`        loop: event of c skipped, `closed` was set
       `LF<c>`        loop: `closed` clear, CAS on `in_flight` failed (event ignored)
       `LD<c>`        loop: `closed` clear, CAS won, job submitted
       `BE`           loop: end of batch, `free_dead`
       `WT<w>:<c>`    worker w received the job of c
       `WK<w>:<c>`    worker w answered the oldest request, keep-alive, `in_flight.store(false)` done
       `WD<w>:<c>`    worker w: `handle_one_request` said close (the oldest pending request, if any, counts as
                      answered) and `EPOLL_CTL_DEL` done
       `WS<w>:<c>`    worker w dropped the stream / ran the teardown hook
       `WC<w>:<c>`    worker w stored `closed = true`
       `WR<w>:<c>`    worker w pushed the record to the reaper queue and wrote the eventfd
       `ST`           setup hook answered `StopAccepting`, `serve_epoll` returned
     fine (one token = one step of the model; may be mixed with the coarse ones)
       `LW` drain the wake eventfd      `LA` `accept` returned WouldBlock (listener event finished)
       `LL<c>` `closed.load` returned false   `LC<c>` CAS won   `LN<c>` CAS lost   `LX<c>` `execute`
       `A1<c>` accept + box stream   `A2<c>` box handle   `A3<c>` ADD ok   `A4<c>` ADD failed
       `A5<c>` free handle (failure branch)   `A6<c>` take stream + teardown (failure branch)
       `WH<w>:<c>` `handle_one_request` returned keep-alive   `WI<w>:<c>` `in_flight.store(false)`
       `WX<w>:<c>` `handle_one_request` returned close after answering   `WE<w>:<c>` … close, nothing answered
       `WL<w>:<c>` `EPOLL_CTL_DEL`   `WP<w>:<c>` reaper push   `WW<w>:<c>` reaper wake
   Leniency: a loop token that does not concern the head event of the batch first finishes a head `W` event
   (`LW`) or a head `L` event (`LA`), so `LW`/`LA` need not be recorded.  `WK`/`WD` after an explicit `WH`/`WX`/`WE`
   only perform the remaining micro step.

   output: `OK` | `BAD@<index> <reason>` (0-based index of the first offending trace token) | `BAD-ARG <what>`
   Besides enabledness the replay checks, before every micro step, that the record / stream the step dereferences
   is live, and after it that no release counter exceeds 1 (redundant by C15, checked anyway). -/
import Khttp.Driver.Util
import Khttp.Model.Epoll
namespace Khttp.Driver
open Khttp Khttp.Epoll

def parseNatPair (s : String) : Option (Nat × Nat) :=
  match s.splitOn ":" with
  | [a, b] => do
    let x ← a.toNat?
    let y ← b.toNat?
    pure (x, y)
  | _ => none

def parseBatchToken (t : String) : Option Token :=
  if t = "W" then some .wake
  else if t = "L" then some .listener
  else t.toNat?.map .conn

def parseBatch (r : String) : Option (List Token) :=
  if r.isEmpty then some [.wake]
  else (r.splitOn "+").mapM parseBatchToken

/-- A trace token: either a list of model events fixed by the token alone, or a token whose expansion depends on
    the state (`WK`, `WD`). -/
inductive TraceTok where
  | evs (es : List Event)
  | keepDone (w c : Nat)
  | closeDel (w c : Nat)

def parseEpollToken (t : String) : Option TraceTok :=
  let cs := t.toList
  let two := String.ofList (cs.take 2)
  let r := String.ofList (cs.drop 2)
  let one (f : Nat → List Event) : Option TraceTok := r.toNat?.map fun c => .evs (f c)
  let pair (f : Nat → Nat → List Event) : Option TraceTok := (parseNatPair r).map fun (w, c) => .evs (f w c)
  if t = "BE" then some (.evs [.batchEnd])
  else if t = "ST" then some (.evs [.stopAccepting])
  else if t = "LW" then some (.evs [.drainWake])
  else if t = "LA" then some (.evs [.acceptDone])
  else match two with
    | "AC" => one fun c => [.acceptConn c, .boxHandle c, .addOk c]
    | "AF" => one fun c => [.acceptConn c, .boxHandle c, .addFail c, .failFreeHandle c, .failTeardown c]
    | "A1" => one fun c => [.acceptConn c]
    | "A2" => one fun c => [.boxHandle c]
    | "A3" => one fun c => [.addOk c]
    | "A4" => one fun c => [.addFail c]
    | "A5" => one fun c => [.failFreeHandle c]
    | "A6" => one fun c => [.failTeardown c]
    | "CS" => one fun c => [.cSend c]
    | "CC" => one fun c => [.cClose c]
    | "LK" => one fun c => [.loadClosed c true]
    | "LF" => one fun c => [.loadClosed c false, .cas c false]
    | "LD" => one fun c => [.loadClosed c false, .cas c true, .execute c]
    | "LL" => one fun c => [.loadClosed c false]
    | "LC" => one fun c => [.cas c true]
    | "LN" => one fun c => [.cas c false]
    | "LX" => one fun c => [.execute c]
    | "WT" => pair fun w c => [.take w c]
    | "WK" => (parseNatPair r).map fun (w, c) => .keepDone w c
    | "WD" => (parseNatPair r).map fun (w, c) => .closeDel w c
    | "WH" => pair fun w c => [.handleKeep w c]
    | "WI" => pair fun w c => [.storeInFlight w c]
    | "WX" => pair fun w c => [.handleClose w c true]
    | "WE" => pair fun w c => [.handleClose w c false]
    | "WL" => pair fun w c => [.del w c]
    | "WS" => pair fun w c => [.dropStream w c]
    | "WC" => pair fun w c => [.setClosed w c]
    | "WR" => pair fun w c => [.push w c, .wake w c]
    | "WP" => pair fun w c => [.push w c]
    | "WW" => pair fun w c => [.wake w c]
    | _ =>
      match cs with
      | 'B' :: rest => (parseBatch (String.ofList rest)).map fun evs => .evs [.batchStart evs]
      | _ => none

def showPhase : Phase → String
  | .idle => "idle" | .jobQueued => "jobQueued" | .handling => "handling" | .keep => "keep"
  | .closing => "closing" | .deleted => "deleted" | .streamDropped => "streamDropped"
  | .closedSet => "closedSet" | .pushed => "pushed"

def showMode : Mode → String
  | .waiting => "waiting" | .batch => "batch" | .loaded c => s!"loaded:{c}" | .won c => s!"won:{c}"
  | .acc1 c => s!"acc1:{c}" | .acc2 c => s!"acc2:{c}" | .accF1 c => s!"accF1:{c}" | .accF2 c => s!"accF2:{c}"
  | .stopped => "stopped"

def showToken : Token → String
  | .conn c => s!"{c}" | .wake => "W" | .listener => "L"

def showHead (s : State) : String :=
  match s.rest.head? with
  | some t => showToken t
  | none => "-"

def showWorker (s : State) (w : Nat) : String :=
  match s.worker w with
  | some c => s!"conn:{c}/{showPhase (s.conn c).phase}"
  | none => "idle"

/-- why is `e` not enabled in `s` (first failing conjunct of the guard, in the order of `Epoll.enabled`) -/
def epollDisabledReason (s : State) : Event → String
  | .cSend c | .cClose c =>
    if (s.conn c).accepted ≠ true then s!"client-on-unknown-connection({c})" else s!"client-after-peer-close({c})"
  | .batchStart evs =>
    if s.mode ≠ .waiting then s!"epoll_wait-returned-inside-batch(mode={showMode s.mode})"
    else if evs = [] then "empty-batch"
    else if ¬ evs.Nodup then "duplicate-token-in-batch"
    else match evs.find? fun t => !s.ready t with
      | some (.conn c) =>
        if (s.conn c).registered then s!"batch-has-connection-that-is-not-readable({c})"
        else s!"batch-has-unregistered-connection({c})"
      | some .wake => "batch-has-wake-token-without-wake"
      | _ => "batch?"
  | .drainWake => s!"wake-drain-not-at-wake-event(mode={showMode s.mode},head={showHead s})"
  | .loadClosed c v =>
    if s.mode ≠ .batch ∨ s.rest.head? ≠ some (.conn c) then
      s!"event-not-at-head-of-batch({c},mode={showMode s.mode},head={showHead s})"
    else s!"closed-flag-mismatch({c},model={(s.conn c).closedFlag},trace={v})"
  | .cas c ok =>
    if s.mode ≠ .loaded c then s!"cas-without-load({c},mode={showMode s.mode})"
    else if ok then s!"cas-won-while-in-flight({c},phase={showPhase (s.conn c).phase})"
    else s!"cas-lost-while-not-in-flight({c})"
  | .execute c => s!"execute-without-cas({c},mode={showMode s.mode})"
  | .batchEnd =>
    if s.mode ≠ .batch then s!"free_dead-outside-batch(mode={showMode s.mode})"
    else s!"free_dead-with-unprocessed-events({s.rest.length},head={showHead s})"
  | .acceptConn c =>
    if s.mode ≠ .batch ∨ s.rest.head? ≠ some .listener then
      s!"accept-not-at-listener-event(mode={showMode s.mode},head={showHead s})"
    else s!"accept-id-not-next(expected={s.next},got={c})"
  | .boxHandle c | .addOk c | .addFail c | .failFreeHandle c | .failTeardown c =>
    s!"accept-step-out-of-order({c},mode={showMode s.mode})"
  | .acceptDone | .stopAccepting => s!"not-at-listener-event(mode={showMode s.mode},head={showHead s})"
  | .take w c =>
    if ¬ w < s.nWorkers then s!"no-such-worker({w})"
    else if s.worker w ≠ none then s!"take-by-busy-worker({w}={showWorker s w})"
    else match s.jobs.head? with
      | none => s!"take-from-empty-queue({c},phase={showPhase (s.conn c).phase})"
      | some h => s!"take-not-fifo(head={h},got={c})"
  | .handleKeep w c | .handleClose w c _ =>
    if s.worker w ≠ some c then s!"worker-does-not-run-connection({w}={showWorker s w},got={c})"
    else if (s.conn c).phase ≠ .handling then s!"worker-step-out-of-order({c},phase={showPhase (s.conn c).phase})"
    else s!"nothing-to-read({c},pending={(s.conn c).pending.length},peerClosed={(s.conn c).peerClosed})"
  | .storeInFlight w c | .del w c | .dropStream w c | .setClosed w c | .push w c | .wake w c =>
    if s.worker w ≠ some c then s!"worker-does-not-run-connection({w}={showWorker s w},got={c})"
    else s!"worker-step-out-of-order({c},phase={showPhase (s.conn c).phase})"

/-- checks done BEFORE a micro step: the memory it dereferences is live -/
def preCheck (s : State) (e : Event) : Option String :=
  match e.accessesRecord with
  | some c => if (s.conn c).handleLive then
      (match e.accessesStream with
       | some c' => if (s.conn c').streamLive then none else some s!"use-of-closed-stream({c'})"
       | none => none)
    else some s!"use-after-free-of-record({c})"
  | none =>
    match e.accessesStream with
    | some c' => if (s.conn c').streamLive then none else some s!"use-of-closed-stream({c'})"
    | none => none

/-- first connection of the list whose release counters exceed 1 -/
def overReleased (t : State) : List Nat → Option String
  | [] => none
  | c :: cs =>
    if (t.conn c).handleFreedCount > 1 then some s!"record-freed-twice({c})"
    else if (t.conn c).streamClosedCount > 1 then some s!"socket-closed-twice({c})"
    else overReleased t cs

/-- checks done AFTER a micro step `e` from `s` to `t` (only the connections the step released something of) -/
def postCheck (s t : State) : Event → Option String
  | .batchEnd => overReleased t s.reaper
  | .failFreeHandle c | .failTeardown c | .dropStream _ c => overReleased t [c]
  | _ => none

/-- replay the micro steps of one trace token -/
def runMicro (s : State) : List Event → Except String State
  | [] => .ok s
  | e :: es =>
    match preCheck s e with
    | some r => .error r
    | none =>
      match step? s e with
      | none => .error (epollDisabledReason s e)
      | some t =>
        match postCheck s t e with
        | some r => .error r
        | none => runMicro t es

/-- does the first micro step of the token belong to the event loop and work on a connection event / the end of
    the batch / the listener (so that a head `W` or a finished `L` event has to be completed first)? -/
def needsHead : List Event → Option (Option Token)
  | .loadClosed c _ :: _ => some (some (.conn c))
  | .batchEnd :: _ => some none
  | .acceptConn _ :: _ => some (some .listener)
  | .stopAccepting :: _ => some (some .listener)
  | _ => none

/-- leniency: finish head `W` / `L` events that the trace did not record, until the head is what the token needs -/
def autoFinish (s : State) (want : Option Token) : Nat → List Event
  | 0 => []
  | fuel + 1 =>
    if s.mode ≠ .batch then []
    else if s.rest.head? = want then []
    else match s.rest.head? with
      | some .wake => .drainWake :: autoFinish (apply s .drainWake) want fuel
      | some .listener => .acceptDone :: autoFinish (apply s .acceptDone) want fuel
      | _ => []

def expandTok (s : State) : TraceTok → List Event
  | .evs es =>
    match needsHead es with
    | some want => autoFinish s want (s.rest.length + 1) ++ es
    | none => es
  | .keepDone w c =>
    if (s.conn c).phase = .keep then [.storeInFlight w c] else [.handleKeep w c, .storeInFlight w c]
  | .closeDel w c =>
    if (s.conn c).phase = .closing then [.del w c]
    else [.handleClose w c (!(s.conn c).pending.isEmpty), .del w c]

def replayEpoll (s : State) (i : Nat) : List TraceTok → String
  | [] => "OK"
  | t :: ts =>
    match runMicro s (expandTok s t) with
    | .error r => s!"BAD@{i} {r}"
    | .ok s' => replayEpoll s' (i + 1) ts

/-- all tokens parsed, or the index of the first unparsable token -/
def parseEpollTrace (toks : List String) (i : Nat := 0) : Except Nat (List TraceTok) :=
  match toks with
  | [] => .ok []
  | t :: ts => match parseEpollToken t with
    | none => .error i
    | some e => (parseEpollTrace ts (i + 1)).map (e :: ·)

def epollTraceLine (arg : String) : String :=
  let ws := (arg.trimAscii.toString.splitOn " ").filter (· ≠ "")
  let ws := if ws.head? = some "EPOLLTRACE" then ws.tail else ws
  match (kv ws "w").bind (·.toNat?) with
  | none => "BAD-ARG w"
  | some 0 => "BAD-ARG w=0(assert!(size > 0))"
  | some n =>
    let evs := (kv ws "ev").getD ""
    let toks := (evs.splitOn ",").filter (· ≠ "")
    match parseEpollTrace toks with
    | .error i => s!"BAD-ARG ev[{i}]"
    | .ok es => replayEpoll (Epoll.init n) 0 es

end Khttp.Driver
