/-
  `HDR <ops> | <gets>` : run a sequence of `Headers` calls on the model and print the collection.

    <ops>  `-` or `;`-separated: [`nodate`] then any of
           `add:<hexname>:<hexvalue>`  `rep:<hexname>:<hexvalue>`  `rm:<hexname>`
           `scl:<decimal>` / `scl:-`   `ste`   `scc`
           (`nodate` as first element: start from `Headers::new_nodate()` instead of `Headers::new()`)
    <gets> `-` or `;`-separated hex names to look up with `get`

  answer: `f=<fields> cl=<n|-> ch=<0|1> cc=<0|1> inv=<0|1> g=<gets>`
    <fields> `,`-joined `<hexname>:<hexvalue>` in stored order, `e` if there is none
    <gets>   `,`-joined results, `-` for None, hex otherwise (`e` = empty value); `e` if no lookups
-/
import Khttp.Driver.Util
import Khttp.Model.Headers
namespace Khttp.Driver
open Khttp

def parseHdrOp (w : String) : Option HdrOp :=
  match w.splitOn ":" with
  | ["add", n, v] => some (.add (unhex n) (unhex v))
  | ["rep", n, v] => some (.replace (unhex n) (unhex v))
  | ["rm", n] => some (.remove (unhex n))
  | ["scl", "-"] => some (.setCl none)
  | ["scl", d] => d.toNat?.map fun k => .setCl (some k)
  | ["ste"] => some .setTeChunked
  | ["scc"] => some .setConnClose
  | _ => none

def splitList (s : String) : List String :=
  let t := s.trimAscii.toString
  if t == "-" || t == "" then [] else (t.splitOn ";").map fun w => w.trimAscii.toString

def hdrFields (h : Headers) : String :=
  let fs := h.fields.map fun (k, v) => hex k ++ ":" ++ hex v
  if fs.isEmpty then "e" else ",".intercalate fs

def bit (b : Bool) : String := if b then "1" else "0"

def hdrLine (arg : String) : String :=
  match arg.splitOn "|" with
  | [opsS, getsS] =>
    let ws := splitList opsS
    let (init, ws) :=
      match ws with
      | "nodate" :: rest => (Headers.newNodate, rest)
      | _ => (Headers.new, ws)
    match ws.mapM parseHdrOp with
    | none => "BAD-OP"
    | some ops =>
      let s := init.run ops
      let gets := (splitList getsS).map fun n => hexOpt (s.get (unhex n))
      let g := if gets.isEmpty then "e" else ",".intercalate gets
      let cl := match s.cl with | some n => toString n | none => "-"
      s!"f={hdrFields s} cl={cl} ch={bit s.chunked} cc={bit s.close} inv={bit s.hasInvalidFraming} g={g}"
  | _ => "BAD-LINE"

end Khttp.Driver
