import Khttp.Driver.Parse
import Khttp.Model.ReadLoop
namespace Khttp.Driver
open Khttp

def parseSegs (s : String) : List Bytes :=
  if s == "-" || s == "" then [] else (s.splitOn ",").filter (· != "") |>.map unhex

/-- `CLI segs=<hex>,… close=<0|1>`: the client's `read_response` loop on that segmentation -/
def cliLine (arg : String) : String :=
  let ws := arg.splitOn " "
  let segs := parseSegs ((kv ws "segs").getD "-")
  let close := (kv ws "close").getD "1" == "1"
  match (readResponse ⟨segs, close⟩).1 with
  | .ok ok =>
    let r := ok.res
    s!"OK c={r.code} r={hex r.reason} {headersStr r.headers}"
  | .error .headTooLarge => "ERR headTooLarge"
  | .error .parsing => "ERR parsing"
  | .error .unexpectedEof => "ERR unexpectedEof"
  | .error .hang => "ERR hang"

/-- `RDREQ max=<n> segs=<hex>,… close=<0|1>`: the server's `read_request` loop -/
def rdreqLine (arg : String) : String :=
  let ws := arg.splitOn " "
  let segs := parseSegs ((kv ws "segs").getD "-")
  let close := (kv ws "close").getD "0" == "1"
  let max := natOf ((kv ws "max").getD "4096")
  let (res, s', log) := readRequest max ⟨segs, close⟩
  let maxreq := log.foldl (fun a e => Nat.max a e.2) 0
  match res with
  | .ok ok => s!"OK off={ok.req.off} buffered={ok.buf.length} rest={s'.pending.length} maxrecv={maxreq}"
  | .error .tooLarge => s!"ERR tooLarge maxrecv={maxreq}"
  | .error .invalid => s!"ERR invalid maxrecv={maxreq}"
  | .error .readEof => s!"ERR readEof maxrecv={maxreq}"
  | .error .hang => s!"ERR hang maxrecv={maxreq}"

end Khttp.Driver
