import Khttp.Driver.Parse
import Khttp.Model.ReadLoop
import Khttp.Model.Conn
namespace Khttp.Driver
open Khttp

def parseSegs (s : String) : List Bytes :=
  if s == "-" || s == "" then [] else (s.splitOn ",").filter (· != "") |>.map unhex

/-- `CLI segs=<hex>,… close=<0|1>`: the client's `read_response` loop on that segmentation -/
def cliLine (arg : String) : String :=
  let ws := arg.splitOn " "
  let segs := parseSegs ((kv ws "segs").getD "-")
  let close := (kv ws "close").getD "1" == "1"
  match readResponse ⟨segs, close⟩ with
  | (.ok ok, s') =>
    let r := ok.res
    -- the body through `BodyReader::from_response` + `vec()` (only when the peer closes: otherwise an incomplete body makes
    -- the real client wait for its read time-out, which the model does not have)
    let body :=
      if close then
        let rd := Body.BodyReader.fromResponse (ok.buf.drop r.off) s'.toSrc r.headers.chunked r.headers.cl
        match Body.runRead rd [] with
        | (chunks, .eof) => s!" body={hex chunks.flatten}"
        | _ => " bodyerr"
      else ""
    s!"OK c={r.code} r={hex r.reason} {headersStr r.headers}{body}"
  | (.error .headTooLarge, _) => "ERR headTooLarge"
  | (.error .parsing, _) => "ERR parsing"
  | (.error .unexpectedEof, _) => "ERR unexpectedEof"
  | (.error .hang, _) => "ERR hang"

/-- `RDREQ max=<n> segs=<hex>,… close=<0|1>`: the server's `read_request` loop -/
def rdreqLine (arg : String) : String :=
  let ws := arg.splitOn " "
  let segs := parseSegs ((kv ws "segs").getD "-")
  let close := (kv ws "close").getD "0" == "1"
  let max := natOf ((kv ws "max").getD "4096")
  let (res, s', log) := readRequest max ⟨segs, close⟩
  let maxreq := log.foldl (fun a e => Nat.max a e.2) 0
  match res with
  | .ok ok => s!"OK off={ok.req.off} buffered={ok.buf.length} rest={s'.pending.length} maxrecv={maxreq}"
  | .error .tooLarge => s!"ERR tooLarge maxrecv={maxreq}"
  | .error .invalid => s!"ERR invalid maxrecv={maxreq}"
  | .error .readEof => s!"ERR readEof maxrecv={maxreq}"
  | .error .hang => s!"ERR hang maxrecv={maxreq}"

end Khttp.Driver
