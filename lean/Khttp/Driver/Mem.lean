/- `MEMMODEL` line of the `kmodel` driver: run the memory model (`Khttp/Model/Mem.lean`, property C20) on one case and
   print the theorem's bound next to the peak the model reaches (unverified glue, kept small).

   input (the text after `MEMMODEL`), space separated `key=value` words, any order:
     dir=<req|resp>              req: a server thread receives a request and a handler reads its body;
                                 resp: `write_response` sends a body taken from a reader
     framing=<cl|chunked|auto>   declared length | `transfer-encoding: chunked` | neither.
                                 (dir=req framing=auto: what a khttp client sends for an undeclared body, i.e. a declared
                                 length if n < PROBE_MAX, else chunked with a first chunk of PROBE_MAX bytes)
     n=<bytes>                   body length (only lengths are simulated, any size is fine)
     piece=<k>                   resp: bytes the reader returns per `read` (capped by the buffer it is offered);
                                 req: bytes the socket returns per `read` (TCP segmentation), default chunk size
   optional:
     head=<bytes>                length of the head (default 64)
     chunk=<bytes>               req, chunked: data bytes per chunk (default `piece`)
     cbuf=<bytes>                req: size of the handler's read buffer (default 8192)
     L=<bytes>                   req: longest size/trailer line allowed for (default: the longest one of this message)
     ext=<bytes>                 req, chunked: extra bytes (chunk extension) on every size line (default 0)
     trailers=<count>x<bytes>    req, chunked: trailer lines (default none)
     maxhead=<bytes>             req: `max_request_head` (default: the library's default)
     count=<all|lib|transfer>    req: which buffers are counted in both numbers: all (default) = REQUEST_BUFFER +
                                 BufReader + line + the handler's buffer; lib = without the handler's buffer;
                                 transfer = BufReader + line only (what a counting allocator sees on a warmed-up
                                 thread when the handler's buffer is on the stack, as in the harness' MEM domain)
   The std policy used for the run is the real one: amortised doubling (`max(2·cap, needed, 8)`), exact-fit probe in
   `read_to_end`, 8 KiB `BufWriter`.
   output: `K bound=<B> peakmodel=<P>`   B = the bound of theorem C20_send_bounded / C20_recv_bounded for the generated
                                         constants and this framing; P = max `heapBytes` over the states of the run
         | `BAD-ARG <what>`
   Long runs are shortened by skipping whole periods of the machine's steady state (see `skipPeriods`); `exact=1`
   disables this (every step is executed; slow for n/piece beyond ~10^7); `dbg=1` appends ` final=…` (a summary of
   the last state, for comparing the two modes). -/
import Khttp.Driver.Util
import Khttp.Model.Mem
namespace Khttp.Driver
open Khttp Khttp.Mem

/-- a machine whose state splits into a "shape" and a few counters that only go down and matter only when small -/
structure MemSim (σ : Type) where
  step : σ → σ
  halted : σ → Bool
  heap : σ → Nat
  /-- cheap part of the shape (compared first) -/
  key : σ → Nat
  /-- everything that influences the next steps, except the counters -/
  shape : σ → List Nat
  /-- decreasing counters; each one influences a step only through `min(·, x)` with `x ≤ margin` or a test `= 0` -/
  ctrs : σ → List Nat
  setCtrs : σ → List Nat → σ
  margins : List Nat

/-- the anchor state had the same shape as `s` and every counter was at least as large: the steps in between form a
    period that repeats as long as the counters stay above their margins.  Returns `s` with `m` periods skipped. -/
def skipPeriods {σ} (M : MemSim σ) (anchor s : σ) : σ :=
  if M.key anchor != M.key s then s else
  if M.shape anchor != M.shape s then s else
  let a := M.ctrs anchor
  let b := M.ctrs s
  if a.length != b.length then s else
  let trip := (a.zip b).zip M.margins        -- ((before, now), margin)
  if trip.any (fun x => x.1.1 < x.1.2) then s else
  if trip.all (fun x => x.1.1 == x.1.2) then s else
  -- number of whole periods every moving counter can afford while staying above margin + one period
  let ms := trip.filterMap fun x =>
    let d := x.1.1 - x.1.2
    if d = 0 then none else some ((x.1.2 - min x.1.2 (x.2 + d)) / d)
  let m := ms.foldl min (ms.headD 0)
  if m = 0 then s else
  M.setCtrs s (trip.map fun x => x.1.2 - m * (x.1.1 - x.1.2))

/-- run to the end; returns the peak of `heap` and the final state.  Every state is compared with an anchor taken
    `≤ period` steps earlier (Brent's cycle detection); when a period is recognised, as many repetitions of it as the
    counters allow are skipped (they visit the same shapes, hence the same `heap` values). -/
partial def runPeak {σ} (M : MemSim σ) (s : σ) (peak : Nat) (anchor : σ) (sinceAnchor : Nat) (period : Nat) : Nat × σ :=
  let peak := max peak (M.heap s)
  if M.halted s then (peak, s)
  else
    let s' := M.step s
    let s'' := skipPeriods M anchor s'
    if M.ctrs s'' != M.ctrs s' then runPeak M s'' peak s'' 0 period            -- skipped: start afresh
    else if sinceAnchor + 1 ≥ period then runPeak M s' peak s' 0 (2 * period)   -- no period found: look further back
    else runPeak M s' peak anchor (sinceAnchor + 1) period

-- ------------------------------------------------------------------------------------------------ sending

/-- real std: amortised doubling, exact-fit probe -/
def sendChoice (k : Nat) (s : SendState) : Choice :=
  { n := k, alt := true,
    cap := match s.pc with
      | .fastRead | .probe => max 8 (2 * s.coll.cap)
      | .headBuild | .fastInline => max 8 (2 * s.head.cap)
      | _ => 0 }

def pcNum : SPc → Nat
  | .start => 0 | .fastRead => 1 | .probe => 2 | .probeRead => 3 | .headAlloc => 4 | .headBuild => 5 | .fastInline => 6
  | .fastEmit => 7 | .openBw => 8 | .preSize => 9 | .preData => 10 | .preCrlf => 11 | .copy => 12 | .copyStack => 13
  | .copyCheck => 14 | .chunkRead => 15 | .chunkSize => 16 | .chunkData => 17 | .chunkCrlf => 18 | .chunkTerm => 19
  | .finish => 20 | .done => 21 | .failed => 22

def stratNum : Strat → Nat | .undecided => 0 | .fast => 1 | .streaming => 2 | .chunked => 3 | .auto => 4

def sendSim (cfg : SendCfg) (inp : SendInput) (k : Nat) : MemSim SendState :=
  let big := max cfg.t.chunkBufSize (max cfg.std.bwCap (max cfg.std.copyBuf (max cfg.t.probeMax cfg.std.rtProbe))) + 1
  { step := fun s => sendStep cfg inp s (sendChoice k s)
    halted := fun s => s.pc == .done || s.pc == .failed
    heap := SendState.heapBytes
    key := fun s => pcNum s.pc
    shape := fun s => [pcNum s.pc, stratNum s.strat, s.coll.len, s.coll.cap, s.collPending, s.head.len, s.head.cap,
                       s.bw.len, s.bw.cap, s.bwBody, s.sizeLine, s.chunkN, s.dropped]
    ctrs := fun s => [s.src, s.takeLeft]
    setCtrs := fun s cs => match cs with
      | [a, b] => { s with src := a, takeLeft := b }
      | _ => s
    margins := [big, big] }

/-- `exact = true`: never skip (the anchor never matches because the look-back period is never reached) -/
def runPeakMode {σ} (M : MemSim σ) (s0 : σ) (exact : Bool) : Nat × σ :=
  if exact then runPeak { M with key := fun _ => 0, shape := fun _ => [], ctrs := fun _ => [] } s0 0 s0 0 (2 ^ 62)
  else runPeak M s0 0 s0 0 64

def memResp (framing : String) (n k head : Nat) (exact dbg : Bool) : String :=
  let cfg := SendCfg.gen
  let fr? : Option Framing := match framing with
    | "cl" => some (.declared n) | "chunked" => some .chunked | "auto" => some .auto | _ => none
  match fr? with
  | none => "BAD-ARG framing"
  | some fr =>
    let inp : SendInput := { framing := fr, headLen := head, srcLen := n }
    let s0 := sendInit inp
    let (peak, sf) := runPeakMode (sendSim cfg inp k) s0 exact
    let dbgs := if dbg then s!" final={pcNum sf.pc}/{sf.src}/{sf.takeLeft}/{sf.dropped}" else ""
    s!"K bound={Ksend cfg (fr.cls cfg.t) head} peakmodel={peak}{dbgs}"

-- ------------------------------------------------------------------------------------------------ receiving

def recvChoice (k : Nat) (req : ReqShape) (s : RecvState) : RChoice :=
  { n := k, alt := false, req := req,
    cap := match s.pc with
      | .resize => max 8 (2 * s.reqBuf.cap)
      | _ => max 8 (2 * s.line.cap) }

def rpcNum : RPc → Nat
  | .idle => 0 | .resize => 1 | .readHead => 2 | .mkBody => 3 | .call => 4 | .fixedRead => 5 | .cAdvance => 6
  | .cSizeLine => 7 | .cData => 8 | .cCrlf => 9 | .cTrailer => 10 | .ret => 11 | .dropBody => 12

def cstateNum : CState → Nat | .size => 0 | .data => 1 | .crlf => 2 | .trailer => 3 | .done => 4
def kindNum : RKind → Nat | .fixed => 0 | .chunked => 1 | .empty => 2

/-- one request is served: the run ends when the thread is back at `idle` (marked by `filled`… we use a flag) -/
def recvSim (cfg : RecvCfg) (req : ReqShape) (k : Nat) (count : String) : MemSim (RecvState × Bool) :=
  let big := max cfg.bodyBufSize (max cfg.callerBuf (max cfg.drainBuf cfg.maxHead)) + 1
  { step := fun (s, started) =>
      let s' := recvStep cfg s (recvChoice k req s)
      (s', started || s'.pc != .idle)
    halted := fun (s, started) => started && s.pc == .idle
    heap := fun (s, _) =>
      if count == "lib" then s.libHeapBytes else if count == "transfer" then s.transferHeapBytes else s.heapBytes
    key := fun (s, _) => rpcNum s.pc
    shape := fun (s, started) =>
      [rpcNum s.pc, (if started then 1 else 0), s.reqBuf.len, s.reqBuf.cap, s.filled, s.br.len, s.br.cap, kindNum s.kind,
       cstateNum s.cstate, s.line.len, s.line.cap, s.lineLeft, s.lineChunk, (if s.blank then 1 else 0), s.crlfLeft,
       s.callerCap, (if s.draining then 1 else 0), s.outLeft, s.written, (if s.bodyFailed then 1 else 0), s.discarded,
       s.chunks.length, s.trailers.length]
       ++ (s.chunks.flatMap fun r => [r.lineLen, r.dataLen])
       ++ ((s.chunks.drop 1).map fun r => r.count)
       ++ s.trailers
    ctrs := fun (s, _) => [s.sock, s.rem, s.takeLeft, (s.chunks.head?.map (·.count)).getD 0]
    setCtrs := fun (s, started) cs => match cs with
      | [a, b, c, d] =>
        ({ s with sock := a, rem := b, takeLeft := c,
                  chunks := match s.chunks with
                    | r :: rest => { r with count := d } :: rest
                    | [] => [] }, started)
      | _ => (s, started)
    margins := [big, big, big, 1] }

def parseTrailers (s : String) : List Nat :=
  match s.splitOn "x" with
  | [c, b] => List.replicate (natOf c) (natOf b)
  | _ => []

def memReq (framing : String) (ws : List String) (n k head : Nat) (exact dbg : Bool) : String :=
  let t := Printer.Thresholds.gen
  let chunk := max 1 ((kv ws "chunk").map natOf |>.getD k)
  let ext := (kv ws "ext").map natOf |>.getD 0
  let trailers := (kv ws "trailers").map parseTrailers |>.getD []
  let cbuf := (kv ws "cbuf").map natOf |>.getD 8192
  let chunkedFr (first : Nat) (rest : Nat) : RFraming :=
    -- an optional first chunk of `first` bytes, then `rest` bytes in chunks of `chunk`, then the last-chunk
    let runs : List ChunkRun :=
      (if first = 0 then [] else [{ count := 1, lineLen := hexLen first + ext + 2, dataLen := first }])
      ++ (if rest / chunk = 0 then [] else [{ count := rest / chunk, lineLen := hexLen chunk + ext + 2, dataLen := chunk }])
      ++ (if rest % chunk = 0 then [] else [{ count := 1, lineLen := hexLen (rest % chunk) + ext + 2, dataLen := rest % chunk }])
      ++ [{ count := 1, lineLen := 1 + ext + 2, dataLen := 0 }]
    .chunked runs trailers
  let fr? : Option RFraming := match framing with
    | "cl" => some (.fixed n)
    | "chunked" => some (chunkedFr 0 n)
    | "auto" => some (if n < t.probeMax then .fixed n else chunkedFr t.probeMax (n - t.probeMax))
    | _ => none
  match fr? with
  | none => "BAD-ARG framing"
  | some fr =>
    let bodyWire : Nat := match fr with
      | .fixed cl => cl
      | .chunked runs trs => runs.foldl (fun a r => a + r.count * (r.lineLen + r.dataLen + (if r.dataLen = 0 then 0 else 2))) 0
                              + trs.foldl (· + ·) 0 + 2
      | .none => 0
    let longest : Nat := match fr with
      | .chunked runs trs => (runs.map (·.lineLen) ++ trs).foldl max 2
      | _ => 2
    let L := (kv ws "L").map natOf |>.getD longest
    let cfg0 := RecvCfg.gen cbuf L
    let cfg := { cfg0 with maxHead := (kv ws "maxhead").map natOf |>.getD cfg0.maxHead }
    let req : ReqShape := { headLen := head, framing := fr, wire := head + bodyWire }
    if ¬ req.LinesLe L ∨ L < 2 then "BAD-ARG L (a line of this message is longer)" else
    let s0 := (recvInit cfg, false)
    let count := (kv ws "count").getD "all"
    let bound :=
      if count == "lib" then reqBufBound cfg + cfg.bodyBufSize + lineCapB cfg
      else if count == "transfer" then cfg.bodyBufSize + lineCapB cfg
      else Krecv cfg
    let (peak, sf) := runPeakMode (recvSim cfg req k count) s0 exact
    let dbgs := if dbg then s!" final={rpcNum sf.1.pc}/{sf.1.sock}/{sf.1.rem}/{sf.1.discarded}/{sf.1.bodyFailed}" else ""
    s!"K bound={bound} peakmodel={peak}{dbgs}"

def memLine (arg : String) : String :=
  let ws := arg.splitOn " " |>.filter (· ≠ "")
  match kv ws "dir", kv ws "framing", kv ws "n", kv ws "piece" with
  | some dir, some framing, some n, some k =>
    match n.toNat?, k.toNat? with
    | some n, some k =>
      let head := (kv ws "head").map natOf |>.getD 64
      let exact := (kv ws "exact") == some "1"
      let dbg := (kv ws "dbg") == some "1"
      if dir == "resp" then memResp framing n k head exact dbg
      else if dir == "req" then memReq framing ws n k head exact dbg
      else "BAD-ARG dir"
    | _, _ => "BAD-ARG n/piece"
  | _, _, _, _ => "BAD-ARG missing dir/framing/n/piece"

end Khttp.Driver
