import Khttp.Driver.Util
import Khttp.Model.Parser
namespace Khttp.Driver
open Khttp

def showAcc (r : Res (Option Bytes)) : String :=
  match r with
  | .ok v => hexOpt v
  | _ => "PANIC"

def headersStr (h : Headers) : String :=
  let fs := h.fields.map fun (k, v) => hex k ++ ":" ++ hex v
  let s := if fs.isEmpty then "e" else ",".intercalate fs
  let cl := match h.cl with | some n => toString n | none => "-"
  s!"h={s} cl={cl} ch={if h.chunked then 1 else 0} cc={if h.close then 1 else 0}"

def allOk (l : List (Res (Option Bytes))) : Bool := l.all fun r => r.isOk

def reqLine (arg : String) : String :=
  let buf := unhex arg
  match Request.parse buf with
  | .ok r =>
    let path := (r.uri.path).bind fun p => .ok (some p)
    let query := r.uri.query
    let scheme := r.uri.scheme
    let auth := r.uri.authority
    let pq := (r.uri.pathAndQuery).bind fun p => .ok (some p)
    let safe := allOk [path, query, scheme, auth, pq]
    s!"OK m={hex r.method.asBytes} t={hex r.uri.full} p={showAcc path} q={showAcc query} s={showAcc scheme} a={showAcc auth} pq={showAcc pq} d=1 v={r.version} {headersStr r.headers} off={r.off} safe={if safe then 1 else 0}"
  | .err e => "ERR " ++ e.name
  | .panic _ => "PANIC"
  | .ub _ => "UB"

def respLine (arg : String) : String :=
  let buf := unhex arg
  match Response.parse buf with
  | .ok r => s!"OK c={r.code} r={hex r.reason} v={r.version} {headersStr r.headers} off={r.off} safe=1"
  | .err e => "ERR " ++ e.name
  | .panic _ => "PANIC"
  | .ub _ => "UB"

end Khttp.Driver
