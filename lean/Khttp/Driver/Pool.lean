/- `POOLTRACE` line of the `kmodel` driver: replay a recorded trace of the real worker pool through the model
   `Khttp/Model/Pool.lean` (unverified glue around `step?`, kept small).

   input : `POOLTRACE n=<size> ev=<e1>,<e2>,…`   (`poolTraceLine` receives the text after `POOLTRACE`)
     `S<j>`      job j submitted (`execute` returned / `send` done); ids 0,1,2,… in submission order
     `A<w>`      worker w acquired the receiver lock
     `R<w>:<j>`  worker w received job j and released the lock
     `X<w>`      worker w saw the channel disconnected, released the lock and exits
     `F<w>:<j>`  worker w finished job j
     `D`         sender dropped
     `J<w>`      owner joined worker w
     `T`         `drop` returned
   output: `OK` | `BAD@<index> <reason>` (0-based index of the first offending event) | `BAD-ARG <what>` -/
import Khttp.Driver.Util
import Khttp.Model.Pool
namespace Khttp.Driver
open Khttp Khttp.Pool

def parseNat2 (s : String) : Option (Nat × Nat) :=
  match s.splitOn ":" with
  | [a, b] => do
    let x ← a.toNat?
    let y ← b.toNat?
    pure (x, y)
  | _ => none

def parsePoolEvent (t : String) : Option Event :=
  match t.toList with
  | ['D'] => some .dropSender
  | ['T'] => some .ret
  | 'S' :: r => (String.ofList r).toNat?.map .submit
  | 'A' :: r => (String.ofList r).toNat?.map .acquire
  | 'X' :: r => (String.ofList r).toNat?.map .recvDisconnected
  | 'J' :: r => (String.ofList r).toNat?.map .join
  | 'R' :: r => (parseNat2 (String.ofList r)).map fun (w, j) => .recvJob w j
  | 'F' :: r => (parseNat2 (String.ofList r)).map fun (w, j) => .finish w j
  | _ => none

def showW : WState → String
  | .idle => "idle" | .locked => "locked" | .running j => s!"running:{j}" | .exited => "exited"

def showM : MState → String
  | .submitting => "submitting" | .joining k => s!"joining:{k}" | .returned => "returned"

/-- why is `e` not enabled in `s` (first failing conjunct of the guard, in the order of `Pool.enabled`) -/
def disabledReason (s : State) : Event → String
  | .submit j =>
    if s.main ≠ .submitting ∨ s.senderAlive ≠ true then s!"submit-after-drop(main={showM s.main})"
    else s!"submit-id-not-next(expected={s.next},got={j})"
  | .acquire w =>
    if ¬ w < s.size then s!"no-such-worker({w})"
    else if s.worker w ≠ .idle then s!"acquire-by-non-idle-worker({w}={showW (s.worker w)})"
    else s!"acquire-while-lock-held(by={s.lock.getD 0})"
  | .recvJob w j =>
    if ¬ w < s.size then s!"no-such-worker({w})"
    else if s.worker w ≠ .locked ∨ s.lock ≠ some w then s!"recv-without-lock({w}={showW (s.worker w)})"
    else match s.queue.head? with
      | none => "recv-from-empty-queue"
      | some h => s!"recv-not-fifo(head={h},got={j})"
  | .recvDisconnected w =>
    if ¬ w < s.size then s!"no-such-worker({w})"
    else if s.worker w ≠ .locked ∨ s.lock ≠ some w then s!"disconnect-without-lock({w}={showW (s.worker w)})"
    else if s.queue ≠ [] then s!"disconnect-with-queued-jobs({s.queue.length})"
    else "disconnect-with-live-sender"
  | .finish w j =>
    if ¬ w < s.size then s!"no-such-worker({w})"
    else s!"finish-of-job-not-running-there({w}={showW (s.worker w)},job={j})"
  | .dropSender => s!"drop-twice(main={showM s.main})"
  | .join k =>
    if s.main ≠ .joining k then s!"join-out-of-order(main={showM s.main},got={k})"
    else if ¬ k < s.size then s!"no-such-worker({k})"
    else s!"join-of-live-worker({k}={showW (s.worker k)})"
  | .ret => s!"return-before-all-joined(main={showM s.main})"

/-- first `j < n` with `runCount j > 1` -/
def findOverrun (s : State) : Nat → Option Nat
  | 0 => none
  | n + 1 => match findOverrun s n with
    | some j => some j
    | none => if s.runCount n ≤ 1 then none else some n

/-- lock not held by a worker that is executing a job (O(1): only the lock holder has to be inspected) -/
def checkLock (s : State) : Option String :=
  match s.lock with
  | some w => if (s.worker w).isRunning then some s!"lock-held-while-running({w})" else none
  | none => none

/-- decidable consequences of the invariant (`runCount ≤ 1` for every submitted job, lock not held by a running
    worker) for a whole state.  By `C13_at_most_once` / `C13_lock_not_held_while_running` they can never fail on a
    replayed trace; they are checked anyway. -/
def checkState (s : State) : Option String :=
  match findOverrun s s.next with
  | some j => some s!"job-run-twice({j})"
  | none => checkLock s

/-- the same check done incrementally after event `e` led to `t`: `runCount` is only changed by `recvJob w j`, and
    only at `j` (`Pool.runCount_frame`), so re-checking that one job keeps `runCount ≤ 1` true for all jobs in every
    state of the replay at O(1) lookups per event instead of O(#jobs). -/
def checkAfter (e : Event) (t : State) : Option String :=
  match e with
  | .recvJob _ j => if t.runCount j ≤ 1 then checkLock t else some s!"job-run-twice({j})"
  | _ => checkLock t

/-- first `j < n` that is not (done ∧ runCount = 1) -/
def findUndone (s : State) : Nat → Option Nat
  | 0 => none
  | n + 1 => match findUndone s n with
    | some j => some j
    | none => if s.status n = .done ∧ s.runCount n = 1 then none else some n

def replayTrace (s : State) (i : Nat) : List Event → String
  | [] => "OK"
  | e :: es =>
    match step? s e with
    | none => s!"BAD@{i} {disabledReason s e}"
    | some t =>
      match checkAfter e t with
      | some r => s!"BAD@{i} {r}"
      | none =>
        if es.isEmpty then
          -- last state: full check, and after `T` every submitted job must be done exactly once
          match checkState t with
          | some r => s!"BAD@{i} {r}"
          | none =>
            if e == .ret then
              match findUndone t t.next with
              | some j => s!"BAD@{i} returned-with-job-not-done-once({j})"
              | none => "OK"
            else "OK"
        else replayTrace t (i + 1) es

/-- all tokens parsed, or the index of the first unparsable token -/
def parseTrace (toks : List String) (i : Nat := 0) : Except Nat (List Event) :=
  match toks with
  | [] => .ok []
  | t :: ts => match parsePoolEvent t with
    | none => .error i
    | some e => (parseTrace ts (i + 1)).map (e :: ·)

def poolTraceLine (arg : String) : String :=
  let ws := (arg.trimAscii.toString.splitOn " ").filter (· ≠ "")
  let ws := if ws.head? = some "POOLTRACE" then ws.tail else ws
  match (kv ws "n").bind (·.toNat?) with
  | none => "BAD-ARG n"
  | some 0 => "BAD-ARG n=0(assert!(size > 0))"
  | some n =>
    let evs := (kv ws "ev").getD ""
    let toks := (evs.splitOn ",").filter (· ≠ "")
    match parseTrace toks with
    | .error i => s!"BAD-ARG ev[{i}]"
    | .ok es => replayTrace (Pool.init n) 0 es

end Khttp.Driver
