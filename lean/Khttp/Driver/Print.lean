/- `PRINT` line of the `kmodel` driver: run the printer model (`Khttp/Model/Printer.lean`) on one case
   (unverified glue, kept small).

   input (the text after `PRINT`), space separated `key=value` words, any order:
     entry=<empty|bytes|reader|request>   write_response_empty | write_response_bytes | write_response | write_request
     code=<n> reason=<hex>                status (responses)
     method=<token> uri=<hex>             request line (entry=request); `method` is plain text, e.g. `POST`
     nodate=<0|1>                         start from `Headers::new()` (0) or `Headers::new_nodate()` (1)
     hdr=<ops>                            `-` or `;`-separated: `add:<hexname>:<hexvalue>` `rep:<hexname>:<hexvalue>`
                                          `rm:<hexname>` `scl:<n>` (`scl:-` = `set_content_length(None)`) `ste` `scc`
     body=<hex> | bodyrep=<hexbyte>*<count>   the whole body (`e` = empty)
     pieces=<n1,n2,…|->                   sizes delivered by successive `read` calls (reader/request); `-` = as requested
     accept=<n|->                         count returned by the first `write_vectored` (`-` = everything)
   hex is lower-case, the empty string is `e` (as everywhere in the driver).
   The date line is not compared: with nodate=0 the literal 37 bytes `date: Thu, 01 Jan 1970 00:00:00 GMT\r\n`
   stand for what `get_date_now()` returned.
   output: `<hex>`      the printer returned `Ok(())`; lower-case hex of the bytes that reached the writer
         | `ERR <hex>`  the printer returned `Err(..)` (body shorter than the declared content-length); hex of the bytes
                        that had reached the writer by then (`ERR e` = nothing written)
         | `PANIC` | `BAD-ARG <what>` -/
import Khttp.Driver.Util
import Khttp.Model.Printer
namespace Khttp.Driver
open Khttp Khttp.Printer

def printFixedDate : Bytes := str "date: Thu, 01 Jan 1970 00:00:00 GMT\r\n"

/-- tail-recursive `unhex` (bodies may be hundreds of kilobytes) -/
def printUnhex (s : String) : Bytes :=
  if s == "e" then [] else
  let rec go : List Char → Array UInt8 → Array UInt8
    | a :: b :: rest, acc => go rest (acc.push (UInt8.ofNat (hv a * 16 + hv b)))
    | _, acc => acc
  (go s.toList #[]).toList

def printHex (bs : Bytes) : String :=
  if bs.isEmpty then "e"
  else
    let arr := bs.foldl (fun (a : Array Char) b => (a.push (hexDigit (b.toNat / 16))).push (hexDigit (b.toNat % 16))) #[]
    String.ofList arr.toList

def printApplyOp (h : Headers) (op : String) : Option Headers :=
  match op.splitOn ":" with
  | ["add", n, v] => some (h.add (unhex n) (unhex v))
  | ["rep", n, v] => some (h.replace (unhex n) (unhex v))
  | ["rm", n] => some (h.remove (unhex n))
  | ["scl", "-"] => some (h.setContentLength none)
  | ["scl", n] => n.toNat?.map fun k => h.setContentLength (some k)
  | ["ste"] => some h.setTransferEncodingChunked
  | ["scc"] => some h.setConnectionClose
  | _ => none

def printApplyOps (h : Headers) : List String → Option Headers
  | [] => some h
  | op :: ops => (printApplyOp h op).bind fun h' => printApplyOps h' ops

def printParseBody (ws : List String) : Option Bytes :=
  match kv ws "body" with
  | some b => some (printUnhex b)
  | none =>
    match kv ws "bodyrep" with
    | some r =>
      match r.splitOn "*" with
      | [b, n] =>
        match unhex b, n.toNat? with
        | [x], some k => some (List.replicate k x)
        | _, _ => none
      | _ => none
    | none => some []

def printParsePieces (s : String) : Option (List Nat) :=
  if s == "-" || s == "" then some []
  else (s.splitOn ",").mapM fun t => t.toNat?

def printLine (arg : String) : String :=
  let ws := (arg.trimAscii.toString.splitOn " ").filter (· ≠ "")
  let ws := if ws.head? = some "PRINT" then ws.tail else ws
  let entry := (kv ws "entry").getD "bytes"
  let code := natOf ((kv ws "code").getD "200")
  let reason := unhex ((kv ws "reason").getD "e")
  let opsStr := (kv ws "hdr").getD "-"
  let ops := if opsStr == "-" then [] else (opsStr.splitOn ";").filter (· ≠ "")
  -- (the HDR domain writes `nodate` as a first pseudo-op; accepted here as well)
  let nodate := (kv ws "nodate").getD "0" == "1" || ops.head? == some "nodate"
  let ops := if ops.head? == some "nodate" then ops.tail else ops
  let h0 := if nodate then Headers.newNodate else Headers.new
  match printApplyOps h0 ops with
  | none => "BAD-ARG hdr"
  | some h =>
    match printParseBody ws with
    | none => "BAD-ARG body"
    | some body =>
      match printParsePieces ((kv ws "pieces").getD "-") with
      | none => "BAD-ARG pieces"
      | some pieces =>
        if pieces.any (· == 0) then "BAD-ARG pieces(0)" else
        let acceptStr := (kv ws "accept").getD "-"
        let accept? : Option (Option Nat) :=
          if acceptStr == "-" then some none else acceptStr.toNat?.map some
        match accept? with
        | none => "BAD-ARG accept"
        | some accept =>
          let cfg := Thresholds.gen
          let pol := StdPolicy.real
          let src : RSrc := { data := body, pieces := pieces }
          let r : Option (PrintRes Bytes) :=
            match entry with
            | "empty" => some (writeResponseEmpty cfg code reason h printFixedDate)
            | "bytes" => some (writeResponseBytes cfg code reason h printFixedDate body accept)
            | "reader" => some (writeResponse cfg pol code reason h printFixedDate src accept)
            | "request" =>
              let m := Method.ofBytes (str ((kv ws "method").getD "GET"))
              let uri := unhex ((kv ws "uri").getD "2f")
              some (writeRequest cfg pol m uri h printFixedDate src accept)
            | _ => none
          match r with
          | none => "BAD-ARG entry"
          | some (.ok w) => printHex w
          | some (.ioErr w) => "ERR " ++ printHex w
          | some (.panic _) => "PANIC"

end Khttp.Driver
