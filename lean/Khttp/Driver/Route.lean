/- `ROUTE <regs> | <queries>` line of the kmodel driver (unverified glue) -/
import Khttp.Driver.Util
import Khttp.Model.Router
namespace Khttp.Driver
open Khttp Khttp.Router

/-- `<METHOD>:<hex>` -/
def parseMethodHex (s : String) : Option (Method × Bytes) :=
  match s.splitOn ":" with
  | [m, h] => some (Method.ofBytes (str m), unhex h)
  | _ => none

def parseList (s : String) : List (Method × Bytes) :=
  let s := s.trimAscii.toString
  if s == "-" || s.isEmpty then []
  else (s.splitOn ";").filterMap fun w => parseMethodHex w.trimAscii.toString

def showParams (ps : Params) : String :=
  if ps.isEmpty then "e" else ",".intercalate (ps.map fun kv => hex kv.1 ++ "=" ++ hex kv.2)

def showMatch (r : Option Nat × Params) : String :=
  (match r.1 with | some i => toString i | none => "F") ++ "/" ++ showParams r.2

/-- input: `<regs> | <queries>`; output: `<id>/<params>` per query joined by `;` -/
def routeLine (arg : String) : String :=
  match arg.splitOn "|" with
  | [regs, queries] =>
    let router := build (parseList regs)
    ";".intercalate ((parseList queries).map fun q => showMatch (router.matchRoute q.1 q.2))
  | _ => "BAD-ROUTE-LINE"

end Khttp.Driver
