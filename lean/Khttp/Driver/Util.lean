/- line-protocol helpers of the `kmodel` driver (unverified glue, kept small) -/
import Khttp.Model.Basic
namespace Khttp.Driver
open Khttp

def hexDigit (n : Nat) : Char :=
  if n < 10 then Char.ofNat (48 + n) else Char.ofNat (87 + n)

def hex (bs : Bytes) : String :=
  if bs.isEmpty then "e"
  else String.ofList (bs.flatMap fun b => [hexDigit (b.toNat / 16), hexDigit (b.toNat % 16)])

def hexOpt : Option Bytes → String
  | some b => hex b
  | none => "-"

def hv (c : Char) : Nat :=
  let n := c.toNat
  if 48 ≤ n && n ≤ 57 then n - 48
  else if 97 ≤ n && n ≤ 102 then n - 87
  else if 65 ≤ n && n ≤ 70 then n - 55
  else 0

def unhexChars : List Char → Bytes
  | a :: b :: rest => UInt8.ofNat (hv a * 16 + hv b) :: unhexChars rest
  | _ => []

def unhex (s : String) : Bytes := if s == "e" then [] else unhexChars s.toList

def showRes {α} (f : α → String) : Res α → String
  | .ok a => f a
  | .err e => "ERR " ++ e.name
  | .panic _ => "PANIC"
  | .ub _ => "UB"

/-- `k=v` lookup in a list of space separated words -/
def kv (ws : List String) (key : String) : Option String :=
  ws.findSome? fun w =>
    if w.startsWith (key ++ "=") then some ((w.drop (key.length + 1)).toString) else none

def natOf (s : String) : Nat := s.toNat?.getD 0

end Khttp.Driver
