/-
  The framing layer of the body reader, abstracted to the *content* (the bytes the buffered reader will still
  deliver): pure reference functions `pChunkSize`, `pCrlf`, `pTrailers`, `pAdvance` on contents, and the
  simulation lemmas "the model on any leftover/stream split and any stream segmentation behaves like the pure
  function on the content".
-/
import Khttp.Lemmas.BodyBuf
namespace Khttp.Body
open Khttp

/-! ## pure reference functions on contents -/

def pReadLine (c : Bytes) : IoRes (Bytes × Bytes) :=
  if validUtf8 (lineSplit c).1 then .ok (lineSplit c) else .err .invalidData

/-- abstract state of the chunked reader: framing state, `remaining_in_chunk`, unread content -/
structure CAbs where
  st : ChunkState
  rem : Nat
  c : Bytes

def pChunkSize (c : Bytes) : IoRes (ChunkState × Nat × Bytes) :=
  match pReadLine c with
  | .err e => .err e
  | .ok (line, rest) =>
    if line.length = 0 || line.getLast? != some LF then .err .unexpectedEof
    else
      let hex := trimEndCrLf (firstField line)
      if hex.isEmpty || !hex.all isHexDigit then .err .invalidData
      else match parseHexUsize hex with
        | none => .err .invalidData
        | some v => .ok (if v = 0 then .trailer else .data, v, rest)

def pCrlf (c : Bytes) : IoRes Bytes :=
  if c.length < 2 then .err .unexpectedEof
  else if c.take 2 != [CR, LF] then .err .invalidData
  else .ok (c.drop 2)

def pTrailers : Nat → Bytes → IoRes Bytes
  | 0, _ => .err .fuel
  | fuel + 1, c =>
    match pReadLine c with
    | .err e => .err e
    | .ok (line, rest) =>
      if line.length = 0 || line == [CR, LF] || line == [LF] then .ok rest
      else pTrailers fuel rest

def pAdvance : Nat → CAbs → IoRes (Bool × CAbs)
  | 0, _ => .err .fuel
  | fuel + 1, s =>
    match s.st with
    | .size =>
      match pChunkSize s.c with
      | .err e => .err e
      | .ok (st, v, rest) => pAdvance fuel ⟨st, v, rest⟩
    | .data => if s.rem = 0 then pAdvance fuel { s with st := .crlf } else .ok (true, s)
    | .crlf =>
      match pCrlf s.c with
      | .err e => .err e
      | .ok rest => pAdvance fuel ⟨.size, s.rem, rest⟩
    | .trailer =>
      match pTrailers (s.c.length + 1) s.c with
      | .err e => .err e
      | .ok rest => pAdvance fuel ⟨.done, s.rem, rest⟩
    | .done => .ok (false, s)

/-! ## size facts: the pure functions never lengthen the content -/

theorem lineSplit_length (c : Bytes) : (lineSplit c).1.length + (lineSplit c).2.length = c.length := by
  have := congrArg List.length (lineSplit_append_eq c); simpa using this

theorem pReadLine_ok {c line rest} (h : pReadLine c = .ok (line, rest)) :
    lineSplit c = (line, rest) ∧ validUtf8 line = true := by
  unfold pReadLine at h
  split at h
  · rename_i hv
    injection h with h
    rw [h] at hv
    exact ⟨h, hv⟩
  · cases h

theorem pReadLine_length {c line rest} (h : pReadLine c = .ok (line, rest)) : line.length + rest.length = c.length := by
  have := lineSplit_length c; rw [(pReadLine_ok h).1] at this; exact this

theorem pTrailers_fuel (f : Nat) : ∀ (f' : Nat) (c : Bytes), c.length < f → c.length < f' → pTrailers f c = pTrailers f' c := by
  induction f with
  | zero => intro f' c h; omega
  | succ f ih =>
    intro f' c h h'
    cases f' with
    | zero => omega
    | succ f' =>
      unfold pTrailers
      cases hl : pReadLine c with
      | err e => rfl
      | ok p =>
        obtain ⟨line, rest⟩ := p
        have := pReadLine_length hl
        simp only
        split
        · rfl
        · rename_i hc
          have : line.length ≠ 0 := by intro h0; simp [h0] at hc
          exact ih f' rest (by omega) (by omega)

theorem pTrailers_length (f : Nat) : ∀ (c rest : Bytes), pTrailers f c = .ok rest → rest.length ≤ c.length := by
  induction f with
  | zero => intro c rest h; simp [pTrailers] at h
  | succ f ih =>
    intro c rest h
    unfold pTrailers at h
    cases hl : pReadLine c with
    | err e => simp [hl] at h
    | ok p =>
      obtain ⟨line, r⟩ := p
      have hlen := pReadLine_length hl
      simp only [hl] at h
      split at h
      · injection h with h; subst h; omega
      · have := ih r rest h; omega

theorem pChunkSize_length {c st v rest} (h : pChunkSize c = .ok (st, v, rest)) : rest.length < c.length := by
  unfold pChunkSize at h
  cases hl : pReadLine c with
  | err e => simp [hl] at h
  | ok p =>
    obtain ⟨line, r⟩ := p
    have hlen := pReadLine_length hl
    simp only [hl] at h
    split at h
    · cases h
    · rename_i hc
      have hl0 : line.length ≠ 0 := by intro h0; simp [h0] at hc
      split at h
      · cases h
      · split at h
        · cases h
        · injection h with h; injection h with _ h; injection h with _ h; subst h; omega

theorem pCrlf_length {c rest} (h : pCrlf c = .ok rest) : rest.length + 2 = c.length := by
  unfold pCrlf at h
  split at h
  · cases h
  · split at h
    · cases h
    · injection h with h; subst h; simp; omega

theorem pAdvance_length (f : Nat) : ∀ (s : CAbs) (b : Bool) (s' : CAbs), pAdvance f s = .ok (b, s') →
    s'.c.length ≤ s.c.length := by
  induction f with
  | zero => intro s b s' h; simp [pAdvance] at h
  | succ f ih =>
    intro s b s' h
    unfold pAdvance at h
    split at h
    · cases hc : pChunkSize s.c with
      | err e => simp [hc] at h
      | ok p =>
        obtain ⟨st, v, rest⟩ := p
        simp only [hc] at h
        have := ih _ _ _ h
        have := pChunkSize_length hc
        simp at *; omega
    · split at h
      · exact ih { s with st := .crlf } _ _ h
      · injection h with h; injection h with _ h; subst h; exact Nat.le_refl _
    · cases hc : pCrlf s.c with
      | err e => simp [hc] at h
      | ok rest =>
        simp only [hc] at h
        have := ih _ _ _ h
        have := pCrlf_length hc
        simp at *; omega
    · cases hc : pTrailers (s.c.length + 1) s.c with
      | err e => simp [hc] at h
      | ok rest =>
        simp only [hc] at h
        have := ih _ _ _ h
        have := pTrailers_length _ _ _ hc
        simp at *; omega
    · injection h with h; injection h with _ h; subst h; exact Nat.le_refl _

/-- `advance` answers `true` only in state `Data` with `remaining_in_chunk > 0` -/
theorem pAdvance_true (f : Nat) : ∀ (s s' : CAbs), pAdvance f s = .ok (true, s') → s'.st = .data ∧ s'.rem ≠ 0 := by
  induction f with
  | zero => intro s s' h; simp [pAdvance] at h
  | succ f ih =>
    intro s s' h
    unfold pAdvance at h
    split at h
    · cases hc : pChunkSize s.c with
      | err e => simp [hc] at h
      | ok p => obtain ⟨st, v, rest⟩ := p; simp only [hc] at h; exact ih _ _ h
    · rename_i hst
      split at h
      · exact ih _ _ h
      · rename_i hr
        injection h with h; injection h with _ h; subst h; exact ⟨hst, hr⟩
    · cases hc : pCrlf s.c with
      | err e => simp [hc] at h
      | ok rest => simp only [hc] at h; exact ih _ _ h
    · cases hc : pTrailers (s.c.length + 1) s.c with
      | err e => simp [hc] at h
      | ok rest => simp only [hc] at h; exact ih _ _ h
    · injection h with h; injection h with h _; cases h

/-! ## simulation: the chunked reader on any split / segmentation vs. the pure functions on its content -/

def ChunkedReader.abs (c : ChunkedReader) : CAbs := ⟨c.state, c.rem, c.inner.content⟩

theorem readLine_sim (b : BufReader Swl) :
    match pReadLine b.content with
    | .err e => ∃ b1, b.readLine = (.err e, b1)
    | .ok (line, rest) => ∃ b1, b.readLine = (.ok line, b1) ∧ b1.content = rest := by
  obtain ⟨h1, h2⟩ := BufReader.readLine_spec b
  unfold pReadLine
  by_cases hv : validUtf8 (lineSplit b.content).1 = true
  · simp only [hv, if_true]; exact h1 hv
  · simp only [hv]
    exact h2 (by simpa using hv)

theorem readChunkSize_sim (c : ChunkedReader) :
    match pChunkSize c.inner.content with
    | .err e => ∃ c1, c.readChunkSize = (.err e, c1)
    | .ok (st, v, rest) => ∃ c1, c.readChunkSize = (.ok (), c1) ∧ c1.abs = ⟨st, v, rest⟩ := by
  have hl := readLine_sim c.inner
  unfold pChunkSize ChunkedReader.readChunkSize
  cases hp : pReadLine c.inner.content with
  | err e =>
    simp only [hp] at hl ⊢
    obtain ⟨b1, e1⟩ := hl
    simp only [e1]; exact ⟨_, rfl⟩
  | ok p =>
    obtain ⟨line, rest⟩ := p
    simp only [hp] at hl ⊢
    obtain ⟨b1, e1, c1⟩ := hl
    simp only [e1]
    by_cases h0 : (decide (line.length = 0) || line.getLast? != some LF) = true
    · simp only [h0, if_true]; exact ⟨_, rfl⟩
    · simp only [h0, Bool.false_eq_true, if_false]
      by_cases hh : ((trimEndCrLf (firstField line)).isEmpty || !(trimEndCrLf (firstField line)).all isHexDigit) = true
      · simp only [hh, if_true]; exact ⟨_, rfl⟩
      · simp only [hh]
        cases hv : parseHexUsize (trimEndCrLf (firstField line)) with
        | none => simp only []; exact ⟨_, rfl⟩
        | some v =>
          simp only []
          refine ⟨_, rfl, ?_⟩
          simp [ChunkedReader.abs, c1]

theorem readExact2_sim (b : BufReader Swl) :
    match pCrlf b.content with
    | .err .unexpectedEof => ∃ b1, b.readExact 2 = (.err .unexpectedEof, b1)
    | .err _ => ∃ b1 bs, b.readExact 2 = (.ok bs, b1) ∧ (bs != [CR, LF]) = true
    | .ok rest => ∃ b1, b.readExact 2 = (.ok [CR, LF], b1) ∧ b1.content = rest := by
  unfold pCrlf
  by_cases h2 : b.content.length < 2
  · simp only [h2, if_true]
    exact BufReader.readExact_eof b 2 h2
  · simp only [h2, if_false]
    obtain ⟨b1, e1, c1⟩ := BufReader.readExact_ok b 2 (by omega)
    by_cases hne : (b.content.take 2 != [CR, LF]) = true
    · simp only [hne, if_true]
      exact ⟨b1, _, e1, hne⟩
    · simp only [hne]
      have : b.content.take 2 = [CR, LF] := by simpa using hne
      rw [this] at e1
      exact ⟨b1, e1, c1⟩

theorem trailerLoop_sim (f : Nat) : ∀ (b : BufReader Swl), b.content.length < f →
    match pTrailers f b.content with
    | .err e => ∃ b1, ChunkedReader.trailerLoop f b = (.err e, b1)
    | .ok rest => ∃ b1, ChunkedReader.trailerLoop f b = (.ok (), b1) ∧ b1.content = rest := by
  induction f with
  | zero => intro b h; omega
  | succ f ih =>
    intro b hf
    have hl := readLine_sim b
    unfold pTrailers ChunkedReader.trailerLoop
    cases hp : pReadLine b.content with
    | err e =>
      simp only [hp] at hl ⊢
      obtain ⟨b1, e1⟩ := hl
      simp only [e1]; exact ⟨_, rfl⟩
    | ok p =>
      obtain ⟨line, rest⟩ := p
      have hlen := pReadLine_length hp
      simp only [hp] at hl ⊢
      obtain ⟨b1, e1, c1⟩ := hl
      simp only [e1]
      by_cases hc : (line.length = 0 || line == [CR, LF] || line == [LF]) = true
      · simp only [hc, if_true]; exact ⟨b1, rfl, c1⟩
      · simp only [hc]
        have : line.length ≠ 0 := by intro h0; simp [h0] at hc
        have := ih b1 (by rw [c1]; omega)
        rw [c1] at this
        exact this

theorem bufBound_ge (b : BufReader Swl) : b.content.length ≤ RawRead.bound b := BufReader.content_length_le b

theorem advanceLoop_sim (f : Nat) : ∀ (c : ChunkedReader),
    match pAdvance f c.abs with
    | .err e => ∃ c1, ChunkedReader.advanceLoop f c = (.err e, c1)
    | .ok (b, s) => ∃ c1, ChunkedReader.advanceLoop f c = (.ok b, c1) ∧ c1.abs = s := by
  induction f with
  | zero => intro c; simp only [pAdvance, ChunkedReader.advanceLoop]; exact ⟨_, rfl⟩
  | succ f ih =>
    intro c
    unfold pAdvance ChunkedReader.advanceLoop
    have habs : c.abs = ⟨c.state, c.rem, c.inner.content⟩ := rfl
    rw [habs]
    cases hst : c.state with
    | size =>
      simp only []
      have hs := readChunkSize_sim c
      cases hp : pChunkSize c.inner.content with
      | err e =>
        simp only [hp] at hs ⊢
        obtain ⟨c1, e1⟩ := hs
        simp only [e1]; exact ⟨_, rfl⟩
      | ok p =>
        obtain ⟨st, v, rest⟩ := p
        simp only [hp] at hs ⊢
        obtain ⟨c1, e1, a1⟩ := hs
        simp only [e1]
        have := ih c1
        rw [a1] at this
        exact this
    | data =>
      simp only []
      by_cases hr : c.rem = 0
      · simp only [hr, if_true]
        have := ih { c with state := .crlf }
        simpa [ChunkedReader.abs, hr] using this
      · simp only [hr, if_false]
        exact ⟨c, rfl, by simp [ChunkedReader.abs, hst]⟩
    | crlf =>
      simp only []
      have hs := readExact2_sim c.inner
      cases hp : pCrlf c.inner.content with
      | err e =>
        simp only [hp] at hs ⊢
        cases e with
        | unexpectedEof =>
          simp only [] at hs
          obtain ⟨b1, e1⟩ := hs
          simp only [e1]; exact ⟨_, rfl⟩
        | invalidData =>
          simp only [] at hs
          obtain ⟨b1, bs, e1, hne⟩ := hs
          simp only [e1, hne, if_true]; exact ⟨_, rfl⟩
        | fuel =>
          exfalso
          unfold pCrlf at hp
          split at hp
          · cases hp
          · split at hp <;> cases hp
      | ok rest =>
        simp only [hp] at hs ⊢
        obtain ⟨b1, e1, c1⟩ := hs
        simp only [e1]
        have := ih { c with inner := b1, state := .size }
        simpa [ChunkedReader.abs, c1] using this
    | trailer =>
      simp only []
      have hb := bufBound_ge c.inner
      have hs := trailerLoop_sim (RawRead.bound c.inner + 1) c.inner (by omega)
      rw [pTrailers_fuel _ (c.inner.content.length + 1) _ (by omega) (by omega)] at hs
      cases hp : pTrailers (c.inner.content.length + 1) c.inner.content with
      | err e =>
        simp only [hp] at hs ⊢
        obtain ⟨b1, e1⟩ := hs
        simp only [e1]; exact ⟨_, rfl⟩
      | ok rest =>
        simp only [hp] at hs ⊢
        obtain ⟨b1, e1, c1⟩ := hs
        simp only [e1]
        have := ih { c with inner := b1, state := .done }
        simpa [ChunkedReader.abs, c1] using this
    | done =>
      simp only []
      exact ⟨c, rfl, by simp [ChunkedReader.abs, hst]⟩

theorem advance_sim (c : ChunkedReader) :
    match pAdvance 8 c.abs with
    | .err e => ∃ c1, c.advance = (.err e, c1)
    | .ok (b, s) => ∃ c1, c.advance = (.ok b, c1) ∧ c1.abs = s := advanceLoop_sim 8 c

/-- in state `Data` with data remaining, `advance` does nothing -/
theorem advance_data (c : ChunkedReader) (hs : c.state = .data) (hr : c.rem ≠ 0) : c.advance = (.ok true, c) := by
  simp [ChunkedReader.advance, ChunkedReader.advanceLoop, hs, hr]

theorem pAdvance_data (s : CAbs) (hs : s.st = .data) (hr : s.rem ≠ 0) : pAdvance 8 s = .ok (true, s) := by
  simp [pAdvance, hs, hr]

end Khttp.Body
