/-
  Layer lemmas for the body reader model: raw stream, `StreamWithLeftover`, `Take`, `BufReader`.
  Every reader below the framing layer is characterised by its *content* = the byte string it will still deliver;
  whatever the schedules, a read delivers a prefix of the content, at least one byte unless the content is empty.
-/
import Khttp.Model.Body
namespace Khttp.Body
open Khttp

/-- laws of an infallible reader in terms of its content -/
class LawfulRaw (ρ : Type) [RawRead ρ] where
  content : ρ → Bytes
  read_content : ∀ (r : ρ) (n : Nat), (RawRead.read r n).1 ++ content (RawRead.read r n).2 = content r
  read_le : ∀ (r : ρ) (n : Nat), (RawRead.read r n).1.length ≤ n
  read_progress : ∀ (r : ρ) (n : Nat), 0 < n → content r ≠ [] → (RawRead.read r n).1 ≠ []
  bound_ge : ∀ r : ρ, (content r).length ≤ RawRead.bound r
  /-- ghost: the raw stream below was read at its end -/
  starved : ρ → Bool
  read_starved : ∀ (r : ρ) (n : Nat), content r ≠ [] → starved (RawRead.read r n).2 = starved r

/-! ### raw stream -/

theorem Src.read_content (s : Src) (n : Nat) : (s.read n).1 ++ (s.read n).2.data = s.data := by
  unfold Src.read; split
  · simp
  · split
    · rename_i h; simp at h; simp [h]
    · split <;> simp

theorem Src.read_le (s : Src) (n : Nat) : (s.read n).1.length ≤ n := by
  unfold Src.read; split
  · simp
  · split
    · simp
    · split <;> simp <;> omega

theorem Src.read_progress (s : Src) (n : Nat) (hn : 0 < n) (h : s.data ≠ []) : (s.read n).1 ≠ [] := by
  have hl : 0 < s.data.length := List.length_pos_iff.mpr h
  have he : s.data.isEmpty = false := by cases hd : s.data <;> simp_all
  unfold Src.read; split
  · omega
  · simp only [he, Bool.false_eq_true, if_false]
    split <;> (intro h0; have := congrArg List.length h0; simp only [List.length_take, List.length_nil] at this; omega)

/-- the raw stream notes starvation only when it is read at its end -/
theorem Src.read_starved (s : Src) (n : Nat) (h : s.data ≠ []) : (s.read n).2.starved = s.starved := by
  have he : s.data.isEmpty = false := by cases hd : s.data <;> simp_all
  unfold Src.read; split
  · rfl
  · simp only [he, Bool.false_eq_true, if_false]
    split <;> rfl

instance : LawfulRaw Src where
  content s := s.data
  read_content := Src.read_content
  read_le := Src.read_le
  read_progress := Src.read_progress
  bound_ge _ := Nat.le_refl _
  starved s := s.starved
  read_starved s n h := Src.read_starved s n h

/-! ### `StreamWithLeftover` -/

def Swl.content (s : Swl) : Bytes := s.lo ++ s.src.data

theorem Swl.read_content (s : Swl) (n : Nat) : (s.read n).1 ++ (s.read n).2.content = s.content := by
  unfold Swl.read Swl.content; split
  · simp [← List.append_assoc]
  · rename_i h
    have : s.lo = [] := by cases hl : s.lo <;> simp_all
    simp [this, Src.read_content]

theorem Swl.read_le (s : Swl) (n : Nat) : (s.read n).1.length ≤ n := by
  unfold Swl.read; split
  · simp; omega
  · exact Src.read_le _ _

theorem Swl.read_progress (s : Swl) (n : Nat) (hn : 0 < n) (h : s.content ≠ []) : (s.read n).1 ≠ [] := by
  unfold Swl.read; split
  · rename_i hl
    intro h0; have := congrArg List.length h0; simp only [List.length_take, List.length_nil] at this; omega
  · rename_i hl
    have : s.lo = [] := by cases hl' : s.lo <;> simp_all
    apply Src.read_progress _ _ hn
    simpa [Swl.content, this] using h

theorem Swl.read_starved (s : Swl) (n : Nat) (h : s.content ≠ []) : (s.read n).2.src.starved = s.src.starved := by
  unfold Swl.read; split
  · rfl
  · rename_i hl
    have : s.lo = [] := by cases hl' : s.lo <;> simp_all
    apply Src.read_starved
    simpa [Swl.content, this] using h

instance : LawfulRaw Swl where
  content := Swl.content
  read_content := Swl.read_content
  read_le := Swl.read_le
  read_progress := Swl.read_progress
  bound_ge s := by simp [Swl.content, RawRead.bound]
  starved s := s.src.starved
  read_starved := Swl.read_starved

/-! ### `Take` -/

def Take.content (t : Take) : Bytes := t.inner.content.take t.limit

/-- everything still unread below the `Take`, ignoring the limit -/
def Take.total (t : Take) : Bytes := t.inner.content

theorem Take.read_total (t : Take) (n : Nat) : (t.read n).1 ++ (t.read n).2.total = t.total := by
  unfold Take.read Take.total; split
  · simp
  · simp [Swl.read_content]

theorem Take.read_le (t : Take) (n : Nat) : (t.read n).1.length ≤ n := by
  unfold Take.read; split
  · simp
  · have := Swl.read_le t.inner (min n t.limit); simp at this ⊢; omega

theorem Take.read_le_limit (t : Take) (n : Nat) : (t.read n).1.length ≤ t.limit := by
  unfold Take.read; split
  · simp
  · have := Swl.read_le t.inner (min n t.limit); simp at this ⊢; omega

theorem Take.read_limit (t : Take) (n : Nat) : (t.read n).2.limit = t.limit - (t.read n).1.length := by
  unfold Take.read; split
  · simp
  · simp

theorem Take.read_content (t : Take) (n : Nat) : (t.read n).1 ++ (t.read n).2.content = t.content := by
  have h1 := Take.read_total t n
  have h2 := Take.read_le_limit t n
  have h3 := Take.read_limit t n
  unfold Take.content
  unfold Take.total at h1
  rw [h3, ← h1, List.take_append]
  simp [List.take_of_length_le h2]

theorem Take.read_progress (t : Take) (n : Nat) (hn : 0 < n) (h : t.content ≠ []) : (t.read n).1 ≠ [] := by
  unfold Take.content at h
  unfold Take.read; split
  · rename_i h0; simp [h0] at h
  · rename_i h0
    apply Swl.read_progress
    · omega
    · intro hc; simp [hc] at h

theorem Take.read_starved (t : Take) (n : Nat) (h : t.content ≠ []) :
    (t.read n).2.inner.src.starved = t.inner.src.starved := by
  unfold Take.content at h
  unfold Take.read; split
  · rfl
  · apply Swl.read_starved
    intro hc; simp [hc] at h

instance : LawfulRaw Take where
  content := Take.content
  read_content := Take.read_content
  read_le := Take.read_le
  read_progress := Take.read_progress
  starved t := t.inner.src.starved
  read_starved := Take.read_starved
  bound_ge t := by
    simp only [Take.content, Swl.content, RawRead.bound, List.length_take, List.length_append]; omega

/-! ### lines -/

/-- split after the first LF (`(line including the LF, rest)`); without LF everything is the line -/
def lineSplit : Bytes → Bytes × Bytes
  | [] => ([], [])
  | b :: r => if b == LF then ([b], r) else ((b :: (lineSplit r).1), (lineSplit r).2)

theorem memchr_nil (c : UInt8) : memchr c [] = none := by simp [memchr]

theorem memchr_cons (c b : UInt8) (a : Bytes) :
    memchr c (b :: a) = if b == c then some 0 else (memchr c a).map (· + 1) := by
  simp only [memchr, List.findIdx_cons, List.length_cons]
  by_cases h : (b == c) = true
  · simp [h]
  · simp only [h, cond_false, Bool.false_eq_true, if_false]
    by_cases h2 : List.findIdx (fun x => x == c) a < a.length
    · simp [h2]
    · simp [h2]

theorem lineSplit_append_some (a r : Bytes) (i : Nat) (h : memchr LF a = some i) :
    lineSplit (a ++ r) = (a.take (i + 1), a.drop (i + 1) ++ r) := by
  induction a generalizing i with
  | nil => simp [memchr_nil] at h
  | cons b a ih =>
    rw [memchr_cons] at h
    by_cases hb : (b == LF) = true
    · simp only [hb, if_true, Option.some.injEq] at h
      subst h
      simp [lineSplit, hb]
    · simp only [hb] at h
      cases hm : memchr LF a with
      | none => simp [hm] at h
      | some j =>
        simp [hm] at h
        subst h
        simp [lineSplit, hb, ih j hm]

theorem lineSplit_append_none (a r : Bytes) (h : memchr LF a = none) :
    lineSplit (a ++ r) = (a ++ (lineSplit r).1, (lineSplit r).2) := by
  induction a with
  | nil => simp
  | cons b a ih =>
    rw [memchr_cons] at h
    by_cases hb : (b == LF) = true
    · simp [hb] at h
    · simp only [hb] at h
      cases hm : memchr LF a with
      | some j => simp [hm] at h
      | none => simp [lineSplit, hb, ih hm]

theorem lineSplit_append_eq (c : Bytes) : (lineSplit c).1 ++ (lineSplit c).2 = c := by
  induction c with
  | nil => simp [lineSplit]
  | cons b r ih =>
    unfold lineSplit; split <;> simp [ih]

/-! ### `BufReader` -/

namespace BufReader
variable {ρ : Type} [RawRead ρ] [LawfulRaw ρ]

/-- what a buffered reader will still deliver: the unconsumed buffer, then the content of the inner reader -/
def content (b : BufReader ρ) : Bytes := b.buf ++ LawfulRaw.content b.inner

theorem capacity_pos : 0 < capacity := by decide

theorem content_length_le (b : BufReader ρ) : b.content.length ≤ RawRead.bound b.inner + b.buf.length := by
  have := LawfulRaw.bound_ge b.inner
  simp [content]; omega

/-- `fill_buf` returns a prefix of the content (the new buffer), non-empty unless the content is empty;
the content does not change -/
theorem fillBuf_spec (b : BufReader ρ) :
    ∃ av b1, b.fillBuf = (av, b1) ∧ b1.buf = av ∧ b1.content = b.content ∧ (b.content ≠ [] → av ≠ []) := by
  unfold fillBuf
  by_cases hb : b.buf.isEmpty
  · have hb' : b.buf = [] := by simpa using hb
    refine ⟨(RawRead.read b.inner capacity).1,
      { inner := (RawRead.read b.inner capacity).2, buf := (RawRead.read b.inner capacity).1 },
      by simp only [hb, if_true], rfl, ?_, ?_⟩
    · simp [content, hb', LawfulRaw.read_content]
    · intro hc
      apply LawfulRaw.read_progress _ _ capacity_pos
      simpa [content, hb'] using hc
  · refine ⟨b.buf, b, by simp only [hb]; rfl, rfl, rfl, ?_⟩
    intro _ h; simp [h] at hb

theorem consume_content (b : BufReader ρ) (k : Nat) (hk : k ≤ b.buf.length) :
    (b.consume k).content = b.content.drop k := by
  simp [consume, content, List.drop_append_of_le_length hk]

omit [RawRead ρ] [LawfulRaw ρ] in
theorem consume_buf (b : BufReader ρ) (k : Nat) : (b.consume k).buf = b.buf.drop k := rfl

/-- `read` delivers a prefix of the content of length ≤ n, non-empty when `n > 0` and the content is non-empty -/
theorem read_spec (b : BufReader ρ) (n : Nat) :
    ∃ out b1, b.read n = (out, b1) ∧ out ++ b1.content = b.content ∧ out.length ≤ n ∧
      (0 < n → b.content ≠ [] → out ≠ []) := by
  unfold read
  by_cases hby : (b.buf.isEmpty && decide (capacity ≤ n)) = true
  · simp only [hby, if_true]
    have hb' : b.buf = [] := by simp at hby; exact hby.1
    refine ⟨_, _, rfl, ?_, LawfulRaw.read_le _ _, ?_⟩
    · simp [content, hb', LawfulRaw.read_content]
    · intro hn hc
      apply LawfulRaw.read_progress _ _ hn
      simpa [content, hb'] using hc
  · simp only [hby]
    obtain ⟨av, b1, he, hbuf, hcont, hne⟩ := fillBuf_spec b
    simp only [he]
    refine ⟨_, _, rfl, ?_, ?_, ?_⟩
    · rw [consume_content _ _ (by simp [hbuf]; omega), ← hcont]
      have : b1.content = av ++ LawfulRaw.content b1.inner := by simp [content, hbuf]
      rw [this, List.length_take]
      by_cases hl : n ≤ av.length
      · rw [Nat.min_eq_left hl, List.drop_append_of_le_length hl, ← List.append_assoc, List.take_append_drop]
      · have hl' : av.length ≤ n := by omega
        rw [Nat.min_eq_right hl', List.take_of_length_le hl']; simp
    · simp; omega
    · intro hn hc
      have := hne hc
      intro h0
      have h1 := congrArg List.length h0
      have : 0 < av.length := List.length_pos_iff.mpr this
      simp only [List.length_take, List.length_nil] at h1; omega

/-- `read_exact`: succeeds with the first `n` bytes of the content iff the content has that many -/
theorem readExactLoop_spec (fuel : Nat) : ∀ (b : BufReader ρ) (need : Nat) (acc : Bytes), need < fuel →
    (need ≤ b.content.length → ∃ b1, readExactLoop fuel b need acc = (.ok (acc ++ b.content.take need), b1) ∧
        b1.content = b.content.drop need) ∧
    (b.content.length < need → ∃ b1, readExactLoop fuel b need acc = (.err .unexpectedEof, b1)) := by
  induction fuel with
  | zero => intro b need acc h; omega
  | succ fuel ih =>
    intro b need acc hf
    unfold readExactLoop
    by_cases hn : need = 0
    · subst hn; simp
    · simp only [hn, if_false]
      obtain ⟨out, b1, he, hc, hle, hpr⟩ := read_spec b need
      simp only [he]
      by_cases ho : out.isEmpty = true
      · have ho' : out = [] := by simpa using ho
        have hc0 : b.content = [] := by
          by_cases h0 : b.content = []
          · exact h0
          · exact absurd ho' (hpr (by omega) h0)
        simp only [ho, if_true]
        constructor
        · intro h; simp [hc0] at h; omega
        · intro _; exact ⟨_, rfl⟩
      · simp only [ho]
        have hol : 0 < out.length := by
          cases out with
          | nil => simp at ho
          | cons _ _ => simp
        obtain ⟨ih1, ih2⟩ := ih b1 (need - out.length) (acc ++ out) (by omega)
        have hlen : b.content.length = out.length + b1.content.length := by rw [← hc]; simp
        constructor
        · intro h
          obtain ⟨b2, e2, c2⟩ := ih1 (by omega)
          refine ⟨b2, ?_, ?_⟩
          · rw [e2, ← hc, List.take_append, List.take_of_length_le hle]; simp
          · rw [c2, ← hc, List.drop_append, List.drop_of_length_le hle]; simp
        · intro h
          exact ih2 (by omega)

theorem readExact_ok (b : BufReader ρ) (n : Nat) (h : n ≤ b.content.length) :
    ∃ b1, b.readExact n = (.ok (b.content.take n), b1) ∧ b1.content = b.content.drop n := by
  have := (readExactLoop_spec (n + 1) b n [] (by omega)).1 h
  simpa [readExact] using this

theorem readExact_eof (b : BufReader ρ) (n : Nat) (h : b.content.length < n) :
    ∃ b1, b.readExact n = (.err .unexpectedEof, b1) :=
  (readExactLoop_spec (n + 1) b n [] (by omega)).2 h

/-- `read_until(b'\n')` appends the first line of the content -/
theorem readUntilLoop_spec (fuel : Nat) : ∀ (b : BufReader ρ) (acc : Bytes), b.content.length < fuel →
    ∃ b1, readUntilLoop fuel b acc = (.ok (acc ++ (lineSplit b.content).1), b1) ∧
      b1.content = (lineSplit b.content).2 := by
  induction fuel with
  | zero => intro b acc h; omega
  | succ fuel ih =>
    intro b acc hf
    unfold readUntilLoop
    obtain ⟨av, b1, he, hbuf, hcont, hne⟩ := fillBuf_spec b
    simp only [he]
    have hc : b.content = av ++ LawfulRaw.content b1.inner := by rw [← hcont]; simp [content, hbuf]
    cases hm : memchr LF av with
    | some i =>
      simp only []
      have hi : i < av.length := by
        simp only [memchr] at hm
        split at hm
        · simp at hm; omega
        · simp at hm
      rw [hc, lineSplit_append_some _ _ _ hm]
      refine ⟨_, rfl, ?_⟩
      simp [content, consume, hbuf]
    | none =>
      simp only []
      by_cases h0 : av.length = 0
      · have hav : av = [] := List.length_eq_zero_iff.mp h0
        have hc0 : b.content = [] := by
          by_cases h : b.content = []
          · exact h
          · exact absurd hav (hne h)
        simp only [h0, if_true]
        rw [hc0, hav]
        refine ⟨_, rfl, ?_⟩
        rw [consume_content _ _ (by omega), hcont, hc0]; simp [lineSplit]
      · simp only [h0, if_false]
        have hcc : (b1.consume av.length).content = LawfulRaw.content b1.inner := by
          simp [consume, content, hbuf]
        obtain ⟨b2, e2, c2⟩ := ih (b1.consume av.length) (acc ++ av) (by
          rw [hcc]; rw [hc] at hf; simp at hf; omega)
        refine ⟨b2, ?_, ?_⟩
        · rw [e2, hcc, hc, lineSplit_append_none _ _ hm]; simp
        · rw [c2, hcc, hc, lineSplit_append_none _ _ hm]

theorem readLine_spec (b : BufReader ρ) :
    (validUtf8 (lineSplit b.content).1 = true →
      ∃ b1, b.readLine = (.ok (lineSplit b.content).1, b1) ∧ b1.content = (lineSplit b.content).2) ∧
    (validUtf8 (lineSplit b.content).1 = false → ∃ b1, b.readLine = (.err .invalidData, b1)) := by
  obtain ⟨b1, e1, c1⟩ := readUntilLoop_spec (RawRead.bound b.inner + b.buf.length + 1) b [] (by
    have := content_length_le b; omega)
  unfold readLine
  rw [e1]
  simp only [List.nil_append]
  constructor
  · intro h; simp only [h, if_true]; exact ⟨b1, rfl, c1⟩
  · intro h; simp only [h]; exact ⟨b1, rfl⟩

/-! #### starvation: the stream below is read at its end only by operations that run out of content -/

def starved (b : BufReader ρ) : Bool := LawfulRaw.starved b.inner

theorem fillBuf_starved (b : BufReader ρ) (h : b.content ≠ []) : (b.fillBuf).2.starved = b.starved := by
  unfold fillBuf
  by_cases hb : b.buf.isEmpty
  · have hb' : b.buf = [] := by simpa using hb
    simp only [hb, if_true, starved]
    apply LawfulRaw.read_starved
    simpa [content, hb'] using h
  · simp [hb]

theorem consume_starved (b : BufReader ρ) (k : Nat) : (b.consume k).starved = b.starved := rfl

theorem read_starved (b : BufReader ρ) (n : Nat) (h : b.content ≠ []) : (b.read n).2.starved = b.starved := by
  unfold read
  by_cases hby : (b.buf.isEmpty && decide (capacity ≤ n)) = true
  · simp only [hby, if_true, starved]
    have hb' : b.buf = [] := by simp at hby; exact hby.1
    apply LawfulRaw.read_starved
    simpa [content, hb'] using h
  · simp only [hby, Bool.false_eq_true, if_false]
    exact fillBuf_starved b h

theorem readExactLoop_starved (fuel : Nat) : ∀ (b : BufReader ρ) (need : Nat) (acc : Bytes),
    need ≤ b.content.length → (readExactLoop fuel b need acc).2.starved = b.starved := by
  induction fuel with
  | zero => intro b need acc _; rfl
  | succ fuel ih =>
    intro b need acc hn
    unfold readExactLoop
    by_cases h0 : need = 0
    · simp [h0]
    · simp only [h0, if_false]
      have hc : b.content ≠ [] := by intro h; rw [h] at hn; simp at hn; exact h0 hn
      obtain ⟨out, b1, he, hcont, hle, _⟩ := read_spec b need
      have hs := read_starved b need hc
      rw [he] at hs
      simp only [he]
      split
      · exact hs
      · rw [ih b1 _ _ (by
          have : b.content.length = out.length + b1.content.length := by rw [← hcont]; simp
          omega)]
        exact hs

theorem readExact_starved (b : BufReader ρ) (n : Nat) (h : n ≤ b.content.length) :
    (b.readExact n).2.starved = b.starved := readExactLoop_starved _ b n [] h

theorem readUntilLoop_starved (fuel : Nat) : ∀ (b : BufReader ρ) (acc : Bytes),
    LF ∈ b.content → (readUntilLoop fuel b acc).2.starved = b.starved := by
  induction fuel with
  | zero => intro b acc _; rfl
  | succ fuel ih =>
    intro b acc hlf
    have hc : b.content ≠ [] := by intro h; rw [h] at hlf; simp at hlf
    unfold readUntilLoop
    obtain ⟨av, b1, he, hbuf, hcont, hne⟩ := fillBuf_spec b
    have hs := fillBuf_starved b hc
    rw [he] at hs
    simp only [he]
    cases hm : memchr LF av with
    | some i => exact hs
    | none =>
      simp only []
      have hav : av ≠ [] := hne hc
      have h0 : av.length ≠ 0 := by intro h; exact hav (List.length_eq_zero_iff.mp h)
      simp only [h0, if_false]
      have hnot : LF ∉ av := by
        intro hmem
        simp only [memchr] at hm
        split at hm
        · cases hm
        · rename_i hlt
          exact hlt (List.findIdx_lt_length.mpr ⟨LF, hmem, by simp⟩)
      have hcc : (b1.consume av.length).content = LawfulRaw.content b1.inner := by
        simp [consume, content, hbuf]
      have : LF ∈ (b1.consume av.length).content := by
        rw [hcc]
        have : b.content = av ++ LawfulRaw.content b1.inner := by rw [← hcont]; simp [content, hbuf]
        rw [this] at hlf
        rcases List.mem_append.mp hlf with h | h
        · exact absurd h hnot
        · exact h
      rw [ih _ _ this]
      exact hs

theorem readLine_starved (b : BufReader ρ) (h : LF ∈ b.content) : (b.readLine).2.starved = b.starved := by
  have := readUntilLoop_starved (RawRead.bound b.inner + b.buf.length + 1) b [] h
  unfold readLine
  rcases hr : readUntilLoop (RawRead.bound b.inner + b.buf.length + 1) b [] with ⟨res, b1⟩
  rw [hr] at this
  cases res with
  | err e => exact this
  | ok line =>
    simp only
    split <;> exact this

theorem new_content (r : ρ) : (BufReader.new r).content = LawfulRaw.content r := by simp [new, content]

end BufReader
end Khttp.Body
