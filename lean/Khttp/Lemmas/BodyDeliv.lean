/-
  What `Delivers` yields on encoded bodies: whole chunks are delivered exactly, a chunk cut off by the end of the
  input ends in an error, the fixed reader delivers exactly its content.
-/
import Khttp.Lemmas.BodyEnc
namespace Khttp.Body
open Khttp Khttp.Spec.Chunked

theorem delivers_congr {s s' : AbsB} (h : nextB s = nextB s') {p : Bytes} {o : Outcome} (hd : Delivers s p o) :
    Delivers s' p o := by
  cases hd with
  | stop h1 => exact .stop (h ▸ h1)
  | lost h1 => exact .lost (h ▸ h1)
  | step h1 j1 j2 hd => exact .step (h ▸ h1) j1 j2 hd

theorem nextB_data (rem : Nat) (c : Bytes) (hr : rem ≠ 0) :
    nextB (.chunked ⟨.data, rem, c⟩) =
      if c = [] then .stop (.err .unexpectedEof)
      else .avail (c.take rem) (decide (c.length < rem)) (fun j => .chunked ⟨.data, rem - j, c.drop j⟩) := by
  simp only [nextB, pAdvance_data ⟨.data, rem, c⟩ rfl hr]

theorem nextB_advance_true {s s' : CAbs} (h : pAdvance 8 s = .ok (true, s')) :
    nextB (.chunked s) = nextB (.chunked s') := by
  obtain ⟨h1, h2⟩ := pAdvance_true 8 _ _ h
  simp only [nextB, h, pAdvance_data s' h1 h2]

/-- a complete chunk is delivered exactly, whatever the sizes of the pieces -/
theorem delivers_data (rem : Nat) : ∀ (d rest p : Bytes) (o : Outcome), d.length = rem →
    Delivers (.chunked ⟨.data, rem, d ++ rest⟩) p o →
    ∃ p', p = d ++ p' ∧ Delivers (.chunked ⟨.data, 0, rest⟩) p' o := by
  induction rem using Nat.strongRecOn with
  | _ rem ih =>
    intro d rest p o hl hd
    by_cases hr : rem = 0
    · subst hr
      have : d = [] := List.length_eq_zero_iff.mp hl
      subst this
      exact ⟨p, rfl, hd⟩
    · have hne : d ++ rest ≠ [] := by
        intro h; have := congrArg List.length h
        simp only [List.length_append, List.length_nil] at this; omega
      have hN := nextB_data rem (d ++ rest) hr
      simp only [hne, if_false] at hN
      have hsh : decide ((d ++ rest).length < rem) = false := by simp; omega
      rw [hsh] at hN
      cases hd with
      | stop h1 => rw [hN] at h1; cases h1
      | lost h1 => rw [hN] at h1; cases h1
      | step h1 j1 j2 hd' =>
        rename_i d' sh after j p''
        rw [hN] at h1
        injection h1 with e1 e2 e3
        subst e1; subst e3
        have hjd : j ≤ d.length := by
          simp only [List.length_take, List.length_append] at j2; omega
        have e4 : (d ++ rest).drop j = d.drop j ++ rest := List.drop_append_of_le_length hjd
        simp only [e4] at hd'
        obtain ⟨p', hp', hd''⟩ := ih (rem - j) (by omega) (d.drop j) rest p'' o (by simp; omega) hd'
        refine ⟨p', ?_, hd''⟩
        rw [hp']
        have : List.take j (List.take rem (d ++ rest)) = d.take j := by
          rw [List.take_take, Nat.min_eq_left (by omega), List.take_append_of_le_length hjd]
        rw [this, ← List.append_assoc, List.take_append_drop]

/-- a chunk cut off by the end of the input: a prefix of its data is delivered, then an error -/
theorem delivers_data_short (n : Nat) : ∀ (rem : Nat) (w p : Bytes) (o : Outcome), w.length = n → w.length < rem →
    Delivers (.chunked ⟨.data, rem, w⟩) p o → o = .err .unexpectedEof ∧ p <+: w := by
  induction n using Nat.strongRecOn with
  | _ n ih =>
    intro rem w p o hn hl hd
    have hr : rem ≠ 0 := by omega
    have hN := nextB_data rem w hr
    by_cases hw : w = []
    · simp only [hw, if_true] at hN
      subst hw
      cases hd with
      | stop h1 => rw [hN] at h1; injection h1 with h1; subst h1; exact ⟨rfl, List.prefix_refl _⟩
      | lost h1 => rw [hN] at h1; cases h1
      | step h1 j1 j2 hd' => rw [hN] at h1; cases h1
    · simp only [hw, if_false] at hN
      cases hd with
      | stop h1 => rw [hN] at h1; cases h1
      | lost h1 => exact ⟨rfl, List.nil_prefix⟩
      | step h1 j1 j2 hd' =>
        rename_i d' sh after j p''
        rw [hN] at h1
        injection h1 with e1 e2 e3
        subst e1; subst e3
        have hjw : j ≤ w.length := by simp only [List.length_take] at j2; omega
        obtain ⟨he, hp⟩ := ih (w.length - j) (by omega) (rem - j) (w.drop j) p'' o (by simp) (by simp; omega) hd'
        refine ⟨he, ?_⟩
        have : List.take j (List.take rem w) = w.take j := by
          rw [List.take_take, Nat.min_eq_left (by omega)]
        rw [this]
        obtain ⟨t, ht⟩ := hp
        exact ⟨t, by rw [List.append_assoc, ht, List.take_append_drop]⟩

theorem delivers_stop {s : AbsB} {o' : Outcome} (hN : nextB s = .stop o') {p : Bytes} {o : Outcome}
    (hd : Delivers s p o) : p = [] ∧ o = o' := by
  cases hd with
  | stop h1 => rw [hN] at h1; injection h1 with h1; exact ⟨rfl, h1.symm⟩
  | lost h1 => rw [hN] at h1; cases h1
  | step h1 j1 j2 hd' => rw [hN] at h1; cases h1

/-- whole valid chunks are delivered exactly; afterwards the reader is again about to read a size line -/
theorem delivers_chunks (cs : List Chunk) : ∀ (s : CAbs) (X p : Bytes) (o : Outcome), (∀ c ∈ cs, ChunkOk c) →
    Entry s (encodeChunks cs ++ X) → Delivers (.chunked s) p o →
    ∃ p' s', p = payload cs ++ p' ∧ Entry s' X ∧ Delivers (.chunked s') p' o := by
  induction cs with
  | nil =>
    intro s X p o _ he hd
    exact ⟨p, s, by simp [payload], by simpa [encodeChunks] using he, hd⟩
  | cons c cs ih =>
    intro s X p o hok he hd
    have e : encodeChunks (c :: cs) ++ X = encodeChunk c ++ (encodeChunks cs ++ X) := by simp [encodeChunks]
    rw [e] at he
    obtain ⟨f, r, ha⟩ := entry_advance he
    rw [pAdvance_size_chunk (f + 2) r c _ (hok c (by simp))] at ha
    have hd1 := delivers_congr (nextB_advance_true ha) hd
    rw [List.append_assoc] at hd1
    obtain ⟨p1, hp1, hd2⟩ := delivers_data _ _ _ _ _ rfl hd1
    obtain ⟨p', s', hp', he', hd3⟩ := ih ⟨.data, 0, [CR, LF] ++ (encodeChunks cs ++ X)⟩ X p1 o
      (fun c' hc' => hok c' (by simp [hc'])) (Or.inr ⟨rfl, rfl, rfl⟩) hd2
    exact ⟨p', s', by rw [hp1, hp']; simp [payload], he', hd3⟩

/-- a complete valid chunked body: exactly the payload, then end of body -/
theorem delivers_exact {cs : List Chunk} {ls : Bytes} {le : Option Bytes} {ts : List Bytes} (extra : Bytes)
    (hv : Valid cs ls le ts) (hsz : ∀ c ∈ cs, c.data.length < usizeLimit) {s : CAbs} {p : Bytes} {o : Outcome}
    (he : Entry s (encode cs ls le ts ++ extra)) (hd : Delivers (.chunked s) p o) : p = payload cs ∧ o = .eof := by
  have e : encode cs ls le ts ++ extra = encodeChunks cs ++ (encodeEnd ls le ts ++ extra) := by simp [encode]
  rw [e] at he
  obtain ⟨p', s', hp', he', hd'⟩ := delivers_chunks cs s _ p o (fun c hc => ⟨hv.chunks c hc, hsz c hc⟩) he hd
  obtain ⟨f, r, ha⟩ := entry_advance he'
  rw [pAdvance_size_end (f + 1) r ls le ts extra hv.last hv.lastExt hv.trailers] at ha
  have hN : nextB (.chunked s') = .stop .eof := by simp only [nextB, ha]
  obtain ⟨h1, h2⟩ := delivers_stop hN hd'
  exact ⟨by rw [hp', h1]; simp, h2⟩

/-! ## the fixed reader -/

theorem delivers_fixed (n : Nat) : ∀ (rem : Nat) (c p : Bytes) (o : Outcome), c.length = n → c.length ≤ rem →
    Delivers (.fixed rem c) p o → p = c ∧ o = (if c.length = rem then .eof else .err .unexpectedEof) := by
  induction n using Nat.strongRecOn with
  | _ n ih =>
    intro rem c p o hn hl hd
    by_cases hr : rem = 0
    · subst hr
      have hc : c = [] := List.length_eq_zero_iff.mp (by omega)
      subst hc
      have hN : nextB (.fixed 0 []) = .stop .eof := by simp [nextB]
      cases hd with
      | stop h1 => rw [hN] at h1; injection h1 with h1; subst h1; simp
      | lost h1 => rw [hN] at h1; cases h1
      | step h1 j1 j2 hd' => rw [hN] at h1; cases h1
    · by_cases hc : c = []
      · subst hc
        have hN : nextB (.fixed rem []) = .stop (.err .unexpectedEof) := by simp [nextB, hr]
        have : ¬ (0 = rem) := by omega
        cases hd with
        | stop h1 => rw [hN] at h1; injection h1 with h1; subst h1; simp [this]
        | lost h1 => rw [hN] at h1; cases h1
        | step h1 j1 j2 hd' => rw [hN] at h1; cases h1
      · have hN : nextB (.fixed rem c) = .avail (c.take rem) false (fun j => .fixed (rem - j) (c.drop j)) := by
          simp [nextB, hr, hc]
        cases hd with
        | stop h1 => rw [hN] at h1; cases h1
        | lost h1 => rw [hN] at h1; cases h1
        | step h1 j1 j2 hd' =>
          rename_i d' sh after j p''
          rw [hN] at h1
          injection h1 with e1 e2 e3
          subst e1; subst e3
          have hjc : j ≤ c.length := by simp only [List.length_take] at j2; omega
          obtain ⟨hp, ho⟩ := ih (c.length - j) (by omega) (rem - j) (c.drop j) p'' o (by simp) (by simp; omega) hd'
          constructor
          · rw [hp, List.take_take, Nat.min_eq_left (by omega), List.take_append_drop]
          · rw [ho]; simp only [List.length_drop]
            by_cases h : c.length = rem
            · simp [h]
            · have : ¬ (c.length - j = rem - j) := by omega
              simp [h, this]

end Khttp.Body
