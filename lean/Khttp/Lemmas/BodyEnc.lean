/-
  Pure facts relating the spec of the chunked encoding (`Khttp/Spec/Chunked.lean`) to the reference functions
  `pChunkSize`, `pCrlf`, `pTrailers`, `pAdvance` and to `Delivers`.
-/
import Khttp.Lemmas.BodyRun
import Khttp.Spec.Chunked
namespace Khttp.Body
open Khttp Khttp.Spec.Chunked

/-! ## bytes -/

private def digOk (b : UInt8) : Bool :=
  (match digitValue? b with
   | some v => isHexDigit b && hexDigitVal b == v
   | none => !isHexDigit b) &&
  (!isHexDigit b || (b != Body.SEMI && b != CR && b != LF && b < 0x80)) &&
  (!(isHexDigit b && hexDigitVal b == 0) || b == 0x30)

private theorem digOk_all : ∀ n, n < 256 → digOk (UInt8.ofNat n) = true := by decide +kernel

private theorem digOk_byte (b : UInt8) : digOk b = true := by
  have := digOk_all b.toNat (UInt8.toNat_lt b)
  simpa using this

theorem digitValue?_some {b : UInt8} {v : Nat} (h : digitValue? b = some v) :
    isHexDigit b = true ∧ hexDigitVal b = v := by
  have := digOk_byte b
  simp only [digOk, h, Bool.and_eq_true, beq_iff_eq] at this
  exact this.1.1

theorem digitValue?_none {b : UInt8} (h : digitValue? b = none) : isHexDigit b = false := by
  have := digOk_byte b
  simp only [digOk, h, Bool.and_eq_true] at this
  simpa using this.1.1

theorem hexDigit_sep {b : UInt8} (h : isHexDigit b = true) : b ≠ Body.SEMI ∧ b ≠ CR ∧ b ≠ LF ∧ b < 0x80 := by
  have := digOk_byte b
  simp only [digOk, h, Bool.and_eq_true, Bool.or_eq_true, Bool.not_true, Bool.false_eq_true, false_or] at this
  have := this.1.2
  obtain ⟨⟨⟨a, b'⟩, c⟩, d⟩ : ((¬b = Body.SEMI ∧ ¬b = CR) ∧ ¬b = LF) ∧ b < 128 := by simpa using this
  exact ⟨a, b', c, d⟩

theorem hexDigit_zero {b : UInt8} (h : isHexDigit b = true) (hv : hexDigitVal b = 0) : b = 0x30 := by
  have := digOk_byte b
  simp only [digOk, h, hv, Bool.and_eq_true] at this
  simpa using this.2

/-! ## numerals -/

private def numStep (acc : Option Nat) (b : UInt8) : Option Nat :=
  match acc, digitValue? b with
  | some a, some v => some (a * 16 + v)
  | _, _ => none

private theorem foldl_numStep_none (ds : Bytes) : ds.foldl numStep none = none := by
  induction ds with
  | nil => rfl
  | cons b ds ih => simpa [numStep] using ih

private theorem foldl_numStep {ds : Bytes} : ∀ {a n : Nat}, ds.foldl numStep (some a) = some n →
    ds.all isHexDigit = true ∧ ds.foldl (fun a d => a * 16 + hexDigitVal d) a = n := by
  induction ds with
  | nil => intro a n h; simp at h; simp [h]
  | cons b ds ih =>
    intro a n h
    simp only [List.foldl_cons] at h
    cases hd : digitValue? b with
    | none => simp [numStep, hd, foldl_numStep_none] at h
    | some v =>
      obtain ⟨h1, h2⟩ := digitValue?_some hd
      have h' : ds.foldl numStep (some (a * 16 + v)) = some n := by simpa [numStep, hd] using h
      obtain ⟨i1, i2⟩ := ih h'
      exact ⟨by simp [h1, i1], by simp [h2, i2]⟩

/-- a spec numeral is a non-empty string of hex digits whose model value is the denoted number -/
theorem numeral?_some {ds : Bytes} {n : Nat} (h : numeral? ds = some n) :
    ds ≠ [] ∧ ds.all isHexDigit = true ∧ hexValue ds = n := by
  unfold numeral? at h
  split at h
  · cases h
  · rename_i hne
    have : ds.foldl numStep (some 0) = some n := h
    obtain ⟨h1, h2⟩ := foldl_numStep this
    exact ⟨by intro h0; simp [h0] at hne, h1, h2⟩

theorem digitValue?_of_hex {b : UInt8} (h : isHexDigit b = true) : digitValue? b = some (hexDigitVal b) := by
  cases hd : digitValue? b with
  | none => have := digitValue?_none hd; simp [h] at this
  | some v => rw [(digitValue?_some hd).2]

private theorem foldl_numStep_of_hex (ds : Bytes) (h : ds.all isHexDigit = true) (a : Nat) :
    ds.foldl numStep (some a) = some (ds.foldl (fun a d => a * 16 + hexDigitVal d) a) := by
  induction ds generalizing a with
  | nil => rfl
  | cons b ds ih =>
    simp only [List.all_cons, Bool.and_eq_true] at h
    simp only [List.foldl_cons, numStep, digitValue?_of_hex h.1]
    exact ih h.2 _

theorem numeral?_of_hex {ds : Bytes} (hne : ds ≠ []) (h : ds.all isHexDigit = true) :
    numeral? ds = some (hexValue ds) := by
  unfold numeral?
  have : ds.isEmpty = false := by cases ds <;> simp_all
  simp only [this, Bool.false_eq_true, if_false]
  exact foldl_numStep_of_hex ds h 0

theorem hexValue_append (a b : Bytes) : hexValue (a ++ b) = hexValue a * 16 ^ b.length + hexValue b := by
  unfold hexValue
  rw [List.foldl_append]
  generalize List.foldl (fun a d => a * 16 + hexDigitVal d) 0 a = x
  induction b generalizing x with
  | nil => simp
  | cons d b ih =>
    simp only [List.foldl_cons, List.length_cons]
    rw [ih, ih (0 * 16 + hexDigitVal d)]
    simp only [Nat.zero_mul, Nat.zero_add, Nat.pow_succ]
    rw [Nat.add_mul, Nat.mul_assoc, Nat.mul_comm 16, Nat.add_assoc]

theorem hexValue_prefix_le (a b : Bytes) : hexValue a ≤ hexValue (a ++ b) := by
  rw [hexValue_append]
  have : 1 ≤ 16 ^ b.length := Nat.pow_pos (by decide)
  calc hexValue a = hexValue a * 1 := by simp
    _ ≤ hexValue a * 16 ^ b.length := Nat.mul_le_mul_left _ this
    _ ≤ _ := Nat.le_add_right _ _

/-! ## lines -/

theorem lineSplit_noLF (l : Bytes) (h : ∀ b ∈ l, b ≠ LF) : lineSplit l = (l, []) := by
  induction l with
  | nil => rfl
  | cons b l ih =>
    have hb : (b == LF) = false := by simpa using h b (by simp)
    simp [lineSplit, hb, ih (fun x hx => h x (by simp [hx]))]

theorem lineSplit_line (l rest : Bytes) (h : ∀ b ∈ l, b ≠ LF) : lineSplit (l ++ LF :: rest) = (l ++ [LF], rest) := by
  induction l with
  | nil => simp [lineSplit]
  | cons b l ih =>
    have hb : (b == LF) = false := by simpa using h b (by simp)
    simp [lineSplit, hb, ih (fun x hx => h x (by simp [hx]))]

theorem validUtf8Aux_ascii (l : Bytes) : ∀ fuel, l.length < fuel → (∀ b ∈ l, b < 0x80) → validUtf8Aux fuel l = true := by
  induction l with
  | nil => intro fuel hf _; cases fuel with
    | zero => omega
    | succ f => rfl
  | cons b l ih =>
    intro fuel hf h
    cases fuel with
    | zero => omega
    | succ f =>
      have hb : b < 0x80 := h b (by simp)
      simp only [validUtf8Aux, hb, if_true]
      exact ih f (by simp at hf; omega) (fun x hx => h x (by simp [hx]))

theorem validUtf8_ascii (l : Bytes) (h : ∀ b ∈ l, b < 0x80) : validUtf8 l = true :=
  validUtf8Aux_ascii l _ (by omega) h

theorem pReadLine_line (l rest : Bytes) (h : ∀ b ∈ l, b < 0x80 ∧ b ≠ LF) :
    pReadLine (l ++ LF :: rest) = .ok (l ++ [LF], rest) := by
  unfold pReadLine
  rw [lineSplit_line l rest (fun b hb => (h b hb).2)]
  have : validUtf8 (l ++ [LF]) = true := by
    apply validUtf8_ascii
    intro b hb
    rcases List.mem_append.mp hb with hb | hb
    · exact (h b hb).1
    · simp at hb; subst hb; decide
  simp [this]

theorem pReadLine_partial (l : Bytes) (h : ∀ b ∈ l, b < 0x80 ∧ b ≠ LF) : pReadLine l = .ok (l, []) := by
  unfold pReadLine
  rw [lineSplit_noLF l (fun b hb => (h b hb).2)]
  simp [validUtf8_ascii l (fun b hb => (h b hb).1)]

private def headOf : List Bytes → Bytes
  | h :: _ => h
  | [] => []

theorem firstField_eq (line : Bytes) : firstField line = headOf (splitOn Body.SEMI line) := by
  unfold firstField headOf; split <;> simp_all

private theorem splitOn_ne_nil (c : UInt8) (l : Bytes) : splitOn c l ≠ [] := by
  cases l with
  | nil => simp [splitOn]
  | cons b l =>
    unfold splitOn
    split
    · simp
    · split <;> simp

private theorem headOf_splitOn_append (a rest : Bytes) (h : ∀ b ∈ a, b ≠ Body.SEMI) :
    headOf (splitOn Body.SEMI (a ++ rest)) = a ++ headOf (splitOn Body.SEMI rest) := by
  induction a with
  | nil => simp
  | cons b a ih =>
    have hb : (b == Body.SEMI) = false := by simpa using h b (by simp)
    have ih' := ih (fun x hx => h x (by simp [hx]))
    simp only [List.cons_append, splitOn, hb, Bool.false_eq_true, if_false]
    cases hs : splitOn Body.SEMI (a ++ rest) with
    | nil => exact absurd hs (splitOn_ne_nil _ _)
    | cons x xs =>
      rw [hs] at ih'
      simp only [headOf] at ih' ⊢
      rw [ih']

theorem firstField_semi (a x : Bytes) (h : ∀ b ∈ a, b ≠ Body.SEMI) : firstField (a ++ Body.SEMI :: x) = a := by
  rw [firstField_eq, headOf_splitOn_append a _ h]
  simp [splitOn, headOf]

theorem firstField_noSemi (a : Bytes) (h : ∀ b ∈ a, b ≠ Body.SEMI) : firstField a = a := by
  have := headOf_splitOn_append a [] h
  rw [firstField_eq]
  simpa [splitOn, headOf] using this

private theorem dropWhile_all_append (p : UInt8 → Bool) (t r : Bytes) (h : ∀ b ∈ t, p b = true) :
    (t ++ r).dropWhile p = r.dropWhile p := by
  induction t with
  | nil => rfl
  | cons b t ih =>
    simp only [List.cons_append, List.dropWhile_cons, h b (by simp), if_true]
    exact ih (fun x hx => h x (by simp [hx]))

private theorem dropWhile_none (p : UInt8 → Bool) (r : Bytes) (h : ∀ b ∈ r, p b = false) : r.dropWhile p = r := by
  cases r with
  | nil => rfl
  | cons b r => simp [List.dropWhile_cons, h b (by simp)]

/-- trimming trailing CR/LF from `a ++ t` gives `a` when `a` has no CR/LF and `t` is only CR/LF -/
theorem trimEndCrLf_append (a t : Bytes) (ha : ∀ b ∈ a, b ≠ CR ∧ b ≠ LF) (ht : ∀ b ∈ t, b = CR ∨ b = LF) :
    trimEndCrLf (a ++ t) = a := by
  unfold trimEndCrLf
  rw [List.reverse_append, dropWhile_all_append _ _ _ (by
    intro b hb
    rcases ht b (List.mem_reverse.mp hb) with h | h <;> simp [h])]
  rw [dropWhile_none _ _ (by
    intro b hb
    obtain ⟨h1, h2⟩ := ha b (List.mem_reverse.mp hb)
    simp [h1, h2])]
  simp

/-! ## size lines -/

theorem pChunkSize_core {c line rest f : Bytes} (hline : pReadLine c = .ok (line, rest))
    (hlf : line.getLast? = some LF)
    (hf : trimEndCrLf (firstField line) = f) (hne : f ≠ []) (hhex : f.all isHexDigit = true)
    (hv : hexValue f < usizeLimit) :
    pChunkSize c = .ok (if hexValue f = 0 then .trailer else .data, hexValue f, rest) := by
  unfold pChunkSize
  have h0 : line.length ≠ 0 := by intro h; rw [List.length_eq_zero_iff.mp h] at hlf; cases hlf
  have hc : (decide (line.length = 0) || line.getLast? != some LF) = false := by simp [h0, hlf]
  have he : f.isEmpty = false := by cases f <;> simp_all
  simp only [hline, hc, Bool.false_eq_true, if_false, hf, he, hhex, parseHexUsize, hv, if_true]
  simp

theorem pChunkSize_bad {c line rest : Bytes} (hline : pReadLine c = .ok (line, rest))
    (hlf : line.getLast? = some LF)
    (hbad : trimEndCrLf (firstField line) = [] ∨ (trimEndCrLf (firstField line)).all isHexDigit = false) :
    pChunkSize c = .err .invalidData := by
  unfold pChunkSize
  have h0 : line.length ≠ 0 := by intro h; rw [List.length_eq_zero_iff.mp h] at hlf; cases hlf
  have hc : (decide (line.length = 0) || line.getLast? != some LF) = false := by simp [h0, hlf]
  simp only [hline, hc, Bool.false_eq_true, if_false]
  rcases hbad with h | h
  · simp [h]
  · simp [h]

/-- a size line cut off by the end of the input (no LF): `UnexpectedEof`, whatever was received -/
theorem pChunkSize_noLF (X : Bytes) (h : ∀ b ∈ X, b ≠ LF) : ∃ e, pChunkSize X = .err e ∧ e ≠ .fuel := by
  unfold pChunkSize pReadLine
  rw [lineSplit_noLF X h]
  by_cases hv : validUtf8 X = true
  · simp only [hv, if_true]
    have hc : (decide (X.length = 0) || X.getLast? != some LF) = true := by
      cases hX : X.getLast? with
      | none => simp
      | some b =>
        have hb : b ∈ X := List.mem_of_getLast? hX
        have : b ≠ LF := h b hb
        simp [this]
    simp only [hc, if_true]
    exact ⟨_, rfl, by decide⟩
  · simp only [hv]
    exact ⟨_, rfl, by decide⟩

theorem pChunkSize_noLF_ascii (X : Bytes) (h : ∀ b ∈ X, b < 0x80 ∧ b ≠ LF) :
    pChunkSize X = .err .unexpectedEof := by
  unfold pChunkSize
  rw [pReadLine_partial X h]
  have hc : (decide (X.length = 0) || X.getLast? != some LF) = true := by
    cases hX : X.getLast? with
    | none => simp
    | some b =>
      have hb : b ∈ X := List.mem_of_getLast? hX
      have : b ≠ LF := (h b hb).2
      simp [this]
  simp only [hc, if_true]

/-- the size field of a line `sz ++ w` (`sz` without `;`, CR, LF): `w` empty, a `;`-part, or only CR/LF -/
theorem field_of_line' (sz w : Bytes) (hsep : ∀ b ∈ sz, b ≠ Body.SEMI ∧ b ≠ CR ∧ b ≠ LF)
    (hw : (∃ x, w = Body.SEMI :: x) ∨ (∀ b ∈ w, b = CR ∨ b = LF)) :
    trimEndCrLf (firstField (sz ++ w)) = sz := by
  rcases hw with ⟨x, rfl⟩ | hw
  · rw [firstField_semi _ _ (fun b hb => (hsep b hb).1)]
    have := trimEndCrLf_append sz [] (fun b hb => ⟨(hsep b hb).2.1, (hsep b hb).2.2⟩) (by simp)
    simpa using this
  · rw [firstField_noSemi]
    · exact trimEndCrLf_append sz w (fun b hb => ⟨(hsep b hb).2.1, (hsep b hb).2.2⟩) hw
    · intro b hb
      rcases List.mem_append.mp hb with hb | hb
      · exact (hsep b hb).1
      · rcases hw b hb with h | h <;> (subst h; decide)

theorem field_of_line (sz w : Bytes) (hhex : sz.all isHexDigit = true)
    (hw : (∃ x, w = Body.SEMI :: x) ∨ (∀ b ∈ w, b = CR ∨ b = LF)) :
    trimEndCrLf (firstField (sz ++ w)) = sz :=
  field_of_line' sz w (fun b hb =>
    let h := hexDigit_sep (List.all_eq_true.mp hhex b hb); ⟨h.1, h.2.1, h.2.2.1⟩) hw

def extPart : Option Bytes → Bytes
  | none => []
  | some e => Spec.Chunked.SEMI :: e

theorem sizeLine_eq (sz : Bytes) (ext : Option Bytes) : sizeLine sz ext = sz ++ extPart ext ++ [CR, LF] := by
  cases ext <;> rfl

theorem lineText_mem {t : Bytes} (h : lineText t = true) : ∀ b ∈ t, b < 0x80 ∧ b ≠ LF := by
  intro b hb
  have := List.all_eq_true.mp h b hb
  simpa using this

theorem extPart_ascii {ext : Option Bytes} (h : extOk ext = true) : ∀ b ∈ extPart ext, b < 0x80 ∧ b ≠ LF := by
  cases ext with
  | none => simp [extPart]
  | some e =>
    intro b hb
    simp only [extPart, List.mem_cons] at hb
    rcases hb with rfl | hb
    · decide
    · exact lineText_mem h b hb

/-- `w` = what may follow the size field on the size line, up to but excluding the LF -/
theorem extPart_cr_shape (ext : Option Bytes) (w : Bytes) (hw : w <+: extPart ext ++ [CR]) :
    w = [] ∨ (∃ x, w = Body.SEMI :: x) ∨ (∀ b ∈ w, b = CR ∨ b = LF) := by
  cases ext with
  | none =>
    simp only [extPart, List.nil_append] at hw
    cases w with
    | nil => left; rfl
    | cons b w =>
      right; right
      obtain ⟨t, ht⟩ := hw
      simp at ht
      intro x hx
      obtain ⟨rfl, rfl, rfl⟩ := ht
      simp at hx; left; exact hx
  | some e =>
    cases w with
    | nil => left; rfl
    | cons b w =>
      right; left
      obtain ⟨t, ht⟩ := hw
      simp [extPart] at ht
      exact ⟨w, by rw [ht.1]; rfl⟩

theorem pChunkSize_sizeLine {sz : Bytes} {ext : Option Bytes} {v : Nat} (rest : Bytes)
    (hn : numeral? sz = some v) (hv : v < usizeLimit) (he : extOk ext = true) :
    pChunkSize (sizeLine sz ext ++ rest) = .ok (if v = 0 then .trailer else .data, v, rest) := by
  obtain ⟨hne, hhex, hval⟩ := numeral?_some hn
  have hsep : ∀ b ∈ sz, b ≠ Body.SEMI ∧ b ≠ CR ∧ b ≠ LF ∧ b < 0x80 := fun b hb =>
    hexDigit_sep (List.all_eq_true.mp hhex b hb)
  have hasc : ∀ b ∈ sz ++ extPart ext ++ [CR], b < 0x80 ∧ b ≠ LF := by
    intro b hb
    rcases List.mem_append.mp hb with hb | hb
    · rcases List.mem_append.mp hb with hb | hb
      · exact ⟨(hsep b hb).2.2.2, (hsep b hb).2.2.1⟩
      · exact extPart_ascii he b hb
    · simp at hb; subst hb; decide
  have hline : pReadLine (sizeLine sz ext ++ rest) = .ok (sz ++ extPart ext ++ [CR] ++ [LF], rest) := by
    rw [sizeLine_eq]
    have := pReadLine_line (sz ++ extPart ext ++ [CR]) rest hasc
    simpa using this
  have hfield : trimEndCrLf (firstField (sz ++ extPart ext ++ [CR] ++ [LF])) = sz := by
    have : sz ++ extPart ext ++ [CR] ++ [LF] = sz ++ (extPart ext ++ [CR, LF]) := by simp
    rw [this]
    apply field_of_line _ _ hhex
    cases ext with
    | none => right; intro b hb; simpa [extPart] using hb
    | some e => left; exact ⟨e ++ [CR, LF], rfl⟩
  have := pChunkSize_core hline (by simp) hfield hne hhex (by rw [hval]; exact hv)
  rw [hval] at this
  exact this

/-! ## CRLF, trailers -/

theorem pCrlf_crlf (rest : Bytes) : pCrlf (CR :: LF :: rest) = .ok rest := by simp [pCrlf]

theorem pTrailers_enc (ts : List Bytes) (extra : Bytes) (hts : ∀ t ∈ ts, trailerOk t = true) :
    ∀ f, (encodeTrailers ts ++ [CR, LF] ++ extra).length < f →
      pTrailers f (encodeTrailers ts ++ [CR, LF] ++ extra) = .ok extra := by
  induction ts with
  | nil =>
    intro f hf
    cases f with
    | zero => omega
    | succ f =>
      have := pReadLine_line [CR] extra (by intro b hb; simp at hb; subst hb; decide)
      simp only [encodeTrailers, List.map_nil, List.flatten_nil, List.nil_append, pTrailers]
      have e : [CR, LF] ++ extra = [CR] ++ LF :: extra := rfl
      rw [e, this]; simp
  | cons t ts ih =>
    intro f hf
    cases f with
    | zero => omega
    | succ f =>
      have ht := hts t (by simp)
      simp only [trailerOk, Bool.and_eq_true, Bool.not_eq_true'] at ht
      have htne : t ≠ [] := by intro h; simp [h] at ht
      have hasc : ∀ b ∈ t ++ [CR], b < 0x80 ∧ b ≠ LF := by
        intro b hb
        rcases List.mem_append.mp hb with hb | hb
        · exact lineText_mem ht.2 b hb
        · simp at hb; subst hb; decide
      have e : encodeTrailers (t :: ts) ++ [CR, LF] ++ extra
          = (t ++ [CR]) ++ LF :: (encodeTrailers ts ++ [CR, LF] ++ extra) := by
        simp [encodeTrailers, Spec.Chunked.CRLF]
      rw [e] at hf ⊢
      unfold pTrailers
      rw [pReadLine_line _ _ hasc]
      have hlen : 0 < t.length := List.length_pos_iff.mpr htne
      have h1 : ¬ ((t ++ [CR] ++ [LF]).length = 0) := by simp
      have h2 : (t ++ [CR] ++ [LF] == [CR, LF]) = false := by
        apply Bool.eq_false_iff.mpr
        intro h
        have := congrArg List.length (eq_of_beq h)
        simp only [List.length_append, List.length_cons, List.length_nil] at this; omega
      have h3 : (t ++ [CR] ++ [LF] == [LF]) = false := by
        apply Bool.eq_false_iff.mpr
        intro h
        have := congrArg List.length (eq_of_beq h)
        simp only [List.length_append, List.length_cons, List.length_nil] at this; omega
      simp only [h1, h2, h3, decide_false, Bool.or_false, Bool.false_eq_true, if_false]
      apply ih (fun t' ht' => hts t' (by simp [ht']))
      simp at hf ⊢; omega

/-! ## `pAdvance` on encoded chunks -/

/-- a valid chunk whose length fits `usize` -/
def ChunkOk (c : Chunk) : Prop := c.Valid ∧ c.data.length < usizeLimit

theorem pAdvance_size_line (f : Nat) (r : Nat) {sz : Bytes} {ext : Option Bytes} {v : Nat} (rest : Bytes)
    (hn : numeral? sz = some v) (hv : v < usizeLimit) (he : extOk ext = true) (h0 : v ≠ 0) :
    pAdvance (f + 2) ⟨.size, r, sizeLine sz ext ++ rest⟩ = .ok (true, ⟨.data, v, rest⟩) := by
  have := pChunkSize_sizeLine rest hn hv he
  simp only [h0, if_false] at this
  simp only [pAdvance, this, h0, if_false]

theorem pAdvance_size_chunk (f : Nat) (r : Nat) (c : Chunk) (more : Bytes) (hc : ChunkOk c) :
    pAdvance (f + 2) ⟨.size, r, encodeChunk c ++ more⟩ =
      .ok (true, ⟨.data, c.data.length, c.data ++ [CR, LF] ++ more⟩) := by
  obtain ⟨⟨hd, hn, he⟩, hl⟩ := hc
  have hlen : c.data.length ≠ 0 := by intro h; exact hd (List.length_eq_zero_iff.mp h)
  have e : encodeChunk c ++ more = sizeLine c.size c.ext ++ (c.data ++ [CR, LF] ++ more) := by
    simp [encodeChunk, Spec.Chunked.CRLF]
  rw [e]
  exact pAdvance_size_line f r _ hn hl he hlen

theorem pAdvance_data0 (f : Nat) (X : Bytes) :
    pAdvance (f + 2) ⟨.data, 0, CR :: LF :: X⟩ = pAdvance f ⟨.size, 0, X⟩ := by
  simp [pAdvance, pCrlf_crlf]

theorem pAdvance_size_end (f : Nat) (r : Nat) (ls : Bytes) (le : Option Bytes) (ts : List Bytes) (extra : Bytes)
    (hl : numeral? ls = some 0) (he : extOk le = true) (hts : ∀ t ∈ ts, trailerOk t = true) :
    pAdvance (f + 3) ⟨.size, r, encodeEnd ls le ts ++ extra⟩ = .ok (false, ⟨.done, 0, extra⟩) := by
  have e : encodeEnd ls le ts ++ extra = sizeLine ls le ++ (encodeTrailers ts ++ [CR, LF] ++ extra) := by
    simp [encodeEnd, Spec.Chunked.CRLF]
  have := pChunkSize_sizeLine (encodeTrailers ts ++ [CR, LF] ++ extra) hl (by decide) he
  simp only [if_true] at this
  rw [e]
  simp only [pAdvance, this]
  rw [pTrailers_enc ts extra hts _ (by omega)]

/-- the two situations in which the reader is about to read a size line with `X` as the unread content -/
def Entry (s : CAbs) (X : Bytes) : Prop :=
  (s.st = .size ∧ s.c = X) ∨ (s.st = .data ∧ s.rem = 0 ∧ s.c = CR :: LF :: X)

theorem entry_advance {s : CAbs} {X : Bytes} (h : Entry s X) :
    ∃ f r, pAdvance 8 s = pAdvance (f + 4) ⟨.size, r, X⟩ := by
  obtain ⟨st, rem, c⟩ := s
  rcases h with ⟨h1, h2⟩ | ⟨h1, h2, h3⟩
  · simp only at h1 h2; subst h1; subst h2; exact ⟨4, rem, rfl⟩
  · simp only at h1 h2 h3; subst h1; subst h2; subst h3
    exact ⟨2, 0, pAdvance_data0 6 X⟩

end Khttp.Body
