/-
  "No over-read" bookkeeping for the fixed reader: the `Take` limit plus the buffered bytes always equal
  `remaining`, and nothing but delivered bytes ever leaves `buffer ++ leftover ++ stream`.
-/
import Khttp.Lemmas.BodyRun
namespace Khttp.Body
open Khttp

/-- everything not yet delivered to the caller: buffer, rest of the leftover, rest of the stream -/
def FixedReader.tot (f : FixedReader) : Bytes := f.inner.buf ++ f.inner.inner.total

def FixedReader.Balanced (f : FixedReader) : Prop := f.remaining = f.inner.buf.length + f.inner.inner.limit

theorem bufTake_fillBuf (b : BufReader Take) :
    ∃ av b1, b.fillBuf = (av, b1) ∧ b1.buf ++ b1.inner.total = b.buf ++ b.inner.total ∧
      b1.buf.length + b1.inner.limit = b.buf.length + b.inner.limit ∧ av = b1.buf := by
  unfold BufReader.fillBuf
  by_cases hb : b.buf.isEmpty = true
  · have hb' : b.buf = [] := by simpa using hb
    simp only [hb, if_true]
    have hrr : RawRead.read b.inner BufReader.capacity = b.inner.read BufReader.capacity := rfl
    have h1 := Take.read_total b.inner BufReader.capacity
    have h2 := Take.read_limit b.inner BufReader.capacity
    have h3 := Take.read_le_limit b.inner BufReader.capacity
    rw [hrr]
    refine ⟨_, _, rfl, ?_, ?_, rfl⟩
    · simpa [hb'] using h1
    · simp only [hb', List.length_nil, Nat.zero_add]; omega
  · simp only [hb]
    exact ⟨_, _, rfl, rfl, rfl, rfl⟩

theorem bufTake_read (b : BufReader Take) (n : Nat) :
    ∃ out b1, b.read n = (out, b1) ∧ out ++ (b1.buf ++ b1.inner.total) = b.buf ++ b.inner.total ∧
      out.length + b1.buf.length + b1.inner.limit = b.buf.length + b.inner.limit := by
  unfold BufReader.read
  by_cases hby : (b.buf.isEmpty && decide (BufReader.capacity ≤ n)) = true
  · simp only [hby, if_true]
    have hb' : b.buf = [] := by simp at hby; exact hby.1
    have hrr : RawRead.read b.inner n = b.inner.read n := rfl
    have h1 := Take.read_total b.inner n
    have h2 := Take.read_limit b.inner n
    have h3 := Take.read_le_limit b.inner n
    rw [hrr]
    refine ⟨_, _, rfl, ?_, ?_⟩
    · simpa [hb'] using h1
    · simp only [hb', List.length_nil, Nat.zero_add, Nat.add_zero]; omega
  · simp only [hby, Bool.false_eq_true, if_false]
    obtain ⟨av, b1, he, h1, h2, h3⟩ := bufTake_fillBuf b
    simp only [he, BufReader.consume, h3]
    refine ⟨_, _, rfl, ?_, ?_⟩
    · rw [← h1, ← List.append_assoc, List.length_take]
      congr 1
      by_cases hn : n ≤ b1.buf.length
      · rw [Nat.min_eq_left hn, List.take_append_drop]
      · rw [Nat.min_eq_right (by omega), List.take_of_length_le (by omega), List.drop_length]; simp
    · rw [← h2]; simp only [List.length_take, List.length_drop]; omega

theorem fixed_read_balanced {f f1 : FixedReader} {n : Nat} {out : Bytes} (h : f.read n = (.ok out, f1))
    (hb : f.Balanced) : f1.Balanced ∧ out ++ f1.tot = f.tot ∧ f1.remaining + out.length = f.remaining := by
  unfold FixedReader.read at h
  by_cases hr : f.remaining = 0
  · simp only [hr, if_true] at h
    injection h with h1 h2; injection h1 with h1; subst h1; subst h2
    exact ⟨hb, by simp, by simp⟩
  · simp only [hr, if_false] at h
    obtain ⟨o, b1, he, t1, t2⟩ := bufTake_read f.inner (min f.remaining n)
    obtain ⟨o', b1', he', _, hle, _⟩ := BufReader.read_spec f.inner (min f.remaining n)
    rw [he] at he' h
    injection he' with e1 e2; subst e1; subst e2
    simp only at h
    by_cases ho : o.length = 0
    · simp [ho] at h
    · simp only [ho, if_false] at h
      injection h with h1 h2; injection h1 with h1; subst h1; subst h2
      unfold FixedReader.Balanced at hb ⊢
      refine ⟨by simp only; omega, ?_, by simp only; omega⟩
      simpa [FixedReader.tot] using t1

theorem fixed_fillBuf_balanced {f f1 : FixedReader} {av : Bytes} (h : f.fillBuf = (.ok av, f1))
    (hb : f.Balanced) : f1.Balanced ∧ f1.tot = f.tot ∧ f1.remaining = f.remaining ∧
      av.length ≤ f1.inner.buf.length ∧ av.length ≤ f1.remaining ∧ av = f1.inner.buf.take av.length := by
  unfold FixedReader.fillBuf at h
  by_cases hr : f.remaining = 0
  · simp only [hr, if_true] at h
    injection h with h1 h2; injection h1 with h1; subst h1; subst h2
    exact ⟨hb, rfl, rfl, by simp, by simp, by simp⟩
  · simp only [hr, if_false] at h
    obtain ⟨a, b1, he, t1, t2, t3⟩ := bufTake_fillBuf f.inner
    rw [he] at h
    simp only at h
    by_cases ha : a.isEmpty = true
    · simp [ha] at h
    · simp only [ha, Bool.false_eq_true, if_false] at h
      injection h with h1 h2; injection h1 with h1; subst h1; subst h2
      unfold FixedReader.Balanced at hb ⊢
      refine ⟨by simp only; omega, by simpa [FixedReader.tot] using t1, rfl, ?_, ?_, ?_⟩
      · simp only [List.length_take, t3]; omega
      · simp only [List.length_take]; omega
      · simp only [List.length_take, t3]
        congr 1; omega

theorem fixed_consume_balanced (f : FixedReader) (k : Nat) (hb : f.Balanced) (h1 : k ≤ f.inner.buf.length)
    (h2 : k ≤ f.remaining) :
    (f.consume k).Balanced ∧ f.inner.buf.take k ++ (f.consume k).tot = f.tot ∧
      (f.consume k).remaining + k = f.remaining := by
  unfold FixedReader.Balanced at hb ⊢
  refine ⟨?_, ?_, ?_⟩
  · simp only [FixedReader.consume, BufReader.consume, List.length_drop]; omega
  · simp [FixedReader.consume, BufReader.consume, FixedReader.tot, ← List.append_assoc]
  · simp only [FixedReader.consume]; omega

/-! ## generic invariants of the runners -/

theorem runReadLoop_inv (Q : BodyReader → Bytes → Prop)
    (hstep : ∀ r n out r1 d, Q r d → r.read n = (.ok out, r1) → Q r1 (d ++ out)) (fuel : Nat) :
    ∀ (r : BodyReader) (reads : List Nat) (last : Nat) (acc cs : List Bytes) (r' : BodyReader),
      Q r acc.flatten → runReadLoop fuel r reads last acc = (cs, .eof, r') → Q r' cs.flatten := by
  induction fuel with
  | zero => intro r _ _ _ _ _ _ h; simp [runReadLoop] at h
  | succ fuel ih =>
    intro r reads last acc cs r' hq h
    unfold runReadLoop at h
    rcases hres : r.read (nextSize reads last) with ⟨x, r1⟩
    simp only [hres] at h
    cases x with
    | err e => simp at h
    | ok out =>
      simp only at h
      have hq1 := hstep _ _ _ _ _ hq hres
      by_cases ho : out.length = 0
      · simp only [ho, if_true] at h
        injection h with h1 h2; injection h2 with _ h2; subst h1; subst h2
        have : out = [] := List.length_eq_zero_iff.mp ho
        simpa [this] using hq1
      · simp only [ho, if_false] at h
        exact ih _ _ _ _ _ _ (by simpa using hq1) h

theorem runBufLoop_inv (Q : BodyReader → Bytes → Prop)
    (hstep : ∀ r av r1 d, Q r d → r.fillBuf = (.ok av, r1) →
      Q r1 d ∧ ∀ k, k ≤ av.length → Q (r1.consume k) (d ++ av.take k)) (fuel : Nat) :
    ∀ (r : BodyReader) (consumes : List Nat) (last : Nat) (acc cs : List Bytes) (r' : BodyReader),
      Q r acc.flatten → runBufLoop fuel r consumes last acc = (cs, .eof, r') → Q r' cs.flatten := by
  induction fuel with
  | zero => intro r _ _ _ _ _ _ h; simp [runBufLoop] at h
  | succ fuel ih =>
    intro r consumes last acc cs r' hq h
    unfold runBufLoop at h
    rcases hres : r.fillBuf with ⟨x, r1⟩
    simp only [hres] at h
    cases x with
    | err e => simp at h
    | ok av =>
      simp only at h
      obtain ⟨hq1, hq2⟩ := hstep _ _ _ _ hq hres
      by_cases ho : av.length = 0
      · simp only [ho, if_true] at h
        injection h with h1 h2; injection h2 with _ h2; subst h1; subst h2
        exact hq1
      · simp only [ho, if_false] at h
        exact ih _ _ _ _ _ _ (by simpa using hq2 _ (Nat.min_le_right _ _)) h

/-! ## the bookkeeping invariant of a fixed `BodyReader` along a run -/

/-- `d` = bytes delivered so far; `T0` = everything that was unread at the start; `N` = declared length -/
def FixedQ (T0 : Bytes) (N : Nat) (r : BodyReader) (d : Bytes) : Prop :=
  ∃ f, r.enc = .fixed f ∧ f.Balanced ∧ d ++ f.tot = T0 ∧ f.remaining + d.length = N

theorem fixedQ_read (T0 : Bytes) (N : Nat) : ∀ r n out r1 d, FixedQ T0 N r d → r.read n = (.ok out, r1) →
    FixedQ T0 N r1 (d ++ out) := by
  intro r n out r1 d ⟨f, he, hb, ht, hn⟩ h
  obtain ⟨enc, fl⟩ := r
  simp only at he; subst he
  simp only [BodyReader.read] at h
  rcases hres : f.read n with ⟨x, f1⟩
  rw [hres] at h
  simp only at h
  injection h with h1 h2; subst h1; subst h2
  obtain ⟨b1, t1, r1'⟩ := fixed_read_balanced hres hb
  refine ⟨f1, rfl, b1, ?_, ?_⟩
  · rw [List.append_assoc, t1]; exact ht
  · simp only [List.length_append]; omega

theorem fixedQ_fillBuf (T0 : Bytes) (N : Nat) : ∀ r av r1 d, FixedQ T0 N r d → r.fillBuf = (.ok av, r1) →
    FixedQ T0 N r1 d ∧ ∀ k, k ≤ av.length → FixedQ T0 N (r1.consume k) (d ++ av.take k) := by
  intro r av r1 d ⟨f, he, hb, ht, hn⟩ h
  obtain ⟨enc, fl⟩ := r
  simp only at he; subst he
  simp only [BodyReader.fillBuf] at h
  rcases hres : f.fillBuf with ⟨x, f1⟩
  rw [hres] at h
  simp only at h
  injection h with h1 h2; subst h1; subst h2
  obtain ⟨b1, t1, r1', l1, l2, e1⟩ := fixed_fillBuf_balanced hres hb
  constructor
  · exact ⟨f1, rfl, b1, by rw [t1]; exact ht, by omega⟩
  · intro k hk
    obtain ⟨b2, t2, r2⟩ := fixed_consume_balanced f1 k b1 (by omega) (by omega)
    refine ⟨f1.consume k, rfl, b2, ?_, ?_⟩
    · have : av.take k = f1.inner.buf.take k := by
        rw [e1, List.take_take, Nat.min_eq_left hk]
      rw [List.append_assoc, this, t2, t1]; exact ht
    · simp only [List.length_append, List.length_take]; omega

theorem newFixed_fixedQ (lo : Bytes) (src : Src) (n : Nat) :
    FixedQ (lo ++ src.data) n (BodyReader.newFixed lo src n) [] :=
  ⟨_, rfl, by simp [FixedReader.Balanced, FixedReader.new, BufReader.new],
    by simp [FixedReader.tot, FixedReader.new, BufReader.new, Take.total, Swl.content],
    by simp [FixedReader.new]⟩

end Khttp.Body
