/-
  The fuel of the model's loops is always sufficient: no run ever ends with the artefact outcome `.err .fuel`.
-/
import Khttp.Lemmas.BodyRun
namespace Khttp.Body
open Khttp

theorem pReadLine_err {c : Bytes} {e : IoErr} (h : pReadLine c = .err e) : e = .invalidData := by
  unfold pReadLine at h; split at h
  · cases h
  · injection h with h; exact h.symm

theorem pChunkSize_no_fuel (c : Bytes) : pChunkSize c ≠ .err .fuel := by
  intro h
  unfold pChunkSize at h
  cases hl : pReadLine c with
  | err e => rw [hl] at h; simp only at h; injection h with h; have := pReadLine_err hl; rw [h] at this; cases this
  | ok q =>
    obtain ⟨line, r⟩ := q
    simp only [hl] at h
    split at h
    · cases h
    · split at h
      · cases h
      · split at h <;> cases h

theorem pCrlf_no_fuel (c : Bytes) : pCrlf c ≠ .err .fuel := by
  intro h; unfold pCrlf at h
  split at h
  · cases h
  · split at h <;> cases h

theorem pTrailers_no_fuel (f : Nat) : ∀ c : Bytes, c.length < f → pTrailers f c ≠ .err .fuel := by
  induction f with
  | zero => intro c h; omega
  | succ f ih =>
    intro c hf h
    unfold pTrailers at h
    cases hl : pReadLine c with
    | err e => rw [hl] at h; simp only at h; injection h with h; have := pReadLine_err hl; rw [h] at this; cases this
    | ok q =>
      obtain ⟨line, r⟩ := q
      have hlen := pReadLine_length hl
      simp only [hl] at h
      split at h
      · cases h
      · rename_i hc
        have : line.length ≠ 0 := by intro h0; simp [h0] at hc
        exact ih r (by omega) h

theorem pAdvance_done_no_fuel (f r : Nat) (c : Bytes) : pAdvance (f + 1) ⟨.done, r, c⟩ ≠ .err .fuel := by
  simp [pAdvance]

theorem pAdvance_trailer_no_fuel (f r : Nat) (c : Bytes) : pAdvance (f + 2) ⟨.trailer, r, c⟩ ≠ .err .fuel := by
  intro h
  simp only [pAdvance] at h
  cases ht : pTrailers (c.length + 1) c with
  | err e =>
    rw [ht] at h; simp only at h; injection h with h
    rw [h] at ht; exact pTrailers_no_fuel _ c (by omega) ht
  | ok rest => simp [ht] at h

theorem pAdvance_size_no_fuel (f r : Nat) (c : Bytes) : pAdvance (f + 3) ⟨.size, r, c⟩ ≠ .err .fuel := by
  intro h
  simp only [pAdvance] at h
  cases hc : pChunkSize c with
  | err e => rw [hc] at h; simp only at h; injection h with h; rw [h] at hc; exact pChunkSize_no_fuel c hc
  | ok q =>
    obtain ⟨st, v, rest⟩ := q
    rw [hc] at h
    simp only at h
    -- `st` is `trailer` (v = 0) or `data` (v ≠ 0)
    have hst : st = if v = 0 then .trailer else .data := by
      unfold pChunkSize at hc
      cases hl : pReadLine c with
      | err e => simp [hl] at hc
      | ok q =>
        obtain ⟨line, r'⟩ := q
        simp only [hl] at hc
        split at hc
        · cases hc
        · split at hc
          · cases hc
          · split at hc
            · cases hc
            · injection hc with hc; injection hc with h1 h2; injection h2 with h2 _
              subst h2; exact h1.symm
    by_cases hv : v = 0
    · simp only [hv, if_true] at hst; subst hst
      exact pAdvance_trailer_no_fuel f _ rest h
    · simp only [hv, if_false] at hst; subst hst
      simp [pAdvance, hv] at h

theorem pAdvance_crlf_no_fuel (f r : Nat) (c : Bytes) : pAdvance (f + 4) ⟨.crlf, r, c⟩ ≠ .err .fuel := by
  intro h
  simp only [pAdvance] at h
  cases hc : pCrlf c with
  | err e => rw [hc] at h; simp only at h; injection h with h; rw [h] at hc; exact pCrlf_no_fuel c hc
  | ok rest => rw [hc] at h; exact pAdvance_size_no_fuel f r rest h

/-- `advance` needs at most 5 iterations of its loop; the model gives it 8 -/
theorem pAdvance_no_fuel (s : CAbs) : pAdvance 8 s ≠ .err .fuel := by
  obtain ⟨st, r, c⟩ := s
  cases st with
  | size => exact pAdvance_size_no_fuel 5 r c
  | crlf => exact pAdvance_crlf_no_fuel 4 r c
  | trailer => exact pAdvance_trailer_no_fuel 6 r c
  | done => exact pAdvance_done_no_fuel 7 r c
  | data =>
    intro h
    by_cases hr : r = 0
    · subst hr
      have : pAdvance 8 ⟨.data, 0, c⟩ = pAdvance 7 ⟨.crlf, 0, c⟩ := by simp [pAdvance]
      rw [this] at h
      exact pAdvance_crlf_no_fuel 3 0 c h
    · simp [pAdvance, hr] at h

theorem delivers_no_fuel {s : AbsB} {p : Bytes} {o : Outcome} (hd : Delivers s p o) : o ≠ .err .fuel := by
  induction hd with
  | lost _ => intro h; cases h
  | step _ _ _ _ ih => exact ih
  | stop h1 =>
    rename_i s o
    intro ho
    subst ho
    cases s with
    | fixed rem c =>
      simp only [nextB] at h1
      split at h1
      · cases h1
      · split at h1 <;> cases h1
    | chunked s =>
      simp only [nextB] at h1
      cases hp : pAdvance 8 s with
      | err e =>
        rw [hp] at h1; simp only at h1
        injection h1 with h1; injection h1 with h1
        rw [h1] at hp; exact pAdvance_no_fuel s hp
      | ok q =>
        obtain ⟨b, s'⟩ := q
        cases b with
        | false => rw [hp] at h1; cases h1
        | true =>
          rw [hp] at h1; simp only at h1
          split at h1 <;> cases h1
    | eof c =>
      simp only [nextB] at h1
      split at h1 <;> cases h1
    | empty => simp only [nextB] at h1; cases h1

end Khttp.Body
