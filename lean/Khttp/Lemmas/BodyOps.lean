/-
  What is left of the input after USER CODE has used a body reader in an arbitrary way and the reader has been
  dropped (`drain`): helpers for C07.

  `OpsOk b ops`: the list of interface calls `ops` respects the `BufRead` contract on reader `b`
  (each `consume amt` consumes at most what is left of the slice the preceding `fill_buf` returned) and does not
  issue zero-length `read`s.
-/
import Khttp.Model.Conn
import Khttp.Lemmas.BodyTop
import Khttp.Lemmas.BodyStarve
import Khttp.Lemmas.BodyTrunc
import Khttp.Lemmas.ReadLoop
import Khttp.Props.C03
import Khttp.Props.C10
namespace Khttp.Body
open Khttp Khttp.Spec.Chunked

/-! ## the contract of user code -/

/-- `k` = number of bytes of the slice returned by the last `fill_buf` that may still be consumed -/
def OpsOkFrom : BodyReader → Nat → List BodyOp → Prop
  | _, _, [] => True
  | b, _, .read n :: ops => 1 ≤ n ∧ OpsOkFrom (b.read n).2 0 ops
  | b, _, .fillBuf :: ops =>
    OpsOkFrom b.fillBuf.2 (match b.fillBuf.1 with | .ok av => av.length | .err _ => 0) ops
  | b, k, .consume amt :: ops => amt ≤ k ∧ OpsOkFrom (b.consume amt) (k - amt) ops

def OpsOk (b : BodyReader) (ops : List BodyOp) : Prop := OpsOkFrom b 0 ops

/-! ## fixed-length reader: whatever user code does, exactly the body is consumed -/

/-- `E` = the bytes after the body. The reader is balanced, what is unread is the rest `p` of the payload followed by
`E`, and the raw stream has not been read at its end. -/
def FixedGood (E : Bytes) (f : FixedReader) : Prop :=
  f.Balanced ∧ (∃ p, f.tot = p ++ E ∧ p.length = f.remaining) ∧ f.inner.starved = false

theorem FixedGood.content {E : Bytes} {f : FixedReader} (h : FixedGood E f) :
    f.inner.content.length = f.remaining := by
  obtain ⟨hb, ⟨p, hp, hl⟩, _⟩ := h
  unfold FixedReader.Balanced at hb
  have h1 : f.inner.content = f.inner.buf ++ f.inner.inner.total.take f.inner.inner.limit := rfl
  have h2 : f.inner.inner.limit ≤ f.inner.inner.total.length := by
    have := congrArg List.length hp
    simp only [FixedReader.tot, List.length_append] at this
    omega
  rw [h1, List.length_append, List.length_take, Nat.min_eq_left h2]; omega

theorem good_read {E : Bytes} {f : FixedReader} (h : FixedGood E f) (n : Nat) (hn : 1 ≤ n) :
    ∃ out f1, f.read n = (.ok out, f1) ∧ FixedGood E f1 := by
  have hc := h.content
  have hfr := fixed_read f n hn
  by_cases hr : f.remaining = 0
  · simp only [hr, if_true] at hfr
    exact ⟨[], f, hfr, h⟩
  · have hne : f.inner.content ≠ [] := by intro h0; rw [h0] at hc; simp at hc; omega
    simp only [hr, hne, if_false] at hfr
    obtain ⟨out, f1, e1, h1, h2, h3, h4, h5, h6⟩ := hfr
    obtain ⟨hb, ⟨p, hp, hl⟩, hs⟩ := h
    obtain ⟨b1, t1, r1⟩ := fixed_read_balanced e1 hb
    refine ⟨out, f1, e1, b1, ⟨p.drop out.length, ?_, by simp; omega⟩, ?_⟩
    · rw [hp] at t1
      have : (out ++ f1.tot).drop out.length = (p ++ E).drop out.length := by rw [t1]
      rw [List.drop_left'  rfl, List.drop_append_of_le_length (by omega)] at this
      exact this
    · have hst := BufReader.read_starved f.inner (min f.remaining n) hne
      have : f1.inner = (f.inner.read (min f.remaining n)).2 := by
        unfold FixedReader.read at e1
        simp only [hr, if_false] at e1
        split at e1
        · cases e1
        · injection e1 with _ e1; rw [← e1]
      rw [this, hst]; exact hs

theorem good_fillBuf {E : Bytes} {f : FixedReader} (h : FixedGood E f) :
    ∃ av f1, f.fillBuf = (.ok av, f1) ∧ FixedGood E f1 ∧ av.length ≤ f1.inner.buf.length ∧
      av.length ≤ f1.remaining := by
  have hc := h.content
  have hfr := fixed_fillBuf f
  by_cases hr : f.remaining = 0
  · simp only [hr, if_true] at hfr
    exact ⟨[], f, hfr, h, by simp, by simp⟩
  · have hne : f.inner.content ≠ [] := by intro h0; rw [h0] at hc; simp at hc; omega
    simp only [hr, hne, if_false] at hfr
    obtain ⟨av, f1, e1, h1, h2, h3, h4, h5, h6⟩ := hfr
    obtain ⟨hb, ⟨p, hp, hl⟩, hs⟩ := h
    obtain ⟨b1, t1, r1, l1, l2, _⟩ := fixed_fillBuf_balanced e1 hb
    refine ⟨av, f1, e1, ⟨b1, ⟨p, by rw [t1]; exact hp, by omega⟩, ?_⟩, l1, l2⟩
    have hst := BufReader.fillBuf_starved f.inner hne
    have : f1.inner = (f.inner.fillBuf).2 := by
      unfold FixedReader.fillBuf at e1
      simp only [hr, if_false] at e1
      split at e1
      · cases e1
      · injection e1 with _ e1; rw [← e1]
    rw [this, hst]; exact hs

theorem good_consume {E : Bytes} {f : FixedReader} (h : FixedGood E f) (k : Nat) (h1 : k ≤ f.inner.buf.length)
    (h2 : k ≤ f.remaining) : FixedGood E (f.consume k) := by
  obtain ⟨hb, ⟨p, hp, hl⟩, hs⟩ := h
  obtain ⟨b1, t1, r1⟩ := fixed_consume_balanced f k hb h1 h2
  refine ⟨b1, ⟨p.drop k, ?_, by simp; omega⟩, hs⟩
  rw [hp] at t1
  have hk : f.inner.buf.take k = p.take k := by
    have := congrArg (List.take k) hp
    simp only [FixedReader.tot] at this
    rw [List.take_append_of_le_length h1, List.take_append_of_le_length (by omega)] at this
    exact this
  have : (f.inner.buf.take k ++ (f.consume k).tot).drop k = (p ++ E).drop k := by rw [t1]
  rw [List.drop_left' (by simp; omega), List.drop_append_of_le_length (by omega)] at this
  exact this

/-- the invariant of a fixed `BodyReader` under user operations; `k` bounds the next `consume` -/
def BGood (E : Bytes) (b : BodyReader) (k : Nat) : Prop :=
  ∃ f, b.enc = .fixed f ∧ b.fail = false ∧ FixedGood E f ∧ k ≤ f.inner.buf.length ∧ k ≤ f.remaining

theorem bgood_ops (E : Bytes) (ops : List BodyOp) : ∀ (b : BodyReader) (k : Nat), BGood E b k → OpsOkFrom b k ops →
    ∃ k', BGood E (applyBodyOps b ops) k' := by
  induction ops with
  | nil => intro b k h _; exact ⟨k, h⟩
  | cons op ops ih =>
    intro b k ⟨f, he, hf, hg, hk1, hk2⟩ hok
    obtain ⟨enc, fl⟩ := b
    simp only at he hf; subst he; subst hf
    cases op with
    | read n =>
      obtain ⟨hn, hok'⟩ := hok
      obtain ⟨out, f1, e1, g1⟩ := good_read hg n hn
      have hb1 : (BodyReader.read ⟨.fixed f, false⟩ n).2 = ⟨.fixed f1, false⟩ := by
        simp [BodyReader.read, e1, BodyReader.note]
      simp only [applyBodyOps, List.foldl_cons, applyBodyOp]
      rw [hb1] at hok' ⊢
      exact ih _ 0 ⟨f1, rfl, rfl, g1, by omega, by omega⟩ hok'
    | fillBuf =>
      obtain ⟨av, f1, e1, g1, l1, l2⟩ := good_fillBuf hg
      have hb1 : (BodyReader.fillBuf ⟨.fixed f, false⟩) = (.ok av, ⟨.fixed f1, false⟩) := by
        simp [BodyReader.fillBuf, e1, BodyReader.note]
      simp only [OpsOkFrom, hb1] at hok
      simp only [applyBodyOps, List.foldl_cons, applyBodyOp, hb1]
      exact ih _ av.length ⟨f1, rfl, rfl, g1, l1, l2⟩ hok
    | consume amt =>
      obtain ⟨ha, hok'⟩ := hok
      simp only [applyBodyOps, List.foldl_cons, applyBodyOp]
      have hb1 : BodyReader.consume ⟨.fixed f, false⟩ amt = ⟨.fixed (f.consume amt), false⟩ := rfl
      rw [hb1] at hok' ⊢
      refine ih _ (k - amt) ⟨f.consume amt, rfl, rfl, good_consume hg amt (by omega) (by omega), ?_, ?_⟩ hok'
      · simp only [FixedReader.consume, BufReader.consume, List.length_drop]; omega
      · simp only [FixedReader.consume]; omega

theorem bgood_drainLoop (E : Bytes) (fuel : Nat) : ∀ (b : BodyReader) (k : Nat), BGood E b k →
    (∀ f, b.enc = .fixed f → f.remaining < fuel) →
    ∃ f, (BodyReader.drainLoop fuel b).enc = .fixed f ∧ (BodyReader.drainLoop fuel b).fail = false ∧
      FixedGood E f ∧ f.remaining = 0 := by
  induction fuel with
  | zero => intro b k ⟨f, he, _⟩ hlt; exact absurd (hlt f he) (by omega)
  | succ fuel ih =>
    intro b k ⟨f, he, hf, hg, _, _⟩ hlt
    obtain ⟨enc, fl⟩ := b
    simp only at he hf; subst he; subst hf
    obtain ⟨out, f1, e1, g1⟩ := good_read hg 1024 (by decide)
    have hb1 : (BodyReader.read ⟨.fixed f, false⟩ 1024) = (.ok out, ⟨.fixed f1, false⟩) := by
      simp [BodyReader.read, e1, BodyReader.note]
    unfold BodyReader.drainLoop
    rw [hb1]
    simp only
    have hfr := fixed_read f 1024 (by decide)
    by_cases ho : out.length = 0
    · rw [if_pos ho]
      refine ⟨f1, rfl, rfl, g1, ?_⟩
      -- an empty read means nothing remained
      by_cases hr : f.remaining = 0
      · simp only [hr, if_true] at hfr
        rw [hfr] at e1; injection e1 with _ e1; rw [← e1]; exact hr
      · have hc := hg.content
        have hne : f.inner.content ≠ [] := by intro h0; rw [h0] at hc; simp at hc; omega
        simp only [hr, hne, if_false] at hfr
        obtain ⟨out', f1', e1', h1, _⟩ := hfr
        rw [e1] at e1'; injection e1' with e1' _; injection e1' with e1'
        subst e1'
        exact absurd (List.length_eq_zero_iff.mp ho) h1
    · rw [if_neg ho]
      apply ih _ 0 ⟨f1, rfl, rfl, g1, by omega, by omega⟩
      intro f' hf'
      simp only at hf'; injection hf' with hf'; subst hf'
      have := hlt f rfl
      obtain ⟨hb, _, _⟩ := hg
      obtain ⟨_, _, r1⟩ := fixed_read_balanced e1 hb
      omega

/-- what is left of a fixed reader once its body has been consumed completely: nothing buffered, and the rest of
the leftover followed by the rest of the stream is exactly `E` -/
def FixedLeft (b : BodyReader) (E : Bytes) : Prop :=
  ∃ f, b.enc = .fixed f ∧ f.remaining = 0 ∧ f.inner.buf = [] ∧ f.inner.inner.inner.lo ++ b.src.data = E

/-- **Fixed reader, arbitrary user code.** Reader on `leftover`, `src` with `leftover ++ src.data = payload ++ extra`
(`payload ≠ []`, declared length `payload.length`): whatever contract-respecting operations user code performs (read
all, part or none of the body through either interface), after the drop-drain the failure flag is clear, the raw
stream was never read at its end, and exactly the payload has been consumed: what is left of leftover and stream
is `extra`. -/
theorem fixed_ops_drain (payload extra lo : Bytes) (src : Src) (hne : payload ≠ []) (hst : src.starved = false)
    (hsplit : lo ++ src.data = payload ++ extra) (ops : List BodyOp)
    (hok : OpsOk (BodyReader.newFixed lo src payload.length) ops) :
    let fin := (applyBodyOps (BodyReader.newFixed lo src payload.length) ops).drain
    fin.fail = false ∧ fin.src.starved = false ∧ FixedLeft fin extra := by
  intro fin
  have h0 : BGood extra (BodyReader.newFixed lo src payload.length) 0 := by
    refine ⟨_, rfl, rfl, ⟨?_, ⟨payload, ?_, ?_⟩, ?_⟩, by omega, by omega⟩
    · simp [FixedReader.Balanced, FixedReader.new, BufReader.new]
    · simpa [FixedReader.tot, FixedReader.new, BufReader.new, Take.total, Swl.content] using hsplit
    · simp [FixedReader.new]
    · exact hst
  obtain ⟨k', hg⟩ := bgood_ops extra ops _ 0 h0 hok
  obtain ⟨f, he, _, hgf, _, _⟩ := id hg
  have hdr : fin = BodyReader.drainLoop ((applyBodyOps (BodyReader.newFixed lo src payload.length) ops).bound + 2)
      (applyBodyOps (BodyReader.newFixed lo src payload.length) ops) := by
    simp only [fin, BodyReader.drain, he]
  obtain ⟨f', he', hf', hg', hr'⟩ := bgood_drainLoop extra
    ((applyBodyOps (BodyReader.newFixed lo src payload.length) ops).bound + 2) _ k' hg (by
    intro f2 hf2
    rw [he] at hf2; injection hf2 with hf2; subst hf2
    have h1 := hgf.content
    have h2 : f.inner.content.length ≤ (applyBodyOps (BodyReader.newFixed lo src payload.length) ops).bound := by
      simp only [BodyReader.bound, he]; exact BufReader.content_length_le f.inner
    omega)
  rw [← hdr] at he' hf'
  obtain ⟨hb, ⟨p, hp, hl⟩, hs⟩ := hg'
  unfold FixedReader.Balanced at hb
  have hbuf : f'.inner.buf = [] := List.length_eq_zero_iff.mp (by omega)
  have hp0 : p = [] := List.length_eq_zero_iff.mp (by omega)
  have hsrc : fin.src = f'.inner.inner.inner.src := by simp [BodyReader.src, he']
  refine ⟨hf', by rw [hsrc]; exact hs, f', he', hr', hbuf, ?_⟩
  rw [hsrc]
  simpa [FixedReader.tot, hbuf, hp0, Take.total, Swl.content] using hp

/-! ### the leftover is used up before the stream: lifting an invariant of the `Take` through all layers -/

section Lift
variable {ρ : Type} [RawRead ρ] (Q : ρ → Prop) (hQ : ∀ (r : ρ) (n : Nat), Q r → Q (RawRead.read r n).2)
include hQ

theorem buf_fillBuf_lift (b : BufReader ρ) (h : Q b.inner) : Q (b.fillBuf).2.inner := by
  unfold BufReader.fillBuf; split
  · exact hQ _ _ h
  · exact h

theorem buf_read_lift (b : BufReader ρ) (n : Nat) (h : Q b.inner) : Q (b.read n).2.inner := by
  unfold BufReader.read; split
  · exact hQ _ _ h
  · exact buf_fillBuf_lift Q hQ b h

end Lift

/-- `pre ++ tail` are the pending segment sizes, `pre` (sizes, 0 counting as 1) covering exactly `m` bytes -/
def SegsSplit (segs : List Nat) (m : Nat) (tail : List Nat) : Prop :=
  ∃ pre, segs = pre ++ tail ∧ (pre.map (max · 1)).sum = m

/-- `X` / `tail`: the bytes of the stream after the body and their segment sizes. The stream holds `e ++ X`, the body
part `e` of it together with the unread leftover is what the `Take` still allows, and the body part ends at a segment
boundary. -/
def TakeAl (X : Bytes) (tail : List Nat) (t : Take) : Prop :=
  ∃ e, t.inner.src.data = e ++ X ∧ e.length + t.inner.lo.length = t.limit ∧
    SegsSplit t.inner.src.segs e.length tail

theorem Src.read_al (X : Bytes) (tail : List Nat) (s : Src) (n : Nat) (e : Bytes) (hd : s.data = e ++ X)
    (hn : n ≤ e.length) (hs : SegsSplit s.segs e.length tail) :
    (s.read n).2.data = e.drop (s.read n).1.length ++ X ∧ (s.read n).1.length ≤ e.length ∧
    SegsSplit (s.read n).2.segs (e.length - (s.read n).1.length) tail := by
  obtain ⟨pre, hsegs, hsum⟩ := hs
  unfold Src.read
  by_cases h0 : n = 0
  · simp only [h0, if_true, List.length_nil, List.drop_zero, Nat.sub_zero]
    exact ⟨hd, by omega, pre, hsegs, hsum⟩
  · simp only [h0, if_false]
    have hel : 0 < e.length := by omega
    have hne : s.data.isEmpty = false := by
      rw [hd]; cases e with
      | nil => simp at hel
      | cons _ _ => rfl
    simp only [hne, Bool.false_eq_true, if_false]
    cases pre with
    | nil => simp at hsum; omega
    | cons g pre' =>
      simp only [List.cons_append] at hsegs
      simp only [List.map_cons, List.sum_cons] at hsum
      rw [hsegs]
      simp only
      have hdl : s.data.length = e.length + X.length := by rw [hd]; simp
      have hk : min n (min (max g 1) s.data.length) ≤ e.length := by omega
      have hk2 : min n (min (max g 1) s.data.length) ≤ s.data.length := by omega
      have hk3 : min n (min (max g 1) s.data.length) ≤ max g 1 := by omega
      generalize min n (min (max g 1) s.data.length) = k at hk hk2 hk3 ⊢
      have htl : (s.data.take k).length = k := by rw [List.length_take]; omega
      rw [htl]
      refine ⟨?_, hk, ?_⟩
      · rw [hd, List.drop_append_of_le_length hk]
      · by_cases hlt : k < max g 1
        · simp only [hlt, if_true]
          refine ⟨(max g 1 - k) :: pre', rfl, ?_⟩
          simp only [List.map_cons, List.sum_cons]; omega
        · simp only [hlt, if_false]
          exact ⟨pre', rfl, by omega⟩

theorem Take.read_takeAl (X : Bytes) (tail : List Nat) (t : Take) (n : Nat) (h : TakeAl X tail t) :
    TakeAl X tail (RawRead.read t n).2 := by
  show TakeAl X tail (t.read n).2
  obtain ⟨e, hd, hl, hs⟩ := h
  unfold Take.read
  split
  · exact ⟨e, hd, hl, hs⟩
  · rename_i hlim
    simp only [Swl.read]
    split
    · rename_i hlo
      refine ⟨e, hd, ?_, hs⟩
      simp only [List.length_drop, List.length_take]; omega
    · rename_i hlo
      have hlo0 : t.inner.lo.length = 0 := by omega
      obtain ⟨h1, h2, h3⟩ := Src.read_al X tail t.inner.src (min n t.limit) e hd (by omega) hs
      refine ⟨e.drop (t.inner.src.read (min n t.limit)).1.length, h1, ?_, ?_⟩
      · simp only [List.length_drop]; omega
      · simpa using h3

section LiftFixed
variable (Q : Take → Prop) (hQ : ∀ (t : Take) (n : Nat), Q t → Q (RawRead.read t n).2)
include hQ

theorem fixed_op_lift (f : FixedReader) (h : Q f.inner.inner) :
    (∀ n, Q (f.read n).2.inner.inner) ∧ Q (f.fillBuf).2.inner.inner ∧ (∀ k, Q (f.consume k).inner.inner) := by
  refine ⟨?_, ?_, fun _ => h⟩
  · intro n
    unfold FixedReader.read
    split
    · exact h
    · have := buf_read_lift Q hQ f.inner (min f.remaining n) h
      simp only
      split <;> exact this
  · unfold FixedReader.fillBuf
    split
    · exact h
    · have := buf_fillBuf_lift Q hQ f.inner h
      simp only
      split <;> exact this

/-- `Q` holds of the `Take` of a fixed reader (vacuous for the other kinds) -/
def BLift (b : BodyReader) : Prop := ∀ f, b.enc = .fixed f → Q f.inner.inner

theorem applyBodyOp_lift (b : BodyReader) (op : BodyOp) (h : BLift Q b) : BLift Q (applyBodyOp b op) := by
  obtain ⟨enc, fl⟩ := b
  cases enc with
  | fixed f =>
    obtain ⟨h1, h2, h3⟩ := fixed_op_lift Q hQ f (h f rfl)
    intro f' hf'
    cases op with
    | read n => simp only [applyBodyOp, BodyReader.read] at hf'; injection hf' with hf'; rw [← hf']; exact h1 n
    | fillBuf => simp only [applyBodyOp, BodyReader.fillBuf] at hf'; injection hf' with hf'; rw [← hf']; exact h2
    | consume k => simp only [applyBodyOp, BodyReader.consume] at hf'; injection hf' with hf'; rw [← hf']; exact h3 k
  | chunked c => intro f' hf'; cases op <;> simp [applyBodyOp, BodyReader.read, BodyReader.fillBuf, BodyReader.consume] at hf'
  | eof r => intro f' hf'; cases op <;> simp [applyBodyOp, BodyReader.read, BodyReader.fillBuf, BodyReader.consume] at hf'
  | empty s => intro f' hf'; cases op <;> simp [applyBodyOp, BodyReader.read, BodyReader.fillBuf, BodyReader.consume] at hf'

theorem applyBodyOps_lift (ops : List BodyOp) : ∀ b : BodyReader, BLift Q b → BLift Q (applyBodyOps b ops) := by
  induction ops with
  | nil => intro b h; exact h
  | cons op ops ih => intro b h; exact ih _ (applyBodyOp_lift Q hQ b op h)

theorem drainLoop_lift (fuel : Nat) : ∀ b : BodyReader, BLift Q b → BLift Q (BodyReader.drainLoop fuel b) := by
  induction fuel with
  | zero => intro b h; exact h
  | succ fuel ih =>
    intro b h
    have := applyBodyOp_lift Q hQ b (.read 1024) h
    simp only [applyBodyOp] at this
    unfold BodyReader.drainLoop
    rcases hr : b.read 1024 with ⟨res, r1⟩
    rw [hr] at this
    cases res with
    | err e => exact this
    | ok out =>
      simp only
      split
      · exact this
      · exact ih r1 this

theorem drain_lift (b : BodyReader) (h : BLift Q b) : BLift Q b.drain := by
  unfold BodyReader.drain
  split
  · exact h
  · exact h
  · exact drainLoop_lift Q hQ _ b h

end LiftFixed

/-- **Fixed reader, arbitrary user code, segment-exact.** If moreover the body part of the stream ends at a segment
boundary (`SegsSplit`: the pending segment sizes are `pre ++ tail` with `pre` covering exactly the body bytes that
are still in the stream), then after ops + drain the raw stream holds exactly `X` (the bytes after the body) in
exactly the segments `tail`: not one byte of the next request has been touched, and none is hidden in a buffer. -/
theorem fixed_ops_drain_stream (payload X lo : Bytes) (src : Src) (e : Bytes) (tail : List Nat) (hne : payload ≠ [])
    (hst : src.starved = false) (hdata : src.data = e ++ X) (hbody : lo ++ e = payload)
    (hsegs : SegsSplit src.segs e.length tail) (ops : List BodyOp)
    (hok : OpsOk (BodyReader.newFixed lo src payload.length) ops) :
    let fin := (applyBodyOps (BodyReader.newFixed lo src payload.length) ops).drain
    fin.fail = false ∧ fin.src.starved = false ∧ fin.src.data = X ∧ fin.src.segs = tail := by
  intro fin
  have hsplit : lo ++ src.data = payload ++ X := by rw [hdata, ← hbody]; simp
  obtain ⟨h1, h2, f, he, hr, hbuf, hE⟩ := fixed_ops_drain payload X lo src hne hst hsplit ops hok
  have h0 : BLift (TakeAl X tail) (BodyReader.newFixed lo src payload.length) := by
    intro f' hf'
    simp only [BodyReader.newFixed] at hf'; injection hf' with hf'; subst hf'
    refine ⟨e, hdata, ?_, hsegs⟩
    have := congrArg List.length hbody
    simp only [List.length_append] at this
    show e.length + lo.length = payload.length
    omega
  obtain ⟨e', hd', hl', hs'⟩ := drain_lift _ (Take.read_takeAl X tail) _
    (applyBodyOps_lift _ (Take.read_takeAl X tail) ops _ h0) f he
  have hsrc : fin.src = f.inner.inner.inner.src := by simp only [fin, BodyReader.src, he]
  -- everything of `lo' ++ data' = X` is in the stream: `e' = []`, `lo' = []`
  have hlen : e'.length + f.inner.inner.inner.lo.length = 0 := by
    have := congrArg List.length hE
    rw [hsrc, hd'] at this
    simp only [List.length_append] at this
    omega
  have he0 : e' = [] := List.length_eq_zero_iff.mp (by omega)
  subst he0
  obtain ⟨pre, hp1, hp2⟩ := hs'
  have hpre : pre = [] := by
    cases pre with
    | nil => rfl
    | cons g gs => simp only [List.map_cons, List.sum_cons, List.length_nil] at hp2; omega
  subst hpre
  refine ⟨h1, h2, ?_, ?_⟩
  · rw [hsrc, hd']; rfl
  · rw [hsrc, hp1]; rfl

/-- a reader created without leftover never has any -/
def TakeNoLo (t : Take) : Prop := t.inner.lo = []

theorem Take.read_noLo (t : Take) (n : Nat) (h : TakeNoLo t) : TakeNoLo (RawRead.read t n).2 := by
  show TakeNoLo (t.read n).2
  unfold TakeNoLo at h ⊢
  unfold Take.read; split
  · exact h
  · simp only [Swl.read, h, List.length_nil, Nat.lt_irrefl, if_false]

/-- fixed reader without leftover (the head ended exactly at the end of a segment): after ops + drain the unread rest
of the stream is exactly `extra`, however body and following bytes are segmented -/
theorem fixed_ops_drain_nolo (payload extra : Bytes) (src : Src) (hne : payload ≠ []) (hst : src.starved = false)
    (hsplit : src.data = payload ++ extra) (ops : List BodyOp)
    (hok : OpsOk (BodyReader.newFixed [] src payload.length) ops) :
    let fin := (applyBodyOps (BodyReader.newFixed [] src payload.length) ops).drain
    fin.fail = false ∧ fin.src.starved = false ∧ fin.src.data = extra := by
  intro fin
  obtain ⟨h1, h2, f, he, hr, hbuf, hE⟩ := fixed_ops_drain payload extra [] src hne hst (by simpa using hsplit) ops hok
  have h0 : BLift TakeNoLo (BodyReader.newFixed [] src payload.length) := by
    intro f' hf'
    simp only [BodyReader.newFixed] at hf'; injection hf' with hf'; subst hf'
    rfl
  have := drain_lift _ Take.read_noLo _ (applyBodyOps_lift _ Take.read_noLo ops _ h0) f he
  unfold TakeNoLo at this
  rw [this] at hE
  exact ⟨h1, h2, by simpa using hE⟩

/-! ## the `Empty` reader: nothing is ever consumed -/

theorem empty_ops_drain (src : Src) (ops : List BodyOp) :
    (applyBodyOps (BodyReader.newEmpty src) ops).drain = BodyReader.newEmpty src := by
  have h : ∀ (b : BodyReader), (∃ s, b.enc = .empty s) → applyBodyOps b ops = b := by
    induction ops with
    | nil => intro b _; rfl
    | cons op ops ih =>
      intro b ⟨s, hs⟩
      obtain ⟨enc, fl⟩ := b
      simp only at hs; subst hs
      have : applyBodyOp ⟨.empty s, fl⟩ op = ⟨.empty s, fl⟩ := by
        cases op <;> rfl
      simp only [applyBodyOps, List.foldl_cons, this]
      exact ih _ ⟨s, rfl⟩
  rw [h _ ⟨src, rfl⟩]
  rfl

/-! ## doomed bodies: truncated or malformed — the failure flag is set by the time the reader has been dropped -/

/-- every possible run from abstract state `s` ends in an error -/
def Doomed (s : AbsB) : Prop := ∀ p o, Delivers s p o → ∃ e, o = .err e

theorem nextB_after_zero {s : AbsB} {d : Bytes} {sh : Bool} {after : Nat → AbsB} (h : nextB s = .avail d sh after) :
    nextB (after 0) = nextB s := by
  cases s with
  | fixed rem c =>
    have h' := h
    simp only [nextB] at h
    split at h
    · cases h
    · split at h
      · cases h
      · injection h with _ _ ha; subst ha; simp
  | chunked s =>
    have h' := h
    simp only [nextB] at h
    cases hp : pAdvance 8 s with
    | err e => simp [hp] at h
    | ok p =>
      obtain ⟨b, s'⟩ := p
      cases b with
      | false => simp [hp] at h
      | true =>
        simp only [hp] at h
        split at h
        · cases h
        · injection h with _ _ ha; subst ha
          simp only [Nat.sub_zero, List.drop_zero]
          exact (nextB_advance_true hp).symm
  | eof c =>
    simp only [nextB] at h
    split at h
    · cases h
    · injection h with _ _ ha; subst ha; simp
  | empty => simp [nextB] at h

theorem Doomed.after {s : AbsB} {d : Bytes} {sh : Bool} {after : Nat → AbsB} (hd : Doomed s)
    (h : nextB s = .avail d sh after) (j : Nat) (hj : j ≤ d.length) : Doomed (after j) := by
  intro p o hdel
  by_cases h0 : j = 0
  · subst h0
    exact hd p o (delivers_congr (nextB_after_zero h) hdel)
  · exact hd _ o (Delivers.step h (by omega) hj hdel)

theorem BodyReader.consume_consume (b : BodyReader) (i j : Nat) : (b.consume i).consume j = b.consume (i + j) := by
  obtain ⟨enc, fl⟩ := b
  cases enc with
  | fixed f =>
    simp [BodyReader.consume, FixedReader.consume, BufReader.consume, List.drop_drop, Nat.sub_sub, Nat.add_comm]
  | chunked c =>
    simp [BodyReader.consume, ChunkedReader.consume, BufReader.consume, List.drop_drop, Nat.sub_sub, Nat.add_comm]
  | eof r => simp [BodyReader.consume, BufReader.consume, List.drop_drop, Nat.add_comm]
  | empty s => rfl

theorem BodyReader.consume_zero (b : BodyReader) : b.consume 0 = b := by
  obtain ⟨enc, fl⟩ := b
  cases enc <;> simp [BodyReader.consume, FixedReader.consume, ChunkedReader.consume, BufReader.consume]

/-- fixed or chunked (the readers that `drain` actually drains) -/
def BodyReader.drainable (b : BodyReader) : Prop :=
  match b.enc with
  | .fixed _ => True
  | .chunked _ => True
  | _ => False

/-- invariant of a doomed reader under user operations: the flag is already set, or every state reachable by
consuming up to `k` more bytes is doomed -/
def DInv (b : BodyReader) (k : Nat) : Prop :=
  b.drainable ∧ (b.fail = true ∨ ∀ j, j ≤ k → Doomed (b.consume j).abs)

theorem applyBodyOp_drainable (b : BodyReader) (op : BodyOp) (h : b.drainable) : (applyBodyOp b op).drainable := by
  obtain ⟨enc, fl⟩ := b
  cases enc <;> cases op <;> first | exact h | (simp [BodyReader.drainable] at h)

theorem applyBodyOp_fail (b : BodyReader) (op : BodyOp) (h : b.fail = true) : (applyBodyOp b op).fail = true := by
  obtain ⟨enc, fl⟩ := b
  simp only at h; subst h
  cases enc with
  | fixed f =>
    cases op with
    | read n => simp only [applyBodyOp, BodyReader.read, BodyReader.note]; split <;> rfl
    | fillBuf => simp only [applyBodyOp, BodyReader.fillBuf, BodyReader.note]; split <;> rfl
    | consume a => rfl
  | chunked c =>
    cases op with
    | read n => simp only [applyBodyOp, BodyReader.read, BodyReader.note]; split <;> rfl
    | fillBuf => simp only [applyBodyOp, BodyReader.fillBuf, BodyReader.note]; split <;> rfl
    | consume a => rfl
  | eof r => cases op <;> rfl
  | empty s => cases op <;> rfl

theorem doomed_read {b : BodyReader} (hd : Doomed b.abs) (n : Nat) (hn : 1 ≤ n) :
    (b.read n).2.fail = true ∨ ((b.read n).2.fail = b.fail ∧ Doomed (b.read n).2.abs ∧
      (b.read n).2.abs.size < b.abs.size) := by
  have hb := body_read b n hn
  cases hN : nextB b.abs with
  | stop o =>
    simp only [hN] at hb
    cases o with
    | eof => obtain ⟨e, he⟩ := hd [] .eof (.stop hN); cases he
    | err e =>
      simp only [] at hb
      obtain ⟨r1, e1, f1⟩ := hb
      left; rw [e1]; exact f1
  | avail d sh after =>
    simp only [hN] at hb
    rcases hb with ⟨out, r1, e1, h1, h2, h3, h4, h5, h6⟩ | ⟨_, r1, e1, f1⟩
    · right
      rw [e1]
      exact ⟨h6, by rw [h5]; exact hd.after hN _ h2, by rw [h5]; exact nextB_size hN _ h1 h2⟩
    · left; rw [e1]; exact f1

theorem dinv_ops (ops : List BodyOp) : ∀ (b : BodyReader) (k : Nat), DInv b k → OpsOkFrom b k ops →
    ∃ k', DInv (applyBodyOps b ops) k' := by
  induction ops with
  | nil => intro b k h _; exact ⟨k, h⟩
  | cons op ops ih =>
    intro b k ⟨hdr, hinv⟩ hok
    simp only [applyBodyOps, List.foldl_cons]
    rcases hinv with hf | hdoom
    · -- flag already set
      have hf' := applyBodyOp_fail b op hf
      have hdr' := applyBodyOp_drainable b op hdr
      cases op with
      | read n => exact ih _ 0 ⟨hdr', Or.inl hf'⟩ hok.2
      | fillBuf => exact ih _ _ ⟨hdr', Or.inl hf'⟩ hok
      | consume a => exact ih _ (k - a) ⟨hdr', Or.inl hf'⟩ hok.2
    · have hd0 : Doomed b.abs := by have := hdoom 0 (by omega); rwa [BodyReader.consume_zero] at this
      have hdr' := applyBodyOp_drainable b op hdr
      cases op with
      | read n =>
        obtain ⟨hn, hok'⟩ := hok
        refine ih _ 0 ⟨hdr', ?_⟩ hok'
        rcases doomed_read hd0 n hn with h | ⟨_, h, _⟩
        · exact Or.inl h
        · right; intro j hj
          have : j = 0 := by omega
          subst this; rw [BodyReader.consume_zero]; exact h
      | fillBuf =>
        have hb := body_fillBuf b
        cases hN : nextB b.abs with
        | stop o =>
          simp only [hN] at hb
          cases o with
          | eof => obtain ⟨e, he⟩ := hd0 [] .eof (.stop hN); cases he
          | err e =>
            simp only [] at hb
            obtain ⟨r1, e1, f1⟩ := hb
            refine ih _ _ ⟨hdr', Or.inl ?_⟩ hok
            simp only [applyBodyOp, e1]; exact f1
        | avail d sh after =>
          simp only [hN] at hb
          obtain ⟨av, r1, e1, h1, h2, h4, h5⟩ := hb
          simp only [OpsOkFrom, e1] at hok
          simp only [applyBodyOp, e1] at hdr' ⊢
          refine ih _ av.length ⟨hdr', Or.inr ?_⟩ hok
          intro j hj
          rw [(h5 j hj).1]
          exact hd0.after hN j (by omega)
      | consume a =>
        obtain ⟨ha, hok'⟩ := hok
        refine ih _ (k - a) ⟨hdr', Or.inr ?_⟩ hok'
        intro j hj
        simp only [applyBodyOp]
        rw [BodyReader.consume_consume]
        exact hdoom (a + j) (by omega)

theorem drainLoop_fail_mono (fuel : Nat) : ∀ b : BodyReader, b.fail = true → (BodyReader.drainLoop fuel b).fail = true := by
  induction fuel with
  | zero => intro b h; exact h
  | succ fuel ih =>
    intro b h
    have := applyBodyOp_fail b (.read 1024) h
    simp only [applyBodyOp] at this
    unfold BodyReader.drainLoop
    rcases hr : b.read 1024 with ⟨res, r1⟩
    rw [hr] at this
    cases res with
    | err e => exact this
    | ok out =>
      simp only
      split
      · exact this
      · exact ih r1 this

theorem drainLoop_doomed (fuel : Nat) : ∀ b : BodyReader, Doomed b.abs → b.abs.size < fuel →
    (BodyReader.drainLoop fuel b).fail = true := by
  induction fuel with
  | zero => intro b _ h; omega
  | succ fuel ih =>
    intro b hd hsz
    unfold BodyReader.drainLoop
    have hb := body_read b 1024 (by decide)
    rcases doomed_read hd 1024 (by decide) with h | ⟨_, h2, h3⟩
    · rcases hr : b.read 1024 with ⟨res, r1⟩
      rw [hr] at h
      cases res with
      | err e => exact h
      | ok out =>
        simp only
        split
        · exact h
        · exact drainLoop_fail_mono fuel r1 h
    · rcases hr : b.read 1024 with ⟨res, r1⟩
      rw [hr] at h2 h3
      cases res with
      | err e =>
        -- an `Err` always sets the flag
        cases hN : nextB b.abs with
        | stop o =>
          simp only [hN] at hb
          cases o with
          | eof => obtain ⟨e', he⟩ := hd [] .eof (.stop hN); cases he
          | err e' =>
            simp only [] at hb
            obtain ⟨r1', e1, f1⟩ := hb
            rw [hr] at e1; injection e1 with _ e1; subst e1; exact f1
        | avail d sh after =>
          simp only [hN] at hb
          rcases hb with ⟨out, r1', e1, _⟩ | ⟨_, r1', e1, f1⟩
          · rw [hr] at e1; injection e1 with e1 _; cases e1
          · rw [hr] at e1; injection e1 with _ e1; subst e1; exact f1
      | ok out =>
        simp only
        split
        · -- `Ok(0)` from a doomed state is impossible
          rename_i ho
          exfalso
          cases hN : nextB b.abs with
          | stop o =>
            simp only [hN] at hb
            cases o with
            | eof => obtain ⟨e', he⟩ := hd [] .eof (.stop hN); cases he
            | err e' =>
              simp only [] at hb
              obtain ⟨r1', e1, _⟩ := hb
              rw [hr] at e1; injection e1 with e1 _; cases e1
          | avail d sh after =>
            simp only [hN] at hb
            rcases hb with ⟨out', r1', e1, h1, _⟩ | ⟨_, r1', e1, _⟩
            · rw [hr] at e1; injection e1 with e1 _; injection e1 with e1; subst e1; omega
            · rw [hr] at e1; injection e1 with e1 _; cases e1
        · have h3' : r1.abs.size < b.abs.size := h3
          exact ih r1 h2 (by omega)

/-- **Doomed bodies close the connection.** If every possible run from the reader's state ends in an error, then
after ANY contract-respecting user operations and the drop-drain the failure flag is set. -/
theorem doomed_ops_drain (b : BodyReader) (hdr : b.drainable) (hd : Doomed b.abs) (ops : List BodyOp)
    (hok : OpsOk b ops) : ((applyBodyOps b ops).drain).fail = true := by
  obtain ⟨k', hdr', hinv⟩ := dinv_ops ops b 0 ⟨hdr, Or.inr (by
    intro j hj
    have : j = 0 := by omega
    subst this; rw [BodyReader.consume_zero]; exact hd)⟩ hok
  generalize applyBodyOps b ops = b' at *
  have hdrain : b'.drain = BodyReader.drainLoop (b'.bound + 2) b' := by
    obtain ⟨enc, fl⟩ := b'
    cases enc <;> first | rfl | (simp [BodyReader.drainable] at hdr')
  rw [hdrain]
  rcases hinv with hf | hdoom
  · exact drainLoop_fail_mono _ _ hf
  · have hd0 : Doomed b'.abs := by have := hdoom 0 (by omega); rwa [BodyReader.consume_zero] at this
    exact drainLoop_doomed _ _ hd0 (by have := b'.abs_size_le_bound; omega)

/-! ### the doomed classes of C06 -/

theorem doomed_fixed_short (lo : Bytes) (src : Src) (n : Nat) (h : (lo ++ src.data).length < n) :
    Doomed (BodyReader.newFixed lo src n).abs := by
  intro p o hd
  rw [newFixed_abs, List.take_of_length_le (Nat.le_of_lt h)] at hd
  obtain ⟨_, ho⟩ := delivers_fixed _ _ _ _ _ rfl (Nat.le_of_lt h) hd
  rw [if_neg (by omega)] at ho
  exact ⟨_, ho⟩

theorem doomed_bad_size (lo : Bytes) (src : Src) (cs : List Chunk) (f : Bytes) (ext : Option Bytes) (rest : Bytes)
    (hv : ∀ c ∈ cs, c.Valid) (hsz : ∀ c ∈ cs, c.data.length < usizeLimit) (hf : fieldText f)
    (hbad : f = [] ∨ f.all isHexDigit = false) (he : extNoLF ext)
    (hsplit : lo ++ src.data = encodeChunks cs ++ (sizeLine f ext ++ rest)) :
    Doomed (BodyReader.newChunked lo src).abs := by
  intro p o hd
  rw [newChunked_abs, hsplit] at hd
  exact ⟨_, (delivers_bad_size cs f ext rest (fun c hc => ⟨hv c hc, hsz c hc⟩) hf hbad he (Or.inl ⟨rfl, rfl⟩) hd).2⟩

theorem doomed_bad_crlf (lo : Bytes) (src : Src) (cs : List Chunk) (c : Chunk) (y : Bytes)
    (hv : ∀ c' ∈ cs, c'.Valid) (hsz : ∀ c' ∈ cs, c'.data.length < usizeLimit) (hc : c.Valid)
    (hcl : c.data.length < usizeLimit) (hy : y.take 2 ≠ [CR, LF])
    (hsplit : lo ++ src.data = encodeChunks cs ++ (sizeLine c.size c.ext ++ c.data ++ y)) :
    Doomed (BodyReader.newChunked lo src).abs := by
  intro p o hd
  rw [newChunked_abs, hsplit] at hd
  exact ⟨_, (delivers_bad_crlf cs c y (fun c' hc' => ⟨hv c' hc', hsz c' hc'⟩) ⟨hc, hcl⟩ hy (Or.inl ⟨rfl, rfl⟩) hd).2⟩

/-- a chunked body cut before the end of its last-chunk line -/
theorem doomed_chunked_short (lo : Bytes) (src : Src) (cs : List Chunk) (ls : Bytes) (le : Option Bytes)
    (ts : List Bytes) (hv : Valid cs ls le ts) (hsz : ∀ c ∈ cs, c.data.length < usizeLimit)
    (hpre : lo ++ src.data <+: encode cs ls le ts)
    (hshort : (lo ++ src.data).length < (encodeChunks cs).length + (sizeLine ls le).length) :
    Doomed (BodyReader.newChunked lo src).abs := by
  intro p o hd
  rw [newChunked_abs] at hd
  exact ⟨_, (delivers_truncated ls le ts hv.last hv.lastExt hv.trailers cs _ _ p o
    (fun c hc => ⟨hv.chunks c hc, hsz c hc⟩) hpre (Or.inl ⟨rfl, rfl⟩) hd).2.2 hshort⟩

end Khttp.Body

/-! ## the socket side: `Sock.toSrc` / `Sock.ofSrc`, and the read loop on segment-aligned requests -/

namespace Khttp
open Khttp.Body

theorem splitSizes_flatten (fuel : Nat) : ∀ (d : Bytes) (segs : List Nat), d.length ≤ fuel →
    (splitSizes fuel d segs).flatten = d := by
  induction fuel with
  | zero =>
    intro d segs h
    have : d = [] := List.length_eq_zero_iff.mp (by omega)
    subst this; simp [splitSizes]
  | succ fuel ih =>
    intro d segs h
    cases d with
    | nil => simp [splitSizes]
    | cons x d =>
      cases segs with
      | nil => simp [splitSizes]
      | cons g gs =>
        simp only [splitSizes, List.flatten_cons]
        rw [ih _ _ (by simp only [List.length_drop, List.length_cons] at h ⊢; omega)]
        exact List.take_append_drop _ _

theorem Sock.ofSrc_pending (src : Src) (eof : Bool) : (Sock.ofSrc src eof).pending = src.data :=
  splitSizes_flatten _ _ _ (Nat.le_refl _)

/-- cutting the concatenation of non-empty segments back by their lengths gives the segments -/
theorem splitSizes_lengths (B : List Bytes) (hB : ∀ seg ∈ B, seg ≠ []) : ∀ fuel, B.flatten.length ≤ fuel →
    splitSizes fuel B.flatten (B.map List.length) = B := by
  induction B with
  | nil => intro fuel _; cases fuel <;> simp [splitSizes]
  | cons seg B ih =>
    intro fuel hf
    have hne := hB seg (by simp)
    have hl : 0 < seg.length := List.length_pos_iff.mpr hne
    cases fuel with
    | zero => simp only [List.flatten_cons, List.length_append] at hf; omega
    | succ fuel =>
      cases hfl : (seg :: B).flatten with
      | nil => simp at hfl; exact absurd hfl.1 hne
      | cons x d =>
        simp only [List.map_cons, splitSizes]
        rw [← hfl]
        have hm : max seg.length 1 = seg.length := by omega
        simp only [hm, List.flatten_cons, List.take_left', List.drop_left']
        rw [ih (fun s hs => hB s (by simp [hs])) fuel (by
          simp only [List.flatten_cons, List.length_append] at hf; omega)]

theorem Sock.ofSrc_segs (B : List Bytes) (hB : ∀ seg ∈ B, seg ≠ []) (st eof : Bool) :
    Sock.ofSrc { data := B.flatten, segs := B.map List.length, starved := st } eof = ⟨B, eof⟩ := by
  simp only [Sock.ofSrc]
  rw [splitSizes_lengths B hB _ (Nat.le_refl _)]

def nonEmptySegs (A : List Bytes) : List Bytes := A.filter (fun g => !g.isEmpty)

theorem nonEmptySegs_ne (A : List Bytes) : ∀ seg ∈ nonEmptySegs A, seg ≠ [] := by
  intro seg h
  simp only [nonEmptySegs, List.mem_filter] at h
  intro h0; simp [h0] at h

theorem nonEmptySegs_flatten (A : List Bytes) : (nonEmptySegs A).flatten = A.flatten := by
  induction A with
  | nil => rfl
  | cons seg A ih =>
    simp only [nonEmptySegs, List.filter_cons] at ih ⊢
    cases seg with
    | nil => simpa using ih
    | cons x t => simp [ih]

theorem nonEmptySegs_append (A B : List Bytes) : nonEmptySegs (A ++ B) = nonEmptySegs A ++ nonEmptySegs B := by
  simp [nonEmptySegs]

theorem nonEmptySegs_idem (A : List Bytes) : nonEmptySegs (nonEmptySegs A) = nonEmptySegs A := by
  simp [nonEmptySegs, List.filter_filter]

theorem segsSplit_of_segs (A B : List Bytes) :
    SegsSplit (((A ++ B).filter (fun g => !g.isEmpty)).map List.length) A.flatten.length
      ((nonEmptySegs B).map List.length) := by
  refine ⟨(nonEmptySegs A).map List.length, by simp [nonEmptySegs], ?_⟩
  rw [← nonEmptySegs_flatten A]
  have := nonEmptySegs_ne A
  generalize nonEmptySegs A = A' at this ⊢
  induction A' with
  | nil => rfl
  | cons seg A' ih =>
    have hl : 0 < seg.length := List.length_pos_iff.mpr (this seg (by simp))
    simp only [List.map_cons, List.sum_cons, List.flatten_cons, List.length_append]
    rw [ih (fun s hs => this s (by simp [hs]))]
    omega

theorem recvSegs_append (eof : Bool) (n : Nat) (hn : 1 ≤ n) (B : List Bytes) : ∀ (A : List Bytes), A.flatten ≠ [] →
    ∃ b A', recvSegs eof n (A ++ B) = .data b ⟨A' ++ B, eof⟩ ∧ b ++ A'.flatten = A.flatten ∧ b.length ≤ n := by
  intro A
  induction A with
  | nil => intro h; simp at h
  | cons seg A ih =>
    intro h
    simp only [List.cons_append, recvSegs]
    by_cases he : seg.isEmpty = true
    · have : seg = [] := by simpa using he
      subst this
      simp only [List.isEmpty_nil, if_true]
      obtain ⟨b, A', h1, h2, h3⟩ := ih (by simpa using h)
      exact ⟨b, A', h1, by simpa using h2, h3⟩
    · simp only [he, Bool.false_eq_true, if_false]
      by_cases hl : seg.length ≤ n
      · simp only [hl, if_true]
        exact ⟨seg, A, rfl, by simp, hl⟩
      · simp only [hl, if_false]
        refine ⟨seg.take n, seg.drop n :: A, rfl, by simp [← List.append_assoc], by simp; omega⟩

/-- **The read loop does not touch the segments after the one in which the head completes**: if the pending segments
are `Ar ++ B` and the head is complete within `buf ++ Ar.flatten`, the segments `B` are still pending afterwards. -/
theorem readLoop_segs (max : Nat) (head : Bytes) (r : Request) (hp : Request.parse head = .ok r) (B : List Bytes) :
    ∀ (fuel : Nat) (buf : Bytes) (s : Sock) (log : RecvLog) (Ar : List Bytes) (t : Bytes),
      s.segs = Ar ++ B → buf ++ Ar.flatten = head ++ t → buf.length ≤ max → Request.parse buf = .err .eof →
      ∀ ok s' log', readLoop max fuel buf s log = (.ok ok, s', log') →
        ∃ Ar', s'.segs = Ar' ++ B ∧ s'.eof = s.eof ∧ ok.buf ++ Ar'.flatten = head ++ t := by
  intro fuel
  induction fuel with
  | zero => intro buf s log Ar t _ _ _ _ ok s' log' h; simp [readLoop] at h
  | succ fuel ih =>
    intro buf s log Ar t hsegs hcat hlen hperr ok s' log' h
    unfold readLoop at h
    by_cases hmax : (buf.length == max) = true
    · simp [hmax] at h
    · simp only [hmax, Bool.false_eq_true, if_false] at h
      have hlt : buf.length < max := by
        have : buf.length ≠ max := by simpa using hmax
        omega
      have hAr : Ar.flatten ≠ [] := by
        intro h0
        rw [h0, List.append_nil] at hcat
        rw [hcat, C03_request_accept_stable head t r hp] at hperr
        cases hperr
      obtain ⟨b, Ar', h1, h2, h3⟩ := recvSegs_append s.eof (max - buf.length) (by omega) B Ar hAr
      have hrecv : s.recv (max - buf.length) = .data b ⟨Ar' ++ B, s.eof⟩ := by
        simp only [Sock.recv, hsegs, h1]
      simp only [hrecv] at h
      cases hpb : Request.parse (buf ++ b) with
      | ok r' =>
        simp only [hpb] at h
        injection h with h1' h2'
        injection h2' with h2' _
        injection h1' with h1'
        subst h1'; subst h2'
        exact ⟨Ar', rfl, rfl, by rw [List.append_assoc, h2, hcat]⟩
      | err e =>
        simp only [hpb] at h
        cases e with
        | eof =>
          simp only at h
          obtain ⟨Ar'', g1, g2, g3⟩ := ih (buf ++ b) ⟨Ar' ++ B, s.eof⟩ _ Ar' t rfl
            (by rw [List.append_assoc, h2, hcat]) (by simp; omega) hpb ok s' log' h
          exact ⟨Ar'', g1, g2, g3⟩
        | ver => simp at h
        | status => simp at h
        | header => simp at h
      | panic m => simp [hpb] at h
      | ub m => simp [hpb] at h

/-- reading the head of a request whose bytes `head ++ t` (`t` = its body) end at a segment boundary: the head is
parsed, what has been buffered beyond the head (`leftover`) together with the still pending segments `Ar` of the
request is exactly `t`, and the segments `B` after the request are untouched -/
theorem readRequest_boundary (max : Nat) (s : Sock) (A B : List Bytes) (head t : Bytes) (r : Request)
    (hsegs : s.segs = A ++ B) (hA : A.flatten = head ++ t) (hp : Request.parse head = .ok r)
    (ho : r.off = head.length) (hm : head.length ≤ max) :
    ∃ ok s1 log Ar, readRequest max s = (.ok ok, s1, log) ∧ ok.req = r ∧ s1.segs = Ar ++ B ∧ s1.eof = s.eof ∧
      ok.buf.drop ok.req.off ++ Ar.flatten = t := by
  have hpend : s.pending = head ++ (t ++ B.flatten) := by
    simp only [Sock.pending, hsegs, List.flatten_append, hA, List.append_assoc]
  obtain ⟨ok, s1, log, hread, hreq, _⟩ := C10_within_limit_ok max s head (t ++ B.flatten) r hpend hp ho hm
  obtain ⟨Ar, h1, h2, h3⟩ := readLoop_segs max head r hp B (max + 1) [] s [] A t hsegs (by simpa using hA)
    (Nat.zero_le _) Request.parse_nil ok s1 log hread
  obtain ⟨_, _, _, hparse⟩ := C10_accept_accounting max s ok s1 log hread
  have hoff := Request.parse_off_le hparse
  refine ⟨ok, s1, log, Ar, hread, hreq, h1, h2, ?_⟩
  rw [hreq, ho] at hoff ⊢
  have := congrArg (List.drop head.length) h3
  rw [List.drop_append_of_le_length hoff, List.drop_left' rfl] at this
  exact this

theorem nonEmptySegs_of_flatten_nil (A : List Bytes) (h : A.flatten = []) : nonEmptySegs A = [] := by
  induction A with
  | nil => rfl
  | cons seg A ih =>
    simp only [List.flatten_cons, List.append_eq_nil_iff] at h
    have := ih h.2
    simp only [nonEmptySegs] at this ⊢
    simp [List.filter_cons, h.1, this]

theorem Sock.ofSrc_toSrc (s : Sock) : Sock.ofSrc s.toSrc s.eof = ⟨nonEmptySegs s.segs, s.eof⟩ := by
  have : s.toSrc = Src.mk (nonEmptySegs s.segs).flatten ((nonEmptySegs s.segs).map List.length) false := by
    simp only [Sock.toSrc, Sock.pending, nonEmptySegs_flatten]
    rfl
  rw [this]
  exact Sock.ofSrc_segs _ (nonEmptySegs_ne _) _ _

end Khttp

/-! ## chunked reader: whatever user code does, the whole encoding is consumed and no error is raised -/

namespace Khttp.Body
open Khttp Khttp.Spec.Chunked

/-- `E` = the bytes after the chunked body. From abstract state `s` every run stays inside a valid encoding: `advance`
finds every byte it needs, chunk data is completely available, and at the end the unread content is exactly `E`. -/
inductive GoodC (E : Bytes) : CAbs → Prop where
  | stop {s : CAbs} {r : Nat} : pAdvance 8 s = .ok (false, ⟨.done, r, E⟩) → pAdvanceFed 8 s = true → GoodC E s
  | avail {s s' : CAbs} : pAdvance 8 s = .ok (true, s') → pAdvanceFed 8 s = true → s'.rem ≤ s'.c.length →
      (∀ j, 1 ≤ j → j ≤ s'.rem → GoodC E ⟨s'.st, s'.rem - j, s'.c.drop j⟩) → GoodC E s

theorem GoodC.touch {E : Bytes} {s : CAbs} (h : GoodC E s) : touchC s = false := by
  cases h with
  | stop h1 h2 => simp [touchC, h1, h2]
  | avail h1 h2 h3 _ => simp [touchC, h1, h2]; omega

theorem GoodC.of_advance {E : Bytes} {s s' : CAbs} (h : GoodC E s) (ha : pAdvance 8 s = .ok (true, s')) :
    GoodC E s' := by
  obtain ⟨h1, h2⟩ := pAdvance_true 8 _ _ ha
  cases h with
  | stop g1 _ => rw [ha] at g1; cases g1
  | avail g1 _ g3 g4 =>
    rw [ha] at g1; injection g1 with g1; injection g1 with _ g1; subst g1
    exact .avail (pAdvance_data s' h1 h2) (pAdvanceFed_data s' h1 h2) g3 g4

theorem GoodC.child {E : Bytes} {s s' : CAbs} (h : GoodC E s) (ha : pAdvance 8 s = .ok (true, s')) (j : Nat)
    (hj : j ≤ s'.rem) : GoodC E ⟨s'.st, s'.rem - j, s'.c.drop j⟩ := by
  by_cases h0 : j = 0
  · subst h0; simpa using h.of_advance ha
  · cases h with
    | stop g1 _ => rw [ha] at g1; cases g1
    | avail g1 _ _ g4 =>
      rw [ha] at g1; injection g1 with g1; injection g1 with _ g1; subst g1
      exact g4 j (by omega) hj

theorem ChunkedReader.consume_abs (c : ChunkedReader) (j : Nat) (hj : j ≤ c.inner.buf.length) :
    (c.consume j).abs = ⟨c.state, c.rem - j, c.inner.content.drop j⟩ := by
  simp only [ChunkedReader.abs, ChunkedReader.consume]
  rw [BufReader.consume_content _ _ hj]

/-- invariant of a chunked `BodyReader` under user operations -/
def CInv (E : Bytes) (b : BodyReader) (k : Nat) : Prop :=
  ∃ c, b.enc = .chunked c ∧ b.fail = false ∧ c.starved = false ∧ k ≤ c.inner.buf.length ∧
    (k ≠ 0 → c.state = .data ∧ k ≤ c.rem) ∧
    (∀ j, j ≤ k → GoodC E ⟨c.state, c.rem - j, c.inner.content.drop j⟩)

theorem CInv.good {E : Bytes} {b : BodyReader} {k : Nat} (h : CInv E b k) :
    ∃ c, b.enc = .chunked c ∧ b.fail = false ∧ c.starved = false ∧ GoodC E c.abs := by
  obtain ⟨c, he, hf, hs, _, _, hg⟩ := h
  exact ⟨c, he, hf, hs, by simpa [ChunkedReader.abs] using hg 0 (Nat.zero_le _)⟩

theorem cinv_read {E : Bytes} {c : ChunkedReader} (hs : c.starved = false) (hg : GoodC E c.abs) (n : Nat)
    (hn : 1 ≤ n) :
    ∃ out c1, c.read n = (.ok out, c1) ∧ c1.starved = false ∧ GoodC E c1.abs ∧
      (out = [] → ∃ r, c1.abs = ⟨.done, r, E⟩) ∧ (out ≠ [] → c1.abs.c.length < c.abs.c.length) := by
  have hst := chunked_read_starved c n hg.touch
  have hr := chunked_read c n hn
  cases hg with
  | stop g1 g2 =>
    rename_i r
    simp only [g1] at hr
    obtain ⟨c1, e1, a1⟩ := hr
    rw [e1] at hst
    refine ⟨[], c1, e1, by rw [hst]; exact hs, ?_, fun _ => ⟨r, a1⟩, fun h => absurd rfl h⟩
    rw [a1]
    exact .stop (r := r) (by simp [pAdvance]) (by simp [pAdvanceFed])
  | avail g1 g2 g3 g4 =>
    rename_i s'
    simp only [g1] at hr
    rcases hr with ⟨out, c1, e1, h1, h2, h3, h4, h5⟩ | ⟨hshort, _⟩
    · rw [e1] at hst
      have hl := pAdvance_length 8 _ _ _ g1
      refine ⟨out, c1, e1, by rw [hst]; exact hs, ?_, fun h => absurd h h1, fun _ => ?_⟩
      · rw [h5]; exact g4 _ (List.length_pos_iff.mpr h1) h2
      · rw [h5]
        have : 0 < out.length := List.length_pos_iff.mpr h1
        simp only [List.length_drop]; omega
    · omega

theorem cinv_ops (E : Bytes) (ops : List BodyOp) : ∀ (b : BodyReader) (k : Nat), CInv E b k → OpsOkFrom b k ops →
    ∃ k', CInv E (applyBodyOps b ops) k' := by
  induction ops with
  | nil => intro b k h _; exact ⟨k, h⟩
  | cons op ops ih =>
    intro b k hinv hok
    obtain ⟨c, he, hf, hs, hkb, hkd, hg⟩ := hinv
    obtain ⟨enc, fl⟩ := b
    simp only at he hf; subst he; subst hf
    have hg0 : GoodC E c.abs := by simpa [ChunkedReader.abs] using hg 0 (Nat.zero_le _)
    simp only [applyBodyOps, List.foldl_cons]
    cases op with
    | read n =>
      obtain ⟨hn, hok'⟩ := hok
      obtain ⟨out, c1, e1, s1, g1, _, _⟩ := cinv_read hs hg0 n hn
      have hb1 : (BodyReader.read ⟨.chunked c, false⟩ n).2 = ⟨.chunked c1, false⟩ := by
        simp [BodyReader.read, e1, BodyReader.note]
      simp only [applyBodyOp]
      rw [hb1] at hok' ⊢
      refine ih _ 0 ⟨c1, rfl, rfl, s1, Nat.zero_le _, fun h => absurd rfl h, ?_⟩ hok'
      intro j hj
      have : j = 0 := by omega
      subst this; simpa [ChunkedReader.abs] using g1
    | fillBuf =>
      have hst := chunked_fillBuf_starved c hg0.touch
      have hfb := chunked_fillBuf c
      cases hg0 with
      | stop g1 g2 =>
        rename_i r
        simp only [g1] at hfb
        obtain ⟨c1, e1, a1⟩ := hfb
        rw [e1] at hst
        have hb1 : (BodyReader.fillBuf ⟨.chunked c, false⟩) = (.ok [], ⟨.chunked c1, false⟩) := by
          simp [BodyReader.fillBuf, e1, BodyReader.note]
        simp only [OpsOkFrom, hb1] at hok
        simp only [applyBodyOp, hb1]
        refine ih _ 0 ⟨c1, rfl, rfl, by rw [hst]; exact hs, Nat.zero_le _, fun h => absurd rfl h, ?_⟩ hok
        intro j hj
        have : j = 0 := by omega
        subst this
        have : GoodC E c1.abs := by rw [a1]; exact .stop (r := r) (by simp [pAdvance]) (by simp [pAdvanceFed])
        simpa [ChunkedReader.abs] using this
      | avail g1 g2 g3 g4 =>
        rename_i s'
        obtain ⟨h1, h2⟩ := pAdvance_true 8 _ _ g1
        have hcne : s'.c ≠ [] := by
          intro h0; rw [h0] at g3; simp at g3; exact h2 g3
        simp only [g1, hcne, if_false] at hfb
        obtain ⟨av, c1, e1, a1, a2, a3, a4, a5⟩ := hfb
        rw [e1] at hst
        have hb1 : (BodyReader.fillBuf ⟨.chunked c, false⟩) = (.ok av, ⟨.chunked c1, false⟩) := by
          simp [BodyReader.fillBuf, e1, BodyReader.note]
        simp only [OpsOkFrom, hb1] at hok
        simp only [applyBodyOp, hb1]
        obtain ⟨b1, b2, b3⟩ := ChunkedReader.abs_data a5
        refine ih _ av.length ⟨c1, rfl, rfl, by rw [hst]; exact hs, a4, fun _ => ⟨by rw [b1, h1], by rw [b2]; exact a2⟩,
          ?_⟩ hok
        intro j hj
        rw [b1, b2, b3]
        exact (GoodC.avail g1 g2 g3 g4).child g1 j (by omega)
    | consume amt =>
      obtain ⟨ha, hok'⟩ := hok
      simp only [applyBodyOp]
      have hb1 : BodyReader.consume ⟨.chunked c, false⟩ amt = ⟨.chunked (c.consume amt), false⟩ := rfl
      rw [hb1] at hok' ⊢
      refine ih _ (k - amt) ⟨c.consume amt, rfl, rfl, hs, ?_, ?_, ?_⟩ hok'
      · simp only [ChunkedReader.consume, BufReader.consume, List.length_drop]; omega
      · intro hk0
        obtain ⟨d1, d2⟩ := hkd (by omega)
        exact ⟨d1, by simp only [ChunkedReader.consume]; omega⟩
      · intro j hj
        have := hg (amt + j) (by omega)
        simp only [ChunkedReader.consume]
        rw [BufReader.consume_content _ _ (by omega), List.drop_drop, Nat.sub_sub]
        exact this

theorem cinv_drainLoop (E : Bytes) (fuel : Nat) : ∀ (b : BodyReader) (k : Nat), CInv E b k →
    (∀ c, b.enc = .chunked c → c.inner.content.length < fuel) →
    ∃ c r, (BodyReader.drainLoop fuel b).enc = .chunked c ∧ (BodyReader.drainLoop fuel b).fail = false ∧
      c.starved = false ∧ c.abs = ⟨.done, r, E⟩ := by
  induction fuel with
  | zero =>
    intro b k h hlt
    obtain ⟨c, he, _⟩ := h.good
    exact absurd (hlt c he) (by omega)
  | succ fuel ih =>
    intro b k h hlt
    obtain ⟨c, he, hf, hs, hg⟩ := h.good
    obtain ⟨enc, fl⟩ := b
    simp only at he hf; subst he; subst hf
    obtain ⟨out, c1, e1, s1, g1, d1, d2⟩ := cinv_read hs hg 1024 (by decide)
    have hb1 : (BodyReader.read ⟨.chunked c, false⟩ 1024) = (.ok out, ⟨.chunked c1, false⟩) := by
      simp [BodyReader.read, e1, BodyReader.note]
    unfold BodyReader.drainLoop
    rw [hb1]
    simp only
    by_cases ho : out.length = 0
    · rw [if_pos ho]
      obtain ⟨r, hr⟩ := d1 (List.length_eq_zero_iff.mp ho)
      exact ⟨c1, r, rfl, rfl, s1, hr⟩
    · rw [if_neg ho]
      have hne : out ≠ [] := by intro h0; simp [h0] at ho
      apply ih _ 0 ⟨c1, rfl, rfl, s1, Nat.zero_le _, fun h => absurd rfl h, ?_⟩
      · intro c' hc'
        simp only at hc'; injection hc' with hc'; subst hc'
        have := hlt c rfl
        have := d2 hne
        simp only [ChunkedReader.abs] at this
        omega
      · intro j hj
        have : j = 0 := by omega
        subst this; simpa [ChunkedReader.abs] using g1

/-! ### valid encodings are `GoodC` -/

theorem goodC_data (E : Bytes) (rem : Nat) : ∀ (d rest : Bytes), d.length = rem → GoodC E ⟨.data, 0, rest⟩ →
    GoodC E ⟨.data, rem, d ++ rest⟩ := by
  induction rem using Nat.strongRecOn with
  | _ rem ih =>
    intro d rest hl hg
    by_cases hr : rem = 0
    · subst hr
      have : d = [] := List.length_eq_zero_iff.mp hl
      subst this; exact hg
    · refine .avail (pAdvance_data ⟨.data, rem, d ++ rest⟩ rfl hr) (pAdvanceFed_data ⟨.data, rem, d ++ rest⟩ rfl hr)
        (by simp; omega) ?_
      intro j h1 h2
      simp only at h2 ⊢
      have hjd : j ≤ d.length := by omega
      rw [List.drop_append_of_le_length hjd]
      exact ih (rem - j) (by omega) (d.drop j) rest (by simp; omega) hg

theorem goodC_of_advance (E : Bytes) {s s' : CAbs} (h : pAdvance 8 s = .ok (true, s')) (hfed : pAdvanceFed 8 s = true)
    (hg : GoodC E s') : GoodC E s := by
  obtain ⟨h1, h2⟩ := pAdvance_true 8 _ _ h
  cases hg with
  | stop g1 _ => rw [pAdvance_data s' h1 h2] at g1; cases g1
  | avail g1 _ g3 g4 =>
    rw [pAdvance_data s' h1 h2] at g1; injection g1 with g1; injection g1 with _ g1; subst g1
    exact .avail h hfed g3 g4

theorem goodC_chunks (E : Bytes) (cs : List Chunk) : ∀ (s : CAbs) (X : Bytes), (∀ c ∈ cs, ChunkOk c) →
    Entry s (encodeChunks cs ++ X) → (∀ s', Entry s' X → GoodC E s') → GoodC E s := by
  induction cs with
  | nil => intro s X _ he hX; exact hX s (by simpa [encodeChunks] using he)
  | cons c cs ih =>
    intro s X hok he hX
    have e : encodeChunks (c :: cs) ++ X = encodeChunk c ++ (encodeChunks cs ++ X) := by simp [encodeChunks]
    rw [e] at he
    obtain ⟨f, r, ha, hf⟩ := entry_advanceFed he
    have hc := hok c (by simp)
    rw [pAdvance_size_chunk (f + 2) r c _ hc] at ha
    have hfed : pAdvanceFed 8 s = true := by
      rw [hf]
      obtain ⟨⟨hd, hn, hext⟩, hl⟩ := hc
      have hlen : c.data.length ≠ 0 := by intro h; exact hd (List.length_eq_zero_iff.mp h)
      have e2 : encodeChunk c ++ (encodeChunks cs ++ X) = sizeLine c.size c.ext ++ (c.data ++ [CR, LF] ++ (encodeChunks cs ++ X)) := by
        simp [encodeChunk, Spec.Chunked.CRLF]
      rw [e2]
      exact pAdvanceFed_size_line (f + 2) r _ hn hl hext hlen
    apply goodC_of_advance E ha hfed
    rw [List.append_assoc]
    apply goodC_data E _ _ _ rfl
    exact ih ⟨.data, 0, [CR, LF] ++ (encodeChunks cs ++ X)⟩ X (fun c' hc' => hok c' (by simp [hc']))
      (Or.inr ⟨rfl, rfl, rfl⟩) hX

theorem goodC_exact {cs : List Chunk} {ls : Bytes} {le : Option Bytes} {ts : List Bytes} (extra : Bytes)
    (hv : Valid cs ls le ts) (hsz : ∀ c ∈ cs, c.data.length < usizeLimit) {s : CAbs}
    (he : Entry s (encode cs ls le ts ++ extra)) : GoodC extra s := by
  have e : encode cs ls le ts ++ extra = encodeChunks cs ++ (encodeEnd ls le ts ++ extra) := by simp [encode]
  rw [e] at he
  apply goodC_chunks extra cs s _ (fun c hc => ⟨hv.chunks c hc, hsz c hc⟩) he
  intro s' he'
  obtain ⟨f, r, ha, hf⟩ := entry_advanceFed he'
  rw [pAdvance_size_end (f + 1) r ls le ts extra hv.last hv.lastExt hv.trailers] at ha
  exact .stop ha (by rw [hf]; exact pAdvanceFed_size_end (f + 1) r ls le ts extra hv.last hv.lastExt hv.trailers)

/-- **Chunked reader, arbitrary user code.** Reader on `leftover`, `src` with
`leftover ++ src.data = encoding ++ extra` for a valid chunked encoding: whatever contract-respecting operations user
code performs, after the drop-drain the failure flag is clear, the raw stream was never read at its end, and AT LEAST
the encoding has been consumed: the unread bytes — those still in the reader's internal buffer `buf`, the rest of
the leftover and the rest of the stream — are exactly `extra`. The bytes in `buf` are lost with the reader (read-ahead):
the stream itself holds only a SUFFIX of `extra`. -/
theorem chunked_ops_drain (cs : List Chunk) (ls : Bytes) (le : Option Bytes) (ts : List Bytes)
    (hv : Valid cs ls le ts) (hsz : ∀ c ∈ cs, c.data.length < usizeLimit) (extra lo : Bytes) (src : Src)
    (hst : src.starved = false) (hsplit : lo ++ src.data = encode cs ls le ts ++ extra) (ops : List BodyOp)
    (hok : OpsOk (BodyReader.newChunked lo src) ops) :
    let fin := (applyBodyOps (BodyReader.newChunked lo src) ops).drain
    fin.fail = false ∧ fin.src.starved = false ∧
    ∃ c, fin.enc = .chunked c ∧ c.inner.buf ++ c.inner.inner.lo ++ fin.src.data = extra := by
  intro fin
  have h0 : CInv extra (BodyReader.newChunked lo src) 0 := by
    refine ⟨ChunkedReader.new lo src, rfl, rfl, hst, Nat.zero_le _, fun h => absurd rfl h, ?_⟩
    intro j hj
    have : j = 0 := by omega
    subst this
    have : (ChunkedReader.new lo src).inner.content = encode cs ls le ts ++ extra := by
      simp [ChunkedReader.new, BufReader.new, BufReader.content, LawfulRaw.content, Swl.content, hsplit]
    simp only [Nat.sub_zero, List.drop_zero, this]
    exact goodC_exact extra hv hsz (Or.inl ⟨rfl, rfl⟩)
  obtain ⟨k', hg⟩ := cinv_ops extra ops _ 0 h0 hok
  obtain ⟨c0, he0, _, _, _⟩ := hg.good
  have hdr : fin = BodyReader.drainLoop ((applyBodyOps (BodyReader.newChunked lo src) ops).bound + 2)
      (applyBodyOps (BodyReader.newChunked lo src) ops) := by
    simp only [fin, BodyReader.drain, he0]
  obtain ⟨c, r, he, hf, hs, ha⟩ := cinv_drainLoop extra
    ((applyBodyOps (BodyReader.newChunked lo src) ops).bound + 2) _ k' hg (by
      intro c' hc'
      rw [he0] at hc'; injection hc' with hc'; subst hc'
      have : c0.inner.content.length ≤ (applyBodyOps (BodyReader.newChunked lo src) ops).bound := by
        simp only [BodyReader.bound, he0]; exact BufReader.content_length_le c0.inner
      omega)
  rw [← hdr] at he hf
  have hsrc : fin.src = c.inner.inner.src := by simp only [BodyReader.src, he]
  refine ⟨hf, by rw [hsrc]; exact hs, c, he, ?_⟩
  have := (ChunkedReader.abs_data ha).2.2
  rw [hsrc]
  simpa [BufReader.content, LawfulRaw.content, Swl.content, List.append_assoc] using this

/-- … and EXACTLY the encoding when nothing follows it at that time (`extra = []`: the client sends the next request
only after the response): the stream is then completely consumed. -/
theorem chunked_ops_drain_exact (cs : List Chunk) (ls : Bytes) (le : Option Bytes) (ts : List Bytes)
    (hv : Valid cs ls le ts) (hsz : ∀ c ∈ cs, c.data.length < usizeLimit) (lo : Bytes) (src : Src)
    (hst : src.starved = false) (hsplit : lo ++ src.data = encode cs ls le ts) (ops : List BodyOp)
    (hok : OpsOk (BodyReader.newChunked lo src) ops) :
    let fin := (applyBodyOps (BodyReader.newChunked lo src) ops).drain
    fin.fail = false ∧ fin.src.starved = false ∧ fin.src.data = [] := by
  intro fin
  obtain ⟨h1, h2, c, _, h3⟩ := chunked_ops_drain cs ls le ts hv hsz [] lo src hst (by simpa using hsplit) ops hok
  exact ⟨h1, h2, (List.append_eq_nil_iff.mp h3).2⟩

end Khttp.Body

/-! ## `handleOne` unfolded; the assumptions on user code -/

namespace Khttp
open Khttp.Body Khttp.Router

/-- the handler uses the body reader only through its interface, within the `BufRead` contract -/
def HandlerOk (h : Handler) : Prop :=
  ∀ req ps b, ∃ ops, OpsOk b ops ∧ (h req ps b).body = applyBodyOps b ops

def CfgOk (cfg : Cfg) : Prop := (∀ i, HandlerOk (cfg.handler i)) ∧ HandlerOk cfg.fallback

/-- the handler selected for a request, and the route parameters (as in `handleOne`) -/
def Cfg.dispatch (cfg : Cfg) (req : Request) : Handler × Params :=
  let path := match req.uri.path with
    | .ok p => p
    | _ => []
  let m := (build cfg.routes).matchRoute req.method path
  (match m.1 with
   | some i => cfg.handler i
   | none => cfg.fallback, m.2)

theorem CfgOk.dispatch {cfg : Cfg} (h : CfgOk cfg) (req : Request) : HandlerOk (cfg.dispatch req).1 := by
  unfold Cfg.dispatch
  simp only
  split
  · exact h.1 _
  · exact h.2

/-- `handleOne` once the head has been read and the hook (if any) lets the request through -/
theorem handleOne_proceed (cfg : Cfg) (s : Sock) (ok : ReadOk) (s1 : Sock) (log : RecvLog)
    (hread : readRequest cfg.max s = (.ok ok, s1, log)) (hhook : ∀ h, cfg.hook = some h → h ok.req = .proceed) :
    let d := cfg.dispatch ok.req
    let out := d.1 ok.req d.2
      (BodyReader.fromRequest (ok.buf.drop ok.req.off) s1.toSrc ok.req.headers.chunked ok.req.headers.cl)
    let b := out.body.drain
    let o := handleOne cfg s
    o.resps = out.resps ∧ o.parsed = true ∧ o.failed = !out.ok ∧ o.sock = Sock.ofSrc b.src s1.eof ∧
    o.hang = starvedHang b s1.eof ∧
    o.keep = (out.ok && !(ok.req.headers.close || b.fail) && !(out.resps.any (·.close))) := by
  intro d out b o
  have ho : o = handleOne cfg s := rfl
  unfold handleOne at ho
  rw [hread] at ho
  simp only at ho
  have ho' : o = (
      if !out.ok then (⟨out.resps, false, Sock.ofSrc b.src s1.eof, starvedHang b s1.eof,
        log.foldl (fun a e => Nat.max a e.2) 0, true, true⟩ : OneOut)
      else ⟨out.resps, !(ok.req.headers.close || b.fail) && !(out.resps.any (·.close)), Sock.ofSrc b.src s1.eof,
        starvedHang b s1.eof, log.foldl (fun a e => Nat.max a e.2) 0, true, false⟩) := by
    cases hc : cfg.hook with
    | none => rw [hc] at ho; exact ho
    | some h => rw [hc] at ho; simp only [hhook h hc] at ho; exact ho
  clear ho
  by_cases hok : out.ok = true
  · rw [ho']; simp [hok]
  · have hok0 : out.ok = false := by simpa using hok
    rw [ho']; simp [hok0]

/-- `handleOne` once the head has been read and the hook answers in place of a handler (`Drop`) -/
theorem handleOne_drop (cfg : Cfg) (s : Sock) (ok : ReadOk) (s1 : Sock) (log : RecvLog) (h : Request → HookOut)
    (resp : Option Resp) (hread : readRequest cfg.max s = (.ok ok, s1, log)) (hh : cfg.hook = some h)
    (hd : h ok.req = .drop resp) :
    let b := (BodyReader.fromRequest (ok.buf.drop ok.req.off) s1.toSrc ok.req.headers.chunked ok.req.headers.cl).drain
    let o := handleOne cfg s
    o.resps = resp.toList ∧ o.parsed = true ∧ o.failed = false ∧
    (if ok.req.headers.close || resp.toList.any (·.close) then o.keep = false ∧ o.sock = s1 ∧ o.hang = false
     else o.keep = !b.fail ∧ o.sock = Sock.ofSrc b.src s1.eof ∧ o.hang = starvedHang b s1.eof) := by
  intro b o
  have ho : o = handleOne cfg s := rfl
  unfold handleOne at ho
  rw [hread] at ho
  simp only [hh, hd] at ho
  by_cases hc : (ok.req.headers.close || resp.toList.any (·.close)) = true
  · simp only [Bool.not_not] at ho
    rw [if_pos hc] at ho ⊢
    rw [ho]; exact ⟨rfl, rfl, rfl, rfl, rfl, rfl⟩
  · simp only [Bool.not_not] at ho
    rw [if_neg hc] at ho ⊢
    rw [ho]; exact ⟨rfl, rfl, rfl, rfl, rfl, rfl⟩

/-- the facts about a parsed head that the theorems above use (for the concrete instances) -/
def headView (x : Res Request) : Option (Nat × Bool × Option Nat × Bool) :=
  match x with
  | .ok r => some (r.off, r.headers.chunked, r.headers.cl, r.headers.close)
  | _ => none

theorem headView_some {x : Res Request} {v : Nat × Bool × Option Nat × Bool} (h : headView x = some v) :
    ∃ r, x = .ok r ∧ r.off = v.1 ∧ r.headers.chunked = v.2.1 ∧ r.headers.cl = v.2.2.1 ∧ r.headers.close = v.2.2.2 := by
  cases x with
  | ok r => simp only [headView, Option.some.injEq] at h; subst h; exact ⟨r, rfl, rfl, rfl, rfl, rfl⟩
  | err e => simp [headView] at h
  | panic m => simp [headView] at h
  | ub m => simp [headView] at h

end Khttp
