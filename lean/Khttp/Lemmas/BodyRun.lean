/-
  Abstract semantics of the body readers (`AbsB`, `nextB`, `Delivers`) and the proof that the two runners
  (`Read` caller, `BufRead` caller) realise it for every leftover/stream split, every stream segmentation and every
  caller schedule.
-/
import Khttp.Lemmas.BodyAbs
namespace Khttp.Body
open Khttp

/-! ## `ChunkedReader::read` / `fill_buf` / `consume` on abstract states -/

theorem readLoop_data (fuel : Nat) : ∀ (c : ChunkedReader) (n : Nat) (acc : Bytes),
    c.state = .data → c.rem ≠ 0 → 1 ≤ n → n < fuel →
    (∃ out c1, ChunkedReader.readLoop fuel c n acc = (.ok (acc ++ out), c1) ∧ out ≠ [] ∧ out.length ≤ c.rem ∧
        out.length ≤ n ∧ out = c.inner.content.take out.length ∧
        c1.abs = ⟨.data, c.rem - out.length, c.inner.content.drop out.length⟩) ∨
    (c.inner.content.length < c.rem ∧ ∃ c1, ChunkedReader.readLoop fuel c n acc = (.err .unexpectedEof, c1)) := by
  induction fuel with
  | zero => intro c n acc _ _ _ h; omega
  | succ fuel ih =>
    intro c n acc hs hr hn hf
    unfold ChunkedReader.readLoop
    rw [advance_data c hs hr]
    have hn0 : n ≠ 0 := by omega
    simp only [hn0, if_false]
    obtain ⟨out, b1, he, hc, hle, hpr⟩ := BufReader.read_spec c.inner (min c.rem n)
    simp only [he]
    by_cases hol : out.length = 0
    · right
      have ho : out = [] := List.length_eq_zero_iff.mp hol
      have hc0 : c.inner.content = [] := by
        by_cases h0 : c.inner.content = []
        · exact h0
        · exact absurd ho (hpr (by omega) h0)
      simp only [hol, if_true]
      exact ⟨by rw [hc0]; simp; omega, _, rfl⟩
    · simp only [hol, if_false]
      have htake : out = c.inner.content.take out.length := by rw [← hc]; simp
      have hdrop : b1.content = c.inner.content.drop out.length := by rw [← hc]; simp
      have hone : out ≠ [] := by intro h; simp [h] at hol
      by_cases hex : (c.rem - out.length = 0 || n - out.length = 0) = true
      · left
        simp only [hex, if_true]
        refine ⟨out, _, rfl, hone, by omega, by omega, htake, ?_⟩
        simp [ChunkedReader.abs, hs, hdrop]
      · simp only [hex, Bool.false_eq_true, if_false]
        have hex' : c.rem - out.length ≠ 0 ∧ n - out.length ≠ 0 := by simpa using hex
        rcases ih { c with inner := b1, rem := c.rem - out.length } (n - out.length) (acc ++ out)
          hs hex'.1 (by omega) (by omega) with ⟨out', c1, e1, h1, h2, h3, h4, h5⟩ | ⟨h1, c1, e1⟩
        · left
          simp only [] at h2 h4 h5
          refine ⟨out ++ out', c1, by rw [e1, List.append_assoc], by simp [hone], by simp; omega, by simp; omega, ?_, ?_⟩
          · rw [← hc, List.length_append, List.take_append, List.take_of_length_le (by omega)]
            rw [Nat.add_sub_cancel_left, ← h4]
          · rw [h5, hdrop]; simp [List.length_append, Nat.sub_sub, Nat.add_comm]
        · right
          simp only [] at h1
          refine ⟨?_, c1, e1⟩
          have : c.inner.content.length = out.length + b1.content.length := by rw [← hc]; simp
          omega

theorem ChunkedReader.abs_data {c : ChunkedReader} {s : CAbs} (h : c.abs = s) :
    c.state = s.st ∧ c.rem = s.rem ∧ c.inner.content = s.c := by
  subst h; exact ⟨rfl, rfl, rfl⟩

theorem chunked_read (c : ChunkedReader) (n : Nat) (hn : 1 ≤ n) :
    match pAdvance 8 c.abs with
    | .err e => ∃ c1, c.read n = (.err e, c1)
    | .ok (false, s) => ∃ c1, c.read n = (.ok [], c1) ∧ c1.abs = s
    | .ok (true, s) =>
      (∃ out c1, c.read n = (.ok out, c1) ∧ out ≠ [] ∧ out.length ≤ s.rem ∧ out.length ≤ n ∧
          out = s.c.take out.length ∧ c1.abs = ⟨s.st, s.rem - out.length, s.c.drop out.length⟩) ∨
      (s.c.length < s.rem ∧ ∃ c1, c.read n = (.err .unexpectedEof, c1)) := by
  have ha := advance_sim c
  cases hp : pAdvance 8 c.abs with
  | err e =>
    simp only [hp] at ha ⊢
    obtain ⟨c1, e1⟩ := ha
    refine ⟨c1, ?_⟩
    simp [ChunkedReader.read, ChunkedReader.readLoop, e1]
  | ok p =>
    obtain ⟨b, s⟩ := p
    simp only [hp] at ha
    obtain ⟨c1, e1, a1⟩ := ha
    cases b with
    | false =>
      simp only []
      refine ⟨c1, ?_, a1⟩
      simp [ChunkedReader.read, ChunkedReader.readLoop, e1]
    | true =>
      simp only []
      obtain ⟨hst, hrem⟩ := pAdvance_true 8 _ _ hp
      obtain ⟨h1, h2, h3⟩ := ChunkedReader.abs_data a1
      have heq : c.read n = ChunkedReader.readLoop (n + 1) c1 n [] := by
        simp only [ChunkedReader.read]
        conv => lhs; unfold ChunkedReader.readLoop
        conv => rhs; unfold ChunkedReader.readLoop
        rw [e1, advance_data c1 (by rw [h1, hst]) (by rw [h2]; exact hrem)]
      rw [heq]
      have := readLoop_data (n + 1) c1 n [] (by rw [h1, hst]) (by rw [h2]; exact hrem) hn (by omega)
      rw [h2, h3] at this
      simpa [hst] using this

theorem chunked_fillBuf (c : ChunkedReader) :
    match pAdvance 8 c.abs with
    | .err e => ∃ c1, c.fillBuf = (.err e, c1)
    | .ok (false, s) => ∃ c1, c.fillBuf = (.ok [], c1) ∧ c1.abs = s
    | .ok (true, s) =>
      if s.c = [] then ∃ c1, c.fillBuf = (.err .unexpectedEof, c1)
      else ∃ av c1, c.fillBuf = (.ok av, c1) ∧ av ≠ [] ∧ av.length ≤ s.rem ∧ av = s.c.take av.length ∧
        av.length ≤ c1.inner.buf.length ∧ c1.abs = s := by
  have ha := advance_sim c
  cases hp : pAdvance 8 c.abs with
  | err e =>
    simp only [hp] at ha ⊢
    obtain ⟨c1, e1⟩ := ha
    exact ⟨c1, by simp [ChunkedReader.fillBuf, e1]⟩
  | ok p =>
    obtain ⟨b, s⟩ := p
    simp only [hp] at ha
    obtain ⟨c1, e1, a1⟩ := ha
    cases b with
    | false =>
      simp only []
      exact ⟨c1, by simp [ChunkedReader.fillBuf, e1], a1⟩
    | true =>
      simp only []
      obtain ⟨hst, hrem⟩ := pAdvance_true 8 _ _ hp
      obtain ⟨h1, h2, h3⟩ := ChunkedReader.abs_data a1
      obtain ⟨av, b1, he, hbuf, hcont, hne⟩ := BufReader.fillBuf_spec c1.inner
      have hav : b1.content = av ++ LawfulRaw.content b1.inner := by simp [BufReader.content, hbuf]
      by_cases hc : s.c = []
      · simp only [hc, if_true]
        have : av = [] := by
          have : b1.content = [] := by rw [hcont, h3, hc]
          rw [hav] at this; exact (List.append_eq_nil_iff.mp this).1
        refine ⟨{ c1 with inner := b1 }, ?_⟩
        simp only [ChunkedReader.fillBuf, e1, he, this]; rfl
      · simp only [hc, if_false]
        have hane : av ≠ [] := hne (by rw [h3]; exact hc)
        have hal : 0 < av.length := List.length_pos_iff.mpr hane
        have hrp : 0 < s.rem := by omega
        refine ⟨av.take (min av.length s.rem), { c1 with inner := b1 }, ?_, ?_, ?_, ?_, ?_, ?_⟩
        · have : av.isEmpty = false := by cases av <;> simp_all
          simp only [ChunkedReader.fillBuf, e1, he, this, h2]; rfl
        · intro h0; have := congrArg List.length h0
          simp only [List.length_take, List.length_nil] at this; omega
        · simp only [List.length_take]; omega
        · rw [← h3, ← hcont, hav]
          simp only [List.length_take, List.take_append]
          have e1 : min (min av.length s.rem) av.length = min av.length s.rem := by omega
          have e2 : min av.length s.rem - av.length = 0 := by omega
          rw [e1, e2]; simp
        · simp only [List.length_take, hbuf]; omega
        · simp [ChunkedReader.abs, h1, h2, hcont, h3]

/-! ## `FixedReader` on abstract states (`remaining`, content of the buffered `Take`) -/

theorem fixed_read (f : FixedReader) (n : Nat) (hn : 1 ≤ n) :
    if f.remaining = 0 then f.read n = (.ok [], f)
    else if f.inner.content = [] then ∃ f1, f.read n = (.err .unexpectedEof, f1)
    else ∃ out f1, f.read n = (.ok out, f1) ∧ out ≠ [] ∧ out.length ≤ f.remaining ∧ out.length ≤ n ∧
      out = f.inner.content.take out.length ∧ f1.remaining = f.remaining - out.length ∧
      f1.inner.content = f.inner.content.drop out.length := by
  unfold FixedReader.read
  by_cases hr : f.remaining = 0
  · simp [hr]
  · simp only [hr, if_false]
    obtain ⟨out, b1, he, hc, hle, hpr⟩ := BufReader.read_spec f.inner (min f.remaining n)
    simp only [he]
    by_cases h0 : f.inner.content = []
    · simp only [h0, if_true]
      have : out = [] := by rw [h0] at hc; exact (List.append_eq_nil_iff.mp hc).1
      simp only [this, List.length_nil, if_true]; exact ⟨_, rfl⟩
    · simp only [h0, if_false]
      have hone : out ≠ [] := hpr (by omega) h0
      have hol : out.length ≠ 0 := by intro h; exact hone (List.length_eq_zero_iff.mp h)
      simp only [hol, if_false]
      refine ⟨out, _, rfl, hone, by omega, by omega, ?_, rfl, ?_⟩
      · rw [← hc]; simp
      · rw [← hc]; simp

theorem fixed_fillBuf (f : FixedReader) :
    if f.remaining = 0 then f.fillBuf = (.ok [], f)
    else if f.inner.content = [] then ∃ f1, f.fillBuf = (.err .unexpectedEof, f1)
    else ∃ av f1, f.fillBuf = (.ok av, f1) ∧ av ≠ [] ∧ av.length ≤ f.remaining ∧
      av = f.inner.content.take av.length ∧ av.length ≤ f1.inner.buf.length ∧ f1.remaining = f.remaining ∧
      f1.inner.content = f.inner.content := by
  unfold FixedReader.fillBuf
  by_cases hr : f.remaining = 0
  · simp [hr]
  · simp only [hr, if_false]
    obtain ⟨av, b1, he, hbuf, hcont, hne⟩ := BufReader.fillBuf_spec f.inner
    have hav : b1.content = av ++ LawfulRaw.content b1.inner := by simp [BufReader.content, hbuf]
    simp only [he]
    by_cases h0 : f.inner.content = []
    · simp only [h0, if_true]
      have : av = [] := by
        have : b1.content = [] := by rw [hcont, h0]
        rw [hav] at this; exact (List.append_eq_nil_iff.mp this).1
      simp only [this, List.isEmpty_nil, if_true]; exact ⟨_, rfl⟩
    · simp only [h0, if_false]
      have hane : av ≠ [] := hne h0
      have hal : 0 < av.length := List.length_pos_iff.mpr hane
      have : av.isEmpty = false := by cases av <;> simp_all
      simp only [this, Bool.false_eq_true, if_false]
      refine ⟨_, _, rfl, ?_, ?_, ?_, ?_, rfl, hcont⟩
      · intro h0; have := congrArg List.length h0
        simp only [List.length_take, List.length_nil] at this; omega
      · simp only [List.length_take]; omega
      · rw [← hcont, hav]
        simp only [List.length_take, List.take_append]
        have e1 : min (min av.length f.remaining) av.length = min av.length f.remaining := by omega
        have e2 : min av.length f.remaining - av.length = 0 := by omega
        rw [e1, e2]; simp
      · simp only [List.length_take, hbuf]; omega

/-! ## abstract states of `BodyReader` and what they deliver -/

inductive AbsB where
  | fixed (rem : Nat) (c : Bytes)
  | chunked (s : CAbs)
  | eof (c : Bytes)
  | empty

def BodyReader.abs (r : BodyReader) : AbsB :=
  match r.enc with
  | .fixed f => .fixed f.remaining f.inner.content
  | .chunked c => .chunked c.abs
  | .eof b => .eof b.content
  | .empty _ => .empty

/-- what the next `read` / `fill_buf` will do: stop with an outcome, or deliver a non-empty prefix of `d`
(`after j` = state after `j` bytes were taken). `short`: the current chunk is cut off by the end of the input;
only then may a `read` fail although data is available. -/
inductive Next where
  | stop (o : Outcome)
  | avail (d : Bytes) (short : Bool) (after : Nat → AbsB)

def nextB : AbsB → Next
  | .fixed rem c =>
    if rem = 0 then .stop .eof
    else if c = [] then .stop (.err .unexpectedEof)
    else .avail (c.take rem) false (fun j => .fixed (rem - j) (c.drop j))
  | .chunked s =>
    match pAdvance 8 s with
    | .err e => .stop (.err e)
    | .ok (false, _) => .stop .eof
    | .ok (true, s') =>
      if s'.c = [] then .stop (.err .unexpectedEof)
      else .avail (s'.c.take s'.rem) (decide (s'.c.length < s'.rem))
        (fun j => .chunked ⟨s'.st, s'.rem - j, s'.c.drop j⟩)
  | .eof c => if c = [] then .stop .eof else .avail c false (fun j => .eof (c.drop j))
  | .empty => .stop .eof

/-- `Delivers s p o`: from abstract state `s` a caller may receive in total the bytes `p` and then the outcome `o` -/
inductive Delivers : AbsB → Bytes → Outcome → Prop where
  | stop {s o} : nextB s = .stop o → Delivers s [] o
  | lost {s d after} : nextB s = .avail d true after → Delivers s [] (.err .unexpectedEof)
  | step {s d sh after j p o} : nextB s = .avail d sh after → 1 ≤ j → j ≤ d.length →
      Delivers (after j) p o → Delivers s (d.take j ++ p) o

def AbsB.size : AbsB → Nat
  | .fixed _ c => c.length
  | .chunked s => s.c.length
  | .eof c => c.length
  | .empty => 0

theorem nextB_size {s d sh after} (h : nextB s = .avail d sh after) (j : Nat) (h1 : 1 ≤ j) (h2 : j ≤ d.length) :
    (after j).size < s.size := by
  cases s with
  | fixed rem c =>
    simp only [nextB] at h
    split at h
    · cases h
    · split at h
      · cases h
      · injection h with hd _ ha; subst hd; subst ha
        simp [AbsB.size] at *; omega
  | chunked s =>
    simp only [nextB] at h
    cases hp : pAdvance 8 s with
    | err e => simp [hp] at h
    | ok p =>
      obtain ⟨b, s'⟩ := p
      have hl := pAdvance_length 8 _ _ _ hp
      cases b with
      | false => simp [hp] at h
      | true =>
        simp only [hp] at h
        split at h
        · cases h
        · injection h with hd _ ha; subst hd; subst ha
          simp [AbsB.size] at *; omega
  | eof c =>
    simp only [nextB] at h
    split at h
    · cases h
    · injection h with hd _ ha; subst hd; subst ha
      simp [AbsB.size] at *; omega
  | empty => simp [nextB] at h

/-! ## `BodyReader::read` and `fill_buf`/`consume` realise `nextB` -/

def Outcome.isErr : Outcome → Bool
  | .eof => false
  | .err _ => true

theorem take_take_le (l : Bytes) (a b : Nat) (h : a ≤ b) : (l.take b).take a = l.take a := by
  rw [List.take_take, Nat.min_eq_left h]

theorem body_read (r : BodyReader) (n : Nat) (hn : 1 ≤ n) :
    match nextB r.abs with
    | .stop .eof => ∃ r1, r.read n = (.ok [], r1) ∧ r1.fail = r.fail
    | .stop (.err e) => ∃ r1, r.read n = (.err e, r1) ∧ r1.fail = true
    | .avail d sh after =>
      (∃ out r1, r.read n = (.ok out, r1) ∧ 1 ≤ out.length ∧ out.length ≤ d.length ∧ out.length ≤ n ∧
          out = d.take out.length ∧ r1.abs = after out.length ∧ r1.fail = r.fail) ∨
      (sh = true ∧ ∃ r1, r.read n = (.err .unexpectedEof, r1) ∧ r1.fail = true) := by
  obtain ⟨enc, fl⟩ := r
  cases enc with
  | fixed f =>
    have hf := fixed_read f n hn
    simp only [BodyReader.abs, nextB, BodyReader.read]
    by_cases hr : f.remaining = 0
    · simp only [hr, if_true] at hf ⊢
      rw [hf]; exact ⟨_, rfl, rfl⟩
    · simp only [hr, if_false] at hf ⊢
      by_cases h0 : f.inner.content = []
      · simp only [h0, if_true] at hf ⊢
        obtain ⟨f1, e1⟩ := hf
        rw [e1]; exact ⟨_, rfl, rfl⟩
      · simp only [h0, if_false] at hf ⊢
        obtain ⟨out, f1, e1, h1, h2, h3, h4, h5, h6⟩ := hf
        left
        rw [e1]
        have hl : 0 < out.length := List.length_pos_iff.mpr h1
        have hlc : out.length ≤ f.inner.content.length := by
          have := congrArg List.length h4; simp only [List.length_take] at this; omega
        refine ⟨out, _, rfl, hl, by simp only [List.length_take]; omega, h3, ?_, ?_, rfl⟩
        · rw [take_take_le _ _ _ h2]; exact h4
        · simp [BodyReader.abs, h5, h6]
  | chunked c =>
    have hc := chunked_read c n hn
    simp only [BodyReader.abs, nextB, BodyReader.read]
    cases hp : pAdvance 8 c.abs with
    | err e =>
      simp only [hp] at hc ⊢
      obtain ⟨c1, e1⟩ := hc
      rw [e1]; exact ⟨_, rfl, rfl⟩
    | ok p =>
      obtain ⟨b, s⟩ := p
      cases b with
      | false =>
        simp only [hp] at hc ⊢
        obtain ⟨c1, e1, _⟩ := hc
        rw [e1]; exact ⟨_, rfl, rfl⟩
      | true =>
        simp only [hp] at hc ⊢
        by_cases h0 : s.c = []
        · simp only [h0, if_true]
          rcases hc with ⟨out, c1, e1, h1, h2, h3, h4, h5⟩ | ⟨_, c1, e1⟩
          · rw [h0] at h4; simp at h4; exact absurd h4 h1
          · rw [e1]; exact ⟨_, rfl, rfl⟩
        · simp only [h0, if_false]
          rcases hc with ⟨out, c1, e1, h1, h2, h3, h4, h5⟩ | ⟨hs, c1, e1⟩
          · left
            rw [e1]
            have hl : 0 < out.length := List.length_pos_iff.mpr h1
            have hlc : out.length ≤ s.c.length := by
              have := congrArg List.length h4; simp only [List.length_take] at this; omega
            refine ⟨out, _, rfl, hl, by simp only [List.length_take]; omega, h3, ?_, ?_, rfl⟩
            · rw [take_take_le _ _ _ h2]; exact h4
            · simp [BodyReader.abs, h5]
          · right
            rw [e1]
            exact ⟨by simpa using hs, _, rfl, rfl⟩
  | eof b =>
    obtain ⟨out, b1, he, hc, hle, hpr⟩ := BufReader.read_spec b n
    simp only [BodyReader.abs, nextB, BodyReader.read, he]
    by_cases h0 : b.content = []
    · simp only [h0, if_true]
      have : out = [] := by rw [h0] at hc; exact (List.append_eq_nil_iff.mp hc).1
      rw [this]; exact ⟨_, rfl, rfl⟩
    · simp only [h0, if_false]
      left
      have hone := hpr (by omega) h0
      have hl : 0 < out.length := List.length_pos_iff.mpr hone
      refine ⟨out, _, rfl, hl, ?_, hle, ?_, ?_, rfl⟩
      · rw [← hc]; simp
      · rw [← hc]; simp
      · simp only [BodyReader.abs]; rw [← hc]; simp
  | empty s =>
    simp only [BodyReader.abs, nextB, BodyReader.read]
    exact ⟨_, rfl, rfl⟩

theorem body_fillBuf (r : BodyReader) :
    match nextB r.abs with
    | .stop .eof => ∃ r1, r.fillBuf = (.ok [], r1) ∧ r1.fail = r.fail
    | .stop (.err e) => ∃ r1, r.fillBuf = (.err e, r1) ∧ r1.fail = true
    | .avail d _ after =>
      ∃ av r1, r.fillBuf = (.ok av, r1) ∧ 1 ≤ av.length ∧ av.length ≤ d.length ∧ av = d.take av.length ∧
        (∀ k, k ≤ av.length → (r1.consume k).abs = after k ∧ (r1.consume k).fail = r.fail) := by
  obtain ⟨enc, fl⟩ := r
  cases enc with
  | fixed f =>
    have hf := fixed_fillBuf f
    simp only [BodyReader.abs, nextB, BodyReader.fillBuf]
    by_cases hr : f.remaining = 0
    · simp only [hr, if_true] at hf ⊢
      rw [hf]; exact ⟨_, rfl, rfl⟩
    · simp only [hr, if_false] at hf ⊢
      by_cases h0 : f.inner.content = []
      · simp only [h0, if_true] at hf ⊢
        obtain ⟨f1, e1⟩ := hf
        rw [e1]; exact ⟨_, rfl, rfl⟩
      · simp only [h0, if_false] at hf ⊢
        obtain ⟨av, f1, e1, h1, h2, h3, h4, h5, h6⟩ := hf
        rw [e1]
        have hl : 0 < av.length := List.length_pos_iff.mpr h1
        have hlc : av.length ≤ f.inner.content.length := by
          have := congrArg List.length h3; simp only [List.length_take] at this; omega
        refine ⟨av, _, rfl, hl, by simp only [List.length_take]; omega, ?_, ?_⟩
        · rw [take_take_le _ _ _ h2]; exact h3
        · intro k hk
          refine ⟨?_, rfl⟩
          show AbsB.fixed (f1.remaining - k) (f1.inner.consume k).content = _
          rw [BufReader.consume_content _ _ (by omega), h5, h6]
  | chunked c =>
    have hc := chunked_fillBuf c
    simp only [BodyReader.abs, nextB, BodyReader.fillBuf]
    cases hp : pAdvance 8 c.abs with
    | err e =>
      simp only [hp] at hc ⊢
      obtain ⟨c1, e1⟩ := hc
      rw [e1]; exact ⟨_, rfl, rfl⟩
    | ok p =>
      obtain ⟨b, s⟩ := p
      cases b with
      | false =>
        simp only [hp] at hc ⊢
        obtain ⟨c1, e1, _⟩ := hc
        rw [e1]; exact ⟨_, rfl, rfl⟩
      | true =>
        simp only [hp] at hc ⊢
        by_cases h0 : s.c = []
        · simp only [h0, if_true] at hc ⊢
          obtain ⟨c1, e1⟩ := hc
          rw [e1]; exact ⟨_, rfl, rfl⟩
        · simp only [h0, if_false] at hc ⊢
          obtain ⟨av, c1, e1, h1, h2, h3, h4, h5⟩ := hc
          rw [e1]
          have hl : 0 < av.length := List.length_pos_iff.mpr h1
          have hlc : av.length ≤ s.c.length := by
            have := congrArg List.length h3; simp only [List.length_take] at this; omega
          obtain ⟨a1, a2, a3⟩ := ChunkedReader.abs_data h5
          refine ⟨av, _, rfl, hl, by simp only [List.length_take]; omega, ?_, ?_⟩
          · rw [take_take_le _ _ _ h2]; exact h3
          · intro k hk
            refine ⟨?_, rfl⟩
            show AbsB.chunked ⟨c1.state, c1.rem - k, (c1.inner.consume k).content⟩ = _
            rw [BufReader.consume_content _ _ (by omega), a1, a2, a3]
  | eof b =>
    obtain ⟨av, b1, he, hbuf, hcont, hne⟩ := BufReader.fillBuf_spec b
    have hav : b1.content = av ++ LawfulRaw.content b1.inner := by simp [BufReader.content, hbuf]
    simp only [BodyReader.abs, nextB, BodyReader.fillBuf, he]
    by_cases h0 : b.content = []
    · simp only [h0, if_true]
      have : av = [] := by
        have : b1.content = [] := by rw [hcont, h0]
        rw [hav] at this; exact (List.append_eq_nil_iff.mp this).1
      rw [this]; exact ⟨_, rfl, rfl⟩
    · simp only [h0, if_false]
      have hone := hne h0
      have hl : 0 < av.length := List.length_pos_iff.mpr hone
      refine ⟨av, _, rfl, hl, ?_, ?_, ?_⟩
      · rw [← hcont, hav]; simp
      · rw [← hcont, hav]; simp
      · intro k hk
        refine ⟨?_, rfl⟩
        show AbsB.eof (b1.consume k).content = _
        rw [BufReader.consume_content _ _ (by rw [hbuf]; exact hk), hcont]
  | empty s =>
    simp only [BodyReader.abs, nextB, BodyReader.fillBuf]
    exact ⟨_, rfl, rfl⟩

/-! ## the runners -/

theorem nextSize_pos (sched : List Nat) (last : Nat) (h : 1 ≤ last) : 1 ≤ nextSize sched last := by
  unfold nextSize; split
  · exact h
  · omega

theorem runReadLoop_delivers (fuel : Nat) : ∀ (r : BodyReader) (reads : List Nat) (last : Nat) (acc : List Bytes),
    1 ≤ last → r.abs.size < fuel →
    ∃ cs o r', runReadLoop fuel r reads last acc = (acc ++ cs, o, r') ∧ Delivers r.abs cs.flatten o ∧
      r'.fail = (r.fail || o.isErr) ∧ (∀ c ∈ cs, c ≠ []) := by
  induction fuel with
  | zero => intro r _ _ _ _ h; omega
  | succ fuel ih =>
    intro r reads last acc hlast hsz
    have hn := nextSize_pos reads last hlast
    have hb := body_read r (nextSize reads last) hn
    unfold runReadLoop
    cases hN : nextB r.abs with
    | stop o =>
      simp only [hN] at hb
      cases o with
      | eof =>
        simp only [] at hb
        obtain ⟨r1, e1, f1⟩ := hb
        refine ⟨[], .eof, r1, by simp [e1], .stop hN, by simp [f1, Outcome.isErr], by simp⟩
      | err e =>
        simp only [] at hb
        obtain ⟨r1, e1, f1⟩ := hb
        refine ⟨[], .err e, r1, by simp [e1], .stop hN, by simp [f1, Outcome.isErr], by simp⟩
    | avail d sh after =>
      simp only [hN] at hb
      rcases hb with ⟨out, r1, e1, h1, h2, h3, h4, h5, h6⟩ | ⟨hsh, r1, e1, f1⟩
      · have hol : out.length ≠ 0 := by omega
        simp only [e1, hol, if_false]
        have hlt := nextB_size hN out.length h1 h2
        obtain ⟨cs, o, r', e2, hd, hf, hne⟩ := ih r1 reads.tail (nextSize reads last) (acc ++ [out]) hn
          (by rw [h5]; omega)
        refine ⟨out :: cs, o, r', by rw [e2]; simp, ?_, by rw [hf, h6], ?_⟩
        · rw [h5] at hd
          have := Delivers.step hN h1 h2 hd
          rw [← h4] at this
          simpa using this
        · intro c hc
          rcases List.mem_cons.mp hc with rfl | hc
          · intro h; simp [h] at h1
          · exact hne c hc
      · subst hsh
        refine ⟨[], .err .unexpectedEof, r1, by simp [e1], .lost hN, by simp [f1, Outcome.isErr], by simp⟩

theorem runBufLoop_delivers (fuel : Nat) : ∀ (r : BodyReader) (consumes : List Nat) (last : Nat) (acc : List Bytes),
    1 ≤ last → r.abs.size < fuel →
    ∃ cs o r', runBufLoop fuel r consumes last acc = (acc ++ cs, o, r') ∧ Delivers r.abs cs.flatten o ∧
      r'.fail = (r.fail || o.isErr) ∧ (∀ c ∈ cs, c ≠ []) := by
  induction fuel with
  | zero => intro r _ _ _ _ h; omega
  | succ fuel ih =>
    intro r consumes last acc hlast hsz
    have hn := nextSize_pos consumes last hlast
    have hb := body_fillBuf r
    unfold runBufLoop
    cases hN : nextB r.abs with
    | stop o =>
      simp only [hN] at hb
      cases o with
      | eof =>
        simp only [] at hb
        obtain ⟨r1, e1, f1⟩ := hb
        refine ⟨[], .eof, r1, by simp [e1], .stop hN, by simp [f1, Outcome.isErr], by simp⟩
      | err e =>
        simp only [] at hb
        obtain ⟨r1, e1, f1⟩ := hb
        refine ⟨[], .err e, r1, by simp [e1], .stop hN, by simp [f1, Outcome.isErr], by simp⟩
    | avail d sh after =>
      simp only [hN] at hb
      obtain ⟨av, r1, e1, h1, h2, h4, h5⟩ := hb
      have hol : av.length ≠ 0 := by omega
      simp only [e1, hol, if_false]
      have hk1 : 1 ≤ min (nextSize consumes last) av.length := by omega
      have hk2 : min (nextSize consumes last) av.length ≤ av.length := by omega
      obtain ⟨h5a, h5f⟩ := h5 _ hk2
      have hlt := nextB_size hN _ hk1 (by omega)
      obtain ⟨cs, o, r', e2, hd, hf, hne⟩ := ih (r1.consume (min (nextSize consumes last) av.length)) consumes.tail
        (nextSize consumes last) (acc ++ [av.take (min (nextSize consumes last) av.length)]) hn (by rw [h5a]; omega)
      refine ⟨av.take (min (nextSize consumes last) av.length) :: cs, o, r', by rw [e2]; simp, ?_, by rw [hf, h5f], ?_⟩
      · rw [h5a] at hd
        have := Delivers.step hN hk1 (by omega) hd
        have hx : ∀ K, K ≤ av.length → av.take K = d.take K := by
          intro K hK; rw [h4]; exact take_take_le _ _ _ hK
        rw [hx _ hk2]
        simpa using this
      · intro c hc
        rcases List.mem_cons.mp hc with rfl | hc
        · intro h; have := congrArg List.length h
          simp only [List.length_take, List.length_nil] at this; omega
        · exact hne c hc

theorem BodyReader.abs_size_le_bound (r : BodyReader) : r.abs.size ≤ r.bound := by
  obtain ⟨enc, fl⟩ := r
  cases enc with
  | fixed f => exact BufReader.content_length_le f.inner
  | chunked c => exact BufReader.content_length_le c.inner
  | eof b => exact BufReader.content_length_le b
  | empty s => exact Nat.le_refl _

/-- **Schedule independence, `Read` caller**: whatever the split, the stream segmentation and the read sizes,
the run delivers what `Delivers` allows from the abstract state; the failure flag is set iff the run ends in `Err`. -/
theorem runRead'_delivers (r : BodyReader) (reads : List Nat) :
    ∃ cs o r', runRead' r reads = (cs, o, r') ∧ Delivers r.abs cs.flatten o ∧ r'.fail = (r.fail || o.isErr) ∧
      (∀ c ∈ cs, c ≠ []) := by
  have := runReadLoop_delivers (r.bound + 2) r reads defaultReadSize [] (by decide)
    (by have := r.abs_size_le_bound; omega)
  simpa [runRead'] using this

/-- **Schedule independence, `BufRead` caller** -/
theorem runBuf'_delivers (r : BodyReader) (consumes : List Nat) :
    ∃ cs o r', runBuf' r consumes = (cs, o, r') ∧ Delivers r.abs cs.flatten o ∧ r'.fail = (r.fail || o.isErr) ∧
      (∀ c ∈ cs, c ≠ []) := by
  have := runBufLoop_delivers (r.bound + 2) r consumes defaultReadSize [] (by decide)
    (by have := r.abs_size_le_bound; omega)
  simpa [runBuf'] using this

end Khttp.Body
