/-
  Starvation (`Src.starved`): the raw stream is read at its end only by operations that run out of content.
  `pTrailersFed` / `pAdvanceFed` / `touchB`: pure conditions under which an operation of the framing layer finds every
  byte it asks for; `AllFed`: they hold along every possible run from an abstract state.
-/
import Khttp.Lemmas.BodyDeliv
namespace Khttp.Body
open Khttp Khttp.Spec.Chunked

/-! ## pure "fed" conditions -/

/-- every `read_line` of the trailer loop finds an LF -/
def pTrailersFed : Nat → Bytes → Bool
  | 0, _ => true
  | fuel + 1, c =>
    decide (LF ∈ c) &&
    match pReadLine c with
    | .err _ => true
    | .ok (line, rest) =>
      if line.length = 0 || line == [CR, LF] || line == [LF] then true else pTrailersFed fuel rest

/-- `advance` finds every byte it asks for -/
def pAdvanceFed : Nat → CAbs → Bool
  | 0, _ => true
  | fuel + 1, s =>
    match s.st with
    | .size =>
      decide (LF ∈ s.c) &&
      match pChunkSize s.c with
      | .err _ => true
      | .ok (st, v, rest) => pAdvanceFed fuel ⟨st, v, rest⟩
    | .data => if s.rem = 0 then pAdvanceFed fuel { s with st := .crlf } else true
    | .crlf =>
      decide (2 ≤ s.c.length) &&
      match pCrlf s.c with
      | .err _ => true
      | .ok rest => pAdvanceFed fuel ⟨.size, s.rem, rest⟩
    | .trailer =>
      pTrailersFed (s.c.length + 1) s.c &&
      match pTrailers (s.c.length + 1) s.c with
      | .err _ => true
      | .ok rest => pAdvanceFed fuel ⟨.done, s.rem, rest⟩
    | .done => true

theorem pTrailersFed_fuel (f : Nat) : ∀ (f' : Nat) (c : Bytes), c.length < f → c.length < f' →
    pTrailersFed f c = pTrailersFed f' c := by
  induction f with
  | zero => intro f' c h; omega
  | succ f ih =>
    intro f' c h h'
    cases f' with
    | zero => omega
    | succ f' =>
      unfold pTrailersFed
      cases hl : pReadLine c with
      | err e => rfl
      | ok p =>
        obtain ⟨line, rest⟩ := p
        have := pReadLine_length hl
        simp only
        split
        · rfl
        · rename_i hc
          have : line.length ≠ 0 := by intro h0; simp [h0] at hc
          rw [ih f' rest (by omega) (by omega)]

/-! ## the chunked reader -/

def ChunkedReader.starved (c : ChunkedReader) : Bool := c.inner.starved

theorem readChunkSize_starved (c : ChunkedReader) (h : LF ∈ c.inner.content) :
    (c.readChunkSize).2.starved = c.starved := by
  have hs := BufReader.readLine_starved c.inner h
  unfold ChunkedReader.readChunkSize
  rcases hr : c.inner.readLine with ⟨res, b1⟩
  rw [hr] at hs
  cases res with
  | err e => exact hs
  | ok line =>
    simp only
    split
    · exact hs
    · split
      · exact hs
      · split <;> exact hs

theorem trailerLoop_starved (f : Nat) : ∀ (b : BufReader Swl), pTrailersFed f b.content = true →
    (ChunkedReader.trailerLoop f b).2.starved = b.starved := by
  induction f with
  | zero => intro b _; rfl
  | succ f ih =>
    intro b hfed
    unfold pTrailersFed at hfed
    simp only [Bool.and_eq_true, decide_eq_true_eq] at hfed
    obtain ⟨hlf, hrest⟩ := hfed
    have hs := BufReader.readLine_starved b hlf
    have hl := readLine_sim b
    unfold ChunkedReader.trailerLoop
    cases hp : pReadLine b.content with
    | err e =>
      simp only [hp] at hl
      obtain ⟨b1, e1⟩ := hl
      rw [e1] at hs
      simp only [e1]; exact hs
    | ok p =>
      obtain ⟨line, rest⟩ := p
      simp only [hp] at hl hrest
      obtain ⟨b1, e1, c1⟩ := hl
      rw [e1] at hs
      simp only [e1]
      by_cases hc : (line.length = 0 || line == [CR, LF] || line == [LF]) = true
      · simp only [hc, if_true]; exact hs
      · simp only [hc, Bool.false_eq_true, if_false] at hrest ⊢
        rw [ih b1 (by rw [c1]; exact hrest)]
        exact hs

theorem advanceLoop_starved (f : Nat) : ∀ (c : ChunkedReader), pAdvanceFed f c.abs = true →
    (ChunkedReader.advanceLoop f c).2.starved = c.starved := by
  induction f with
  | zero => intro c _; rfl
  | succ f ih =>
    intro c hfed
    unfold pAdvanceFed at hfed
    have habs : c.abs = ⟨c.state, c.rem, c.inner.content⟩ := rfl
    rw [habs] at hfed
    unfold ChunkedReader.advanceLoop
    cases hst : c.state with
    | size =>
      simp only [hst, Bool.and_eq_true, decide_eq_true_eq] at hfed ⊢
      obtain ⟨hlf, hrest⟩ := hfed
      have hs := readChunkSize_starved c hlf
      have hsim := readChunkSize_sim c
      cases hp : pChunkSize c.inner.content with
      | err e =>
        simp only [hp] at hsim
        obtain ⟨c1, e1⟩ := hsim
        rw [e1] at hs
        simp only [e1]; exact hs
      | ok p =>
        obtain ⟨st, v, rest⟩ := p
        simp only [hp] at hsim hrest
        obtain ⟨c1, e1, a1⟩ := hsim
        rw [e1] at hs
        simp only [e1]
        rw [ih c1 (by rw [a1]; exact hrest)]
        exact hs
    | data =>
      simp only [hst] at hfed ⊢
      by_cases hr : c.rem = 0
      · simp only [hr, if_true] at hfed ⊢
        have := ih { c with state := .crlf } (by simpa [ChunkedReader.abs, hr] using hfed)
        rw [hr] at this
        exact this
      · simp only [hr, if_false]
    | crlf =>
      simp only [hst, Bool.and_eq_true, decide_eq_true_eq] at hfed ⊢
      obtain ⟨h2, hrest⟩ := hfed
      have hs := BufReader.readExact_starved c.inner 2 h2
      have hsim := readExact2_sim c.inner
      cases hp : pCrlf c.inner.content with
      | err e =>
        simp only [hp] at hsim
        cases e with
        | unexpectedEof =>
          simp only [] at hsim
          obtain ⟨b1, e1⟩ := hsim
          rw [e1] at hs
          simp only [e1]; exact hs
        | invalidData =>
          simp only [] at hsim
          obtain ⟨b1, bs, e1, hne⟩ := hsim
          rw [e1] at hs
          simp only [e1, hne, if_true]; exact hs
        | fuel =>
          exfalso
          unfold pCrlf at hp
          split at hp
          · cases hp
          · split at hp <;> cases hp
      | ok rest =>
        simp only [hp] at hsim hrest
        obtain ⟨b1, e1, c1⟩ := hsim
        rw [e1] at hs
        simp only [e1]
        have := ih { c with inner := b1, state := .size } (by simpa [ChunkedReader.abs, c1] using hrest)
        simp only [bne_self_eq_false, Bool.false_eq_true, if_false]
        rw [this]; exact hs
    | trailer =>
      simp only [hst, Bool.and_eq_true] at hfed ⊢
      obtain ⟨htf, hrest⟩ := hfed
      have hb := bufBound_ge c.inner
      have htf' : pTrailersFed (RawRead.bound c.inner + 1) c.inner.content = true := by
        rw [pTrailersFed_fuel _ (c.inner.content.length + 1) _ (by omega) (by omega)]; exact htf
      have hs := trailerLoop_starved _ c.inner htf'
      have hsim := trailerLoop_sim (RawRead.bound c.inner + 1) c.inner (by omega)
      rw [pTrailers_fuel _ (c.inner.content.length + 1) _ (by omega) (by omega)] at hsim
      cases hp : pTrailers (c.inner.content.length + 1) c.inner.content with
      | err e =>
        simp only [hp] at hsim
        obtain ⟨b1, e1⟩ := hsim
        rw [e1] at hs
        simp only [e1]; exact hs
      | ok rest =>
        simp only [hp] at hsim hrest
        obtain ⟨b1, e1, c1⟩ := hsim
        rw [e1] at hs
        simp only [e1]
        have := ih { c with inner := b1, state := .done } (by simpa [ChunkedReader.abs, c1] using hrest)
        rw [this]; exact hs
    | done => rfl

theorem readLoop_data_starved (fuel : Nat) : ∀ (c : ChunkedReader) (n : Nat) (acc : Bytes),
    c.state = .data → c.rem ≠ 0 → c.rem ≤ c.inner.content.length →
    (ChunkedReader.readLoop fuel c n acc).2.starved = c.starved := by
  induction fuel with
  | zero => intro c n acc _ _ _; rfl
  | succ fuel ih =>
    intro c n acc hs hr hlen
    unfold ChunkedReader.readLoop
    rw [advance_data c hs hr]
    simp only
    by_cases hn0 : n = 0
    · simp [hn0]
    · simp only [hn0, if_false]
      have hc : c.inner.content ≠ [] := by intro h; rw [h] at hlen; simp at hlen; exact hr hlen
      obtain ⟨out, b1, he, hcont, hle, _⟩ := BufReader.read_spec c.inner (min c.rem n)
      have hst := BufReader.read_starved c.inner (min c.rem n) hc
      rw [he] at hst
      simp only [he]
      split
      · exact hst
      · split
        · exact hst
        · rename_i hex
          have hex' : c.rem - out.length ≠ 0 ∧ n - out.length ≠ 0 := by simpa using hex
          have hl2 : c.inner.content.length = out.length + b1.content.length := by rw [← hcont]; simp
          rw [ih { c with inner := b1, rem := c.rem - out.length } _ _ hs hex'.1 (by simp only; omega)]
          exact hst

/-- the next `read` / `fill_buf` of a chunked reader in abstract state `s` runs into the end of the content -/
def touchC (s : CAbs) : Bool :=
  !pAdvanceFed 8 s ||
  match pAdvance 8 s with
  | .ok (true, s') => decide (s'.c.length < s'.rem)
  | _ => false

theorem touchC_false {s : CAbs} (h : touchC s = false) :
    pAdvanceFed 8 s = true ∧ ∀ s', pAdvance 8 s = .ok (true, s') → s'.rem ≤ s'.c.length := by
  unfold touchC at h
  simp only [Bool.or_eq_false_iff, Bool.not_eq_false'] at h
  refine ⟨h.1, ?_⟩
  intro s' hs'
  have := h.2
  rw [hs'] at this
  simpa using this

theorem chunked_read_starved (c : ChunkedReader) (n : Nat) (h : touchC c.abs = false) :
    (c.read n).2.starved = c.starved := by
  obtain ⟨hfed, hlen⟩ := touchC_false h
  have hs := advanceLoop_starved 8 c hfed
  have ha := advance_sim c
  cases hp : pAdvance 8 c.abs with
  | err e =>
    simp only [hp] at ha
    obtain ⟨c1, e1⟩ := ha
    have e1' : ChunkedReader.advanceLoop 8 c = (.err e, c1) := e1
    rw [e1'] at hs
    simp only [ChunkedReader.read, ChunkedReader.readLoop, e1]; exact hs
  | ok p =>
    obtain ⟨b, s⟩ := p
    simp only [hp] at ha
    obtain ⟨c1, e1, a1⟩ := ha
    have e1' : ChunkedReader.advanceLoop 8 c = (.ok b, c1) := e1
    rw [e1'] at hs
    cases b with
    | false => simp only [ChunkedReader.read, ChunkedReader.readLoop, e1]; exact hs
    | true =>
      obtain ⟨hst, hrem⟩ := pAdvance_true 8 _ _ hp
      obtain ⟨h1, h2, h3⟩ := ChunkedReader.abs_data a1
      have heq : c.read n = ChunkedReader.readLoop (n + 1) c1 n [] := by
        simp only [ChunkedReader.read]
        conv => lhs; unfold ChunkedReader.readLoop
        conv => rhs; unfold ChunkedReader.readLoop
        rw [e1, advance_data c1 (by rw [h1, hst]) (by rw [h2]; exact hrem)]
      rw [heq, readLoop_data_starved _ c1 n [] (by rw [h1, hst]) (by rw [h2]; exact hrem)
        (by rw [h2, h3]; exact hlen s hp)]
      exact hs

theorem chunked_fillBuf_starved (c : ChunkedReader) (h : touchC c.abs = false) :
    (c.fillBuf).2.starved = c.starved := by
  obtain ⟨hfed, hlen⟩ := touchC_false h
  have hs := advanceLoop_starved 8 c hfed
  have ha := advance_sim c
  cases hp : pAdvance 8 c.abs with
  | err e =>
    simp only [hp] at ha
    obtain ⟨c1, e1⟩ := ha
    have e1' : ChunkedReader.advanceLoop 8 c = (.err e, c1) := e1
    rw [e1'] at hs
    simp only [ChunkedReader.fillBuf, e1]; exact hs
  | ok p =>
    obtain ⟨b, s⟩ := p
    simp only [hp] at ha
    obtain ⟨c1, e1, a1⟩ := ha
    have e1' : ChunkedReader.advanceLoop 8 c = (.ok b, c1) := e1
    rw [e1'] at hs
    cases b with
    | false => simp only [ChunkedReader.fillBuf, e1]; exact hs
    | true =>
      obtain ⟨hst, hrem⟩ := pAdvance_true 8 _ _ hp
      obtain ⟨h1, h2, h3⟩ := ChunkedReader.abs_data a1
      have hl := hlen s hp
      have hc : c1.inner.content ≠ [] := by
        intro h0; rw [h3] at h0; rw [h0] at hl; simp at hl; exact hrem hl
      have hf := BufReader.fillBuf_starved c1.inner hc
      simp only [ChunkedReader.fillBuf, e1]
      rcases hr : c1.inner.fillBuf with ⟨buf, inner⟩
      rw [hr] at hf
      simp only
      split
      · show inner.starved = _; rw [hf]; exact hs
      · show inner.starved = _; rw [hf]; exact hs

/-! ## `BodyReader` -/

/-- the next `read` / `fill_buf` in abstract state `s` runs into the end of the content -/
def touchB : AbsB → Bool
  | .fixed rem c => decide (rem ≠ 0) && c.isEmpty
  | .chunked s => touchC s
  | .eof c => c.isEmpty
  | .empty => false

theorem body_read_starved (r : BodyReader) (n : Nat) (h : touchB r.abs = false) :
    (r.read n).2.src.starved = r.src.starved := by
  obtain ⟨enc, fl⟩ := r
  cases enc with
  | fixed f =>
    simp only [BodyReader.abs, touchB] at h
    simp only [BodyReader.read, BodyReader.src, FixedReader.read]
    by_cases hr : f.remaining = 0
    · simp [hr]
    · have hc : f.inner.content ≠ [] := by
        intro h0; simp [hr, h0] at h
      have hs := BufReader.read_starved f.inner (min f.remaining n) hc
      simp only [hr, if_false]
      rcases hrd : f.inner.read (min f.remaining n) with ⟨out, inner⟩
      rw [hrd] at hs
      simp only
      split <;> exact hs
  | chunked c =>
    simp only [BodyReader.abs, touchB] at h
    exact chunked_read_starved c n h
  | eof b =>
    simp only [BodyReader.abs, touchB] at h
    have hc : b.content ≠ [] := by intro h0; simp [h0] at h
    exact BufReader.read_starved b n hc
  | empty s => rfl

theorem body_fillBuf_starved (r : BodyReader) (h : touchB r.abs = false) :
    (r.fillBuf).2.src.starved = r.src.starved := by
  obtain ⟨enc, fl⟩ := r
  cases enc with
  | fixed f =>
    simp only [BodyReader.abs, touchB] at h
    simp only [BodyReader.fillBuf, BodyReader.src, FixedReader.fillBuf]
    by_cases hr : f.remaining = 0
    · simp [hr]
    · have hc : f.inner.content ≠ [] := by
        intro h0; simp [hr, h0] at h
      have hs := BufReader.fillBuf_starved f.inner hc
      simp only [hr, if_false]
      rcases hrd : f.inner.fillBuf with ⟨out, inner⟩
      rw [hrd] at hs
      simp only
      split <;> exact hs
  | chunked c =>
    simp only [BodyReader.abs, touchB] at h
    exact chunked_fillBuf_starved c h
  | eof b =>
    simp only [BodyReader.abs, touchB] at h
    have hc : b.content ≠ [] := by intro h0; simp [h0] at h
    exact BufReader.fillBuf_starved b hc
  | empty s => rfl

theorem body_consume_starved (r : BodyReader) (k : Nat) : (r.consume k).src.starved = r.src.starved := by
  obtain ⟨enc, fl⟩ := r
  cases enc <;> rfl

/-! ## runs that never touch the end of the content -/

/-- from abstract state `s`, whatever the schedules, no `read` / `fill_buf` runs into the end of the content -/
inductive AllFed : AbsB → Prop where
  | stop {s o} : nextB s = .stop o → touchB s = false → AllFed s
  | avail {s d sh after} : nextB s = .avail d sh after → touchB s = false →
      (∀ j, 1 ≤ j → j ≤ d.length → AllFed (after j)) → AllFed s

theorem runReadLoop_starved (fuel : Nat) : ∀ (r : BodyReader) (reads : List Nat) (last : Nat) (acc : List Bytes),
    1 ≤ last → AllFed r.abs → (runReadLoop fuel r reads last acc).2.2.src.starved = r.src.starved := by
  induction fuel with
  | zero => intro r _ _ _ _ _; rfl
  | succ fuel ih =>
    intro r reads last acc hlast hfed
    have hn := nextSize_pos reads last hlast
    have hb := body_read r (nextSize reads last) hn
    unfold runReadLoop
    cases hfed with
    | stop hN ht =>
      rename_i o
      have hs := body_read_starved r (nextSize reads last) ht
      simp only [hN] at hb
      cases o with
      | eof =>
        simp only [] at hb
        obtain ⟨r1, e1, _⟩ := hb
        rw [e1] at hs
        simp only [e1, List.length_nil, if_true]; exact hs
      | err e =>
        simp only [] at hb
        obtain ⟨r1, e1, _⟩ := hb
        rw [e1] at hs
        simp only [e1]; exact hs
    | avail hN ht hall =>
      have hs := body_read_starved r (nextSize reads last) ht
      simp only [hN] at hb
      rcases hb with ⟨out, r1, e1, h1, h2, h3, h4, h5, h6⟩ | ⟨_, r1, e1, _⟩
      · rw [e1] at hs
        have hol : out.length ≠ 0 := by omega
        simp only [e1, hol, if_false]
        rw [ih r1 _ _ _ hn (by rw [h5]; exact hall _ h1 h2)]
        exact hs
      · rw [e1] at hs
        simp only [e1]; exact hs

theorem runBufLoop_starved (fuel : Nat) : ∀ (r : BodyReader) (consumes : List Nat) (last : Nat) (acc : List Bytes),
    1 ≤ last → AllFed r.abs → (runBufLoop fuel r consumes last acc).2.2.src.starved = r.src.starved := by
  induction fuel with
  | zero => intro r _ _ _ _ _; rfl
  | succ fuel ih =>
    intro r consumes last acc hlast hfed
    have hn := nextSize_pos consumes last hlast
    have hb := body_fillBuf r
    unfold runBufLoop
    cases hfed with
    | stop hN ht =>
      rename_i o
      have hs := body_fillBuf_starved r ht
      simp only [hN] at hb
      cases o with
      | eof =>
        simp only [] at hb
        obtain ⟨r1, e1, _⟩ := hb
        rw [e1] at hs
        simp only [e1, List.length_nil, if_true]; exact hs
      | err e =>
        simp only [] at hb
        obtain ⟨r1, e1, _⟩ := hb
        rw [e1] at hs
        simp only [e1]; exact hs
    | avail hN ht hall =>
      have hs := body_fillBuf_starved r ht
      simp only [hN] at hb
      obtain ⟨av, r1, e1, h1, h2, h4, h5⟩ := hb
      rw [e1] at hs
      have hol : av.length ≠ 0 := by omega
      simp only [e1, hol, if_false]
      have hk1 : 1 ≤ min (nextSize consumes last) av.length := by omega
      have hk2 : min (nextSize consumes last) av.length ≤ av.length := by omega
      obtain ⟨h5a, _⟩ := h5 _ hk2
      rw [ih (r1.consume (min (nextSize consumes last) av.length)) _ _ _ hn
        (by rw [h5a]; exact hall _ hk1 (by omega)), body_consume_starved]
      exact hs

/-! ## complete bodies never touch the end of the content -/

theorem allFed_fixed (n : Nat) : ∀ (rem : Nat) (c : Bytes), rem = n → c.length = rem → AllFed (.fixed rem c) := by
  induction n using Nat.strongRecOn with
  | _ n ih =>
    intro rem c hn hl
    by_cases hr : rem = 0
    · subst hr
      exact .stop (o := .eof) (by simp [nextB]) (by simp [touchB])
    · have hc : c ≠ [] := by intro h; rw [h] at hl; simp at hl; omega
      have hce : c.isEmpty = false := by cases c <;> simp_all
      refine .avail (d := c.take rem) (sh := false) (after := fun j => .fixed (rem - j) (c.drop j))
        (by simp [nextB, hr, hc]) (by simp [touchB, hce]) ?_
      intro j h1 h2
      simp only [List.length_take] at h2
      exact ih (rem - j) (by omega) (rem - j) (c.drop j) rfl (by simp; omega)

theorem allFed_congr {s s' : AbsB} (h : nextB s = nextB s') (ht : touchB s = touchB s') (hf : AllFed s') :
    AllFed s := by
  cases hf with
  | stop h1 h2 => exact .stop (h ▸ h1) (ht ▸ h2)
  | avail h1 h2 h3 => exact .avail (h ▸ h1) (ht ▸ h2) h3

theorem pAdvanceFed_data (s : CAbs) (hs : s.st = .data) (hr : s.rem ≠ 0) : pAdvanceFed 8 s = true := by
  simp [pAdvanceFed, hs, hr]

theorem allFed_of_advance {s s' : CAbs} (h : pAdvance 8 s = .ok (true, s')) (hfed : pAdvanceFed 8 s = true)
    (hf : AllFed (.chunked s')) : AllFed (.chunked s) := by
  obtain ⟨h1, h2⟩ := pAdvance_true 8 _ _ h
  refine allFed_congr (nextB_advance_true h) ?_ hf
  simp only [touchB, touchC, hfed, h, pAdvanceFed_data s' h1 h2, pAdvance_data s' h1 h2]

theorem allFed_data (rem : Nat) : ∀ (d rest : Bytes), d.length = rem → AllFed (.chunked ⟨.data, 0, rest⟩) →
    AllFed (.chunked ⟨.data, rem, d ++ rest⟩) := by
  induction rem using Nat.strongRecOn with
  | _ rem ih =>
    intro d rest hl hf
    by_cases hr : rem = 0
    · subst hr
      have : d = [] := List.length_eq_zero_iff.mp hl
      subst this
      exact hf
    · have hne : d ++ rest ≠ [] := by
        intro h; have := congrArg List.length h
        simp only [List.length_append, List.length_nil] at this; omega
      have hN := nextB_data rem (d ++ rest) hr
      simp only [hne, if_false] at hN
      refine .avail hN ?_ ?_
      · have hlen : ¬ ((d ++ rest).length < rem) := by simp; omega
        simp [touchB, touchC, pAdvanceFed_data ⟨.data, rem, d ++ rest⟩ rfl hr,
          pAdvance_data ⟨.data, rem, d ++ rest⟩ rfl hr]
        omega
      · intro j h1 h2
        have hjd : j ≤ d.length := by
          simp only [List.length_take, List.length_append] at h2; omega
        have e4 : (d ++ rest).drop j = d.drop j ++ rest := List.drop_append_of_le_length hjd
        simp only [e4]
        exact ih (rem - j) (by omega) (d.drop j) rest (by simp; omega) hf

theorem mem_LF_sizeLine (sz : Bytes) (ext : Option Bytes) (rest : Bytes) : LF ∈ sizeLine sz ext ++ rest := by
  rw [sizeLine_eq]; simp

theorem pAdvanceFed_size_line (f : Nat) (r : Nat) {sz : Bytes} {ext : Option Bytes} {v : Nat} (rest : Bytes)
    (hn : numeral? sz = some v) (hv : v < usizeLimit) (he : extOk ext = true) (h0 : v ≠ 0) :
    pAdvanceFed (f + 2) ⟨.size, r, sizeLine sz ext ++ rest⟩ = true := by
  have := pChunkSize_sizeLine rest hn hv he
  simp only [h0, if_false] at this
  have hm := mem_LF_sizeLine sz ext rest
  simp only [pAdvanceFed, this, hm, decide_true, Bool.true_and, h0, if_false]

theorem pTrailersFed_enc (ts : List Bytes) (extra : Bytes) (hts : ∀ t ∈ ts, trailerOk t = true) :
    ∀ f, pTrailersFed f (encodeTrailers ts ++ [CR, LF] ++ extra) = true := by
  induction ts with
  | nil =>
    intro f
    cases f with
    | zero => rfl
    | succ f =>
      have := pReadLine_line [CR] extra (by intro b hb; simp at hb; subst hb; decide)
      simp only [encodeTrailers, List.map_nil, List.flatten_nil, List.nil_append, pTrailersFed]
      have e : [CR, LF] ++ extra = [CR] ++ LF :: extra := rfl
      rw [e, this]; simp
  | cons t ts ih =>
    intro f
    cases f with
    | zero => rfl
    | succ f =>
      have ht := hts t (by simp)
      simp only [trailerOk, Bool.and_eq_true, Bool.not_eq_true'] at ht
      have hasc : ∀ b ∈ t ++ [CR], b < 0x80 ∧ b ≠ LF := by
        intro b hb
        rcases List.mem_append.mp hb with hb | hb
        · exact lineText_mem ht.2 b hb
        · simp at hb; subst hb; decide
      have e : encodeTrailers (t :: ts) ++ [CR, LF] ++ extra
          = (t ++ [CR]) ++ LF :: (encodeTrailers ts ++ [CR, LF] ++ extra) := by
        simp [encodeTrailers, Spec.Chunked.CRLF]
      rw [e]
      unfold pTrailersFed
      rw [pReadLine_line _ _ hasc]
      have := ih (fun t' ht' => hts t' (by simp [ht'])) f
      simp only [this]
      simp

theorem pAdvanceFed_size_end (f : Nat) (r : Nat) (ls : Bytes) (le : Option Bytes) (ts : List Bytes) (extra : Bytes)
    (hl : numeral? ls = some 0) (he : extOk le = true) (hts : ∀ t ∈ ts, trailerOk t = true) :
    pAdvanceFed (f + 3) ⟨.size, r, encodeEnd ls le ts ++ extra⟩ = true := by
  have e : encodeEnd ls le ts ++ extra = sizeLine ls le ++ (encodeTrailers ts ++ [CR, LF] ++ extra) := by
    simp [encodeEnd, Spec.Chunked.CRLF]
  have := pChunkSize_sizeLine (encodeTrailers ts ++ [CR, LF] ++ extra) hl (by decide) he
  simp only [if_true] at this
  rw [e]
  simp only [pAdvanceFed, this, mem_LF_sizeLine, decide_true, Bool.true_and, pTrailersFed_enc ts extra hts]
  rw [pTrailers_enc ts extra hts _ (by omega)]

theorem entry_advanceFed {s : CAbs} {X : Bytes} (h : Entry s X) :
    ∃ f r, pAdvance 8 s = pAdvance (f + 4) ⟨.size, r, X⟩ ∧ pAdvanceFed 8 s = pAdvanceFed (f + 4) ⟨.size, r, X⟩ := by
  obtain ⟨st, rem, c⟩ := s
  rcases h with ⟨h1, h2⟩ | ⟨h1, h2, h3⟩
  · simp only at h1 h2; subst h1; subst h2; exact ⟨4, rem, rfl, rfl⟩
  · simp only at h1 h2 h3; subst h1; subst h2; subst h3
    refine ⟨2, 0, pAdvance_data0 6 X, ?_⟩
    simp [pAdvanceFed, pCrlf_crlf]

theorem allFed_chunks (cs : List Chunk) : ∀ (s : CAbs) (X : Bytes), (∀ c ∈ cs, ChunkOk c) →
    Entry s (encodeChunks cs ++ X) → (∀ s', Entry s' X → AllFed (.chunked s')) → AllFed (.chunked s) := by
  induction cs with
  | nil => intro s X _ he hX; exact hX s (by simpa [encodeChunks] using he)
  | cons c cs ih =>
    intro s X hok he hX
    have e : encodeChunks (c :: cs) ++ X = encodeChunk c ++ (encodeChunks cs ++ X) := by simp [encodeChunks]
    rw [e] at he
    obtain ⟨f, r, ha, hf⟩ := entry_advanceFed he
    have hc := hok c (by simp)
    rw [pAdvance_size_chunk (f + 2) r c _ hc] at ha
    have hfed : pAdvanceFed 8 s = true := by
      rw [hf]
      obtain ⟨⟨hd, hn, hext⟩, hl⟩ := hc
      have hlen : c.data.length ≠ 0 := by intro h; exact hd (List.length_eq_zero_iff.mp h)
      have e2 : encodeChunk c ++ (encodeChunks cs ++ X) = sizeLine c.size c.ext ++ (c.data ++ [CR, LF] ++ (encodeChunks cs ++ X)) := by
        simp [encodeChunk, Spec.Chunked.CRLF]
      rw [e2]
      exact pAdvanceFed_size_line (f + 2) r _ hn hl hext hlen
    apply allFed_of_advance ha hfed
    rw [List.append_assoc]
    apply allFed_data _ _ _ rfl
    exact ih ⟨.data, 0, [CR, LF] ++ (encodeChunks cs ++ X)⟩ X (fun c' hc' => hok c' (by simp [hc']))
      (Or.inr ⟨rfl, rfl, rfl⟩) hX

/-- a complete valid chunked body (followed by anything, or nothing) never makes the reader touch the end -/
theorem allFed_exact {cs : List Chunk} {ls : Bytes} {le : Option Bytes} {ts : List Bytes} (extra : Bytes)
    (hv : Valid cs ls le ts) (hsz : ∀ c ∈ cs, c.data.length < usizeLimit) {s : CAbs}
    (he : Entry s (encode cs ls le ts ++ extra)) : AllFed (.chunked s) := by
  have e : encode cs ls le ts ++ extra = encodeChunks cs ++ (encodeEnd ls le ts ++ extra) := by simp [encode]
  rw [e] at he
  apply allFed_chunks cs s _ (fun c hc => ⟨hv.chunks c hc, hsz c hc⟩) he
  intro s' he'
  obtain ⟨f, r, ha, hf⟩ := entry_advanceFed he'
  rw [pAdvance_size_end (f + 1) r ls le ts extra hv.last hv.lastExt hv.trailers] at ha
  have hfed : pAdvanceFed 8 s' = true := by
    rw [hf]; exact pAdvanceFed_size_end (f + 1) r ls le ts extra hv.last hv.lastExt hv.trailers
  exact .stop (o := .eof) (by simp only [nextB, ha]) (by simp [touchB, touchC, hfed, ha])

end Khttp.Body
