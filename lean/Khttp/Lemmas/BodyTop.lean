/-
  Glue between the runners and the abstract results: initial abstract states, and "every run of either API
  satisfies whatever all `Delivers` derivations from the initial state satisfy".
-/
import Khttp.Lemmas.BodyDeliv
import Khttp.Lemmas.BodyFixed
namespace Khttp.Body
open Khttp Khttp.Spec.Chunked

theorem newFixed_abs (lo : Bytes) (src : Src) (n : Nat) :
    (BodyReader.newFixed lo src n).abs = .fixed n ((lo ++ src.data).take n) := by
  simp [BodyReader.abs, BodyReader.newFixed, FixedReader.new, BufReader.new, BufReader.content,
    LawfulRaw.content, Take.content, Swl.content]

theorem newChunked_abs (lo : Bytes) (src : Src) :
    (BodyReader.newChunked lo src).abs = .chunked ⟨.size, 0, lo ++ src.data⟩ := by
  simp [BodyReader.abs, BodyReader.newChunked, ChunkedReader.new, BufReader.new, BufReader.content,
    LawfulRaw.content, Swl.content, ChunkedReader.abs]

theorem newEmpty_abs (src : Src) : (BodyReader.newEmpty src).abs = .empty := rfl

/-- a property of everything that can be delivered from an abstract state holds for both runners -/
theorem run_both (r : BodyReader) (P : Bytes → Outcome → Prop) (hP : ∀ p o, Delivers r.abs p o → P p o)
    (sched : List Nat) :
    (∃ cs o r', runRead' r sched = (cs, o, r') ∧ P cs.flatten o ∧ r'.fail = (r.fail || o.isErr) ∧ ∀ c ∈ cs, c ≠ []) ∧
    (∃ cs o r', runBuf' r sched = (cs, o, r') ∧ P cs.flatten o ∧ r'.fail = (r.fail || o.isErr) ∧ ∀ c ∈ cs, c ≠ []) := by
  obtain ⟨cs, o, r', e, hd, hf, hne⟩ := runRead'_delivers r sched
  obtain ⟨cs2, o2, r2, e2, hd2, hf2, hne2⟩ := runBuf'_delivers r sched
  exact ⟨⟨cs, o, r', e, hP _ _ hd, hf, hne⟩, ⟨cs2, o2, r2, e2, hP _ _ hd2, hf2, hne2⟩⟩

theorem runRead_eq (r : BodyReader) (sched : List Nat) :
    runRead r sched = ((runRead' r sched).1, (runRead' r sched).2.1) := rfl

theorem runBuf_eq (r : BodyReader) (sched : List Nat) :
    runBuf r sched = ((runBuf' r sched).1, (runBuf' r sched).2.1) := rfl

end Khttp.Body
