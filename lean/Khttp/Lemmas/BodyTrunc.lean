/-
  Malformed and truncated chunked bodies at the level of `Delivers`.
-/
import Khttp.Lemmas.BodyDeliv
namespace Khttp.Body
open Khttp Khttp.Spec.Chunked

/-! ## malformed framing -/

/-- `f` could be the text of a size field: it contains no `;`, CR or LF -/
def fieldText (f : Bytes) : Prop := ∀ b ∈ f, b ≠ Body.SEMI ∧ b ≠ CR ∧ b ≠ LF

/-- an extension that does not end the line prematurely -/
def extNoLF : Option Bytes → Prop
  | none => True
  | some e => ∀ b ∈ e, b ≠ LF

theorem pChunkSize_badField (f : Bytes) (ext : Option Bytes) (rest : Bytes) (hf : fieldText f)
    (hbad : f = [] ∨ f.all isHexDigit = false) (he : extNoLF ext) :
    pChunkSize (sizeLine f ext ++ rest) = .err .invalidData := by
  cases hp : pReadLine (sizeLine f ext ++ rest) with
  | err e =>
    have : e = .invalidData := by
      unfold pReadLine at hp; split at hp
      · cases hp
      · injection hp with hp; exact hp.symm
    subst this; simp [pChunkSize, hp]
  | ok q =>
    obtain ⟨line, rest'⟩ := q
    have hnolf : ∀ b ∈ f ++ extPart ext ++ [CR], b ≠ LF := by
      intro b hb
      rcases List.mem_append.mp hb with hb | hb
      · rcases List.mem_append.mp hb with hb | hb
        · exact (hf b hb).2.2
        · cases ext with
          | none => simp [extPart] at hb
          | some e =>
            simp only [extPart, List.mem_cons] at hb
            rcases hb with rfl | hb
            · decide
            · exact he b hb
      · simp at hb; subst hb; decide
    have hl : line = f ++ extPart ext ++ [CR] ++ [LF] := by
      have h1 := (pReadLine_ok hp).1
      rw [sizeLine_eq] at h1
      have e : f ++ extPart ext ++ [CR, LF] ++ rest = (f ++ extPart ext ++ [CR]) ++ LF :: rest := by simp
      rw [e, lineSplit_line _ _ hnolf] at h1
      exact (Prod.mk.inj h1).1.symm
    have hfield : trimEndCrLf (firstField line) = f := by
      rw [hl]
      have : f ++ extPart ext ++ [CR] ++ [LF] = f ++ (extPart ext ++ [CR, LF]) := by simp
      rw [this]
      apply field_of_line' _ _ hf
      cases ext with
      | none => right; intro b hb; simpa [extPart] using hb
      | some e => left; exact ⟨e ++ [CR, LF], rfl⟩
    refine pChunkSize_bad hp (by rw [hl]; simp) ?_
    rw [hfield]; exact hbad

/-- a size line whose size field is empty or not hexadecimal: the whole chunks before it are delivered, then an error -/
theorem delivers_bad_size (cs : List Chunk) (f : Bytes) (ext : Option Bytes) (rest : Bytes)
    (hok : ∀ c ∈ cs, ChunkOk c) (hf : fieldText f) (hbad : f = [] ∨ f.all isHexDigit = false) (he : extNoLF ext)
    {s : CAbs} {p : Bytes} {o : Outcome} (hen : Entry s (encodeChunks cs ++ (sizeLine f ext ++ rest)))
    (hd : Delivers (.chunked s) p o) : p = payload cs ∧ o = .err .invalidData := by
  obtain ⟨p', s', hp', he', hd'⟩ := delivers_chunks cs s _ p o hok hen hd
  obtain ⟨fu, r, ha⟩ := entry_advance he'
  have hce := pChunkSize_badField f ext rest hf hbad he
  have : pAdvance (fu + 4) ⟨.size, r, sizeLine f ext ++ rest⟩ = .err .invalidData := by simp only [pAdvance, hce]
  rw [this] at ha
  have hN : nextB (.chunked s') = .stop (.err .invalidData) := by simp only [nextB, ha]
  obtain ⟨h1, h2⟩ := delivers_stop hN hd'
  exact ⟨by rw [hp', h1]; simp, h2⟩

theorem pCrlf_bad (y : Bytes) (hy : y.take 2 ≠ [CR, LF]) :
    pCrlf y = .err (if y.length < 2 then .unexpectedEof else .invalidData) := by
  unfold pCrlf
  split
  · rfl
  · have : (y.take 2 != [CR, LF]) = true := by simpa using hy
    simp [this]

/-- chunk data not followed by CRLF: the payload up to and including that chunk is delivered, then an error -/
theorem delivers_bad_crlf (cs : List Chunk) (c : Chunk) (y : Bytes) (hok : ∀ c ∈ cs, ChunkOk c) (hc : ChunkOk c)
    (hy : y.take 2 ≠ [CR, LF])
    {s : CAbs} {p : Bytes} {o : Outcome} (hen : Entry s (encodeChunks cs ++ (sizeLine c.size c.ext ++ c.data ++ y)))
    (hd : Delivers (.chunked s) p o) :
    p = payload cs ++ c.data ∧ o = .err (if y.length < 2 then .unexpectedEof else .invalidData) := by
  obtain ⟨p', s', hp', he', hd'⟩ := delivers_chunks cs s _ p o hok hen hd
  obtain ⟨fu, r, ha⟩ := entry_advance he'
  obtain ⟨⟨hdne, hn, hext⟩, hl⟩ := hc
  have hlen : c.data.length ≠ 0 := by intro h; exact hdne (List.length_eq_zero_iff.mp h)
  rw [List.append_assoc, pAdvance_size_line (fu + 2) r _ hn hl hext hlen] at ha
  have hd1 := delivers_congr (nextB_advance_true ha) hd'
  obtain ⟨p1, hp1, hd2⟩ := delivers_data _ _ _ _ _ rfl hd1
  have hce := pCrlf_bad y hy
  have hN : nextB (.chunked ⟨.data, 0, y⟩) = .stop (.err (if y.length < 2 then .unexpectedEof else .invalidData)) := by
    simp [nextB, pAdvance, hce]
  obtain ⟨h1, h2⟩ := delivers_stop hN hd2
  exact ⟨by rw [hp', hp1, h1]; simp, h2⟩

/-! ## truncated bodies -/

theorem prefix_append_cases {p a b : Bytes} (h : p <+: a ++ b) :
    (p <+: a ∧ p.length < a.length) ∨ ∃ p', p = a ++ p' ∧ p' <+: b := by
  rw [List.prefix_iff_eq_take] at h
  by_cases hl : p.length < a.length
  · left
    rw [List.take_append_of_le_length (by omega)] at h
    exact ⟨by rw [h]; exact List.take_prefix _ _, hl⟩
  · right
    rw [List.take_append, List.take_of_length_le (by omega)] at h
    exact ⟨_, h, List.take_prefix _ _⟩

theorem pChunkSize_st {c : Bytes} {st : ChunkState} {v : Nat} {rest : Bytes} (h : pChunkSize c = .ok (st, v, rest)) :
    st = if v = 0 then .trailer else .data := by
  unfold pChunkSize at h
  cases hl : pReadLine c with
  | err e => simp [hl] at h
  | ok q =>
    obtain ⟨line, r⟩ := q
    simp only [hl] at h
    split at h
    · cases h
    · split at h
      · cases h
      · split at h
        · cases h
        · injection h with h; injection h with h1 h2; injection h2 with h2 _
          subst h2; exact h1.symm

theorem pAdvance_trailer_not_true (f : Nat) (r : Nat) (c : Bytes) (s : CAbs) :
    pAdvance f ⟨.trailer, r, c⟩ ≠ .ok (true, s) := by
  intro h
  cases f with
  | zero => simp [pAdvance] at h
  | succ f =>
    simp only [pAdvance] at h
    cases ht : pTrailers (c.length + 1) c with
    | err e => simp [ht] at h
    | ok rest =>
      simp only [ht] at h
      cases f with
      | zero => simp [pAdvance] at h
      | succ f => simp [pAdvance] at h

/-- if `advance` finds data after reading a size line, that line denoted a non-zero size -/
theorem pAdvance_size_true {f r : Nat} {X : Bytes} {s : CAbs} (h : pAdvance f ⟨.size, r, X⟩ = .ok (true, s)) :
    ∃ st v rest, pChunkSize X = .ok (st, v, rest) ∧ v ≠ 0 := by
  cases f with
  | zero => simp [pAdvance] at h
  | succ f =>
    simp only [pAdvance] at h
    cases hc : pChunkSize X with
    | err e => simp [hc] at h
    | ok q =>
      obtain ⟨st, v, rest⟩ := q
      simp only [hc] at h
      refine ⟨st, v, rest, rfl, ?_⟩
      intro hv
      have hst := pChunkSize_st hc
      simp only [hv, if_true] at hst
      subst hst
      exact pAdvance_trailer_not_true _ _ _ _ h

/-- the line body of a size line (everything before its LF) is ASCII without LF -/
theorem sizeLineBody_ascii {sz : Bytes} {ext : Option Bytes} {n : Nat} (hn : numeral? sz = some n)
    (he : extOk ext = true) : ∀ b ∈ sz ++ extPart ext ++ [CR], b < 0x80 ∧ b ≠ LF := by
  obtain ⟨_, hhex, _⟩ := numeral?_some hn
  intro b hb
  rcases List.mem_append.mp hb with hb | hb
  · rcases List.mem_append.mp hb with hb | hb
    · have := hexDigit_sep (List.all_eq_true.mp hhex b hb)
      exact ⟨this.2.2.2, this.2.2.1⟩
    · exact extPart_ascii he b hb
  · simp at hb; subst hb; decide

/-- a size line cut off before its LF (also: nothing at all): `UnexpectedEof`, never a size -/
theorem stop_of_partial_sizeLine {sz : Bytes} {ext : Option Bytes} {n : Nat} (hn : numeral? sz = some n)
    (he : extOk ext = true) {X : Bytes} (hX : X <+: sz ++ extPart ext ++ [CR]) {s : CAbs} (hen : Entry s X) :
    nextB (.chunked s) = .stop (.err .unexpectedEof) := by
  obtain ⟨fu, r, ha⟩ := entry_advance hen
  have hasc : ∀ b ∈ X, b < 0x80 ∧ b ≠ LF := fun b hb => sizeLineBody_ascii hn he b (hX.subset hb)
  have : pAdvance (fu + 4) ⟨.size, r, X⟩ = .err .unexpectedEof := by
    simp only [pAdvance, pChunkSize_noLF_ascii X hasc]
  rw [this] at ha
  simp only [nextB, ha]

/-- the part of the input after the last whole chunk is a strict prefix of the next chunk `c`:
a prefix of its data is delivered, then `UnexpectedEof` -/
theorem delivers_trunc_chunk (c : Chunk) (hc : ChunkOk c) {X : Bytes} (hX : X <+: encodeChunk c)
    (hlt : X.length < (encodeChunk c).length) {s : CAbs} {p : Bytes} {o : Outcome} (hen : Entry s X)
    (hd : Delivers (.chunked s) p o) : p <+: c.data ∧ o = .err .unexpectedEof := by
  obtain ⟨⟨hdne, hn, hext⟩, hl⟩ := hc
  have hlen : c.data.length ≠ 0 := by intro h; exact hdne (List.length_eq_zero_iff.mp h)
  have e : encodeChunk c = (c.size ++ extPart c.ext ++ [CR]) ++ ([LF] ++ (c.data ++ [CR, LF])) := by
    simp [encodeChunk, sizeLine_eq, Spec.Chunked.CRLF]
  rw [e] at hX hlt
  have hpart : X <+: c.size ++ extPart c.ext ++ [CR] → p <+: c.data ∧ o = .err .unexpectedEof := by
    intro hp
    obtain ⟨h1, h2⟩ := delivers_stop (stop_of_partial_sizeLine hn hext hp hen) hd
    exact ⟨by rw [h1]; exact List.nil_prefix, h2⟩
  rcases prefix_append_cases hX with ⟨hp, _⟩ | ⟨X1, hX1, hp1⟩
  · exact hpart hp
  · rcases prefix_append_cases hp1 with ⟨hp2, hl2⟩ | ⟨X2, hX2, hp2⟩
    · have hX1nil : X1 = [] := by
        cases X1 with
        | nil => rfl
        | cons b t => simp at hl2
      subst hX1nil
      exact hpart (by rw [hX1]; simp)
    · -- X = sizeLine ++ X2, X2 a strict prefix of data ++ CRLF
      obtain ⟨fu, r, ha⟩ := entry_advance hen
      have hXeq : X = sizeLine c.size c.ext ++ X2 := by
        rw [hX1, hX2, sizeLine_eq]; simp
      rw [hXeq, pAdvance_size_line (fu + 2) r _ hn hl hext hlen] at ha
      have hd1 := delivers_congr (nextB_advance_true ha) hd
      have hX2len : X2.length < c.data.length + 2 := by
        rw [hX1, hX2] at hlt; simp at hlt; omega
      rcases prefix_append_cases hp2 with ⟨hp3, hl3⟩ | ⟨X3, hX3, hp3⟩
      · obtain ⟨he, hpp⟩ := delivers_data_short _ _ _ _ _ rfl hl3 hd1
        exact ⟨hpp.trans hp3, he⟩
      · rw [hX3] at hd1
        obtain ⟨p1, hp1', hd2⟩ := delivers_data _ _ _ _ _ rfl hd1
        have hX3len : X3.length < 2 := by rw [hX3] at hX2len; simp at hX2len; omega
        have hN : nextB (.chunked ⟨.data, 0, X3⟩) = .stop (.err .unexpectedEof) := by
          simp [nextB, pAdvance, pCrlf, hX3len]
        obtain ⟨h1, h2⟩ := delivers_stop hN hd2
        exact ⟨by rw [hp1', h1]; simp, h2⟩

theorem pTrailers_nil (f : Nat) : pTrailers (f + 1) [] = .ok [] := by
  simp [pTrailers, pReadLine, lineSplit, validUtf8, validUtf8Aux]

/-- any prefix of a valid trailer section is skipped without error -/
theorem pTrailers_prefix (ts : List Bytes) (hts : ∀ t ∈ ts, trailerOk t = true) :
    ∀ (Y : Bytes) (f : Nat), Y <+: encodeTrailers ts ++ [CR, LF] → Y.length < f → ∃ rest, pTrailers f Y = .ok rest := by
  induction ts with
  | nil =>
    intro Y f hY hf
    cases f with
    | zero => omega
    | succ f =>
      simp only [encodeTrailers, List.map_nil, List.flatten_nil, List.nil_append] at hY
      cases Y with
      | nil => exact ⟨_, pTrailers_nil f⟩
      | cons a Y =>
        obtain ⟨u, hu⟩ := hY
        simp at hu
        obtain ⟨rfl, hu⟩ := hu
        cases Y with
        | nil =>
          cases f with
          | zero => simp at hf
          | succ f =>
            refine ⟨[], ?_⟩
            have : pReadLine [CR] = .ok ([CR], []) := pReadLine_partial [CR] (by intro b hb; simp at hb; subst hb; decide)
            simp only [pTrailers, this]
            simp [pReadLine, lineSplit, validUtf8, validUtf8Aux, CR, LF]
        | cons b Y =>
          simp at hu
          obtain ⟨rfl, hu⟩ := hu
          have hY : Y = [] := by
            cases Y with
            | nil => rfl
            | cons _ _ => simp at hu
          subst hY
          have : pReadLine ([CR] ++ LF :: []) = .ok ([CR] ++ [LF], []) :=
            pReadLine_line [CR] [] (by intro b hb; simp at hb; subst hb; decide)
          refine ⟨[], ?_⟩
          simp only [pTrailers]
          rw [show [CR, LF] = [CR] ++ LF :: [] from rfl, this]
          simp
  | cons t ts ih =>
    intro Y f hY hf
    cases f with
    | zero => omega
    | succ f =>
      have ht := hts t (by simp)
      simp only [trailerOk, Bool.and_eq_true, Bool.not_eq_true'] at ht
      have htne : t ≠ [] := by intro h; simp [h] at ht
      have hasc : ∀ b ∈ t ++ [CR], b < 0x80 ∧ b ≠ LF := by
        intro b hb
        rcases List.mem_append.mp hb with hb | hb
        · exact lineText_mem ht.2 b hb
        · simp at hb; subst hb; decide
      have e : encodeTrailers (t :: ts) ++ [CR, LF]
          = (t ++ [CR]) ++ ([LF] ++ (encodeTrailers ts ++ [CR, LF])) := by
        simp [encodeTrailers, Spec.Chunked.CRLF]
      rw [e] at hY
      have hblank : ∀ (l : Bytes), l ≠ [] → (∀ b ∈ l, b ≠ LF) → (l == [CR, LF]) = false ∧ (l == [LF]) = false := by
        intro l _ hl
        constructor <;> (apply beq_eq_false_iff_ne.mpr; intro h; subst h; simp at hl)
      rcases prefix_append_cases hY with ⟨hp, _⟩ | ⟨Y1, hY1, hp1⟩
      · -- no LF in Y
        have hascY : ∀ b ∈ Y, b < 0x80 ∧ b ≠ LF := fun b hb => hasc b (hp.subset hb)
        have hline := pReadLine_partial Y hascY
        by_cases hYne : Y = []
        · subst hYne; exact ⟨_, pTrailers_nil f⟩
        · obtain ⟨h1, h2⟩ := hblank Y hYne (fun b hb => (hascY b hb).2)
          have hl0 : Y.length ≠ 0 := by intro h; exact hYne (List.length_eq_zero_iff.mp h)
          have hf1 : ∃ f', f = f' + 1 := by
            cases f with
            | zero => exfalso; omega
            | succ f' => exact ⟨f', rfl⟩
          obtain ⟨f', rfl⟩ := hf1
          refine ⟨[], ?_⟩
          unfold pTrailers
          simp only [hline, hl0, h1, h2, decide_false, Bool.or_false, Bool.false_eq_true, if_false]
          exact pTrailers_nil f'
      · rcases prefix_append_cases hp1 with ⟨hp2, hl2⟩ | ⟨Y2, hY2, hp2⟩
        · have hY1nil : Y1 = [] := by
            cases Y1 with
            | nil => rfl
            | cons b u => simp at hl2
          subst hY1nil
          have hYeq : Y = t ++ [CR] := by simpa using hY1
          have hline := pReadLine_partial Y (by rw [hYeq]; exact hasc)
          have hYne : Y ≠ [] := by rw [hYeq]; simp
          obtain ⟨h1, h2⟩ := hblank Y hYne (by rw [hYeq]; exact fun b hb => (hasc b hb).2)
          have hl0 : Y.length ≠ 0 := by intro h; exact hYne (List.length_eq_zero_iff.mp h)
          have hf1 : ∃ f', f = f' + 1 := by
            cases f with
            | zero => exfalso; omega
            | succ f' => exact ⟨f', rfl⟩
          obtain ⟨f', rfl⟩ := hf1
          refine ⟨[], ?_⟩
          unfold pTrailers
          simp only [hline, hl0, h1, h2, decide_false, Bool.or_false, Bool.false_eq_true, if_false]
          exact pTrailers_nil f'
        · have hYeq : Y = (t ++ [CR]) ++ LF :: Y2 := by rw [hY1, hY2]; simp
          have hline := pReadLine_line (t ++ [CR]) Y2 hasc
          have hlen : 0 < t.length := List.length_pos_iff.mpr htne
          have h1 : ¬ ((t ++ [CR] ++ [LF]).length = 0) := by simp
          have h2 : (t ++ [CR] ++ [LF] == [CR, LF]) = false := by
            apply Bool.eq_false_iff.mpr
            intro h
            have := congrArg List.length (eq_of_beq h)
            simp only [List.length_append, List.length_cons, List.length_nil] at this; omega
          have h3 : (t ++ [CR] ++ [LF] == [LF]) = false := by
            apply Bool.eq_false_iff.mpr
            intro h
            have := congrArg List.length (eq_of_beq h)
            simp only [List.length_append, List.length_cons, List.length_nil] at this; omega
          rw [hYeq] at hf ⊢
          unfold pTrailers
          rw [hline]
          simp only [h1, h2, h3, decide_false, Bool.or_false, Bool.false_eq_true, if_false]
          apply ih (fun t' ht' => hts t' (by simp [ht'])) Y2 f hp2
          simp at hf; omega

/-- the input ends inside the part after the last data chunk (last-chunk line, trailers, final CRLF):
nothing more is delivered; the body ends cleanly iff the last-chunk line `0[;ext]CRLF` arrived completely -/
theorem delivers_trunc_end (ls : Bytes) (le : Option Bytes) (ts : List Bytes) (hl : numeral? ls = some 0)
    (he : extOk le = true) (hts : ∀ t ∈ ts, trailerOk t = true) {X : Bytes} (hX : X <+: encodeEnd ls le ts)
    {s : CAbs} {p : Bytes} {o : Outcome} (hen : Entry s X) (hd : Delivers (.chunked s) p o) :
    p = [] ∧ o = (if (sizeLine ls le).length ≤ X.length then .eof else .err .unexpectedEof) := by
  have e : encodeEnd ls le ts = (ls ++ extPart le ++ [CR]) ++ ([LF] ++ (encodeTrailers ts ++ [CR, LF])) := by
    simp [encodeEnd, sizeLine_eq, Spec.Chunked.CRLF]
  have hsl : (sizeLine ls le).length = (ls ++ extPart le ++ [CR]).length + 1 := by
    rw [sizeLine_eq]; simp only [List.length_append, List.length_cons, List.length_nil]
  rw [e] at hX
  have hpart : X <+: ls ++ extPart le ++ [CR] →
      p = [] ∧ o = (if (sizeLine ls le).length ≤ X.length then .eof else .err .unexpectedEof) := by
    intro hp
    obtain ⟨h1, h2⟩ := delivers_stop (stop_of_partial_sizeLine hl he hp hen) hd
    have := hp.length_le
    rw [if_neg (by omega)]
    exact ⟨h1, h2⟩
  rcases prefix_append_cases hX with ⟨hp, _⟩ | ⟨X1, hX1, hp1⟩
  · exact hpart hp
  · rcases prefix_append_cases hp1 with ⟨hp2, hl2⟩ | ⟨X2, hX2, hp2⟩
    · have hX1nil : X1 = [] := by
        cases X1 with
        | nil => rfl
        | cons b u => simp at hl2
      subst hX1nil
      exact hpart (by rw [hX1]; simp)
    · obtain ⟨fu, r, ha⟩ := entry_advance hen
      have hXeq : X = sizeLine ls le ++ X2 := by rw [hX1, hX2, sizeLine_eq]; simp
      obtain ⟨rest, hr⟩ := pTrailers_prefix ts hts X2 (X2.length + 1) hp2 (by omega)
      have hcs := pChunkSize_sizeLine X2 hl (by decide) he
      simp only [if_true] at hcs
      have : pAdvance (fu + 4) ⟨.size, r, X⟩ = .ok (false, ⟨.done, 0, rest⟩) := by
        rw [hXeq]; simp only [pAdvance, hcs, hr]
      rw [this] at ha
      have hN : nextB (.chunked s) = .stop .eof := by simp only [nextB, ha]
      obtain ⟨h1, h2⟩ := delivers_stop hN hd
      rw [if_pos (by rw [hXeq]; simp)]
      exact ⟨h1, h2⟩

theorem payload_cons (c : Chunk) (cs : List Chunk) : payload (c :: cs) = c.data ++ payload cs := by simp [payload]

/-- **every prefix of a valid chunked body**, classified: a prefix of the payload is delivered; the body ends
cleanly (and then the payload is complete) iff all data chunks and the complete last-chunk line arrived;
otherwise `UnexpectedEof` -/
theorem delivers_truncated (ls : Bytes) (le : Option Bytes) (ts : List Bytes) (hl : numeral? ls = some 0)
    (he : extOk le = true) (hts : ∀ t ∈ ts, trailerOk t = true) (cs : List Chunk) :
    ∀ (pre : Bytes) (s : CAbs) (p : Bytes) (o : Outcome), (∀ c ∈ cs, ChunkOk c) →
      pre <+: encodeChunks cs ++ encodeEnd ls le ts → Entry s pre → Delivers (.chunked s) p o →
      p <+: payload cs ∧
      ((encodeChunks cs).length + (sizeLine ls le).length ≤ pre.length → o = .eof ∧ p = payload cs) ∧
      (pre.length < (encodeChunks cs).length + (sizeLine ls le).length → o = .err .unexpectedEof) := by
  induction cs with
  | nil =>
    intro pre s p o _ hpre hen hd
    simp only [encodeChunks, List.map_nil, List.flatten_nil, List.nil_append] at hpre
    obtain ⟨h1, h2⟩ := delivers_trunc_end ls le ts hl he hts hpre hen hd
    refine ⟨by rw [h1]; exact List.nil_prefix, ?_, ?_⟩
    · intro hlen
      simp only [encodeChunks, List.map_nil, List.flatten_nil, List.length_nil, Nat.zero_add] at hlen
      rw [if_pos hlen] at h2
      exact ⟨h2, by rw [h1]; simp [payload]⟩
    · intro hlen
      simp only [encodeChunks, List.map_nil, List.flatten_nil, List.length_nil, Nat.zero_add] at hlen
      rw [if_neg (by omega)] at h2
      exact h2
  | cons c cs ih =>
    intro pre s p o hok hpre hen hd
    have hc := hok c (by simp)
    have e : encodeChunks (c :: cs) ++ encodeEnd ls le ts = encodeChunk c ++ (encodeChunks cs ++ encodeEnd ls le ts) := by
      simp [encodeChunks]
    have elen : (encodeChunks (c :: cs)).length = (encodeChunk c).length + (encodeChunks cs).length := by
      simp [encodeChunks]
    rw [e] at hpre
    rcases prefix_append_cases hpre with ⟨hp, hlt⟩ | ⟨pre', hpre', hp'⟩
    · obtain ⟨h1, h2⟩ := delivers_trunc_chunk c hc hp hlt hen hd
      refine ⟨by rw [payload_cons]; exact h1.trans (List.prefix_append _ _), ?_, ?_⟩
      · intro hlen; omega
      · intro _; exact h2
    · have hen1 : Entry s (encodeChunks [c] ++ pre') := by simpa [encodeChunks, hpre'] using hen
      obtain ⟨p', s', hpp, hen', hd'⟩ := delivers_chunks [c] s pre' p o
        (by intro c' hc'; simp at hc'; subst hc'; exact hc) hen1 hd
      have hpp' : p = c.data ++ p' := by simpa [payload] using hpp
      obtain ⟨i1, i2, i3⟩ := ih pre' s' p' o (fun c' hc' => hok c' (by simp [hc'])) hp' hen' hd'
      have hprelen : pre.length = (encodeChunk c).length + pre'.length := by rw [hpre']; simp
      refine ⟨?_, ?_, ?_⟩
      · rw [hpp', payload_cons]; exact (List.prefix_append_right_inj _).mpr i1
      · intro hlen
        obtain ⟨j1, j2⟩ := i2 (by omega)
        exact ⟨j1, by rw [hpp', payload_cons, j2]⟩
      · intro hlen
        exact i3 (by omega)

end Khttp.Body
