/-
  Inclusions between byte classes, by exhausting the 256 byte values.
-/
import Khttp.Model.Parser
import Khttp.Spec.Head
namespace Khttp
open Spec

theorem forall_uint8_bc {P : UInt8 → Prop} (h : ∀ n : Fin 256, P (UInt8.ofNat n.val)) : ∀ b, P b := by
  intro b
  have := h ⟨b.toNat, b.toNat_lt⟩
  simpa using this

theorem isVisible_eq_isVchar : ∀ b : UInt8, isVisible b = isVchar b := by
  apply forall_uint8_bc; decide +kernel

theorem isAlpha_ascii : ∀ b : UInt8, isAlpha b = true → isAscii b = true := by
  apply forall_uint8_bc; decide +kernel

theorem isAlpha_ne_SP : ∀ b : UInt8, isAlpha b = true → b ≠ SP := by
  apply forall_uint8_bc; decide +kernel

theorem isVisible_ascii : ∀ b : UInt8, isVisible b = true → isAscii b = true := by
  apply forall_uint8_bc; decide +kernel

theorem isVchar_ne_SP : ∀ b : UInt8, isVchar b = true → b ≠ SP := by
  apply forall_uint8_bc; decide +kernel

theorem isTchar_ascii : ∀ b : UInt8, isTchar b = true → isAscii b = true := by
  apply forall_uint8_bc; decide +kernel

theorem isTchar_ne_COLON : ∀ b : UInt8, isTchar b = true → b ≠ COLON := by
  apply forall_uint8_bc; decide +kernel

theorem isTchar_ne_CR : ∀ b : UInt8, isTchar b = true → b ≠ CR := by
  apply forall_uint8_bc; decide +kernel

theorem isReasonByte_ascii : ∀ b : UInt8, isReasonByte b = true → isAscii b = true := by
  apply forall_uint8_bc; decide +kernel

theorem isFieldValueByte_ne_LF : ∀ b : UInt8, isFieldValueByte b = true → b ≠ LF := by
  apply forall_uint8_bc; decide +kernel

end Khttp
