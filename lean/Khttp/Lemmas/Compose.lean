/-
  Composition of the per-stage facts into facts about `Request.parse` / `Response.parse`.
  Helper lemmas for Khttp/Props/C01..C04.
-/
import Khttp.Lemmas.StageMethod
import Khttp.Lemmas.StageUri
import Khttp.Lemmas.StageHeaders
import Khttp.Lemmas.ByteClass
namespace Khttp

-- ---------------------------------------------------------------- generic `Res` facts

namespace Res

theorem safe_ok {α} (a : α) : (Res.ok a).Safe := ⟨rfl, rfl⟩
theorem safe_err {α} (e : PErr) : (Res.err e : Res α).Safe := ⟨rfl, rfl⟩
theorem not_safe_panic {α} (s : String) : ¬ (Res.panic s : Res α).Safe := by
  intro h; exact absurd h.1 (by simp [isPanic])
theorem not_safe_ub {α} (s : String) : ¬ (Res.ub s : Res α).Safe := by
  intro h; exact absurd h.2 (by simp [isUb])

/-- a safe result is `ok` or `err` -/
theorem Safe.cases {α} {x : Res α} (h : x.Safe) : (∃ a, x = .ok a) ∨ (∃ e, x = .err e) := by
  cases x with
  | ok a => exact .inl ⟨a, rfl⟩
  | err e => exact .inr ⟨e, rfl⟩
  | panic s => exact absurd h (not_safe_panic s)
  | ub s => exact absurd h (not_safe_ub s)

theorem bind_safe {α β} {x : Res α} {f : α → Res β} (hx : x.Safe) (hf : ∀ a, x = .ok a → (f a).Safe) :
    (x >>= f).Safe := by
  rcases hx.cases with ⟨a, rfl⟩ | ⟨e, rfl⟩
  · exact hf a rfl
  · exact safe_err e

theorem bind_eq_ok {α β} {x : Res α} {f : α → Res β} {b : β} :
    (x >>= f) = .ok b ↔ ∃ a, x = .ok a ∧ f a = .ok b := by
  cases x with
  | ok a => simp
  | err e => simp
  | panic s => simp
  | ub s => simp

theorem bind_eq_err {α β} {x : Res α} {f : α → Res β} {e : PErr} (h : (x >>= f) = .err e) :
    x = .err e ∨ ∃ a, x = .ok a ∧ f a = .err e := by
  cases x with
  | ok a => exact .inr ⟨a, rfl, h⟩
  | err e' => simp at h; exact .inl (by rw [h])
  | panic s => simp at h
  | ub s => simp at h

end Res

-- ---------------------------------------------------------------- uniform stage facts


theorem parseMethod_accept_stable {buf : Bytes} {m : Method} {rest : Bytes}
    (h : parseMethod buf = .ok (m, rest)) (ext : Bytes) :
    parseMethod (buf ++ ext) = .ok (m, rest ++ ext) := by
  obtain ⟨mb, rfl, h1, h2, h3, h4⟩ := (parseMethod_ok_iff _ _ _).1 h
  exact (parseMethod_ok_iff _ _ _).2 ⟨mb, by simp, h1, h2, h3, h4⟩

theorem parseMethod_suffix {buf : Bytes} {m : Method} {rest : Bytes}
    (h : parseMethod buf = .ok (m, rest)) : rest <:+ buf := by
  obtain ⟨mb, rfl, -⟩ := (parseMethod_ok_iff _ _ _).1 h
  exact ⟨mb ++ [SP], by simp⟩

theorem parseUri_suffix {buf : Bytes} {u : Uri} {rest : Bytes}
    (h : parseUri buf = .ok (u, rest)) : rest <:+ buf := by
  obtain ⟨h1, -⟩ := parseUri_sound _ _ _ h
  exact ⟨u.full ++ [SP], by rw [h1]; simp⟩

theorem parseVersion_accept_stable {buf : Bytes} {v : UInt8} {rest : Bytes}
    (h : parseVersion buf = .ok (v, rest)) (ext : Bytes) :
    parseVersion (buf ++ ext) = .ok (v, rest ++ ext) := by
  rcases (parseVersion_ok_iff _ _ _).1 h with ⟨rfl, hv⟩ | ⟨rfl, hv⟩
  · exact (parseVersion_ok_iff _ _ _).2 (.inl ⟨by simp, hv⟩)
  · exact (parseVersion_ok_iff _ _ _).2 (.inr ⟨by simp, hv⟩)

theorem parseVersion_suffix {buf : Bytes} {v : UInt8} {rest : Bytes}
    (h : parseVersion buf = .ok (v, rest)) : rest <:+ buf := by
  rcases (parseVersion_ok_iff _ _ _).1 h with ⟨rfl, -⟩ | ⟨rfl, -⟩
  · exact ⟨HTTP1 ++ [0x30], by simp⟩
  · exact ⟨HTTP1 ++ [0x31], by simp⟩

theorem parseHeaders_accept_stable {buf : Bytes} {hs : Headers} {rest : Bytes}
    (h : parseHeaders buf = .ok (hs, rest)) (ext : Bytes) :
    parseHeaders (buf ++ ext) = .ok (hs, rest ++ ext) := by
  obtain ⟨lines, rfl, h1, h2⟩ := (parseHeaders_ok_iff _ _ _).1 h
  exact (parseHeaders_ok_iff _ _ _).2 ⟨lines, by simp, h1, h2⟩

theorem parseHeaders_suffix {buf : Bytes} {hs : Headers} {rest : Bytes}
    (h : parseHeaders buf = .ok (hs, rest)) : rest <:+ buf := by
  obtain ⟨lines, rfl, -⟩ := (parseHeaders_ok_iff _ _ _).1 h
  exact ⟨_, rfl⟩

theorem parseResponseStatus_suffix {buf : Bytes} {code : Nat} {reason rest : Bytes}
    (h : parseResponseStatus buf = .ok (code, reason, rest)) : rest <:+ buf := by
  obtain ⟨d1, d2, d3, -, -, -, -, rfl, -⟩ := parseResponseStatus_sound _ _ _ _ h
  exact ⟨_, rfl⟩

-- ---------------------------------------------------------------- normal forms of the top-level parsers

/-- the CRLF check after the request line -/
def crlfStep (rest : Bytes) : Res Bytes :=
  match rest with
  | c :: l :: rest => if c == CR && l == LF then .ok rest else .err .status
  | [c] => if c == CR then .err .eof else .err .status
  | [] => .err .eof

def Request.finish (n : Nat) (m : Method) (u : Uri) (v : UInt8) (hs : Headers) (r5 : Bytes) : Res Request :=
  if hs.hasInvalidFraming then .err .header
  else offsetOf n r5.length >>= fun off => .ok ⟨m, u, v, hs, off⟩

theorem Request.parse_eq (buf : Bytes) : Request.parse buf =
    (parseMethod buf >>= fun x => parseUri x.2 >>= fun y => parseVersion y.2 >>= fun z =>
      crlfStep z.2 >>= fun r4 => parseHeaders r4 >>= fun w =>
        Request.finish buf.length x.1 y.1 z.1 w.1 w.2) := by
  unfold Request.parse
  cases parseMethod buf <;> try rfl
  rename_i x
  simp only [Res.bind_ok]
  cases parseUri x.2 <;> try rfl
  rename_i y
  simp only [Res.bind_ok]
  cases parseVersion y.2 <;> try rfl
  rename_i z
  simp only [Res.bind_ok]
  rcases z with ⟨v, _ | ⟨c, _ | ⟨l, r4⟩⟩⟩
  · rfl
  · simp only [crlfStep]; split <;> rfl
  · simp only [crlfStep]; split <;> rfl

def Response.finish (n : Nat) (v : UInt8) (code : Nat) (reason : Bytes) (hs : Headers) (r5 : Bytes) : Res Response :=
  offsetOf n r5.length >>= fun off => .ok ⟨v, code, reason, hs, off⟩

def spStep (rest : Bytes) : Res Bytes :=
  match rest with
  | [] => .err .eof
  | b :: rest => if b == SP then .ok rest else .err .status

theorem Response.parse_eq (buf : Bytes) : Response.parse buf =
    (parseVersion buf >>= fun z => spStep z.2 >>= fun r2 => parseResponseStatus r2 >>= fun s =>
      parseHeaders s.2.2 >>= fun w => Response.finish buf.length z.1 s.1 s.2.1 w.1 w.2) := by
  unfold Response.parse
  cases parseVersion buf <;> try rfl
  rename_i z
  simp only [Res.bind_ok]
  rcases z with ⟨v, _ | ⟨c, r2⟩⟩
  · rfl
  · simp only [spStep]; split <;> rfl

theorem crlfStep_safe (r : Bytes) : (crlfStep r).Safe := by
  unfold crlfStep; split
  · split
    · exact Res.safe_ok _
    · exact Res.safe_err _
  · split <;> exact Res.safe_err _
  · exact Res.safe_err _

theorem crlfStep_ok_iff (r r4 : Bytes) : crlfStep r = .ok r4 ↔ r = CR :: LF :: r4 := by
  unfold crlfStep; split
  · rename_i c l rest
    by_cases hc : (c == CR && l == LF) = true
    · simp only [hc, if_true]
      simp only [Bool.and_eq_true, beq_iff_eq] at hc
      simp [hc.1, hc.2]
    · simp only [hc]
      simp only [Bool.and_eq_true, beq_iff_eq] at hc
      simp
      intro a b; exact absurd ⟨a, b⟩ hc
  · split <;> simp
  · simp

theorem crlfStep_reject_stable (r : Bytes) (e : PErr) (h : crlfStep r = .err e) (he : e ≠ .eof) (ext : Bytes) :
    crlfStep (r ++ ext) = .err e := by
  rcases r with _ | ⟨c, _ | ⟨l, r4⟩⟩
  · simp [crlfStep] at h; exact absurd h.symm he
  · simp only [crlfStep] at h
    by_cases hc : (c == CR) = true
    · simp [hc] at h; exact absurd h.symm he
    · simp only [hc] at h
      rcases ext with _ | ⟨x, ext⟩
      · simpa [crlfStep, hc] using h
      · simpa [crlfStep, hc] using h
  · simp only [crlfStep, List.cons_append] at h ⊢
    by_cases hc : (c == CR && l == LF) = true
    · simp [hc] at h
    · simpa [hc] using h

theorem spStep_safe (r : Bytes) : (spStep r).Safe := by
  unfold spStep; split
  · exact Res.safe_err _
  · split
    · exact Res.safe_ok _
    · exact Res.safe_err _

theorem spStep_ok_iff (r r2 : Bytes) : spStep r = .ok r2 ↔ r = SP :: r2 := by
  unfold spStep; split
  · simp
  · rename_i b rest
    by_cases hb : (b == SP) = true
    · simp only [hb, if_true]; simp only [beq_iff_eq] at hb; simp [hb]
    · simp only [hb]; simp only [beq_iff_eq] at hb; simp [hb]

theorem spStep_reject_stable (r : Bytes) (e : PErr) (h : spStep r = .err e) (he : e ≠ .eof) (ext : Bytes) :
    spStep (r ++ ext) = .err e := by
  rcases r with _ | ⟨b, r⟩
  · simp [spStep] at h; exact absurd h.symm he
  · simp only [spStep, List.cons_append] at h ⊢
    by_cases hb : (b == SP) = true
    · simp [hb] at h
    · simpa [hb] using h

theorem offsetOf_of_le {n r : Nat} (h : r ≤ n) : offsetOf n r = .ok (n - r) := by
  simp [offsetOf, h]

theorem offsetOf_ok_iff {n r off : Nat} : offsetOf n r = .ok off ↔ r ≤ n ∧ off = n - r := by
  unfold offsetOf; split
  · rename_i h; simp [h, eq_comm]
  · rename_i h; simp [h]

theorem Request.finish_ok_iff {n m u v hs r5 r} :
    Request.finish n m u v hs r5 = .ok r ↔
      hs.hasInvalidFraming = false ∧ r5.length ≤ n ∧ r = ⟨m, u, v, hs, n - r5.length⟩ := by
  unfold Request.finish
  cases hf : hs.hasInvalidFraming
  · simp only [Bool.false_eq_true, if_false, Res.bind_eq_ok, offsetOf_ok_iff, true_and]
    constructor
    · rintro ⟨off, ⟨h1, rfl⟩, h2⟩
      exact ⟨h1, by simpa [eq_comm] using h2⟩
    · rintro ⟨h1, rfl⟩
      exact ⟨_, ⟨h1, rfl⟩, rfl⟩
  · simp

theorem Request.parse_ok_iff (buf : Bytes) (r : Request) :
    Request.parse buf = .ok r ↔
      ∃ m r1 u r2 v r4 hs r5,
        parseMethod buf = .ok (m, r1) ∧ parseUri r1 = .ok (u, r2) ∧
        parseVersion r2 = .ok (v, CR :: LF :: r4) ∧ parseHeaders r4 = .ok (hs, r5) ∧
        hs.hasInvalidFraming = false ∧ r5.length ≤ buf.length ∧
        r = ⟨m, u, v, hs, buf.length - r5.length⟩ := by
  rw [Request.parse_eq]
  constructor
  · intro h
    obtain ⟨⟨m, r1⟩, hm, h⟩ := Res.bind_eq_ok.1 h
    obtain ⟨⟨u, r2⟩, hu, h⟩ := Res.bind_eq_ok.1 h
    obtain ⟨⟨v, r3⟩, hv, h⟩ := Res.bind_eq_ok.1 h
    obtain ⟨r4, hc, h⟩ := Res.bind_eq_ok.1 h
    obtain ⟨⟨hs, r5⟩, hh, h⟩ := Res.bind_eq_ok.1 h
    obtain ⟨hf, hl, rfl⟩ := Request.finish_ok_iff.1 h
    obtain rfl := (crlfStep_ok_iff _ _).1 hc
    exact ⟨m, r1, u, r2, v, r4, hs, r5, hm, hu, hv, hh, hf, hl, rfl⟩
  · rintro ⟨m, r1, u, r2, v, r4, hs, r5, hm, hu, hv, hh, hf, hl, rfl⟩
    simp only [hm, Res.bind_ok, hu, hv, (crlfStep_ok_iff _ _).2 rfl, hh]
    exact Request.finish_ok_iff.2 ⟨hf, hl, rfl⟩

theorem Response.finish_ok_iff {n v code reason hs r5 r} :
    Response.finish n v code reason hs r5 = .ok r ↔
      r5.length ≤ n ∧ r = ⟨v, code, reason, hs, n - r5.length⟩ := by
  unfold Response.finish
  simp only [Res.bind_eq_ok, offsetOf_ok_iff]
  constructor
  · rintro ⟨off, ⟨h1, rfl⟩, h2⟩
    exact ⟨h1, by simpa [eq_comm] using h2⟩
  · rintro ⟨h1, rfl⟩
    exact ⟨_, ⟨h1, rfl⟩, rfl⟩

theorem Response.parse_ok_iff (buf : Bytes) (r : Response) :
    Response.parse buf = .ok r ↔
      ∃ v r2 code reason r3 hs r5,
        parseVersion buf = .ok (v, SP :: r2) ∧ parseResponseStatus r2 = .ok (code, reason, r3) ∧
        parseHeaders r3 = .ok (hs, r5) ∧ r5.length ≤ buf.length ∧
        r = ⟨v, code, reason, hs, buf.length - r5.length⟩ := by
  rw [Response.parse_eq]
  constructor
  · intro h
    obtain ⟨⟨v, r1⟩, hv, h⟩ := Res.bind_eq_ok.1 h
    obtain ⟨r2, hc, h⟩ := Res.bind_eq_ok.1 h
    obtain ⟨⟨code, reason, r3⟩, hs', h⟩ := Res.bind_eq_ok.1 h
    obtain ⟨⟨hs, r5⟩, hh, h⟩ := Res.bind_eq_ok.1 h
    obtain ⟨hl, rfl⟩ := Response.finish_ok_iff.1 h
    obtain rfl := (spStep_ok_iff _ _).1 hc
    exact ⟨v, r2, code, reason, r3, hs, r5, hv, hs', hh, hl, rfl⟩
  · rintro ⟨v, r2, code, reason, r3, hs, r5, hv, hs', hh, hl, rfl⟩
    simp only [hv, Res.bind_ok, (spStep_ok_iff _ _).2 rfl, hs', hh]
    exact Response.finish_ok_iff.2 ⟨hl, rfl⟩

-- ---------------------------------------------------------------- safety

theorem Request.parse_safe (buf : Bytes) : (Request.parse buf).Safe := by
  rw [Request.parse_eq]
  refine Res.bind_safe (parseMethod_safe _) fun ⟨m, r1⟩ hm => ?_
  refine Res.bind_safe (parseUri_safe _) fun ⟨u, r2⟩ hu => ?_
  refine Res.bind_safe (parseVersion_safe _) fun ⟨v, r3⟩ hv => ?_
  refine Res.bind_safe (crlfStep_safe _) fun r4 hc => ?_
  refine Res.bind_safe (parseHeaders_safe _) fun ⟨hs, r5⟩ hh => ?_
  dsimp only at hu hv hc hh ⊢
  obtain rfl := (crlfStep_ok_iff _ _).1 hc
  have hl : r5.length ≤ buf.length := by
    have h1 := (parseMethod_suffix hm).length_le
    have h2 := (parseUri_suffix hu).length_le
    have h3 := (parseVersion_suffix hv).length_le
    have h4 := (parseHeaders_suffix hh).length_le
    simp only [List.length_cons] at h3
    omega
  unfold Request.finish
  split
  · exact Res.safe_err _
  · rw [offsetOf_of_le hl]; exact Res.safe_ok _

theorem Response.parse_safe (buf : Bytes) : (Response.parse buf).Safe := by
  rw [Response.parse_eq]
  refine Res.bind_safe (parseVersion_safe _) fun ⟨v, r1⟩ hv => ?_
  refine Res.bind_safe (spStep_safe _) fun r2 hc => ?_
  refine Res.bind_safe (parseResponseStatus_safe _) fun ⟨code, reason, r3⟩ hs' => ?_
  refine Res.bind_safe (parseHeaders_safe _) fun ⟨hs, r5⟩ hh => ?_
  dsimp only at hc hs' hh ⊢
  obtain rfl := (spStep_ok_iff _ _).1 hc
  have hl : r5.length ≤ buf.length := by
    have h1 := (parseVersion_suffix hv).length_le
    have h2 := (parseResponseStatus_suffix hs').length_le
    have h4 := (parseHeaders_suffix hh).length_le
    simp only [List.length_cons] at h1
    omega
  unfold Response.finish
  rw [offsetOf_of_le hl]; exact Res.safe_ok _

-- ---------------------------------------------------------------- accept-stability

theorem Request.parse_accept_stable (p ext : Bytes) (r : Request) (h : Request.parse p = .ok r) :
    Request.parse (p ++ ext) = .ok r := by
  obtain ⟨m, r1, u, r2, v, r4, hs, r5, hm, hu, hv, hh, hf, hl, rfl⟩ := (Request.parse_ok_iff _ _).1 h
  refine (Request.parse_ok_iff _ _).2 ⟨m, r1 ++ ext, u, r2 ++ ext, v, r4 ++ ext, hs, r5 ++ ext,
    parseMethod_accept_stable hm ext, parseUri_accept_stable _ _ _ hu ext,
    by simpa using parseVersion_accept_stable hv ext, parseHeaders_accept_stable hh ext, hf, ?_, ?_⟩
  · simp only [List.length_append]; omega
  · simp only [List.length_append, Request.mk.injEq, true_and]; omega

theorem Response.parse_accept_stable (p ext : Bytes) (r : Response) (h : Response.parse p = .ok r) :
    Response.parse (p ++ ext) = .ok r := by
  obtain ⟨v, r2, code, reason, r3, hs, r5, hv, hs', hh, hl, rfl⟩ := (Response.parse_ok_iff _ _).1 h
  refine (Response.parse_ok_iff _ _).2 ⟨v, r2 ++ ext, code, reason, r3 ++ ext, hs, r5 ++ ext,
    by simpa using parseVersion_accept_stable hv ext, parseResponseStatus_accept_stable _ _ _ _ hs' ext,
    parseHeaders_accept_stable hh ext, ?_, ?_⟩
  · simp only [List.length_append]; omega
  · simp only [List.length_append, Response.mk.injEq, true_and]; omega

theorem offsetOf_bind_ne_err {α} {n r : Nat} {f : Nat → Res α} {e : PErr}
    (hf : ∀ a, f a ≠ .err e) : (offsetOf n r >>= f) ≠ .err e := by
  unfold offsetOf; split
  · simpa using hf _
  · simp

theorem Request.parse_reject_stable (p ext : Bytes) (e : PErr) (h : Request.parse p = .err e)
    (he : e ≠ .eof) : ∃ e', Request.parse (p ++ ext) = .err e' ∧ e' ≠ .eof := by
  rw [Request.parse_eq] at h ⊢
  rcases Res.bind_eq_err h with h1 | ⟨⟨m, r1⟩, hm, h2⟩
  · obtain ⟨e', h', he'⟩ := parseMethod_reject_stable _ _ h1 he ext
    exact ⟨e', by rw [h']; rfl, he'⟩
  clear h
  rw [parseMethod_accept_stable hm ext]; simp only [Res.bind_ok] at h2 ⊢
  rcases Res.bind_eq_err h2 with h1 | ⟨⟨u, r2⟩, hu, h3⟩
  · obtain ⟨e', h', he'⟩ := parseUri_reject_stable _ _ h1 he ext
    exact ⟨e', by rw [h']; rfl, he'⟩
  clear h2
  rw [parseUri_accept_stable _ _ _ hu ext]; simp only [Res.bind_ok] at h3 ⊢
  rcases Res.bind_eq_err h3 with h1 | ⟨⟨v, r3⟩, hv, h4⟩
  · obtain ⟨e', h', he'⟩ := parseVersion_reject_stable _ _ h1 he ext
    exact ⟨e', by rw [h']; rfl, he'⟩
  clear h3
  rw [parseVersion_accept_stable hv ext]; simp only [Res.bind_ok] at h4 ⊢
  rcases Res.bind_eq_err h4 with h1 | ⟨r4, hc, h5⟩
  · exact ⟨e, by rw [crlfStep_reject_stable _ _ h1 he ext]; rfl, he⟩
  clear h4
  obtain rfl := (crlfStep_ok_iff _ _).1 hc
  rw [show CR :: LF :: r4 ++ ext = CR :: LF :: (r4 ++ ext) by rfl, (crlfStep_ok_iff _ _).2 rfl]
  simp only [Res.bind_ok] at h5 ⊢
  rcases Res.bind_eq_err h5 with h1 | ⟨⟨hs, r5⟩, hh, h6⟩
  · obtain ⟨e', h', he'⟩ := parseHeaders_reject_stable _ _ h1 he ext
    exact ⟨e', by rw [h']; rfl, he'⟩
  clear h5
  rw [parseHeaders_accept_stable hh ext]; simp only [Res.bind_ok] at h6 ⊢
  unfold Request.finish at h6 ⊢
  cases hf : hs.hasInvalidFraming
  · rw [hf] at h6
    exact absurd h6 (offsetOf_bind_ne_err (by simp))
  · exact ⟨.header, by simp, by decide⟩

theorem Response.parse_reject_stable (p ext : Bytes) (e : PErr) (h : Response.parse p = .err e)
    (he : e ≠ .eof) : ∃ e', Response.parse (p ++ ext) = .err e' ∧ e' ≠ .eof := by
  rw [Response.parse_eq] at h ⊢
  rcases Res.bind_eq_err h with h1 | ⟨⟨v, r1⟩, hv, h2⟩
  · obtain ⟨e', h', he'⟩ := parseVersion_reject_stable _ _ h1 he ext
    exact ⟨e', by rw [h']; rfl, he'⟩
  clear h
  rw [parseVersion_accept_stable hv ext]; simp only [Res.bind_ok] at h2 ⊢
  rcases Res.bind_eq_err h2 with h1 | ⟨r2, hc, h3⟩
  · exact ⟨e, by rw [spStep_reject_stable _ _ h1 he ext]; rfl, he⟩
  clear h2
  obtain rfl := (spStep_ok_iff _ _).1 hc
  rw [show SP :: r2 ++ ext = SP :: (r2 ++ ext) by rfl, (spStep_ok_iff _ _).2 rfl]
  simp only [Res.bind_ok] at h3 ⊢
  rcases Res.bind_eq_err h3 with h1 | ⟨⟨code, reason, r3⟩, hs', h4⟩
  · obtain ⟨e', h', he'⟩ := parseResponseStatus_reject_stable _ _ h1 he ext
    exact ⟨e', by rw [h']; rfl, he'⟩
  clear h3
  rw [parseResponseStatus_accept_stable _ _ _ _ hs' ext]; simp only [Res.bind_ok] at h4 ⊢
  rcases Res.bind_eq_err h4 with h1 | ⟨⟨hs, r5⟩, hh, h5⟩
  · obtain ⟨e', h', he'⟩ := parseHeaders_reject_stable _ _ h1 he ext
    exact ⟨e', by rw [h']; rfl, he'⟩
  unfold Response.finish at h5
  exact absurd h5 (offsetOf_bind_ne_err (by simp))

theorem Request.parse_off_le {bs : Bytes} {r : Request} (h : Request.parse bs = .ok r) : r.off ≤ bs.length := by
  obtain ⟨m, r1, u, r2, v, r4, hs, r5, -, -, -, -, -, -, rfl⟩ := (Request.parse_ok_iff _ _).1 h
  exact Nat.sub_le _ _

theorem Response.parse_off_le {bs : Bytes} {r : Response} (h : Response.parse bs = .ok r) : r.off ≤ bs.length := by
  obtain ⟨v, r2, code, reason, r3, hs, r5, -, -, -, -, rfl⟩ := (Response.parse_ok_iff _ _).1 h
  exact Nat.sub_le _ _

theorem Request.parse_incomplete (s : Bytes) (r : Request) (n : Nat) (h : Request.parse s = .ok r)
    (hn : n < r.off) : Request.parse (s.take n) = .err .eof := by
  rcases (Request.parse_safe (s.take n)).cases with ⟨r', h'⟩ | ⟨e, h'⟩
  · have h2 := Request.parse_accept_stable _ (s.drop n) _ h'
    rw [List.take_append_drop, h] at h2
    cases h2
    have := Request.parse_off_le h'
    simp only [List.length_take] at this
    omega
  · by_cases he : e = .eof
    · rw [h', he]
    · obtain ⟨e', h2, -⟩ := Request.parse_reject_stable _ (s.drop n) _ h' he
      rw [List.take_append_drop, h] at h2
      cases h2

theorem Response.parse_incomplete (s : Bytes) (r : Response) (n : Nat) (h : Response.parse s = .ok r)
    (hn : n < r.off) : Response.parse (s.take n) = .err .eof := by
  rcases (Response.parse_safe (s.take n)).cases with ⟨r', h'⟩ | ⟨e, h'⟩
  · have h2 := Response.parse_accept_stable _ (s.drop n) _ h'
    rw [List.take_append_drop, h] at h2
    cases h2
    have := Response.parse_off_le h'
    simp only [List.length_take] at this
    omega
  · by_cases he : e = .eof
    · rw [h', he]
    · obtain ⟨e', h2, -⟩ := Response.parse_reject_stable _ (s.drop n) _ h' he
      rw [List.take_append_drop, h] at h2
      cases h2

open Spec

/-- an accepted request, seen on the wire -/
theorem Request.parse_ok_wire {bs : Bytes} {r : Request} (h : Request.parse bs = .ok r) :
    ∃ mb minor lines rest,
      bs = render ⟨mb, r.uri.full, minor, lines⟩ ++ rest ∧
      r.off = (render ⟨mb, r.uri.full, minor, lines⟩).length ∧
      SP ∉ mb ∧ mb ≠ [] ∧ (∀ b ∈ mb, isAlpha b = true) ∧ r.method = methodOf mb ∧
      r.uri.full ≠ [] ∧ (∀ b ∈ r.uri.full, isVisible b = true) ∧
      ((minor = 0x30 ∧ r.version = 0) ∨ (minor = 0x31 ∧ r.version = 1)) ∧
      (∀ l ∈ lines, WfLineCode l) ∧ r.headers = collect lines ∧
      (∃ r1 r2, parseUri r1 = .ok (r.uri, r2)) := by
  obtain ⟨m, r1, u, r2, v, r4, hs, r5, hm, hu, hv, hh, hf, hl, rfl⟩ := (Request.parse_ok_iff _ _).1 h
  obtain ⟨mb, rfl, hm1, hm2, hm3, hm4⟩ := (parseMethod_ok_iff _ _ _).1 hm
  obtain ⟨hu1, hu2, hu3, -⟩ := parseUri_sound _ _ _ hu
  obtain ⟨lines, rfl, hl1, hl2⟩ := (parseHeaders_ok_iff _ _ _).1 hh
  have key : ∀ minor : UInt8, r2 = HTTP1 ++ minor :: CR :: LF :: (renderLines lines ++ CRLF ++ r5) →
      mb ++ SP :: r1 = render ⟨mb, u.full, minor, lines⟩ ++ r5 := by
    intro minor h2
    rw [hu1, h2]
    simp [render, requestLine, CRLF, HTTP1]
  have fin : ∀ minor : UInt8, mb ++ SP :: r1 = render ⟨mb, u.full, minor, lines⟩ ++ r5 →
      (mb ++ SP :: r1).length - r5.length = (render ⟨mb, u.full, minor, lines⟩).length := by
    intro minor h2
    rw [h2, List.length_append]; omega
  rcases (parseVersion_ok_iff _ _ _).1 hv with ⟨h2, rfl⟩ | ⟨h2, rfl⟩
  · exact ⟨mb, 0x30, lines, r5, key _ h2, fin _ (key _ h2), hm1, hm2, hm3, hm4, hu2, hu3,
      .inl ⟨rfl, rfl⟩, hl1, hl2, r1, r2, hu⟩
  · exact ⟨mb, 0x31, lines, r5, key _ h2, fin _ (key _ h2), hm1, hm2, hm3, hm4, hu2, hu3,
      .inr ⟨rfl, rfl⟩, hl1, hl2, r1, r2, hu⟩

open Spec

theorem WfLineCode.wfLine {f : Bytes × Bytes} (h : WfLineCode f) : WfLine f :=
  ⟨h.1, fun b hb => by rw [← isFieldByte_eq_isTchar]; exact h.2.1 b hb, h.2.2⟩

theorem Request.parse_accepted_is_rendered (bs : Bytes) (r : Request) (h : Request.parse bs = .ok r) :
    ∃ hd : Head, WfStrict hd ∧ render hd = bs.take r.off ∧
      r.method = methodOf hd.method ∧ r.uri.full = hd.target ∧
      r.version.toNat + 48 = hd.minor.toNat ∧ r.headers = collect hd.fields := by
  obtain ⟨mb, minor, lines, rest, hbs, hoff, -, hm2, hm3, hm4, hu2, hu3, hv, hl1, hl2, -⟩ :=
    Request.parse_ok_wire h
  refine ⟨⟨mb, r.uri.full, minor, lines⟩, ⟨hm2, hm3, hu2, ?_, ?_, ?_⟩, ?_, hm4, rfl, ?_, hl2⟩
  · intro b hb; rw [← isVisible_eq_isVchar]; exact hu3 b hb
  · rcases hv with ⟨h1, -⟩ | ⟨h1, -⟩
    · exact .inl h1
    · exact .inr h1
  · intro f hf; exact (hl1 f hf).wfLine
  · rw [hbs, hoff, List.take_left' rfl]
  · rcases hv with ⟨h1, h2⟩ | ⟨h1, h2⟩ <;> · simp only [h1, h2]; decide

open Spec

theorem WfLineCode.of_rfc {f : Bytes × Bytes} (h : WfRfcLine f = true) : WfLineCode f := by
  simp only [WfRfcLine, Bool.and_eq_true, bne_iff_ne, ne_eq, List.all_eq_true] at h
  obtain ⟨⟨h1, h2⟩, h3⟩ := h
  refine ⟨h1, fun b hb => by rw [isFieldByte_eq_isTchar]; exact h2 b hb, fun hlf => ?_⟩
  exact isFieldValueByte_ne_LF _ (h3 _ hlf) rfl

theorem Request.parse_accepts_exactly (h : RfcHead) (wf : h.Wf = true) (tail : Bytes) :
    ∃ r, Request.parse (render h.toHead ++ tail) = .ok r ∧
      r.off = (render h.toHead).length ∧
      r.method = methodOf h.method ∧
      r.uri.full = h.target.bytes ∧ r.uri.path = .ok h.target.path ∧ r.uri.query = .ok h.target.query ∧
      r.version.toNat + 48 = h.minor.toNat ∧
      r.headers = collect h.fields := by
  simp only [RfcHead.Wf, Bool.and_eq_true, bne_iff_ne, ne_eq, List.all_eq_true, Bool.or_eq_true,
    beq_iff_eq] at wf
  obtain ⟨⟨⟨⟨⟨hm1, hm2⟩, ht⟩, hv⟩, hl⟩, hf⟩ := wf
  let r4 := renderLines h.fields ++ CRLF ++ tail
  let r2 := HTTP1 ++ h.minor :: CR :: LF :: r4
  obtain ⟨u, hu, hu1, hu2, hu3⟩ := parseUri_complete h.target ht r2
  have hbuf : render h.toHead ++ tail = h.method ++ SP :: (h.target.bytes ++ SP :: r2) := by
    simp [render, requestLine, CRLF, HTTP1, RfcHead.toHead, r2, r4]
  have hmeth : parseMethod (h.method ++ SP :: (h.target.bytes ++ SP :: r2)) =
      .ok (methodOf h.method, h.target.bytes ++ SP :: r2) :=
    (parseMethod_ok_iff _ _ _).2 ⟨h.method, rfl, fun hsp => isAlpha_ne_SP _ (hm2 _ hsp) rfl, hm1, hm2, rfl⟩
  have hhdr : parseHeaders r4 = .ok (collect h.fields, tail) :=
    (parseHeaders_ok_iff _ _ _).2 ⟨h.fields, rfl, fun l hl' => WfLineCode.of_rfc (hl l hl'), rfl⟩
  have hfr := framingOk_collect h.fields hl hf
  have hlen : tail.length ≤ (render h.toHead ++ tail).length := by
    rw [List.length_append]; omega
  have hoff : (render h.toHead ++ tail).length - tail.length = (render h.toHead).length := by
    rw [List.length_append]; omega
  rcases hv with hv | hv
  · refine ⟨⟨methodOf h.method, u, 0, collect h.fields, _⟩,
      (Request.parse_ok_iff _ _).2 ⟨_, _, u, r2, 0, r4, _, tail, hbuf ▸ hmeth, hu,
        (parseVersion_ok_iff _ _ _).2 (.inl ⟨by simp only [r2, hv], rfl⟩), hhdr, hfr, hlen, rfl⟩,
      hoff, rfl, hu1, hu2, hu3, by rw [hv]; rfl, rfl⟩
  · refine ⟨⟨methodOf h.method, u, 1, collect h.fields, _⟩,
      (Request.parse_ok_iff _ _).2 ⟨_, _, u, r2, 1, r4, _, tail, hbuf ▸ hmeth, hu,
        (parseVersion_ok_iff _ _ _).2 (.inr ⟨by simp only [r2, hv], rfl⟩), hhdr, hfr, hlen, rfl⟩,
      hoff, rfl, hu1, hu2, hu3, by rw [hv]; rfl, rfl⟩

open Spec

theorem Headers.mem_add_fields {h : Headers} {n v : Bytes} {f : Bytes × Bytes}
    (hf : f ∈ (h.add n v).fields) : f ∈ h.fields ∨ f = (n, v) := by
  unfold Headers.add at hf
  split at hf
  · exact .inl hf
  · simp only [List.mem_append, List.mem_singleton] at hf
    rcases hf with hf | hf
    · left
      split at hf
      · exact hf
      · split at hf <;> exact hf
    · exact .inr hf

theorem collect_fields_aux (lines : List (Bytes × Bytes)) (h0 : Headers) (f : Bytes × Bytes)
    (hf : f ∈ (lines.foldl (fun h l => h.add l.1 (trimStart l.2)) h0).fields) :
    f ∈ h0.fields ∨ ∃ l ∈ lines, f = (l.1, trimStart l.2) := by
  induction lines generalizing h0 with
  | nil => exact .inl hf
  | cons l ls ih =>
    rw [List.foldl_cons] at hf
    rcases ih _ hf with h1 | ⟨l', hl', rfl⟩
    · rcases Headers.mem_add_fields h1 with h2 | h2
      · exact .inl h2
      · exact .inr ⟨l, List.mem_cons_self, h2⟩
    · exact .inr ⟨l', List.mem_cons_of_mem _ hl', rfl⟩

theorem collect_fields {lines : List (Bytes × Bytes)} {f : Bytes × Bytes}
    (hf : f ∈ (collect lines).fields) : ∃ l ∈ lines, f = (l.1, trimStart l.2) := by
  rcases collect_fields_aux lines Headers.new f hf with h | h
  · simp [Headers.new] at h
  · exact h

theorem trimStart_suffix (v : Bytes) : trimStart v <:+ v := List.dropWhile_suffix _

theorem renderLine_infix_renderLines {l : Bytes × Bytes} {lines : List (Bytes × Bytes)} (hl : l ∈ lines) :
    renderLine l <:+: renderLines lines := by
  induction lines with
  | nil => cases hl
  | cons x xs ih =>
    simp only [renderLines, List.flatMap_cons]
    rcases List.mem_cons.1 hl with rfl | h
    · exact (List.prefix_append _ _).isInfix
    · exact (ih h).trans (List.suffix_append _ _).isInfix

theorem name_infix_renderLine (l : Bytes × Bytes) : l.1 <:+: renderLine l :=
  ⟨[], [COLON] ++ l.2 ++ CRLF, by simp [renderLine]⟩

theorem value_infix_renderLine (l : Bytes × Bytes) : l.2 <:+: renderLine l :=
  ⟨l.1 ++ [COLON], CRLF, by simp [renderLine]⟩

/-- the header fields of a collection built from wire lines are substrings of those lines -/
theorem collect_fields_infix {lines : List (Bytes × Bytes)} (hw : ∀ l ∈ lines, WfLineCode l)
    {f : Bytes × Bytes} (hf : f ∈ (collect lines).fields) :
    f.1 <:+: renderLines lines ∧ f.2 <:+: renderLines lines ∧ ∀ b ∈ f.1, isAscii b = true := by
  obtain ⟨l, hl, rfl⟩ := collect_fields hf
  refine ⟨(name_infix_renderLine l).trans (renderLine_infix_renderLines hl),
    ((trimStart_suffix _).isInfix.trans (value_infix_renderLine l)).trans (renderLine_infix_renderLines hl),
    fun b hb => ?_⟩
  apply isTchar_ascii
  rw [← isFieldByte_eq_isTchar]
  exact (hw l hl).2.1 b hb

theorem methodOf_asBytes (mb : Bytes) : (methodOf mb).asBytes = mb := by
  unfold methodOf
  repeat' split
  all_goals simp only [Method.asBytes, *]

open Spec

theorem Request.parse_fields (bs : Bytes) (r : Request) (h : Request.parse bs = .ok r) :
    r.off ≤ bs.length ∧
    r.method.asBytes <:+: bs ∧ (∀ b ∈ r.method.asBytes, isAscii b = true) ∧
    r.uri.full <:+: bs ∧ (∀ b ∈ r.uri.full, isAscii b = true) ∧
    (∀ f ∈ r.headers.fields, f.1 <:+: bs ∧ f.2 <:+: bs ∧ ∀ b ∈ f.1, isAscii b = true) := by
  obtain ⟨mb, minor, lines, rest, hbs, -, -, -, hm3, hm4, -, hu3, -, hl1, hl2, -⟩ :=
    Request.parse_ok_wire h
  have hlines : renderLines lines <:+: bs :=
    ⟨requestLine ⟨mb, r.uri.full, minor, lines⟩, CRLF ++ rest, by rw [hbs]; simp [render]⟩
  refine ⟨Request.parse_off_le h, ?_, ?_, ?_, fun b hb => isVisible_ascii b (hu3 b hb), ?_⟩
  · rw [hm4, methodOf_asBytes]
    exact ⟨[], [SP] ++ r.uri.full ++ [SP] ++ str "HTTP/1." ++ [minor] ++ CRLF ++ renderLines lines ++ CRLF ++ rest,
      by rw [hbs]; simp [render, requestLine]⟩
  · rw [hm4, methodOf_asBytes]
    exact fun b hb => isAlpha_ascii b (hm3 b hb)
  · exact ⟨mb ++ [SP], [SP] ++ str "HTTP/1." ++ [minor] ++ CRLF ++ renderLines lines ++ CRLF ++ rest,
      by rw [hbs]; simp [render, requestLine]⟩
  · intro f hf
    rw [hl2] at hf
    obtain ⟨h1, h2, h3⟩ := collect_fields_infix hl1 hf
    exact ⟨h1.trans hlines, h2.trans hlines, h3⟩

theorem Request.parse_accessors (bs : Bytes) (r : Request) (h : Request.parse bs = .ok r) :
    (∃ p, r.uri.path = .ok p ∧ p <:+: bs) ∧
    (∃ q, r.uri.query = .ok q ∧ ∀ s, q = some s → s <:+: bs) ∧
    (∃ q, r.uri.scheme = .ok q ∧ ∀ s, q = some s → s <:+: bs) ∧
    (∃ q, r.uri.authority = .ok q ∧ ∀ s, q = some s → s <:+: bs) ∧
    (∃ p, r.uri.pathAndQuery = .ok p ∧ p <:+: bs) := by
  have hfull : r.uri.full <:+: bs := (Request.parse_fields bs r h).2.2.2.1
  obtain ⟨-, -, -, -, -, -, -, -, -, -, -, -, -, -, -, r1, r2, hu⟩ := Request.parse_ok_wire h
  obtain ⟨⟨p, hp1, hp2⟩, ⟨q, hq1, hq2⟩, ⟨s, hs1, hs2⟩, ⟨a, ha1, ha2⟩, ⟨pq, hpq1, hpq2⟩⟩ :=
    parseUri_accessors _ _ _ hu
  exact ⟨⟨p, hp1, hp2.trans hfull⟩, ⟨q, hq1, fun x hx => (hq2 x hx).trans hfull⟩,
    ⟨s, hs1, fun x hx => (hs2 x hx).trans hfull⟩, ⟨a, ha1, fun x hx => (ha2 x hx).trans hfull⟩,
    ⟨pq, hpq1, hpq2.trans hfull⟩⟩

theorem Response.parse_fields (bs : Bytes) (r : Response) (h : Response.parse bs = .ok r) :
    r.off ≤ bs.length ∧
    r.reason <:+: bs ∧ (∀ b ∈ r.reason, isAscii b = true) ∧
    (∀ f ∈ r.headers.fields, f.1 <:+: bs ∧ f.2 <:+: bs ∧ ∀ b ∈ f.1, isAscii b = true) := by
  refine ⟨Response.parse_off_le h, ?_⟩
  obtain ⟨v, r2, code, reason, r3, hs, r5, hv, hs', hh, hl, rfl⟩ := (Response.parse_ok_iff _ _).1 h
  obtain ⟨d1, d2, d3, -, -, -, -, rfl, hreason⟩ := parseResponseStatus_sound _ _ _ _ hs'
  obtain ⟨lines, rfl, hl1, rfl⟩ := (parseHeaders_ok_iff _ _ _).1 hh
  obtain ⟨pre, hpre⟩ : ∃ pre : Bytes,
      bs = pre ++ ([d1, d2, d3, SP] ++ reason ++ [CR, LF] ++ (renderLines lines ++ CRLF ++ r5)) := by
    rcases (parseVersion_ok_iff _ _ _).1 hv with ⟨rfl, -⟩ | ⟨rfl, -⟩
    · exact ⟨HTTP1 ++ [0x30, SP], by simp⟩
    · exact ⟨HTTP1 ++ [0x31, SP], by simp⟩
  have hlines : renderLines lines <:+: bs :=
    ⟨pre ++ [d1, d2, d3, SP] ++ reason ++ [CR, LF], CRLF ++ r5, by rw [hpre]; simp⟩
  refine ⟨⟨pre ++ [d1, d2, d3, SP], [CR, LF] ++ (renderLines lines ++ CRLF ++ r5), by rw [hpre]; simp⟩,
    fun b hb => isReasonByte_ascii b (hreason b hb), ?_⟩
  intro f hf
  obtain ⟨h1, h2, h3⟩ := collect_fields_infix hl1 hf
  exact ⟨h1.trans hlines, h2.trans hlines, h3⟩

end Khttp
