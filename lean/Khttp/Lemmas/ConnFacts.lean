/-
  Helper lemmas for C05 / C09 / C16 / C17: the connection loop, the epoll job sequence, the accept loop.
-/
import Khttp.Model.Serve
import Khttp.Spec.Lifecycle
import Khttp.Spec.ConnSpec
import Khttp.Lemmas.BodyBuf
import Khttp.Lemmas.ReadLoop
import Khttp.Lemmas.StageHeaders
import Khttp.Lemmas.HeaderEval
import Khttp.Spec.Framing
import Khttp.Driver.Conn
namespace Khttp
namespace ConnFacts
open Khttp.Body Khttp.Router

-- ------------------------------------------------------------------ epoll jobs = handle_connection loop

/-- what the epoll job sequence reports about the end of a connection, read off a `ConnOut` -/
def finOf (o : ConnOut) : Option Bool :=
  match o.fin with
  | .closed => some (!o.failed)
  | .hang => none

theorem epollJobs_eq_connLoop (cfg : Cfg) : ∀ (fuel : Nat) (s : Sock) (acc : List (Bool × List Resp)) (mr : Nat),
    epollJobs cfg fuel s acc = ((connLoop cfg fuel s acc mr).reqs, finOf (connLoop cfg fuel s acc mr)) := by
  intro fuel
  induction fuel with
  | zero => intro s acc mr; simp [epollJobs, connLoop, finOf]
  | succ n ih =>
    intro s acc mr
    simp only [epollJobs, connLoop]
    by_cases hh : (handleOne cfg s).hang = true
    · simp [hh, finOf]
    · by_cases hk : (handleOne cfg s).keep = true
      · simp [hh, hk, ih _ _ (Nat.max mr (handleOne cfg s).maxRecv)]
      · simp [hh, hk, finOf]

theorem connEpoll_eq_connThreaded (cfg : Cfg) (c : Nat) (s : Sock) : connEpoll cfg c s = connThreaded cfg c s := by
  unfold connEpoll connThreaded handleConnection
  rw [epollJobs_eq_connLoop cfg _ s [] 0]
  simp only [finOf]
  cases (connLoop cfg (s.pending.length + 2) s [] 0).fin <;> rfl

theorem acceptLoop_congr {p q : Nat → Sock → List HookEv} (h : ∀ c s, p c s = q c s) :
    ∀ (ins : List Incoming) (c : Nat), acceptLoop p c ins = acceptLoop q c ins := by
  intro ins
  induction ins with
  | nil => intro c; rfl
  | cons i rest ih =>
    intro c
    simp only [acceptLoop, h, ih]

-- ------------------------------------------------------------------ the accept loop, per connection

/-- the events of one accepted connection -/
def connEvents (p : Nat → Sock → List HookEv) (c : Nat) (i : Incoming) : List HookEv :=
  .setup c ::
    (match i.decision with
     | .drop => [.closedSilently c]
     | .stopAccepting => []
     | .proceed => p c i.sock)

/-- the per-connection code only produces events of its own connection -/
def OwnEvents (p : Nat → Sock → List HookEv) : Prop :=
  ∀ c s c', eventsOf c' (p c s) = if c' = c then p c s else []

theorem eventsOf_append (c : Nat) (a b : List HookEv) : eventsOf c (a ++ b) = eventsOf c a ++ eventsOf c b := by
  simp [eventsOf]

theorem eventsOf_acceptLoop_lt (p : Nat → Sock → List HookEv) (hp : OwnEvents p) :
    ∀ (ins : List Incoming) (c0 c : Nat), c < c0 → eventsOf c (acceptLoop p c0 ins) = [] := by
  intro ins
  induction ins with
  | nil => intro c0 c _; rfl
  | cons i rest ih =>
    intro c0 c hc
    have hne : (c0 == c) = false := by simp; omega
    have hne' : ¬ c = c0 := by omega
    simp only [acceptLoop]
    cases hd : i.decision
    · simp only [eventsOf, List.filter_cons, hne] at ih ⊢
      simp only [Bool.false_eq_true, if_false]
      rw [List.filter_append]
      have := hp c0 i.sock c
      simp only [eventsOf, hne', if_false] at this
      rw [this, ih (c0 + 1) c (by omega)]; rfl
    · simp only [eventsOf, List.filter_cons, hne] at ih ⊢
      simp only [Bool.false_eq_true, if_false]
      exact ih (c0 + 1) c (by omega)
    · simp [eventsOf, hne]

theorem eventsOf_acceptLoop (p : Nat → Sock → List HookEv) (hp : OwnEvents p) :
    ∀ (ins : List Incoming) (c0 c : Nat), c0 ≤ c →
      eventsOf c (acceptLoop p c0 ins) =
        match (if c - c0 < acceptedCount ins then ins[c - c0]? else none) with
        | some i => connEvents p c i
        | none => [] := by
  intro ins
  induction ins with
  | nil => intro c0 c _; simp [acceptLoop, eventsOf, acceptedCount]
  | cons i rest ih =>
    intro c0 c hc
    by_cases he : c = c0
    · subst he
      have hlt := eventsOf_acceptLoop_lt p hp rest (c + 1) c (by omega)
      have h0 : 0 < acceptedCount (i :: rest) := by
        simp only [acceptedCount]; split <;> omega
      simp only [Nat.sub_self, h0, if_true, List.getElem?_cons_zero, connEvents, acceptLoop]
      cases hd : i.decision
      · simp only [eventsOf, List.filter_cons, beq_self_eq_true, if_true] at hlt ⊢
        rw [List.filter_append, hlt]
        have := hp c i.sock c
        simp only [eventsOf, if_true] at this
        rw [this]; simp
      · simp only [eventsOf, List.filter_cons, beq_self_eq_true, if_true] at hlt ⊢
        rw [hlt]
      · simp [eventsOf]
    · have hne : (c0 == c) = false := by simp; omega
      have hne' : ¬ c = c0 := he
      have hidx : c - c0 = (c - (c0 + 1)) + 1 := by omega
      simp only [acceptLoop]
      cases hd : i.decision
      · simp only [eventsOf, List.filter_cons, hne, Bool.false_eq_true, if_false]
        rw [List.filter_append]
        have := hp c0 i.sock c
        simp only [eventsOf, hne', if_false] at this
        rw [this]
        have ih' := ih (c0 + 1) c (by omega)
        simp only [eventsOf] at ih'
        rw [List.nil_append, ih', hidx]
        simp only [acceptedCount, hd, List.getElem?_cons_succ]
        have : (c - (c0 + 1) + 1 < 1 + acceptedCount rest) = (c - (c0 + 1) < acceptedCount rest) := by
          apply propext; omega
        simp only [reduceCtorEq, if_false, this]
      · simp only [eventsOf, List.filter_cons, hne, Bool.false_eq_true, if_false]
        have ih' := ih (c0 + 1) c (by omega)
        simp only [eventsOf] at ih'
        rw [ih', hidx]
        simp only [acceptedCount, hd, List.getElem?_cons_succ]
        have : (c - (c0 + 1) + 1 < 1 + acceptedCount rest) = (c - (c0 + 1) < acceptedCount rest) := by
          apply propext; omega
        simp only [reduceCtorEq, if_false, this]
      · have : ¬ (c - c0 < 1) := by omega
        simp [eventsOf, hne, acceptedCount, hd, this]

theorem eventsOf_all {c' : Nat} {l : List HookEv} (h : ∀ e ∈ l, e ≠ .returned ∧ ∀ d, (e = .setup d ∨ e = .pre d ∨
    (∃ r, e = .resp d r) ∨ (∃ ok, e = .teardown d ok) ∨ e = .closedSilently d) → d = c') : eventsOf c' l = l := by
  unfold eventsOf
  apply List.filter_eq_self.mpr
  intro e he
  obtain ⟨h1, h2⟩ := h e he
  cases e with
  | returned => exact absurd rfl h1
  | setup d => simp [h2 d (.inl rfl)]
  | pre d => simp [h2 d (.inr (.inl rfl))]
  | resp d r => simp [h2 d (.inr (.inr (.inl ⟨r, rfl⟩)))]
  | teardown d ok => simp [h2 d (.inr (.inr (.inr (.inl ⟨ok, rfl⟩))))]
  | closedSilently d => simp [h2 d (.inr (.inr (.inr (.inr rfl))))]

theorem eventsOf_reqEvents (c c' : Nat) (reqs : List (Bool × List Resp)) :
    eventsOf c' (reqEvents c reqs) = if c' = c then reqEvents c reqs else [] := by
  induction reqs with
  | nil => simp [reqEvents, eventsOf]
  | cons r rest ih =>
    have e : reqEvents c (r :: rest) = ((if r.1 then [HookEv.pre c] else []) ++ r.2.map (.resp c)) ++ reqEvents c rest := by
      simp [reqEvents]
    rw [e, eventsOf_append, ih]
    by_cases hc : c' = c
    · subst hc
      simp only [if_true]
      congr 1
      simp only [eventsOf]
      rw [List.filter_append]
      congr 1
      · cases r.1 <;> simp
      · apply List.filter_eq_self.mpr
        intro e he
        obtain ⟨x, _, rfl⟩ := List.mem_map.mp he
        simp
    · have hne : (c == c') = false := by simp; exact fun h => hc h.symm
      simp only [hc, if_false, List.append_nil]
      rw [eventsOf_append]
      have h1 : eventsOf c' (if r.1 then [HookEv.pre c] else []) = [] := by
        cases r.1 <;> simp [eventsOf, hne]
      rw [h1, List.nil_append]
      unfold eventsOf
      apply List.filter_eq_nil_iff.mpr
      intro e he
      obtain ⟨x, _, rfl⟩ := List.mem_map.mp he
      simp [hne]

theorem eventsOf_teardownEvents (c c' : Nat) (o : ConnOut) :
    eventsOf c' (teardownEvents c o) = if c' = c then teardownEvents c o else [] := by
  unfold teardownEvents
  cases o.fin
  · by_cases hc : c' = c
    · subst hc; simp [eventsOf]
    · have hne : (c == c') = false := by simp; exact fun h => hc h.symm
      simp [eventsOf, hc, hne]
  · simp [eventsOf]

theorem connThreaded_eq (cfg : Cfg) (c : Nat) (s : Sock) :
    connThreaded cfg c s = reqEvents c (handleConnection cfg s).reqs ++ teardownEvents c (handleConnection cfg s) := by
  rfl

theorem ownEvents_connThreaded (cfg : Cfg) : OwnEvents (connThreaded cfg) := by
  intro c s c'
  rw [connThreaded_eq, eventsOf_append, eventsOf_reqEvents, eventsOf_teardownEvents]
  split <;> rfl

/-- the events of connection `c` in the `serve` log -/
theorem eventsOf_serveLog (cfg : Cfg) (ins : List Incoming) (c : Nat) :
    eventsOf c (serveLog cfg ins) =
      match (if c < acceptedCount ins then ins[c]? else none) with
      | some i => connEvents (connThreaded cfg) c i
      | none => [] := by
  have := eventsOf_acceptLoop (connThreaded cfg) (ownEvents_connThreaded cfg) ins 0 c (Nat.zero_le _)
  simpa [serveLog] using this

theorem isServeLog_eq {cfg : Cfg} {ins : List Incoming} {log : List HookEv} (h : IsServeLog cfg ins log) :
    log = serveLog cfg ins := by
  rcases h with h | h | h
  · exact h
  · exact h
  · rw [h]; exact acceptLoop_congr (connEpoll_eq_connThreaded cfg) ins 0

/-- the events of one accepted connection, for any of the three logs -/
theorem eventsOf_isServeLog {cfg : Cfg} {ins : List Incoming} {log : List HookEv} (hl : IsServeLog cfg ins log)
    {c : Nat} {i : Incoming} (hc : c < acceptedCount ins) (hi : ins[c]? = some i) :
    eventsOf c log = connEvents (connThreaded cfg) c i := by
  rw [isServeLog_eq hl, eventsOf_serveLog]
  simp [hc, hi]

theorem acceptedCount_le (ins : List Incoming) : acceptedCount ins ≤ ins.length := by
  induction ins with
  | nil => simp [acceptedCount]
  | cons i rest ih => simp only [acceptedCount, List.length_cons]; split <;> omega

/-- the accept loop over connections none of which stops it, followed by more connections -/
theorem acceptLoop_append (p : Nat → Sock → List HookEv) :
    ∀ (pre rest : List Incoming) (c0 : Nat), (∀ j ∈ pre, j.decision ≠ .stopAccepting) →
      acceptLoop p c0 (pre ++ rest) = acceptLoop p c0 pre ++ acceptLoop p (c0 + pre.length) rest := by
  intro pre
  induction pre with
  | nil => intro rest c0 _; simp [acceptLoop]
  | cons i pre ih =>
    intro rest c0 h
    have hi := h i (by simp)
    have ih' := ih rest (c0 + 1) (fun j hj => h j (by simp [hj]))
    have hl : c0 + (i :: pre).length = c0 + 1 + pre.length := by simp; omega
    simp only [List.cons_append, acceptLoop, hl]
    cases hd : i.decision
    · simp [ih']
    · simp [ih']
    · exact absurd hd hi

theorem acceptedCount_append_stop (pre post : List Incoming) (i : Incoming)
    (hpre : ∀ j ∈ pre, j.decision ≠ .stopAccepting) (hi : i.decision = .stopAccepting) :
    acceptedCount (pre ++ i :: post) = pre.length + 1 := by
  induction pre with
  | nil => simp [acceptedCount, hi]
  | cons j pre ih =>
    have hj := hpre j (by simp)
    simp only [List.cons_append, acceptedCount, hj, if_false, List.length_cons]
    rw [ih (fun k hk => hpre k (by simp [hk]))]; omega

theorem acceptedCount_no_stop (ins : List Incoming) (h : ∀ j ∈ ins, j.decision ≠ .stopAccepting) :
    acceptedCount ins = ins.length := by
  induction ins with
  | nil => rfl
  | cons j rest ih =>
    simp only [acceptedCount, h j (by simp), if_false, List.length_cons]
    rw [ih (fun k hk => h k (by simp [hk]))]; omega

theorem returned_not_mem_acceptLoop (p : Nat → Sock → List HookEv) (hp : ∀ c s, HookEv.returned ∉ p c s) :
    ∀ (ins : List Incoming) (c0 : Nat), (∀ j ∈ ins, j.decision ≠ .stopAccepting) →
      HookEv.returned ∉ acceptLoop p c0 ins := by
  intro ins
  induction ins with
  | nil => intro c0 _; simp [acceptLoop]
  | cons i rest ih =>
    intro c0 h
    have hi := h i (by simp)
    have ih' := ih (c0 + 1) (fun j hj => h j (by simp [hj]))
    simp only [acceptLoop]
    cases hd : i.decision
    · simp [hp, ih']
    · simp [ih']
    · exact absurd hd hi

theorem returned_not_mem_connThreaded (cfg : Cfg) (c : Nat) (s : Sock) : HookEv.returned ∉ connThreaded cfg c s := by
  intro h
  have := ownEvents_connThreaded cfg c s c
  simp only [if_true] at this
  rw [← this] at h
  simp [eventsOf] at h

-- ------------------------------------------------------------------ handle_one_request, case by case

theorem ite_ok (out : HandlerOut) (cl : Bool) (s2 : Sock) (hang : Bool) (mr : Nat) :
    (if (!out.ok) = true then (⟨out.resps, false, s2, hang, mr, true, true⟩ : OneOut)
     else ⟨out.resps, !(cl || out.body.drain.fail) && !(out.resps.any (·.close)), s2, hang, mr, true, false⟩) =
    ⟨out.resps, out.ok && !(cl || out.body.drain.fail) && !(out.resps.any (·.close)), s2, hang, mr, true, !out.ok⟩ := by
  cases out.ok <;> simp

theorem handleOne_ok (cfg : Cfg) (s : Sock) (ok : ReadOk) (s1 : Sock) (log : RecvLog)
    (h : readRequest cfg.max s = (.ok ok, s1, log)) :
    handleOne cfg s =
      let maxRecv := log.foldl (fun a e => Nat.max a e.2) 0
      match hookOf cfg ok.req with
      | .drop resp =>
        if ok.req.headers.close || resp.toList.any (·.close) then ⟨resp.toList, false, s1, false, maxRecv, true, false⟩
        else
          let b := (bodyOf ok s1).drain
          ⟨resp.toList, !b.fail, Sock.ofSrc b.src s1.eof, starvedHang b s1.eof, maxRecv, true, false⟩
      | .proceed =>
        let out := handlerCall cfg ok.req (bodyOf ok s1)
        let b := out.body.drain
        ⟨out.resps, out.ok && !(ok.req.headers.close || b.fail) && !(out.resps.any (·.close)),
          Sock.ofSrc b.src s1.eof, starvedHang b s1.eof, maxRecv, true, !out.ok⟩ := by
  have hdrop : ∀ resp, hookOf cfg ok.req = .drop resp → handleOne cfg s =
      if ok.req.headers.close || resp.toList.any (·.close) then
        ⟨resp.toList, false, s1, false, log.foldl (fun a e => Nat.max a e.2) 0, true, false⟩
      else
        ⟨resp.toList, !(bodyOf ok s1).drain.fail, Sock.ofSrc (bodyOf ok s1).drain.src s1.eof,
          starvedHang (bodyOf ok s1).drain s1.eof, log.foldl (fun a e => Nat.max a e.2) 0, true, false⟩ := by
    intro resp hr
    unfold handleOne
    rw [h]
    unfold hookOf at hr
    cases hc : cfg.hook with
    | none => rw [hc] at hr; simp at hr
    | some hf => rw [hc] at hr; simp only [hr]; simp [bodyOf]
  have hproc : hookOf cfg ok.req = .proceed → handleOne cfg s =
      ⟨(handlerCall cfg ok.req (bodyOf ok s1)).resps,
        (handlerCall cfg ok.req (bodyOf ok s1)).ok &&
          !(ok.req.headers.close || (handlerCall cfg ok.req (bodyOf ok s1)).body.drain.fail) &&
          !((handlerCall cfg ok.req (bodyOf ok s1)).resps.any (·.close)),
        Sock.ofSrc (handlerCall cfg ok.req (bodyOf ok s1)).body.drain.src s1.eof,
        starvedHang (handlerCall cfg ok.req (bodyOf ok s1)).body.drain s1.eof,
        log.foldl (fun a e => Nat.max a e.2) 0, true, !(handlerCall cfg ok.req (bodyOf ok s1)).ok⟩ := by
    intro hr
    unfold handleOne
    rw [h]
    unfold hookOf at hr
    simp only []
    cases hc : cfg.hook with
    | none => simp only []; rw [ite_ok]; rfl
    | some hf => rw [hc] at hr; simp only [] at hr; simp only [hr]; rw [ite_ok]; rfl
  cases hk : hookOf cfg ok.req with
  | drop resp => rw [hdrop resp hk]
  | proceed => rw [hproc hk]

-- ------------------------------------------------------------------ the body reader only ever shrinks the raw stream

/-- readers whose underlying raw stream only ever shrinks -/
class SrcMono (ρ : Type) [RawRead ρ] where
  srcLen : ρ → Nat
  read_mono : ∀ (r : ρ) (n : Nat), srcLen (RawRead.read r n).2 ≤ srcLen r

theorem Src.read_data_le (s : Src) (n : Nat) : (s.read n).2.data.length ≤ s.data.length := by
  have := congrArg List.length (Src.read_content s n)
  simp only [List.length_append] at this; omega

theorem Swl.read_data_le (s : Swl) (n : Nat) : (s.read n).2.src.data.length ≤ s.src.data.length := by
  unfold Swl.read; split
  · simp
  · exact Src.read_data_le _ _

theorem Take.read_data_le (t : Take) (n : Nat) : (t.read n).2.inner.src.data.length ≤ t.inner.src.data.length := by
  unfold Take.read; split
  · simp
  · exact Swl.read_data_le _ _

instance : SrcMono Swl := ⟨fun s => s.src.data.length, Swl.read_data_le⟩
instance : SrcMono Take := ⟨fun t => t.inner.src.data.length, Take.read_data_le⟩

namespace Buf
variable {ρ : Type} [RawRead ρ] [SrcMono ρ]
open BufReader

theorem fillBuf_le (b : BufReader ρ) : SrcMono.srcLen (b.fillBuf).2.inner ≤ SrcMono.srcLen b.inner := by
  unfold BufReader.fillBuf; split
  · exact SrcMono.read_mono _ _
  · exact Nat.le_refl _

omit [RawRead ρ] [SrcMono ρ] in
theorem consume_eq (b : BufReader ρ) (k : Nat) : (b.consume k).inner = b.inner := rfl

theorem read_le (b : BufReader ρ) (n : Nat) : SrcMono.srcLen (b.read n).2.inner ≤ SrcMono.srcLen b.inner := by
  unfold BufReader.read; split
  · exact SrcMono.read_mono _ _
  · exact fillBuf_le b

theorem readExactLoop_le (fuel : Nat) : ∀ (b : BufReader ρ) (need : Nat) (acc : Bytes),
    SrcMono.srcLen (readExactLoop fuel b need acc).2.inner ≤ SrcMono.srcLen b.inner := by
  induction fuel with
  | zero => intro b need acc; exact Nat.le_refl _
  | succ f ih =>
    intro b need acc
    unfold readExactLoop
    split
    · exact Nat.le_refl _
    · simp only []
      split
      · exact read_le b need
      · exact Nat.le_trans (ih _ _ _) (read_le b need)

theorem readExact_le (b : BufReader ρ) (n : Nat) : SrcMono.srcLen (b.readExact n).2.inner ≤ SrcMono.srcLen b.inner :=
  readExactLoop_le _ _ _ _

theorem readUntilLoop_le (fuel : Nat) : ∀ (b : BufReader ρ) (acc : Bytes),
    SrcMono.srcLen (readUntilLoop fuel b acc).2.inner ≤ SrcMono.srcLen b.inner := by
  induction fuel with
  | zero => intro b acc; exact Nat.le_refl _
  | succ f ih =>
    intro b acc
    unfold readUntilLoop
    simp only []
    split
    · exact fillBuf_le b
    · split
      · exact fillBuf_le b
      · exact Nat.le_trans (ih _ _) (fillBuf_le b)

theorem readLine_le (b : BufReader ρ) : SrcMono.srcLen (b.readLine).2.inner ≤ SrcMono.srcLen b.inner := by
  unfold BufReader.readLine
  have := readUntilLoop_le (RawRead.bound b.inner + b.buf.length + 1) b []
  split
  · rename_i line b1 heq
    rw [heq] at this
    split <;> exact this
  · rename_i e b1 heq
    rw [heq] at this
    exact this

end Buf

def fixedLen (r : FixedReader) : Nat := r.inner.inner.inner.src.data.length
def chunkedLen (c : ChunkedReader) : Nat := c.inner.inner.src.data.length

theorem Fixed.read_le (r : FixedReader) (n : Nat) : fixedLen (r.read n).2 ≤ fixedLen r := by
  unfold FixedReader.read; split
  · exact Nat.le_refl _
  · simp only []
    split <;> exact Buf.read_le (ρ := Take) r.inner _

theorem Fixed.fillBuf_le (r : FixedReader) : fixedLen (r.fillBuf).2 ≤ fixedLen r := by
  unfold FixedReader.fillBuf; split
  · exact Nat.le_refl _
  · simp only []
    split <;> exact Buf.fillBuf_le (ρ := Take) r.inner

theorem Fixed.consume_eq (r : FixedReader) (k : Nat) : fixedLen (r.consume k) = fixedLen r := rfl

theorem Chunked.readChunkSize_le (c : ChunkedReader) : chunkedLen (c.readChunkSize).2 ≤ chunkedLen c := by
  have h := Buf.readLine_le (ρ := Swl) c.inner
  unfold ChunkedReader.readChunkSize
  split
  · rename_i e inner heq; rw [heq] at h; exact h
  · rename_i line inner heq; rw [heq] at h
    simp only []
    split
    · exact h
    · split
      · exact h
      · split <;> exact h

theorem Chunked.trailerLoop_le (fuel : Nat) : ∀ b : BufReader Swl,
    SrcMono.srcLen (ChunkedReader.trailerLoop fuel b).2.inner ≤ SrcMono.srcLen b.inner := by
  induction fuel with
  | zero => intro b; exact Nat.le_refl _
  | succ f ih =>
    intro b
    have h := Buf.readLine_le (ρ := Swl) b
    unfold ChunkedReader.trailerLoop
    split
    · rename_i e b1 heq; rw [heq] at h; exact h
    · rename_i line b1 heq; rw [heq] at h
      split
      · exact h
      · exact Nat.le_trans (ih b1) h

theorem Chunked.advanceLoop_le (fuel : Nat) : ∀ c : ChunkedReader,
    chunkedLen (ChunkedReader.advanceLoop fuel c).2 ≤ chunkedLen c := by
  induction fuel with
  | zero => intro c; exact Nat.le_refl _
  | succ f ih =>
    intro c
    unfold ChunkedReader.advanceLoop
    split
    · have h := Chunked.readChunkSize_le c
      split
      · rename_i e c1 heq; rw [heq] at h; exact h
      · rename_i u c1 heq; rw [heq] at h; exact Nat.le_trans (ih c1) h
    · split
      · exact ih _
      · exact Nat.le_refl _
    · have h := Buf.readExact_le (ρ := Swl) c.inner 2
      split
      · rename_i e inner heq; rw [heq] at h; exact h
      · rename_i crlf inner heq; rw [heq] at h
        split
        · exact h
        · exact Nat.le_trans (ih _) h
    · have h := Chunked.trailerLoop_le (RawRead.bound c.inner + 1) c.inner
      split
      · rename_i e inner heq; rw [heq] at h; exact h
      · rename_i u inner heq; rw [heq] at h; exact Nat.le_trans (ih _) h
    · exact Nat.le_refl _

theorem Chunked.advance_le (c : ChunkedReader) : chunkedLen (c.advance).2 ≤ chunkedLen c := Chunked.advanceLoop_le 8 c

theorem Chunked.readLoop_le (fuel : Nat) : ∀ (c : ChunkedReader) (n : Nat) (acc : Bytes),
    chunkedLen (ChunkedReader.readLoop fuel c n acc).2 ≤ chunkedLen c := by
  induction fuel with
  | zero => intro c n acc; exact Nat.le_refl _
  | succ f ih =>
    intro c n acc
    have h := Chunked.advance_le c
    unfold ChunkedReader.readLoop
    split
    · rename_i e c1 heq; rw [heq] at h; exact h
    · rename_i c1 heq; rw [heq] at h; exact h
    · rename_i c1 heq; rw [heq] at h
      split
      · exact h
      · have h2 := Buf.read_le (ρ := Swl) c1.inner (min c1.rem n)
        simp only []
        split
        · exact Nat.le_trans h2 h
        · split
          · exact Nat.le_trans h2 h
          · exact Nat.le_trans (ih _ _ _) (Nat.le_trans h2 h)

theorem Chunked.read_le (c : ChunkedReader) (n : Nat) : chunkedLen (c.read n).2 ≤ chunkedLen c :=
  Chunked.readLoop_le _ _ _ _

theorem Chunked.fillBuf_le (c : ChunkedReader) : chunkedLen (c.fillBuf).2 ≤ chunkedLen c := by
  have h := Chunked.advance_le c
  unfold ChunkedReader.fillBuf
  split
  · rename_i e c1 heq; rw [heq] at h; exact h
  · rename_i c1 heq; rw [heq] at h; exact h
  · rename_i c1 heq; rw [heq] at h
    have h2 := Buf.fillBuf_le (ρ := Swl) c1.inner
    simp only []
    split <;> exact Nat.le_trans h2 h

theorem Chunked.consume_eq (c : ChunkedReader) (k : Nat) : chunkedLen (c.consume k) = chunkedLen c := rfl

/-- bytes of the raw stream not yet taken by the body reader -/
def bodyLen (r : BodyReader) : Nat := r.src.data.length

theorem Body.read_le (r : BodyReader) (n : Nat) : bodyLen (r.read n).2 ≤ bodyLen r := by
  obtain ⟨enc, fail⟩ := r
  cases enc with
  | fixed f => exact Fixed.read_le f n
  | chunked c => exact Chunked.read_le c n
  | eof b => exact Buf.read_le (ρ := Swl) b n
  | empty s => exact Nat.le_refl _

theorem Body.fillBuf_le (r : BodyReader) : bodyLen (r.fillBuf).2 ≤ bodyLen r := by
  obtain ⟨enc, fail⟩ := r
  cases enc with
  | fixed f => exact Fixed.fillBuf_le f
  | chunked c => exact Chunked.fillBuf_le c
  | eof b => exact Buf.fillBuf_le (ρ := Swl) b
  | empty s => exact Nat.le_refl _

theorem Body.consume_eq (r : BodyReader) (k : Nat) : bodyLen (r.consume k) = bodyLen r := by
  obtain ⟨enc, fail⟩ := r
  cases enc <;> rfl

theorem Body.drainLoop_le (fuel : Nat) : ∀ r : BodyReader, bodyLen (BodyReader.drainLoop fuel r) ≤ bodyLen r := by
  induction fuel with
  | zero => intro r; exact Nat.le_refl _
  | succ f ih =>
    intro r
    have h := Body.read_le r 1024
    unfold BodyReader.drainLoop
    split
    · rename_i out r1 heq; rw [heq] at h
      split
      · exact h
      · exact Nat.le_trans (ih r1) h
    · rename_i e r1 heq; rw [heq] at h; exact h

theorem Body.drain_le (r : BodyReader) : bodyLen r.drain ≤ bodyLen r := by
  unfold BodyReader.drain
  split
  · exact Nat.le_refl _
  · exact Nat.le_refl _
  · exact Body.drainLoop_le _ _

theorem Body.applyOps_le (ops : List BodyOp) : ∀ b : BodyReader, bodyLen (applyBodyOps b ops) ≤ bodyLen b := by
  induction ops with
  | nil => intro b; exact Nat.le_refl _
  | cons op ops ih =>
    intro b
    have h1 : bodyLen (applyBodyOp b op) ≤ bodyLen b := by
      cases op with
      | read n => exact Body.read_le b n
      | fillBuf => exact Body.fillBuf_le b
      | consume k => exact Nat.le_of_eq (Body.consume_eq b k)
    exact Nat.le_trans (ih _) h1

theorem fromRequest_src (lo : Bytes) (src : Src) (ch : Bool) (cl : Option Nat) :
    (BodyReader.fromRequest lo src ch cl).src = src := by
  unfold BodyReader.fromRequest
  split
  · rfl
  · split
    · split <;> rfl
    · rfl

-- ------------------------------------------------------------------ progress and the connection loop

/-- what is sent when no request head could be read -/
def errResps : ReadErr → List Resp
  | .invalid => [BAD_REQUEST]
  | .tooLarge => [HEAD_TOO_LARGE]
  | _ => []

def errHang : ReadErr → Bool
  | .hang => true
  | _ => false

theorem handleOne_err (cfg : Cfg) (s : Sock) (e : ReadErr) (s1 : Sock) (log : RecvLog)
    (h : readRequest cfg.max s = (.error e, s1, log)) :
    handleOne cfg s =
      ⟨errResps e, false, s1, errHang e, log.foldl (fun a e => Nat.max a e.2) 0, false, false⟩ := by
  unfold handleOne
  rw [h]
  cases e <;> rfl

theorem splitSizes_flatten : ∀ (fuel : Nat) (d : Bytes) (gs : List Nat), (splitSizes fuel d gs).flatten = d := by
  intro fuel
  induction fuel with
  | zero =>
    intro d gs
    unfold splitSizes
    cases d <;> simp
  | succ f ih =>
    intro d gs
    cases d with
    | nil => simp [splitSizes]
    | cons a t =>
      cases gs with
      | nil => simp [splitSizes]
      | cons g gs =>
        simp only [splitSizes, List.flatten_cons, ih]
        exact List.take_append_drop _ _

theorem ofSrc_pending (src : Src) (eof : Bool) : (Sock.ofSrc src eof).pending = src.data :=
  splitSizes_flatten _ _ _

theorem toSrc_data (s : Sock) : s.toSrc.data = s.pending := rfl

/-- handlers that never hand back a body reader with more unread stream than they were given -/
def HandlersShrink (cfg : Cfg) : Prop :=
  ∀ req b, bodyLen (handlerCall cfg req b).body ≤ bodyLen b

theorem handlersShrink_of_api {cfg : Cfg} (h : cfg.HandlersUseApi) : HandlersShrink cfg := by
  intro req b
  have key : ∀ (m : Option Nat × Params),
      bodyLen ((match m.1 with | some i => cfg.handler i | none => cfg.fallback) req m.2 b).body ≤ bodyLen b := by
    intro m
    rcases m with ⟨_ | i, ps⟩
    · obtain ⟨ops, hops⟩ := h.2 req ps b
      simp only [hops]; exact Body.applyOps_le ops b
    · obtain ⟨ops, hops⟩ := h.1 i req ps b
      simp only [hops]; exact Body.applyOps_le ops b
  exact key _

theorem bodyOf_len (ok : ReadOk) (s1 : Sock) : bodyLen (bodyOf ok s1) = s1.pending.length := by
  unfold bodyLen bodyOf
  rw [fromRequest_src]; rfl

/-- every `handle_one_request` call that says keep-alive (and is not blocked) has consumed at least one byte -/
theorem handleOne_progress (cfg : Cfg) (hs : HandlersShrink cfg) (s : Sock)
    (hk : (handleOne cfg s).keep = true) : (handleOne cfg s).sock.pending.length < s.pending.length := by
  rcases hr : readRequest cfg.max s with ⟨res, s1, log⟩
  cases res with
  | error e => rw [handleOne_err cfg s e s1 log hr] at hk; simp at hk
  | ok ok =>
    have h1 : (readRequest cfg.max s).1 = .ok ok := by rw [hr]
    obtain ⟨hp, _, hcat, _⟩ := readRequest_ok_post h1
    rw [hr] at hcat
    simp only at hcat
    have hne : ok.buf ≠ [] := by
      intro h0; rw [h0, Request.parse_nil] at hp; cases hp
    have hlen : s1.pending.length < s.pending.length := by
      rw [← hcat, List.length_append]
      have := List.length_pos_iff.mpr hne
      omega
    rw [handleOne_ok cfg s ok s1 log hr] at hk ⊢
    simp only [] at hk ⊢
    cases hh : hookOf cfg ok.req with
    | drop resp =>
      simp only [hh] at hk ⊢
      split at hk
      · simp at hk
      · rename_i hc
        rw [if_neg hc]
        simp only [ofSrc_pending]
        have := Body.drain_le (bodyOf ok s1)
        rw [bodyOf_len] at this
        unfold bodyLen at this
        omega
    | proceed =>
      simp only [hh] at hk ⊢
      simp only [ofSrc_pending]
      have h1 := Body.drain_le (handlerCall cfg ok.req (bodyOf ok s1)).body
      have h2 := hs ok.req (bodyOf ok s1)
      rw [bodyOf_len] at h2
      unfold bodyLen at h1 h2
      omega

/-- the entry `handle_connection` records for one call -/
def entryOf (o : OneOut) : Bool × List Resp := (o.parsed, o.resps)

/-- the progress property of a configuration -/
def Progress (cfg : Cfg) : Prop :=
  ∀ s, (handleOne cfg s).keep = true → (handleOne cfg s).hang = false →
    (handleOne cfg s).sock.pending.length < s.pending.length

theorem progress_of_api {cfg : Cfg} (h : cfg.HandlersUseApi) : Progress cfg :=
  fun s hk _ => handleOne_progress cfg (handlersShrink_of_api h) s hk

theorem connLoop_run (cfg : Cfg) (hp : Progress cfg) : ∀ (fuel : Nat) (s : Sock) (acc : List (Bool × List Resp))
    (mr : Nat), s.pending.length + 1 ≤ fuel →
    ∃ cs last, IsCallRun cfg s cs ∧ cs.getLast? = some last ∧ (last.keep = false ∨ last.hang = true) ∧
      (connLoop cfg fuel s acc mr).reqs = acc ++ cs.map entryOf ∧
      (connLoop cfg fuel s acc mr).sock = last.sock ∧
      (connLoop cfg fuel s acc mr).fin = (if last.hang then .hang else .closed) ∧
      (connLoop cfg fuel s acc mr).failed = (!last.hang && last.failed) ∧
      (connLoop cfg fuel s acc mr).maxRecv = cs.foldl (fun m o => Nat.max m o.maxRecv) mr := by
  intro fuel
  induction fuel with
  | zero => intro s acc mr h; omega
  | succ f ih =>
    intro s acc mr hf
    simp only [connLoop]
    by_cases hh : (handleOne cfg s).hang = true
    · refine ⟨[handleOne cfg s], handleOne cfg s, rfl, rfl, .inr hh, ?_⟩
      simp [hh, entryOf]
    · have hh' : (handleOne cfg s).hang = false := by simpa using hh
      by_cases hk : (handleOne cfg s).keep = true
      · have hlt := hp s hk hh'
        obtain ⟨cs, last, hrun, hlast, hend, h1, h2, h3, h4, h5⟩ :=
          ih (handleOne cfg s).sock (acc ++ [((handleOne cfg s).parsed, (handleOne cfg s).resps)])
            (Nat.max mr (handleOne cfg s).maxRecv) (by omega)
        cases cs with
        | nil => simp at hlast
        | cons o' rest =>
          refine ⟨handleOne cfg s :: o' :: rest, last, ⟨rfl, hk, hh', hrun⟩, ?_, hend, ?_⟩
          · rw [List.getLast?_cons_cons]; exact hlast
          · simp only [hh', hk, Bool.false_eq_true, if_false, Bool.not_true]
            refine ⟨?_, h2, h3, h4, ?_⟩
            · rw [h1]; simp [entryOf]
            · rw [h5]; rfl
      · have hk' : (handleOne cfg s).keep = false := by simpa using hk
        refine ⟨[handleOne cfg s], handleOne cfg s, rfl, rfl, .inl hk', ?_⟩
        simp [hh', hk', entryOf]

theorem connLoop_fuel_irrelevant (cfg : Cfg) (hp : Progress cfg) : ∀ (fuel fuel' : Nat) (s : Sock)
    (acc : List (Bool × List Resp)) (mr : Nat), s.pending.length + 1 ≤ fuel → s.pending.length + 1 ≤ fuel' →
    connLoop cfg fuel s acc mr = connLoop cfg fuel' s acc mr := by
  intro fuel
  induction fuel with
  | zero => intro _ s _ _ h; omega
  | succ f ih =>
    intro fuel' s acc mr hf hf'
    cases fuel' with
    | zero => omega
    | succ f' =>
      simp only [connLoop]
      by_cases hh : (handleOne cfg s).hang = true
      · simp [hh]
      · have hh' : (handleOne cfg s).hang = false := by simpa using hh
        by_cases hk : (handleOne cfg s).keep = true
        · have hlt := hp s hk hh'
          simp only [hh', hk, Bool.false_eq_true, if_false, Bool.not_true]
          exact ih f' _ _ _ (by omega) (by omega)
        · simp [hh, hk]

/-- a run determines the calls: `cs` is unique given where it stops -/
theorem isCallRun_head {cfg : Cfg} {s : Sock} {cs : List OneOut} (h : IsCallRun cfg s cs) :
    cs.head? = some (handleOne cfg s) := by
  match cs, h with
  | [o], h => simp [IsCallRun] at h; simp [h]
  | o :: o' :: rest, h => simp [IsCallRun] at h; simp [h.1]

-- ------------------------------------------------------------------ framing decision of the header collection

section Framing
open Spec Hdr

/-- a valid Content-Length value: `1*DIGIT`, below 2^64 (the predicate of `framingOk`) -/
def validCl (d : Bytes) : Bool := d != [] && d.all isDigit && decimal d < 2 ^ 64

/-- what `parse_content_length` returns for the raw text of a well-formed field line -/
theorem parseCL_wf (raw : Bytes) (hv : ∀ b ∈ raw, isFieldValueByte b = true) :
    Headers.parseContentLength (trimStart raw) =
      if validCl (trimOws raw) then some (decimal (trimOws raw)) else none := by
  rw [parseContentLength_eq]
  unfold parseClBy
  have e : trimBy isAsciiWs (trimStart raw) = trimOws raw := by
    show trimAscii (trimStart raw) = trimOws raw
    rw [trimAscii_trimStart, trimAscii_eq_trimOws (fun b hb => fvb_ws b (hv b hb))]
  rw [e]
  rfl

/-- the bookkeeping of `add` for Content-Length, as a pure fold over the values -/
def clStep (st : Bool × Option Nat) (d : Bytes) : Bool × Option Nat :=
  let p := if validCl d then some (decimal d) else none
  (st.1 || p.isNone || (st.2.isSome && st.2 != p), p)

theorem fold_cl_eq : ∀ (fs : List (Bytes × Bytes)) (h0 : Headers), (∀ f ∈ fs, WfRfcLine f = true) →
    let h := fs.foldl (fun h f => h.add f.1 (trimStart f.2)) h0
    (h.invalidCl, h.cl) = (clValues fs).foldl clStep (h0.invalidCl, h0.cl) := by
  intro fs
  induction fs with
  | nil => intro h0 _; rfl
  | cons f fs ih =>
    intro h0 hw
    simp only [List.foldl_cons]
    have ih' := ih (h0.add f.1 (trimStart f.2)) (fun x hx => hw x (by simp [hx]))
    simp only at ih'
    rw [ih']
    by_cases hn : eqIgnoreCase f.1 Headers.CONTENT_LENGTH = true
    · have e : clValues (f :: fs) = trimOws f.2 :: clValues fs := by
        have hn' : eqIgnoreCase f.1 (str "content-length") = true := hn
        simp [clValues, hn']
      obtain ⟨a1, a2, _⟩ := Hdr.add_cl h0 f.1 (trimStart f.2) hn
      rw [e, List.foldl_cons, a1, a2, parseCL_wf f.2 (wfRfc_value (hw f (by simp)))]
      rfl
    · have hn : eqIgnoreCase f.1 Headers.CONTENT_LENGTH = false := by simpa using hn
      have e : clValues (f :: fs) = clValues fs := by
        have hn' : eqIgnoreCase f.1 (str "content-length") = false := hn
        simp [clValues, hn']
      obtain ⟨a1, a2, _⟩ := Hdr.add_notcl h0 f.1 (trimStart f.2) hn
      rw [e, a1, a2]

theorem clFold_bad (ds : List Bytes) (c : Option Nat) : (ds.foldl clStep (true, c)).1 = true := by
  induction ds generalizing c with
  | nil => rfl
  | cons d ds ih => simp only [List.foldl_cons, clStep, Bool.true_or]; exact ih _

/-- all values valid and all the same number (the Content-Length part of `framingOk`) -/
def clAgree (ds : List Bytes) : Bool :=
  ds.all validCl && (match ds with | [] => true | d :: ds' => ds'.all (fun e => decimal e == decimal d))

/-- the pure fold, solved -/
theorem clFold_some (ds : List Bytes) (n : Nat) :
    ((ds.foldl clStep (false, some n)).1 = false ↔ ∀ d ∈ ds, validCl d = true ∧ decimal d = n) ∧
    ((ds.foldl clStep (false, some n)).1 = false → (ds.foldl clStep (false, some n)).2 = some n) := by
  induction ds with
  | nil => simp
  | cons d ds ih =>
    simp only [List.foldl_cons, clStep]
    by_cases hv : validCl d = true
    · by_cases hd : decimal d = n
      · simp only [hv, if_true, hd]
        have : (false || (some n).isNone || ((some n).isSome && some n != some n)) = false := by simp
        rw [this]
        refine ⟨?_, ih.2⟩
        rw [ih.1]
        constructor
        · intro h x hx
          rcases List.mem_cons.mp hx with rfl | hx
          · exact ⟨hv, hd⟩
          · exact h x hx
        · intro h x hx; exact h x (by simp [hx])
      · simp only [hv, if_true]
        have : (false || (some (decimal d)).isNone || ((some n).isSome && some n != some (decimal d))) = true := by
          simp; exact fun h => hd h.symm
        rw [this, clFold_bad]
        refine ⟨?_, by simp⟩
        constructor
        · simp
        · intro h; exact absurd (h d (by simp)).2 hd
    · have hv' : validCl d = false := by simpa using hv
      simp only [hv', Bool.false_eq_true, if_false]
      have : (false || (none : Option Nat).isNone || ((some n).isSome && some n != none)) = true := by simp
      rw [this, clFold_bad]
      refine ⟨?_, by simp⟩
      constructor
      · simp
      · intro h; have := (h d (by simp)).1; simp [hv'] at this

theorem clFold_none (ds : List Bytes) :
    ((ds.foldl clStep (false, none)).1 = false ↔ clAgree ds = true) ∧
    ((ds.foldl clStep (false, none)).1 = false →
      (ds.foldl clStep (false, none)).2 = ds.head?.map decimal) := by
  unfold clAgree
  cases ds with
  | nil => simp
  | cons d ds =>
    simp only [List.foldl_cons, clStep]
    by_cases hv : validCl d = true
    · simp only [hv, if_true]
      have : (false || (some (decimal d)).isNone || ((none : Option Nat).isSome && none != some (decimal d))) = false := by
        simp
      rw [this]
      obtain ⟨i1, i2⟩ := clFold_some ds (decimal d)
      refine ⟨?_, fun h => by rw [i2 h]; rfl⟩
      rw [i1]
      simp only [List.all_cons, hv, Bool.true_and, Bool.and_eq_true, List.all_eq_true, beq_iff_eq]
      constructor
      · intro h; exact ⟨fun x hx => (h x hx).1, fun x hx => (h x hx).2⟩
      · intro h x hx; exact ⟨h.1 x hx, h.2 x hx⟩
    · have hv' : validCl d = false := by simpa using hv
      simp only [hv', Bool.false_eq_true, if_false]
      have : (false || (none : Option Nat).isNone || ((none : Option Nat).isSome && (none : Option Nat) != none)) = true := by
        simp
      rw [this, clFold_bad]
      simp [hv']

/-- Content-Length bookkeeping of the collection after parsing well-formed lines -/
theorem collect_cl (fs : List (Bytes × Bytes)) (hw : ∀ f ∈ fs, WfRfcLine f = true) :
    ((collect fs).invalidCl = false ↔ clAgree (clValues fs) = true) ∧
    ((collect fs).invalidCl = false → (collect fs).cl = (clValues fs).head?.map decimal) := by
  have h := fold_cl_eq fs Headers.new hw
  simp only at h
  have h1 : (collect fs).invalidCl = ((clValues fs).foldl clStep (false, none)).1 := congrArg Prod.fst h
  have h2 : (collect fs).cl = ((clValues fs).foldl clStep (false, none)).2 := congrArg Prod.snd h
  rw [h1, h2]
  exact clFold_none _

/-- `te_final_not_chunked` after parsing = the RFC's "final coding is not chunked" -/
theorem collect_teFinal (fs : List (Bytes × Bytes)) (hw : ∀ f ∈ fs, WfRfcLine f = true) :
    (collect fs).teFinalNotChunked = !finalCodingChunked fs := by
  have := fold_te fs Headers.new hw
  unfold collect
  rw [this]
  unfold finalCodingChunked
  cases (teLines fs).getLast? with
  | none => rfl
  | some v => rfl

theorem add_chunked (h : Headers) (name value : Bytes) :
    (h.add name value).chunked =
      (h.chunked || (eqIgnoreCase name Headers.TRANSFER_ENCODING && !eqIgnoreCase name Headers.CONTENT_LENGTH &&
        (Headers.teScan value).1)) := by
  unfold Headers.add
  by_cases hn : eqIgnoreCase name Headers.CONTENT_LENGTH = true
  · simp [hn]
  · have hn : eqIgnoreCase name Headers.CONTENT_LENGTH = false := by simpa using hn
    simp only [hn, Bool.false_eq_true, if_false]
    split
    · rename_i ht; simp [ht]
    · rename_i ht
      have ht : eqIgnoreCase name Headers.TRANSFER_ENCODING = false := by simpa using ht
      split <;> simp [ht]

theorem fold_chunked : ∀ (fs : List (Bytes × Bytes)) (h0 : Headers),
    (fs.foldl (fun h f => h.add f.1 (trimStart f.2)) h0).chunked =
      (h0.chunked || (teLines fs).any (fun v => (Headers.teScan (trimStart v)).1)) := by
  intro fs
  induction fs with
  | nil => intro h0; simp [teLines]
  | cons f fs ih =>
    intro h0
    simp only [List.foldl_cons]
    rw [ih, add_chunked]
    by_cases ht : eqIgnoreCase f.1 Headers.TRANSFER_ENCODING = true
    · have ht' : eqIgnoreCase f.1 (str "transfer-encoding") = true := ht
      have hcl : eqIgnoreCase f.1 Headers.CONTENT_LENGTH = false := by
        cases hc : eqIgnoreCase f.1 Headers.CONTENT_LENGTH with
        | false => rfl
        | true => have := cl_not_te _ hc; rw [ht] at this; cases this
      have e : teLines (f :: fs) = f.2 :: teLines fs := by simp [teLines, ht']
      rw [e]; simp [ht, hcl, Bool.or_assoc]
    · have ht0 : eqIgnoreCase f.1 Headers.TRANSFER_ENCODING = false := by simpa using ht
      have ht' : eqIgnoreCase f.1 (str "transfer-encoding") = false := ht0
      have e : teLines (f :: fs) = teLines fs := by simp [teLines, ht']
      rw [e]; simp [ht0]

theorem teScan_snd_imp_fst (v : Bytes) (h : (Headers.teScan v).2 = true) : (Headers.teScan v).1 = true := by
  rw [teScan_eq] at h ⊢
  simp only at h ⊢
  split at h
  · cases h
  · rename_i t ht
    have hm : t ∈ (elemsBy isAsciiWs v).filter (· != []) := List.mem_of_getLast? ht
    have hm' : t ∈ elemsBy isAsciiWs v := (List.mem_filter.mp hm).1
    unfold hasTokenBy
    exact List.any_eq_true.mpr ⟨t, hm', h⟩

theorem framingOk_eq (fs : List (Bytes × Bytes)) :
    framingOk fs = (clAgree (clValues fs) && finalCodingChunked fs) := rfl

theorem collect_chunked (fs : List (Bytes × Bytes)) :
    (collect fs).chunked = (teLines fs).any (fun v => (Headers.teScan (trimStart v)).1) := by
  have := fold_chunked fs Headers.new
  unfold collect
  rw [this]; rfl

theorem hasTokenBy_trimStart (tok v : Bytes) :
    hasTokenBy isAsciiWs tok (trimStart v) = hasTokenBy isAsciiWs tok v := by
  unfold hasTokenBy elemsBy trimStart
  obtain ⟨t, ts, e1, e2⟩ := Hdr.splitOn_dropWhile COMMA isAsciiWs (by decide) v
  rw [e1, e2]
  simp only [List.map_cons]
  have : trimBy isAsciiWs (t.dropWhile isAsciiWs) = trimBy isAsciiWs t := by
    unfold trimBy; rw [Hdr.dropWhile_idem]
  rw [this]

theorem cl_ne_conn : eqIgnoreCase CL_NAME CONN_NAME = false := by decide +kernel

/-- evaluating the close flag on the stored fields = evaluating it on the field lines of the wire -/
theorem evalCloseA_stored (lines : List (Bytes × Bytes)) :
    evalCloseA ((lines.filter fun f => !isClName f.1).map fun f => (f.1, trimStart f.2)) = evalCloseA lines := by
  unfold evalCloseA evalCloseBy evalFlagBy
  induction lines with
  | nil => rfl
  | cons f rest ih =>
    cases hc : isClName f.1 with
    | true =>
      have : eqIgnoreCase f.1 CONN_NAME = false := not_both cl_ne_conn hc
      simp only [List.filter_cons, hc, Bool.not_true, Bool.false_eq_true, if_false, List.any_cons, this,
        Bool.false_and, Bool.false_or]
      exact ih
    | false =>
      simp only [List.filter_cons, hc, Bool.not_false, if_true, List.map_cons, List.any_cons, hasTokenBy_trimStart]
      rw [ih]

theorem evalCloseBy_iff (ws : UInt8 → Bool) (fs : List (Bytes × Bytes)) :
    evalCloseBy ws fs = true ↔
      ∃ f ∈ fs, eqIgnoreCase f.1 (str "connection") = true ∧
        ∃ e ∈ splitOn COMMA f.2, eqIgnoreCase (trimBy ws e) (str "close") = true := by
  unfold evalCloseBy evalFlagBy hasTokenBy elemsBy
  simp only [List.any_eq_true, Bool.and_eq_true, List.mem_map]
  constructor
  · rintro ⟨f, hf, hn, e, ⟨x, hx, rfl⟩, he⟩
    exact ⟨f, hf, hn, x, hx, he⟩
  · rintro ⟨f, hf, hn, x, hx, he⟩
    exact ⟨f, hf, hn, _, ⟨x, hx, rfl⟩, he⟩

end Framing

-- ------------------------------------------------------------------ framing decision on the normal form

section FramingNorm
open Spec Hdr

/-- what the framing decision reads of one Content-Length value -/
def clKey (d : Bytes) : Option Nat := if validCl d then some (decimal d) else none

theorem isSome_clKey (d : Bytes) : (clKey d).isSome = validCl d := by
  unfold clKey; cases validCl d <;> rfl

theorem clKey_of_valid {d : Bytes} (h : validCl d = true) : clKey d = some (decimal d) := by
  unfold clKey; rw [if_pos h]

def clAgreeK (ks : List (Option Nat)) : Bool :=
  ks.all Option.isSome && (match ks with | [] => true | k :: ks' => ks'.all (· == k))

theorem clAgree_eq (ds : List Bytes) : clAgree ds = clAgreeK (ds.map clKey) := by
  unfold clAgree clAgreeK
  have h1 : (ds.map clKey).all Option.isSome = ds.all validCl := by
    rw [List.all_map]; congr 1; funext d; exact isSome_clKey d
  rw [h1]
  cases hv : ds.all validCl with
  | false => rfl
  | true =>
    simp only [Bool.true_and]
    cases ds with
    | nil => rfl
    | cons d ds' =>
      simp only [List.map_cons, List.all_map]
      rw [List.all_eq_true] at hv
      have hd := clKey_of_valid (hv d (by simp))
      rw [Bool.eq_iff_iff, List.all_eq_true, List.all_eq_true]
      constructor
      · intro h e he
        have := h e he
        simp only [Function.comp, hd, clKey_of_valid (hv e (by simp [he]))]
        simpa using this
      · intro h e he
        have := h e he
        simp only [Function.comp, hd, clKey_of_valid (hv e (by simp [he]))] at this
        simpa using this

theorem fcc_eq (fs : List (Bytes × Bytes)) :
    finalCodingChunked fs = (((teLines fs).map teFinal).getLast?).getD true := by
  unfold finalCodingChunked
  rw [List.getLast?_map]
  cases (teLines fs).getLast? <;> rfl

/-- the framing decision reads only the keys of the Content-Length values and the final-coding verdicts of the
    Transfer-Encoding lines -/
theorem framingOf_congr (fs fs' : List (Bytes × Bytes))
    (hcl : (clValues fs).map clKey = (clValues fs').map clKey)
    (hte : (teLines fs).map teFinal = (teLines fs').map teFinal) : framingOf fs = framingOf fs' := by
  have hok : framingOk fs = framingOk fs' := by
    rw [framingOk_eq, framingOk_eq, clAgree_eq, clAgree_eq, hcl, fcc_eq, fcc_eq, hte]
  have hemp : (teLines fs).isEmpty = (teLines fs').isEmpty := by
    have := congrArg List.length hte
    simp only [List.length_map] at this
    cases h1 : teLines fs <;> cases h2 : teLines fs' <;> simp [h1, h2] at this ⊢
  unfold framingOf
  rw [hok, hemp]
  cases hk : framingOk fs' with
  | false => rfl
  | true =>
    simp only [Bool.not_true, Bool.false_eq_true, if_false]
    split
    · rfl
    · rw [hk] at hok
      have a1 : clAgree (clValues fs) = true := by
        rw [framingOk_eq] at hok; simp only [Bool.and_eq_true] at hok; exact hok.1
      have a2 : clAgree (clValues fs') = true := by
        rw [framingOk_eq] at hk; simp only [Bool.and_eq_true] at hk; exact hk.1
      cases h1 : clValues fs with
      | nil =>
        cases h2 : clValues fs' with
        | nil => rfl
        | cons d' t' => rw [h1, h2] at hcl; simp at hcl
      | cons d t =>
        cases h2 : clValues fs' with
        | nil => rw [h1, h2] at hcl; simp at hcl
        | cons d' t' =>
          rw [h1, h2] at hcl
          simp only [List.map_cons, List.cons.injEq] at hcl
          rw [h1] at a1; rw [h2] at a2
          unfold clAgree at a1 a2
          simp only [List.all_cons, Bool.and_eq_true] at a1 a2
          rw [clKey_of_valid a1.1.1, clKey_of_valid a2.1.1] at hcl
          simp only [Option.some.injEq] at hcl
          simp only [hcl.1]

theorem mem_dropWhile_of_not {p : UInt8 → Bool} {b : UInt8} : ∀ {l : Bytes}, b ∈ l → p b = false → b ∈ l.dropWhile p := by
  intro l
  induction l with
  | nil => intro h _; exact h
  | cons a l ih =>
    intro h hb
    simp only [List.dropWhile_cons]
    split
    · rename_i ha
      rcases List.mem_cons.mp h with rfl | h
      · rw [hb] at ha; cases ha
      · exact ih h hb
    · exact h

theorem mem_trimOws_of_not_ows {b : UInt8} {v : Bytes} (h : b ∈ v) (hb : isOws b = false) : b ∈ trimOws v := by
  unfold trimOws
  rw [List.mem_reverse]
  apply mem_dropWhile_of_not _ hb
  rw [List.mem_reverse]
  exact mem_dropWhile_of_not h hb

theorem splitOn_two {c : UInt8} : ∀ {v : Bytes}, c ∈ v → ∃ a b rest, splitOn c v = a :: b :: rest := by
  intro v
  induction v with
  | nil => intro h; simp at h
  | cons x v ih =>
    intro h
    unfold splitOn
    split
    · have := Hdr.splitOn_ne_nil c v
      cases hs : splitOn c v with
      | nil => exact absurd hs this
      | cons a t => exact ⟨[], a, t, rfl⟩
    · rename_i hx
      have hx' : x ≠ c := by intro e; exact hx (by simp [e])
      have hv : c ∈ v := by
        rcases List.mem_cons.mp h with e | h
        · exact absurd e.symm hx'
        · exact h
      obtain ⟨a, b, rest, e⟩ := ih hv
      rw [e]; exact ⟨x :: a, b, rest, rfl⟩

theorem isDigit_toLower : ∀ b : UInt8, isDigit b = true → toLower b = b := by
  apply Hdr.forall_uint8; decide +kernel

theorem isDigit_toLower' : ∀ b : UInt8, isDigit (toLower b) = isDigit b := by
  apply Hdr.forall_uint8; decide +kernel

theorem clKey_map_toLower (d : Bytes) : clKey (d.map toLower) = clKey d := by
  by_cases hd : d.all isDigit = true
  · have : d.map toLower = d := by
      rw [List.all_eq_true] at hd
      conv => rhs; rw [← List.map_id d]
      apply List.map_congr_left
      intro b hb; exact isDigit_toLower b (hd b hb)
    rw [this]
  · have hd : d.all isDigit = false := by simpa using hd
    have hd' : (d.map toLower).all isDigit = false := by
      rw [List.all_map]
      have : (isDigit ∘ toLower) = isDigit := by funext b; exact isDigit_toLower' b
      rw [this]; exact hd
    unfold clKey validCl
    simp [hd, hd']

def clKeyN (es : List Bytes) : Option Nat :=
  match es with
  | [e] => clKey e
  | _ => none

theorem clKey_norm (v : Bytes) : clKey (trimOws v) = clKeyN ((splitOn COMMA v).map normElem) := by
  by_cases hc : COMMA ∈ v
  · obtain ⟨a, b, rest, e⟩ := splitOn_two hc
    rw [e]
    have : COMMA ∈ trimOws v := mem_trimOws_of_not_ows hc (by decide)
    have hnd : (trimOws v).all isDigit = false := by
      rw [Bool.eq_false_iff]; intro hall
      rw [List.all_eq_true] at hall
      have := hall COMMA this
      revert this; decide
    simp [clKeyN, clKey, validCl, hnd]
  · rw [splitOn_no_sep hc]
    simp only [List.map_cons, List.map_nil, clKeyN, normElem]
    rw [show trimBy isOws v = trimOws v from rfl, clKey_map_toLower]

def kcl (nf : Bytes × List Bytes) : Option (Option Nat) := if nf.1 == CL_NAME then some (clKeyN nf.2) else none

theorem cl_name_lower : CL_NAME.map toLower = CL_NAME := by decide +kernel

theorem clValues_keys (fs : List (Bytes × Bytes)) : (clValues fs).map clKey = (fs.map normField).filterMap kcl := by
  induction fs with
  | nil => rfl
  | cons f fs ih =>
    have hname : eqIgnoreCase f.1 (str "content-length") = ((f.1.map toLower) == CL_NAME) :=
      eqIgnoreCase_lower cl_name_lower f.1
    simp only [List.map_cons, List.filterMap_cons, kcl, normField]
    cases hn : ((f.1.map toLower) == CL_NAME) with
    | true =>
      have e : clValues (f :: fs) = trimOws f.2 :: clValues fs := by simp [clValues, hname, hn]
      rw [e, List.map_cons, ih, clKey_norm]; simp
    | false =>
      have e : clValues (f :: fs) = clValues fs := by simp [clValues, hname, hn]
      rw [e, ih]; simp

def teFinalN (es : List Bytes) : Bool :=
  match (es.filter (· != [])).getLast? with
  | none => false
  | some t => t == CHUNKED

theorem teFinal_norm (v : Bytes) : teFinal v = teFinalN ((splitOn COMMA v).map normElem) := by
  unfold teFinal teFinalN listElems
  have e : ((splitOn COMMA v).map normElem).filter (· != []) =
      (((splitOn COMMA v).map trimOws).filter (· != [])).map (List.map toLower) := by
    rw [show normElem = (List.map toLower) ∘ trimOws from rfl, ← List.map_map, List.filter_map]
    congr 1
    apply List.filter_congr
    intro x _
    cases x <;> rfl
  rw [e, List.getLast?_map]
  cases (((splitOn COMMA v).map trimOws).filter (· != [])).getLast? with
  | none => rfl
  | some t => exact eqIgnoreCase_lower chunked_lower t

def kte (nf : Bytes × List Bytes) : Option Bool := if nf.1 == TE_NAME then some (teFinalN nf.2) else none

theorem teLines_keys (fs : List (Bytes × Bytes)) : (teLines fs).map teFinal = (fs.map normField).filterMap kte := by
  induction fs with
  | nil => rfl
  | cons f fs ih =>
    have hname : eqIgnoreCase f.1 (str "transfer-encoding") = ((f.1.map toLower) == TE_NAME) :=
      eqIgnoreCase_lower te_name_lower f.1
    simp only [List.map_cons, List.filterMap_cons, kte, normField]
    cases hn : ((f.1.map toLower) == TE_NAME) with
    | true =>
      have e : teLines (f :: fs) = f.2 :: teLines fs := by simp [teLines, hname, hn]
      rw [e, List.map_cons, ih, teFinal_norm]; simp
    | false =>
      have e : teLines (f :: fs) = teLines fs := by simp [teLines, hname, hn]
      rw [e, ih]; simp

/-- the framing decision factors through the normal form of the field lines -/
theorem framingOf_norm (fs fs' : List (Bytes × Bytes)) (h : fs.map normField = fs'.map normField) :
    framingOf fs = framingOf fs' :=
  framingOf_congr fs fs' (by rw [clValues_keys, clValues_keys, h]) (by rw [teLines_keys, teLines_keys, h])

end FramingNorm

-- ------------------------------------------------------------------ the driver configuration uses the reader via its API

section Harness
open Khttp.Driver

theorem runReadLoop_api (fuel : Nat) : ∀ (r : BodyReader) (reads : List Nat) (last : Nat) (acc : List Bytes),
    ∃ ops, (runReadLoop fuel r reads last acc).2.2 = applyBodyOps r ops := by
  induction fuel with
  | zero => intro r _ _ _; exact ⟨[], rfl⟩
  | succ f ih =>
    intro r reads last acc
    unfold runReadLoop
    simp only []
    split
    · rename_i e r1 heq
      refine ⟨[.read (nextSize reads last)], ?_⟩
      simp [applyBodyOps, applyBodyOp, heq]
    · rename_i out r1 heq
      split
      · refine ⟨[.read (nextSize reads last)], ?_⟩
        simp [applyBodyOps, applyBodyOp, heq]
      · obtain ⟨ops, hops⟩ := ih r1 reads.tail (nextSize reads last) (acc ++ [out])
        refine ⟨.read (nextSize reads last) :: ops, ?_⟩
        rw [hops]
        simp [applyBodyOps, applyBodyOp, heq]

theorem readAll_api (b : BodyReader) : ∃ ops, (readAll b).2 = applyBodyOps b ops := by
  obtain ⟨ops, hops⟩ := runReadLoop_api (b.bound + 2) b [] defaultReadSize []
  refine ⟨ops, ?_⟩
  rw [← hops]
  unfold readAll runRead'
  split
  rename_i chunks outc b' heq
  rw [heq]
  split <;> rfl

theorem readK_api (fuel : Nat) : ∀ (b : BodyReader) (k : Nat) (acc : Bytes),
    ∃ ops, (readK fuel b k acc).2 = applyBodyOps b ops := by
  induction fuel with
  | zero => intro b _ _; exact ⟨[], rfl⟩
  | succ f ih =>
    intro b k acc
    unfold readK
    split
    · exact ⟨[], rfl⟩
    · split
      · rename_i out b' heq
        split
        · refine ⟨[.read (k - acc.length)], ?_⟩
          simp [applyBodyOps, applyBodyOp, heq]
        · obtain ⟨ops, hops⟩ := ih b' k (acc ++ out)
          refine ⟨.read (k - acc.length) :: ops, ?_⟩
          rw [hops]; simp [applyBodyOps, applyBodyOp, heq]
      · rename_i e b' heq
        refine ⟨[.read (k - acc.length)], ?_⟩
        simp [applyBodyOps, applyBodyOp, heq]

theorem harness_handlers_api : ∀ h ∈ [hEcho, hNoread, hReadK, hEarly, hSwallow, hClose, hErr, hBigr, hP, hFallback, hCloseEmpty, hCloser, hSilent, hContinue, hCloseRep],
    Handler.UsesBodyViaApi h := by
  intro h hm
  simp only [List.mem_cons, List.mem_nil_iff, or_false] at hm
  intro req ps b
  rcases hm with rfl | rfl | rfl | rfl | rfl | rfl | rfl | rfl | rfl | rfl | rfl | rfl | rfl | rfl | rfl
  · obtain ⟨ops, hops⟩ := readAll_api b
    refine ⟨ops, ?_⟩; rw [← hops]; unfold hEcho; split <;> (rename_i heq; rw [heq])
  · exact ⟨[], rfl⟩
  · obtain ⟨ops, hops⟩ := readK_api (((param ps "k").bind natOfBytes).getD 0 + 1) b (((param ps "k").bind natOfBytes).getD 0) []
    refine ⟨ops, ?_⟩; rw [← hops]; unfold hReadK; simp only []; split <;> (rename_i heq; rw [heq])
  · obtain ⟨ops, hops⟩ := readAll_api b
    refine ⟨ops, ?_⟩; rw [← hops]; unfold hEarly; split <;> (rename_i heq; rw [heq])
  · obtain ⟨ops, hops⟩ := readAll_api b
    refine ⟨ops, ?_⟩; rw [← hops]; unfold hSwallow; split <;> (rename_i heq; rw [heq])
  · exact ⟨[], rfl⟩
  · exact ⟨[], rfl⟩
  · exact ⟨[], rfl⟩
  · exact ⟨[], rfl⟩
  · exact ⟨[], rfl⟩
  · exact ⟨[], rfl⟩
  · exact ⟨[], rfl⟩
  · exact ⟨[], rfl⟩
  · obtain ⟨ops, hops⟩ := readAll_api b
    refine ⟨ops, ?_⟩; rw [← hops]; unfold hContinue; split <;> (rename_i heq; rw [heq])
  · exact ⟨[], rfl⟩

theorem harnessCfg_api (max : Nat) : (harnessCfg max).HandlersUseApi := by
  refine ⟨?_, harness_handlers_api hFallback (by simp)⟩
  intro i
  show Handler.UsesBodyViaApi ([hEcho, hNoread, hReadK, hEarly, hSwallow, hClose, hErr, hBigr, hP, hErr, hCloseEmpty, hCloser, hSilent, hErr,
    hEcho, hEcho, hEcho, hContinue, hCloseRep].getD i hFallback)
  apply harness_handlers_api
  rcases i with _ | _ | _ | _ | _ | _ | _ | _ | _ | _ | _ | _ | _ | _ | _ | _ | _ | _ | _ | i <;> simp [List.getD]

end Harness

end ConnFacts
end Khttp
