/-
  Helper lemmas for property C18 (`Khttp/Props/C18.lean`): calendar facts about the spec
  (`Khttp/Spec/Calendar.lean`) and the analysis of the arithmetic of `format_http_date`
  (`Khttp/Model/Date.lean`).  No Mathlib, no enumeration of days.
-/
import Khttp.Model.Date
import Khttp.Spec.Calendar
namespace Khttp.Lemmas.Date
open Khttp Khttp.Date Khttp.Spec.Calendar

/-! ### spec side -/

theorem isLeap_iff (y : Nat) : isLeap y = true ↔ (y % 4 = 0 ∧ y % 100 ≠ 0) ∨ y % 400 = 0 := by
  simp [isLeap]

/-- closed form of the sum of year lengths -/
theorem daysFromY0_closed (y : Nat) :
    (daysFromY0 y : Int) = 365 * (y : Int) + ((y : Int) + 3) / 4 - ((y : Int) + 99) / 100 + ((y : Int) + 399) / 400 := by
  induction y with
  | zero => simp [daysFromY0]
  | succ n ih =>
    simp only [daysFromY0, daysInYear]
    by_cases h : isLeap n = true
    · rw [if_pos h]
      rw [isLeap_iff] at h
      omega
    · rw [if_neg h]
      rw [isLeap_iff] at h
      omega

theorem daysFromY0_1970 : daysFromY0 1970 = 719528 := by
  have := daysFromY0_closed 1970
  omega

theorem daysFromY0_mono {a b : Nat} (h : a ≤ b) : daysFromY0 a ≤ daysFromY0 b := by
  induction h with
  | refl => exact Nat.le_refl _
  | step _ ih => simp only [daysFromY0]; omega

/-! ### model side: the 400/100/4/1-year decomposition -/

/-- pure arithmetic core of the 400/100/4/1 decomposition -/
theorem split_arith (qc r0 c q ry : Int) (h0 : 0 ≤ r0) (h1 : r0 < 146097)
    (hc : c = if r0 / 36524 = 4 then r0 / 36524 - 1 else r0 / 36524)
    (hq : q = if (r0 - c * 36524) / 1461 = 25 then (r0 - c * 36524) / 1461 - 1 else (r0 - c * 36524) / 1461)
    (hy : ry = if (r0 - c * 36524 - q * 1461) / 365 = 4 then (r0 - c * 36524 - q * 1461) / 365 - 1
               else (r0 - c * 36524 - q * 1461) / 365) :
    let yr := ry + 4 * q + 100 * c + 400 * qc
    let r := r0 - c * 36524 - q * 1461 - ry * 365
    146097 * qc + r0 = 365 * yr + yr / 4 - yr / 100 + yr / 400 + r ∧ 0 ≤ r ∧ r ≤ 365 ∧
      (r = 365 → (yr + 1) % 4 = 0 ∧ ((yr + 1) % 100 ≠ 0 ∨ (yr + 1) % 400 = 0)) ∧
      0 ≤ r0 - c * 36524 ∧ 0 ≤ r0 - c * 36524 - q * 1461 := by
  intro yr r
  have c0 : 0 ≤ c ∧ c ≤ 3 ∧ 0 ≤ r0 - c * 36524 ∧ r0 - c * 36524 ≤ 36524 ∧ (c < 3 → r0 - c * 36524 < 36524) := by
    split at hc <;> omega
  generalize hr1 : r0 - c * 36524 = r1 at *
  have q0 : 0 ≤ q ∧ q ≤ 24 ∧ 0 ≤ r1 - q * 1461 ∧ r1 - q * 1461 ≤ 1461 ∧ (q < 24 → r1 - q * 1461 < 1461)
      ∧ (q = 24 → c < 3 → r1 - q * 1461 < 1460) := by
    split at hq <;> omega
  generalize hr2 : r1 - q * 1461 = r2 at *
  have y0 : 0 ≤ ry ∧ ry ≤ 3 ∧ 0 ≤ r2 - ry * 365 ∧ r2 - ry * 365 ≤ 365 ∧ (ry < 3 → r2 - ry * 365 < 365) := by
    split at hy <;> omega
  have e4 : yr / 4 = q + 25 * c + 100 * qc := by omega
  have e100 : yr / 100 = c + 4 * qc := by omega
  have e400 : yr / 400 = qc := by omega
  have hr : r = r2 - ry * 365 := by omega
  refine ⟨by omega, by omega, by omega, ?_, by omega, by omega⟩
  intro h365
  have hry : ry = 3 := by omega
  refine ⟨by omega, ?_⟩
  by_cases hq24 : q = 24
  · right
    have : c = 3 := by omega
    omega
  · left
    omega

/-- on a non-negative dividend Rust's truncating `/` is the Euclidean one -/
theorem divCap_eq {x : Int} (hx : 0 ≤ x) (d cap : Int) :
    divCap x d cap = if x / d = cap then x / d - 1 else x / d := by
  simp only [divCap, Int.tdiv_eq_ediv_of_nonneg hx]

/-- `yearSplit t = (2000 + yr, r)`: `t` days after 2000-03-01 is day `r` of the March-based year `2000 + yr`;
    `r = 365` only when the following calendar year is a leap year.  For **all** `t`. -/
theorem yearSplit_spec (t : Int) :
    ∃ yr r : Int, yearSplit t = (2000 + yr, r) ∧
      t = 365 * yr + yr / 4 - yr / 100 + yr / 400 + r ∧ 0 ≤ r ∧ r ≤ 365 ∧
      (r = 365 → (yr + 1) % 4 = 0 ∧ ((yr + 1) % 100 ≠ 0 ∨ (yr + 1) % 400 = 0)) := by
  have h0 : 0 ≤ t % 146097 := Int.emod_nonneg t (by decide)
  have h1 : t % 146097 < 146097 := Int.emod_lt_of_pos t (by decide)
  have ht : 146097 * (t / 146097) + t % 146097 = t := Int.mul_ediv_add_emod t 146097
  unfold yearSplit
  simp only [Gen.daysPer400Y, Gen.daysPer100Y, Gen.daysPer4Y]
  generalize t % 146097 = r0 at *
  generalize t / 146097 = qc at *
  have hc := divCap_eq h0 36524 4
  generalize divCap r0 36524 4 = c at *
  have h5 : 0 ≤ r0 - c * 36524 := by split at hc <;> omega
  have hq := divCap_eq h5 1461 25
  generalize divCap (r0 - c * 36524) 1461 25 = q at *
  have h6 : 0 ≤ r0 - c * 36524 - q * 1461 := by split at hq <;> omega
  have hy := divCap_eq h6 365 4
  generalize divCap (r0 - c * 36524 - q * 1461) 365 4 = ry at *
  obtain ⟨k1, k2, k3, k4, -, -⟩ := split_arith qc r0 c q ry h0 h1 hc hq hy
  refine ⟨ry + 4 * q + 100 * c + 400 * qc, _, ?_, ?_, k2, k3, k4⟩
  · simp only [Prod.mk.injEq, and_true]; omega
  · omega

/-! ### model side: the month loop -/

theorem monthLoop_cons_lt {ml : Int} {rest : List Int} {idx : Nat} {rd : Int} (h : rd < ml) :
    monthLoop (ml :: rest) idx rd = (idx, rd) := by
  simp only [monthLoop, if_pos h]

theorem monthLoop_cons_ge {ml : Int} {rest : List Int} {idx : Nat} {rd : Int} (h : ml ≤ rd) :
    monthLoop (ml :: rest) idx rd = monthLoop rest (idx + 1) (rd - ml) := by
  simp only [monthLoop, if_neg (Int.not_lt.mpr h)]

/-- result of the month loop on a day-of-(March-based)-year `r` -/
theorem monthLoop_cases (r : Int) (h0 : 0 ≤ r) (h1 : r ≤ 365) :
    ∃ (k : Nat) (off len : Int), monthLoop Gen.months 0 r = (k, r - off) ∧ off ≤ r ∧ r < off + len ∧
      ((k, off, len) = (0, 0, 31) ∨ (k, off, len) = (1, 31, 30) ∨ (k, off, len) = (2, 61, 31) ∨
       (k, off, len) = (3, 92, 30) ∨ (k, off, len) = (4, 122, 31) ∨ (k, off, len) = (5, 153, 31) ∨
       (k, off, len) = (6, 184, 30) ∨ (k, off, len) = (7, 214, 31) ∨ (k, off, len) = (8, 245, 30) ∨
       (k, off, len) = (9, 275, 31) ∨ (k, off, len) = (10, 306, 31) ∨ (k, off, len) = (11, 337, 29)) := by
  have hcases : r < 31 ∨ (31 ≤ r ∧ r < 61) ∨ (61 ≤ r ∧ r < 92) ∨ (92 ≤ r ∧ r < 122) ∨ (122 ≤ r ∧ r < 153) ∨
      (153 ≤ r ∧ r < 184) ∨ (184 ≤ r ∧ r < 214) ∨ (214 ≤ r ∧ r < 245) ∨ (245 ≤ r ∧ r < 275) ∨
      (275 ≤ r ∧ r < 306) ∨ (306 ≤ r ∧ r < 337) ∨ (337 ≤ r ∧ r < 366) := by omega
  have hm : Gen.months = [31, 30, 31, 30, 31, 31, 30, 31, 30, 31, 31, 29] := rfl
  rw [hm]
  rcases hcases with h | h | h | h | h | h | h | h | h | h | h | h
  · refine ⟨0, 0, 31, ?_, by omega, by omega, by simp⟩
    repeat (refine Eq.trans (monthLoop_cons_ge (by omega)) ?_)
    refine Eq.trans (monthLoop_cons_lt (by omega)) ?_
    first | rfl | (congr 1 <;> omega)
  · refine ⟨1, 31, 30, ?_, by omega, by omega, by simp⟩
    repeat (refine Eq.trans (monthLoop_cons_ge (by omega)) ?_)
    refine Eq.trans (monthLoop_cons_lt (by omega)) ?_
    first | rfl | (congr 1 <;> omega)
  · refine ⟨2, 61, 31, ?_, by omega, by omega, by simp⟩
    repeat (refine Eq.trans (monthLoop_cons_ge (by omega)) ?_)
    refine Eq.trans (monthLoop_cons_lt (by omega)) ?_
    first | rfl | (congr 1 <;> omega)
  · refine ⟨3, 92, 30, ?_, by omega, by omega, by simp⟩
    repeat (refine Eq.trans (monthLoop_cons_ge (by omega)) ?_)
    refine Eq.trans (monthLoop_cons_lt (by omega)) ?_
    first | rfl | (congr 1 <;> omega)
  · refine ⟨4, 122, 31, ?_, by omega, by omega, by simp⟩
    repeat (refine Eq.trans (monthLoop_cons_ge (by omega)) ?_)
    refine Eq.trans (monthLoop_cons_lt (by omega)) ?_
    first | rfl | (congr 1 <;> omega)
  · refine ⟨5, 153, 31, ?_, by omega, by omega, by simp⟩
    repeat (refine Eq.trans (monthLoop_cons_ge (by omega)) ?_)
    refine Eq.trans (monthLoop_cons_lt (by omega)) ?_
    first | rfl | (congr 1 <;> omega)
  · refine ⟨6, 184, 30, ?_, by omega, by omega, by simp⟩
    repeat (refine Eq.trans (monthLoop_cons_ge (by omega)) ?_)
    refine Eq.trans (monthLoop_cons_lt (by omega)) ?_
    first | rfl | (congr 1 <;> omega)
  · refine ⟨7, 214, 31, ?_, by omega, by omega, by simp⟩
    repeat (refine Eq.trans (monthLoop_cons_ge (by omega)) ?_)
    refine Eq.trans (monthLoop_cons_lt (by omega)) ?_
    first | rfl | (congr 1 <;> omega)
  · refine ⟨8, 245, 30, ?_, by omega, by omega, by simp⟩
    repeat (refine Eq.trans (monthLoop_cons_ge (by omega)) ?_)
    refine Eq.trans (monthLoop_cons_lt (by omega)) ?_
    first | rfl | (congr 1 <;> omega)
  · refine ⟨9, 275, 31, ?_, by omega, by omega, by simp⟩
    repeat (refine Eq.trans (monthLoop_cons_ge (by omega)) ?_)
    refine Eq.trans (monthLoop_cons_lt (by omega)) ?_
    first | rfl | (congr 1 <;> omega)
  · refine ⟨10, 306, 31, ?_, by omega, by omega, by simp⟩
    repeat (refine Eq.trans (monthLoop_cons_ge (by omega)) ?_)
    refine Eq.trans (monthLoop_cons_lt (by omega)) ?_
    first | rfl | (congr 1 <;> omega)
  · refine ⟨11, 337, 29, ?_, by omega, by omega, by simp⟩
    repeat (refine Eq.trans (monthLoop_cons_ge (by omega)) ?_)
    refine Eq.trans (monthLoop_cons_lt (by omega)) ?_
    first | rfl | (congr 1 <;> omega)
/-! ### model side: `civilOf` against the spec -/

theorem isLeap_int (Y : Nat) : isLeap Y = true ↔ (((Y:Int) % 4 = 0 ∧ (Y:Int) % 100 ≠ 0) ∨ (Y:Int) % 400 = 0) := by
  rw [isLeap_iff]; omega

theorem monthLen_tab (b : Bool) :
    monthLen b 1 = 31 ∧ monthLen b 2 = (if b = true then 29 else 28) ∧ monthLen b 3 = 31 ∧ monthLen b 4 = 30 ∧ monthLen b 5 = 31 ∧ monthLen b 6 = 30 ∧ monthLen b 7 = 31 ∧ monthLen b 8 = 31 ∧ monthLen b 9 = 30 ∧ monthLen b 10 = 31 ∧ monthLen b 11 = 30 ∧ monthLen b 12 = 31 := by
  cases b <;> decide

theorem dbm_tab (b : Bool) :
    daysBeforeMonthL b 1 = 0 ∧ daysBeforeMonthL b 2 = 31 ∧ daysBeforeMonthL b 3 = 59 + (if b = true then 1 else 0) ∧ daysBeforeMonthL b 4 = 90 + (if b = true then 1 else 0) ∧ daysBeforeMonthL b 5 = 120 + (if b = true then 1 else 0) ∧ daysBeforeMonthL b 6 = 151 + (if b = true then 1 else 0) ∧ daysBeforeMonthL b 7 = 181 + (if b = true then 1 else 0) ∧ daysBeforeMonthL b 8 = 212 + (if b = true then 1 else 0) ∧ daysBeforeMonthL b 9 = 243 + (if b = true then 1 else 0) ∧ daysBeforeMonthL b 10 = 273 + (if b = true then 1 else 0) ∧ daysBeforeMonthL b 11 = 304 + (if b = true then 1 else 0) ∧ daysBeforeMonthL b 12 = 334 + (if b = true then 1 else 0) := by
  cases b <;> decide

/-- days from 0000-01-01 to `Y`-03-01, against the 365/4/100/400 count from 2000-03-01 -/
theorem marchBase (Y : Nat) (yr : Int) (hY : (Y : Int) = 2000 + yr) :
    (daysFromY0 Y : Int) + 59 + ((if isLeap Y = true then 1 else 0 : Nat) : Int)
      = 730545 + (365 * yr + yr / 4 - yr / 100 + yr / 400) := by
  rw [daysFromY0_closed]
  by_cases hl : isLeap Y = true
  · rw [if_pos hl]; rw [isLeap_int] at hl; omega
  · rw [if_neg hl]; rw [isLeap_int] at hl; omega

set_option linter.unusedSimpArgs false in
/-- `civilOf t` is the valid date whose day number is `t + 11017` (for every `t` from 0000-03-01 on). -/
theorem civilOf_spec (t : Int) (ht : -730485 ≤ t) :
    ∃ y m d : Nat, civilOf t = ((y : Int), m, (d : Int)) ∧ validDate y m d ∧ civilToDays y m d = t + 11017 := by
  obtain ⟨yr, r, hs, e, r0, r1, hleap⟩ := yearSplit_spec t
  have hyr : -2000 ≤ yr := by omega
  obtain ⟨k, off, len, hml, o1, o2, hk⟩ := monthLoop_cases r r0 r1
  unfold civilOf
  rw [hs]
  simp only []
  rw [hml]
  simp only []
  simp only [Prod.mk.injEq] at hk
  have hb := fun b => monthLen_tab b
  have hd := fun b => dbm_tab b
  obtain ⟨Y, hY⟩ : ∃ Y : Nat, (Y : Int) = 2000 + yr := ⟨(2000 + yr).toNat, by omega⟩
  have hbase := marchBase Y yr hY
  have hnext : daysFromY0 (Y + 1) = daysFromY0 Y + 365 + (if isLeap Y = true then 1 else 0) := by
    simp only [daysFromY0, daysInYear]; split <;> omega
  have hfeb : r = 365 → isLeap (Y + 1) = true := by
    intro h; rw [isLeap_int]; have := hleap h; omega
  obtain ⟨L, hL, hL01⟩ : ∃ L : Nat, (if isLeap Y = true then 1 else 0) = L ∧ L ≤ 1 := by
    refine ⟨_, rfl, ?_⟩; split <;> omega
  rw [hL] at hbase hnext
  rw [← hY]
  rcases hk with ⟨rfl, rfl, rfl⟩ | hk
  · refine ⟨Y, 3, (r - 0 + 1).toNat, ?_, ?_, ?_⟩
    · simp only [Nat.zero_add, gt_iff_lt, Nat.reduceLT, Nat.reduceAdd, Nat.reduceSub, ↓reduceIte, Prod.mk.injEq, true_and]
      omega
    · simp only [validDate, daysInMonth, hb]
      omega
    · simp only [civilToDays, daysBeforeYear, daysBeforeMonth, hd, daysFromY0_1970, hL]
      omega
  rcases hk with ⟨rfl, rfl, rfl⟩ | hk
  · refine ⟨Y, 4, (r - 31 + 1).toNat, ?_, ?_, ?_⟩
    · simp only [Nat.zero_add, gt_iff_lt, Nat.reduceLT, Nat.reduceAdd, Nat.reduceSub, ↓reduceIte, Prod.mk.injEq, true_and]
      omega
    · simp only [validDate, daysInMonth, hb]
      omega
    · simp only [civilToDays, daysBeforeYear, daysBeforeMonth, hd, daysFromY0_1970, hL]
      omega
  rcases hk with ⟨rfl, rfl, rfl⟩ | hk
  · refine ⟨Y, 5, (r - 61 + 1).toNat, ?_, ?_, ?_⟩
    · simp only [Nat.zero_add, gt_iff_lt, Nat.reduceLT, Nat.reduceAdd, Nat.reduceSub, ↓reduceIte, Prod.mk.injEq, true_and]
      omega
    · simp only [validDate, daysInMonth, hb]
      omega
    · simp only [civilToDays, daysBeforeYear, daysBeforeMonth, hd, daysFromY0_1970, hL]
      omega
  rcases hk with ⟨rfl, rfl, rfl⟩ | hk
  · refine ⟨Y, 6, (r - 92 + 1).toNat, ?_, ?_, ?_⟩
    · simp only [Nat.zero_add, gt_iff_lt, Nat.reduceLT, Nat.reduceAdd, Nat.reduceSub, ↓reduceIte, Prod.mk.injEq, true_and]
      omega
    · simp only [validDate, daysInMonth, hb]
      omega
    · simp only [civilToDays, daysBeforeYear, daysBeforeMonth, hd, daysFromY0_1970, hL]
      omega
  rcases hk with ⟨rfl, rfl, rfl⟩ | hk
  · refine ⟨Y, 7, (r - 122 + 1).toNat, ?_, ?_, ?_⟩
    · simp only [Nat.zero_add, gt_iff_lt, Nat.reduceLT, Nat.reduceAdd, Nat.reduceSub, ↓reduceIte, Prod.mk.injEq, true_and]
      omega
    · simp only [validDate, daysInMonth, hb]
      omega
    · simp only [civilToDays, daysBeforeYear, daysBeforeMonth, hd, daysFromY0_1970, hL]
      omega
  rcases hk with ⟨rfl, rfl, rfl⟩ | hk
  · refine ⟨Y, 8, (r - 153 + 1).toNat, ?_, ?_, ?_⟩
    · simp only [Nat.zero_add, gt_iff_lt, Nat.reduceLT, Nat.reduceAdd, Nat.reduceSub, ↓reduceIte, Prod.mk.injEq, true_and]
      omega
    · simp only [validDate, daysInMonth, hb]
      omega
    · simp only [civilToDays, daysBeforeYear, daysBeforeMonth, hd, daysFromY0_1970, hL]
      omega
  rcases hk with ⟨rfl, rfl, rfl⟩ | hk
  · refine ⟨Y, 9, (r - 184 + 1).toNat, ?_, ?_, ?_⟩
    · simp only [Nat.zero_add, gt_iff_lt, Nat.reduceLT, Nat.reduceAdd, Nat.reduceSub, ↓reduceIte, Prod.mk.injEq, true_and]
      omega
    · simp only [validDate, daysInMonth, hb]
      omega
    · simp only [civilToDays, daysBeforeYear, daysBeforeMonth, hd, daysFromY0_1970, hL]
      omega
  rcases hk with ⟨rfl, rfl, rfl⟩ | hk
  · refine ⟨Y, 10, (r - 214 + 1).toNat, ?_, ?_, ?_⟩
    · simp only [Nat.zero_add, gt_iff_lt, Nat.reduceLT, Nat.reduceAdd, Nat.reduceSub, ↓reduceIte, Prod.mk.injEq, true_and]
      omega
    · simp only [validDate, daysInMonth, hb]
      omega
    · simp only [civilToDays, daysBeforeYear, daysBeforeMonth, hd, daysFromY0_1970, hL]
      omega
  rcases hk with ⟨rfl, rfl, rfl⟩ | hk
  · refine ⟨Y, 11, (r - 245 + 1).toNat, ?_, ?_, ?_⟩
    · simp only [Nat.zero_add, gt_iff_lt, Nat.reduceLT, Nat.reduceAdd, Nat.reduceSub, ↓reduceIte, Prod.mk.injEq, true_and]
      omega
    · simp only [validDate, daysInMonth, hb]
      omega
    · simp only [civilToDays, daysBeforeYear, daysBeforeMonth, hd, daysFromY0_1970, hL]
      omega
  rcases hk with ⟨rfl, rfl, rfl⟩ | hk
  · refine ⟨Y, 12, (r - 275 + 1).toNat, ?_, ?_, ?_⟩
    · simp only [Nat.zero_add, gt_iff_lt, Nat.reduceLT, Nat.reduceAdd, Nat.reduceSub, ↓reduceIte, Prod.mk.injEq, true_and]
      omega
    · simp only [validDate, daysInMonth, hb]
      omega
    · simp only [civilToDays, daysBeforeYear, daysBeforeMonth, hd, daysFromY0_1970, hL]
      omega
  rcases hk with ⟨rfl, rfl, rfl⟩ | hk
  · refine ⟨Y + 1, 1, (r - 306 + 1).toNat, ?_, ?_, ?_⟩
    · simp only [Nat.zero_add, gt_iff_lt, Nat.reduceLT, Nat.reduceAdd, Nat.reduceSub, ↓reduceIte, Prod.mk.injEq, true_and]
      omega
    · simp only [validDate, daysInMonth, hb]
      omega
    · simp only [civilToDays, daysBeforeYear, daysBeforeMonth, hd, daysFromY0_1970, hL]
      omega
  obtain ⟨rfl, rfl, rfl⟩ := hk
  · refine ⟨Y + 1, 2, (r - 337 + 1).toNat, ?_, ?_, ?_⟩
    · simp only [Nat.zero_add, gt_iff_lt, Nat.reduceLT, Nat.reduceAdd, Nat.reduceSub, ↓reduceIte, Prod.mk.injEq, true_and]
      omega
    · simp only [validDate, daysInMonth, hb]
      by_cases hl : isLeap (Y + 1) = true
      · simp only [hl, if_true]; omega
      · have hne : r ≠ 365 := fun h => hl (hfeb h)
        simp only [hl, Bool.false_eq_true, ↓reduceIte]; omega
    · simp only [civilToDays, daysBeforeYear, daysBeforeMonth, hd, daysFromY0_1970, hL]
      omega
/-! ### spec side: the day number determines the date -/

theorem month_step : ∀ b : Bool, ∀ m1 < 13, ∀ m2 < 13, m1 < m2 →
    daysBeforeMonthL b m1 + monthLen b m1 ≤ daysBeforeMonthL b m2 := by decide

theorem year_total : ∀ b : Bool, daysBeforeMonthL b 12 + monthLen b 12 = if b = true then 366 else 365 := by decide

/-- day of year < length of year -/
theorem doy_lt {y m d : Nat} (h : validDate y m d) : daysBeforeMonth y m + d ≤ daysInYear y := by
  obtain ⟨h1, h2, h3, h4⟩ := h
  simp only [daysInMonth] at h4
  simp only [daysBeforeMonth, daysInYear]
  have hy := year_total (isLeap y)
  by_cases hm : m = 12
  · subst hm; omega
  · have := month_step (isLeap y) m (by omega) 12 (by omega) (by omega)
    omega

theorem civilToDays_lt_of_year_lt {y1 m1 d1 y2 m2 d2 : Nat} (h1 : validDate y1 m1 d1) (h2 : validDate y2 m2 d2)
    (hy : y1 < y2) : civilToDays y1 m1 d1 < civilToDays y2 m2 d2 := by
  have a := doy_lt h1
  have b : daysFromY0 (y1 + 1) ≤ daysFromY0 y2 := daysFromY0_mono hy
  simp only [daysFromY0] at b
  obtain ⟨_, _, hd2, _⟩ := h2
  simp only [civilToDays, daysBeforeYear]
  omega

theorem civilToDays_injective {y1 m1 d1 y2 m2 d2 : Nat} (h1 : validDate y1 m1 d1) (h2 : validDate y2 m2 d2)
    (h : civilToDays y1 m1 d1 = civilToDays y2 m2 d2) : y1 = y2 ∧ m1 = m2 ∧ d1 = d2 := by
  have hy : y1 = y2 := by
    rcases Nat.lt_trichotomy y1 y2 with hlt | heq | hgt
    · have := civilToDays_lt_of_year_lt h1 h2 hlt; omega
    · exact heq
    · have := civilToDays_lt_of_year_lt h2 h1 hgt; omega
  subst hy
  obtain ⟨a1, a2, a3, a4⟩ := h1
  obtain ⟨b1, b2, b3, b4⟩ := h2
  simp only [daysInMonth] at a4 b4
  simp only [civilToDays, daysBeforeMonth] at h
  have hm : m1 = m2 := by
    rcases Nat.lt_trichotomy m1 m2 with hlt | heq | hgt
    · have := month_step (isLeap y1) m1 (by omega) m2 (by omega) hlt; omega
    · exact heq
    · have := month_step (isLeap y1) m2 (by omega) m1 (by omega) hgt; omega
  subst hm
  exact ⟨rfl, rfl, by omega⟩

/-! ### model side: writing into the buffer -/

theorem copyInto_ok {buf src : Bytes} {a b : Nat} (site : String) (h1 : a ≤ b) (h2 : b ≤ buf.length)
    (h3 : src.length = b - a) : copyInto buf a b src site = .ok (buf.take a ++ src ++ buf.drop b) := by
  simp only [copyInto, if_pos (And.intro h1 h2), if_pos h3]

theorem write2d_ok {buf : Bytes} {a v : Nat} (hv : v < 256) (ha : a + 2 ≤ buf.length) :
    write2d buf a v =
      .ok (buf.take a ++ [UInt8.ofNat (48 + v / 10), UInt8.ofNat (48 + v % 10)] ++ buf.drop (a + 2)) := by
  unfold write2d
  have hs : slice buf a (a + 2) "write_2d: buf[a..a+2]" = .ok ((buf.drop a).take 2) := by
    simp only [slice]; rw [if_pos ⟨by omega, ha⟩]; congr 2; omega
  have hl : ((buf.drop a).take 2).length = 2 := by simp only [List.length_take, List.length_drop]; omega
  generalize (buf.drop a).take 2 = sub at *
  match sub, hl with
  | [x, y], _ =>
    rw [hs]
    simp only [Res.bind_ok, addU8]
    rw [if_pos (by omega), if_pos (by omega)]
    simp only [Res.bind_ok, setIdx, List.length_cons, List.length_nil, List.set_cons_zero, List.set_cons_succ,
      Nat.zero_add, Nat.reduceAdd, Nat.reduceLT, ↓reduceIte]
    rw [copyInto_ok _ (by omega) ha (by simp)]

theorem write4d_ok {buf : Bytes} {a v : Nat} (hv : v < 65536) (ha : a + 4 ≤ buf.length) :
    write4d buf a v =
      .ok (buf.take a ++ [UInt8.ofNat (48 + v / 1000 % 256), UInt8.ofNat (48 + v / 100 % 10 % 256),
            UInt8.ofNat (48 + v / 10 % 10 % 256), UInt8.ofNat (48 + v % 10 % 256)] ++ buf.drop (a + 4)) := by
  unfold write4d
  have hs : slice buf a (a + 4) "write_4d: buf[a..a+4]" = .ok ((buf.drop a).take 4) := by
    simp only [slice]; rw [if_pos ⟨by omega, ha⟩]; congr 2; omega
  have hl : ((buf.drop a).take 4).length = 4 := by simp only [List.length_take, List.length_drop]; omega
  generalize (buf.drop a).take 4 = sub at *
  match sub, hl with
  | [x, y, z, w], _ =>
    rw [hs]
    simp only [Res.bind_ok, addU8]
    rw [if_pos (by omega), if_pos (by omega), if_pos (by omega), if_pos (by omega)]
    simp only [Res.bind_ok, setIdx, List.length_cons, List.length_nil, List.set_cons_zero, List.set_cons_succ,
      Nat.zero_add, Nat.reduceAdd, Nat.reduceLT, ↓reduceIte]
    rw [copyInto_ok _ (by omega) ha (by simp)]

theorem asU8_lt (x : Int) : asU8 x < 256 := by unfold asU8; omega
theorem asU16_lt (x : Int) : asU16 x < 65536 := by unfold asU16; omega

theorem wday_slice (w : Int) (h1 : 1 ≤ w) (h2 : w ≤ 7) :
    slice Gen.wdayStrs ((w.toNat - 1) * 3) ((w.toNat - 1) * 3 + 3) "WDAY_STRS[woff..woff+3]"
      = .ok (wdayName (w % 7).toNat) := by
  have : w = 1 ∨ w = 2 ∨ w = 3 ∨ w = 4 ∨ w = 5 ∨ w = 6 ∨ w = 7 := by omega
  rcases this with rfl | rfl | rfl | rfl | rfl | rfl | rfl <;> rfl

theorem mon_slice (m : Nat) (h1 : 1 ≤ m) (h2 : m ≤ 12) :
    slice Gen.monStrs ((m - 1) * 3) ((m - 1) * 3 + 3) "MON_STRS[moff..moff+3]" = .ok (monName m) := by
  have : m = 1 ∨ m = 2 ∨ m = 3 ∨ m = 4 ∨ m = 5 ∨ m = 6 ∨ m = 7 ∨ m = 8 ∨ m = 9 ∨ m = 10 ∨ m = 11 ∨ m = 12 := by
    omega
  rcases this with rfl | rfl | rfl | rfl | rfl | rfl | rfl | rfl | rfl | rfl | rfl | rfl <;> rfl

theorem wdayName_len3 (k : Nat) (h : k < 7) : ∃ a b c, wdayName k = [a, b, c] := by
  have : k = 0 ∨ k = 1 ∨ k = 2 ∨ k = 3 ∨ k = 4 ∨ k = 5 ∨ k = 6 := by omega
  rcases this with rfl | rfl | rfl | rfl | rfl | rfl | rfl <;> exact ⟨_, _, _, rfl⟩

theorem monName_len3 (m : Nat) (h1 : 1 ≤ m) (h2 : m ≤ 12) : ∃ a b c, monName m = [a, b, c] := by
  have : m = 1 ∨ m = 2 ∨ m = 3 ∨ m = 4 ∨ m = 5 ∨ m = 6 ∨ m = 7 ∨ m = 8 ∨ m = 9 ∨ m = 10 ∨ m = 11 ∨ m = 12 := by
    omega
  rcases this with rfl | rfl | rfl | rfl | rfl | rfl | rfl | rfl | rfl | rfl | rfl | rfl <;> exact ⟨_, _, _, rfl⟩

/-- the two bytes `write_2d` produces for `v : u8` -/
def d2 (v : Nat) : Bytes := [UInt8.ofNat (48 + v / 10), UInt8.ofNat (48 + v % 10)]
/-- the four bytes `write_4d` produces for `v : u16` -/
def d4 (v : Nat) : Bytes :=
  [UInt8.ofNat (48 + v / 1000 % 256), UInt8.ofNat (48 + v / 100 % 10 % 256),
   UInt8.ofNat (48 + v / 10 % 10 % 256), UInt8.ofNat (48 + v % 10 % 256)]

theorem asU8_small (m : Nat) (h : m < 256) : asU8 (m : Int) = m := by unfold asU8; omega

/-- `render` on the template never panics when `1 ≤ wday ≤ 7`, `1 ≤ mon ≤ 12`, and this is what it writes. -/
theorem render_eval (f : Fields) (hw1 : 1 ≤ f.wday) (hw2 : f.wday ≤ 7) (hm1 : 1 ≤ f.mon) (hm2 : f.mon ≤ 12) :
    render Gen.headerTemplate f = .ok (
      [100, 97, 116, 101, 58, 32] ++ wdayName (f.wday % 7).toNat ++ [44, 32] ++ d2 (asU8 f.mday) ++ [32]
        ++ monName f.mon ++ [32] ++ d4 (asU16 f.year) ++ [32] ++ d2 (asU8 f.hour) ++ [58] ++ d2 (asU8 f.min)
        ++ [58] ++ d2 (asU8 f.sec) ++ [32, 71, 77, 84, 13, 10]) := by
  unfold render
  have e1 : subOne f.wday.toNat "woff: wday - 1" = .ok (f.wday.toNat - 1) := by
    simp only [subOne]; rw [if_pos (by omega)]
  have e2 : subOne (asU8 (f.mon : Int)) "moff: mon - 1" = .ok (f.mon - 1) := by
    rw [asU8_small _ (by omega)]; simp only [subOne]; rw [if_pos hm1]
  obtain ⟨a, b, c, hwn⟩ := wdayName_len3 (f.wday % 7).toNat (by omega)
  obtain ⟨a', b', c', hmn⟩ := monName_len3 f.mon hm1 hm2
  rw [e1]; simp only [Res.bind_ok]
  rw [wday_slice _ hw1 hw2]; simp only [Res.bind_ok]
  rw [hwn, hmn]
  rw [copyInto_ok _ (by decide) (by decide) (by rfl)]; simp only [Res.bind_ok]
  simp only [Gen.headerTemplate, List.take_succ_cons, List.take_zero, List.drop_succ_cons, List.drop_zero,
    List.cons_append, List.nil_append]
  rw [write2d_ok (asU8_lt _) (by simp)]; simp only [Res.bind_ok]
  simp only [List.take_succ_cons, List.take_zero, List.drop_succ_cons, List.drop_zero,
    List.cons_append, List.nil_append]
  rw [e2]; simp only [Res.bind_ok]
  rw [mon_slice _ hm1 hm2]; simp only [Res.bind_ok]
  rw [hmn]
  rw [copyInto_ok _ (by decide) (by simp) (by rfl)]; simp only [Res.bind_ok]
  simp only [List.take_succ_cons, List.take_zero, List.drop_succ_cons, List.drop_zero,
    List.cons_append, List.nil_append]
  rw [write4d_ok (asU16_lt _) (by simp)]; simp only [Res.bind_ok]
  simp only [List.take_succ_cons, List.take_zero, List.drop_succ_cons, List.drop_zero,
    List.cons_append, List.nil_append]
  rw [write2d_ok (asU8_lt _) (by simp)]; simp only [Res.bind_ok]
  simp only [List.take_succ_cons, List.take_zero, List.drop_succ_cons, List.drop_zero,
    List.cons_append, List.nil_append]
  rw [write2d_ok (asU8_lt _) (by simp)]; simp only [Res.bind_ok]
  simp only [List.take_succ_cons, List.take_zero, List.drop_succ_cons, List.drop_zero,
    List.cons_append, List.nil_append]
  rw [write2d_ok (asU8_lt _) (by simp)]
  simp only [List.take_succ_cons, List.take_zero, List.drop_succ_cons, List.drop_zero,
    List.cons_append, List.nil_append, d2, d4]

set_option linter.unusedSimpArgs false in
/-- for **every** `t` the month handed to the `MON_STRS` slice is in `1..=12` -/
theorem civilOf_mon (t : Int) : 1 ≤ (civilOf t).2.1 ∧ (civilOf t).2.1 ≤ 12 := by
  obtain ⟨yr, r, hs, e, r0, r1, hleap⟩ := yearSplit_spec t
  obtain ⟨k, off, len, hml, o1, o2, hk⟩ := monthLoop_cases r r0 r1
  unfold civilOf
  rw [hs]
  simp only []
  rw [hml]
  simp only [Prod.mk.injEq] at hk
  rcases hk with h | h | h | h | h | h | h | h | h | h | h | h <;> obtain ⟨rfl, -, -⟩ := h <;>
    simp only [Nat.zero_add, gt_iff_lt, Nat.reduceLT, Nat.reduceAdd, Nat.reduceSub, ↓reduceIte, Nat.reduceLeDiff,
      and_self, Nat.le_refl]

theorem wdayOf_range (t : Int) : 1 ≤ wdayOf t ∧ wdayOf t ≤ 7 ∧ wdayOf t % 7 = (3 + t) % 7 := by
  unfold wdayOf
  simp only []
  split <;> omega

theorem dateFields_eq (secs : Int) :
    dateFields secs =
      { year := (civilOf (secs / 86400 - 11017)).1, mon := (civilOf (secs / 86400 - 11017)).2.1,
        mday := (civilOf (secs / 86400 - 11017)).2.2, wday := wdayOf (secs / 86400 - 11017),
        hour := secs % 86400 / 3600, min := secs % 86400 % 3600 / 60, sec := secs % 86400 % 3600 % 60 } := rfl

theorem ascii_lits :
    ascii ['d','a','t','e',':',' '] = [100, 97, 116, 101, 58, 32] ∧ ascii [',',' '] = [44, 32] ∧
    ascii [' '] = [32] ∧ ascii [':'] = [58] ∧ ascii [' ','G','M','T','\r','\n'] = [32, 71, 77, 84, 13, 10] := by
  decide

theorem dec2_eq (v : Nat) (h : v < 100) : dec 2 v = d2 v := by
  simp only [dec, digit, d2, List.nil_append, List.cons_append]
  have : v / 10 % 10 = v / 10 := by omega
  rw [this]

theorem dec4_eq (v : Nat) (h : v < 10000) : dec 4 v = d4 v := by
  simp only [dec, digit, d4, List.nil_append, List.cons_append]
  have m1 : ∀ x : Nat, x % 10 % 256 = x % 10 := by intro x; omega
  have a : v / 10 / 10 / 10 % 10 = v / 1000 % 256 := by omega
  have b : v / 10 / 10 % 10 = v / 100 % 10 := by omega
  simp only [m1]
  rw [a, b]

end Khttp.Lemmas.Date
