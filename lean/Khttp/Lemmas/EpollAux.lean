/- Consequences of `EpollInv` used by `Props/C14.lean` and `Props/C15.lean`: counting of jobs / workers per
   connection, shape of the loop thread, helper facts for the concrete witness traces. -/
import Khttp.Lemmas.EpollStepLoop
namespace Khttp.Epoll
open Khttp.Pool (upd upd_same upd_other)

/-! ### counting workers -/

theorem workersOnBelow_zero (f : Nat → Option Nat) (c n : Nat) (h : ∀ w, w < n → f w ≠ some c) :
    workersOnBelow f c n = 0 := by
  induction n with
  | zero => rfl
  | succ n ih =>
    simp only [workersOnBelow]
    rw [ih (fun w hw => h w (by omega)), if_neg (h n (by omega))]

theorem workersOnBelow_one (f : Nat → Option Nat) (c n w0 : Nat) (h0 : w0 < n) (hf : f w0 = some c)
    (hu : ∀ w, w < n → f w = some c → w = w0) : workersOnBelow f c n = 1 := by
  induction n with
  | zero => omega
  | succ n ih =>
    simp only [workersOnBelow]
    by_cases hn : w0 = n
    · subst hn
      rw [workersOnBelow_zero f c w0 (fun w hw e => by have := hu w (by omega) e; omega), if_pos hf]
    · have hne : f n ≠ some c := fun e => hn (hu n (by omega) e).symm
      rw [ih (by omega) (fun w hw e => hu w (by omega) e), if_neg hne]

/-- the number of workers inside `EpollJob::run` for `c` is 1 in the worker phases and 0 otherwise -/
theorem EpollInv.workersOn_eq {s : State} (I : EpollInv s) (c : Nat) :
    s.workersOn c = if (s.conn c).phase.isWorking = true then 1 else 0 := by
  unfold State.workersOn
  by_cases hw : (s.conn c).phase.isWorking = true
  · rw [if_pos hw]
    have h1 := (I.conn c).working hw
    have h2 := I.workerP _ _ h1
    exact workersOnBelow_one _ _ _ _ h2.1 h1 (fun w _ e => ((I.workerP w c e).2.1).symm)
  · rw [if_neg hw]
    exact workersOnBelow_zero _ _ _ (fun w _ e => hw (I.workerP w c e).2.2)

/-- the number of queued jobs for `c` is 1 in phase `jobQueued` and 0 otherwise -/
theorem EpollInv.jobsFor_eq {s : State} (I : EpollInv s) (c : Nat) :
    s.jobsFor c = if (s.conn c).phase = .jobQueued then 1 else 0 := by
  unfold State.jobsFor
  rw [I.jobsNodup.count]
  by_cases h : c ∈ s.jobs
  · rw [if_pos h, if_pos ((I.conn c).jobq.mpr h)]
  · rw [if_neg h, if_neg (fun e => h ((I.conn c).jobq.mp e))]

/-! ### position of a job in the channel (variant for "the job reaches a worker") -/

/-- number of jobs ahead of the job of `c` (length of the channel if there is none) -/
def ahead (c : Nat) : List Nat → Nat
  | [] => 0
  | j :: js => if j = c then 0 else ahead c js + 1

theorem ahead_append_of_mem {c : Nat} {l : List Nat} (m : List Nat) (h : c ∈ l) : ahead c (l ++ m) = ahead c l := by
  induction l with
  | nil => cases h
  | cons j js ih =>
    simp only [List.cons_append, ahead]
    by_cases hj : j = c
    · simp [hj]
    · have : c ∈ js := by
        cases h with
        | head => exact absurd rfl hj
        | tail _ h => exact h
      simp [hj, ih this]

/-! ### the loop thread always has a step while it is inside a batch -/

/-- in every state in which the loop thread is neither sleeping in `epoll_wait` nor gone, one of its steps is
    enabled (the loop never blocks inside a batch) -/
theorem loop_step_enabled (s : State) (h1 : s.mode ≠ .waiting) (h2 : s.mode ≠ .stopped) :
    ∃ e, e.isLoop = true ∧ (∀ evs, e ≠ .batchStart evs) ∧ enabled s e := by
  cases hm : s.mode with
  | waiting => exact absurd hm h1
  | stopped => exact absurd hm h2
  | batch =>
    cases hr : s.rest with
    | nil => exact ⟨.batchEnd, rfl, by simp, hm, hr⟩
    | cons t r =>
      cases t with
      | conn c => exact ⟨.loadClosed c (s.conn c).closedFlag, rfl, by simp, hm, by simp [hr], rfl⟩
      | wake => exact ⟨.drainWake, rfl, by simp, hm, by simp [hr]⟩
      | listener => exact ⟨.acceptDone, rfl, by simp, hm, by simp [hr]⟩
  | loaded c => exact ⟨.cas c (!(s.conn c).inFlight), rfl, by simp, hm, rfl⟩
  | won c => exact ⟨.execute c, rfl, by simp, hm⟩
  | acc1 c => exact ⟨.boxHandle c, rfl, by simp, hm⟩
  | acc2 c => exact ⟨.addOk c, rfl, by simp, hm⟩
  | accF1 c => exact ⟨.failFreeHandle c, rfl, by simp, hm⟩
  | accF2 c => exact ⟨.failTeardown c, rfl, by simp, hm⟩

/-- weight of the loop's control state: how many loop steps (other than accepting a further connection) are
    needed at most to finish the current batch -/
def loopMeasure (s : State) : Nat :=
  match s.mode with
  | .waiting | .stopped => 0
  | .batch => 4 * s.rest.length + 1
  | .loaded _ => 4 * s.rest.length
  | .won _ => 4 * s.rest.length - 1
  -- the listener event is still the head of `rest`
  | .acc1 _ => 4 * s.rest.length + 6
  | .acc2 _ => 4 * s.rest.length + 5
  | .accF1 _ => 4 * s.rest.length + 4
  | .accF2 _ => 4 * s.rest.length + 3

/-- shape of the loop thread's state: the event being processed stays at the head of `rest` -/
structure LoopInv (s : State) : Prop where
  connHead : ∀ c, s.mode = .loaded c ∨ s.mode = .won c → s.rest.head? = some (.conn c)
  lstHead : ∀ c, s.mode = .acc1 c ∨ s.mode = .acc2 c ∨ s.mode = .accF1 c ∨ s.mode = .accF2 c →
    s.rest.head? = some .listener
  idleNil : s.mode = .waiting ∨ s.mode = .stopped → s.rest = []

theorem LoopInv.step {s t : State} {e : Event} (L : LoopInv s) (h : StepE s e t) : LoopInv t := by
  obtain ⟨en, rfl⟩ := h
  obtain ⟨l1, l2, l3⟩ := L
  cases e <;> simp only [enabled] at en <;> try (constructor <;> simp only [apply] <;> grind)
  all_goals
    rename_i c b
    cases b <;> constructor <;> simp only [apply] <;> grind

theorem LoopInv.of_reachable {s : State} (h : Reachable s) : LoopInv s := by
  induction h with
  | init n hn => constructor <;> simp [init]
  | step _ st ih => obtain ⟨e, he⟩ := st; exact ih.step he

theorem eq_some_getD {α : Type} {o : Option α} (d : α) (h : o.isSome = true) : o = some (o.getD d) := by
  cases o with
  | none => cases h
  | some a => rfl

end Khttp.Epoll
