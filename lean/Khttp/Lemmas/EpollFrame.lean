/- Frame lemma for the per-connection invariant, small list facts, and the tactics shared by the preservation proofs. -/
import Khttp.Lemmas.EpollInv
namespace Khttp.Epoll
open Khttp.Pool (upd upd_same upd_other)

/-- the connection a loop micro-state is about -/
def Mode.conn? : Mode → Option Nat
  | .loaded c | .won c | .acc1 c | .acc2 c | .accF1 c | .accF2 c => some c
  | _ => none

theorem take_one_append_tail {α : Type} (l : List α) : l.take 1 ++ l.tail = l := by cases l <;> simp

theorem head?_cons_tail {α : Type} {l : List α} {a : α} (h : l.head? = some a) : l = a :: l.tail := by
  cases l with
  | nil => simp at h
  | cons b t => simp at h; simp [h]

theorem mem_of_head? {α : Type} {l : List α} {a : α} (h : l.head? = some a) : a ∈ l := by
  rw [head?_cons_tail h]; simp

theorem nodup_tail {α : Type} {l : List α} (h : l.Nodup) : l.tail.Nodup := by
  cases l with
  | nil => simp
  | cons b t => simp at h ⊢; exact h.2

/-- If a step leaves connection `k` alone — its record, and what the shared state says about it — then the
    per-connection invariant of `k` is preserved.
    `hrest`: a NEW batch may only contain registered connections.
    `hm1`/`hm2`: the loop's micro-state is unchanged, or does not concern `k` before (`hm2`) / after (`hm1`). -/
theorem ConnInv.frame {s t : State} {k : Nat} (J : ConnInv s k)
    (hc : t.conn k = s.conn k)
    (hn : t.next ≤ k → s.next ≤ k)
    (hj : k ∈ t.jobs ↔ k ∈ s.jobs)
    (hw : s.worker (s.conn k).owner = some k → t.worker (s.conn k).owner = some k)
    (hr : k ∈ t.reaper ↔ k ∈ s.reaper)
    (hrest : Token.conn k ∈ t.rest → Token.conn k ∈ s.rest ∨ (s.conn k).registered = true)
    (hm1 : t.mode = s.mode ∨ t.mode.conn? ≠ some k)
    (hm2 : t.mode = s.mode ∨ s.mode.conn? ≠ some k ∨ s.mode = .loaded k) : ConnInv t k := by
  have m1 : ∀ f : Nat → Mode, (∀ c, (f c).conn? = some c) → f k ≠ .loaded k → (t.mode = f k ↔ s.mode = f k) := by
    intro f hf hl
    constructor
    · intro h
      rcases hm1 with hm | h1
      · rw [← hm]; exact h
      · rw [h, hf] at h1; exact absurd rfl h1
    · intro h
      rcases hm2 with hm | h2 | h2
      · rw [hm]; exact h
      · rw [h, hf] at h2; exact absurd rfl h2
      · rw [h] at h2; exact absurd h2 hl
  have ml : t.mode = .loaded k → s.mode = .loaded k := by
    intro h
    rcases hm1 with hm | h1
    · rw [← hm]; exact h
    · rw [h] at h1; exact absurd rfl h1
  have mw := m1 .won (fun _ => rfl) (by simp)
  have m1' := m1 .acc1 (fun _ => rfl) (by simp)
  have m2 := m1 .acc2 (fun _ => rfl) (by simp)
  have m3 := m1 .accF1 (fun _ => rfl) (by simp)
  have m4 := m1 .accF2 (fun _ => rfl) (by simp)
  obtain ⟨j1, j2, j3, j4, j5, j6, j7, j8, j9, j10, j11, j12, j13, j14, j15, j16, j17, j18, j19, j20, j21, j22,
    j23, j24, j25, j26⟩ := J
  constructor <;> simp only [hc, mw, m1', m2, m3, m4, hr, hj] <;> grind

/-- splits the per-connection invariant of the touched connection into named hypotheses `j1 … j26` -/
macro "destruct_conn " J:ident : tactic =>
  `(tactic| obtain ⟨j1, j2, j3, j4, j5, j6, j7, j8, j9, j10, j11, j12, j13, j14, j15, j16, j17, j18, j19, j20,
      j21, j22, j23, j24, j25, j26⟩ := $J)

end Khttp.Epoll
