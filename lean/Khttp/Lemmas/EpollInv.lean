/- Inductive invariant of the epoll transition system (`Khttp/Model/Epoll.lean`): definition and initial state.
   Preservation is proved in `Khttp/Lemmas/EpollStep*.lean`. -/
import Khttp.Model.Epoll
namespace Khttp.Epoll
open Khttp.Pool (upd upd_same upd_other)

/-- The part of the invariant that talks about one connection `c` (writing `K` for `s.conn c`). -/
structure ConnInv (s : State) (c : Nat) : Prop where
  /-- ids not handed out yet are untouched -/
  fresh : s.next ≤ c → s.conn c = {}
  /-- requests are consumed and answered oldest first -/
  order : (s.conn c).answered ++ (s.conn c).pending = (s.conn c).sent
  /-- a registered connection is fully alive and not past `EPOLL_CTL_DEL` -/
  reg : (s.conn c).registered = true →
    (s.conn c).handleLive = true ∧ (s.conn c).streamLive = true ∧ (s.conn c).closedFlag = false ∧
    (s.conn c).ended = false ∧ (s.conn c).addFailed = false ∧ (s.conn c).phase.isOpen = true
  /-- the channel holds exactly the connections in phase `jobQueued` -/
  jobq : (s.conn c).phase = .jobQueued ↔ c ∈ s.jobs
  /-- a connection in a worker phase is run by its `owner` -/
  working : (s.conn c).phase.isWorking = true → s.worker (s.conn c).owner = some c
  /-- a job / worker exists only under `in_flight` -/
  busy : (s.conn c).phase ≠ .idle →
    (s.conn c).inFlight = true ∧ (s.conn c).ended = false ∧ (s.conn c).addFailed = false
  /-- … and `in_flight` without job / worker means: closed for good, or the loop is about to submit the job -/
  idle : (s.conn c).phase = .idle →
    ((s.conn c).inFlight = true ↔ ((s.conn c).ended = true ∧ (s.conn c).addFailed = false) ∨ s.mode = .won c)
  /-- jobs and workers before `EPOLL_CTL_DEL` belong to registered connections -/
  openReg : (s.conn c).phase ≠ .idle → (s.conn c).phase.isOpen = true → (s.conn c).registered = true
  /-- THE CRUX (1): a record is in the reaper queue only when its worker is past the push (or gone) -/
  reap : c ∈ s.reaper →
    (s.conn c).handleLive = true ∧
    ((s.conn c).phase = .pushed ∨ ((s.conn c).phase = .idle ∧ (s.conn c).ended = true))
  deletedP : (s.conn c).phase = .deleted →
    (s.conn c).handleLive = true ∧ (s.conn c).streamLive = true ∧ (s.conn c).closedFlag = false
  droppedP : (s.conn c).phase = .streamDropped →
    (s.conn c).handleLive = true ∧ (s.conn c).streamLive = false ∧ (s.conn c).closedFlag = false
  closedP : (s.conn c).phase = .closedSet →
    (s.conn c).handleLive = true ∧ (s.conn c).streamLive = false ∧ (s.conn c).closedFlag = true
  pushedP : (s.conn c).phase = .pushed →
    (s.conn c).streamLive = false ∧ (s.conn c).closedFlag = true ∧
    ((s.conn c).handleLive = true → c ∈ s.reaper)
  /-- ended by a worker: everything released except possibly the record, which then waits in the reaper queue -/
  endedW : (s.conn c).ended = true → (s.conn c).addFailed = false →
    (s.conn c).phase = .idle ∧ (s.conn c).inFlight = true ∧ (s.conn c).closedFlag = true ∧
    (s.conn c).streamLive = false ∧ ((s.conn c).handleLive = true → c ∈ s.reaper)
  /-- ended by a failed `EPOLL_CTL_ADD`: everything released -/
  endedF : (s.conn c).ended = true → (s.conn c).addFailed = true →
    (s.conn c).handleLive = false ∧ (s.conn c).streamLive = false
  failing : (s.conn c).addFailed = true → (s.conn c).ended = false → s.mode = .accF1 c ∨ s.mode = .accF2 c
  /-- ghost counters: a resource was released (once) iff it was allocated and is no longer live -/
  cnt : (s.conn c).streamClosedCount = (if (s.conn c).accepted && !(s.conn c).streamLive then 1 else 0) ∧
    (s.conn c).teardownCount = (s.conn c).streamClosedCount ∧
    (s.conn c).handleFreedCount = (if (s.conn c).boxed && !(s.conn c).handleLive then 1 else 0)
  alloc : ((s.conn c).handleLive = true → (s.conn c).boxed = true) ∧
    ((s.conn c).streamLive = true → (s.conn c).accepted = true) ∧
    ((s.conn c).boxed = true → (s.conn c).accepted = true)
  /-- whatever was in flight or has ended had a record -/
  boxedP : (s.conn c).inFlight = true ∨ (s.conn c).ended = true → (s.conn c).boxed = true
  /-- every accepted connection is in exactly one stage of its life -/
  stage : (s.conn c).accepted = true →
    (s.conn c).registered = true ∨ (s.conn c).phase.isClosing = true ∨ (s.conn c).ended = true ∨
    (s.mode = .acc1 c ∨ s.mode = .acc2 c ∨ s.mode = .accF1 c ∨ s.mode = .accF2 c)
  /-- THE CRUX (2): an event still to be processed in the current batch refers to a live record -/
  inRest : Token.conn c ∈ s.rest →
    (s.conn c).handleLive = true ∧ ((s.conn c).registered = true ∨ (s.conn c).inFlight = true)
  loadedP : s.mode = .loaded c →
    (s.conn c).handleLive = true ∧ ((s.conn c).registered = true ∨ (s.conn c).inFlight = true)
  wonP : s.mode = .won c →
    (s.conn c).registered = true ∧ (s.conn c).phase = .idle ∧ (s.conn c).inFlight = true
  acc1P : s.mode = .acc1 c →
    (s.conn c).accepted = true ∧ (s.conn c).streamLive = true ∧ (s.conn c).boxed = false ∧
    (s.conn c).handleLive = false ∧ (s.conn c).phase = .idle ∧ (s.conn c).ended = false ∧
    (s.conn c).addFailed = false ∧ (s.conn c).registered = false
  acc2P : s.mode = .acc2 c ∨ s.mode = .accF1 c →
    (s.conn c).accepted = true ∧ (s.conn c).streamLive = true ∧ (s.conn c).boxed = true ∧
    (s.conn c).handleLive = true ∧ (s.conn c).phase = .idle ∧ (s.conn c).ended = false ∧
    (s.conn c).registered = false ∧ (s.conn c).inFlight = false ∧ (s.conn c).closedFlag = false ∧
    ((s.conn c).addFailed = true ↔ s.mode = .accF1 c)
  accF2P : s.mode = .accF2 c →
    (s.conn c).accepted = true ∧ (s.conn c).streamLive = true ∧ (s.conn c).boxed = true ∧
    (s.conn c).handleLive = false ∧ (s.conn c).phase = .idle ∧ (s.conn c).ended = false ∧
    (s.conn c).registered = false ∧ (s.conn c).inFlight = false ∧ (s.conn c).addFailed = true

/-- The inductive invariant. -/
structure EpollInv (s : State) : Prop where
  nPos : 0 < s.nWorkers
  jobsNodup : s.jobs.Nodup
  /-- no record is queued for freeing twice -/
  reaperNodup : s.reaper.Nodup
  workerP : ∀ w c, s.worker w = some c →
    w < s.nWorkers ∧ (s.conn c).owner = w ∧ (s.conn c).phase.isWorking = true
  /-- whenever the loop sleeps with a non-empty reaper queue, the wake-up is pending or about to be sent -/
  wakeP : s.mode = .waiting → ∀ c ∈ s.reaper, s.wakePending = true ∨ (s.conn c).phase = .pushed
  conn : ∀ c, ConnInv s c

theorem EpollInv.init {n : Nat} (h : 1 ≤ n) : EpollInv (init n) := by
  refine ⟨(by simp only [Epoll.init]; omega), by simp [Epoll.init], by simp [Epoll.init], by simp [Epoll.init],
    by simp [Epoll.init], fun c => ?_⟩
  constructor <;> simp [Epoll.init, Phase.isWorking, Phase.isOpen, Phase.isClosing]

end Khttp.Epoll
