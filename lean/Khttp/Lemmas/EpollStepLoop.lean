/- Preservation of `EpollInv` by the steps of the event-loop thread, and the invariant for all reachable states. -/
import Khttp.Lemmas.EpollStepWorker
namespace Khttp.Epoll
open Khttp.Pool (upd upd_same upd_other)

/-- closes the per-connection invariant of the connection the loop step touched -/
macro "conn_loop" : tactic =>
  `(tactic| (constructor <;> simp only [apply, upd_same] <;>
      grind [Phase.isOpen, Phase.isClosing, Phase.isWorking, Mode.conn?]))

theorem step_batchStart {s : State} (I : EpollInv s) (evs : List Token) (en : enabled s (.batchStart evs)) :
    EpollInv (apply s (.batchStart evs)) := by
  obtain ⟨hm, hne, hnd, hready⟩ := en
  refine ⟨I.nPos, I.jobsNodup, I.reaperNodup, I.workerP, ?_, fun k => ?_⟩
  · intro h; simp [apply] at h
  · refine (I.conn k).frame rfl (fun h => h) Iff.rfl (fun h => h) Iff.rfl ?_ ?_ ?_
    · intro h
      have := hready _ h
      simp only [State.ready, Bool.and_eq_true] at this
      exact .inr this.1
    · right; simp [apply, Mode.conn?]
    · right; left; simp [hm, Mode.conn?]

theorem step_drainWake {s : State} (I : EpollInv s) (en : enabled s .drainWake) :
    EpollInv (apply s .drainWake) := by
  obtain ⟨hm, hh⟩ := en
  refine ⟨I.nPos, I.jobsNodup, I.reaperNodup, I.workerP, ?_, fun k => ?_⟩
  · intro h; simp [apply, hm] at h
  · exact (I.conn k).frame rfl (fun h => h) Iff.rfl (fun h => h) Iff.rfl
      (fun h => .inl (List.mem_of_mem_tail h)) (.inl rfl) (.inl rfl)

theorem step_loadClosed {s : State} (I : EpollInv s) (c : Nat) (v : Bool) (en : enabled s (.loadClosed c v)) :
    EpollInv (apply s (.loadClosed c v)) := by
  obtain ⟨hm, hh, hv⟩ := en
  have hmem : Token.conn c ∈ s.rest := mem_of_head? hh
  cases v with
  | true =>
    refine ⟨I.nPos, I.jobsNodup, I.reaperNodup, I.workerP, ?_, fun k => ?_⟩
    · intro h; simp [apply, hm] at h
    · exact (I.conn k).frame rfl (fun h => h) Iff.rfl (fun h => h) Iff.rfl
        (fun h => .inl (List.mem_of_mem_tail h)) (.inl rfl) (.inl rfl)
  | false =>
    refine ⟨I.nPos, I.jobsNodup, I.reaperNodup, I.workerP, ?_, fun k => ?_⟩
    · intro h; simp [apply] at h
    · have J := I.conn k
      by_cases hk : k = c
      · subst hk
        have hin := J.inRest hmem
        destruct_conn J
        constructor <;> simp only [apply] <;> grind
      · exact J.frame rfl (fun h => h) Iff.rfl (fun h => h) Iff.rfl .inl
          (.inr (by simp [apply, Mode.conn?]; exact fun e => hk e.symm)) (.inr (.inl (by simp [hm, Mode.conn?])))

theorem step_cas {s : State} (I : EpollInv s) (c : Nat) (ok : Bool) (en : enabled s (.cas c ok)) :
    EpollInv (apply s (.cas c ok)) := by
  obtain ⟨hm, hok⟩ := en
  cases ok with
  | false =>
    refine ⟨I.nPos, I.jobsNodup, I.reaperNodup, I.workerP, ?_, fun k => ?_⟩
    · intro h; simp [apply] at h
    · refine (I.conn k).frame rfl (fun h => h) Iff.rfl (fun h => h) Iff.rfl
        (fun h => .inl (List.mem_of_mem_tail h)) (.inr (by simp [apply, Mode.conn?])) ?_
      by_cases hk : k = c
      · subst hk; exact .inr (.inr hm)
      · exact .inr (.inl (by simp [hm, Mode.conn?]; exact fun e => hk e.symm))
  | true =>
    have hif : (s.conn c).inFlight = false := by
      cases h : (s.conn c).inFlight <;> simp [h] at hok ⊢
    refine ⟨I.nPos, I.jobsNodup, I.reaperNodup, ?_, ?_, fun k => ?_⟩
    · intro w' k hw'
      simp only [apply] at hw' ⊢
      have h1 := I.workerP w' k hw'
      grind [upd, Phase.isWorking]
    · intro h; simp [apply] at h
    · have J := I.conn k
      by_cases hk : k = c
      · subst hk
        destruct_conn J
        constructor <;> simp only [apply, upd_same, if_true] <;>
          grind [Phase.isOpen, Phase.isClosing, Phase.isWorking]
      · exact J.frame (by simp [apply, upd_other _ _ _ _ hk]) (fun h => h) Iff.rfl (fun h => h) Iff.rfl .inl
          (.inr (by simp [apply, Mode.conn?]; exact fun e => hk e.symm))
          (.inr (.inl (by simp [hm, Mode.conn?]; exact fun e => hk e.symm)))

theorem step_execute {s : State} (I : EpollInv s) (c : Nat) (en : enabled s (.execute c)) :
    EpollInv (apply s (.execute c)) := by
  have hm : s.mode = .won c := en
  have hw := (I.conn c).wonP hm
  have hnj : c ∉ s.jobs := by
    intro h; have := ((I.conn c).jobq).mpr h; rw [hw.2.1] at this; cases this
  refine ⟨I.nPos, ?_, I.reaperNodup, ?_, ?_, fun k => ?_⟩
  · simp only [apply]
    rw [List.nodup_append]
    refine ⟨I.jobsNodup, by simp, ?_⟩
    intro a ha b hb
    simp at hb; subst hb
    intro e; subst e; exact hnj ha
  · intro w' k hw'
    simp only [apply] at hw' ⊢
    have h1 := I.workerP w' k hw'
    grind [upd, Phase.isWorking]
  · intro h; simp [apply] at h
  · have J := I.conn k
    by_cases hk : k = c
    · subst hk
      have hrest := fun h => J.inRest (List.mem_of_mem_tail h)
      destruct_conn J
      constructor <;> simp only [apply, upd_same, List.mem_append, List.mem_singleton] <;>
        grind [Phase.isOpen, Phase.isClosing, Phase.isWorking]
    · refine J.frame (by simp [apply, upd_other _ _ _ _ hk]) (fun h => h) ?_ (fun h => h) Iff.rfl
          (fun h => .inl (List.mem_of_mem_tail h)) (.inr (by simp [apply, Mode.conn?]))
          (.inr (.inl (by simp [hm, Mode.conn?]; exact fun e => hk e.symm)))
      simp [apply, hk]

theorem step_batchEnd {s : State} (I : EpollInv s) (en : enabled s .batchEnd) :
    EpollInv (apply s .batchEnd) := by
  obtain ⟨hm, hrest⟩ := en
  have hcount : ∀ k, s.reaper.count k = if k ∈ s.reaper then 1 else 0 := fun k => I.reaperNodup.count
  refine ⟨I.nPos, I.jobsNodup, by simp [apply], ?_, ?_, fun k => ?_⟩
  · intro w' k hw'
    simp only [apply] at hw' ⊢
    have h1 := I.workerP w' k hw'
    simp only [Conn.freed]
    split
    · exact h1
    · exact h1
  · intro _ k hk; simp [apply] at hk
  · have J := I.conn k
    have hc := hcount k
    by_cases hin : k ∈ s.reaper
    · have hr := J.reap hin
      simp only [hin, if_true] at hc
      destruct_conn J
      constructor <;> simp only [apply, Conn.freed, hc] <;>
        grind [Phase.isOpen, Phase.isClosing, Phase.isWorking]
    · simp only [hin, if_false] at hc
      destruct_conn J
      constructor <;> simp only [apply, Conn.freed, hc] <;>
        grind [Phase.isOpen, Phase.isClosing, Phase.isWorking]

theorem step_acceptConn {s : State} (I : EpollInv s) (c : Nat) (en : enabled s (.acceptConn c)) :
    EpollInv (apply s (.acceptConn c)) := by
  obtain ⟨hm, hh, hc⟩ := en
  subst hc
  have hfresh := (I.conn s.next).fresh (Nat.le_refl _)
  refine ⟨I.nPos, I.jobsNodup, I.reaperNodup, ?_, ?_, fun k => ?_⟩
  · intro w' k hw'
    simp only [apply] at hw' ⊢
    have h1 := I.workerP w' k hw'
    grind [upd, Phase.isWorking]
  · intro h; simp [apply] at h
  · have J := I.conn k
    by_cases hk : k = s.next
    · subst hk
      destruct_conn J
      constructor <;> simp only [apply, upd_same, hfresh] <;>
        grind [Phase.isOpen, Phase.isClosing, Phase.isWorking]
    · exact J.frame (by simp [apply, upd_other _ _ _ _ hk]) (by simp only [apply]; omega) Iff.rfl (fun h => h)
        Iff.rfl .inl (.inr (by simp [apply, Mode.conn?]; exact fun e => hk e.symm))
        (.inr (.inl (by simp [hm, Mode.conn?])))

/- shared shape of the loop steps that work on the connection `c` being set up (uses the local names `I`, `hm`,
   `c` of the calling theorem) -/
set_option hygiene false in
macro "setup_step" : tactic =>
  `(tactic| (
    refine ⟨I.nPos, I.jobsNodup, I.reaperNodup, ?_, ?_, fun k => ?_⟩
    · intro w' k hw'
      simp only [apply] at hw' ⊢
      have h1 := I.workerP w' k hw'
      grind [upd, Phase.isWorking]
    · intro h; simp [apply, hm] at h
    · have J := I.conn k
      by_cases hk : k = c
      · subst hk
        destruct_conn J
        constructor <;> simp only [apply, upd_same] <;>
          grind [Phase.isOpen, Phase.isClosing, Phase.isWorking]
      · exact J.frame (by simp [apply, upd_other _ _ _ _ hk]) (fun h => h) Iff.rfl (fun h => h)
          Iff.rfl .inl (.inr (by simp [apply, Mode.conn?]; try exact fun e => hk e.symm))
          (.inr (.inl (by simp [hm, Mode.conn?]; exact fun e => hk e.symm)))))

theorem step_boxHandle {s : State} (I : EpollInv s) (c : Nat) (en : enabled s (.boxHandle c)) :
    EpollInv (apply s (.boxHandle c)) := by
  have hm : s.mode = .acc1 c := en
  setup_step

theorem step_addOk {s : State} (I : EpollInv s) (c : Nat) (en : enabled s (.addOk c)) :
    EpollInv (apply s (.addOk c)) := by
  have hm : s.mode = .acc2 c := en
  setup_step

theorem step_addFail {s : State} (I : EpollInv s) (c : Nat) (en : enabled s (.addFail c)) :
    EpollInv (apply s (.addFail c)) := by
  have hm : s.mode = .acc2 c := en
  setup_step

theorem step_failFreeHandle {s : State} (I : EpollInv s) (c : Nat) (en : enabled s (.failFreeHandle c)) :
    EpollInv (apply s (.failFreeHandle c)) := by
  have hm : s.mode = .accF1 c := en
  setup_step

theorem step_failTeardown {s : State} (I : EpollInv s) (c : Nat) (en : enabled s (.failTeardown c)) :
    EpollInv (apply s (.failTeardown c)) := by
  have hm : s.mode = .accF2 c := en
  setup_step

theorem step_acceptDone {s : State} (I : EpollInv s) (en : enabled s .acceptDone) :
    EpollInv (apply s .acceptDone) := by
  obtain ⟨hm, hh⟩ := en
  refine ⟨I.nPos, I.jobsNodup, I.reaperNodup, I.workerP, ?_, fun k => ?_⟩
  · intro h; simp [apply, hm] at h
  · exact (I.conn k).frame rfl (fun h => h) Iff.rfl (fun h => h) Iff.rfl
      (fun h => .inl (List.mem_of_mem_tail h)) (.inl rfl) (.inl rfl)

theorem step_stopAccepting {s : State} (I : EpollInv s) (en : enabled s .stopAccepting) :
    EpollInv (apply s .stopAccepting) := by
  obtain ⟨hm, hh⟩ := en
  refine ⟨I.nPos, I.jobsNodup, I.reaperNodup, I.workerP, ?_, fun k => ?_⟩
  · intro h; simp [apply] at h
  · exact (I.conn k).frame rfl (fun h => h) Iff.rfl (fun h => h) Iff.rfl
      (fun h => by simp [apply] at h) (.inr (by simp [apply, Mode.conn?])) (.inr (.inl (by simp [hm, Mode.conn?])))

/-- The invariant is preserved by every step. -/
theorem EpollInv.step {s t : State} {e : Event} (I : EpollInv s) (h : StepE s e t) : EpollInv t := by
  obtain ⟨en, rfl⟩ := h
  cases e with
  | cSend c => exact step_cSend I c en
  | cClose c => exact step_cClose I c en
  | batchStart evs => exact step_batchStart I evs en
  | drainWake => exact step_drainWake I en
  | loadClosed c v => exact step_loadClosed I c v en
  | cas c ok => exact step_cas I c ok en
  | execute c => exact step_execute I c en
  | batchEnd => exact step_batchEnd I en
  | acceptConn c => exact step_acceptConn I c en
  | boxHandle c => exact step_boxHandle I c en
  | addOk c => exact step_addOk I c en
  | addFail c => exact step_addFail I c en
  | failFreeHandle c => exact step_failFreeHandle I c en
  | failTeardown c => exact step_failTeardown I c en
  | acceptDone => exact step_acceptDone I en
  | stopAccepting => exact step_stopAccepting I en
  | take w c => exact step_take I w c en
  | handleKeep w c => exact step_handleKeep I w c en
  | handleClose w c ans => exact step_handleClose I w c ans en
  | storeInFlight w c => exact step_storeInFlight I w c en
  | del w c => exact step_del I w c en
  | dropStream w c => exact step_dropStream I w c en
  | setClosed w c => exact step_setClosed I w c en
  | push w c => exact step_push I w c en
  | wake w c => exact step_wake I w c en

theorem EpollInv.of_reachable {s : State} (h : Reachable s) : EpollInv s := by
  induction h with
  | init n hn => exact EpollInv.init hn
  | step _ st ih => obtain ⟨e, he⟩ := st; exact ih.step he

end Khttp.Epoll
