/- Preservation of `EpollInv` by the steps of the clients and of the workers. -/
import Khttp.Lemmas.EpollFrame
namespace Khttp.Epoll
open Khttp.Pool (upd upd_same upd_other)

/-- closes the per-connection invariant of the connection the step touched -/
macro "conn_same" : tactic =>
  `(tactic| (constructor <;> simp only [apply, upd_same] <;>
      grind [Phase.isOpen, Phase.isClosing, Phase.isWorking, Conn.answerOldest, Conn.readable,
             take_one_append_tail]))

/-- `workerP` for steps that leave `worker` alone and keep `owner` / `isWorking` of the touched connection -/
macro "worker_same " I:ident : tactic =>
  `(tactic| (intro w' k hw'; simp only [apply] at hw' ⊢; have h1 := EpollInv.workerP $I w' k hw';
             grind [upd, Phase.isWorking, Conn.answerOldest]))

/-- `wakeP` for steps that leave `mode`, `reaper`, `wakePending` alone -/
macro "wake_same " I:ident : tactic =>
  `(tactic| (intro hm k hk; simp only [apply] at hm hk ⊢; have h1 := EpollInv.wakeP $I hm k hk;
             grind [upd, Conn.answerOldest]))

theorem step_cSend {s : State} (I : EpollInv s) (c : Nat) (en : enabled s (.cSend c)) :
    EpollInv (apply s (.cSend c)) := by
  obtain ⟨ha, hp⟩ := en
  refine ⟨I.nPos, I.jobsNodup, I.reaperNodup, ?_, ?_, fun k => ?_⟩
  · worker_same I
  · wake_same I
  · have J := I.conn k
    by_cases hk : k = c
    · subst hk
      destruct_conn J
      constructor <;> simp only [apply, upd_same] <;>
        first
          | (rw [← List.append_assoc]; grind)
          | grind [Phase.isOpen, Phase.isClosing, Phase.isWorking]
    · exact J.frame (by simp [apply, upd_other _ _ _ _ hk]) (fun h => h) Iff.rfl (fun h => h) Iff.rfl .inl
        (.inl rfl) (.inl rfl)

theorem step_cClose {s : State} (I : EpollInv s) (c : Nat) (en : enabled s (.cClose c)) :
    EpollInv (apply s (.cClose c)) := by
  obtain ⟨ha, hp⟩ := en
  refine ⟨I.nPos, I.jobsNodup, I.reaperNodup, ?_, ?_, fun k => ?_⟩
  · worker_same I
  · wake_same I
  · have J := I.conn k
    by_cases hk : k = c
    · subst hk; destruct_conn J; conn_same
    · exact J.frame (by simp [apply, upd_other _ _ _ _ hk]) (fun h => h) Iff.rfl (fun h => h) Iff.rfl .inl
        (.inl rfl) (.inl rfl)

theorem step_take {s : State} (I : EpollInv s) (w c : Nat) (en : enabled s (.take w c)) :
    EpollInv (apply s (.take w c)) := by
  obtain ⟨hw, hi, hq⟩ := en
  have hq' := head?_cons_tail hq
  have hcj : c ∈ s.jobs := mem_of_head? hq
  have hnd := I.jobsNodup
  rw [hq'] at hnd
  have hct : c ∉ s.jobs.tail := (List.nodup_cons.mp hnd).1
  have hph : (s.conn c).phase = .jobQueued := ((I.conn c).jobq).mpr hcj
  refine ⟨I.nPos, nodup_tail I.jobsNodup, I.reaperNodup, ?_, ?_, fun k => ?_⟩
  · intro w' k hw'
    simp only [apply] at hw' ⊢
    by_cases hww : w' = w
    · subst hww
      simp only [upd_same] at hw'
      cases hw'
      simp [hw, Phase.isWorking]
    · rw [upd_other _ _ _ _ hww] at hw'
      have h1 := I.workerP w' k hw'
      have hk : k ≠ c := by
        intro e; subst e; rw [hph] at h1; simp [Phase.isWorking] at h1
      rw [upd_other _ _ _ _ hk]; exact h1
  · intro hm k hk
    simp only [apply] at hm hk ⊢
    have h1 := I.wakeP hm k hk
    have hkc : k ≠ c := by
      intro e; subst e
      have := ((I.conn k).reap hk).2
      rw [hph] at this; simp at this
    rw [upd_other _ _ _ _ hkc]; exact h1
  · have J := I.conn k
    by_cases hk : k = c
    · subst hk
      destruct_conn J
      constructor <;> simp only [apply, upd_same] <;>
        grind [Phase.isOpen, Phase.isClosing, Phase.isWorking]
    · refine J.frame (by simp [apply, upd_other _ _ _ _ hk]) (fun h => h) ?_ ?_ Iff.rfl .inl (.inl rfl) (.inl rfl)
      · simp only [apply]
        constructor
        · exact List.mem_of_mem_tail
        · intro h; rw [hq'] at h; simpa [hk] using h
      · intro h
        simp only [apply]
        have : (s.conn k).owner ≠ w := by intro e; rw [e, hi] at h; cases h
        rw [upd_other _ _ _ _ this]; exact h

theorem step_handleKeep {s : State} (I : EpollInv s) (w c : Nat) (en : enabled s (.handleKeep w c)) :
    EpollInv (apply s (.handleKeep w c)) := by
  obtain ⟨hw, hp, hne⟩ := en
  refine ⟨I.nPos, I.jobsNodup, I.reaperNodup, ?_, ?_, fun k => ?_⟩
  · worker_same I
  · wake_same I
  · have J := I.conn k
    by_cases hk : k = c
    · subst hk
      destruct_conn J
      constructor <;> simp only [apply, upd_same, Conn.answerOldest] <;>
        first
          | (rw [List.append_assoc, take_one_append_tail]; grind)
          | grind [Phase.isOpen, Phase.isClosing, Phase.isWorking]
    · exact J.frame (by simp [apply, upd_other _ _ _ _ hk]) (fun h => h) Iff.rfl (fun h => h) Iff.rfl .inl
        (.inl rfl) (.inl rfl)

theorem step_handleClose {s : State} (I : EpollInv s) (w c : Nat) (ans : Bool)
    (en : enabled s (.handleClose w c ans)) : EpollInv (apply s (.handleClose w c ans)) := by
  obtain ⟨hw, hp, hr, hne⟩ := en
  refine ⟨I.nPos, I.jobsNodup, I.reaperNodup, ?_, ?_, fun k => ?_⟩
  · intro w' k hw'
    simp only [apply] at hw' ⊢
    have h1 := I.workerP w' k hw'
    cases ans <;> grind [upd, Phase.isWorking, Conn.answerOldest]
  · intro hm k hk
    simp only [apply] at hm hk ⊢
    have h1 := I.wakeP hm k hk
    cases ans <;> grind [upd, Conn.answerOldest]
  · have J := I.conn k
    by_cases hk : k = c
    · subst hk
      destruct_conn J
      cases ans
      · constructor <;> simp only [apply, upd_same] <;>
          grind [Phase.isOpen, Phase.isClosing, Phase.isWorking]
      · constructor <;> simp only [apply, upd_same, Conn.answerOldest, if_true] <;>
          first
            | (rw [List.append_assoc, take_one_append_tail]; grind)
            | grind [Phase.isOpen, Phase.isClosing, Phase.isWorking]
    · exact J.frame (by simp [apply, upd_other _ _ _ _ hk]) (fun h => h) Iff.rfl (fun h => h) Iff.rfl .inl
        (.inl rfl) (.inl rfl)

theorem step_storeInFlight {s : State} (I : EpollInv s) (w c : Nat) (en : enabled s (.storeInFlight w c)) :
    EpollInv (apply s (.storeInFlight w c)) := by
  obtain ⟨hw, hp⟩ := en
  have hwc := I.workerP w c hw
  have hwon := (I.conn c).wonP
  refine ⟨I.nPos, I.jobsNodup, I.reaperNodup, ?_, ?_, fun k => ?_⟩
  · intro w' k hw'
    simp only [apply] at hw' ⊢
    have h1 := I.workerP w' k
    grind [upd, Phase.isWorking]
  · intro hm k hk
    simp only [apply] at hm hk ⊢
    have h1 := I.wakeP hm k hk
    have h2 := (I.conn k).reap hk
    grind [upd]
  · have J := I.conn k
    by_cases hk : k = c
    · subst hk; destruct_conn J; conn_same
    · refine J.frame (by simp [apply, upd_other _ _ _ _ hk]) (fun h => h) Iff.rfl ?_ Iff.rfl .inl (.inl rfl) (.inl rfl)
      intro h
      simp only [apply]
      have : (s.conn k).owner ≠ w := by intro e; rw [e, hw] at h; cases h; exact hk rfl
      rw [upd_other _ _ _ _ this]; exact h

theorem step_del {s : State} (I : EpollInv s) (w c : Nat) (en : enabled s (.del w c)) :
    EpollInv (apply s (.del w c)) := by
  obtain ⟨hw, hp⟩ := en
  refine ⟨I.nPos, I.jobsNodup, I.reaperNodup, ?_, ?_, fun k => ?_⟩
  · worker_same I
  · intro hm k hk
    simp only [apply] at hm hk ⊢
    have h1 := I.wakeP hm k hk
    have h2 := (I.conn k).reap hk
    grind [upd]
  · have J := I.conn k
    by_cases hk : k = c
    · subst hk; destruct_conn J; conn_same
    · exact J.frame (by simp [apply, upd_other _ _ _ _ hk]) (fun h => h) Iff.rfl (fun h => h) Iff.rfl .inl
        (.inl rfl) (.inl rfl)

theorem step_dropStream {s : State} (I : EpollInv s) (w c : Nat) (en : enabled s (.dropStream w c)) :
    EpollInv (apply s (.dropStream w c)) := by
  obtain ⟨hw, hp⟩ := en
  refine ⟨I.nPos, I.jobsNodup, I.reaperNodup, ?_, ?_, fun k => ?_⟩
  · worker_same I
  · intro hm k hk
    simp only [apply] at hm hk ⊢
    have h1 := I.wakeP hm k hk
    have h2 := (I.conn k).reap hk
    grind [upd]
  · have J := I.conn k
    by_cases hk : k = c
    · subst hk; destruct_conn J; conn_same
    · exact J.frame (by simp [apply, upd_other _ _ _ _ hk]) (fun h => h) Iff.rfl (fun h => h) Iff.rfl .inl
        (.inl rfl) (.inl rfl)

theorem step_setClosed {s : State} (I : EpollInv s) (w c : Nat) (en : enabled s (.setClosed w c)) :
    EpollInv (apply s (.setClosed w c)) := by
  obtain ⟨hw, hp⟩ := en
  refine ⟨I.nPos, I.jobsNodup, I.reaperNodup, ?_, ?_, fun k => ?_⟩
  · worker_same I
  · intro hm k hk
    simp only [apply] at hm hk ⊢
    have h1 := I.wakeP hm k hk
    have h2 := (I.conn k).reap hk
    grind [upd]
  · have J := I.conn k
    by_cases hk : k = c
    · subst hk; destruct_conn J; conn_same
    · exact J.frame (by simp [apply, upd_other _ _ _ _ hk]) (fun h => h) Iff.rfl (fun h => h) Iff.rfl .inl
        (.inl rfl) (.inl rfl)

theorem step_push {s : State} (I : EpollInv s) (w c : Nat) (en : enabled s (.push w c)) :
    EpollInv (apply s (.push w c)) := by
  obtain ⟨hw, hp⟩ := en
  have hnr : c ∉ s.reaper := by
    intro h; have := ((I.conn c).reap h).2; rw [hp] at this; simp at this
  refine ⟨I.nPos, I.jobsNodup, ?_, ?_, ?_, fun k => ?_⟩
  · simp only [apply]
    rw [List.nodup_append]
    refine ⟨I.reaperNodup, by simp, ?_⟩
    intro a ha b hb
    simp at hb; subst hb
    intro e; subst e; exact hnr ha
  · worker_same I
  · intro hm k hk
    simp only [apply] at hm hk ⊢
    by_cases hkc : k = c
    · subst hkc; simp
    · rw [upd_other _ _ _ _ hkc]
      have : k ∈ s.reaper := by simpa [hkc] using hk
      exact I.wakeP hm k this
  · have J := I.conn k
    by_cases hk : k = c
    · subst hk
      destruct_conn J
      constructor <;> simp only [apply, upd_same, List.mem_append, List.mem_singleton] <;>
        grind [Phase.isOpen, Phase.isClosing, Phase.isWorking]
    · refine J.frame (by simp [apply, upd_other _ _ _ _ hk]) (fun h => h) Iff.rfl (fun h => h) ?_ .inl
        (.inl rfl) (.inl rfl)
      simp [apply, hk]

theorem step_wake {s : State} (I : EpollInv s) (w c : Nat) (en : enabled s (.wake w c)) :
    EpollInv (apply s (.wake w c)) := by
  obtain ⟨hw, hp⟩ := en
  have hwc := I.workerP w c hw
  refine ⟨I.nPos, I.jobsNodup, I.reaperNodup, ?_, ?_, fun k => ?_⟩
  · intro w' k hw'
    simp only [apply] at hw' ⊢
    have h1 := I.workerP w' k
    grind [upd, Phase.isWorking]
  · intro _ k _
    simp only [apply]; exact Or.inl trivial
  · have J := I.conn k
    by_cases hk : k = c
    · subst hk; destruct_conn J; conn_same
    · refine J.frame (by simp [apply, upd_other _ _ _ _ hk]) (fun h => h) Iff.rfl ?_ Iff.rfl .inl (.inl rfl) (.inl rfl)
      intro h
      simp only [apply]
      have : (s.conn k).owner ≠ w := by intro e; rw [e, hw] at h; cases h; exact hk rfl
      rw [upd_other _ _ _ _ this]; exact h

end Khttp.Epoll
