import Khttp.Model.Parser
import Khttp.Spec.Head
/- helper lemmas for StageHeaders (namespaced to avoid clashes with other lemma files) -/
namespace Khttp.Hdr
open Spec

theorem forall_uint8 {P : UInt8 → Prop} (h : ∀ n : Fin 256, P (UInt8.ofNat n.val)) : ∀ b, P b := by
  intro b
  have := h ⟨b.toNat, UInt8.toNat_lt b⟩
  simpa using this

theorem fvb_ws : ∀ b : UInt8, isFieldValueByte b = true → isAsciiWs b = isOws b := by
  apply forall_uint8; decide +kernel

theorem dropWhile_congr' {p q : UInt8 → Bool} : ∀ {l : Bytes}, (∀ b ∈ l, p b = q b) →
    l.dropWhile p = l.dropWhile q := by
  intro l
  induction l with
  | nil => intro _; rfl
  | cons a t ih =>
    intro h
    have ha := h a (by simp)
    simp only [List.dropWhile_cons, ha]
    split
    · exact ih (fun b hb => h b (by simp [hb]))
    · rfl

theorem mem_of_mem_dropWhile {p : UInt8 → Bool} {l : Bytes} {b : UInt8} (h : b ∈ l.dropWhile p) : b ∈ l :=
  (List.dropWhile_sublist p).subset h

/-- for values containing only field-value bytes both trims agree -/
theorem trimAscii_eq_trimOws {t : Bytes} (h : ∀ b ∈ t, isAsciiWs b = isOws b) : trimAscii t = trimOws t := by
  unfold trimAscii trimEnd trimStart trimOws
  rw [dropWhile_congr' h]
  rw [dropWhile_congr' (l := (t.dropWhile isOws).reverse)]
  intro b hb
  exact h b (mem_of_mem_dropWhile (List.mem_reverse.mp hb))

theorem dropWhile_idem (p : UInt8 → Bool) (l : Bytes) : (l.dropWhile p).dropWhile p = l.dropWhile p := by
  induction l with
  | nil => rfl
  | cons a t ih =>
    by_cases h : p a = true
    · simp [h, ih]
    · simp [h]

theorem trimAscii_trimStart (t : Bytes) : trimAscii (trimStart t) = trimAscii t := by
  unfold trimAscii trimStart
  rw [dropWhile_idem]

theorem splitOn_ne_nil (c : UInt8) (v : Bytes) : splitOn c v ≠ [] := by
  induction v with
  | nil => simp [splitOn]
  | cons b bs ih =>
    unfold splitOn
    split
    · simp
    · split <;> simp

theorem mem_of_mem_splitOn (c : UInt8) : ∀ (v : Bytes) (t : Bytes), t ∈ splitOn c v → ∀ b ∈ t, b ∈ v := by
  intro v
  induction v with
  | nil => intro t ht b hb; simp [splitOn] at ht; subst ht; simp at hb
  | cons a bs ih =>
    intro t ht b hb
    unfold splitOn at ht
    split at ht
    · rcases List.mem_cons.mp ht with rfl | ht
      · simp at hb
      · exact List.mem_cons_of_mem _ (ih t ht b hb)
    · split at ht
      · simp at ht; subst ht; simp at hb; subst hb; simp
      · rename_i h t' heq
        rcases List.mem_cons.mp ht with rfl | ht
        · rcases List.mem_cons.mp hb with rfl | hb
          · simp
          · exact List.mem_cons_of_mem _ (ih h (by simp [heq]) b hb)
        · exact List.mem_cons_of_mem _ (ih t (by simp [heq, ht]) b hb)

theorem splitOn_dropWhile (c : UInt8) (p : UInt8 → Bool) (hp : p c = false) : ∀ v : Bytes,
    ∃ t ts, splitOn c v = t :: ts ∧ splitOn c (v.dropWhile p) = t.dropWhile p :: ts := by
  intro v
  induction v with
  | nil => exact ⟨[], [], by simp [splitOn], by simp [splitOn]⟩
  | cons b bs ih =>
    obtain ⟨t, ts, e1, e2⟩ := ih
    by_cases hb : p b = true
    · have hbc : (b == c) = false := by
        rw [beq_eq_false_iff_ne]; rintro rfl; simp [hp] at hb
      refine ⟨b :: t, ts, by simp [splitOn, hbc, e1], ?_⟩
      simp [hb, e2]
    · have hb : p b = false := by simpa using hb
      by_cases hbc : (b == c) = true
      · exact ⟨[], splitOn c bs, by simp [splitOn, hbc], by simp [hb, splitOn, hbc]⟩
      · have hbc : (b == c) = false := by simpa using hbc
        exact ⟨b :: t, ts, by simp [splitOn, hbc, e1], by simp [hb, splitOn, hbc, e1]⟩

def teFinal (v : Bytes) : Bool :=
  match (listElems v).getLast? with
  | none => false
  | some t => eqIgnoreCase t (str "chunked")

theorem teFold_snd (ts : List Bytes) : ∀ (acc : Bool × Bool),
    (ts.foldl (fun (acc : Bool × Bool) t =>
      if t.isEmpty then acc
      else
        let c := eqIgnoreCase t (str "chunked")
        (acc.1 || c, c)) acc).2
    = match (ts.filter (· != [])).getLast? with
      | none => acc.2
      | some t => eqIgnoreCase t (str "chunked") := by
  induction ts with
  | nil => intro acc; simp
  | cons t ts ih =>
    intro acc
    cases t with
    | nil => simpa using ih acc
    | cons a l =>
      simp only [List.foldl_cons, List.isEmpty_cons, Bool.false_eq_true, if_false]
      rw [ih]
      have : (List.filter (· != []) ((a :: l) :: ts)) = (a :: l) :: List.filter (· != []) ts := by
        simp
      rw [this, List.getLast?_cons]
      cases (List.filter (· != []) ts).getLast? <;> simp

theorem tokens_filter_eq (v : Bytes) (hv : ∀ b ∈ v, isFieldValueByte b = true) :
    (Headers.tokens (trimStart v)).filter (· != []) = listElems v := by
  unfold Headers.tokens listElems trimStart
  obtain ⟨t, ts, e1, e2⟩ := splitOn_dropWhile COMMA isAsciiWs (by decide) v
  rw [e2]
  congr 1
  have : List.map trimAscii (List.dropWhile isAsciiWs t :: ts) = List.map trimAscii (splitOn COMMA v) := by
    rw [e1]; simp only [List.map_cons]
    rw [show List.dropWhile isAsciiWs t = trimStart t from rfl, trimAscii_trimStart]
  rw [this]
  apply List.map_congr_left
  intro x hx
  apply trimAscii_eq_trimOws
  intro b hb
  exact fvb_ws b (hv b (mem_of_mem_splitOn COMMA v x hx b hb))

theorem teScan_snd (v : Bytes) (hv : ∀ b ∈ v, isFieldValueByte b = true) :
    (Headers.teScan (trimStart v)).2 = teFinal v := by
  unfold Headers.teScan
  rw [teFold_snd, tokens_filter_eq v hv]
  rfl

theorem parseCL_ok (raw : Bytes) (hv : ∀ b ∈ raw, isFieldValueByte b = true)
    (h1 : trimOws raw ≠ []) (h2 : (trimOws raw).all isDigit = true) (h3 : decimal (trimOws raw) < 2 ^ 64) :
    Headers.parseContentLength (trimStart raw) = some (decimal (trimOws raw)) := by
  unfold Headers.parseContentLength
  rw [trimAscii_trimStart, trimAscii_eq_trimOws (fun b hb => fvb_ws b (hv b hb))]
  have h3' : List.foldl (fun a b => a * 10 + (b.toNat - 48)) 0 (trimOws raw) < 2 ^ 64 := h3
  have h1' : (trimOws raw).isEmpty = false := by simp [h1]
  simp only [h1', h2, Bool.not_true, Bool.or_self, Bool.false_eq_true, if_false, h3', if_true]
  rfl

theorem cl_not_te (name : Bytes) (h : eqIgnoreCase name Headers.CONTENT_LENGTH = true) :
    eqIgnoreCase name Headers.TRANSFER_ENCODING = false := by
  rw [Bool.eq_false_iff]; intro h'
  unfold eqIgnoreCase at h h'
  have h := beq_iff_eq.mp h
  have h' := beq_iff_eq.mp h'
  rw [h] at h'
  revert h'; decide +kernel

theorem add_cl (h : Headers) (name value : Bytes) (hn : eqIgnoreCase name Headers.CONTENT_LENGTH = true) :
    (h.add name value).invalidCl =
      (h.invalidCl || (Headers.parseContentLength value).isNone ||
        (h.cl.isSome && h.cl != Headers.parseContentLength value)) ∧
    (h.add name value).cl = Headers.parseContentLength value ∧
    (h.add name value).teFinalNotChunked = h.teFinalNotChunked := by
  unfold Headers.add; simp [hn]

theorem add_notcl (h : Headers) (name value : Bytes) (hn : eqIgnoreCase name Headers.CONTENT_LENGTH = false) :
    (h.add name value).invalidCl = h.invalidCl ∧
    (h.add name value).cl = h.cl ∧
    (h.add name value).teFinalNotChunked =
      if eqIgnoreCase name Headers.TRANSFER_ENCODING then !(Headers.teScan value).2 else h.teFinalNotChunked := by
  unfold Headers.add; simp only [hn, Bool.false_eq_true, if_false]
  split
  · simp
  · split <;> simp

theorem wfRfc_value {f : Bytes × Bytes} (h : WfRfcLine f = true) : ∀ b ∈ f.2, isFieldValueByte b = true := by
  simp only [WfRfcLine, Bool.and_eq_true, List.all_eq_true] at h
  exact h.2

theorem fold_invalidCl (n : Nat) : ∀ (fs : List (Bytes × Bytes)) (h0 : Headers),
    (∀ f ∈ fs, WfRfcLine f = true) →
    (∀ d ∈ clValues fs, d ≠ [] ∧ d.all isDigit = true ∧ decimal d < 2 ^ 64 ∧ decimal d = n) →
    h0.invalidCl = false → (h0.cl = none ∨ h0.cl = some n) →
    (fs.foldl (fun h f => h.add f.1 (trimStart f.2)) h0).invalidCl = false := by
  intro fs
  induction fs with
  | nil => intro h0 _ _ hi _; exact hi
  | cons f fs ih =>
    intro h0 hw hcl hi hc
    simp only [List.foldl_cons]
    by_cases hn : eqIgnoreCase f.1 Headers.CONTENT_LENGTH = true
    · have e : clValues (f :: fs) = trimOws f.2 :: clValues fs := by
        have hn' : eqIgnoreCase f.1 (str "content-length") = true := hn
        simp [clValues, hn']
      rw [e] at hcl
      obtain ⟨d1, d2, d3, d4⟩ := hcl (trimOws f.2) (by simp)
      have hp := parseCL_ok f.2 (wfRfc_value (hw f (by simp))) d1 d2 d3
      rw [d4] at hp
      obtain ⟨a1, a2, _⟩ := add_cl h0 f.1 (trimStart f.2) hn
      apply ih _ (fun x hx => hw x (by simp [hx])) (fun d hd => hcl d (by simp [hd]))
      · rw [a1, hp, hi]; rcases hc with hc | hc <;> simp [hc]
      · right; rw [a2, hp]
    · have hn : eqIgnoreCase f.1 Headers.CONTENT_LENGTH = false := by simpa using hn
      have e : clValues (f :: fs) = clValues fs := by
        have hn' : eqIgnoreCase f.1 (str "content-length") = false := hn
        simp [clValues, hn']
      rw [e] at hcl
      obtain ⟨a1, a2, _⟩ := add_notcl h0 f.1 (trimStart f.2) hn
      apply ih _ (fun x hx => hw x (by simp [hx])) hcl
      · rw [a1, hi]
      · rw [a2]; exact hc

theorem fold_te : ∀ (fs : List (Bytes × Bytes)) (h0 : Headers),
    (∀ f ∈ fs, WfRfcLine f = true) →
    (fs.foldl (fun h f => h.add f.1 (trimStart f.2)) h0).teFinalNotChunked =
      match (teLines fs).getLast? with
      | none => h0.teFinalNotChunked
      | some v => !teFinal v := by
  intro fs
  induction fs with
  | nil => intro h0 _; simp [teLines]
  | cons f fs ih =>
    intro h0 hw
    simp only [List.foldl_cons]
    rw [ih _ (fun x hx => hw x (by simp [hx]))]
    by_cases hn : eqIgnoreCase f.1 Headers.CONTENT_LENGTH = true
    · have ht : eqIgnoreCase f.1 (str "transfer-encoding") = false := cl_not_te _ hn
      have e : teLines (f :: fs) = teLines fs := by simp [teLines, ht]
      rw [e, (add_cl h0 f.1 (trimStart f.2) hn).2.2]
    · have hn : eqIgnoreCase f.1 Headers.CONTENT_LENGTH = false := by simpa using hn
      rw [(add_notcl h0 f.1 (trimStart f.2) hn).2.2]
      by_cases ht : eqIgnoreCase f.1 Headers.TRANSFER_ENCODING = true
      · have ht' : eqIgnoreCase f.1 (str "transfer-encoding") = true := ht
        have e : teLines (f :: fs) = f.2 :: teLines fs := by simp [teLines, ht']
        rw [e, List.getLast?_cons, if_pos ht, teScan_snd f.2 (wfRfc_value (hw f (by simp)))]
        cases (teLines fs).getLast? <;> simp
      · have ht0 : eqIgnoreCase f.1 Headers.TRANSFER_ENCODING = false := by simpa using ht
        have ht' : eqIgnoreCase f.1 (str "transfer-encoding") = false := ht0
        have e : teLines (f :: fs) = teLines fs := by simp [teLines, ht']
        rw [e, if_neg ht]

end Khttp.Hdr
