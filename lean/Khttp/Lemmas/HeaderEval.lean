/-
  Helper lemmas for C19: case-insensitive comparison, trimming, splitting, the one-step effect of
  every `Headers` operation on the spec-level evaluations.
-/
import Khttp.Spec.HeaderEval
namespace Khttp
open Khttp.Spec
set_option linter.unusedSimpArgs false

-- ------------------------------------------------------------------ eqIgnoreCase

theorem eqIgnoreCase_iff (a b : Bytes) : eqIgnoreCase a b = true ↔ a.map toLower = b.map toLower := by
  simp [eqIgnoreCase]

theorem eqIgnoreCase_refl (a : Bytes) : eqIgnoreCase a a = true := by simp [eqIgnoreCase]

theorem eqIgnoreCase_comm (a b : Bytes) : eqIgnoreCase a b = eqIgnoreCase b a := by
  rw [Bool.eq_iff_iff]; simp only [eqIgnoreCase_iff]; exact eq_comm

theorem eqIgnoreCase_congr_right {n n' : Bytes} (h : eqIgnoreCase n n' = true) (x : Bytes) :
    eqIgnoreCase x n = eqIgnoreCase x n' := by
  rw [eqIgnoreCase_iff] at h; simp [eqIgnoreCase, h]

theorem eqIgnoreCase_congr_left {n n' : Bytes} (h : eqIgnoreCase n n' = true) (x : Bytes) :
    eqIgnoreCase n x = eqIgnoreCase n' x := by
  rw [eqIgnoreCase_iff] at h; simp [eqIgnoreCase, h]

theorem eqIgnoreCase_trans {a b c : Bytes} (h1 : eqIgnoreCase a b = true) (h2 : eqIgnoreCase b c = true) :
    eqIgnoreCase a c = true := by
  rw [eqIgnoreCase_iff] at *; exact h1.trans h2

/-- comparison against an all-lower-case constant -/
theorem eqIgnoreCase_lower {b : Bytes} (hb : b.map toLower = b) (a : Bytes) :
    eqIgnoreCase a b = (a.map toLower == b) := by
  simp [eqIgnoreCase, hb]

theorem toLower_idem (b : UInt8) : toLower (toLower b) = toLower b := by
  unfold toLower
  by_cases h : 0x41 ≤ b ∧ b ≤ 0x5a
  · rw [if_pos h]
    have : ¬ (0x41 ≤ b + 0x20 ∧ b + 0x20 ≤ 0x5a) := by
      obtain ⟨h1, h2⟩ := h
      rw [UInt8.le_iff_toNat_le] at h1 h2
      simp only [UInt8.le_iff_toNat_le, UInt8.toNat_add]
      simp at *
      omega
    rw [if_neg this]
  · rw [if_neg h, if_neg h]

theorem eqIgnoreCase_map_toLower_left (a b : Bytes) : eqIgnoreCase (a.map toLower) b = eqIgnoreCase a b := by
  simp [eqIgnoreCase, Function.comp_def, toLower_idem]

-- distinctness of the three special names
theorem te_ne_cl : eqIgnoreCase TE_NAME CL_NAME = false := by decide +kernel
theorem conn_ne_cl : eqIgnoreCase CONN_NAME CL_NAME = false := by decide +kernel
theorem conn_ne_te : eqIgnoreCase CONN_NAME TE_NAME = false := by decide +kernel
theorem te_ne_conn : eqIgnoreCase TE_NAME CONN_NAME = false := by decide +kernel

theorem model_names : Headers.CONTENT_LENGTH = CL_NAME ∧ Headers.TRANSFER_ENCODING = TE_NAME ∧
    Headers.CONNECTION = CONN_NAME := ⟨rfl, rfl, rfl⟩

/-- two names that are equal ignoring case cannot be two *different* special names -/
theorem not_both {n a b : Bytes} (hab : eqIgnoreCase a b = false) (ha : eqIgnoreCase n a = true) :
    eqIgnoreCase n b = false := by
  cases hb : eqIgnoreCase n b with
  | false => rfl
  | true =>
    have : eqIgnoreCase a b = true := eqIgnoreCase_trans (by rw [eqIgnoreCase_comm]; exact ha) hb
    simp [this] at hab

-- ------------------------------------------------------------------ flags

theorem evalFlagBy_append (ws : UInt8 → Bool) (name tok : Bytes) (fs : List Field) (f : Field) :
    evalFlagBy ws name tok (fs ++ [f]) =
      (evalFlagBy ws name tok fs || (eqIgnoreCase f.1 name && hasTokenBy ws tok f.2)) := by
  simp [evalFlagBy, List.any_append]

theorem evalFlagBy_filter_other (ws : UInt8 → Bool) (name tok n : Bytes) (fs : List Field)
    (h : eqIgnoreCase n name = false) :
    evalFlagBy ws name tok (fs.filter fun f => !eqIgnoreCase f.1 n) = evalFlagBy ws name tok fs := by
  induction fs with
  | nil => rfl
  | cons f fs ih =>
    simp only [evalFlagBy] at ih ⊢
    cases hn : eqIgnoreCase f.1 n with
    | false => simp [hn, ih]
    | true =>
      have : eqIgnoreCase f.1 name = false := by
        rw [← eqIgnoreCase_congr_left hn name] at h; exact h
      simp [hn, ih, this]

theorem evalFlagBy_filter_same (ws : UInt8 → Bool) (name tok n : Bytes) (fs : List Field)
    (h : eqIgnoreCase n name = true) :
    evalFlagBy ws name tok (fs.filter fun f => !eqIgnoreCase f.1 n) = false := by
  induction fs with
  | nil => rfl
  | cons f fs ih =>
    simp only [evalFlagBy] at ih ⊢
    cases hn : eqIgnoreCase f.1 n with
    | true => simp [hn, ih]
    | false =>
      have : eqIgnoreCase f.1 name = false := by
        rw [← eqIgnoreCase_congr_right h]; exact hn
      simp [hn, ih, this]

theorem eqIgnoreCase_nil_chunked : eqIgnoreCase [] CHUNKED = false := by decide +kernel

theorem teScan_fold (l : List Bytes) (a b : Bool) :
    l.foldl (fun (acc : Bool × Bool) t =>
        if t.isEmpty then acc
        else
          let c := eqIgnoreCase t (str "chunked")
          (acc.1 || c, c)) (a, b)
      = (a || l.any (fun t => eqIgnoreCase t CHUNKED),
         match (l.filter (· != [])).getLast? with
         | none => b
         | some t => eqIgnoreCase t CHUNKED) := by
  induction l generalizing a b with
  | nil => simp
  | cons t l ih =>
    rw [List.foldl_cons]
    by_cases ht : t = []
    · subst ht
      simp only [List.isEmpty_nil, if_true]
      rw [ih]
      simp [eqIgnoreCase_nil_chunked]
    · have h1 : t.isEmpty = false := by cases t <;> simp_all
      simp only [h1, Bool.false_eq_true, if_false]
      rw [ih]
      have h2 : (t != []) = true := by simp [ht]
      simp only [List.any_cons, List.filter_cons, h2, if_true, List.getLast?_cons, CHUNKED, Bool.or_assoc]
      cases (List.filter (· != []) l).getLast? <;> simp

-- ------------------------------------------------------------------ one-step effects

theorem filter_name_filter_other (name n : Bytes) (fs : List Field) (h : eqIgnoreCase n name = false) :
    ((fs.filter fun f => !eqIgnoreCase f.1 n).filter fun f => eqIgnoreCase f.1 name)
      = fs.filter fun f => eqIgnoreCase f.1 name := by
  induction fs with
  | nil => rfl
  | cons f fs ih =>
    cases hn : eqIgnoreCase f.1 n with
    | false => simp [List.filter_cons, hn, ih]
    | true =>
      have : eqIgnoreCase f.1 name = false := by
        rw [← eqIgnoreCase_congr_left hn name] at h; exact h
      simp [List.filter_cons, hn, ih, this]

theorem filter_name_filter_same (name n : Bytes) (fs : List Field) (h : eqIgnoreCase n name = true) :
    ((fs.filter fun f => !eqIgnoreCase f.1 n).filter fun f => eqIgnoreCase f.1 name) = [] := by
  induction fs with
  | nil => rfl
  | cons f fs ih =>
    cases hn : eqIgnoreCase f.1 n with
    | true => simp [List.filter_cons, hn, ih]
    | false =>
      have : eqIgnoreCase f.1 name = false := by
        rw [← eqIgnoreCase_congr_right h]; exact hn
      simp [List.filter_cons, hn, ih, this]

theorem evalTeFinal_append_other (ws : UInt8 → Bool) (fs : List Field) (f : Field)
    (h : eqIgnoreCase f.1 TE_NAME = false) :
    evalTeFinalNotChunkedBy ws (fs ++ [f]) = evalTeFinalNotChunkedBy ws fs := by
  unfold evalTeFinalNotChunkedBy
  have : [f].filter (fun f => eqIgnoreCase f.1 TE_NAME) = [] := by simp [h]
  rw [List.filter_append, this, List.append_nil]

theorem evalTeFinal_append_te (ws : UInt8 → Bool) (fs : List Field) (f : Field)
    (h : eqIgnoreCase f.1 TE_NAME = true) :
    evalTeFinalNotChunkedBy ws (fs ++ [f]) =
      match ((elemsBy ws f.2).filter (· != [])).getLast? with
      | none => true
      | some t => !eqIgnoreCase t CHUNKED := by
  unfold evalTeFinalNotChunkedBy
  have : [f].filter (fun f => eqIgnoreCase f.1 TE_NAME) = [f] := by simp [h]
  rw [List.filter_append, this, List.getLast?_concat]
  rfl


theorem evalTeFinal_filter_other (ws : UInt8 → Bool) (fs : List Field) (n : Bytes)
    (h : eqIgnoreCase n TE_NAME = false) :
    evalTeFinalNotChunkedBy ws (fs.filter fun f => !eqIgnoreCase f.1 n) = evalTeFinalNotChunkedBy ws fs := by
  simp only [evalTeFinalNotChunkedBy, filter_name_filter_other _ _ _ h]

theorem evalTeFinal_filter_same (ws : UInt8 → Bool) (fs : List Field) (n : Bytes)
    (h : eqIgnoreCase n TE_NAME = true) :
    evalTeFinalNotChunkedBy ws (fs.filter fun f => !eqIgnoreCase f.1 n) = false := by
  simp only [evalTeFinalNotChunkedBy, filter_name_filter_same _ _ _ h]; rfl

/-- agreement of the incrementally maintained answers with a fresh evaluation of the stored fields -/
structure FlagsOk (h : Headers) : Prop where
  chunked : h.chunked = evalChunkedA h.fields
  close : h.close = evalCloseA h.fields
  teFinal : h.teFinalNotChunked = evalTeFinalNotChunkedA h.fields
  noCl : ∀ f ∈ h.fields, eqIgnoreCase f.1 CL_NAME = false

theorem teScan_eq (v : Bytes) :
    Headers.teScan v = (hasTokenBy isAsciiWs CHUNKED v,
      match ((elemsBy isAsciiWs v).filter (· != [])).getLast? with
      | none => false
      | some t => eqIgnoreCase t CHUNKED) := by
  unfold Headers.teScan
  rw [teScan_fold]
  rfl

theorem evalChunkedA_append (fs : List Field) (n v : Bytes) :
    evalChunkedA (fs ++ [(n, v)]) = (evalChunkedA fs || (eqIgnoreCase n TE_NAME && hasTokenBy isAsciiWs CHUNKED v)) :=
  evalFlagBy_append _ _ _ _ _

theorem evalCloseA_append (fs : List Field) (n v : Bytes) :
    evalCloseA (fs ++ [(n, v)]) = (evalCloseA fs || (eqIgnoreCase n CONN_NAME && hasTokenBy isAsciiWs CLOSE v)) :=
  evalFlagBy_append _ _ _ _ _

theorem FlagsOk.add {h : Headers} (ok : FlagsOk h) (n v : Bytes) : FlagsOk (h.add n v) := by
  unfold Headers.add
  by_cases hcl : eqIgnoreCase n Headers.CONTENT_LENGTH = true
  · rw [if_pos hcl]; exact ⟨ok.chunked, ok.close, ok.teFinal, ok.noCl⟩
  · rw [if_neg hcl]
    have hcl' : eqIgnoreCase n CL_NAME = false := by simpa [Headers.CONTENT_LENGTH, CL_NAME] using hcl
    have hno : ∀ f ∈ h.fields ++ [(n, v)], eqIgnoreCase f.1 CL_NAME = false := by
      intro f hf
      rcases List.mem_append.mp hf with hf | hf
      · exact ok.noCl f hf
      · simp at hf; subst hf; exact hcl'
    by_cases hte : eqIgnoreCase n Headers.TRANSFER_ENCODING = true
    · have hte' : eqIgnoreCase n TE_NAME = true := hte
      have hconn : eqIgnoreCase n CONN_NAME = false := not_both te_ne_conn hte'
      rw [if_pos hte, teScan_eq]
      refine ⟨?_, ?_, ?_, hno⟩
      · dsimp only
        rw [evalChunkedA_append, hte', ok.chunked, Bool.true_and]
      · dsimp only
        rw [evalCloseA_append, hconn, ok.close, Bool.false_and, Bool.or_false]
      · dsimp only [evalTeFinalNotChunkedA]
        rw [evalTeFinal_append_te _ _ _ hte']
        dsimp only
        cases ((elemsBy isAsciiWs v).filter (· != [])).getLast? <;> rfl
    · rw [if_neg hte]
      have hte' : eqIgnoreCase n TE_NAME = false := by simpa [Headers.TRANSFER_ENCODING, TE_NAME] using hte
      by_cases hconn : eqIgnoreCase n Headers.CONNECTION = true
      · have hconn' : eqIgnoreCase n CONN_NAME = true := hconn
        rw [if_pos hconn]
        refine ⟨?_, ?_, ?_, hno⟩
        · dsimp only
          rw [evalChunkedA_append, hte', ok.chunked, Bool.false_and, Bool.or_false]
        · dsimp only
          rw [evalCloseA_append, hconn', ok.close, Bool.true_and]
          rfl
        · dsimp only [evalTeFinalNotChunkedA]
          rw [evalTeFinal_append_other _ _ _ hte']; exact ok.teFinal
      · rw [if_neg hconn]
        have hconn' : eqIgnoreCase n CONN_NAME = false := by simpa [Headers.CONNECTION, CONN_NAME] using hconn
        refine ⟨?_, ?_, ?_, hno⟩
        · dsimp only
          rw [evalChunkedA_append, hte', ok.chunked, Bool.false_and, Bool.or_false]
        · dsimp only
          rw [evalCloseA_append, hconn', ok.close, Bool.false_and, Bool.or_false]
        · dsimp only [evalTeFinalNotChunkedA]
          rw [evalTeFinal_append_other _ _ _ hte']; exact ok.teFinal

theorem mem_filter_noCl {fs : List Field} {n : Bytes} (h : ∀ f ∈ fs, eqIgnoreCase f.1 CL_NAME = false) :
    ∀ f ∈ fs.filter (fun f => !eqIgnoreCase f.1 n), eqIgnoreCase f.1 CL_NAME = false :=
  fun f hf => h f (List.mem_filter.mp hf).1

theorem FlagsOk.remove {h : Headers} (ok : FlagsOk h) (n : Bytes) : FlagsOk (h.remove n) := by
  unfold Headers.remove
  by_cases hcl : eqIgnoreCase n Headers.CONTENT_LENGTH = true
  · have hcl' : eqIgnoreCase n CL_NAME = true := hcl
    have hte : eqIgnoreCase n TE_NAME = false := not_both (by decide +kernel) hcl'
    have hconn : eqIgnoreCase n CONN_NAME = false := not_both (by decide +kernel) hcl'
    rw [if_pos hcl]
    refine ⟨?_, ?_, ?_, mem_filter_noCl ok.noCl⟩
    · dsimp only [evalChunkedA, evalChunkedBy]
      rw [evalFlagBy_filter_other _ _ _ _ _ hte]; exact ok.chunked
    · dsimp only [evalCloseA, evalCloseBy]
      rw [evalFlagBy_filter_other _ _ _ _ _ hconn]; exact ok.close
    · dsimp only [evalTeFinalNotChunkedA]
      rw [evalTeFinal_filter_other _ _ _ hte]; exact ok.teFinal
  · rw [if_neg hcl]
    by_cases hte : eqIgnoreCase n Headers.TRANSFER_ENCODING = true
    · have hte' : eqIgnoreCase n TE_NAME = true := hte
      have hconn : eqIgnoreCase n CONN_NAME = false := not_both te_ne_conn hte'
      rw [if_pos hte]
      refine ⟨?_, ?_, ?_, mem_filter_noCl ok.noCl⟩
      · dsimp only [evalChunkedA, evalChunkedBy]
        rw [evalFlagBy_filter_same _ _ _ _ _ hte']
      · dsimp only [evalCloseA, evalCloseBy]
        rw [evalFlagBy_filter_other _ _ _ _ _ hconn]; exact ok.close
      · dsimp only [evalTeFinalNotChunkedA]
        rw [evalTeFinal_filter_same _ _ _ hte']
    · rw [if_neg hte]
      have hte' : eqIgnoreCase n TE_NAME = false := by simpa [Headers.TRANSFER_ENCODING, TE_NAME] using hte
      by_cases hconn : eqIgnoreCase n Headers.CONNECTION = true
      · have hconn' : eqIgnoreCase n CONN_NAME = true := hconn
        rw [if_pos hconn]
        refine ⟨?_, ?_, ?_, mem_filter_noCl ok.noCl⟩
        · dsimp only [evalChunkedA, evalChunkedBy]
          rw [evalFlagBy_filter_other _ _ _ _ _ hte']; exact ok.chunked
        · dsimp only [evalCloseA, evalCloseBy]
          rw [evalFlagBy_filter_same _ _ _ _ _ hconn']
        · dsimp only [evalTeFinalNotChunkedA]
          rw [evalTeFinal_filter_other _ _ _ hte']; exact ok.teFinal
      · rw [if_neg hconn]
        have hconn' : eqIgnoreCase n CONN_NAME = false := by simpa [Headers.CONNECTION, CONN_NAME] using hconn
        refine ⟨?_, ?_, ?_, mem_filter_noCl ok.noCl⟩
        · dsimp only [evalChunkedA, evalChunkedBy]
          rw [evalFlagBy_filter_other _ _ _ _ _ hte']; exact ok.chunked
        · dsimp only [evalCloseA, evalCloseBy]
          rw [evalFlagBy_filter_other _ _ _ _ _ hconn']; exact ok.close
        · dsimp only [evalTeFinalNotChunkedA]
          rw [evalTeFinal_filter_other _ _ _ hte']; exact ok.teFinal

theorem FlagsOk.replace {h : Headers} (ok : FlagsOk h) (n v : Bytes) : FlagsOk (h.replace n v) :=
  (ok.remove n).add n v

theorem FlagsOk.setContentLength {h : Headers} (ok : FlagsOk h) (x : Option Nat) : FlagsOk (h.setContentLength x) :=
  ⟨ok.chunked, ok.close, ok.teFinal, ok.noCl⟩

theorem hasToken_chunked_chunked : hasTokenBy isAsciiWs CHUNKED CHUNKED = true := by decide +kernel
theorem hasToken_close_close : hasTokenBy isAsciiWs CLOSE CLOSE = true := by decide +kernel
theorem teFinal_chunked :
    (match ((elemsBy isAsciiWs CHUNKED).filter (· != [])).getLast? with
      | none => true
      | some t => !eqIgnoreCase t CHUNKED) = false := by decide +kernel

theorem FlagsOk.setTransferEncodingChunked {h : Headers} (ok : FlagsOk h) :
    FlagsOk h.setTransferEncodingChunked := by
  unfold Headers.setTransferEncodingChunked
  refine ⟨?_, ?_, ?_, ?_⟩
  · dsimp only
    rw [show Headers.TRANSFER_ENCODING = TE_NAME from rfl, show str "chunked" = CHUNKED from rfl,
      evalChunkedA_append, eqIgnoreCase_refl, hasToken_chunked_chunked]; simp
  · dsimp only
    rw [show Headers.TRANSFER_ENCODING = TE_NAME from rfl, evalCloseA_append, te_ne_conn, ok.close]; simp
  · dsimp only [evalTeFinalNotChunkedA]
    rw [show Headers.TRANSFER_ENCODING = TE_NAME from rfl, show str "chunked" = CHUNKED from rfl,
      evalTeFinal_append_te _ _ _ (eqIgnoreCase_refl _)]
    exact teFinal_chunked.symm
  · intro f hf
    rcases List.mem_append.mp hf with hf | hf
    · exact ok.noCl f hf
    · simp at hf; subst hf; exact te_ne_cl

theorem FlagsOk.setConnectionClose {h : Headers} (ok : FlagsOk h) : FlagsOk h.setConnectionClose := by
  unfold Headers.setConnectionClose
  refine ⟨?_, ?_, ?_, ?_⟩
  · dsimp only
    rw [show Headers.CONNECTION = CONN_NAME from rfl, evalChunkedA_append, conn_ne_te, ok.chunked]; simp
  · dsimp only
    rw [show Headers.CONNECTION = CONN_NAME from rfl, show str "close" = CLOSE from rfl,
      evalCloseA_append, eqIgnoreCase_refl, hasToken_close_close]; simp
  · dsimp only [evalTeFinalNotChunkedA]
    rw [show Headers.CONNECTION = CONN_NAME from rfl, evalTeFinal_append_other _ _ _ conn_ne_te]
    exact ok.teFinal
  · intro f hf
    rcases List.mem_append.mp hf with hf | hf
    · exact ok.noCl f hf
    · simp at hf; subst hf; exact conn_ne_cl

theorem FlagsOk.applyOp {h : Headers} (ok : FlagsOk h) (op : HdrOp) : FlagsOk (h.applyOp op) := by
  cases op with
  | add n v => exact ok.add n v
  | replace n v => exact ok.replace n v
  | remove n => exact ok.remove n
  | setCl x => exact ok.setContentLength x
  | setTeChunked => exact ok.setTransferEncodingChunked
  | setConnClose => exact ok.setConnectionClose

theorem FlagsOk.run {h : Headers} (ok : FlagsOk h) (ops : List HdrOp) : FlagsOk (h.run ops) := by
  induction ops generalizing h with
  | nil => exact ok
  | cons op ops ih => exact ih (ok.applyOp op)

/-- a collection on which nothing has been done yet (`Headers::new()`, `Headers::new_nodate()`) -/
def Headers.Fresh (h : Headers) : Prop :=
  h.fields = [] ∧ h.cl = none ∧ h.chunked = false ∧ h.close = false ∧ h.invalidCl = false ∧
  h.teFinalNotChunked = false

theorem fresh_new : Headers.new.Fresh := ⟨rfl, rfl, rfl, rfl, rfl, rfl⟩
theorem fresh_newNodate : Headers.newNodate.Fresh := ⟨rfl, rfl, rfl, rfl, rfl, rfl⟩

theorem FlagsOk.of_fresh {h : Headers} (fr : h.Fresh) : FlagsOk h := by
  obtain ⟨h1, _, h3, h4, _, h6⟩ := fr
  refine ⟨?_, ?_, ?_, ?_⟩
  · rw [h1, h3]; rfl
  · rw [h1, h4]; rfl
  · rw [h1, h6]; rfl
  · rw [h1]; intro f hf; cases hf

-- ------------------------------------------------------------------ stored fields

theorem isClName_eq (n : Bytes) : eqIgnoreCase n Headers.CONTENT_LENGTH = isClName n := rfl

theorem add_fields (h : Headers) (n v : Bytes) :
    (h.add n v).fields = if isClName n then h.fields else h.fields ++ [(n, v)] := by
  unfold Headers.add
  rw [isClName_eq]
  cases isClName n with
  | true => rfl
  | false =>
    simp only [Bool.false_eq_true, if_false]
    split <;> (try split) <;> rfl

theorem remove_fields (h : Headers) (n : Bytes) :
    (h.remove n).fields = h.fields.filter fun f => !eqIgnoreCase f.1 n := by
  unfold Headers.remove
  split <;> (try split) <;> (try split) <;> rfl

theorem applyOp_fields (h : Headers) (op : HdrOp) : (h.applyOp op).fields = stepFields h.fields op := by
  cases op with
  | add n v => exact add_fields h n v
  | replace n v =>
    show ((h.remove n).add n v).fields = _
    rw [add_fields, remove_fields]; rfl
  | remove n => exact remove_fields h n
  | setCl x => rfl
  | setTeChunked => rfl
  | setConnClose => rfl

theorem run_fields (h : Headers) (ops : List HdrOp) : (h.run ops).fields = ops.foldl stepFields h.fields := by
  induction ops generalizing h with
  | nil => rfl
  | cons op ops ih =>
    show ((h.applyOp op).run ops).fields = _
    rw [ih, applyOp_fields]; rfl

-- ------------------------------------------------------------------ content length

theorem parseContentLength_eq (v : Bytes) : Headers.parseContentLength v = parseClBy isAsciiWs v := by
  unfold Headers.parseContentLength parseClBy
  rw [show trimBy isAsciiWs v = trimAscii v from rfl]
  dsimp only
  generalize trimAscii v = d
  cases d with
  | nil => rfl
  | cons b d =>
    cases hd : List.all (b :: d) isDigit <;> simp [hd, decimal]

theorem add_cl (h : Headers) (n v : Bytes) :
    (h.add n v).cl = if isClName n then parseClBy isAsciiWs v else h.cl := by
  unfold Headers.add
  rw [isClName_eq, parseContentLength_eq]
  cases isClName n with
  | true => rfl
  | false =>
    simp only [Bool.false_eq_true, if_false]
    split <;> (try split) <;> rfl

theorem add_invalidCl (h : Headers) (n v : Bytes) :
    (h.add n v).invalidCl =
      if isClName n then
        (h.invalidCl || (parseClBy isAsciiWs v).isNone || (h.cl.isSome && h.cl != parseClBy isAsciiWs v))
      else h.invalidCl := by
  unfold Headers.add
  rw [isClName_eq, parseContentLength_eq]
  cases isClName n with
  | true => rfl
  | false =>
    simp only [Bool.false_eq_true, if_false]
    split <;> (try split) <;> rfl

theorem remove_cl (h : Headers) (n : Bytes) : (h.remove n).cl = if isClName n then none else h.cl := by
  unfold Headers.remove
  rw [isClName_eq]
  cases isClName n with
  | true => rfl
  | false =>
    simp only [Bool.false_eq_true, if_false]
    split <;> (try split) <;> rfl

theorem remove_invalidCl (h : Headers) (n : Bytes) :
    (h.remove n).invalidCl = if isClName n then false else h.invalidCl := by
  unfold Headers.remove
  rw [isClName_eq]
  cases isClName n with
  | true => rfl
  | false =>
    simp only [Bool.false_eq_true, if_false]
    split <;> (try split) <;> rfl

theorem applyOp_cl (h : Headers) (op : HdrOp) :
    (h.applyOp op).cl = (clEffectBy isAsciiWs op).getD h.cl := by
  cases op with
  | add n v => show (h.add n v).cl = _; rw [add_cl]; cases hc : isClName n <;> simp [clEffectBy, hc]
  | replace n v =>
    show ((h.remove n).add n v).cl = _
    rw [add_cl, remove_cl]; cases hc : isClName n <;> simp [clEffectBy, hc]
  | remove n => show (h.remove n).cl = _; rw [remove_cl]; cases hc : isClName n <;> simp [clEffectBy, hc]
  | setCl x => rfl
  | setTeChunked => rfl
  | setConnClose => rfl

theorem getLast?_filterMap_cons {α β} (f : α → Option β) (a : α) (l : List α) (d : β) :
    (((a :: l).filterMap f).getLast?).getD d = ((l.filterMap f).getLast?).getD ((f a).getD d) := by
  cases hf : f a with
  | none => simp [List.filterMap_cons, hf]
  | some b =>
    simp only [List.filterMap_cons, hf, List.getLast?_cons, Option.getD_some]

theorem run_cl (h : Headers) (ops : List HdrOp) :
    (h.run ops).cl = ((ops.filterMap (clEffectBy isAsciiWs)).getLast?).getD h.cl := by
  induction ops generalizing h with
  | nil => rfl
  | cons op ops ih =>
    show ((h.applyOp op).run ops).cl = _
    rw [ih, applyOp_cl, getLast?_filterMap_cons]

/-- the number and the flag kept by the code agree with the declarations in force -/
structure ClOk (h : Headers) (ds : List (Option Nat)) : Prop where
  cl : h.cl = ds.head?.join
  invalid : h.invalidCl = declsBad ds

theorem declsBad_cons (p : Option Nat) (ds : List (Option Nat)) :
    (declsBad ds || p.isNone || (ds.head?.join.isSome && ds.head?.join != p)) = declsBad (p :: ds) := by
  cases ds with
  | nil => simp [declsBad]
  | cons q older =>
    cases p with
    | none => simp [declsBad]
    | some m =>
      cases q with
      | none => simp [declsBad]
      | some k =>
        by_cases hkm : k = m
        · subst hkm; simp [declsBad]
        · have : (some k != some m) = true := by simp [hkm]
          simp only [declsBad, List.head?_cons, Option.join_some, Option.isSome_some, Option.isNone_some,
            Bool.or_false, Bool.true_and, this, Bool.or_true, List.any_cons, Bool.true_or]

theorem ClOk.applyOp {h : Headers} {ds : List (Option Nat)} (ok : ClOk h ds) (op : HdrOp) :
    ClOk (h.applyOp op) (stepClDecls isAsciiWs ds op) := by
  cases op with
  | add n v =>
    show ClOk (h.add n v) _
    refine ⟨?_, ?_⟩
    · rw [add_cl]; cases hc : isClName n <;> simp [stepClDecls, hc, ok.cl]
    · rw [add_invalidCl]; cases hc : isClName n
      · simp [stepClDecls, hc, ok.invalid]
      · simp only [stepClDecls, hc, if_true]; rw [ok.cl, ok.invalid, declsBad_cons]
  | replace n v =>
    show ClOk ((h.remove n).add n v) _
    refine ⟨?_, ?_⟩
    · rw [add_cl, remove_cl]; cases hc : isClName n <;> simp [stepClDecls, hc, ok.cl]
    · rw [add_invalidCl, remove_cl, remove_invalidCl]
      cases hc : isClName n <;> simp [stepClDecls, hc, ok.invalid, declsBad]
  | remove n =>
    show ClOk (h.remove n) _
    refine ⟨?_, ?_⟩
    · rw [remove_cl]; cases hc : isClName n <;> simp [stepClDecls, hc, ok.cl]
    · rw [remove_invalidCl]; cases hc : isClName n <;> simp [stepClDecls, hc, ok.invalid, declsBad]
  | setCl x => cases x <;> exact ⟨rfl, rfl⟩
  | setTeChunked => exact ⟨ok.cl, ok.invalid⟩
  | setConnClose => exact ⟨ok.cl, ok.invalid⟩

theorem ClOk.run {h : Headers} {ds : List (Option Nat)} (ok : ClOk h ds) (ops : List HdrOp) :
    ClOk (h.run ops) (ops.foldl (stepClDecls isAsciiWs) ds) := by
  induction ops generalizing h ds with
  | nil => exact ok
  | cons op ops ih => exact ih (ok.applyOp op)

theorem ClOk.of_fresh {h : Headers} (fr : h.Fresh) : ClOk h [] := by
  obtain ⟨_, h2, _, _, h5, _⟩ := fr
  exact ⟨by rw [h2]; rfl, by rw [h5]; rfl⟩

/-- `declsBad` says exactly: the declarations in force are not all one and the same number -/
theorem declsBad_eq_false_iff (ds : List (Option Nat)) :
    declsBad ds = false ↔ ds = [] ∨ ∃ k, ∀ d ∈ ds, d = some k := by
  cases ds with
  | nil => simp [declsBad]
  | cons p older =>
    cases p with
    | none =>
      simp only [declsBad, Option.isNone_none, Bool.true_or, Bool.true_eq_false, reduceCtorEq, false_or, false_iff,
        not_exists]
      intro k hk
      have := hk none (List.mem_cons_self)
      cases this
    | some m =>
      simp only [declsBad, Option.isNone_some, Bool.false_or, reduceCtorEq, false_or]
      constructor
      · intro hh
        refine ⟨m, ?_⟩
        intro d hd
        rcases List.mem_cons.mp hd with hd | hd
        · exact hd
        · have := (List.any_eq_false.mp hh) d hd
          simpa using this
      · rintro ⟨k, hk⟩
        have hm : some m = some k := hk _ List.mem_cons_self
        rw [List.any_eq_false]
        intro d hd
        have := hk d (List.mem_cons_of_mem _ hd)
        simp [this, hm]

-- ------------------------------------------------------------------ lookups

theorem get_eq_lookupLast (h : Headers) (name : Bytes) : h.get name = lookupLast h.fields name := by
  unfold Headers.get lookupLast lookupAll
  rw [List.getLast?_eq_head?_reverse, ← List.filter_reverse, List.head?_filter]

theorem getAll_eq_lookupAll (h : Headers) (name : Bytes) : h.getAll name = lookupAll h.fields name := rfl

theorem lookupAll_congr {n n' : Bytes} (hn : eqIgnoreCase n n' = true) (fs : List Field) :
    lookupAll fs n = lookupAll fs n' := by
  unfold lookupAll
  congr 1
  funext f
  exact eqIgnoreCase_congr_right hn f.1

theorem lookupLast_congr {n n' : Bytes} (hn : eqIgnoreCase n n' = true) (fs : List Field) :
    lookupLast fs n = lookupLast fs n' := by
  unfold lookupLast; rw [lookupAll_congr hn]

-- ------------------------------------------------------------------ OWS versus ASCII whitespace

theorem dropWhile_congr {α} {p q : α → Bool} {l : List α} (h : ∀ b ∈ l, p b = q b) :
    l.dropWhile p = l.dropWhile q := by
  induction l with
  | nil => rfl
  | cons a l ih =>
    have ha : p a = q a := h a List.mem_cons_self
    have ih' := ih (fun b hb => h b (List.mem_cons_of_mem _ hb))
    simp only [List.dropWhile_cons, ha, ih']

theorem mem_of_mem_dropWhile {α} {p : α → Bool} {l : List α} {b : α} (h : b ∈ l.dropWhile p) : b ∈ l :=
  (List.dropWhile_sublist p).subset h

theorem trimBy_congr {p q : UInt8 → Bool} {l : Bytes} (h : ∀ b ∈ l, p b = q b) : trimBy p l = trimBy q l := by
  unfold trimBy
  rw [dropWhile_congr h]
  rw [dropWhile_congr (p := p) (q := q)]
  intro b hb
  exact h b (mem_of_mem_dropWhile (List.mem_reverse.mp hb))

theorem mem_trimBy {ws : UInt8 → Bool} {l : Bytes} {b : UInt8} (h : b ∈ trimBy ws l) : b ∈ l := by
  unfold trimBy at h
  exact mem_of_mem_dropWhile (List.mem_reverse.mp (mem_of_mem_dropWhile (List.mem_reverse.mp h)))

theorem splitOn_ne_nil (c : UInt8) (v : Bytes) : splitOn c v ≠ [] := by
  induction v with
  | nil => simp [splitOn]
  | cons a v ih =>
    unfold splitOn
    split
    · simp
    · split
      · simp
      · simp

theorem mem_splitOn {c : UInt8} {v e : Bytes} {b : UInt8} (he : e ∈ splitOn c v) (hb : b ∈ e) : b ∈ v := by
  induction v generalizing e with
  | nil => simp [splitOn] at he; subst he; cases hb
  | cons a v ih =>
    unfold splitOn at he
    split at he
    · rcases List.mem_cons.mp he with he | he
      · subst he; cases hb
      · exact List.mem_cons_of_mem _ (ih he hb)
    · split at he
      · simp at he; subst he; simp at hb; subst hb; exact List.mem_cons_self
      · rename_i hd tl heq
        rcases List.mem_cons.mp he with he | he
        · subst he
          rcases List.mem_cons.mp hb with hb | hb
          · subst hb; exact List.mem_cons_self
          · exact List.mem_cons_of_mem _ (ih (by rw [heq]; exact List.mem_cons_self) hb)
        · exact List.mem_cons_of_mem _ (ih (by rw [heq]; exact List.mem_cons_of_mem _ he) hb)

def PlainVal (v : Bytes) : Prop := ∀ b ∈ v, isPlainByte b = true

theorem ows_eq_asciiWs {b : UInt8} (h : isPlainByte b = true) : isOws b = isAsciiWs b := by
  simp only [isPlainByte, Bool.not_eq_true', Bool.or_eq_false_iff, beq_eq_false_iff_ne, ne_eq] at h
  obtain ⟨⟨h1, h2⟩, h3⟩ := h
  simp only [isOws, isAsciiWs, SP, HT]
  have e1 : (b == 10) = false := by simpa using h1
  have e2 : (b == 12) = false := by simpa using h2
  have e3 : (b == 13) = false := by simpa using h3
  rw [e1, e2, e3]
  simp [Bool.or_comm]

theorem trimBy_plain {e : Bytes} (h : PlainVal e) : trimBy isOws e = trimBy isAsciiWs e :=
  trimBy_congr fun b hb => ows_eq_asciiWs (h b hb)

theorem elemsBy_plain {v : Bytes} (h : PlainVal v) : elemsBy isOws v = elemsBy isAsciiWs v := by
  unfold elemsBy
  apply List.map_congr_left
  intro e he
  exact trimBy_plain fun b hb => h b (mem_splitOn he hb)

theorem hasTokenBy_plain {v : Bytes} (h : PlainVal v) (tok : Bytes) :
    hasTokenBy isOws tok v = hasTokenBy isAsciiWs tok v := by
  unfold hasTokenBy; rw [elemsBy_plain h]

theorem parseClBy_plain {v : Bytes} (h : PlainVal v) : parseClBy isOws v = parseClBy isAsciiWs v := by
  unfold parseClBy; rw [trimBy_plain h]

def PlainFields (fs : List Field) : Prop := ∀ f ∈ fs, PlainVal f.2

theorem evalFlagBy_plain {fs : List Field} (h : PlainFields fs) (name tok : Bytes) :
    evalFlagBy isOws name tok fs = evalFlagBy isAsciiWs name tok fs := by
  induction fs with
  | nil => rfl
  | cons f fs ih =>
    have hf := h f List.mem_cons_self
    have ih' := ih fun g hg => h g (List.mem_cons_of_mem _ hg)
    simp only [evalFlagBy, List.any_cons] at ih' ⊢
    rw [ih', hasTokenBy_plain hf]

theorem evalTeFinal_plain {fs : List Field} (h : PlainFields fs) :
    evalTeFinalNotChunkedBy isOws fs = evalTeFinalNotChunkedBy isAsciiWs fs := by
  unfold evalTeFinalNotChunkedBy
  cases hl : (fs.filter fun f => eqIgnoreCase f.1 TE_NAME).getLast? with
  | none => rfl
  | some f =>
    have hf : f ∈ fs := (List.mem_filter.mp (List.mem_of_getLast? hl)).1
    simp only [elemsBy_plain (h f hf)]

theorem listByte_plain {b : UInt8} (h : isListByte b = true) : isPlainByte b = true := by
  cases hp : isPlainByte b with
  | true => rfl
  | false =>
    simp only [isPlainByte, Bool.not_eq_false', Bool.or_eq_true, beq_iff_eq] at hp
    rcases hp with (hp | hp) | hp <;> subst hp <;> revert h <;> decide

theorem OpsListValued.plain {ops : List HdrOp} (h : OpsListValued ops) : OpsPlain ops :=
  fun op hop b hb => listByte_plain (h op hop b hb)

theorem stepFields_plain {fs : List Field} (hfs : PlainFields fs) {op : HdrOp}
    (hop : ∀ b ∈ opValue op, isPlainByte b = true) : PlainFields (stepFields fs op) := by
  have happ : ∀ f : Field, PlainVal f.2 → PlainFields (fs ++ [f]) := by
    intro f hf g hg
    rcases List.mem_append.mp hg with hg | hg
    · exact hfs g hg
    · simp at hg; subst hg; exact hf
  have hfil : ∀ n : Bytes, PlainFields (fs.filter fun f => !eqIgnoreCase f.1 n) :=
    fun n g hg => hfs g (List.mem_filter.mp hg).1
  have happ' : ∀ (n : Bytes) (f : Field), PlainVal f.2 →
      PlainFields ((fs.filter fun f => !eqIgnoreCase f.1 n) ++ [f]) := by
    intro n f hf g hg
    rcases List.mem_append.mp hg with hg | hg
    · exact hfil n g hg
    · simp at hg; subst hg; exact hf
  cases op with
  | add n v =>
    simp only [stepFields]; split
    · exact hfs
    · exact happ (n, v) hop
  | replace n v =>
    simp only [stepFields]; split
    · exact hfil n
    · exact happ' n (n, v) hop
  | remove n => exact hfil n
  | setCl x => exact hfs
  | setTeChunked => exact happ (TE_NAME, CHUNKED) (by unfold PlainVal; decide +kernel)
  | setConnClose => exact happ (CONN_NAME, CLOSE) (by unfold PlainVal; decide +kernel)

theorem foldl_stepFields_plain {ops : List HdrOp} (h : OpsPlain ops) {fs : List Field} (hfs : PlainFields fs) :
    PlainFields (ops.foldl stepFields fs) := by
  induction ops generalizing fs with
  | nil => exact hfs
  | cons op ops ih =>
    exact ih (fun o ho => h o (List.mem_cons_of_mem _ ho)) (stepFields_plain hfs (h op List.mem_cons_self))

theorem evalFields_plain {ops : List HdrOp} (h : OpsPlain ops) : PlainFields (evalFields ops) :=
  foldl_stepFields_plain h (fun _ hf => by cases hf)

theorem clEffectBy_plain {op : HdrOp} (hop : ∀ b ∈ opValue op, isPlainByte b = true) :
    clEffectBy isOws op = clEffectBy isAsciiWs op := by
  cases op with
  | add n v => simp only [clEffectBy, parseClBy_plain (v := v) hop]
  | replace n v => simp only [clEffectBy, parseClBy_plain (v := v) hop]
  | _ => rfl

theorem stepClDecls_plain {op : HdrOp} (hop : ∀ b ∈ opValue op, isPlainByte b = true) (ds : List (Option Nat)) :
    stepClDecls isOws ds op = stepClDecls isAsciiWs ds op := by
  cases op with
  | add n v => simp only [stepClDecls, parseClBy_plain (v := v) hop]
  | replace n v => simp only [stepClDecls, parseClBy_plain (v := v) hop]
  | setCl x => cases x <;> rfl
  | _ => rfl

theorem evalClBy_plain {ops : List HdrOp} (h : OpsPlain ops) : evalClBy isOws ops = evalClBy isAsciiWs ops := by
  unfold evalClBy
  have : ops.filterMap (clEffectBy isOws) = ops.filterMap (clEffectBy isAsciiWs) := by
    induction ops with
    | nil => rfl
    | cons op ops ih =>
      simp only [List.filterMap_cons]
      rw [clEffectBy_plain (h op List.mem_cons_self), ih (fun o ho => h o (List.mem_cons_of_mem _ ho))]
  rw [this]

theorem foldl_stepClDecls_plain {ops : List HdrOp} (h : OpsPlain ops) (ds : List (Option Nat)) :
    ops.foldl (stepClDecls isOws) ds = ops.foldl (stepClDecls isAsciiWs) ds := by
  induction ops generalizing ds with
  | nil => rfl
  | cons op ops ih =>
    simp only [List.foldl_cons]
    rw [stepClDecls_plain (h op List.mem_cons_self), ih (fun o ho => h o (List.mem_cons_of_mem _ ho))]

theorem evalInvalidClBy_plain {ops : List HdrOp} (h : OpsPlain ops) :
    evalInvalidClBy isOws ops = evalInvalidClBy isAsciiWs ops := by
  unfold evalInvalidClBy clDeclsBy; rw [foldl_stepClDecls_plain h]

-- ------------------------------------------------------------------ splitting and joining at commas

theorem splitOn_no_sep {c : UInt8} {e : Bytes} (h : c ∉ e) : splitOn c e = [e] := by
  induction e with
  | nil => rfl
  | cons a e ih =>
    have ha : (a == c) = false := by
      simp only [beq_eq_false_iff_ne, ne_eq]; intro hh; exact h (hh ▸ List.mem_cons_self)
    have ih' := ih (fun hh => h (List.mem_cons_of_mem _ hh))
    simp [splitOn, ha, ih']

theorem splitOn_append_sep {c : UInt8} {e : Bytes} (w : Bytes) (h : c ∉ e) :
    splitOn c (e ++ c :: w) = e :: splitOn c w := by
  induction e with
  | nil => simp [splitOn]
  | cons a e ih =>
    have ha : (a == c) = false := by
      simp only [beq_eq_false_iff_ne, ne_eq]; intro hh; exact h (hh ▸ List.mem_cons_self)
    have ih' := ih (fun hh => h (List.mem_cons_of_mem _ hh))
    simp [splitOn, ha, ih']

theorem splitOn_joinComma {es : List Bytes} (hne : es ≠ []) (h : ∀ e ∈ es, COMMA ∉ e) :
    splitOn COMMA (joinComma es) = es := by
  induction es with
  | nil => exact absurd rfl hne
  | cons e rest ih =>
    cases rest with
    | nil => exact splitOn_no_sep (h e List.mem_cons_self)
    | cons e' rest =>
      simp only [joinComma]
      rw [splitOn_append_sep _ (h e List.mem_cons_self),
        ih (by simp) (fun x hx => h x (List.mem_cons_of_mem _ hx))]

theorem splitOn_elem_no_sep {c : UInt8} {v e : Bytes} (he : e ∈ splitOn c v) : c ∉ e := by
  induction v generalizing e with
  | nil => simp [splitOn] at he; subst he; simp
  | cons a v ih =>
    unfold splitOn at he
    split at he
    · rcases List.mem_cons.mp he with he | he
      · subst he; simp
      · exact ih he
    · rename_i hac
      have hac' : c ≠ a := by intro hh; exact hac (by simp [hh])
      split at he
      · simp at he; subst he; simp [hac']
      · rename_i hd tl heq
        rcases List.mem_cons.mp he with he | he
        · subst he
          have : c ∉ hd := ih (by rw [heq]; exact List.mem_cons_self)
          simp [hac', this]
        · exact ih (by rw [heq]; exact List.mem_cons_of_mem _ he)

theorem joinComma_splitOn (v : Bytes) : joinComma (splitOn COMMA v) = v := by
  induction v with
  | nil => rfl
  | cons a v ih =>
    unfold splitOn
    split
    · rename_i hac
      have : a = COMMA := by simpa using hac
      subst this
      cases hs : splitOn COMMA v with
      | nil => exact absurd hs (splitOn_ne_nil _ _)
      | cons x xs => rw [hs] at ih; simp [joinComma, ih]
    · cases hs : splitOn COMMA v with
      | nil => exact absurd hs (splitOn_ne_nil _ _)
      | cons x xs =>
        rw [hs] at ih
        cases xs with
        | nil => simpa [joinComma] using ih
        | cons y ys => simp only [joinComma] at ih ⊢; rw [← ih]; rfl

-- ------------------------------------------------------------------ padding with whitespace, letter case

theorem dropWhile_all {α} {p : α → Bool} {a : List α} (h : ∀ b ∈ a, p b = true) (x : List α) :
    (a ++ x).dropWhile p = x.dropWhile p := by
  induction a with
  | nil => rfl
  | cons b a ih =>
    simp only [List.cons_append, List.dropWhile_cons, h b List.mem_cons_self, if_true]
    exact ih fun c hc => h c (List.mem_cons_of_mem _ hc)

theorem dropWhile_eq_nil_of_all {α} {p : α → Bool} {a : List α} (h : ∀ b ∈ a, p b = true) :
    a.dropWhile p = [] := by
  have := dropWhile_all h []
  simpa using this

/-- surrounding an element with whitespace does not change what is left after trimming -/
theorem trimBy_pad (ws : UInt8 → Bool) {a c : Bytes} (e : Bytes) (ha : ∀ b ∈ a, ws b = true)
    (hc : ∀ b ∈ c, ws b = true) : trimBy ws (a ++ e ++ c) = trimBy ws e := by
  unfold trimBy
  rw [List.append_assoc, dropWhile_all ha, List.dropWhile_append]
  have hc' : ∀ b ∈ c.reverse, ws b = true := fun b hb => hc b (List.mem_reverse.mp hb)
  split
  · rename_i hemp
    have : e.dropWhile ws = [] := by simpa using hemp
    rw [this, dropWhile_eq_nil_of_all hc]
  · rw [List.reverse_append, dropWhile_all hc']

theorem isOws_toLower (b : UInt8) : isOws (toLower b) = isOws b := by
  unfold toLower
  by_cases h : 0x41 ≤ b ∧ b ≤ 0x5a
  · rw [if_pos h]
    obtain ⟨h1, h2⟩ := h
    rw [UInt8.le_iff_toNat_le] at h1 h2
    have n1 : b ≠ 0x20 := by intro hh; subst hh; simp at h1
    have n2 : b ≠ 0x09 := by intro hh; subst hh; simp at h1
    have n3 : b + 0x20 ≠ 0x20 := by
      intro hh
      have := congrArg UInt8.toNat hh
      simp only [UInt8.toNat_add] at this
      simp at this h1 h2
      omega
    have n4 : b + 0x20 ≠ 0x09 := by
      intro hh
      have := congrArg UInt8.toNat hh
      simp only [UInt8.toNat_add] at this
      simp at this h1 h2
      omega
    simp only [isOws, SP, HT]
    rw [beq_eq_false_iff_ne.mpr n1, beq_eq_false_iff_ne.mpr n2, beq_eq_false_iff_ne.mpr n3,
      beq_eq_false_iff_ne.mpr n4]
  · rw [if_neg h]

theorem dropWhile_isOws_map_toLower (l : Bytes) :
    (l.map toLower).dropWhile isOws = (l.dropWhile isOws).map toLower := by
  induction l with
  | nil => rfl
  | cons a l ih =>
    simp only [List.map_cons, List.dropWhile_cons, isOws_toLower]
    split
    · exact ih
    · rfl

theorem trimBy_isOws_map_toLower (e : Bytes) : trimBy isOws (e.map toLower) = (trimBy isOws e).map toLower := by
  unfold trimBy
  rw [dropWhile_isOws_map_toLower, ← List.map_reverse, dropWhile_isOws_map_toLower, List.map_reverse]

/-- the normal form of an element depends only on the element up to letter case -/
theorem normElem_case {e e' : Bytes} (h : e.map toLower = e'.map toLower) : normElem e = normElem e' := by
  unfold normElem
  rw [← trimBy_isOws_map_toLower, ← trimBy_isOws_map_toLower, h]

/-- the normal form of an element does not see OWS added around it -/
theorem normElem_pad {a c : Bytes} (e : Bytes) (ha : ∀ b ∈ a, isOws b = true) (hc : ∀ b ∈ c, isOws b = true) :
    normElem (a ++ e ++ c) = normElem e := by
  unfold normElem; rw [trimBy_pad isOws e ha hc]

-- ------------------------------------------------------------------ evaluation through the normal form

theorem hasTokenBy_norm {tok : Bytes} (htok : tok.map toLower = tok) (v : Bytes) :
    hasTokenBy isOws tok v = ((splitOn COMMA v).map normElem).contains tok := by
  unfold hasTokenBy elemsBy
  rw [List.contains_eq_any_beq, List.any_map, List.any_map]
  congr 1
  funext e
  simp only [Function.comp, normElem, eqIgnoreCase_lower htok]
  exact Bool.beq_comm

theorem evalFlagBy_norm {name tok : Bytes} (hname : name.map toLower = name) (htok : tok.map toLower = tok)
    (fs : List Field) : evalFlagBy isOws name tok fs = evalFlagNorm name tok (fs.map normField) := by
  unfold evalFlagBy evalFlagNorm
  rw [List.any_map]
  congr 1
  funext f
  simp only [Function.comp, normField, eqIgnoreCase_lower hname, hasTokenBy_norm htok]

theorem te_name_lower : TE_NAME.map toLower = TE_NAME := by decide +kernel
theorem conn_name_lower : CONN_NAME.map toLower = CONN_NAME := by decide +kernel
theorem chunked_lower : CHUNKED.map toLower = CHUNKED := by decide +kernel
theorem close_lower : CLOSE.map toLower = CLOSE := by decide +kernel

-- ------------------------------------------------------------------ the token accessors

/-- `get_transfer_encoding()` only trims the *start* of each element: the flag agrees with its
    result once the end is trimmed too -/
theorem any_getTransferEncoding (h : Headers) :
    (h.getTransferEncoding.any fun t => eqIgnoreCase (trimEnd t) CHUNKED) = evalChunkedA h.fields := by
  unfold Headers.getTransferEncoding Headers.getAll Headers.startTrimmedElems evalChunkedA evalChunkedBy
    evalFlagBy hasTokenBy elemsBy
  rw [List.any_flatMap, List.any_filter]
  congr 1
  funext f
  rw [List.any_map, List.any_map]
  rfl

theorem any_getConnectionValues (h : Headers) :
    (h.getConnectionValues.any fun t => eqIgnoreCase (trimEnd t) CLOSE) = evalCloseA h.fields := by
  unfold Headers.getConnectionValues Headers.getAll Headers.startTrimmedElems evalCloseA evalCloseBy
    evalFlagBy hasTokenBy elemsBy
  rw [List.any_flatMap, List.any_filter]
  congr 1
  funext f
  rw [List.any_map, List.any_map]
  rfl

end Khttp
