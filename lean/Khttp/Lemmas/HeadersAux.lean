import Khttp.Model.Parser
import Khttp.Spec.Head
/- helper lemmas for StageHeaders (namespaced to avoid clashes with other lemma files) -/
namespace Khttp.Hdr

theorem findIdx_eq_len_of_not_mem {c : UInt8} {pre : Bytes} (h : c ∉ pre) :
    pre.findIdx (· == c) = pre.length := by
  rw [List.findIdx_eq_length]
  intro x hx
  simp only [beq_eq_false_iff_ne, ne_eq]
  rintro rfl; exact h hx

theorem memchr_append {c : UInt8} {pre post : Bytes} (h : c ∉ pre) :
    memchr c (pre ++ c :: post) = some pre.length := by
  unfold memchr
  have h1 : (pre ++ c :: post).findIdx (· == c) = pre.length := by
    rw [List.findIdx_append, findIdx_eq_len_of_not_mem h]
    simp [List.findIdx_cons]
  simp [h1]

theorem memchr_none {c : UInt8} {bs : Bytes} (h : c ∉ bs) : memchr c bs = none := by
  unfold memchr
  simp [findIdx_eq_len_of_not_mem h]

theorem memchr_cases (c : UInt8) (bs : Bytes) :
    (c ∉ bs ∧ memchr c bs = none) ∨
    ∃ pre post, bs = pre ++ c :: post ∧ c ∉ pre ∧ memchr c bs = some pre.length := by
  by_cases h : c ∈ bs
  · right
    obtain ⟨pre, post, rfl, hn⟩ := List.eq_append_cons_of_mem h
    exact ⟨pre, post, rfl, hn, memchr_append hn⟩
  · left; exact ⟨h, memchr_none h⟩

theorem fieldBytes_props : ∀ b ∈ Gen.fieldValidBytes, isAscii b = true ∧ b ≠ COLON ∧ b ≠ CR ∧ b ≠ LF := by
  decide +kernel

theorem isFieldByte_props {b : UInt8} (h : isFieldByte b = true) :
    isAscii b = true ∧ b ≠ COLON ∧ b ≠ CR ∧ b ≠ LF := by
  apply fieldBytes_props
  simpa [isFieldByte] using h

theorem parseHeaderLine_ok {name v : Bytes} (h1 : name ≠ [])
    (h2 : ∀ b ∈ name, isFieldByte b = true) :
    parseHeaderLine (name ++ COLON :: v) = .ok (name, trimStart v) := by
  have hc : COLON ∉ name := fun hm => (isFieldByte_props (h2 _ hm)).2.1 rfl
  have hlen : name.length ≠ 0 := by
    intro h; exact h1 (List.length_eq_zero_iff.mp h)
  have hall : name.all isFieldByte = true := by simpa using h2
  have hasc : name.all isAscii = true := by
    simp only [List.all_eq_true]; intro b hb; exact (isFieldByte_props (h2 b hb)).1
  unfold parseHeaderLine
  rw [memchr_append hc]
  simp [hlen, hall, asciiStr, hasc, sliceFrom]

theorem parseHeaderLine_cases (line : Bytes) :
    parseHeaderLine line = .err .header ∨
    ∃ name v, line = name ++ COLON :: v ∧ name ≠ [] ∧ (∀ b ∈ name, isFieldByte b = true) ∧
      parseHeaderLine line = .ok (name, trimStart v) := by
  rcases memchr_cases COLON line with ⟨_, h⟩ | ⟨name, v, rfl, hn, h⟩
  · left; unfold parseHeaderLine; rw [h]
  · by_cases h1 : name = []
    · left; subst h1; unfold parseHeaderLine; rw [h]; simp
    · by_cases h2 : ∀ b ∈ name, isFieldByte b = true
      · right; exact ⟨name, v, rfl, h1, h2, parseHeaderLine_ok h1 h2⟩
      · left
        have hall : name.all isFieldByte = false := by
          rw [Bool.eq_false_iff]; intro h; apply h2; simpa using h
        unfold parseHeaderLine; rw [h]; simp [hall]

theorem headersLoop_lf (fuel : Nat) (h : Headers) (more : Bytes) :
    headersLoop (fuel+1) h (LF :: more) = .err .header := by
  have hm : memchr LF (LF :: more) = some 0 := memchr_append (pre := []) (by simp)
  unfold headersLoop
  rw [hm]
  simp [startsWith, CR, LF]

theorem headersLoop_line (fuel : Nat) (h : Headers) (line : Bytes) (c : UInt8) (more : Bytes)
    (hl : LF ∉ line) (hc : c ≠ LF)
    (hs : startsWith (line ++ c :: LF :: more) [CR, LF] = false) :
    headersLoop (fuel+1) h (line ++ c :: LF :: more) =
      if c != CR then .err .header else
        match parseHeaderLine line with
        | .ok (name, value) => headersLoop fuel (h.add name value) more
        | .err e => .err e | .panic s => .panic s | .ub s => .ub s := by
  have hm : memchr LF (line ++ c :: LF :: more) = some (line.length + 1) := by
    have := memchr_append (c := LF) (pre := line ++ [c]) (post := more) (by simp [hl, Ne.symm hc])
    simpa using this
  conv => lhs; unfold headersLoop
  rw [hs, hm]
  simp [idx, sliceTo, sliceFrom]
  have h1 : line.length + 1 + 1 ≤ line.length + (more.length + 1 + 1) := by omega
  have h2 : List.drop (line.length + 1 + 1) (line ++ c :: LF :: more) = more := by
    rw [List.drop_append, List.drop_eq_nil_of_le (by omega)]
    have : line.length + 1 + 1 - line.length = 2 := by omega
    rw [this]; rfl
  rw [if_pos h1, h2]
  rfl
end Khttp.Hdr
