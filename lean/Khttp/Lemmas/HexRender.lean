/-
  The canonical hexadecimal renderings of the spec (`hexLower`, `hexUpper`) are numerals of their argument, and the
  simple interface `mkChunks` produces valid chunks.
-/
import Khttp.Spec.Chunked
namespace Khttp.Spec.Chunked
open Khttp

private def nstep (acc : Option Nat) (b : UInt8) : Option Nat :=
  match acc, digitValue? b with
  | some a, some v => some (a * 16 + v)
  | _, _ => none

def GoodAlphabet (al : Bytes) : Prop := ∀ k, k < 16 → digitValue? (al.getD k 0x30) = some k

theorem lower_good : GoodAlphabet lowerDigits := by unfold GoodAlphabet; decide +kernel
theorem upper_good : GoodAlphabet upperDigits := by unfold GoodAlphabet; decide +kernel

private theorem foldr_digitsRev (al : Bytes) (hal : GoodAlphabet al) (fuel : Nat) : ∀ n, n ≤ fuel →
    (digitsRev al fuel n).foldr (fun b acc => nstep acc b) (some 0) = some n := by
  induction fuel with
  | zero => intro n h; have : n = 0 := by omega
            subst this; rfl
  | succ f ih =>
    intro n h
    unfold digitsRev
    by_cases h0 : n = 0
    · subst h0; rfl
    · simp only [h0, if_false, List.foldr_cons]
      rw [ih (n / 16) (by omega)]
      simp only [nstep, hal (n % 16) (Nat.mod_lt _ (by decide))]
      congr 1; omega

theorem numeral?_render (al : Bytes) (hal : GoodAlphabet al) (n : Nat) : numeral? (render al n) = some n := by
  unfold render
  by_cases h0 : n = 0
  · subst h0
    simp only [if_true, numeral?, List.isEmpty_cons, Bool.false_eq_true, if_false, List.foldl_cons, List.foldl_nil]
    rw [hal 0 (by decide)]
  · simp only [h0, if_false]
    have hne : (digitsRev al n n).reverse ≠ [] := by
      cases n with
      | zero => exact absurd rfl h0
      | succ m => simp [digitsRev]
    have he : (digitsRev al n n).reverse.isEmpty = false := by
      cases h : (digitsRev al n n).reverse with
      | nil => exact absurd h hne
      | cons _ _ => rfl
    unfold numeral?
    simp only [he, Bool.false_eq_true, if_false]
    have := foldr_digitsRev al hal n n (Nat.le_refl _)
    rw [List.foldl_reverse]
    exact this

private theorem digitsRev_last (al : Bytes) (fuel : Nat) : ∀ n, 0 < n → n ≤ fuel →
    ∃ k, 0 < k ∧ k < 16 ∧ (digitsRev al fuel n).getLast? = some (al.getD k 0x30) := by
  induction fuel with
  | zero => intro n h1 h2; omega
  | succ f ih =>
    intro n h1 h2
    unfold digitsRev
    have h0 : n ≠ 0 := by omega
    simp only [h0, if_false]
    by_cases hq : n / 16 = 0
    · refine ⟨n % 16, by omega, Nat.mod_lt _ (by decide), ?_⟩
      cases f with
      | zero => simp [digitsRev]
      | succ f' => simp [digitsRev, hq]
    · obtain ⟨k, hk1, hk2, hk3⟩ := ih (n / 16) (by omega) (by omega)
      refine ⟨k, hk1, hk2, ?_⟩
      rw [List.getLast?_cons, hk3]; rfl

/-- the canonical rendering of a positive number has no leading `0` -/
theorem render_head (al : Bytes) (hal : GoodAlphabet al) (n : Nat) (hn : 0 < n) :
    (render al n).head? ≠ some 0x30 := by
  unfold render
  have h0 : n ≠ 0 := by omega
  simp only [h0, if_false, List.head?_reverse]
  obtain ⟨k, hk1, hk2, hk3⟩ := digitsRev_last al n n hn (Nat.le_refl _)
  rw [hk3]
  intro h
  have h' : al.getD k 0x30 = 0x30 := Option.some.inj h
  have := hal k hk2
  rw [h'] at this
  have h30 : digitValue? 0x30 = some 0 := by decide +kernel
  rw [h30] at this
  have := Option.some.inj this
  omega

theorem numeral?_hexLower (n : Nat) : numeral? (hexLower n) = some n := numeral?_render _ lower_good n
theorem numeral?_hexUpper (n : Nat) : numeral? (hexUpper n) = some n := numeral?_render _ upper_good n

theorem extOk_optExt (e : Option Bytes) (h : ∀ x, e = some x → lineText x = true) : extOk (optExt e) = true := by
  cases e with
  | none => rfl
  | some x =>
    simp only [optExt]
    split
    · rfl
    · exact h x rfl

theorem payload_mkChunks (hexOf : Nat → Bytes) (chunks : List Bytes) : ∀ exts,
    payload (mkChunks hexOf chunks exts) = chunks.flatten := by
  induction chunks with
  | nil => intro _; rfl
  | cons d ds ih => intro exts; simp [mkChunks, payload] at *; rw [ih]

theorem mkChunks_valid (hexOf : Nat → Bytes) (hhex : ∀ n, numeral? (hexOf n) = some n) (chunks : List Bytes) :
    ∀ exts : List Bytes, (∀ d ∈ chunks, d ≠ []) → (∀ x ∈ exts, lineText x = true) →
    ∀ c ∈ mkChunks hexOf chunks exts, c.Valid ∧ c.data ∈ chunks := by
  induction chunks with
  | nil => intro _ _ _ c hc; simp [mkChunks] at hc
  | cons d ds ih =>
    intro exts hne hexts c hc
    simp only [mkChunks, List.mem_cons] at hc
    rcases hc with rfl | hc
    · refine ⟨⟨hne d (by simp), hhex _, ?_⟩, by simp⟩
      apply extOk_optExt
      intro x hx
      exact hexts x (List.mem_of_mem_head? hx)
    · obtain ⟨h1, h2⟩ := ih exts.tail (fun d' hd' => hne d' (by simp [hd']))
        (fun x hx => hexts x (List.mem_of_mem_tail hx)) c hc
      exact ⟨h1, by simp [h2]⟩

theorem mkChunks_size (hexOf : Nat → Bytes) (chunks : List Bytes) :
    ∀ exts : List Bytes, ∀ c ∈ mkChunks hexOf chunks exts, c.size = hexOf c.data.length := by
  induction chunks with
  | nil => intro _ c hc; simp [mkChunks] at hc
  | cons d ds ih =>
    intro exts c hc
    simp only [mkChunks, List.mem_cons] at hc
    rcases hc with rfl | hc
    · rfl
    · exact ih _ c hc

theorem mkChunks_data_mem (hexOf : Nat → Bytes) (chunks : List Bytes) :
    ∀ exts : List Bytes, ∀ c ∈ mkChunks hexOf chunks exts, c.data ∈ chunks := by
  induction chunks with
  | nil => intro _ c hc; simp [mkChunks] at hc
  | cons d ds ih =>
    intro exts c hc
    simp only [mkChunks, List.mem_cons] at hc
    rcases hc with rfl | hc
    · simp
    · exact List.mem_cons_of_mem _ (ih _ c hc)

/-- the simple interface yields a valid general-form body -/
theorem valid_mkChunks (hexOf : Nat → Bytes) (hhex : ∀ n, numeral? (hexOf n) = some n)
    (chunks exts trailers : List Bytes) (hne : ∀ d ∈ chunks, d ≠ []) (hexts : ∀ x ∈ exts, lineText x = true)
    (htr : ∀ t ∈ trailers, trailerOk t = true) :
    Valid (mkChunks hexOf chunks exts) (hexOf 0) (optExt (exts.drop chunks.length).head?) trailers where
  chunks := fun c hc => (mkChunks_valid hexOf hhex chunks exts hne hexts c hc).1
  last := hhex 0
  lastExt := by
    apply extOk_optExt
    intro x hx
    exact hexts x (List.mem_of_mem_drop (List.mem_of_mem_head? hx))
  trailers := htr

end Khttp.Spec.Chunked
