/- basic facts about the vectors of the memory model (C20) -/
import Khttp.Model.Mem
namespace Khttp.Mem
open Khttp

theorem clamp_ge (x lo hi : Nat) : lo ≤ clamp x lo hi := by unfold clamp; omega
theorem clamp_le (x lo hi : Nat) (h : lo ≤ hi) : clamp x lo hi ≤ hi := by unfold clamp; omega

theorem piece_le (c limit : Nat) : piece c limit ≤ limit := by unfold piece; omega
theorem piece_pos (c limit : Nat) (h : 0 < limit) : 0 < piece c limit := by unfold piece; omega
theorem piece_eq_zero (c limit : Nat) : piece c limit = 0 ↔ limit = 0 := by unfold piece; omega

theorem growCap_ge (std : StdCfg) (need c : Nat) : need ≤ growCap std need c := clamp_ge _ _ _
theorem growCap_le (std : StdCfg) (need c : Nat) : growCap std need c ≤ max std.vecMinCap (2 * need) :=
  clamp_le _ _ _ (by omega)

theorem reserve_len (v : VecS) (std : StdCfg) (k c : Nat) : (v.reserve std k c).len = v.len := by
  unfold VecS.reserve; split <;> rfl

theorem reserve_room (v : VecS) (std : StdCfg) (k c : Nat) : v.len + k ≤ (v.reserve std k c).cap := by
  unfold VecS.reserve; split
  · assumption
  · exact growCap_ge _ _ _

theorem reserve_cap_le (v : VecS) (std : StdCfg) (k c : Nat) :
    (v.reserve std k c).cap ≤ max v.cap (max std.vecMinCap (2 * (v.len + k))) := by
  unfold VecS.reserve; split
  · omega
  · have := growCap_le std (v.len + k) c; simp only; omega

theorem reserve_cap_ge (v : VecS) (std : StdCfg) (k c : Nat) : v.cap ≤ (v.reserve std k c).cap := by
  unfold VecS.reserve; split
  · exact Nat.le_refl _
  · have := growCap_ge std (v.len + k) c; simp only; omega

theorem reserve_eq_of_room (v : VecS) (std : StdCfg) (k c : Nat) (h : v.len + k ≤ v.cap) : v.reserve std k c = v := by
  unfold VecS.reserve; simp [h]

theorem extend_len (v : VecS) (std : StdCfg) (k c : Nat) : (v.extend std k c).len = v.len + k := by
  simp [VecS.extend, reserve_len]

theorem extend_cap (v : VecS) (std : StdCfg) (k c : Nat) : (v.extend std k c).cap = (v.reserve std k c).cap := rfl

theorem extend_le (v : VecS) (std : StdCfg) (k c : Nat) : (v.extend std k c).len ≤ (v.extend std k c).cap := by
  rw [extend_len, extend_cap]; exact reserve_room _ _ _ _

theorem extend_cap_le (v : VecS) (std : StdCfg) (k c : Nat) :
    (v.extend std k c).cap ≤ max v.cap (max std.vecMinCap (2 * (v.len + k))) := by
  rw [extend_cap]; exact reserve_cap_le _ _ _ _

/-- `{:X}` of a number below `16^k` has at most `k` digits -/
theorem hexUpperLoop_length : ∀ (f k n : Nat) (acc : Bytes), 1 ≤ k → n < 16 ^ k →
    (Printer.hexUpperLoop f n acc).length ≤ acc.length + k := by
  intro f
  induction f with
  | zero => intro k n acc _ _; simp [Printer.hexUpperLoop]
  | succ f ih =>
    intro k n acc hk hn
    simp only [Printer.hexUpperLoop]
    split
    · simp; omega
    · rename_i hne
      have hk2 : 2 ≤ k := by
        rcases Nat.lt_or_ge k 2 with h | h
        · have : k = 1 := by omega
          subst this; simp at hn; omega
        · exact h
      have hn' : n / 16 < 16 ^ (k - 1) := by
        have : 16 ^ k = 16 ^ (k - 1) * 16 := by rw [← Nat.pow_succ]; congr 1; omega
        rw [this] at hn
        exact Nat.div_lt_of_lt_mul (by omega)
      have := ih (k - 1) (n / 16) (Printer.hexDigitUpper (n % 16) :: acc) (by omega) hn'
      simp at this; omega

theorem hexLen_le (n : Nat) (h : n < 2 ^ 64) : hexLen n ≤ 16 := by
  have := hexUpperLoop_length (n + 1) 16 n [] (by omega) (by
    have : (16 : Nat) ^ 16 = 2 ^ 64 := by decide
    omega)
  simpa [hexLen, Printer.hexUpper] using this

theorem hexLen_pos (n : Nat) : 1 ≤ hexLen n := by
  unfold hexLen Printer.hexUpper
  simp only [Printer.hexUpperLoop]
  split
  · simp
  · have : ∀ f m (acc : Bytes), acc.length ≤ (Printer.hexUpperLoop f m acc).length := by
      intro f; induction f with
      | zero => intro m acc; simp [Printer.hexUpperLoop]
      | succ f ih =>
        intro m acc; simp only [Printer.hexUpperLoop]; split
        · simp
        · have := ih (m / 16) (Printer.hexDigitUpper (m % 16) :: acc); simp at this; omega
    have := this n (n / 16) [Printer.hexDigitUpper (n % 16)]
    simp at this; omega

end Khttp.Mem
