/- invariant of the receiving machine of the memory model (C20) -/
import Khttp.Lemmas.MemSend
namespace Khttp.Mem
open Khttp

/-- the blank line that ends a chunked message is 2 bytes long -/
def RecvCfg.WF (cfg : RecvCfg) : Prop := 2 ≤ cfg.lineMax

instance (cfg : RecvCfg) : Decidable cfg.WF := by unfold RecvCfg.WF; exact inferInstance

structure RecvInv (cfg : RecvCfg) (s : RecvState) : Prop where
  rb_len : match s.pc with | .idle | .resize => True | _ => s.reqBuf.len = cfg.maxHead
  rb_le : s.reqBuf.len ≤ s.reqBuf.cap
  rb_cap : s.reqBuf.cap ≤ reqBufBound cfg
  rb_exact : cfg.maxHead ≤ cfg.defaultReqBuf → s.reqBuf.cap = cfg.defaultReqBuf
  br_len : s.br.len ≤ s.br.cap
  br_cap : s.br.cap ≤ cfg.bodyBufSize
  line_cap : s.line.cap ≤ lineCapB cfg
  line_len : s.line.len + s.lineLeft ≤ cfg.lineMax
  req_lines : s.req.LinesLe cfg.lineMax
  chunks_le : ∀ x ∈ s.chunks, x.lineLen ≤ cfg.lineMax
  trailers_le : ∀ x ∈ s.trailers, x ≤ cfg.lineMax
  caller : s.callerCap ≤ cfg.callerBuf
  acct : s.fetched = s.delivered + s.overhead + s.br.len + s.discarded

theorem recvInv_init (cfg : RecvCfg) : RecvInv cfg (recvInit cfg) := by
  constructor <;> simp [recvInit, reqBufBound, ReqShape.LinesLe]
  split <;> omega

set_option hygiene false in
macro "ropen" : tactic => `(tactic|
  (obtain ⟨rb_len, rb_le, rb_cap, rb_exact, br_len, br_cap, line_cap, line_len, req_lines, chunks_le, trailers_le,
     caller, acct⟩ := h
   obtain ⟨pc, req, ⟨rl, rcap⟩, filled, sock, ⟨brl, brc⟩, kind, cstate, rem, takeLeft, chunks, trailers, ⟨ll, lc⟩,
     lineLeft, lineChunk, blank, crlfLeft, callerCap, draining, outLeft, written, fetched, delivered, overhead,
     discarded, bodyFailed⟩ := s
   dsimp only at hpc
   subst hpc
   dsimp only at *))

macro "rfin" : tactic => `(tactic|
  (constructor <;> dsimp only [lineCapB] at * <;> first | rfl | trivial | assumption | omega))

variable (cfg : RecvCfg) (s : RecvState) (rc : RChoice)

theorem rstep_idle (hreq : rc.req.LinesLe cfg.lineMax)
    (h : RecvInv cfg s) (hpc : s.pc = .idle) : RecvInv cfg (recvStep cfg s rc) := by
  ropen
  simp only [recvStep]
  rfin

theorem rstep_resize
    (h : RecvInv cfg s) (hpc : s.pc = .resize) : RecvInv cfg (recvStep cfg s rc) := by
  ropen
  simp only [recvStep]
  split
  · rfin
  · split
    · rfin
    · obtain ⟨cap', he, e1, e2, e3⟩ := reserve_eq ⟨rl, rcap⟩ cfg.std (cfg.maxHead - rl) rc.toChoice.cap
      rw [he]
      by_cases hd : cfg.maxHead ≤ cfg.defaultReqBuf
      · have hcap := rb_exact hd
        have : ({ len := rl, cap := rcap } : VecS).reserve cfg.std (cfg.maxHead - rl) rc.toChoice.cap = ⟨rl, rcap⟩ :=
          reserve_eq_of_room _ _ _ _ (by dsimp only; omega)
        rw [he] at this
        injection this with _ hc
        subst hc
        rfin
      · have hB : reqBufBound cfg = max cfg.std.vecMinCap (2 * cfg.maxHead) := by unfold reqBufBound; simp only [hd, if_false]
        rw [hB] at rb_cap
        constructor <;> dsimp only [lineCapB] at * <;> (try rw [hB]) <;>
          first | rfl | trivial | assumption | omega | (intro hh; omega)

end Khttp.Mem
