/- the receiving machine: the invariant holds in every reachable state, and what follows from it (C20) -/
import Khttp.Lemmas.MemRecvStep
import Khttp.Lemmas.MemRecvStep2
namespace Khttp.Mem
open Khttp

theorem recvInv_step (cfg : RecvCfg) (hwf : cfg.WF) (s : RecvState) (rc : RChoice)
    (hreq : rc.req.LinesLe cfg.lineMax) (h : RecvInv cfg s) : RecvInv cfg (recvStep cfg s rc) := by
  cases hpc : s.pc
  case idle => exact rstep_idle cfg s rc hreq h hpc
  case resize => exact rstep_resize cfg s rc h hpc
  case readHead => exact rstep_readHead cfg s rc h hpc
  case mkBody => exact rstep_mkBody cfg s rc h hpc
  case call => exact rstep_call cfg s rc h hpc
  case fixedRead => exact rstep_fixedRead cfg s rc h hpc
  case cAdvance => exact rstep_cAdvance cfg s rc hwf h hpc
  case cSizeLine => exact rstep_cSizeLine cfg s rc h hpc
  case cData => exact rstep_cData cfg s rc h hpc
  case cCrlf => exact rstep_cCrlf cfg s rc h hpc
  case cTrailer => exact rstep_cTrailer cfg s rc hwf h hpc
  case ret => exact rstep_ret cfg s rc h hpc
  case dropBody => exact rstep_dropBody cfg s rc h hpc

theorem recvInv_foldl (cfg : RecvCfg) (hwf : cfg.WF) (cs : List RChoice) :
    (∀ c ∈ cs, c.req.LinesLe cfg.lineMax) → ∀ s, RecvInv cfg s → RecvInv cfg (cs.foldl (recvStep cfg) s) := by
  induction cs with
  | nil => intro _ s h; exact h
  | cons c cs ih =>
    intro hc s h
    exact ih (fun x hx => hc x (List.mem_cons_of_mem _ hx)) _
      (recvInv_step cfg hwf s c (hc c List.mem_cons_self) h)

theorem recvInv_run (cfg : RecvCfg) (hwf : cfg.WF) (cs : List RChoice) (hc : ∀ c ∈ cs, c.req.LinesLe cfg.lineMax) :
    RecvInv cfg (recvRun cfg cs) :=
  recvInv_foldl cfg hwf cs hc _ (recvInv_init cfg)

theorem RecvInv.heap_le {cfg : RecvCfg} {s : RecvState} (h : RecvInv cfg s) : s.heapBytes ≤ Krecv cfg := by
  have := h.rb_cap; have := h.br_cap; have := h.line_cap; have := h.caller
  unfold RecvState.heapBytes Krecv; omega

theorem RecvInv.libHeap_le {cfg : RecvCfg} {s : RecvState} (h : RecvInv cfg s) :
    s.libHeapBytes ≤ reqBufBound cfg + cfg.bodyBufSize + lineCapB cfg := by
  have := h.rb_cap; have := h.br_cap; have := h.line_cap
  unfold RecvState.libHeapBytes; omega

theorem RecvInv.transferHeap_le {cfg : RecvCfg} {s : RecvState} (h : RecvInv cfg s) :
    s.transferHeapBytes ≤ cfg.bodyBufSize + lineCapB cfg := by
  have := h.br_cap; have := h.line_cap
  unfold RecvState.transferHeapBytes; omega

theorem recvStack_le (cfg : RecvCfg) (s : RecvState) : s.stackBytes cfg ≤ KrecvStack cfg := by
  unfold RecvState.stackBytes KrecvStack; split <;> split <;> omega

@[simp] theorem recvFail_reqBuf (s : RecvState) : (recvFail s).reqBuf = s.reqBuf := rfl
@[simp] theorem recvFill_reqBuf (s : RecvState) (c : Choice) (lim : Nat) : (recvFill s c lim).reqBuf = s.reqBuf := by
  unfold recvFill; dsimp only; split <;> rfl
@[simp] theorem nextTrailer_reqBuf (s : RecvState) : (nextTrailer s).reqBuf = s.reqBuf := by
  unfold nextTrailer; split <;> rfl
@[simp] theorem chunkGot_reqBuf (s : RecvState) (n : Nat) : (chunkGot s n).reqBuf = s.reqBuf := by
  unfold chunkGot; dsimp only; split <;> rfl

/-- `REQUEST_BUFFER` is only touched by the `resize_with` of `read_request` -/
theorem recvStep_reqBuf (cfg : RecvCfg) (s : RecvState) (rc : RChoice) (hpc : s.pc ≠ .resize) :
    (recvStep cfg s rc).reqBuf = s.reqBuf := by
  unfold recvStep
  cases h : s.pc <;> first | exact absurd h hpc | skip
  all_goals dsimp only
  all_goals repeat' split
  all_goals first | rfl | simp

/-- ... and that one does nothing once the buffer has `max_request_head` bytes -/
theorem recvStep_reqBuf_sized (cfg : RecvCfg) (s : RecvState) (rc : RChoice) (hlen : s.reqBuf.len = cfg.maxHead) :
    (recvStep cfg s rc).reqBuf = s.reqBuf := by
  by_cases hpc : s.pc = .resize
  · unfold recvStep; simp only [hpc, hlen, if_true]
  · exact recvStep_reqBuf cfg s rc hpc

end Khttp.Mem
