/- every step of the receiving machine preserves `RecvInv` (C20) -/
import Khttp.Lemmas.MemRecv
namespace Khttp.Mem
open Khttp
variable (cfg : RecvCfg) (s : RecvState) (rc : RChoice)

theorem rstep_readHead
    (h : RecvInv cfg s) (hpc : s.pc = .readHead) : RecvInv cfg (recvStep cfg s rc) := by
  ropen
  simp only [recvStep]
  split
  · rfin
  · split
    · rfin
    · split <;> rfin

theorem rstep_mkBody
    (h : RecvInv cfg s) (hpc : s.pc = .mkBody) : RecvInv cfg (recvStep cfg s rc) := by
  ropen
  simp only [recvStep]
  split
  · rename_i chs trs hf
    unfold ReqShape.LinesLe at req_lines
    have hl := req_lines
    rw [hf] at hl
    dsimp only at hl
    obtain ⟨h1, h2⟩ := hl
    constructor <;> dsimp only [lineCapB] at * <;> first | rfl | trivial | assumption | omega | (unfold ReqShape.LinesLe; exact req_lines)
  · split <;>
    (constructor <;> dsimp only [lineCapB] at * <;> first | rfl | trivial | assumption | omega)
  · rfin

theorem rstep_call
    (h : RecvInv cfg s) (hpc : s.pc = .call) : RecvInv cfg (recvStep cfg s rc) := by
  ropen
  simp only [recvStep]
  split
  · rfin
  · split
    · rfin
    · split <;> rfin

theorem rstep_fixedRead
    (h : RecvInv cfg s) (hpc : s.pc = .fixedRead) : RecvInv cfg (recvStep cfg s rc) := by
  ropen
  simp only [recvStep]
  split
  · rfin
  · split
    · have pl := piece_le rc.toChoice.n (min (min rem outLeft) (min takeLeft sock))
      generalize piece rc.toChoice.n (min (min rem outLeft) (min takeLeft sock)) = n at *
      split
      · unfold recvFail; rfin
      · rfin
    · split
      · unfold recvFill
        have pl := piece_le rc.toChoice.n (min brc (min takeLeft sock))
        dsimp only
        generalize piece rc.toChoice.n (min brc (min takeLeft sock)) = n at *
        split
        · unfold recvFail; rfin
        · rfin
      · split
        · unfold recvFail; rfin
        · rfin

theorem rstep_cAdvance (hwf : cfg.WF)
    (h : RecvInv cfg s) (hpc : s.pc = .cAdvance) : RecvInv cfg (recvStep cfg s rc) := by
  unfold RecvCfg.WF at hwf
  ropen
  simp only [recvStep]
  split
  · -- size
    split
    · unfold recvFail; rfin
    · rename_i r rest
      have hr : r.lineLen ≤ cfg.lineMax := chunks_le r List.mem_cons_self
      have hrest : ∀ x ∈ rest, x.lineLen ≤ cfg.lineMax := fun x hx => chunks_le x (List.mem_cons_of_mem _ hx)
      split
      · rfin
      · split
        · unfold recvFail; rfin
        · have hnew : ∀ x ∈ ({ r with count := r.count - 1 } :: rest), x.lineLen ≤ cfg.lineMax := by
            intro x hx
            rcases List.mem_cons.mp hx with rfl | hx
            · exact hr
            · exact hrest x hx
          rfin
  · split <;> rfin
  · rfin
  · unfold nextTrailer
    dsimp only
    split
    · rename_i t rest
      have ht : t ≤ cfg.lineMax := trailers_le t List.mem_cons_self
      have hrest : ∀ x ∈ rest, x ≤ cfg.lineMax := fun x hx => trailers_le x (List.mem_cons_of_mem _ hx)
      rfin
    · rfin
  · rfin

end Khttp.Mem
