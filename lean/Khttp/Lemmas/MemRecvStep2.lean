/- every step of the receiving machine preserves `RecvInv` (C20), second half -/
import Khttp.Lemmas.MemRecv
namespace Khttp.Mem
open Khttp
variable (cfg : RecvCfg) (s : RecvState) (rc : RChoice)

theorem rstep_cSizeLine
    (h : RecvInv cfg s) (hpc : s.pc = .cSizeLine) : RecvInv cfg (recvStep cfg s rc) := by
  ropen
  simp only [recvStep]
  split
  · unfold recvFill
    have pl := piece_le rc.toChoice.n (min brc sock)
    dsimp only
    generalize piece rc.toChoice.n (min brc sock) = n at *
    split
    · unfold recvFail; rfin
    · rfin
  · obtain ⟨cap', he, e1, e2, e3⟩ := extend_eq ⟨ll, lc⟩ cfg.std (min lineLeft brl) rc.toChoice.cap
    rw [he]
    split <;> rfin

theorem rstep_cData
    (h : RecvInv cfg s) (hpc : s.pc = .cData) : RecvInv cfg (recvStep cfg s rc) := by
  ropen
  simp only [recvStep]
  split
  · rfin
  · split
    · have pl := piece_le rc.toChoice.n (min (min rem outLeft) sock)
      generalize piece rc.toChoice.n (min (min rem outLeft) sock) = n at *
      split
      · unfold recvFail; rfin
      · unfold chunkGot; dsimp only; split <;> rfin
    · split
      · unfold recvFill
        have pl := piece_le rc.toChoice.n (min brc sock)
        dsimp only
        generalize piece rc.toChoice.n (min brc sock) = n at *
        split
        · unfold recvFail; rfin
        · rfin
      · unfold chunkGot; dsimp only; split <;> rfin

theorem rstep_cCrlf
    (h : RecvInv cfg s) (hpc : s.pc = .cCrlf) : RecvInv cfg (recvStep cfg s rc) := by
  ropen
  simp only [recvStep]
  split
  · rfin
  · split
    · unfold recvFill
      have pl := piece_le rc.toChoice.n (min brc sock)
      dsimp only
      generalize piece rc.toChoice.n (min brc sock) = n at *
      split
      · unfold recvFail; rfin
      · rfin
    · rfin

theorem rstep_cTrailer (hwf : cfg.WF)
    (h : RecvInv cfg s) (hpc : s.pc = .cTrailer) : RecvInv cfg (recvStep cfg s rc) := by
  unfold RecvCfg.WF at hwf
  ropen
  simp only [recvStep]
  split
  · split
    · rfin
    · unfold nextTrailer
      dsimp only
      split
      · rename_i t rest
        have ht : t ≤ cfg.lineMax := trailers_le t List.mem_cons_self
        have hrest : ∀ x ∈ rest, x ≤ cfg.lineMax := fun x hx => trailers_le x (List.mem_cons_of_mem _ hx)
        rfin
      · rfin
  · split
    · have pl := piece_le rc.toChoice.n (min brc sock)
      generalize piece rc.toChoice.n (min brc sock) = n at *
      split <;> rfin
    · obtain ⟨cap', he, e1, e2, e3⟩ := extend_eq ⟨ll, lc⟩ cfg.std (min lineLeft brl) rc.toChoice.cap
      rw [he]
      rfin

theorem rstep_ret
    (h : RecvInv cfg s) (hpc : s.pc = .ret) : RecvInv cfg (recvStep cfg s rc) := by
  ropen
  simp only [recvStep]
  split
  · split <;> rfin
  · rfin

theorem rstep_dropBody
    (h : RecvInv cfg s) (hpc : s.pc = .dropBody) : RecvInv cfg (recvStep cfg s rc) := by
  ropen
  simp only [recvStep]
  rfin

end Khttp.Mem
