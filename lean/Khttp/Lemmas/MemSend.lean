/- invariant of the sending machine of the memory model (C20) -/
import Khttp.Lemmas.MemBasic
namespace Khttp.Mem
open Khttp

/-- the thresholds are `usize` values -/
def SendCfg.WF (cfg : SendCfg) : Prop := cfg.t.probeMax < 2 ^ 64 ∧ cfg.t.chunkBufSize < 2 ^ 64

instance (cfg : SendCfg) : Decidable cfg.WF := by unfold SendCfg.WF; exact inferInstance

/-- which strategy can be in force at which location, for which class of input -/
def pcOk : FClass → SPc → Strat → Bool
  | _, .start, .undecided => true
  | .fastDeclared, .fastRead, .undecided => true
  | .auto, .probe, .undecided => true
  | .auto, .probeRead, .undecided => true
  | .fastDeclared, .headAlloc, .fast | .fastDeclared, .headBuild, .fast => true
  | .streaming, .headAlloc, .streaming | .streaming, .headBuild, .streaming => true
  | .chunked, .headAlloc, .chunked | .chunked, .headBuild, .chunked => true
  | .auto, .headAlloc, .fast | .auto, .headBuild, .fast => true
  | .auto, .headAlloc, .auto | .auto, .headBuild, .auto => true
  | .fastDeclared, .fastInline, .fast | .fastDeclared, .fastEmit, .fast => true
  | .auto, .fastInline, .fast | .auto, .fastEmit, .fast => true
  | .streaming, .openBw, .streaming | .streaming, .finish, .streaming => true
  | .chunked, .openBw, .chunked | .chunked, .finish, .chunked => true
  | .auto, .openBw, .auto | .auto, .finish, .auto => true
  | .auto, .preSize, .auto | .auto, .preData, .auto | .auto, .preCrlf, .auto => true
  | .streaming, .copy, .streaming | .streaming, .copyStack, .streaming | .streaming, .copyCheck, .streaming => true
  | .chunked, .chunkRead, .chunked | .chunked, .chunkSize, .chunked | .chunked, .chunkData, .chunked => true
  | .chunked, .chunkCrlf, .chunked | .chunked, .chunkTerm, .chunked => true
  | .auto, .chunkRead, .auto | .auto, .chunkSize, .auto | .auto, .chunkData, .auto => true
  | .auto, .chunkCrlf, .auto | .auto, .chunkTerm, .auto => true
  | .fastDeclared, .done, .fast | .fastDeclared, .failed, .undecided => true
  | .streaming, .done, .streaming | .streaming, .failed, .streaming => true
  | .chunked, .done, .chunked => true
  | .auto, .done, .fast | .auto, .done, .auto => true
  | _, _, _ => false

/-- the collected body bytes are still pending at these locations -/
def pendOf : SPc → Nat → Nat
  | .fastRead, n | .probe, n | .probeRead, n | .headAlloc, n | .headBuild, n | .fastInline, n | .fastEmit, n
  | .openBw, n | .preSize, n | .preData, n => n
  | _, _ => 0

structure SendInv (cfg : SendCfg) (headLen : Nat) (cls : FClass) (s : SendState) : Prop where
  ctl : pcOk cls s.pc s.strat = true
  bw_len : s.bw.len ≤ s.bw.cap
  bw_body : s.bwBody ≤ s.bw.len
  bw_cap : s.bw.cap ≤ (match s.strat with | .undecided | .fast => 0 | _ => cfg.std.bwCap)
  bw_pre : s.bw.cap ≤ (match s.pc with
    | .start | .fastRead | .probe | .probeRead | .headAlloc | .headBuild | .fastInline | .fastEmit | .openBw => 0
    | _ => cfg.std.bwCap)
  coll_le : s.coll.len ≤ s.coll.cap
  coll_cap : s.coll.cap ≤ collCapB cfg cls
  coll_lim : s.coll.len + (match cls with | .fastDeclared => s.takeLeft | _ => 0) ≤ cfg.t.probeMax
  head_cap : s.head.cap ≤ (match s.strat with
    | .undecided => 0 | .fast => headCapFast cfg headLen | _ => headCapPlain cfg headLen)
  head_len : s.head.len ≤ headLen + (match s.pc with | .fastEmit => s.coll.len | _ => 0)
  inline : match s.pc with | .fastInline => s.coll.len < cfg.t.inlineCopyMax | _ => True
  size_le : s.sizeLine ≤ (match s.strat with | .chunked | .auto => sizeLineMax | _ => 0)
  chunk_le : s.chunkN ≤ (match s.pc with
    | .copyStack => cfg.std.copyBuf | .chunkSize | .chunkData => cfg.t.chunkBufSize | _ => 0)
  pend : s.collPending = pendOf s.pc s.coll.len
  acct : s.readTotal = s.emitBody + s.collPending + s.chunkN + s.bwBody + s.dropped

theorem sendInv_init (cfg : SendCfg) (inp : SendInput) (cls : FClass) : SendInv cfg inp.headLen cls (sendInit inp) := by
  constructor <;> simp [sendInit, pcOk, pendOf]
  cases cls <;> simp

@[simp] theorem flushBw_pc (s : SendState) : (flushBw s).pc = s.pc := rfl
@[simp] theorem flushBw_strat (s : SendState) : (flushBw s).strat = s.strat := rfl
@[simp] theorem flushBw_src (s : SendState) : (flushBw s).src = s.src := rfl
@[simp] theorem flushBw_takeLeft (s : SendState) : (flushBw s).takeLeft = s.takeLeft := rfl
@[simp] theorem flushBw_coll (s : SendState) : (flushBw s).coll = s.coll := rfl
@[simp] theorem flushBw_collPending (s : SendState) : (flushBw s).collPending = s.collPending := rfl
@[simp] theorem flushBw_head (s : SendState) : (flushBw s).head = s.head := rfl
@[simp] theorem flushBw_sizeLine (s : SendState) : (flushBw s).sizeLine = s.sizeLine := rfl
@[simp] theorem flushBw_chunkN (s : SendState) : (flushBw s).chunkN = s.chunkN := rfl
@[simp] theorem flushBw_readTotal (s : SendState) : (flushBw s).readTotal = s.readTotal := rfl
@[simp] theorem flushBw_dropped (s : SendState) : (flushBw s).dropped = s.dropped := rfl
@[simp] theorem flushBw_cap (s : SendState) : (flushBw s).bw.cap = s.bw.cap := rfl
@[simp] theorem flushBw_len (s : SendState) : (flushBw s).bw.len = 0 := rfl
@[simp] theorem flushBw_bwBody (s : SendState) : (flushBw s).bwBody = 0 := rfl
@[simp] theorem flushBw_emitBody (s : SendState) : (flushBw s).emitBody = s.emitBody + s.bwBody := rfl
@[simp] theorem bwWrite_pc (s : SendState) (k kb : Nat) : (bwWrite s k kb).pc = s.pc := by
  unfold bwWrite; split
  · rfl
  · simp only; split <;> split <;> rfl
@[simp] theorem bwWrite_strat (s : SendState) (k kb : Nat) : (bwWrite s k kb).strat = s.strat := by
  unfold bwWrite; split
  · rfl
  · simp only; split <;> split <;> rfl
@[simp] theorem bwWrite_src (s : SendState) (k kb : Nat) : (bwWrite s k kb).src = s.src := by
  unfold bwWrite; split
  · rfl
  · simp only; split <;> split <;> rfl
@[simp] theorem bwWrite_takeLeft (s : SendState) (k kb : Nat) : (bwWrite s k kb).takeLeft = s.takeLeft := by
  unfold bwWrite; split
  · rfl
  · simp only; split <;> split <;> rfl
@[simp] theorem bwWrite_coll (s : SendState) (k kb : Nat) : (bwWrite s k kb).coll = s.coll := by
  unfold bwWrite; split
  · rfl
  · simp only; split <;> split <;> rfl
@[simp] theorem bwWrite_collPending (s : SendState) (k kb : Nat) : (bwWrite s k kb).collPending = s.collPending := by
  unfold bwWrite; split
  · rfl
  · simp only; split <;> split <;> rfl
@[simp] theorem bwWrite_head (s : SendState) (k kb : Nat) : (bwWrite s k kb).head = s.head := by
  unfold bwWrite; split
  · rfl
  · simp only; split <;> split <;> rfl
@[simp] theorem bwWrite_sizeLine (s : SendState) (k kb : Nat) : (bwWrite s k kb).sizeLine = s.sizeLine := by
  unfold bwWrite; split
  · rfl
  · simp only; split <;> split <;> rfl
@[simp] theorem bwWrite_chunkN (s : SendState) (k kb : Nat) : (bwWrite s k kb).chunkN = s.chunkN := by
  unfold bwWrite; split
  · rfl
  · simp only; split <;> split <;> rfl
@[simp] theorem bwWrite_readTotal (s : SendState) (k kb : Nat) : (bwWrite s k kb).readTotal = s.readTotal := by
  unfold bwWrite; split
  · rfl
  · simp only; split <;> split <;> rfl
@[simp] theorem bwWrite_dropped (s : SendState) (k kb : Nat) : (bwWrite s k kb).dropped = s.dropped := by
  unfold bwWrite; split
  · rfl
  · simp only; split <;> split <;> rfl
@[simp] theorem bwWrite_cap (s : SendState) (k kb : Nat) : (bwWrite s k kb).bw.cap = s.bw.cap := by
  unfold bwWrite; split
  · rfl
  · simp only; split <;> split <;> rfl

theorem bwWrite_spec (s : SendState) (k kb : Nat) (h1 : s.bw.len ≤ s.bw.cap) (h2 : s.bwBody ≤ s.bw.len) (hk : kb ≤ k) :
    (bwWrite s k kb).bw.len ≤ s.bw.cap ∧ (bwWrite s k kb).bwBody ≤ (bwWrite s k kb).bw.len ∧
    (bwWrite s k kb).emitBody + (bwWrite s k kb).bwBody = s.emitBody + s.bwBody + kb := by
  unfold bwWrite
  by_cases h : k < s.bw.cap - s.bw.len
  · simp only [h, if_true]; omega
  · by_cases hgt : k > s.bw.cap - s.bw.len
    · by_cases hge : k ≥ s.bw.cap
      · simp [h, hgt, hge, flushBw] <;> omega
      · simp [h, hgt, hge, flushBw] <;> omega
    · by_cases hge : k ≥ s.bw.cap
      · simp [h, hgt, hge] <;> omega
      · simp [h, hgt, hge] <;> omega

/-- `write_all` into the `BufWriter` only changes its fill level and the emission counters -/
theorem bwWrite_eq (s : SendState) (k kb : Nat) (h1 : s.bw.len ≤ s.bw.cap) (h2 : s.bwBody ≤ s.bw.len) (hk : kb ≤ k) :
    ∃ l b eb et, bwWrite s k kb = { s with bw := { len := l, cap := s.bw.cap }, bwBody := b, emitBody := eb, emitTotal := et } ∧
      l ≤ s.bw.cap ∧ b ≤ l ∧ eb + b = s.emitBody + s.bwBody + kb := by
  unfold bwWrite
  by_cases h : k < s.bw.cap - s.bw.len
  · exact ⟨_, _, _, _, by simp only [h, if_true]; rfl, by omega, by omega, by omega⟩
  · by_cases hgt : k > s.bw.cap - s.bw.len
    · by_cases hge : k ≥ s.bw.cap
      · exact ⟨_, _, _, _, by simp only [h, hgt, hge, if_true, if_false, flushBw]; rfl,
          by omega, by omega, by omega⟩
      · exact ⟨_, _, _, _, by simp only [h, hgt, hge, if_true, if_false, flushBw]; rfl,
          by omega, by omega, by omega⟩
    · by_cases hge : k ≥ s.bw.cap
      · exact ⟨_, _, _, _, by simp only [h, hgt, hge, if_true, if_false]; rfl,
          by omega, by omega, by omega⟩
      · exact ⟨_, _, _, _, by simp only [h, hgt, hge, if_false]; rfl,
          by omega, by omega, by omega⟩

theorem extend_eq (v : VecS) (std : StdCfg) (k c : Nat) :
    ∃ cap', v.extend std k c = { len := v.len + k, cap := cap' } ∧ v.len + k ≤ cap' ∧ v.cap ≤ cap' ∧
      cap' ≤ max v.cap (max std.vecMinCap (2 * (v.len + k))) :=
  ⟨(v.reserve std k c).cap, by simp [VecS.extend, reserve_len], reserve_room _ _ _ _, reserve_cap_ge _ _ _ _,
    reserve_cap_le _ _ _ _⟩

theorem reserve_eq (v : VecS) (std : StdCfg) (k c : Nat) :
    ∃ cap', v.reserve std k c = { len := v.len, cap := cap' } ∧ v.len + k ≤ cap' ∧ v.cap ≤ cap' ∧
      cap' ≤ max v.cap (max std.vecMinCap (2 * (v.len + k))) :=
  ⟨(v.reserve std k c).cap, by
      have := reserve_len v std k c
      cases hv : v.reserve std k c; simp_all, reserve_room _ _ _ _, reserve_cap_ge _ _ _ _, reserve_cap_le _ _ _ _⟩

set_option hygiene false in
macro "open_inv" : tactic => `(tactic|
  (obtain ⟨ctl, bw_len, bw_body, bw_cap, bw_pre, coll_le, coll_cap, coll_lim, head_cap, head_len, inline,
    size_le, chunk_le, pend, acct⟩ := h
   obtain ⟨pc, strat, src, takeLeft, ⟨cl, cc⟩, collPending, ⟨hl, hc⟩, ⟨bl, bc⟩, bwBody, sizeLine, chunkN, readTotal,
     emitBody, emitTotal, dropped⟩ := s
   dsimp only at hpc
   subst hpc
   dsimp only [pendOf] at *))

macro "fin" : tactic => `(tactic|
  (constructor <;> dsimp only [pendOf, collCapB, headCapFast, headCapPlain, sizeLineMax] at * <;>
    first | rfl | trivial | omega))

set_option hygiene false in
macro "ctl_cases" : tactic => `(tactic|
  (cases cls <;> cases strat <;> (try cases ctl) <;> dsimp only at *))

end Khttp.Mem
