/- the sending machine: the invariant holds in every reachable state, and what follows from it (C20) -/
import Khttp.Lemmas.MemSendStep
import Khttp.Lemmas.MemSendStep2
namespace Khttp.Mem
open Khttp

theorem sendInv_step (cfg : SendCfg) (hwf : cfg.WF) (inp : SendInput) (s : SendState) (c : Choice)
    (h : SendInv cfg inp.headLen (inp.framing.cls cfg.t) s) :
    SendInv cfg inp.headLen (inp.framing.cls cfg.t) (sendStep cfg inp s c) := by
  cases hpc : s.pc
  case start => exact step_start cfg inp _ s c rfl h hpc
  case fastRead => exact step_fastRead cfg inp _ s c h hpc
  case probe => exact step_probe cfg inp _ s c h hpc
  case probeRead => exact step_probeRead cfg inp _ s c h hpc
  case headAlloc => exact step_headAlloc cfg inp _ s c h hpc
  case headBuild => exact step_headBuild cfg inp _ s c h hpc
  case fastInline => exact step_fastInline cfg inp _ s c h hpc
  case fastEmit => exact step_fastEmit cfg inp _ s c h hpc
  case openBw => exact step_openBw cfg inp _ s c h hpc
  case preSize => exact step_preSize cfg inp _ s c hwf h hpc
  case preData => exact step_preData cfg inp _ s c h hpc
  case preCrlf => exact step_preCrlf cfg inp _ s c h hpc
  case copy => exact step_copy cfg inp _ s c h hpc
  case copyStack => exact step_copyStack cfg inp _ s c h hpc
  case copyCheck => exact step_copyCheck cfg inp _ s c h hpc
  case chunkRead => exact step_chunkRead cfg inp _ s c h hpc
  case chunkSize => exact step_chunkSize cfg inp _ s c hwf h hpc
  case chunkData => exact step_chunkData cfg inp _ s c h hpc
  case chunkCrlf => exact step_chunkCrlf cfg inp _ s c h hpc
  case chunkTerm => exact step_chunkTerm cfg inp _ s c h hpc
  case finish => exact step_finish cfg inp _ s c h hpc
  case done =>
    have : sendStep cfg inp s c = s := by unfold sendStep; simp only [hpc]
    rw [this]; exact h
  case failed =>
    have : sendStep cfg inp s c = s := by unfold sendStep; simp only [hpc]
    rw [this]; exact h

theorem sendInv_foldl (cfg : SendCfg) (hwf : cfg.WF) (inp : SendInput) (cs : List Choice) :
    ∀ s, SendInv cfg inp.headLen (inp.framing.cls cfg.t) s →
      SendInv cfg inp.headLen (inp.framing.cls cfg.t) (cs.foldl (sendStep cfg inp) s) := by
  induction cs with
  | nil => intro s h; exact h
  | cons c cs ih => intro s h; exact ih _ (sendInv_step cfg hwf inp s c h)

theorem sendInv_run (cfg : SendCfg) (hwf : cfg.WF) (inp : SendInput) (cs : List Choice) :
    SendInv cfg inp.headLen (inp.framing.cls cfg.t) (sendRun cfg inp cs) :=
  sendInv_foldl cfg hwf inp cs _ (sendInv_init cfg inp _)

/-- the heap bound, from the invariant -/
theorem SendInv.heap_le {cfg : SendCfg} {headLen : Nat} {cls : FClass} {s : SendState}
    (h : SendInv cfg headLen cls s) : s.heapBytes ≤ Ksend cfg cls headLen := by
  obtain ⟨ctl, bw_len, bw_body, bw_cap, bw_pre, coll_le, coll_cap, coll_lim, head_cap, head_len, inline,
    size_le, chunk_le, pend, acct⟩ := h
  obtain ⟨pc, strat, src, takeLeft, ⟨cl, cc⟩, collPending, ⟨hl, hc⟩, ⟨bl, bc⟩, bwBody, sizeLine, chunkN, readTotal,
     emitBody, emitTotal, dropped⟩ := s
  unfold SendState.heapBytes Ksend
  dsimp only at *
  cases cls <;> cases strat <;>
    (first
      | (dsimp only [collCapB, headCapFast, headCapPlain, sizeLineMax] at *
         dsimp only [collCapB, headCapFast, headCapPlain, sizeLineMax] at *
         omega)
      | (cases pc <;> cases ctl))

theorem SendInv.buffered_le {cfg : SendCfg} {headLen : Nat} {cls : FClass} {s : SendState}
    (h : SendInv cfg headLen cls s) : s.bufferedBody ≤ KsendBuffered cfg := by
  obtain ⟨ctl, bw_len, bw_body, bw_cap, bw_pre, coll_le, coll_cap, coll_lim, head_cap, head_len, inline,
    size_le, chunk_le, pend, acct⟩ := h
  obtain ⟨pc, strat, src, takeLeft, ⟨cl, cc⟩, collPending, ⟨hl, hc⟩, ⟨bl, bc⟩, bwBody, sizeLine, chunkN, readTotal,
     emitBody, emitTotal, dropped⟩ := s
  unfold SendState.bufferedBody KsendBuffered
  dsimp only at *
  have hbw : bc ≤ cfg.std.bwCap := by cases pc <;> dsimp only at bw_pre <;> omega
  have hp : collPending ≤ cl := by cases pc <;> dsimp only [pendOf] at pend <;> omega
  cases pc <;> dsimp only at * <;> omega

theorem stackBytes_le (cfg : SendCfg) (s : SendState) : s.stackBytes cfg ≤ KsendStack cfg := by
  unfold SendState.stackBytes KsendStack; split <;> omega

end Khttp.Mem
