/- every step of the sending machine preserves `SendInv` (C20) -/
import Khttp.Lemmas.MemSend
namespace Khttp.Mem
open Khttp

variable (cfg : SendCfg) (inp : SendInput) (cls : FClass) (s : SendState) (c : Choice)

theorem step_start (hcls : inp.framing.cls cfg.t = cls)
    (h : SendInv cfg inp.headLen cls s) (hpc : s.pc = .start) : SendInv cfg inp.headLen cls (sendStep cfg inp s c) := by
  open_inv
  simp only [sendStep]
  cases hf : inp.framing with
  | chunked =>
    have : cls = .chunked := by rw [← hcls, hf]; rfl
    subst this; cases strat <;> (try cases ctl) <;> dsimp only at * <;> fin
  | auto =>
    have : cls = .auto := by rw [← hcls, hf]; rfl
    subst this; cases strat <;> (try cases ctl) <;> dsimp only at * <;> fin
  | declared n =>
    by_cases hcl : n ≤ cfg.t.probeMax
    · have : cls = .fastDeclared := by rw [← hcls, hf]; simp [Framing.cls, hcl]
      subst this; simp only [hcl, if_true]
      cases strat <;> (try cases ctl) <;> dsimp only at * <;> fin
    · have : cls = .streaming := by rw [← hcls, hf]; simp [Framing.cls, hcl]
      subst this; simp only [hcl, if_false]
      cases strat <;> (try cases ctl) <;> dsimp only at * <;> fin

theorem step_fastRead
    (h : SendInv cfg inp.headLen cls s) (hpc : s.pc = .fastRead) : SendInv cfg inp.headLen cls (sendStep cfg inp s c) := by
  open_inv
  ctl_cases
  simp only [sendStep]
  split
  · split
    · have pl := piece_le c.n (min cfg.std.rtProbe (min takeLeft src))
      generalize piece c.n (min cfg.std.rtProbe (min takeLeft src)) = n at *
      obtain ⟨cap', he, e1, e2, e3⟩ := extend_eq ⟨cl, cc⟩ cfg.std n c.cap
      split
      · unfold fastReadEnd; dsimp only; split <;> fin
      · unfold readIntoColl; rw [he]; fin
    · obtain ⟨cap', he, e1, e2, e3⟩ := reserve_eq ⟨cl, cc⟩ cfg.std cfg.std.rtProbe c.cap
      rw [he]; fin
  · have pl := piece_le c.n (min (cc - cl) (min takeLeft src))
    generalize piece c.n (min (cc - cl) (min takeLeft src)) = n at *
    obtain ⟨cap', he, e1, e2, e3⟩ := extend_eq ⟨cl, cc⟩ cfg.std n c.cap
    split
    · unfold fastReadEnd; dsimp only; split <;> fin
    · unfold readIntoColl; rw [he]; fin

theorem step_probe
    (h : SendInv cfg inp.headLen cls s) (hpc : s.pc = .probe) : SendInv cfg inp.headLen cls (sendStep cfg inp s c) := by
  open_inv
  ctl_cases
  simp only [sendStep]
  split
  · fin
  · split
    · obtain ⟨cap', he, e1, e2, e3⟩ := reserve_eq ⟨cl, cc⟩ cfg.std (min (cfg.t.probeMax - cl) cfg.t.probeStep) c.cap
      rw [he]; fin
    · fin

theorem step_probeRead
    (h : SendInv cfg inp.headLen cls s) (hpc : s.pc = .probeRead) : SendInv cfg inp.headLen cls (sendStep cfg inp s c) := by
  open_inv
  ctl_cases
  simp only [sendStep]
  have pl := piece_le c.n (min (min (cfg.t.probeMax - cl) (cc - cl)) src)
  generalize piece c.n (min (min (cfg.t.probeMax - cl) (cc - cl)) src) = n at *
  split <;> fin

theorem step_headAlloc
    (h : SendInv cfg inp.headLen cls s) (hpc : s.pc = .headAlloc) : SendInv cfg inp.headLen cls (sendStep cfg inp s c) := by
  open_inv
  ctl_cases <;> simp only [sendStep] <;> fin

theorem step_headBuild
    (h : SendInv cfg inp.headLen cls s) (hpc : s.pc = .headBuild) : SendInv cfg inp.headLen cls (sendStep cfg inp s c) := by
  open_inv
  ctl_cases <;> simp only [sendStep] <;> split <;> (try split) <;>
    first
    | fin
    | (have pl := piece_le c.n (inp.headLen - hl)
       obtain ⟨cap', he, e1, e2, e3⟩ := extend_eq ⟨hl, hc⟩ cfg.std (piece c.n (inp.headLen - hl)) c.cap
       generalize piece c.n (inp.headLen - hl) = n at *
       rw [he]; fin)

theorem step_fastInline
    (h : SendInv cfg inp.headLen cls s) (hpc : s.pc = .fastInline) : SendInv cfg inp.headLen cls (sendStep cfg inp s c) := by
  open_inv
  obtain ⟨cap', he, e1, e2, e3⟩ := extend_eq ⟨hl, hc⟩ cfg.std cl c.cap
  ctl_cases <;> simp only [sendStep] <;> rw [he] <;> fin

theorem step_fastEmit
    (h : SendInv cfg inp.headLen cls s) (hpc : s.pc = .fastEmit) : SendInv cfg inp.headLen cls (sendStep cfg inp s c) := by
  open_inv
  ctl_cases <;> simp only [sendStep] <;> fin

end Khttp.Mem
