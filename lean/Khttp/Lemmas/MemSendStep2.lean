/- every step of the sending machine preserves `SendInv` (C20), second half: the `BufWriter` phases -/
import Khttp.Lemmas.MemSend
namespace Khttp.Mem
open Khttp
variable (cfg : SendCfg) (inp : SendInput) (cls : FClass) (s : SendState) (c : Choice)

theorem step_openBw
    (h : SendInv cfg inp.headLen cls s) (hpc : s.pc = .openBw) : SendInv cfg inp.headLen cls (sendStep cfg inp s c) := by
  have hb : s.bwBody = 0 := by
    have := h.bw_pre; have := h.bw_len; have := h.bw_body; rw [hpc] at *; dsimp only at *; omega
  obtain ⟨l, b, eb, et, hw, w1, w2, w3⟩ :=
    bwWrite_eq { s with bw := { len := 0, cap := cfg.std.bwCap } } inp.headLen 0 (Nat.zero_le _) (by dsimp only; omega)
      (Nat.zero_le _)
  open_inv
  ctl_cases <;> simp only [sendStep] <;> rw [hw] <;> (try split) <;> fin

theorem step_preSize (hwf : cfg.WF)
    (h : SendInv cfg inp.headLen cls s) (hpc : s.pc = .preSize) : SendInv cfg inp.headLen cls (sendStep cfg inp s c) := by
  obtain ⟨l1, b1, eb1, et1, hw1, a1, a2, a3⟩ :=
    bwWrite_eq { s with sizeLine := hexLen s.coll.len + 2 } (hexLen s.coll.len) 0 h.bw_len h.bw_body (by omega)
  obtain ⟨l2, b2, eb2, et2, hw2, c1, c2, c3⟩ :=
    bwWrite_eq { s with sizeLine := hexLen s.coll.len + 2, bw := { len := l1, cap := s.bw.cap }, bwBody := b1,
                        emitBody := eb1, emitTotal := et1 } 2 0 a1 a2 (by omega)
  have hx := hexLen_le s.coll.len (by have := h.coll_lim; have := hwf.1; omega)
  open_inv
  ctl_cases
  simp only [sendStep]
  rw [hw1, hw2]; fin

theorem step_preData
    (h : SendInv cfg inp.headLen cls s) (hpc : s.pc = .preData) : SendInv cfg inp.headLen cls (sendStep cfg inp s c) := by
  obtain ⟨l, b, eb, et, hw, w1, w2, w3⟩ := bwWrite_eq s s.coll.len s.coll.len h.bw_len h.bw_body (Nat.le_refl _)
  open_inv
  ctl_cases
  simp only [sendStep]
  rw [hw]; fin

theorem step_preCrlf
    (h : SendInv cfg inp.headLen cls s) (hpc : s.pc = .preCrlf) : SendInv cfg inp.headLen cls (sendStep cfg inp s c) := by
  obtain ⟨l, b, eb, et, hw, w1, w2, w3⟩ := bwWrite_eq s 2 0 h.bw_len h.bw_body (by omega)
  open_inv
  ctl_cases
  simp only [sendStep]
  rw [hw]; fin

theorem step_copy
    (h : SendInv cfg inp.headLen cls s) (hpc : s.pc = .copy) : SendInv cfg inp.headLen cls (sendStep cfg inp s c) := by
  open_inv
  ctl_cases
  simp only [sendStep]
  have pl := piece_le c.n (min (bc - bl) (min takeLeft src))
  generalize piece c.n (min (bc - bl) (min takeLeft src)) = n at *
  split
  · split <;> fin
  · unfold flushBw; fin

theorem step_copyStack
    (h : SendInv cfg inp.headLen cls s) (hpc : s.pc = .copyStack) : SendInv cfg inp.headLen cls (sendStep cfg inp s c) := by
  obtain ⟨l, b, eb, et, hw, w1, w2, w3⟩ := bwWrite_eq s s.chunkN s.chunkN h.bw_len h.bw_body (Nat.le_refl _)
  open_inv
  ctl_cases
  simp only [sendStep]
  have pl := piece_le c.n (min cfg.std.copyBuf (min takeLeft src))
  generalize piece c.n (min cfg.std.copyBuf (min takeLeft src)) = n at *
  split
  · split <;> fin
  · rw [hw]; fin

theorem step_copyCheck
    (h : SendInv cfg inp.headLen cls s) (hpc : s.pc = .copyCheck) : SendInv cfg inp.headLen cls (sendStep cfg inp s c) := by
  open_inv
  ctl_cases
  simp only [sendStep]
  fin

theorem step_chunkRead
    (h : SendInv cfg inp.headLen cls s) (hpc : s.pc = .chunkRead) : SendInv cfg inp.headLen cls (sendStep cfg inp s c) := by
  open_inv
  have pl := piece_le c.n (min cfg.t.chunkBufSize src)
  ctl_cases <;> simp only [sendStep] <;> generalize piece c.n (min cfg.t.chunkBufSize src) = n at * <;> split <;> fin

theorem step_chunkSize (hwf : cfg.WF)
    (h : SendInv cfg inp.headLen cls s) (hpc : s.pc = .chunkSize) : SendInv cfg inp.headLen cls (sendStep cfg inp s c) := by
  obtain ⟨l1, b1, eb1, et1, hw1, a1, a2, a3⟩ :=
    bwWrite_eq { s with sizeLine := hexLen s.chunkN + 2 } (hexLen s.chunkN) 0 h.bw_len h.bw_body (by omega)
  obtain ⟨l2, b2, eb2, et2, hw2, c1, c2, c3⟩ :=
    bwWrite_eq { s with sizeLine := hexLen s.chunkN + 2, bw := { len := l1, cap := s.bw.cap }, bwBody := b1,
                        emitBody := eb1, emitTotal := et1 } 2 0 a1 a2 (by omega)
  have hwf2 := hwf.2
  open_inv
  ctl_cases <;> simp only [sendStep] <;> rw [hw1, hw2] <;>
    (have hx := hexLen_le chunkN (by omega); fin)

theorem step_chunkData
    (h : SendInv cfg inp.headLen cls s) (hpc : s.pc = .chunkData) : SendInv cfg inp.headLen cls (sendStep cfg inp s c) := by
  obtain ⟨l, b, eb, et, hw, w1, w2, w3⟩ := bwWrite_eq s s.chunkN s.chunkN h.bw_len h.bw_body (Nat.le_refl _)
  open_inv
  ctl_cases <;> simp only [sendStep] <;> rw [hw] <;> fin

theorem step_chunkCrlf
    (h : SendInv cfg inp.headLen cls s) (hpc : s.pc = .chunkCrlf) : SendInv cfg inp.headLen cls (sendStep cfg inp s c) := by
  obtain ⟨l, b, eb, et, hw, w1, w2, w3⟩ := bwWrite_eq s 2 0 h.bw_len h.bw_body (by omega)
  open_inv
  ctl_cases <;> simp only [sendStep] <;> rw [hw] <;> fin

theorem step_chunkTerm
    (h : SendInv cfg inp.headLen cls s) (hpc : s.pc = .chunkTerm) : SendInv cfg inp.headLen cls (sendStep cfg inp s c) := by
  obtain ⟨l, b, eb, et, hw, w1, w2, w3⟩ := bwWrite_eq s 5 0 h.bw_len h.bw_body (by omega)
  open_inv
  ctl_cases <;> simp only [sendStep] <;> rw [hw] <;> fin

theorem step_finish
    (h : SendInv cfg inp.headLen cls s) (hpc : s.pc = .finish) : SendInv cfg inp.headLen cls (sendStep cfg inp s c) := by
  open_inv
  ctl_cases <;> simp only [sendStep, flushBw] <;> (try split) <;> fin

end Khttp.Mem
