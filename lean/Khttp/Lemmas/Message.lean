/- the reference decoder of Spec/Message inverts the renderer (`decode_render`) -/
import Khttp.Spec.Message
import Khttp.Lemmas.PrinterNum
namespace Khttp.Spec.Message
open Khttp Khttp.Printer

theorem takeWhile_append_stop {α} (p : α → Bool) (l : List α) (a : α) (r : List α)
    (hl : ∀ x ∈ l, p x = true) (ha : p a = false) :
    (l ++ a :: r).takeWhile p = l ∧ (l ++ a :: r).dropWhile p = a :: r := by
  induction l with
  | nil => simp [List.takeWhile, List.dropWhile, ha]
  | cons x l ih =>
    have hx := hl x (by simp)
    have := ih (fun y hy => hl y (by simp [hy]))
    simp [List.takeWhile, List.dropWhile, hx, this.1, this.2]

theorem noCRLF_cons (a : UInt8) (l : Bytes) : noCRLF (a :: l) = ((a != CR && a != LF) && noCRLF l) := by
  simp [noCRLF]

theorem noCRLF_append (a b : Bytes) : noCRLF (a ++ b) = (noCRLF a && noCRLF b) := by
  simp [noCRLF]

theorem splitCRLF_append (l r : Bytes) (h : noCRLF l = true) : splitCRLF (l ++ CR :: LF :: r) = some (l, r) := by
  induction l with
  | nil => simp [splitCRLF]
  | cons a l ih =>
    rw [noCRLF_cons] at h
    simp only [Bool.and_eq_true, bne_iff_ne, ne_eq] at h
    have ha : (a == CR) = false := by simp [h.1.1]
    cases l with
    | nil => simp [splitCRLF, ha]
    | cons b l' =>
      have := ih h.2
      simp only [List.cons_append] at this ⊢
      simp [splitCRLF, ha, this]

theorem tchar_facts (b : UInt8) (h : isTchar b = true) : b ≠ COLON ∧ b ≠ CR ∧ b ≠ LF ∧ b ≠ SP := by
  refine ⟨?_, ?_, ?_, ?_⟩ <;> (intro e; subst e; revert h; decide)

theorem token_noCRLF (n : Bytes) (h : n.all isTchar = true) : noCRLF n = true := by
  simp only [noCRLF, List.all_eq_true] at h ⊢
  intro b hb
  have := tchar_facts b (h b hb)
  simp [this.2.1, this.2.2.1]

-- ---------------------------------------------------------------- optional whitespace

theorem dropWhile_head_false {α} (p : α → Bool) (l : List α) (h : ∀ a ∈ l.head?, p a = false) : l.dropWhile p = l := by
  cases l with
  | nil => rfl
  | cons a t => simp [List.dropWhile, h a (by simp)]

theorem trimOws_sp (v : Bytes) : trimOws (SP :: v) = trimOws v := by
  simp [trimOws, List.dropWhile, isOws]

/-- a value without SP/HT is reported unchanged -/
theorem trimOws_id (v : Bytes) (h : ∀ b ∈ v, isOws b = false) : trimOws v = v := by
  unfold trimOws
  rw [dropWhile_head_false _ v (by intro a ha; exact h a (List.mem_of_mem_head? ha))]
  rw [dropWhile_head_false _ v.reverse (by
    intro a ha; exact h a (by have := List.mem_of_mem_head? ha; simpa using this))]
  simp

theorem digit_facts (b : UInt8) (h : isDigit b = true) : b ≠ CR ∧ b ≠ LF ∧ b ≠ SP ∧ b ≠ HT := by
  refine ⟨?_, ?_, ?_, ?_⟩ <;> (intro e; subst e; revert h; decide)

theorem digit_not_ows (b : UInt8) (h : isDigit b = true) : isOws b = false := by
  have := digit_facts b h
  simp [isOws, this.2.2.1, this.2.2.2]

theorem digits_noCRLF (l : Bytes) (h : l.all isDigit = true) : noCRLF l = true := by
  simp only [noCRLF, List.all_eq_true] at h ⊢
  intro x hx
  have := digit_facts x (h x hx)
  simp [this.1, this.2.1]

theorem trimOws_decNumeral (n : Nat) : trimOws (decNumeral n) = decNumeral n := by
  apply trimOws_id
  intro b hb
  have := (decNumeral_spec n).2
  rw [List.all_eq_true] at this
  exact digit_not_ows b (this b hb)

-- ---------------------------------------------------------------- field lines

theorem parseFieldLine_render (f : Bytes × Bytes) (hn : isToken f.1 = true) :
    parseFieldLine (f.1 ++ [COLON, SP] ++ f.2) = some (f.1, trimOws f.2) := by
  have hall : ∀ x ∈ f.1, (x != COLON) = true := by
    simp only [isToken, Bool.and_eq_true, List.all_eq_true] at hn
    intro x hx; simp [(tchar_facts x (hn.2 x hx)).1]
  have hc : (COLON != COLON) = false := by decide
  have := takeWhile_append_stop (· != COLON) f.1 COLON (SP :: f.2) hall hc
  unfold parseFieldLine
  simp only [List.append_assoc, List.cons_append, List.nil_append]
  rw [this.1, this.2]
  simp [hn, trimOws_sp]

theorem fieldLine_split (f : Bytes × Bytes) (hw : wfField f = true) (more : Bytes) :
    splitCRLF (fieldLine f ++ more) = some (f.1 ++ [COLON, SP] ++ f.2, more) := by
  simp only [wfField, isToken, Bool.and_eq_true] at hw
  have : fieldLine f ++ more = (f.1 ++ [COLON, SP] ++ f.2) ++ CR :: LF :: more := by
    simp [fieldLine, CRLF]
  rw [this]
  apply splitCRLF_append
  rw [noCRLF_append, noCRLF_append, token_noCRLF _ hw.1.2, hw.2]
  decide

theorem parseFields_render (fields : List (Bytes × Bytes)) (hw : wfFields fields = true) (rest : Bytes) :
    ∀ fuel, fields.length < fuel →
    parseFields fuel (fields.flatMap fieldLine ++ CRLF ++ rest) = some (trimValues fields, rest) := by
  induction fields with
  | nil =>
    intro fuel hf
    cases fuel with
    | zero => omega
    | succ fuel => simp [parseFields, CRLF, splitCRLF, trimValues]
  | cons f fs ih =>
    intro fuel hf
    cases fuel with
    | zero => omega
    | succ fuel =>
      simp only [wfFields, List.all_cons, Bool.and_eq_true] at hw
      have hsplit := fieldLine_split f hw.1 (fs.flatMap fieldLine ++ CRLF ++ rest)
      have htok : isToken f.1 = true := by
        have := hw.1; simp only [wfField, Bool.and_eq_true] at this; exact this.1
      have hne : f.1 ++ [COLON, SP] ++ f.2 ≠ [] := by
        simp
      simp only [parseFields, List.flatMap_cons, List.append_assoc] at hsplit ⊢
      rw [hsplit]
      have ih' := ih (by simpa [wfFields] using hw.2) fuel (by simp at hf; omega)
      simp only [List.append_assoc] at ih'
      cases hl : f.1 ++ ([COLON, SP] ++ f.2) with
      | nil => simp at hl
      | cons a t =>
        simp only []
        rw [← hl]
        have := parseFieldLine_render f htok
        simp only [List.append_assoc] at this
        rw [this, ih']
        simp [trimValues]

theorem flatMap_fieldLine_length (fields : List (Bytes × Bytes)) :
    fields.length ≤ (fields.flatMap fieldLine).length := by
  induction fields with
  | nil => simp
  | cons f fs ih =>
    have : 1 ≤ (fieldLine f).length := by simp [fieldLine, CRLF]; omega
    simp only [List.flatMap_cons, List.length_append, List.length_cons]; omega

-- ---------------------------------------------------------------- chunked bodies

theorem lastChunk_eq : lastChunk = [0x30, CR, LF, CR, LF] := by decide +kernel

theorem cr_not_hex : isHexDigit CR = false := by decide

theorem decodeChunked_render (chunks : List Bytes) (hne : ∀ c ∈ chunks, c ≠ []) (rest : Bytes) :
    ∀ fuel, chunks.length < fuel →
    decodeChunked fuel (encodeChunkedPlain chunks ++ rest) = some (chunks.flatten, rest) := by
  induction chunks with
  | nil =>
    intro fuel hf
    cases fuel with
    | zero => omega
    | succ fuel =>
      simp only [encodeChunkedPlain, List.flatMap_nil, List.nil_append, lastChunk_eq, List.cons_append]
      simp [decodeChunked, List.takeWhile, List.dropWhile, isHexDigit, isDigit, CR, LF, hexVal, hexDigitVal]
  | cons c cs ih =>
    intro fuel hf
    cases fuel with
    | zero => omega
    | succ fuel =>
      have hc : c ≠ [] := hne c (by simp)
      have hcl : c.length ≠ 0 := by
        intro h; exact hc (List.length_eq_zero_iff.1 h)
      have hspec := hexNumeral_spec c.length
      have hall : ∀ x ∈ hexNumeral c.length, isHexDigit x = true := by
        have := hspec.2; rwa [List.all_eq_true] at this
      have e : encodeChunkedPlain (c :: cs) ++ rest
          = hexNumeral c.length ++ CR :: (LF :: (c ++ CR :: LF :: (encodeChunkedPlain cs ++ rest))) := by
        simp [encodeChunkedPlain, encodeChunk, CRLF]
      rw [e]
      have tw := takeWhile_append_stop isHexDigit (hexNumeral c.length) CR
        (LF :: (c ++ CR :: LF :: (encodeChunkedPlain cs ++ rest))) hall cr_not_hex
      have ih' := ih (fun x hx => hne x (by simp [hx])) fuel (by simp at hf; omega)
      simp only [decodeChunked]
      rw [tw.1, tw.2]
      have hnn : (hexNumeral c.length == []) = false := by
        simp [hexNumeral_ne_nil]
      simp only [hnn, Bool.false_eq_true, if_false, beq_self_eq_true, Bool.and_self, if_true, hspec.1]
      have h0 : (c.length == 0) = false := by simp [hcl]
      simp only [h0, Bool.false_eq_true, if_false]
      have hle : c.length ≤ (c ++ CR :: LF :: (encodeChunkedPlain cs ++ rest)).length := by simp
      simp only [hle, if_true, List.drop_left, List.take_left, beq_self_eq_true, Bool.and_self, ih']
      simp

theorem encodeChunkedPlain_length (chunks : List Bytes) : chunks.length < (encodeChunkedPlain chunks).length := by
  induction chunks with
  | nil => simp [encodeChunkedPlain, lastChunk_eq]
  | cons c cs ih =>
    simp only [encodeChunkedPlain, List.flatMap_cons, List.length_append, List.length_cons] at ih ⊢
    have : 0 < (encodeChunk c).length := by simp [encodeChunk, CRLF]; omega
    omega

-- ---------------------------------------------------------------- whole messages

theorem framingWf_iff (fr : Framing) : framingWf fr = true ↔ fr.Wf := by
  cases fr <;> simp [framingWf, Framing.Wf]

/-- DECODE ∘ RENDER: a rendered message followed by arbitrary bytes `extra` decodes to its parts and `extra`
    (so the rendering is self-delimiting). -/
theorem decodeMessage_render (start : Bytes) (fields : List (Bytes × Bytes)) (fr : Framing) (extra : Bytes)
    (hs : noCRLF start = true) (hf : wfFields fields = true) (hfr : framingOk fields fr = true)
    (hw : framingWf fr = true) :
    decodeMessage (renderMessage start fields fr ++ extra) = some (start, trimValues fields, fr.body, extra) := by
  have e : renderMessage start fields fr ++ extra
      = start ++ CR :: LF :: (fields.flatMap fieldLine ++ CRLF ++ (encodeBody fr ++ extra)) := by
    simp [renderMessage, renderHead, CRLF]
  unfold decodeMessage
  rw [e, splitCRLF_append _ _ hs]
  simp only []
  have hlen : fields.length < (fields.flatMap fieldLine ++ CRLF ++ (encodeBody fr ++ extra)).length + 1 := by
    have := flatMap_fieldLine_length fields
    simp only [List.length_append]; omega
  rw [parseFields_render fields hf _ _ hlen]
  simp only []
  unfold framingOk at hfr
  unfold decodeBody
  cases hflt : (trimValues fields).filter isFramingField with
  | nil => simp [hflt] at hfr
  | cons f tl =>
    cases tl with
    | cons g tl' => simp [hflt] at hfr
    | nil =>
      rw [hflt] at hfr
      cases fr with
      | length b =>
        simp only [Bool.and_eq_true, beq_iff_eq] at hfr
        simp [hfr.1, hfr.2, parseDec_decNumeral, encodeBody, Framing.body]
      | chunked cs =>
        simp only [Bool.and_eq_true, Bool.not_eq_true'] at hfr
        have hne : ∀ c ∈ cs, c ≠ [] := by
          have := (framingWf_iff (.chunked cs)).1 hw
          exact this
        have hl := encodeChunkedPlain_length cs
        have := decodeChunked_render cs hne extra ((encodeChunkedPlain cs ++ extra).length + 1)
          (by simp only [List.length_append]; omega)
        simp only [List.length_append] at this
        simp [hfr.1, hfr.2, encodeBody, Framing.body, this]

-- ---------------------------------------------------------------- start lines

theorem http11sp : str "HTTP/1.1 " = [0x48, 0x54, 0x54, 0x50, 0x2f, 0x31, 0x2e, 0x31, 0x20] := by decide +kernel

theorem parseStatusStart_render (code : Nat) (reason : Bytes) (lo : 100 ≤ code) (hi : code ≤ 999) :
    parseStatusStart (statusStart code reason) = some (code, reason) := by
  obtain ⟨a, b, c, hd, ha, hb, hc, hv⟩ := decNumeral_three code lo hi
  unfold parseStatusStart statusStart
  rw [hd, http11sp]
  simp [List.isPrefixOf, ha, hb, hc, hv]

theorem noCRLF_statusStart (code : Nat) (reason : Bytes) (h : noCRLF reason = true) :
    noCRLF (statusStart code reason) = true := by
  unfold statusStart
  rw [noCRLF_append, noCRLF_append, noCRLF_append, h]
  have hd : noCRLF (decNumeral code) = true := digits_noCRLF _ (decNumeral_spec code).2
  rw [hd, http11sp]; decide

theorem http11 : str "HTTP/1.1" = [0x48, 0x54, 0x54, 0x50, 0x2f, 0x31, 0x2e, 0x31] := by decide +kernel

def noSP (bs : Bytes) : Bool := bs.all (· != SP)

theorem parseRequestStart_render (m u : Bytes) (hm : isToken m = true) (hu : u ≠ []) (hus : noSP u = true) :
    parseRequestStart (requestStart m u) = some (m, u) := by
  have hall : ∀ x ∈ m, (x != SP) = true := by
    simp only [isToken, Bool.and_eq_true, List.all_eq_true] at hm
    intro x hx; simp [(tchar_facts x (hm.2 x hx)).2.2.2]
  have hsp : (SP != SP) = false := by decide
  have hall2 : ∀ x ∈ u, (x != SP) = true := by
    simpa [noSP] using hus
  have t1 := takeWhile_append_stop (· != SP) m SP (u ++ [SP] ++ str "HTTP/1.1") hall hsp
  have t2 := takeWhile_append_stop (· != SP) u SP (str "HTTP/1.1") hall2 hsp
  unfold parseRequestStart requestStart
  simp only [List.append_assoc, List.cons_append, List.nil_append] at t1 t2 ⊢
  rw [t1.1, t1.2]
  simp only []
  rw [t2.1, t2.2]
  simp [hm, hu]

theorem noCRLF_requestStart (m u : Bytes) (hm : isToken m = true) (hu : noCRLF u = true) :
    noCRLF (requestStart m u) = true := by
  unfold requestStart
  simp only [isToken, Bool.and_eq_true] at hm
  rw [noCRLF_append, noCRLF_append, noCRLF_append, noCRLF_append, token_noCRLF _ hm.2, hu, http11]
  decide

/-- `decode_render` for responses -/
theorem decodeResponse_render (code : Nat) (reason : Bytes) (fields : List (Bytes × Bytes)) (fr : Framing)
    (extra : Bytes) (lo : 100 ≤ code) (hi : code ≤ 999) (hr : noCRLF reason = true)
    (hf : wfFields fields = true) (hfr : framingOk fields fr = true) (hw : framingWf fr = true) :
    decodeResponse (renderMessage (statusStart code reason) fields fr ++ extra)
      = some (code, reason, trimValues fields, fr.body, extra) := by
  unfold decodeResponse
  rw [decodeMessage_render _ _ _ _ (noCRLF_statusStart code reason hr) hf hfr hw]
  simp [parseStatusStart_render code reason lo hi]

/-- `decode_render` for requests -/
theorem decodeRequest_render (m u : Bytes) (fields : List (Bytes × Bytes)) (fr : Framing)
    (extra : Bytes) (hm : isToken m = true) (hu : u ≠ []) (hus : noSP u = true) (huc : noCRLF u = true)
    (hf : wfFields fields = true) (hfr : framingOk fields fr = true) (hw : framingWf fr = true) :
    decodeRequest (renderMessage (requestStart m u) fields fr ++ extra)
      = some (m, u, trimValues fields, fr.body, extra) := by
  unfold decodeRequest
  rw [decodeMessage_render _ _ _ _ (noCRLF_requestStart m u hm huc) hf hfr hw]
  simp [parseRequestStart_render m u hm hu hus]

-- ---------------------------------------------------------------- generated framing field

theorem filter_none {α} (p : α → Bool) (l : List α) (h : l.all (fun x => !p x) = true) : l.filter p = [] := by
  rw [List.filter_eq_nil_iff]
  intro a ha
  have := List.all_eq_true.1 h a ha
  simpa using this

theorem trimValues_append (a b : List (Bytes × Bytes)) : trimValues (a ++ b) = trimValues a ++ trimValues b := by
  simp [trimValues]

theorem noFramingName_trim (fs : List (Bytes × Bytes)) (h : noFramingName fs = true) :
    (trimValues fs).filter isFramingField = [] := by
  apply filter_none
  simp only [noFramingName, List.all_eq_true] at h
  simp only [trimValues, List.all_map, List.all_eq_true]
  intro x hx
  have := h x hx
  simpa [isFramingField, isCL, isTE] using this

theorem dateField_noFraming (d : Option Bytes) : noFramingName (dateField d) = true := by
  cases d with
  | none => rfl
  | some v =>
    have : isFramingField (str "date", v) = false := by
      simp only [isFramingField, isCL, isTE]
      decide +kernel
    simp [dateField, noFramingName, this]

theorem wfFields_append (a b : List (Bytes × Bytes)) : wfFields (a ++ b) = (wfFields a && wfFields b) := by
  simp [wfFields]

theorem framingField_facts (fr : Framing) :
    isFramingField (framingField fr) = true ∧ isToken (framingField fr).1 = true := by
  cases fr with
  | length b =>
    have h1 : eqIgnoreCase CONTENT_LENGTH CONTENT_LENGTH = true := by decide +kernel
    have h2 : isToken CONTENT_LENGTH = true := by decide +kernel
    simp [framingField, clField, isFramingField, isCL, h1, h2]
  | chunked cs =>
    have h1 : eqIgnoreCase TRANSFER_ENCODING TRANSFER_ENCODING = true := by decide +kernel
    have h2 : isToken TRANSFER_ENCODING = true := by decide +kernel
    simp [framingField, teField, isFramingField, isTE, h1, h2]

/-- the generated header section announces its framing unambiguously when the user fields do not name a framing field -/
theorem framingOk_allFields (user : List (Bytes × Bytes)) (date : Option Bytes) (fr : Framing)
    (hu : noFramingName user = true) : framingOk (allFields user date fr) fr = true := by
  unfold framingOk allFields
  rw [trimValues_append, trimValues_append, List.filter_append, List.filter_append,
    noFramingName_trim _ hu, noFramingName_trim _ (dateField_noFraming date)]
  cases fr with
  | length b =>
    have h1 : eqIgnoreCase CONTENT_LENGTH CONTENT_LENGTH = true := by decide +kernel
    simp [trimValues, framingField, clField, isFramingField, isCL, h1, trimOws_decNumeral]
  | chunked cs =>
    have h1 : eqIgnoreCase TRANSFER_ENCODING TRANSFER_ENCODING = true := by decide +kernel
    have h2 : eqIgnoreCase TRANSFER_ENCODING CONTENT_LENGTH = false := by decide +kernel
    have h3 : lastCodingChunked (trimOws (str "chunked")) = true := by decide +kernel
    simp [trimValues, framingField, teField, isFramingField, isCL, isTE, h1, h2, h3]

theorem wfFields_allFields (user : List (Bytes × Bytes)) (date : Option Bytes) (fr : Framing)
    (hu : wfFields user = true) (hd : ∀ v, date = some v → noCRLF v = true) :
    wfFields (allFields user date fr) = true := by
  unfold allFields
  rw [wfFields_append, wfFields_append, hu]
  have h1 : wfFields (dateField date) = true := by
    cases date with
    | none => rfl
    | some v =>
      have : isToken (str "date") = true := by decide +kernel
      simp [dateField, wfFields, wfField, this, hd v rfl]
  have h2 : wfFields [framingField fr] = true := by
    cases fr with
    | length b =>
      have t : isToken CONTENT_LENGTH = true := by decide +kernel
      have hd : noCRLF (decNumeral b.length) = true := digits_noCRLF _ (decNumeral_spec b.length).2
      simp [wfFields, wfField, framingField, clField, t, hd]
    | chunked cs =>
      have t : isToken TRANSFER_ENCODING = true := by decide +kernel
      have t2 : noCRLF (str "chunked") = true := by decide +kernel
      simp [wfFields, wfField, framingField, teField, t, t2]
  simp [h1, h2]

end Khttp.Spec.Message
