/- Inductive invariant of the worker-pool transition system and arithmetic helper lemmas (for `Props/C13.lean`). -/
import Khttp.Model.Pool
namespace Khttp.Pool

/-- weight of a job status in the shutdown variant -/
def JStatus.weight : JStatus → Nat
  | .fresh => 0
  | .queued => 3
  | .running _ => 1
  | .done => 0

/-- weight of a worker state in the shutdown variant -/
def WState.weight : WState → Nat
  | .idle => 2
  | .locked => 1
  | .running _ => 2
  | .exited => 0

/-- `sumBelow f n = f 0 + … + f (n-1)` -/
def sumBelow (f : Nat → Nat) : Nat → Nat
  | 0 => 0
  | n + 1 => sumBelow f n + f n

/-- The inductive invariant. -/
structure PoolInv (s : State) : Prop where
  size_pos : 0 < s.size
  /-- the mutex is held exactly by the worker that is in state `locked` -/
  lock_iff : ∀ w, s.lock = some w ↔ s.worker w = .locked
  /-- indices ≥ size are not threads: they never move -/
  out_idle : ∀ w, s.size ≤ w → s.worker w = .idle
  fresh_iff : ∀ j, s.status j = .fresh ↔ s.next ≤ j
  queued_iff : ∀ j, s.status j = .queued ↔ j ∈ s.queue
  /-- the channel holds job ids in strictly increasing (= submission) order; in particular no duplicates -/
  queue_sorted : s.queue.Pairwise (· < ·)
  running_iff : ∀ j w, s.status j = .running w ↔ s.worker w = .running j
  count : ∀ j, s.runCount j = match s.status j with
    | .fresh => 0 | .queued => 0 | .running _ => 1 | .done => 1
  alive_iff : s.senderAlive = true ↔ s.main = .submitting
  alive_no_exit : s.main = .submitting → ∀ w, s.worker w ≠ .exited
  exit_empty : ∀ w, s.worker w = .exited → s.queue = []
  joined : ∀ k, s.main = .joining k → k ≤ s.size ∧ ∀ w, w < k → s.worker w = .exited
  returned : s.main = .returned → ∀ w, w < s.size → s.worker w = .exited

theorem PoolInv.init {n : Nat} (h : 1 ≤ n) : PoolInv (init n) := by
  constructor <;> simp [Pool.init] <;> omega

theorem PoolInv.queue_lt {s : State} (I : PoolInv s) {j : Nat} (h : j ∈ s.queue) : j < s.next := by
  have h1 := (I.queued_iff j).mpr h
  have h2 := I.fresh_iff j
  rw [h1] at h2
  simp at h2
  omega

theorem PoolInv.lock_lt {s : State} (I : PoolInv s) {w : Nat} (h : s.lock = some w) : w < s.size := by
  have h1 := (I.lock_iff w).mp h
  apply Classical.byContradiction
  intro hn
  have := I.out_idle w (by omega)
  rw [this] at h1
  cases h1

theorem head?_eq_some_cons {l : List Nat} {j : Nat} (h : l.head? = some j) : l = j :: l.tail := by
  cases l with
  | nil => simp at h
  | cons a t => simp at h; simp [h]

theorem PoolInv.step {s t : State} {e : Event} (I : PoolInv s) (h : StepE s e t) : PoolInv t := by
  obtain ⟨en, rfl⟩ := h
  cases e with
  | submit j =>
    obtain ⟨hm, ha, rfl⟩ := en
    have hfresh : s.status s.next = .fresh := (I.fresh_iff _).mpr (Nat.le_refl _)
    constructor <;> simp only [apply]
    · exact I.size_pos
    · exact I.lock_iff
    · exact I.out_idle
    · intro j
      by_cases hj : j = s.next
      · subst hj; simp
      · rw [upd_other _ _ _ _ hj, I.fresh_iff]; omega
    · intro j
      by_cases hj : j = s.next
      · subst hj; simp
      · rw [upd_other _ _ _ _ hj, I.queued_iff]; simp [hj]
    · rw [List.pairwise_append]
      refine ⟨I.queue_sorted, by simp, ?_⟩
      intro a ha b hb
      simp at hb; subst hb
      exact I.queue_lt ha
    · intro j w
      by_cases hj : j = s.next
      · subst hj
        simp only [upd_same]
        constructor
        · intro h; cases h
        · intro h; have := (I.running_iff _ _).mpr h; rw [hfresh] at this; cases this
      · rw [upd_other _ _ _ _ hj]; exact I.running_iff j w
    · intro j
      by_cases hj : j = s.next
      · subst hj; simp only [upd_same]; have := I.count s.next; rw [hfresh] at this; exact this
      · rw [upd_other _ _ _ _ hj]; exact I.count j
    · exact I.alive_iff
    · exact I.alive_no_exit
    · intro w hw; exact absurd hw (I.alive_no_exit hm w)
    · intro k hk; rw [hm] at hk; cases hk
    · intro hk; rw [hm] at hk; cases hk
  | acquire w =>
    obtain ⟨hw, hi, hl⟩ := en
    have hnl : ∀ w', s.worker w' ≠ .locked := by
      intro w' h'; have := (I.lock_iff w').mpr h'; rw [hl] at this; cases this
    constructor <;> simp only [apply]
    · exact I.size_pos
    · intro w'
      by_cases h' : w' = w
      · subst h'; simp
      · rw [upd_other _ _ _ _ h']
        constructor
        · intro h; cases h; exact absurd rfl h'
        · intro h; exact absurd h (hnl w')
    · intro w' h'
      rw [upd_other _ _ _ _ (by omega)]; exact I.out_idle w' h'
    · exact I.fresh_iff
    · exact I.queued_iff
    · exact I.queue_sorted
    · intro j w'
      by_cases h' : w' = w
      · subst h'; simp only [upd_same]
        constructor
        · intro h; have := (I.running_iff _ _).mp h; rw [hi] at this; cases this
        · intro h; cases h
      · rw [upd_other _ _ _ _ h']; exact I.running_iff j w'
    · exact I.count
    · exact I.alive_iff
    · intro hm w'
      by_cases h' : w' = w
      · subst h'; simp
      · rw [upd_other _ _ _ _ h']; exact I.alive_no_exit hm w'
    · intro w'
      by_cases h' : w' = w
      · subst h'; simp
      · rw [upd_other _ _ _ _ h']; exact I.exit_empty w'
    · intro k hk
      refine ⟨(I.joined k hk).1, ?_⟩
      intro w' hw'
      have := (I.joined k hk).2 w' hw'
      have h' : w' ≠ w := by intro e; subst e; rw [hi] at this; cases this
      rw [upd_other _ _ _ _ h']; exact this
    · intro hr w' hw'
      have := I.returned hr w' hw'
      have h' : w' ≠ w := by intro e; subst e; rw [hi] at this; cases this
      rw [upd_other _ _ _ _ h']; exact this
  | recvJob w j =>
    obtain ⟨hw, hi, hl, hq⟩ := en
    have hq' := head?_eq_some_cons hq
    have hjq : s.status j = .queued := (I.queued_iff j).mpr (by rw [hq']; simp)
    have hsorted := I.queue_sorted
    rw [hq', List.pairwise_cons] at hsorted
    have hnl : ∀ w', w' ≠ w → s.worker w' ≠ .locked := by
      intro w' hne h'; have := (I.lock_iff w').mpr h'; rw [hl] at this; cases this; exact hne rfl
    constructor <;> simp only [apply]
    · exact I.size_pos
    · intro w'
      by_cases h' : w' = w
      · subst h'; simp
      · rw [upd_other _ _ _ _ h']; simp [hnl w' h']
    · intro w' h'
      rw [upd_other _ _ _ _ (by omega)]; exact I.out_idle w' h'
    · intro j'
      by_cases h' : j' = j
      · subst h'; simp only [upd_same]
        have := I.fresh_iff j'; rw [hjq] at this
        constructor
        · intro h; cases h
        · intro h; exact absurd (this.mpr h) (by simp)
      · rw [upd_other _ _ _ _ h']; exact I.fresh_iff j'
    · intro j'
      by_cases h' : j' = j
      · subst h'; simp only [upd_same]
        constructor
        · intro h; cases h
        · intro h; have := hsorted.1 _ h; omega
      · rw [upd_other _ _ _ _ h', I.queued_iff]
        conv => lhs; rw [hq']
        simp [h']
    · exact hsorted.2
    · intro j' w'
      by_cases hj' : j' = j <;> by_cases hw' : w' = w
      · subst hj'; subst hw'; simp
      · subst hj'
        rw [upd_same, upd_other _ _ _ _ hw']
        constructor
        · intro h; cases h; exact absurd rfl hw'
        · intro h; have := (I.running_iff _ _).mpr h; rw [hjq] at this; cases this
      · subst hw'
        rw [upd_same, upd_other _ _ _ _ hj']
        constructor
        · intro h; have := (I.running_iff _ _).mp h; rw [hi] at this; cases this
        · intro h; cases h; exact absurd rfl hj'
      · rw [upd_other _ _ _ _ hj', upd_other _ _ _ _ hw']; exact I.running_iff j' w'
    · intro j'
      by_cases h' : j' = j
      · subst h'; simp only [upd_same]
        have := I.count j'; rw [hjq] at this; simp at this; omega
      · rw [upd_other _ _ _ _ h', upd_other _ _ _ _ h']; exact I.count j'
    · exact I.alive_iff
    · intro hm w'
      by_cases h' : w' = w
      · subst h'; simp
      · rw [upd_other _ _ _ _ h']; exact I.alive_no_exit hm w'
    · intro w'
      by_cases h' : w' = w
      · subst h'; simp
      · rw [upd_other _ _ _ _ h']
        intro he; have := I.exit_empty w' he; rw [this] at hq; simp at hq
    · intro k hk
      refine ⟨(I.joined k hk).1, ?_⟩
      intro w' hw'
      have := (I.joined k hk).2 w' hw'
      have h' : w' ≠ w := by intro e; subst e; rw [hi] at this; cases this
      rw [upd_other _ _ _ _ h']; exact this
    · intro hr w' hw'
      have := I.returned hr w' hw'
      have h' : w' ≠ w := by intro e; subst e; rw [hi] at this; cases this
      rw [upd_other _ _ _ _ h']; exact this
  | recvDisconnected w =>
    obtain ⟨hw, hi, hl, hq, ha⟩ := en
    have hnl : ∀ w', w' ≠ w → s.worker w' ≠ .locked := by
      intro w' hne h'; have := (I.lock_iff w').mpr h'; rw [hl] at this; cases this; exact hne rfl
    have hns : s.main ≠ .submitting := by
      intro h; have := I.alive_iff.mpr h; rw [ha] at this; cases this
    constructor <;> simp only [apply]
    · exact I.size_pos
    · intro w'
      by_cases h' : w' = w
      · subst h'; simp
      · rw [upd_other _ _ _ _ h']; simp [hnl w' h']
    · intro w' h'
      rw [upd_other _ _ _ _ (by omega)]; exact I.out_idle w' h'
    · exact I.fresh_iff
    · exact I.queued_iff
    · exact I.queue_sorted
    · intro j w'
      by_cases h' : w' = w
      · subst h'; simp only [upd_same]
        constructor
        · intro h; have := (I.running_iff _ _).mp h; rw [hi] at this; cases this
        · intro h; cases h
      · rw [upd_other _ _ _ _ h']; exact I.running_iff j w'
    · exact I.count
    · exact I.alive_iff
    · intro hm; exact absurd hm hns
    · intro _ _; exact hq
    · intro k hk
      refine ⟨(I.joined k hk).1, ?_⟩
      intro w' hw'
      by_cases h' : w' = w
      · subst h'; simp
      · rw [upd_other _ _ _ _ h']; exact (I.joined k hk).2 w' hw'
    · intro hr w' hw'
      by_cases h' : w' = w
      · subst h'; simp
      · rw [upd_other _ _ _ _ h']; exact I.returned hr w' hw'
  | finish w j =>
    obtain ⟨hw, hi⟩ := en
    have hjr : s.status j = .running w := (I.running_iff j w).mpr hi
    constructor <;> simp only [apply]
    · exact I.size_pos
    · intro w'
      by_cases h' : w' = w
      · subst h'; simp only [upd_same]
        constructor
        · intro h; have := (I.lock_iff _).mp h; rw [hi] at this; cases this
        · intro h; cases h
      · rw [upd_other _ _ _ _ h']; exact I.lock_iff w'
    · intro w' h'
      rw [upd_other _ _ _ _ (by omega)]; exact I.out_idle w' h'
    · intro j'
      by_cases h' : j' = j
      · subst h'; simp only [upd_same]
        have := I.fresh_iff j'; rw [hjr] at this
        constructor
        · intro h; cases h
        · intro h; exact absurd (this.mpr h) (by simp)
      · rw [upd_other _ _ _ _ h']; exact I.fresh_iff j'
    · intro j'
      by_cases h' : j' = j
      · subst h'; simp only [upd_same]
        have := I.queued_iff j'; rw [hjr] at this
        constructor
        · intro h; cases h
        · intro h; exact absurd (this.mpr h) (by simp)
      · rw [upd_other _ _ _ _ h']; exact I.queued_iff j'
    · exact I.queue_sorted
    · intro j' w'
      by_cases hj' : j' = j <;> by_cases hw' : w' = w
      · subst hj'; subst hw'; simp
      · subst hj'
        rw [upd_same, upd_other _ _ _ _ hw']
        constructor
        · intro h; cases h
        · intro h; have := (I.running_iff _ _).mpr h; rw [hjr] at this; cases this; exact absurd rfl hw'
      · subst hw'
        rw [upd_same, upd_other _ _ _ _ hj']
        constructor
        · intro h; have := (I.running_iff _ _).mp h; rw [hi] at this; cases this; exact absurd rfl hj'
        · intro h; cases h
      · rw [upd_other _ _ _ _ hj', upd_other _ _ _ _ hw']; exact I.running_iff j' w'
    · intro j'
      by_cases h' : j' = j
      · subst h'; simp only [upd_same]
        have := I.count j'; rw [hjr] at this; exact this
      · rw [upd_other _ _ _ _ h']; exact I.count j'
    · exact I.alive_iff
    · intro hm w'
      by_cases h' : w' = w
      · subst h'; simp
      · rw [upd_other _ _ _ _ h']; exact I.alive_no_exit hm w'
    · intro w'
      by_cases h' : w' = w
      · subst h'; simp
      · rw [upd_other _ _ _ _ h']; exact I.exit_empty w'
    · intro k hk
      refine ⟨(I.joined k hk).1, ?_⟩
      intro w' hw'
      have := (I.joined k hk).2 w' hw'
      have h' : w' ≠ w := by intro e; subst e; rw [hi] at this; cases this
      rw [upd_other _ _ _ _ h']; exact this
    · intro hr w' hw'
      have := I.returned hr w' hw'
      have h' : w' ≠ w := by intro e; subst e; rw [hi] at this; cases this
      rw [upd_other _ _ _ _ h']; exact this
  | dropSender =>
    have hm : s.main = .submitting := en
    constructor <;> simp only [apply]
    · exact I.size_pos
    · exact I.lock_iff
    · exact I.out_idle
    · exact I.fresh_iff
    · exact I.queued_iff
    · exact I.queue_sorted
    · exact I.running_iff
    · exact I.count
    · simp
    · intro h; cases h
    · intro w hw; exact absurd hw (I.alive_no_exit hm w)
    · intro k hk; cases hk; exact ⟨Nat.zero_le _, fun w hw => absurd hw (Nat.not_lt_zero w)⟩
    · intro h; cases h
  | join k =>
    obtain ⟨hm, hk, he⟩ := en
    have hns : s.senderAlive = false := by
      cases h : s.senderAlive with
      | false => rfl
      | true => have := I.alive_iff.mp h; rw [hm] at this; cases this
    constructor <;> simp only [apply]
    · exact I.size_pos
    · exact I.lock_iff
    · exact I.out_idle
    · exact I.fresh_iff
    · exact I.queued_iff
    · exact I.queue_sorted
    · exact I.running_iff
    · exact I.count
    · simp [hns]
    · intro h; cases h
    · exact I.exit_empty
    · intro k' hk'; cases hk'
      refine ⟨hk, ?_⟩
      intro w hw
      by_cases h' : w = k
      · subst h'; exact he
      · exact (I.joined k hm).2 w (by omega)
    · intro h; cases h
  | ret =>
    have hm : s.main = .joining s.size := en
    have hns : s.senderAlive = false := by
      cases h : s.senderAlive with
      | false => rfl
      | true => have := I.alive_iff.mp h; rw [hm] at this; cases this
    constructor <;> simp only [apply]
    · exact I.size_pos
    · exact I.lock_iff
    · exact I.out_idle
    · exact I.fresh_iff
    · exact I.queued_iff
    · exact I.queue_sorted
    · exact I.running_iff
    · exact I.count
    · simp [hns]
    · intro h; cases h
    · exact I.exit_empty
    · intro k' hk'; cases hk'
    · intro _; exact (I.joined _ hm).2

theorem PoolInv.of_reachable {s : State} (h : Reachable s) : PoolInv s := by
  induction h with
  | init n hn => exact PoolInv.init hn
  | step _ st ih => obtain ⟨e, he⟩ := st; exact ih.step he

/-- frame property used by the incremental check of the trace driver: only `recvJob w j` changes `runCount`,
    and only at `j`. -/
theorem runCount_frame (s : State) (e : Event) (j' : Nat)
    (h : match e with | .recvJob _ j => j' ≠ j | _ => True) : (apply s e).runCount j' = s.runCount j' := by
  cases e <;> simp only [apply]
  exact upd_other _ _ _ _ h

/-! ### counting lemmas -/

theorem sumBelow_upd_ge (f : Nat → Nat) (i v n : Nat) (h : n ≤ i) : sumBelow (upd f i v) n = sumBelow f n := by
  induction n with
  | zero => rfl
  | succ n ih => simp only [sumBelow]; rw [ih (by omega), upd_other _ _ _ _ (by omega)]

theorem sumBelow_upd_lt (f : Nat → Nat) (i v n : Nat) (h : i < n) :
    sumBelow (upd f i v) n + f i = sumBelow f n + v := by
  induction n with
  | zero => omega
  | succ n ih =>
    simp only [sumBelow]
    by_cases hi : i = n
    · subst hi; rw [sumBelow_upd_ge _ _ _ _ (Nat.le_refl _), upd_same]; omega
    · rw [upd_other _ _ _ _ (Ne.symm hi)]; have := ih (by omega); omega

theorem sumBelow_congr (f g : Nat → Nat) (n : Nat) (h : ∀ i, i < n → f i = g i) : sumBelow f n = sumBelow g n := by
  induction n with
  | zero => rfl
  | succ n ih => simp only [sumBelow]; rw [ih (fun i hi => h i (by omega)), h n (by omega)]

theorem runningBelow_upd_ge (f : Nat → WState) (i : Nat) (v : WState) (n : Nat) (h : n ≤ i) :
    runningBelow (upd f i v) n = runningBelow f n := by
  induction n with
  | zero => rfl
  | succ n ih => simp only [runningBelow]; rw [ih (by omega), upd_other _ _ _ _ (by omega)]

theorem runningBelow_upd_lt (f : Nat → WState) (i : Nat) (v : WState) (n : Nat) (h : i < n) :
    runningBelow (upd f i v) n + (if (f i).isRunning then 1 else 0)
      = runningBelow f n + (if v.isRunning then 1 else 0) := by
  induction n with
  | zero => omega
  | succ n ih =>
    simp only [runningBelow]
    by_cases hi : i = n
    · subst hi; rw [runningBelow_upd_ge _ _ _ _ (Nat.le_refl _), upd_same]; omega
    · rw [upd_other _ _ _ _ (Ne.symm hi)]; have := ih (by omega); omega

theorem runningBelow_le (f : Nat → WState) (n : Nat) : runningBelow f n ≤ n := by
  induction n with
  | zero => simp [runningBelow]
  | succ n ih => simp only [runningBelow]; split <;> omega

/-- fewer than `n` running below `n` → some index below `n` is not running -/
theorem exists_not_running (f : Nat → WState) (n : Nat) (h : runningBelow f n < n) :
    ∃ w, w < n ∧ (f w).isRunning = false := by
  induction n with
  | zero => omega
  | succ n ih =>
    simp only [runningBelow] at h
    by_cases hr : (f n).isRunning = true
    · simp only [hr, if_true] at h
      obtain ⟨w, hw, hf⟩ := ih (by omega)
      exact ⟨w, by omega, hf⟩
    · exact ⟨n, by omega, by simpa using hr⟩

theorem runningBelow_eq_self (f : Nat → WState) (n : Nat) (h : ∀ w, w < n → (f w).isRunning = true) :
    runningBelow f n = n := by
  induction n with
  | zero => rfl
  | succ n ih => simp only [runningBelow]; rw [ih (fun w hw => h w (by omega)), h n (by omega)]; simp

end Khttp.Pool
