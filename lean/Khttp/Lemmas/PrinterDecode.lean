/- every output of the printer model is `renderMessage start fields fr` for a well-formed, unambiguously framed
   header section — the form `decode_render` applies to -/
import Khttp.Lemmas.PrinterWire
namespace Khttp.Printer
open Khttp
open Khttp.Spec.Message hiding CRLF

/-- header sets covered by C08: well-formed field lines, and either no framing field among them and the chunked
    flag clear (the printer generates the framing field), or the chunked flag set and exactly one framing field among
    them, a transfer-encoding whose final coding is chunked (the caller declared it). -/
def HeadersOk (h : Headers) : Prop :=
  wfFields h.fields = true ∧
  ((h.chunked = false ∧ noFramingName h.fields = true) ∨
   (h.chunked = true ∧ framingOk h.fields (.chunked []) = true))

/-- the body that must arrive: everything, or the first `n` bytes under a declared content-length `n` -/
def expectedBody (h : Headers) (body : Bytes) : Bytes :=
  if h.chunked then body else match h.cl with | some n => body.take n | none => body

/-- a rendering of `start`, a header section that starts with the user's fields, and a body `b` -/
def IsRendering (w start : Bytes) (user : List (Bytes × Bytes)) (b : Bytes) : Prop :=
  ∃ fields fr, w = renderMessage start fields fr ∧ wfFields fields = true ∧ framingOk fields fr = true ∧
    framingWf fr = true ∧ fr.body = b ∧ ∃ tail, fields = user ++ tail

theorem wfFields_date (h : Headers) (dv : Bytes) (hdv : noCRLF dv = true) :
    wfFields (dateField (dateOpt h dv)) = true := by
  unfold dateOpt
  cases h.printDate with
  | false => rfl
  | true =>
    have : isToken (str "date") = true := by decide +kernel
    simp [dateField, wfFields, wfField, this, hdv]

theorem dateOpt_noCRLF (h : Headers) (dv : Bytes) (hdv : noCRLF dv = true) :
    ∀ v, dateOpt h dv = some v → noCRLF v = true := by
  intro v hv
  unfold dateOpt at hv
  split at hv
  · cases hv; exact hdv
  · cases hv

theorem isRendering_chunked (start : Bytes) (h : Headers) (dv : Bytes) (hdv : noCRLF dv = true)
    (hw : wfFields h.fields = true) (hf : framingOk h.fields (.chunked []) = true)
    (chunks : List Bytes) (n : Nat) (hc : ∀ c ∈ chunks, c ≠ [] ∧ c.length ≤ n) :
    IsRendering (renderMessage start (h.fields ++ dateField (dateOpt h dv)) (.chunked chunks)) start h.fields
      chunks.flatten := by
  refine ⟨_, _, rfl, ?_, ?_, chunks_wf chunks n hc, rfl, _, rfl⟩
  · rw [wfFields_append, hw, wfFields_date h dv hdv]; rfl
  · rw [framingOk_append_date, framingOk_chunked_irrel _ chunks []]; exact hf

theorem isRendering_generated (start : Bytes) (h : Headers) (dv : Bytes) (hdv : noCRLF dv = true)
    (hw : wfFields h.fields = true) (hf : noFramingName h.fields = true) (fr : Framing) (hfr : framingWf fr = true) :
    IsRendering (renderMessage start (allFields h.fields (dateOpt h dv) fr) fr) start h.fields fr.body := by
  refine ⟨_, _, rfl, wfFields_allFields _ _ _ hw (dateOpt_noCRLF h dv hdv), framingOk_allFields _ _ _ hf, hfr, rfl,
    dateField (dateOpt h dv) ++ [framingField fr], ?_⟩
  simp [allFields]

theorem head_take_eq (start : Bytes) (h : Headers) (dv : Bytes) (n : Nat) (body : Bytes) (hn : n ≤ body.length) :
    renderHead start (h.fields ++ dateField (dateOpt h dv) ++ [clField n]) ++ body.take n
      = renderMessage start (allFields h.fields (dateOpt h dv) (.length (body.take n))) (.length (body.take n)) := by
  have : (body.take n).length = n := by simp; omega
  simp [renderMessage, allFields, framingField, encodeBody, this]

/-- `write_response` / `write_request`: the output is a rendering of the expected body -/
theorem genericWrite_rendering (cfg : Thresholds) (hc : cfg.Pos) (pol : StdPolicy) (start : Bytes) (h : Headers)
    (date dv : Bytes) (hd : date = fieldLine (str "date", dv)) (hdv : noCRLF dv = true)
    (body : RSrc) (hs : body.Ok) (accept : Option Nat) (hh : HeadersOk h)
    (hcl : ∀ n, h.chunked = false → h.cl = some n → n ≤ body.data.length ∧ n < 2 ^ 64)
    (ha : ∀ w, genericWrite cfg pol start h date body none = .ok w → AcceptOk accept w) :
    ∃ w, genericWrite cfg pol start h date body accept = .ok w ∧
      IsRendering w start h.fields (expectedBody h body.data) := by
  obtain ⟨hw, hcase⟩ := hh
  rcases hcase with ⟨hch, hnf⟩ | ⟨hch, hfo⟩
  · cases hcv : h.cl with
    | some n =>
      obtain ⟨hn1, hn2⟩ := hcl n hch hcv
      have e0 := genericWrite_declared cfg pol start h date dv hd body hs none hch n hcv hn2 hn1
        (by intro a ha; cases ha)
      have e1 := genericWrite_declared cfg pol start h date dv hd body hs accept hch n hcv hn2 hn1 (ha _ e0)
      refine ⟨_, e1, ?_⟩
      rw [head_take_eq start h dv n body.data hn1]
      have : expectedBody h body.data = (Framing.length (body.data.take n)).body := by
        simp [expectedBody, hch, hcv, Framing.body]
      rw [this]
      exact isRendering_generated start h dv hdv hw hnf _ rfl
    | none =>
      by_cases hp : body.data.length < cfg.probeMax
      · have e0 := genericWrite_probe_complete cfg hc pol start h date dv hd body hs none hch hcv hp
          (by intro a ha; cases ha)
        have e1 := genericWrite_probe_complete cfg hc pol start h date dv hd body hs accept hch hcv hp (ha _ e0)
        refine ⟨_, e1, ?_⟩
        have : expectedBody h body.data = (Framing.length body.data).body := by
          simp [expectedBody, hch, hcv, Framing.body]
        rw [this]
        exact isRendering_generated start h dv hdv hw hnf _ rfl
      · obtain ⟨chunks, c1, c2, _, e1⟩ :=
          genericWrite_probe_incomplete cfg hc pol start h date dv hd body hs accept hch hcv (by omega)
        refine ⟨_, e1, ?_⟩
        have : expectedBody h body.data = (Framing.chunked chunks).body := by
          simp [expectedBody, hch, hcv, Framing.body, c2]
        rw [this]
        exact isRendering_generated start h dv hdv hw hnf _ (chunks_wf chunks _ c1)
  · obtain ⟨chunks, c1, c2, e1⟩ := genericWrite_chunked cfg hc pol start h date dv hd body hs accept hch
    refine ⟨_, e1, ?_⟩
    have : expectedBody h body.data = chunks.flatten := by simp [expectedBody, hch, c2]
    rw [this]
    exact isRendering_chunked start h dv hdv hw hfo chunks _ c1

/-- `write_response_bytes`: the output is a rendering of `body` -/
theorem writeResponseBytes_rendering (cfg : Thresholds) (code : Nat) (reason : Bytes) (h : Headers)
    (date dv : Bytes) (hd : date = fieldLine (str "date", dv)) (hdv : noCRLF dv = true)
    (lo : 100 ≤ code) (hi : code ≤ 999) (body : Bytes) (hlen : body.length < 2 ^ 64) (accept : Option Nat)
    (hh : HeadersOk h)
    (ha : ∀ w, writeResponseBytes cfg code reason h date body none = .ok w → AcceptOk accept w) :
    ∃ w, writeResponseBytes cfg code reason h date body accept = .ok w ∧
      IsRendering w (statusStart code reason) h.fields body := by
  obtain ⟨hw, hcase⟩ := hh
  rcases hcase with ⟨hch, hnf⟩ | ⟨hch, hfo⟩
  · have e0 := writeResponseBytes_length cfg code reason h date dv hd lo hi body hlen none hch
      (by intro a ha; cases ha)
    have e1 := writeResponseBytes_length cfg code reason h date dv hd lo hi body hlen accept hch (ha _ e0)
    refine ⟨_, e1, ?_⟩
    exact isRendering_generated (statusStart code reason) h dv hdv hw hnf (.length body) rfl
  · have e1 := writeResponseBytes_chunked cfg code reason h date dv hd lo hi body accept hch
    refine ⟨_, e1, ?_⟩
    have hb : body = (if body = [] then [] else [body] : List Bytes).flatten := by
      by_cases hb : body = [] <;> simp [hb]
    have := isRendering_chunked (statusStart code reason) h dv hdv hw hfo (if body = [] then [] else [body])
      body.length (by
        intro c hc
        by_cases hb : body = []
        · simp [hb] at hc
        · simp only [hb, if_false, List.mem_singleton] at hc
          subst hc; exact ⟨hb, Nat.le_refl _⟩)
    rw [← hb] at this
    exact this

/-- `write_response_empty`: the output is a rendering of the empty body -/
theorem writeResponseEmpty_rendering (cfg : Thresholds) (code : Nat) (reason : Bytes) (h : Headers)
    (date dv : Bytes) (hd : date = fieldLine (str "date", dv)) (hdv : noCRLF dv = true)
    (lo : 100 ≤ code) (hi : code ≤ 999) (hh : HeadersOk h) :
    ∃ w, writeResponseEmpty cfg code reason h date = .ok w ∧
      IsRendering w (statusStart code reason) h.fields [] := by
  obtain ⟨hw, hcase⟩ := hh
  have e := writeResponseEmpty_eq cfg code reason h date dv hd lo hi
  rcases hcase with ⟨hch, hnf⟩ | ⟨hch, hfo⟩
  · simp only [hch, Bool.false_eq_true, if_false] at e
    exact ⟨_, e, isRendering_generated (statusStart code reason) h dv hdv hw hnf (.length []) rfl⟩
  · simp only [hch, if_true] at e
    exact ⟨_, e, isRendering_chunked (statusStart code reason) h dv hdv hw hfo [] 0 (by simp)⟩

theorem framingOk_one (fields : List (Bytes × Bytes)) (fr : Framing) (h : framingOk fields fr = true) :
    ((trimValues fields).filter isFramingField).length = 1 := by
  unfold framingOk at h
  split at h <;> simp_all

/-- a rendering decodes (as a response) to its parts, with nothing left over -/
theorem IsRendering.decodeResponse {w : Bytes} {code : Nat} {reason : Bytes} {user : List (Bytes × Bytes)} {b : Bytes}
    (r : IsRendering w (statusStart code reason) user b) (lo : 100 ≤ code) (hi : code ≤ 999)
    (hr : noCRLF reason = true) :
    ∃ tail, decodeResponse w = some (code, reason, trimValues user ++ tail, b, []) ∧
      ((trimValues user ++ tail).filter isFramingField).length = 1 := by
  obtain ⟨fields, fr, rfl, h1, h2, h3, rfl, tail, rfl⟩ := r
  have := decodeResponse_render code reason (user ++ tail) fr [] lo hi hr h1 h2 h3
  rw [List.append_nil, trimValues_append] at this
  refine ⟨trimValues tail, this, ?_⟩
  rw [← trimValues_append]; exact framingOk_one _ _ h2

/-- a rendering decodes (as a request) to its parts, with nothing left over -/
theorem IsRendering.decodeRequest {w m u : Bytes} {user : List (Bytes × Bytes)} {b : Bytes}
    (r : IsRendering w (requestStart m u) user b) (hm : isToken m = true) (hu : u ≠ []) (hus : noSP u = true)
    (huc : noCRLF u = true) :
    ∃ tail, decodeRequest w = some (m, u, trimValues user ++ tail, b, []) ∧
      ((trimValues user ++ tail).filter isFramingField).length = 1 := by
  obtain ⟨fields, fr, rfl, h1, h2, h3, rfl, tail, rfl⟩ := r
  have := decodeRequest_render m u (user ++ tail) fr [] hm hu hus huc h1 h2 h3
  rw [List.append_nil, trimValues_append] at this
  refine ⟨trimValues tail, this, ?_⟩
  rw [← trimValues_append]; exact framingOk_one _ _ h2

-- ---------------------------------------------------------------- header sets built through the API

/-- what the caller declares about the body -/
inductive Decl where
  | none | length (n : Nat) | chunked
  deriving Repr, DecidableEq

/-- `Headers::new()` / `new_nodate()`, `add` for every user field, then the declaration -/
def buildHeaders (nodate : Bool) (user : List (Bytes × Bytes)) (d : Decl) : Headers :=
  let h := addAll (if nodate then Headers.newNodate else Headers.new) user
  match d with
  | .none => h
  | .length n => h.setContentLength (some n)
  | .chunked => h.setTransferEncodingChunked

def declBody (d : Decl) (body : Bytes) : Bytes :=
  match d with | .length n => body.take n | _ => body

theorem buildHeaders_facts (nodate : Bool) (user : List (Bytes × Bytes)) (d : Decl)
    (hw : wfFields user = true) (hu : noFramingName user = true) :
    let h := buildHeaders nodate user d
    HeadersOk h ∧ (∀ b, expectedBody h b = declBody d b) ∧
      (∀ n, h.chunked = false → h.cl = some n → d = .length n) ∧
      (∃ tail, h.fields = user ++ tail) := by
  have base := addAll_plain user hu (if nodate then Headers.newNodate else Headers.new)
  have f0 : (if nodate then Headers.newNodate else Headers.new).fields = [] := by cases nodate <;> rfl
  have c0 : (if nodate then Headers.newNodate else Headers.new).chunked = false := by cases nodate <;> rfl
  have l0 : (if nodate then Headers.newNodate else Headers.new).cl = none := by cases nodate <;> rfl
  rw [f0, c0, l0, List.nil_append] at base
  obtain ⟨b1, b2, b3, _⟩ := base
  cases d with
  | none =>
    simp only [buildHeaders]
    refine ⟨⟨by rw [b1]; exact hw, Or.inl ⟨b2, by rw [b1]; exact hu⟩⟩, ?_, ?_, ⟨[], by simp [b1]⟩⟩
    · intro b; simp [expectedBody, b2, b3, declBody]
    · intro n _ h; rw [b3] at h; cases h
  | length n =>
    simp only [buildHeaders, Headers.setContentLength]
    refine ⟨⟨by rw [b1]; exact hw, Or.inl ⟨b2, by rw [b1]; exact hu⟩⟩, ?_, ?_, ⟨[], by simp [b1]⟩⟩
    · intro b; simp [expectedBody, b2, declBody]
    · intro m _ h; simp at h; rw [h]
  | chunked =>
    simp only [buildHeaders, Headers.setTransferEncodingChunked]
    have ht : (Headers.TRANSFER_ENCODING, str "chunked") = teField := rfl
    refine ⟨⟨?_, Or.inr ⟨rfl, ?_⟩⟩, ?_, ?_, ⟨[teField], by simp [b1, ht]⟩⟩
    · rw [b1, ht, wfFields_append, hw, wfFields_teField]; rfl
    · rw [b1, ht]
      have := framingOk_te_mid user [] hu rfl []
      simpa using this
    · intro b; simp [expectedBody, declBody]
    · intro n h; simp at h

/-- `add("transfer-encoding", "chunked")` is `set_transfer_encoding_chunked()`: the second alternative of `HeadersOk`
    is what a caller gets who declares chunked through `add` -/
theorem add_te_chunked_eq (h : Headers) :
    h.add Headers.TRANSFER_ENCODING (str "chunked") = h.setTransferEncodingChunked := by
  have h1 : eqIgnoreCase Headers.TRANSFER_ENCODING Headers.CONTENT_LENGTH = false := by decide +kernel
  have h2 : eqIgnoreCase Headers.TRANSFER_ENCODING Headers.TRANSFER_ENCODING = true := by decide +kernel
  have h3 : Headers.teScan (str "chunked") = (true, true) := by decide +kernel
  simp [Headers.add, Headers.setTransferEncodingChunked, h1, h2, h3]

end Khttp.Printer
