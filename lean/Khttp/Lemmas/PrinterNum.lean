/- numerals: the printer's digit loops compute the spec's numerals; the spec's numerals read back -/
import Khttp.Model.Printer
import Khttp.Spec.Message
namespace Khttp.Printer
open Khttp Khttp.Spec.Message

theorem digitsAux_fuel {b : Nat} (hb : 2 ≤ b) : ∀ f g n, n < f → n < g → digitsAux b f n = digitsAux b g n := by
  intro f
  induction f with
  | zero => intro g n h; omega
  | succ f ih =>
    intro g n hf hg
    cases g with
    | zero => omega
    | succ g =>
      simp only [digitsAux]
      split
      · rfl
      · have : n / b < n := Nat.div_lt_self (by omega) (by omega)
        rw [ih g (n / b) (by omega) (by omega)]

theorem digitsAux_succ (b f n : Nat) :
    digitsAux b (f + 1) n = if n < b then [n] else digitsAux b f (n / b) ++ [n % b] := rfl

theorem digits_eq {b : Nat} (hb : 2 ≤ b) (n : Nat) :
    digits b n = if n < b then [n] else digits b (n / b) ++ [n % b] := by
  unfold digits
  rw [digitsAux_succ]
  split
  · rfl
  · have : n / b < n := Nat.div_lt_self (by omega) (by omega)
    rw [digitsAux_fuel hb n (n / b + 1) (n / b) (by omega) (by omega)]

theorem decNumeral_eq (n : Nat) :
    decNumeral n = if n < 10 then [decChar n] else decNumeral (n / 10) ++ [decChar (n % 10)] := by
  unfold decNumeral
  rw [digits_eq (by omega)]
  split <;> simp

theorem hexNumeral_eq (n : Nat) :
    hexNumeral n = if n < 16 then [hexChar n] else hexNumeral (n / 16) ++ [hexChar (n % 16)] := by
  unfold hexNumeral
  rw [digits_eq (by omega)]
  split <;> simp

theorem decNumeral_ne_nil (n : Nat) : decNumeral n ≠ [] := by
  rw [decNumeral_eq]; split <;> simp

theorem hexNumeral_ne_nil (n : Nat) : hexNumeral n ≠ [] := by
  rw [hexNumeral_eq]; split <;> simp

-- ---------------------------------------------------------------- the model's loops

theorem u64Loop_eq : ∀ i n acc, n < 10 ^ i →
    u64Loop i n acc = .ok ((if n = 0 then [] else decNumeral n) ++ acc) := by
  intro i
  induction i with
  | zero => intro n acc h; have : n = 0 := by simpa using h
            subst this; simp [u64Loop]
  | succ i ih =>
    intro n acc h
    simp only [u64Loop]
    by_cases hn : n = 0
    · simp [hn]
    · simp only [hn, if_false]
      have h10 : n / 10 < 10 ^ i := by
        rw [Nat.pow_succ] at h; omega
      rw [ih _ _ h10, decNumeral_eq n]
      by_cases hlt : n < 10
      · have h0 : n / 10 = 0 := by omega
        have hm : n % 10 = n := by omega
        simp [hlt, h0, hm, decChar]
      · have h0 : n / 10 ≠ 0 := by omega
        simp [hlt, h0, decChar]

/-- `u64_to_ascii_buf` prints the decimal numeral (for every `u64`, indeed for every `n < 10^20`) -/
theorem u64ToAsciiBuf_eq (n : Nat) (h : n < 10 ^ 20) : u64ToAsciiBuf n = .ok (decNumeral n) := by
  unfold u64ToAsciiBuf
  by_cases hn : n = 0
  · subst hn; simp [decNumeral_eq, decChar]
  · simp [hn, u64Loop_eq 20 n [] h]

theorem hexDigitUpper_eq (d : Nat) : hexDigitUpper d = hexChar d := rfl

theorem hexUpperLoop_eq : ∀ f n acc, n < f → hexUpperLoop f n acc = hexNumeral n ++ acc := by
  intro f
  induction f with
  | zero => intro n acc h; omega
  | succ f ih =>
    intro n acc h
    simp only [hexUpperLoop]
    rw [hexNumeral_eq n]
    by_cases h0 : n / 16 = 0
    · have hlt : n < 16 := by omega
      have hm : n % 16 = n := by omega
      simp [h0, hlt, hm, hexDigitUpper_eq]
    · have hlt : ¬ n < 16 := by omega
      have : n / 16 < f := by omega
      simp [h0, hlt, ih _ _ this, hexDigitUpper_eq]

/-- the `{:X}` model prints the upper-case hexadecimal numeral -/
theorem hexUpper_eq (n : Nat) : hexUpper n = hexNumeral n := by
  unfold hexUpper; simpa using hexUpperLoop_eq (n + 1) n [] (by omega)

/-- `u16_to_ascii` prints three decimal digits and a space for 100..999 -/
theorem u16ToAscii_eq (n : Nat) (lo : 100 ≤ n) (hi : n ≤ 999) : u16ToAscii n = .ok (decNumeral n ++ [SP]) := by
  have e1 : decNumeral n = decNumeral (n / 10) ++ [decChar (n % 10)] := by
    rw [decNumeral_eq n]; simp; omega
  have e2 : decNumeral (n / 10) = decNumeral (n / 10 / 10) ++ [decChar (n / 10 % 10)] := by
    rw [decNumeral_eq (n / 10)]; simp; omega
  have e3 : decNumeral (n / 10 / 10) = [decChar (n / 10 / 10)] := by
    rw [decNumeral_eq (n / 10 / 10)]; simp; omega
  have q : n / 10 / 10 = n / 100 := by omega
  rw [e1, e2, e3, q]
  have a1 : 48 + n / 100 < 256 := by omega
  have a2 : 48 + n / 10 % 10 < 256 := by omega
  have a3 : 48 + n % 10 < 256 := by omega
  have b1 : n / 100 % 256 = n / 100 := by omega
  have b2 : n / 10 % 10 % 256 = n / 10 % 10 := by omega
  have b3 : n % 10 % 256 = n % 10 := by omega
  simp only [u16ToAscii, u8Add, bind, PrintRes.bind, b1, b2, b3, a1, a2, a3, if_true, decChar]
  simp

-- ---------------------------------------------------------------- reading numerals back

theorem decChar_toNat : ∀ d, d < 10 → (decChar d).toNat = 48 + d := by decide
theorem decChar_isDigit : ∀ d, d < 10 → isDigit (decChar d) = true := by decide
theorem hexChar_isHex : ∀ d, d < 16 → isHexDigit (hexChar d) = true := by decide
theorem hexChar_val : ∀ d, d < 16 → hexDigitVal (hexChar d) = d := by decide

theorem decVal_append (xs : Bytes) (c : UInt8) : decVal (xs ++ [c]) = decVal xs * 10 + (c.toNat - 48) := by
  simp [decVal, List.foldl_append]

theorem hexVal_append (xs : Bytes) (c : UInt8) : hexVal (xs ++ [c]) = hexVal xs * 16 + hexDigitVal c := by
  simp [hexVal, List.foldl_append]

theorem decNumeral_spec (n : Nat) : decVal (decNumeral n) = n ∧ (decNumeral n).all isDigit = true := by
  induction n using Nat.strongRecOn with
  | _ n ih =>
    rw [decNumeral_eq n]
    by_cases h : n < 10
    · simp [h, decVal, decChar_toNat n h, decChar_isDigit n h]
    · have hm : n % 10 < 10 := Nat.mod_lt _ (by omega)
      obtain ⟨i1, i2⟩ := ih (n / 10) (by omega)
      simp only [h, if_false, decVal_append, i1, decChar_toNat _ hm, List.all_append, i2]
      simp [decChar_isDigit _ hm]; omega

theorem hexNumeral_spec (n : Nat) : hexVal (hexNumeral n) = n ∧ (hexNumeral n).all isHexDigit = true := by
  induction n using Nat.strongRecOn with
  | _ n ih =>
    rw [hexNumeral_eq n]
    by_cases h : n < 16
    · simp [h, hexVal, hexChar_val n h, hexChar_isHex n h]
    · have hm : n % 16 < 16 := Nat.mod_lt _ (by omega)
      obtain ⟨i1, i2⟩ := ih (n / 16) (by omega)
      simp only [h, if_false, hexVal_append, i1, hexChar_val _ hm, List.all_append, i2]
      simp [hexChar_isHex _ hm]; omega

theorem parseDec_decNumeral (n : Nat) : parseDec (decNumeral n) = some n := by
  have := decNumeral_spec n
  simp [parseDec, decNumeral_ne_nil, this.1, this.2]

/-- three digits for 100..999 -/
theorem decNumeral_three (n : Nat) (lo : 100 ≤ n) (hi : n ≤ 999) :
    ∃ a b c, decNumeral n = [a, b, c] ∧ isDigit a = true ∧ isDigit b = true ∧ isDigit c = true ∧
      decVal [a, b, c] = n := by
  have e1 : decNumeral n = decNumeral (n / 10) ++ [decChar (n % 10)] := by
    rw [decNumeral_eq n]; simp; omega
  have e2 : decNumeral (n / 10) = decNumeral (n / 10 / 10) ++ [decChar (n / 10 % 10)] := by
    rw [decNumeral_eq (n / 10)]; simp; omega
  have e3 : decNumeral (n / 10 / 10) = [decChar (n / 10 / 10)] := by
    rw [decNumeral_eq (n / 10 / 10)]; simp; omega
  have s := decNumeral_spec n
  rw [e1, e2, e3] at s
  refine ⟨_, _, _, by rw [e1, e2, e3]; rfl, ?_, ?_, ?_, by simpa using s.1⟩
  · exact decChar_isDigit _ (by omega)
  · exact decChar_isDigit _ (by omega)
  · exact decChar_isDigit _ (by omega)

-- ---------------------------------------------------------------- canonical form

theorem decNumeral_head (n : Nat) (hn : n ≠ 0) : ∃ d t, decNumeral n = decChar d :: t ∧ 0 < d ∧ d < 10 := by
  induction n using Nat.strongRecOn with
  | _ n ih =>
    rw [decNumeral_eq n]
    by_cases h : n < 10
    · exact ⟨n, [], by simp [h], by omega, h⟩
    · obtain ⟨d, t, e, h1, h2⟩ := ih (n / 10) (by omega) (by omega)
      exact ⟨d, t ++ [decChar (n % 10)], by simp [h, e], h1, h2⟩

theorem hexNumeral_head (n : Nat) (hn : n ≠ 0) : ∃ d t, hexNumeral n = hexChar d :: t ∧ 0 < d ∧ d < 16 := by
  induction n using Nat.strongRecOn with
  | _ n ih =>
    rw [hexNumeral_eq n]
    by_cases h : n < 16
    · exact ⟨n, [], by simp [h], by omega, h⟩
    · obtain ⟨d, t, e, h1, h2⟩ := ih (n / 16) (by omega) (by omega)
      exact ⟨d, t ++ [hexChar (n % 16)], by simp [h, e], h1, h2⟩

theorem decChar_ne_zero : ∀ d, d < 10 → 0 < d → decChar d ≠ 0x30 := by decide
theorem hexChar_ne_zero : ∀ d, d < 16 → 0 < d → hexChar d ≠ 0x30 := by decide

/-- `0-9A-F` -/
def isUpperHex (b : UInt8) : Bool := isDigit b || (0x41 ≤ b && b ≤ 0x46)
theorem hexChar_upper : ∀ d, d < 16 → isUpperHex (hexChar d) = true := by decide

theorem hexNumeral_upper (n : Nat) : (hexNumeral n).all isUpperHex = true := by
  induction n using Nat.strongRecOn with
  | _ n ih =>
    rw [hexNumeral_eq n]
    by_cases h : n < 16
    · simp [h, hexChar_upper n h]
    · have hm : n % 16 < 16 := Nat.mod_lt _ (by omega)
      simp [h, ih (n / 16) (by omega), hexChar_upper _ hm]

end Khttp.Printer
