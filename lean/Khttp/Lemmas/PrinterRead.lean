/- the printer's read loops deliver exactly the reader's data, whatever the piece schedule and std's buffer sizes -/
import Khttp.Model.Printer
namespace Khttp.Printer
open Khttp

theorem out_cons (x : Bytes) (acc : List Bytes) : out (x :: acc) = out acc ++ x := by
  simp [out]

@[simp] theorem out_nil : out [] = [] := rfl

/-- the number of bytes a `read` of `want` bytes delivers -/
def RSrc.count (s : RSrc) (want : Nat) : Nat :=
  min want (min (match s.pieces with | [] => want | p :: _ => p) s.data.length)

theorem RSrc.read_eq (s : RSrc) (want : Nat) :
    s.read want = (s.data.take (s.count want), { data := s.data.drop (s.count want), pieces := s.pieces.tail }) := rfl

theorem RSrc.count_le_want (s : RSrc) (want : Nat) : s.count want ≤ want := by
  unfold RSrc.count; omega
theorem RSrc.count_le_len (s : RSrc) (want : Nat) : s.count want ≤ s.data.length := by
  unfold RSrc.count; omega

theorem RSrc.count_pos (s : RSrc) (hs : s.Ok) (want : Nat) (hw : 1 ≤ want) (hd : s.data ≠ []) : 1 ≤ s.count want := by
  unfold RSrc.count
  have hl : 1 ≤ s.data.length := by
    cases h : s.data with
    | nil => exact absurd h hd
    | cons a t => simp
  cases hp : s.pieces with
  | nil => simp; omega
  | cons p t =>
    have : 1 ≤ p := hs p (by simp [hp])
    simp; omega

theorem RSrc.tail_ok (s : RSrc) (hs : s.Ok) (d : Bytes) : RSrc.Ok { data := d, pieces := s.pieces.tail } := by
  intro p hp
  exact hs p (List.mem_of_mem_tail hp)

theorem take_isEmpty_iff (l : Bytes) (n : Nat) : (l.take n).isEmpty = true ↔ (n = 0 ∨ l = []) := by
  cases l <;> cases n <;> simp

theorem take_take_drop (l : Bytes) (n m : Nat) (h : n ≤ m) : l.take n ++ (l.drop n).take (m - n) = l.take m := by
  have : m = n + (m - n) := by omega
  rw [this, List.take_add]
  simp

-- ---------------------------------------------------------------- Take<R>::read_to_end / io::copy(take)

theorem takeReadAll_eq (req : Nat → Nat) : ∀ fuel (src : RSrc) limit len acc, src.Ok → src.data.length < fuel →
    ∃ s', takeReadAll req fuel src limit len acc = .ok (out acc ++ src.data.take limit, s') := by
  intro fuel
  induction fuel with
  | zero => intro src limit len acc _ h; omega
  | succ fuel ih =>
    intro src limit len acc hs hf
    simp only [takeReadAll]
    by_cases hl : limit = 0
    · subst hl; simp
    · simp only [hl, if_false, RSrc.read_eq]
      generalize hw : min (max 1 (req len)) limit = want
      have hw1 : 1 ≤ want := by omega
      have hwl : want ≤ limit := by omega
      by_cases hd : src.data = []
      · have : (List.take (src.count want) src.data).isEmpty = true := by simp [hd]
        simp [this, hd]
      · have hc := src.count_pos hs want hw1 hd
        have hcl := src.count_le_len want
        have hcw := src.count_le_want want
        have hne : (List.take (src.count want) src.data).isEmpty = false := by
          cases h : (List.take (src.count want) src.data).isEmpty with
          | false => rfl
          | true => rcases (take_isEmpty_iff _ _).1 h with h | h
                    · omega
                    · exact absurd h hd
        simp only [hne, Bool.false_eq_true, if_false]
        have hlen : (List.take (src.count want) src.data).length = src.count want := by
          simp; omega
        obtain ⟨s', hs'⟩ := ih { data := src.data.drop (src.count want), pieces := src.pieces.tail }
          (limit - (List.take (src.count want) src.data).length) (len + (List.take (src.count want) src.data).length)
          (List.take (src.count want) src.data :: acc) (src.tail_ok hs _) (by simp; omega)
        refine ⟨s', ?_⟩
        rw [hs', out_cons, hlen]
        simp only [List.append_assoc]
        rw [take_take_drop _ _ _ (by omega)]

-- ---------------------------------------------------------------- probe_body

theorem probeLoop_eq (cfg : Thresholds) (pol : StdPolicy) (hc : cfg.Pos) (max : Nat) :
    ∀ fuel (src : RSrc) len cap acc, src.Ok → src.data.length < fuel → len ≤ max →
    ∃ ps, (∀ p ∈ ps, 1 ≤ p) ∧
      probeLoop cfg pol max fuel src len cap acc =
        if src.data.length < max - len then .ok (out acc ++ src.data, true, { data := [], pieces := ps })
        else .ok (out acc ++ src.data.take (max - len), false, { data := src.data.drop (max - len), pieces := ps }) := by
  intro fuel
  induction fuel with
  | zero => intro src len cap acc _ h; omega
  | succ fuel ih =>
    intro src len cap acc hs hf hle
    simp only [probeLoop]
    by_cases hlt : len < max
    · simp only [hlt, if_true, RSrc.read_eq]
      generalize hcap : (if cap - len = 0 then
          Nat.max (len + min (max - len) cfg.probeStep) (pol.vecGrow cap (min (max - len) cfg.probeStep)) else cap) = cap'
      have hstep : 0 < cfg.probeStep := hc.2.2.1
      have hcap' : 1 ≤ cap' - len := by
        subst hcap
        split
        · have : len + min (max - len) cfg.probeStep ≤
            Nat.max (len + min (max - len) cfg.probeStep) (pol.vecGrow cap (min (max - len) cfg.probeStep)) :=
            Nat.le_max_left _ _
          omega
        · omega
      generalize hw : min (max - len) (cap' - len) = want
      have hw1 : 1 ≤ want := by omega
      have hwl : want ≤ max - len := by omega
      by_cases hd : src.data = []
      · have : (List.take (src.count want) src.data).isEmpty = true := by simp [hd]
        refine ⟨src.pieces.tail, (src.tail_ok hs []), ?_⟩
        have h0 : src.data.length < max - len := by simp [hd]; omega
        simp [hd]; omega
      · have hcp := src.count_pos hs want hw1 hd
        have hcl := src.count_le_len want
        have hcw := src.count_le_want want
        have hne : (List.take (src.count want) src.data).isEmpty = false := by
          cases h : (List.take (src.count want) src.data).isEmpty with
          | false => rfl
          | true => rcases (take_isEmpty_iff _ _).1 h with h | h
                    · omega
                    · exact absurd h hd
        simp only [hne, Bool.false_eq_true, if_false]
        have hlen : (List.take (src.count want) src.data).length = src.count want := by
          simp; omega
        obtain ⟨ps, hps, hr⟩ := ih { data := src.data.drop (src.count want), pieces := src.pieces.tail }
          (len + (List.take (src.count want) src.data).length) cap'
          (List.take (src.count want) src.data :: acc) (src.tail_ok hs _) (by simp; omega) (by omega)
        refine ⟨ps, hps, ?_⟩
        rw [hr, out_cons, hlen]
        simp only [List.length_drop, List.append_assoc, List.take_append_drop]
        have e : max - (len + src.count want) = max - len - src.count want := by omega
        rw [e]
        by_cases hlt2 : src.data.length < max - len
        · have : src.data.length - src.count want < max - len - src.count want := by omega
          simp [this, hlt2]
        · have : ¬ src.data.length - src.count want < max - len - src.count want := by omega
          simp only [this, hlt2, if_false]
          rw [take_take_drop _ _ _ (by omega), List.drop_drop]
          have : src.count want + (max - len - src.count want) = max - len := by omega
          rw [this]
    · have : max - len = 0 := by omega
      refine ⟨src.pieces, hs, ?_⟩
      simp [hlt, this]

-- ---------------------------------------------------------------- write_chunked

theorem writeChunkedLoop_eq (cfg : Thresholds) (hc : cfg.Pos) :
    ∀ fuel (src : RSrc) acc, src.Ok → src.data.length < fuel →
    ∃ chunks : List Bytes, (∀ c ∈ chunks, c ≠ [] ∧ c.length ≤ cfg.chunkBufSize) ∧ chunks.flatten = src.data ∧
      writeChunkedLoop cfg fuel src acc = .ok (out acc ++ chunks.flatMap writeChunk ++ LAST_CHUNK) := by
  intro fuel
  induction fuel with
  | zero => intro src acc _ h; omega
  | succ fuel ih =>
    intro src acc hs hf
    simp only [writeChunkedLoop, RSrc.read_eq]
    have hw1 : 1 ≤ cfg.chunkBufSize := hc.2.1
    by_cases hd : src.data = []
    · refine ⟨[], by simp, by simp [hd], ?_⟩
      simp [hd, out_cons]
    · have hcp := src.count_pos hs _ hw1 hd
      have hcl := src.count_le_len cfg.chunkBufSize
      have hcw := src.count_le_want cfg.chunkBufSize
      have hne : (List.take (src.count cfg.chunkBufSize) src.data).isEmpty = false := by
        cases h : (List.take (src.count cfg.chunkBufSize) src.data).isEmpty with
        | false => rfl
        | true => rcases (take_isEmpty_iff _ _).1 h with h | h
                  · omega
                  · exact absurd h hd
      simp only [hne, Bool.false_eq_true, if_false]
      obtain ⟨chunks, hch, hfl, hr⟩ := ih { data := src.data.drop (src.count cfg.chunkBufSize), pieces := src.pieces.tail }
        (writeChunk (List.take (src.count cfg.chunkBufSize) src.data) :: acc) (src.tail_ok hs _) (by simp; omega)
      refine ⟨List.take (src.count cfg.chunkBufSize) src.data :: chunks, ?_, ?_, ?_⟩
      · intro c hcm
        rcases List.mem_cons.1 hcm with h | h
        · subst h
          refine ⟨?_, by simp; omega⟩
          intro h0
          rw [h0] at hne; simp at hne
        · exact hch c h
      · simp [hfl]
      · rw [hr, out_cons]; simp

theorem writeChunked_eq (cfg : Thresholds) (hc : cfg.Pos) (src : RSrc) (hs : src.Ok) :
    ∃ chunks : List Bytes, (∀ c ∈ chunks, c ≠ [] ∧ c.length ≤ cfg.chunkBufSize) ∧ chunks.flatten = src.data ∧
      writeChunked cfg src = .ok (chunks.flatMap writeChunk ++ LAST_CHUNK) := by
  obtain ⟨chunks, h1, h2, h3⟩ := writeChunkedLoop_eq cfg hc (src.data.length + 1) src [] hs (by omega)
  exact ⟨chunks, h1, h2, by simpa [writeChunked] using h3⟩

theorem writeStreaming_eq (pol : StdPolicy) (src : RSrc) (hs : src.Ok) (cl : Nat) :
    writeStreaming pol src cl
      = if src.data.length < cl then .ioErr src.data else .ok (src.data.take cl) := by
  obtain ⟨s', h⟩ := takeReadAll_eq pol.copyReq (src.data.length + 1) src cl 0 [] hs (by omega)
  simp only [writeStreaming, h, PrintRes.bind_ok, out_nil, List.nil_append, List.length_take]
  by_cases hlt : src.data.length < cl
  · have : min cl src.data.length < cl := by omega
    simp only [this, hlt, if_true]
    rw [List.take_of_length_le (by omega)]
  · have : ¬ min cl src.data.length < cl := by omega
    simp [this, hlt]

theorem probeBody_eq (cfg : Thresholds) (pol : StdPolicy) (hc : cfg.Pos) (src : RSrc) (hs : src.Ok) (max : Nat) :
    ∃ ps, (∀ p ∈ ps, 1 ≤ p) ∧
      probeBody cfg pol src max =
        if src.data.length < max then .ok (src.data, true, { data := [], pieces := ps })
        else .ok (src.data.take max, false, { data := src.data.drop max, pieces := ps }) := by
  obtain ⟨ps, h1, h2⟩ := probeLoop_eq cfg pol hc max (src.data.length + 1) src 0 _ [] hs (by omega) (by omega)
  exact ⟨ps, h1, by simpa [probeBody] using h2⟩

-- ---------------------------------------------------------------- write_vectored_bytes

theorem writeVectoredBytes_eq (cfg : Thresholds) (head body : Bytes) (accept : Nat)
    (h : accept ≤ head.length + body.length) : writeVectoredBytes cfg head body accept = .ok (head ++ body) := by
  unfold writeVectoredBytes
  split
  · rfl
  · by_cases hn : accept < head.length
    · simp only [hn, if_true]
      rw [List.take_append_of_le_length (by omega)]
      simp
    · simp only [hn, if_false]
      have : accept - head.length ≤ body.length := by omega
      simp only [this, if_true]
      have e : accept = head.length + (accept - head.length) := by omega
      rw [e, List.take_length_add_append]
      simp

/-- beyond the `Write` contract (`accept > head.len() + body.len()`, body not inlined) the Rust panics in `&body[offset..]` -/
theorem writeVectoredBytes_panic (cfg : Thresholds) (head body : Bytes) (accept : Nat)
    (hb : cfg.inlineCopyMax ≤ body.length) (h : head.length + body.length < accept) :
    (writeVectoredBytes cfg head body accept).isPanic = true := by
  unfold writeVectoredBytes
  have h1 : ¬ body.length < cfg.inlineCopyMax := by omega
  have h2 : ¬ accept < head.length := by omega
  have h3 : ¬ accept - head.length ≤ body.length := by omega
  simp [h1, h2, h3, PrintRes.isPanic]

end Khttp.Printer
