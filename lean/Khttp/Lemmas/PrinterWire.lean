/- the bytes emitted by the printer model are renderings in the sense of Spec/Message -/
import Khttp.Lemmas.PrinterNum
import Khttp.Lemmas.PrinterRead
import Khttp.Lemmas.Message
namespace Khttp.Printer
open Khttp
open Khttp.Spec.Message hiding CRLF

/-- the optional date field (value `dv`) as the spec sees it -/
def dateOpt (h : Headers) (dv : Bytes) : Option Bytes := if h.printDate then some dv else none

/-- the writer's answer to the single `write_vectored` call respects the `Write` contract -/
def AcceptOk (accept : Option Nat) (wire : Bytes) : Prop := ∀ a, accept = some a → a ≤ wire.length

theorem str_colon_sp : str ": " = [COLON, SP] := by decide +kernel
theorem str_sp : str " " = [SP] := by decide +kernel
theorem clh_eq : CONTENT_LENGTH_HEADER = CONTENT_LENGTH ++ [COLON, SP] := by decide +kernel
theorem teh_eq : TRANSFER_ENCODING_HEADER_CHUNKED = fieldLine teField := by decide +kernel
theorem last_eq : LAST_CHUNK = lastChunk := by decide +kernel
theorem crlf_eq : CRLF = Spec.Message.CRLF := rfl
theorem dcrlf_eq : DOUBLE_CRLF = CRLF ++ CRLF := rfl
theorem http11crlf : str "HTTP/1.1\r\n" = str "HTTP/1.1" ++ CRLF := by decide +kernel
theorem empty_chunked_tail : str "\r\n0\r\n\r\n" = CRLF ++ lastChunk := by decide +kernel
theorem empty_cl_tail : str "content-length: 0\r\n\r\n" = fieldLine (clField 0) ++ CRLF := by decide +kernel
theorem ok200 : str "HTTP/1.1 200 OK\r\n" = statusStart 200 (str "OK") ++ CRLF := by decide +kernel

theorem fieldLines_eq (fs : List (Bytes × Bytes)) : fieldLines fs = fs.flatMap fieldLine := by
  unfold fieldLines
  congr 1
  funext f
  simp [fieldLine, str_colon_sp, CRLF, Spec.Message.CRLF]

theorem dateLine_eq (h : Headers) (date dv : Bytes) (hd : date = fieldLine (str "date", dv)) :
    dateLine h date = (dateField (dateOpt h dv)).flatMap fieldLine := by
  unfold dateLine dateOpt
  cases h.printDate <;> simp [dateField, hd]

theorem writeChunk_eq (c : Bytes) : writeChunk c = encodeChunk c := by
  simp [writeChunk, encodeChunk, hexUpper_eq, crlf_eq]

theorem flatMap_writeChunk (cs : List Bytes) : cs.flatMap writeChunk = cs.flatMap encodeChunk := by
  congr 1; funext c; exact writeChunk_eq c

theorem statusLine_eq (code : Nat) (reason : Bytes) (lo : 100 ≤ code) (hi : code ≤ 999) :
    statusLine code reason = .ok (statusStart code reason ++ CRLF) := by
  unfold statusLine
  split
  · next h => rw [h.1, h.2, ok200]
  · simp [u16ToAscii_eq code lo hi, statusStart]

-- ---------------------------------------------------------------- heads

theorem head_cl (start : Bytes) (h : Headers) (date dv : Bytes) (hd : date = fieldLine (str "date", dv)) (n : Nat) :
    start ++ CRLF ++ fieldLines h.fields ++ dateLine h date ++ CONTENT_LENGTH_HEADER ++ decNumeral n ++ CRLF ++ CRLF
      = renderHead start (h.fields ++ dateField (dateOpt h dv) ++ [clField n]) := by
  rw [fieldLines_eq, dateLine_eq h date dv hd, clh_eq]
  simp [renderHead, fieldLine, clField, crlf_eq]

theorem head_te (start : Bytes) (h : Headers) (date dv : Bytes) (hd : date = fieldLine (str "date", dv)) :
    start ++ CRLF ++ fieldLines h.fields ++ dateLine h date ++ TRANSFER_ENCODING_HEADER_CHUNKED ++ CRLF
      = renderHead start (h.fields ++ dateField (dateOpt h dv) ++ [teField]) := by
  rw [fieldLines_eq, dateLine_eq h date dv hd, teh_eq]
  simp [renderHead, crlf_eq]

theorem head_plain (start : Bytes) (h : Headers) (date dv : Bytes) (hd : date = fieldLine (str "date", dv)) :
    start ++ CRLF ++ fieldLines h.fields ++ dateLine h date ++ CRLF
      = renderHead start (h.fields ++ dateField (dateOpt h dv)) := by
  rw [fieldLines_eq, dateLine_eq h date dv hd]
  simp [renderHead, crlf_eq]

theorem addHeaders_fast (buf : Bytes) (h : Headers) (date b : Bytes) (cl : Nat) (hcl : cl < 10 ^ 20) :
    addHeaders buf h date (.fast b cl)
      = .ok (buf ++ fieldLines h.fields ++ dateLine h date ++ CONTENT_LENGTH_HEADER ++ decNumeral cl ++ CRLF) := by
  simp [addHeaders, addContentLengthHeader, u64ToAsciiBuf_eq _ hcl]

theorem addHeaders_streaming (buf : Bytes) (h : Headers) (date : Bytes) (s : RSrc) (cl : Nat) (hcl : cl < 10 ^ 20) :
    addHeaders buf h date (.streaming s cl)
      = .ok (buf ++ fieldLines h.fields ++ dateLine h date ++ CONTENT_LENGTH_HEADER ++ decNumeral cl ++ CRLF) := by
  simp [addHeaders, addContentLengthHeader, u64ToAsciiBuf_eq _ hcl]

theorem addHeaders_chunked (buf : Bytes) (h : Headers) (date : Bytes) (s : RSrc) :
    addHeaders buf h date (.chunked s) = .ok (buf ++ fieldLines h.fields ++ dateLine h date) := by
  simp [addHeaders]

theorem addHeaders_auto (buf : Bytes) (h : Headers) (date p : Bytes) (s : RSrc) :
    addHeaders buf h date (.autoChunked p s)
      = .ok (buf ++ fieldLines h.fields ++ dateLine h date ++ TRANSFER_ENCODING_HEADER_CHUNKED) := by
  simp [addHeaders]

-- ---------------------------------------------------------------- strategy

theorem decide_chunked (cfg : Thresholds) (pol : StdPolicy) (h : Headers) (body : RSrc) (hch : h.chunked = true) :
    decideBodyStrategy cfg pol h body = .ok (.chunked body) := by
  simp [decideBodyStrategy, hch]

theorem decide_fast_declared (cfg : Thresholds) (pol : StdPolicy) (h : Headers) (body : RSrc) (hs : body.Ok)
    (hch : h.chunked = false) (n : Nat) (hcl : h.cl = some n) (hn : n ≤ cfg.probeMax) :
    decideBodyStrategy cfg pol h body
      = if body.data.length < n then .ioErr [] else .ok (.fast (body.data.take n) n) := by
  obtain ⟨s', e⟩ := takeReadAll_eq pol.readToEndReq (body.data.length + 1) body n 0 [] hs (by omega)
  simp only [decideBodyStrategy, hch, hcl, hn, e, Bool.false_eq_true, if_false, if_true, PrintRes.bind_ok, out_nil,
    List.nil_append, List.length_take]
  by_cases hlt : body.data.length < n
  · have : min n body.data.length < n := by omega
    simp [this, hlt]
  · have : ¬ min n body.data.length < n := by omega
    simp [this, hlt]

theorem decide_streaming (cfg : Thresholds) (pol : StdPolicy) (h : Headers) (body : RSrc)
    (hch : h.chunked = false) (n : Nat) (hcl : h.cl = some n) (hn : cfg.probeMax < n) :
    decideBodyStrategy cfg pol h body = .ok (.streaming body n) := by
  have : ¬ n ≤ cfg.probeMax := by omega
  simp [decideBodyStrategy, hch, hcl, this]

theorem decide_probe_complete (cfg : Thresholds) (hc : cfg.Pos) (pol : StdPolicy) (h : Headers) (body : RSrc)
    (hs : body.Ok) (hch : h.chunked = false) (hcl : h.cl = none) (hn : body.data.length < cfg.probeMax) :
    decideBodyStrategy cfg pol h body = .ok (.fast body.data body.data.length) := by
  obtain ⟨ps, _, e⟩ := probeBody_eq cfg pol hc body hs cfg.probeMax
  simp [decideBodyStrategy, hch, hcl, e, hn]

theorem decide_probe_incomplete (cfg : Thresholds) (hc : cfg.Pos) (pol : StdPolicy) (h : Headers) (body : RSrc)
    (hs : body.Ok) (hch : h.chunked = false) (hcl : h.cl = none) (hn : cfg.probeMax ≤ body.data.length) :
    ∃ ps, (∀ p ∈ ps, 1 ≤ p) ∧ decideBodyStrategy cfg pol h body
      = .ok (.autoChunked (body.data.take cfg.probeMax) { data := body.data.drop cfg.probeMax, pieces := ps }) := by
  obtain ⟨ps, hps, e⟩ := probeBody_eq cfg pol hc body hs cfg.probeMax
  have : ¬ body.data.length < cfg.probeMax := by omega
  exact ⟨ps, hps, by simp [decideBodyStrategy, hch, hcl, e, this]⟩

-- ---------------------------------------------------------------- the shared tail of write_response / write_request

/-- `write_response` / `write_request` after the start line `start` (without CRLF) has been produced -/
def genericWrite (cfg : Thresholds) (pol : StdPolicy) (start : Bytes) (h : Headers) (date : Bytes)
    (body : RSrc) (accept : Option Nat) : PrintRes Bytes := do
  let strat ← decideBodyStrategy cfg pol h body
  let head ← addHeaders (start ++ CRLF) h date strat
  writeBody cfg pol (head ++ CRLF) strat accept

theorem writeResponse_generic (cfg : Thresholds) (pol : StdPolicy) (code : Nat) (reason : Bytes) (h : Headers)
    (date : Bytes) (body : RSrc) (accept : Option Nat) (lo : 100 ≤ code) (hi : code ≤ 999) :
    writeResponse cfg pol code reason h date body accept
      = genericWrite cfg pol (statusStart code reason) h date body accept := by
  unfold writeResponse genericWrite buildResponseHead
  cases decideBodyStrategy cfg pol h body with
  | ok a =>
    simp only [statusLine_eq code reason lo hi, vecWithCapacity, PrintRes.bind_ok, List.nil_append]
    cases addHeaders (statusStart code reason ++ CRLF) h date a <;> simp
  | _ => simp

theorem writeRequest_generic (cfg : Thresholds) (pol : StdPolicy) (m : Method) (uri : Bytes) (h : Headers)
    (date : Bytes) (body : RSrc) (accept : Option Nat) :
    writeRequest cfg pol m uri h date body accept
      = genericWrite cfg pol (requestStart m.asBytes uri) h date body accept := by
  unfold writeRequest genericWrite buildRequestHead
  cases decideBodyStrategy cfg pol h body with
  | ok a =>
    simp only [vecWithCapacity, requestStart, str_sp, http11crlf, PrintRes.bind_ok, List.nil_append, List.append_assoc]
    cases addHeaders (m.asBytes ++ ([SP] ++ (uri ++ ([SP] ++ (str "HTTP/1.1" ++ CRLF))))) h date a <;> simp
  | _ => simp

theorem chunks_wf (cs : List Bytes) (n : Nat) (h : ∀ c ∈ cs, c ≠ [] ∧ c.length ≤ n) :
    framingWf (.chunked cs) = true := by
  simp only [framingWf, List.all_eq_true]
  intro c hc
  simpa using (h c hc).1

/-- caller declared `transfer-encoding: chunked` -/
theorem genericWrite_chunked (cfg : Thresholds) (hc : cfg.Pos) (pol : StdPolicy) (start : Bytes) (h : Headers)
    (date dv : Bytes) (hd : date = fieldLine (str "date", dv)) (body : RSrc) (hs : body.Ok) (accept : Option Nat)
    (hch : h.chunked = true) :
    ∃ chunks : List Bytes, (∀ c ∈ chunks, c ≠ [] ∧ c.length ≤ cfg.chunkBufSize) ∧ chunks.flatten = body.data ∧
      genericWrite cfg pol start h date body accept
        = .ok (renderMessage start (h.fields ++ dateField (dateOpt h dv)) (.chunked chunks)) := by
  obtain ⟨chunks, h1, h2, h3⟩ := writeChunked_eq cfg hc body hs
  refine ⟨chunks, h1, h2, ?_⟩
  simp only [genericWrite, decide_chunked cfg pol h body hch, PrintRes.bind_ok, addHeaders_chunked, writeBody, h3,
    PrintRes.written_ok]
  rw [head_plain start h date dv hd, flatMap_writeChunk, last_eq]
  simp [renderMessage, encodeBody, encodeChunkedPlain]

/-- caller declared a content-length `n` and the reader has at least `n` bytes: head with `content-length: n`, then
    the first `n` body bytes — never more -/
theorem genericWrite_declared (cfg : Thresholds) (pol : StdPolicy) (start : Bytes) (h : Headers)
    (date dv : Bytes) (hd : date = fieldLine (str "date", dv)) (body : RSrc) (hs : body.Ok) (accept : Option Nat)
    (hch : h.chunked = false) (n : Nat) (hcl : h.cl = some n) (hn : n < 2 ^ 64) (hle : n ≤ body.data.length)
    (ha : AcceptOk accept
      (renderHead start (h.fields ++ dateField (dateOpt h dv) ++ [clField n]) ++ body.data.take n)) :
    genericWrite cfg pol start h date body accept
      = .ok (renderHead start (h.fields ++ dateField (dateOpt h dv) ++ [clField n]) ++ body.data.take n) := by
  have hn' : n < 10 ^ 20 := by omega
  have hnl : ¬ body.data.length < n := by omega
  by_cases hp : n ≤ cfg.probeMax
  · simp only [genericWrite, decide_fast_declared cfg pol h body hs hch n hcl hp, hnl, if_false, PrintRes.bind_ok,
      addHeaders_fast _ _ _ _ _ hn', writeBody]
    rw [head_cl start h date dv hd n]
    apply writeVectoredBytes_eq
    cases accept with
    | none => simp [acceptAll]
    | some a => have := ha a rfl; simpa [acceptAll] using this
  · simp only [genericWrite, decide_streaming cfg pol h body hch n hcl (by omega), PrintRes.bind_ok,
      addHeaders_streaming _ _ _ _ _ hn', writeBody, writeStreaming_eq pol body hs, hnl, if_false,
      PrintRes.written_ok]
    rw [head_cl start h date dv hd n]

/-- caller declared a content-length `n` and the reader ends before `n` bytes: `Err(body_shorter_than_declared())`;
    on the Fast path (`n ≤ PROBE_MAX`) before anything is written, on the Streaming path after the head (which
    announces `n`) and the whole body -/
theorem genericWrite_underrun (cfg : Thresholds) (pol : StdPolicy) (start : Bytes) (h : Headers)
    (date dv : Bytes) (hd : date = fieldLine (str "date", dv)) (body : RSrc) (hs : body.Ok) (accept : Option Nat)
    (hch : h.chunked = false) (n : Nat) (hcl : h.cl = some n) (hn : n < 2 ^ 64) (hlt : body.data.length < n) :
    genericWrite cfg pol start h date body accept
      = if n ≤ cfg.probeMax then .ioErr []
        else .ioErr (renderHead start (h.fields ++ dateField (dateOpt h dv) ++ [clField n]) ++ body.data) := by
  have hn' : n < 10 ^ 20 := by omega
  by_cases hp : n ≤ cfg.probeMax
  · simp [genericWrite, decide_fast_declared cfg pol h body hs hch n hcl hp, hlt, hp]
  · simp only [genericWrite, decide_streaming cfg pol h body hch n hcl (by omega), PrintRes.bind_ok,
      addHeaders_streaming _ _ _ _ _ hn', writeBody, writeStreaming_eq pol body hs, hlt, if_true,
      PrintRes.written_ioErr, hp, if_false]
    rw [head_cl start h date dv hd n]

/-- nothing declared, the reader ended within the probe: content-length framing -/
theorem genericWrite_probe_complete (cfg : Thresholds) (hc : cfg.Pos) (pol : StdPolicy) (start : Bytes) (h : Headers)
    (date dv : Bytes) (hd : date = fieldLine (str "date", dv)) (body : RSrc) (hs : body.Ok) (accept : Option Nat)
    (hch : h.chunked = false) (hcl : h.cl = none) (hn : body.data.length < cfg.probeMax)
    (ha : AcceptOk accept
      (renderMessage start (allFields h.fields (dateOpt h dv) (.length body.data)) (.length body.data))) :
    genericWrite cfg pol start h date body accept
      = .ok (renderMessage start (allFields h.fields (dateOpt h dv) (.length body.data)) (.length body.data)) := by
  have hn' : body.data.length < 10 ^ 20 := by have := hc.2.2.2; omega
  simp only [genericWrite, decide_probe_complete cfg hc pol h body hs hch hcl hn, PrintRes.bind_ok,
    addHeaders_fast _ _ _ _ _ hn', writeBody]
  rw [head_cl start h date dv hd]
  simp only [renderMessage, allFields, framingField, encodeBody] at ha ⊢
  apply writeVectoredBytes_eq
  cases accept with
  | none => simp [acceptAll]
  | some a => have := ha a rfl; simpa [acceptAll] using this

/-- nothing declared, more than the probe: chunked framing, first chunk = the probed prefix -/
theorem genericWrite_probe_incomplete (cfg : Thresholds) (hc : cfg.Pos) (pol : StdPolicy) (start : Bytes) (h : Headers)
    (date dv : Bytes) (hd : date = fieldLine (str "date", dv)) (body : RSrc) (hs : body.Ok) (accept : Option Nat)
    (hch : h.chunked = false) (hcl : h.cl = none) (hn : cfg.probeMax ≤ body.data.length) :
    ∃ chunks : List Bytes, (∀ c ∈ chunks, c ≠ [] ∧ c.length ≤ max cfg.probeMax cfg.chunkBufSize) ∧
      chunks.flatten = body.data ∧ chunks.head? = some (body.data.take cfg.probeMax) ∧
      genericWrite cfg pol start h date body accept
        = .ok (renderMessage start (allFields h.fields (dateOpt h dv) (.chunked chunks)) (.chunked chunks)) := by
  obtain ⟨ps, hps, e⟩ := decide_probe_incomplete cfg hc pol h body hs hch hcl hn
  obtain ⟨chunks, h1, h2, h3⟩ := writeChunked_eq cfg hc { data := body.data.drop cfg.probeMax, pieces := ps } hps
  refine ⟨body.data.take cfg.probeMax :: chunks, ?_, ?_, rfl, ?_⟩
  · intro c hcm
    rcases List.mem_cons.1 hcm with hh | hh
    · subst hh
      refine ⟨?_, by simp; omega⟩
      intro h0
      have : (List.take cfg.probeMax body.data).length = 0 := by rw [h0]; rfl
      have hp := hc.1
      rw [List.length_take] at this; omega
    · have := h1 c hh
      exact ⟨this.1, by omega⟩
  · simp only [List.flatten_cons, h2]; simp
  · simp only [genericWrite, e, PrintRes.bind_ok, addHeaders_auto, writeBody, h3, PrintRes.written_ok]
    rw [head_te start h date dv hd, flatMap_writeChunk, last_eq, writeChunk_eq]
    simp [renderMessage, allFields, framingField, encodeBody, encodeChunkedPlain]

-- ---------------------------------------------------------------- write_response_empty / write_response_bytes

theorem writeResponseEmpty_eq (cfg : Thresholds) (code : Nat) (reason : Bytes) (h : Headers) (date dv : Bytes)
    (hd : date = fieldLine (str "date", dv)) (lo : 100 ≤ code) (hi : code ≤ 999) :
    writeResponseEmpty cfg code reason h date = .ok (
      if h.chunked then
        renderMessage (statusStart code reason) (h.fields ++ dateField (dateOpt h dv)) (.chunked [])
      else renderResponse code reason h.fields (dateOpt h dv) (.length [])) := by
  simp only [writeResponseEmpty, statusLine_eq code reason lo hi, vecWithCapacity, PrintRes.bind_ok, List.nil_append]
  cases hch : h.chunked with
  | true =>
    simp only [if_true]
    rw [empty_chunked_tail, ← List.append_assoc, head_plain _ h date dv hd]
    simp [renderMessage, encodeBody, encodeChunkedPlain]
  | false =>
    simp only [Bool.false_eq_true, if_false]
    rw [empty_cl_tail, fieldLines_eq, dateLine_eq h date dv hd]
    simp [renderResponse, renderMessage, renderHead, allFields, framingField, encodeBody, crlf_eq]

theorem writeResponseBytes_chunked (cfg : Thresholds) (code : Nat) (reason : Bytes) (h : Headers) (date dv : Bytes)
    (hd : date = fieldLine (str "date", dv)) (lo : 100 ≤ code) (hi : code ≤ 999) (body : Bytes)
    (accept : Option Nat) (hch : h.chunked = true) :
    writeResponseBytes cfg code reason h date body accept = .ok (
      renderMessage (statusStart code reason) (h.fields ++ dateField (dateOpt h dv))
        (.chunked (if body = [] then [] else [body]))) := by
  simp only [writeResponseBytes, statusLine_eq code reason lo hi, vecWithCapacity, PrintRes.bind_ok, List.nil_append,
    hch, if_true]
  rw [head_plain _ h date dv hd, last_eq]
  cases body with
  | nil => simp [renderMessage, encodeBody, encodeChunkedPlain]
  | cons a t => simp [renderMessage, encodeBody, encodeChunkedPlain, writeChunk_eq]

theorem writeResponseBytes_length (cfg : Thresholds) (code : Nat) (reason : Bytes) (h : Headers) (date dv : Bytes)
    (hd : date = fieldLine (str "date", dv)) (lo : 100 ≤ code) (hi : code ≤ 999) (body : Bytes)
    (hlen : body.length < 2 ^ 64) (accept : Option Nat) (hch : h.chunked = false)
    (ha : AcceptOk accept (renderResponse code reason h.fields (dateOpt h dv) (.length body))) :
    writeResponseBytes cfg code reason h date body accept
      = .ok (renderResponse code reason h.fields (dateOpt h dv) (.length body)) := by
  have hl' : body.length < 10 ^ 20 := by omega
  simp only [writeResponseBytes, statusLine_eq code reason lo hi, vecWithCapacity, PrintRes.bind_ok, List.nil_append,
    hch, Bool.false_eq_true, if_false, addContentLengthHeader, u64ToAsciiBuf_eq _ hl', dcrlf_eq]
  rw [← List.append_assoc _ CRLF CRLF, head_cl _ h date dv hd]
  simp only [renderResponse, renderMessage, allFields, framingField, encodeBody] at ha ⊢
  apply writeVectoredBytes_eq
  cases accept with
  | none => simp [acceptAll]
  | some a => have := ha a rfl; simpa [acceptAll] using this

-- ---------------------------------------------------------------- header sets built through the `Headers` API

theorem add_plain (h : Headers) (n v : Bytes) (hn : isFramingField (n, v) = false) :
    (h.add n v).fields = h.fields ++ [(n, v)] ∧ (h.add n v).chunked = h.chunked ∧ (h.add n v).cl = h.cl ∧
      (h.add n v).printDate = h.printDate := by
  simp only [isFramingField, isCL, isTE, Bool.or_eq_false_iff] at hn
  have h1 : eqIgnoreCase n Headers.CONTENT_LENGTH = false := hn.1
  have h2 : eqIgnoreCase n Headers.TRANSFER_ENCODING = false := hn.2
  unfold Headers.add
  simp only [h1, h2, Bool.false_eq_true, if_false]
  split <;> simp

/-- `for f in user { h.add(f.name, f.value) }` -/
def addAll (h0 : Headers) (user : List (Bytes × Bytes)) : Headers := user.foldl (fun h f => h.add f.1 f.2) h0

theorem addAll_plain (user : List (Bytes × Bytes)) (hu : noFramingName user = true) : ∀ h0 : Headers,
    (addAll h0 user).fields = h0.fields ++ user ∧ (addAll h0 user).chunked = h0.chunked ∧
      (addAll h0 user).cl = h0.cl ∧ (addAll h0 user).printDate = h0.printDate := by
  induction user with
  | nil => intro h0; simp [addAll]
  | cons f fs ih =>
    intro h0
    simp only [noFramingName, List.all_cons, Bool.and_eq_true, Bool.not_eq_true'] at hu
    have a := add_plain h0 f.1 f.2 hu.1
    have r := ih (by simpa [noFramingName] using hu.2) (h0.add f.1 f.2)
    simp only [addAll, List.foldl_cons] at r ⊢
    rw [r.1, r.2.1, r.2.2.1, r.2.2.2, a.1, a.2.1, a.2.2.1, a.2.2.2]
    simp

-- ---------------------------------------------------------------- framingOk of the printed header sections

theorem framingOk_chunked_irrel (fields : List (Bytes × Bytes)) (a b : List Bytes) :
    framingOk fields (.chunked a) = framingOk fields (.chunked b) := by
  unfold framingOk; split <;> simp_all

theorem framingOk_append_date (fields : List (Bytes × Bytes)) (d : Option Bytes) (fr : Framing) :
    framingOk (fields ++ dateField d) fr = framingOk fields fr := by
  unfold framingOk
  rw [trimValues_append, List.filter_append, noFramingName_trim _ (dateField_noFraming d), List.append_nil]

theorem framingOk_te_mid (a b : List (Bytes × Bytes)) (ha : noFramingName a = true) (hb : noFramingName b = true)
    (cs : List Bytes) : framingOk (a ++ [teField] ++ b) (.chunked cs) = true := by
  unfold framingOk
  rw [trimValues_append, trimValues_append, List.filter_append, List.filter_append,
    noFramingName_trim _ ha, noFramingName_trim _ hb]
  have h1 : eqIgnoreCase TRANSFER_ENCODING TRANSFER_ENCODING = true := by decide +kernel
  have h2 : eqIgnoreCase TRANSFER_ENCODING CONTENT_LENGTH = false := by decide +kernel
  have h3 : lastCodingChunked (trimOws (str "chunked")) = true := by decide +kernel
  simp [trimValues, teField, isFramingField, isCL, isTE, h1, h2, h3]

theorem wfFields_teField : wfFields [teField] = true := by decide +kernel

end Khttp.Printer
