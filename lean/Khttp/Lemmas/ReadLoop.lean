/-
  Helper lemmas for the read loops (`Khttp/Model/ReadLoop.lean`): facts about `recv`, a generic loop over an
  abstract prefix-stable parser, its post-condition and the characterisation of its outcome in terms of the
  byte stream alone (used by C10 and C03Loop).
-/
import Khttp.Model.ReadLoop
import Khttp.Props.C03
namespace Khttp

/-! ### `recv` -/

theorem recvSegs_data {eof : Bool} {n : Nat} {segs : List Bytes} {b : Bytes} {s' : Sock} (hn : 1 ≤ n)
    (h : recvSegs eof n segs = .data b s') :
    b ≠ [] ∧ b.length ≤ n ∧ b ++ s'.pending = segs.flatten ∧ s'.eof = eof := by
  induction segs with
  | nil => simp only [recvSegs] at h; split at h <;> cases h
  | cons seg rest ih =>
    simp only [recvSegs] at h
    split at h
    · rename_i he
      have : seg = [] := by simpa using he
      subst this
      simpa using ih h
    · rename_i hne
      have hne' : seg ≠ [] := by simpa using hne
      split at h
      · rename_i hle
        cases h
        exact ⟨hne', hle, by simp [Sock.pending], rfl⟩
      · rename_i hgt
        cases h
        refine ⟨?_, ?_, ?_, rfl⟩
        · intro h0
          rcases List.take_eq_nil_iff.mp h0 with h | h
          · omega
          · exact hne' h
        · simp; omega
        · simp [Sock.pending, ← List.append_assoc]

theorem recvSegs_eof {eof : Bool} {n : Nat} {segs : List Bytes}
    (h : recvSegs eof n segs = .eof) : segs.flatten = [] ∧ eof = true := by
  induction segs with
  | nil => simp only [recvSegs] at h; split at h <;> simp_all
  | cons seg rest ih =>
    simp only [recvSegs] at h
    split at h
    · rename_i he
      have : seg = [] := by simpa using he
      subst this
      simpa using ih h
    · split at h <;> cases h

theorem recvSegs_hang {eof : Bool} {n : Nat} {segs : List Bytes}
    (h : recvSegs eof n segs = .hang) : segs.flatten = [] ∧ eof = false := by
  induction segs with
  | nil => simp only [recvSegs] at h; split at h <;> simp_all
  | cons seg rest ih =>
    simp only [recvSegs] at h
    split at h
    · rename_i he
      have : seg = [] := by simpa using he
      subst this
      simpa using ih h
    · split at h <;> cases h

theorem Sock.recv_data {s s' : Sock} {n : Nat} {b : Bytes} (hn : 1 ≤ n) (h : s.recv n = .data b s') :
    b ≠ [] ∧ b.length ≤ n ∧ b ++ s'.pending = s.pending ∧ s'.eof = s.eof :=
  recvSegs_data hn h

theorem Sock.recv_eof {s : Sock} {n : Nat} (h : s.recv n = .eof) : s.pending = [] ∧ s.eof = true :=
  recvSegs_eof h

theorem Sock.recv_hang {s : Sock} {n : Nat} (h : s.recv n = .hang) : s.pending = [] ∧ s.eof = false :=
  recvSegs_hang h

/-! ### classification of parser results -/

/-- `none`: incomplete (`.err .eof`); `some (some r)`: accepted; `some none`: anything else (rejected) -/
def Res.cls {α} : Res α → Option (Option α)
  | .ok r => some (some r)
  | .err .eof => none
  | _ => some none

theorem Res.cls_eq_none {α} {x : Res α} : x.cls = none ↔ x = .err .eof := by
  cases x with
  | err e => cases e <;> simp [Res.cls]
  | _ => simp [Res.cls]

theorem Res.cls_eq_ok {α} {x : Res α} {r : α} : x.cls = some (some r) ↔ x = .ok r := by
  cases x with
  | err e => cases e <;> simp [Res.cls]
  | _ => simp [Res.cls]

def Res.isErrEof {α} : Res α → Bool | .err .eof => true | _ => false

theorem Res.eq_of_isErrEof {α} {r : Res α} (h : r.isErrEof = true) : r = .err .eof := by
  cases r with
  | err e => cases e <;> simp_all [Res.isErrEof]
  | _ => simp [Res.isErrEof] at h

/-- a parser whose verdict on a prefix, once decided, is the verdict on every extension -/
structure PrefixStable {α} (P : Bytes → Res α) : Prop where
  nil : P [] = .err .eof
  stable : ∀ p ext d, (P p).cls = some d → (P (p ++ ext)).cls = some d

theorem PrefixStable.take_mono {α} {P : Bytes → Res α} (hP : PrefixStable P) (stream : Bytes) {i j : Nat}
    (hij : i ≤ j) {d : Option α} (h : (P (stream.take i)).cls = some d) : (P (stream.take j)).cls = some d := by
  have : stream.take j = stream.take i ++ (stream.drop i).take (j - i) := by
    rw [← List.take_add]; congr 1; omega
  rw [this]
  exact hP.stable _ _ _ h

theorem Request.parse_nil : Request.parse [] = .err .eof := Res.eq_of_isErrEof (by decide +kernel)
theorem Response.parse_nil : Response.parse [] = .err .eof := Res.eq_of_isErrEof (by decide +kernel)

theorem Request.prefixStable : PrefixStable Request.parse where
  nil := Request.parse_nil
  stable := by
    intro p ext d h
    have hs := C01_request_safe p
    cases hp : Request.parse p with
    | ok r =>
      rw [hp] at h
      rw [C03_request_accept_stable p ext r hp]
      exact h
    | err e =>
      rw [hp] at h
      have he : e ≠ .eof := by rintro rfl; simp [Res.cls] at h
      obtain ⟨e', h', he'⟩ := C03_request_reject_stable p ext e hp he
      rw [h']
      cases e <;> cases e' <;> simp_all [Res.cls]
    | panic m => rw [hp] at hs; simp [Res.Safe, Res.isPanic] at hs
    | ub m => rw [hp] at hs; simp [Res.Safe, Res.isUb] at hs

theorem Response.prefixStable : PrefixStable Response.parse where
  nil := Response.parse_nil
  stable := by
    intro p ext d h
    have hs := C01_response_safe p
    cases hp : Response.parse p with
    | ok r =>
      rw [hp] at h
      rw [C03_response_accept_stable p ext r hp]
      exact h
    | err e =>
      rw [hp] at h
      have he : e ≠ .eof := by rintro rfl; simp [Res.cls] at h
      obtain ⟨e', h', he'⟩ := C03_response_reject_stable p ext e hp he
      rw [h']
      cases e <;> cases e' <;> simp_all [Res.cls]
    | panic m => rw [hp] at hs; simp [Res.Safe, Res.isPanic] at hs
    | ub m => rw [hp] at hs; simp [Res.Safe, Res.isUb] at hs

/-! ### the generic loop -/

inductive GOut (α : Type) where
  | ok (buf : Bytes) (r : α)
  | invalid
  | tooLarge
  | eof
  | hang

def gLoop {α} (P : Bytes → Res α) (max : Nat) : Nat → Bytes → Sock → GOut α × Sock
  | 0, _, s => (.hang, s)
  | fuel + 1, buf, s =>
    if buf.length == max then (.tooLarge, s)
    else
      match s.recv (max - buf.length) with
      | .eof => (.eof, s)
      | .hang => (.hang, s)
      | .data b s' =>
        match P (buf ++ b) with
        | .ok r => (.ok (buf ++ b) r, s')
        | .err .eof => gLoop P max fuel (buf ++ b) s'
        | _ => (.invalid, s')

/-- what is known about an outcome of the loop, relative to the whole stream -/
def GPost {α} (P : Bytes → Res α) (max : Nat) (stream : Bytes) (eof : Bool) (o : GOut α × Sock) : Prop :=
  match o.1 with
  | .ok b r => P b = .ok r ∧ b.length ≤ max ∧ b ++ o.2.pending = stream ∧ o.2.eof = eof
  | .invalid => ∃ c, c ≤ max ∧ c ≤ stream.length ∧ (P (stream.take c)).cls = some none
  | .tooLarge => max ≤ stream.length ∧ P (stream.take max) = .err .eof
  | .eof => stream.length < max ∧ P stream = .err .eof ∧ eof = true
  | .hang => stream.length < max ∧ P stream = .err .eof ∧ eof = false

theorem gLoop_post {α} (P : Bytes → Res α) (max : Nat) (stream : Bytes) (eof : Bool) :
    ∀ (fuel : Nat) (buf : Bytes) (s : Sock), buf ++ s.pending = stream → s.eof = eof → buf.length ≤ max →
      max - buf.length + 1 ≤ fuel → P buf = .err .eof →
      GPost P max stream eof (gLoop P max fuel buf s) := by
  intro fuel
  induction fuel with
  | zero => intro buf s _ _ _ hf; omega
  | succ fuel ih =>
    intro buf s hst he hle hf hpb
    have hlen : stream.length = buf.length + s.pending.length := by rw [← hst]; simp
    unfold gLoop
    split
    · rename_i hmax
      have hmax : buf.length = max := by simpa using hmax
      refine ⟨by omega, ?_⟩
      rw [← hst, List.take_left' hmax]; exact hpb
    · rename_i hmax
      have hmax : buf.length ≠ max := by simpa using hmax
      have hw : 1 ≤ max - buf.length := by omega
      split
      · rename_i hr
        obtain ⟨hp, he'⟩ := Sock.recv_eof hr
        rw [hp] at hst hlen
        simp at hst
        subst hst
        exact ⟨by omega, hpb, by rw [← he, he']⟩
      · rename_i hr
        obtain ⟨hp, he'⟩ := Sock.recv_hang hr
        rw [hp] at hst hlen
        simp at hst
        subst hst
        exact ⟨by omega, hpb, by rw [← he, he']⟩
      · rename_i b s' hr
        obtain ⟨hb, hbl, hbp, he'⟩ := Sock.recv_data hw hr
        have hb1 : 1 ≤ b.length := by
          cases b with
          | nil => exact absurd rfl hb
          | cons _ _ => simp
        have hst' : (buf ++ b) ++ s'.pending = stream := by rw [List.append_assoc, hbp, hst]
        have hl' : (buf ++ b).length ≤ max := by simp; omega
        split
        · rename_i r hp
          exact ⟨hp, hl', hst', by rw [he', he]⟩
        · rename_i hp
          exact ih (buf ++ b) s' hst' (by rw [he', he]) hl' (by simp; omega) hp
        · rename_i hnok hneof
          refine ⟨(buf ++ b).length, hl', by rw [← hst']; simp, ?_⟩
          have : stream.take (buf ++ b).length = buf ++ b := by
            rw [← hst']; exact List.take_left' rfl
          rw [this]
          cases hp : P (buf ++ b) with
          | ok r => exact absurd hp (hnok r)
          | err e =>
            cases e with
            | eof => exact absurd hp hneof
            | _ => rfl
          | panic m => rfl
          | ub m => rfl

/-- the loop started as `read_request` does -/
theorem gLoop_post_init {α} {P : Bytes → Res α} (hP : PrefixStable P) (max : Nat) (s : Sock) :
    GPost P max s.pending s.eof (gLoop P max (max + 1) [] s) :=
  gLoop_post P max s.pending s.eof (max + 1) [] s (by simp) rfl (by simp) (by simp) hP.nil

/-- every outcome names a cut `c ≤ min max len` and the classification of that prefix; for the three
    "undecided" outcomes `c = min max len` -/
theorem GPost.decided {α} {P : Bytes → Res α} (hP : PrefixStable P) {max : Nat} {stream : Bytes} {eof : Bool}
    {o : GOut α × Sock} (h : GPost P max stream eof o) {k : Nat} (hk : k ≤ max) (hk' : k ≤ stream.length)
    {d : Option α} (hd : (P (stream.take k)).cls = some d) :
    match d with
    | some r => ∃ b, o.1 = .ok b r ∧ b.length ≤ max ∧ b ++ o.2.pending = stream ∧ o.2.eof = eof ∧ P b = .ok r
    | none => o.1 = .invalid := by
  -- compare with any other cut
  have key : ∀ c d', (P (stream.take c)).cls = d' → (c ≤ k ∨ k ≤ c) → d' ≠ none → d' = some d := by
    intro c d' hc hor hne
    cases d' with
    | none => exact absurd rfl hne
    | some x =>
      rcases Nat.le_total c k with h1 | h1
      · have := hP.take_mono stream h1 hc
        rw [hd] at this; exact this.symm
      · have := hP.take_mono stream h1 hd
        rw [hc] at this; exact this
  have keyN : ∀ c, k ≤ c → P (stream.take c) = .err .eof → False := by
    intro c hc hpc
    have := hP.take_mono stream hc hd
    rw [hpc] at this; simp [Res.cls] at this
  unfold GPost at h
  cases ho : o.1 with
  | ok b r =>
    rw [ho] at h
    obtain ⟨hpb, hbl, hbs, hbe⟩ := h
    have hbt : stream.take b.length = b := by rw [← hbs]; exact List.take_left' rfl
    have := key b.length (some (some r)) (by rw [hbt, hpb]; rfl) (Nat.le_total _ _) (by simp)
    have hdr : d = some r := by simpa using this.symm
    subst hdr
    exact ⟨b, rfl, hbl, hbs, hbe, hpb⟩
  | invalid =>
    rw [ho] at h
    obtain ⟨c, _, _, hc⟩ := h
    have := key c (some none) hc (Nat.le_total _ _) (by simp)
    have hdr : d = none := by simpa using this.symm
    subst hdr
    rfl
  | tooLarge =>
    rw [ho] at h
    exact (keyN max hk h.2).elim
  | eof =>
    rw [ho] at h
    exact (keyN stream.length hk' (by rw [List.take_length]; exact h.2.1)).elim
  | hang =>
    rw [ho] at h
    exact (keyN stream.length hk' (by rw [List.take_length]; exact h.2.1)).elim

theorem GPost.undecided {α} {P : Bytes → Res α} {max : Nat} {stream : Bytes} {eof : Bool}
    {o : GOut α × Sock} (h : GPost P max stream eof o)
    (hu : ∀ k, k ≤ max → k ≤ stream.length → P (stream.take k) = .err .eof) :
    o.1 = if max ≤ stream.length then .tooLarge else if eof then .eof else .hang := by
  unfold GPost at h
  cases ho : o.1 with
  | ok b r =>
    rw [ho] at h
    obtain ⟨hpb, hbl, hbs, hbe⟩ := h
    have hbt : stream.take b.length = b := by rw [← hbs]; exact List.take_left' rfl
    have := hu b.length hbl (by rw [← hbs]; simp)
    rw [hbt, hpb] at this; cases this
  | invalid =>
    rw [ho] at h
    obtain ⟨c, h1, h2, hc⟩ := h
    rw [hu c h1 h2] at hc; simp [Res.cls] at hc
  | tooLarge =>
    rw [ho] at h
    rw [if_pos h.1]
  | eof =>
    rw [ho] at h
    rw [if_neg (by omega), h.2.2]; rfl
  | hang =>
    rw [ho] at h
    rw [if_neg (by omega), h.2.2]; rfl

/-- the summary of an outcome that the callers observe -/
def GOut.view {α} (o : GOut α × Sock) (off : α → Nat) : GOut α :=
  match o.1 with
  | .ok b r => .ok ((b ++ o.2.pending).drop (off r)) r
  | x => x

/-- two outcomes for the same stream are observably equal -/
theorem GPost.unique {α} {P : Bytes → Res α} (hP : PrefixStable P) {max : Nat} {stream : Bytes} {eof : Bool}
    {o₁ o₂ : GOut α × Sock} (h₁ : GPost P max stream eof o₁) (h₂ : GPost P max stream eof o₂) (off : α → Nat) :
    GOut.view o₁ off = GOut.view o₂ off := by
  by_cases hex : ∃ k, k ≤ max ∧ k ≤ stream.length ∧ P (stream.take k) ≠ .err .eof
  · obtain ⟨k, hk, hk', hne⟩ := hex
    cases hd : (P (stream.take k)).cls with
    | none => exact absurd (Res.cls_eq_none.mp hd) hne
    | some d =>
      have a₁ := h₁.decided hP hk hk' hd
      have a₂ := h₂.decided hP hk hk' hd
      cases d with
      | none =>
        simp only at a₁ a₂
        simp [GOut.view, a₁, a₂]
      | some r =>
        obtain ⟨b₁, e₁, _, s₁, _⟩ := a₁
        obtain ⟨b₂, e₂, _, s₂, _⟩ := a₂
        simp [GOut.view, e₁, e₂, s₁, s₂]
  · have hu : ∀ k, k ≤ max → k ≤ stream.length → P (stream.take k) = .err .eof := by
      intro k hk hk'
      apply Classical.byContradiction
      intro hne
      exact hex ⟨k, hk, hk', hne⟩
    have a₁ := h₁.undecided hu
    have a₂ := h₂.undecided hu
    by_cases hm : max ≤ stream.length
    · simp only [hm, if_true] at a₁ a₂
      simp [GOut.view, a₁, a₂]
    · cases eof <;> simp only [hm, if_false] at a₁ a₂ <;> simp [GOut.view, a₁, a₂]

/-! ### the two concrete loops are instances of the generic one -/

def GOut.toServer : GOut Request → Except ReadErr ReadOk
  | .ok b r => .ok ⟨b, r⟩
  | .invalid => .error .invalid
  | .tooLarge => .error .tooLarge
  | .eof => .error .readEof
  | .hang => .error .hang

def GOut.toClient : GOut Response → Except ClientReadErr ClientReadOk
  | .ok b r => .ok ⟨b, r⟩
  | .invalid => .error .parsing
  | .tooLarge => .error .headTooLarge
  | .eof => .error .unexpectedEof
  | .hang => .error .hang

theorem readLoop_eq_gLoop (max : Nat) : ∀ (fuel : Nat) (buf : Bytes) (s : Sock) (log : RecvLog),
    (readLoop max fuel buf s log).1 = (gLoop Request.parse max fuel buf s).1.toServer ∧
    (readLoop max fuel buf s log).2.1 = (gLoop Request.parse max fuel buf s).2 := by
  intro fuel
  induction fuel with
  | zero => intro buf s log; simp [readLoop, gLoop, GOut.toServer]
  | succ fuel ih =>
    intro buf s log
    unfold readLoop gLoop
    split
    · simp [GOut.toServer]
    · simp only []
      cases hr : s.recv (max - buf.length) with
      | eof => simp [GOut.toServer]
      | hang => simp [GOut.toServer]
      | data b s' =>
        simp only []
        cases hp : Request.parse (buf ++ b) with
        | ok r => simp [GOut.toServer]
        | err e =>
          cases e with
          | eof => exact ih _ _ _
          | _ => simp [GOut.toServer]
        | panic m => simp [GOut.toServer]
        | ub m => simp [GOut.toServer]

theorem readResponseLoop_eq_gLoop (max : Nat) : ∀ (fuel : Nat) (buf : Bytes) (s : Sock),
    (readResponseLoop max fuel buf s).1 = (gLoop Response.parse max fuel buf s).1.toClient ∧
    (readResponseLoop max fuel buf s).2 = (gLoop Response.parse max fuel buf s).2 := by
  intro fuel
  induction fuel with
  | zero => intro buf s; simp [readResponseLoop, gLoop, GOut.toClient]
  | succ fuel ih =>
    intro buf s
    unfold readResponseLoop gLoop
    split
    · simp [GOut.toClient]
    · cases hr : s.recv (max - buf.length) with
      | eof => simp [GOut.toClient]
      | hang => simp [GOut.toClient]
      | data b s' =>
        simp only []
        cases hp : Response.parse (buf ++ b) with
        | ok r => simp [GOut.toClient]
        | err e =>
          cases e with
          | eof => exact ih _ _
          | _ => simp [GOut.toClient]
        | panic m => simp [GOut.toClient]
        | ub m => simp [GOut.toClient]

/-- the generic outcome of `read_request` -/
def gRequest (max : Nat) (s : Sock) : GOut Request × Sock := gLoop Request.parse max (max + 1) [] s

theorem readRequest_fst (max : Nat) (s : Sock) : (readRequest max s).1 = (gRequest max s).1.toServer :=
  (readLoop_eq_gLoop max _ _ _ _).1

theorem readRequest_snd (max : Nat) (s : Sock) : (readRequest max s).2.1 = (gRequest max s).2 :=
  (readLoop_eq_gLoop max _ _ _ _).2

theorem gRequest_post (max : Nat) (s : Sock) : GPost Request.parse max s.pending s.eof (gRequest max s) :=
  gLoop_post_init Request.prefixStable max s

def gResponse (s : Sock) : GOut Response × Sock :=
  gLoop Response.parse Gen.maxResponseHead (Gen.maxResponseHead + 1) [] s

theorem readResponse_fst (s : Sock) : (readResponse s).1 = (gResponse s).1.toClient :=
  (readResponseLoop_eq_gLoop _ _ _ _).1

theorem readResponse_snd (s : Sock) : (readResponse s).2 = (gResponse s).2 :=
  (readResponseLoop_eq_gLoop _ _ _ _).2

theorem gResponse_post (s : Sock) :
    GPost Response.parse Gen.maxResponseHead s.pending s.eof (gResponse s) :=
  gLoop_post_init Response.prefixStable _ s

/-! ### the ghost log of `recv` calls -/

theorem readLoop_log (max : Nat) (Q : Nat × Nat → Prop) (hQ : ∀ n, n < max → Q (n, max - n)) :
    ∀ (fuel : Nat) (buf : Bytes) (s : Sock) (log : RecvLog), buf.length ≤ max → (∀ e ∈ log, Q e) →
      ∀ e ∈ (readLoop max fuel buf s log).2.2, Q e := by
  intro fuel
  induction fuel with
  | zero => intro buf s log _ hl; simpa [readLoop] using hl
  | succ fuel ih =>
    intro buf s log hle hl
    unfold readLoop
    split
    · simpa using hl
    · rename_i hmax
      have hmax : buf.length ≠ max := by simpa using hmax
      have hl' : ∀ e ∈ log ++ [(buf.length, max - buf.length)], Q e := by
        intro e he
        rcases List.mem_append.mp he with h | h
        · exact hl e h
        · have : e = (buf.length, max - buf.length) := by simpa using h
          subst this
          exact hQ _ (by omega)
      simp only []
      cases hr : s.recv (max - buf.length) with
      | eof => simpa using hl'
      | hang => simpa using hl'
      | data b s' =>
        simp only []
        obtain ⟨_, hbl, _, _⟩ := Sock.recv_data (by omega) hr
        cases hp : Request.parse (buf ++ b) with
        | ok r => simpa using hl'
        | err e =>
          cases e with
          | eof => exact ih _ _ _ (by simp; omega) hl'
          | _ => simpa using hl'
        | panic m => simpa using hl'
        | ub m => simpa using hl'

/-! ### corollaries in terms of `readRequest` / `readResponse` -/

theorem GOut.toServer_eq_ok {g : GOut Request} {ok : ReadOk} (h : g.toServer = .ok ok) : g = .ok ok.buf ok.req := by
  cases g <;> simp [GOut.toServer] at h
  subst h; rfl

theorem GOut.toClient_eq_ok {g : GOut Response} {ok : ClientReadOk} (h : g.toClient = .ok ok) :
    g = .ok ok.buf ok.res := by
  cases g <;> simp [GOut.toClient] at h
  subst h; rfl

theorem readRequest_ok_post {max : Nat} {s : Sock} {ok : ReadOk} (h : (readRequest max s).1 = .ok ok) :
    Request.parse ok.buf = .ok ok.req ∧ ok.buf.length ≤ max ∧
    ok.buf ++ (readRequest max s).2.1.pending = s.pending ∧ (readRequest max s).2.1.eof = s.eof := by
  rw [readRequest_fst] at h
  have hg := GOut.toServer_eq_ok h
  have hpost := gRequest_post max s
  unfold GPost at hpost
  rw [hg] at hpost
  rw [readRequest_snd]
  exact hpost

theorem readRequest_decided_ok {max : Nat} {s : Sock} {k : Nat} {r : Request} (hk : k ≤ max)
    (hk' : k ≤ s.pending.length) (hp : Request.parse (s.pending.take k) = .ok r) :
    ∃ ok, (readRequest max s).1 = .ok ok ∧ ok.req = r ∧
      ok.buf ++ (readRequest max s).2.1.pending = s.pending := by
  have := (gRequest_post max s).decided Request.prefixStable hk hk' (d := some r) (by rw [hp]; rfl)
  obtain ⟨b, hb, _, hs, _, _⟩ := this
  refine ⟨⟨b, r⟩, ?_, rfl, ?_⟩
  · rw [readRequest_fst, hb]; rfl
  · rw [readRequest_snd]; exact hs

theorem readRequest_decided_err {max : Nat} {s : Sock} {k : Nat} {e : PErr} (hk : k ≤ max)
    (hk' : k ≤ s.pending.length) (hp : Request.parse (s.pending.take k) = .err e) (he : e ≠ .eof) :
    (readRequest max s).1 = .error .invalid := by
  have := (gRequest_post max s).decided Request.prefixStable hk hk' (d := none)
    (by rw [hp]; cases e <;> first | rfl | exact absurd rfl he)
  simp only at this
  rw [readRequest_fst, this]; rfl

theorem readRequest_undecided {max : Nat} {s : Sock}
    (hu : ∀ k, k ≤ max → k ≤ s.pending.length → Request.parse (s.pending.take k) = .err .eof) :
    (readRequest max s).1 =
      .error (if max ≤ s.pending.length then .tooLarge else if s.eof then .readEof else .hang) := by
  have := (gRequest_post max s).undecided hu
  rw [readRequest_fst, this]
  by_cases hm : max ≤ s.pending.length
  · simp [hm, GOut.toServer]
  · cases s.eof <;> simp [hm, GOut.toServer]

def GOut.viewServer : GOut Request → Except ReadErr (Request × Bytes)
  | .ok rem r => .ok (r, rem)
  | .invalid => .error .invalid
  | .tooLarge => .error .tooLarge
  | .eof => .error .readEof
  | .hang => .error .hang

def GOut.viewClient : GOut Response → Except ClientReadErr (Response × Bytes)
  | .ok rem r => .ok (r, rem)
  | .invalid => .error .parsing
  | .tooLarge => .error .headTooLarge
  | .eof => .error .unexpectedEof
  | .hang => .error .hang

/-- the observable outcome of `read_request` depends only on the stream and the half-close flag -/
theorem gRequest_view_congr (max : Nat) {s₁ s₂ : Sock} (hp : s₁.pending = s₂.pending) (he : s₁.eof = s₂.eof) :
    GOut.view (gRequest max s₁) (·.off) = GOut.view (gRequest max s₂) (·.off) := by
  have h₁ := gRequest_post max s₁
  rw [hp, he] at h₁
  exact h₁.unique Request.prefixStable (gRequest_post max s₂) _

theorem gResponse_view_congr {s₁ s₂ : Sock} (hp : s₁.pending = s₂.pending) (he : s₁.eof = s₂.eof) :
    GOut.view (gResponse s₁) (·.off) = GOut.view (gResponse s₂) (·.off) := by
  have h₁ := gResponse_post s₁
  rw [hp, he] at h₁
  exact h₁.unique Response.prefixStable (gResponse_post s₂) _

end Khttp
