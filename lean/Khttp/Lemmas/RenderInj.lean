/-
  Unique decoding of the wire format: `Spec.render` is injective on strictly well-formed heads.
-/
import Khttp.Lemmas.ByteClass
namespace Khttp
open Spec

/-- splitting at the first occurrence of a separator is unique -/
theorem split_unique {α} {a : α} {l₁ l₂ r₁ r₂ : List α} (e : l₁ ++ a :: r₁ = l₂ ++ a :: r₂)
    (h₁ : a ∉ l₁) (h₂ : a ∉ l₂) : l₁ = l₂ ∧ r₁ = r₂ := by
  induction l₁ generalizing l₂ with
  | nil =>
    cases l₂ with
    | nil => simpa using e
    | cons y ys =>
      simp only [List.nil_append, List.cons_append, List.cons.injEq] at e
      exact absurd (e.1 ▸ List.mem_cons_self) h₂
  | cons x xs ih =>
    cases l₂ with
    | nil =>
      simp only [List.nil_append, List.cons_append, List.cons.injEq] at e
      exact absurd (e.1 ▸ List.mem_cons_self) h₁
    | cons y ys =>
      simp only [List.cons_append, List.cons.injEq] at e
      obtain ⟨rfl, e⟩ := e
      obtain ⟨rfl, rfl⟩ := ih e (fun h => h₁ (List.mem_cons_of_mem _ h)) (fun h => h₂ (List.mem_cons_of_mem _ h))
      exact ⟨rfl, rfl⟩

theorem renderLine_append (f : Bytes × Bytes) (R : Bytes) :
    renderLine f ++ R = f.1 ++ COLON :: ((f.2 ++ [CR]) ++ LF :: R) := by
  simp [renderLine, CRLF]

theorem WfLine.not_starts_CR {f : Bytes × Bytes} (w : WfLine f) {X Y : Bytes}
    (e : CR :: X = renderLine f ++ Y) : False := by
  obtain ⟨h1, h2, -⟩ := w
  rw [renderLine_append] at e
  cases hf : f.1 with
  | nil => exact h1 hf
  | cons b bs =>
    rw [hf] at e
    simp only [List.cons_append, List.cons.injEq] at e
    exact isTchar_ne_CR b (h2 b (hf ▸ List.mem_cons_self)) e.1.symm

theorem renderLines_inj (fs₁ fs₂ : List (Bytes × Bytes)) (t₁ t₂ : Bytes)
    (w₁ : ∀ f ∈ fs₁, WfLine f) (w₂ : ∀ f ∈ fs₂, WfLine f)
    (e : renderLines fs₁ ++ CR :: LF :: t₁ = renderLines fs₂ ++ CR :: LF :: t₂) :
    fs₁ = fs₂ ∧ t₁ = t₂ := by
  induction fs₁ generalizing fs₂ with
  | nil =>
    cases fs₂ with
    | nil => simpa [renderLines] using e
    | cons g gs =>
      simp only [renderLines, List.flatMap_nil, List.nil_append, List.flatMap_cons, List.append_assoc] at e
      exact (WfLine.not_starts_CR (w₂ g List.mem_cons_self) e).elim
  | cons f fs ih =>
    cases fs₂ with
    | nil =>
      simp only [renderLines, List.flatMap_nil, List.nil_append, List.flatMap_cons, List.append_assoc] at e
      exact (WfLine.not_starts_CR (w₁ f List.mem_cons_self) e.symm).elim
    | cons g gs =>
      have wf := w₁ f List.mem_cons_self
      have wg := w₂ g List.mem_cons_self
      simp only [renderLines, List.flatMap_cons, List.append_assoc] at e
      rw [renderLine_append, renderLine_append] at e
      obtain ⟨hn, e⟩ := split_unique e
        (fun h => isTchar_ne_COLON _ (wf.2.1 _ h) rfl) (fun h => isTchar_ne_COLON _ (wg.2.1 _ h) rfl)
      have nolf : ∀ v : Bytes, LF ∉ v → LF ∉ v ++ [CR] := by
        intro v hv h
        rcases List.mem_append.1 h with h | h
        · exact hv h
        · simp [LF, CR] at h
      obtain ⟨hv, e⟩ := split_unique e (nolf _ wf.2.2) (nolf _ wg.2.2)
      have hv := List.append_cancel_right hv
      obtain ⟨rfl, rfl⟩ := ih gs (fun x hx => w₁ x (List.mem_cons_of_mem _ hx))
        (fun x hx => w₂ x (List.mem_cons_of_mem _ hx)) e
      exact ⟨by rw [Prod.ext hn hv], rfl⟩

theorem render_append (h : Head) (t : Bytes) :
    render h ++ t = h.method ++ SP :: (h.target ++ SP :: (str "HTTP/1." ++
      (h.minor :: CR :: LF :: (renderLines h.fields ++ CR :: LF :: t)))) := by
  simp [render, requestLine, CRLF]

theorem render_injective (h₁ h₂ : Head) (t₁ t₂ : Bytes) (w₁ : WfStrict h₁) (w₂ : WfStrict h₂)
    (e : render h₁ ++ t₁ = render h₂ ++ t₂) : h₁ = h₂ ∧ t₁ = t₂ := by
  obtain ⟨-, a₁, -, v₁, -, l₁⟩ := w₁
  obtain ⟨-, a₂, -, v₂, -, l₂⟩ := w₂
  rw [render_append, render_append] at e
  obtain ⟨hm, e⟩ := split_unique e
    (fun h => isAlpha_ne_SP _ (a₁ _ h) rfl) (fun h => isAlpha_ne_SP _ (a₂ _ h) rfl)
  obtain ⟨ht, e⟩ := split_unique e
    (fun h => isVchar_ne_SP _ (v₁ _ h) rfl) (fun h => isVchar_ne_SP _ (v₂ _ h) rfl)
  have e := List.append_cancel_left e
  simp only [List.cons.injEq, true_and] at e
  obtain ⟨hmin, e⟩ := e
  obtain ⟨hf, ht'⟩ := renderLines_inj _ _ _ _ l₁ l₂ e
  cases h₁; cases h₂
  simp only at hm ht hmin hf
  subst hm ht hmin hf
  exact ⟨rfl, ht'⟩

end Khttp
