/- basic facts tying src/router.rs model parsing to the spec vocabulary -/
import Khttp.Model.Router
import Khttp.Spec.Route
namespace Khttp.Router
open Khttp Khttp.Spec.Route

def toSeg : RouteSegment → Seg
  | .literal s => .lit s | .param n => .param n | .wildcard => .star | .doubleWildcard => .dstar

theorem splitOn_ne_nil (c : UInt8) (a : Bytes) : splitOn c a ≠ [] := by
  induction a with
  | nil => simp [splitOn]
  | cons x xs ih =>
    unfold splitOn
    split
    · simp
    · split <;> simp

theorem splitOn_inj (c : UInt8) : ∀ (a b : Bytes), splitOn c a = splitOn c b → a = b := by
  intro a
  induction a with
  | nil =>
    intro b h
    cases b with
    | nil => rfl
    | cons y ys =>
      exfalso
      obtain ⟨h', t', e'⟩ := List.exists_cons_of_ne_nil (splitOn_ne_nil c ys)
      by_cases hy : (y == c) = true <;> simp [splitOn, hy, e'] at h
  | cons x xs ih =>
    intro b h
    cases b with
    | nil =>
      exfalso
      obtain ⟨h', t', e'⟩ := List.exists_cons_of_ne_nil (splitOn_ne_nil c xs)
      by_cases hx : (x == c) = true <;> simp [splitOn, hx, e'] at h
    | cons y ys =>
      obtain ⟨h1, t1, e1⟩ := List.exists_cons_of_ne_nil (splitOn_ne_nil c xs)
      obtain ⟨h2, t2, e2⟩ := List.exists_cons_of_ne_nil (splitOn_ne_nil c ys)
      by_cases hx : (x == c) = true <;> by_cases hy : (y == c) = true
      · simp [splitOn, hx, hy] at h
        simp at hx hy
        rw [ih ys h, hx, hy]
      · simp [splitOn, hx, hy, e2] at h
      · simp [splitOn, hx, hy, e1] at h
      · simp [splitOn, hx, hy, e1, e2] at h
        obtain ⟨⟨hxy, hh⟩, ht⟩ := h
        rw [hxy, ih ys (by rw [e1, e2, hh, ht])]

theorem splitOn_strip (p : Bytes) : splitOn SLASH (stripLeadingSlash p) = pathSegs p := by
  cases p with
  | nil => rfl
  | cons c rest =>
    by_cases hc : c = SLASH
    · subst hc; simp [stripLeadingSlash, pathSegs, SLASH]
    · simp [stripLeadingSlash, hc]
      unfold pathSegs
      split
      · rename_i h; simp at h; exact absurd h.1 hc
      · rfl

theorem toSeg_parse (s : Bytes) : toSeg (parseRouteSegment s) = parseSeg s := by
  by_cases h1 : s = [STAR]
  · subst h1; rfl
  by_cases h2 : s = [STAR, STAR]
  · subst h2; rfl
  cases s with
  | nil => rfl
  | cons c rest =>
    by_cases hc : c = COLON
    · subst hc
      simp [parseRouteSegment, h1, h2, toSeg]
      simp [parseSeg, COLON]
    · simp [parseRouteSegment, h1, h2, hc, toSeg]
      unfold parseSeg
      split
      · rename_i h; exact absurd h h1
      · rename_i h; exact absurd h h2
      · rename_i h; simp [COLON] at hc h; exact absurd h.1 hc
      · rfl
theorem parseRoute_pattern (r : Bytes) : (parseRoute r).2.pattern.map toSeg = parsePattern r := by
  simp only [parseRoute, parsePattern, splitOn_strip, List.map_map]
  apply List.map_congr_left
  intro s _
  exact toSeg_parse s

theorem parseRoute_norm (r : Bytes) : (parseRoute r).1 = stripLeadingSlash r := rfl

theorem parseRoute_lastPrec (r : Bytes) :
    (parseRoute r).2.lastPrec = precedenceOf (parseRoute r).2.pattern.getLast? := rfl

theorem parseRoute_ne_nil (r : Bytes) : (parseRoute r).2.pattern ≠ [] := by
  simp only [parseRoute]
  intro h
  exact splitOn_ne_nil _ _ (List.map_eq_nil_iff.mp h)
end Khttp.Router
