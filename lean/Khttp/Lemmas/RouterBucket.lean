/- MethodBucket.add_route simulates the raw effective table; finalize keeps find_literal -/
import Khttp.Lemmas.RouterRaw
namespace Khttp.Router
open Khttp Khttp.Spec.Route

theorem allLiteral_eq (path : Bytes) :
    (parseRoute path).2.pattern.all RouteSegment.isLiteral = (parsePattern path).all Seg.isLit := by
  rw [← parseRoute_pattern, List.all_map]
  congr 1
  funext s
  exact isLiteral_toSeg s

theorem addRoute_eq (b : MethodBucket) (path : Bytes) (route : Nat) :
    b.addRoute path route =
      if (parsePattern path).all Seg.isLit = true then
        { b with literals := b.literals.filter (fun kv => kv.1 != stripLeadingSlash path) ++
                  [(stripLeadingSlash path, route)] }
      else
        { b with patterns := b.patterns.filter (fun kv => !patEq kv.1 (parseRoute path).2) ++
                  [((parseRoute path).2, route)] } := by
  rw [← allLiteral_eq]
  rfl

def kf (r : Reg) : Bytes × Nat := (stripLeadingSlash r.1.2, r.2)
def pf (r : Reg) : RoutePattern × Nat := ((parseRoute r.1.2).2, r.2)

def Rel (b : MethodBucket) (T : List Reg) : Prop :=
  b.literals = (T.filter litR).map kf ∧ b.patterns = (T.filter (fun r => !litR r)).map pf

theorem sameReg_of_method {r x : Reg} (h : x.1.1 = r.1.1) :
    sameReg r x = patEquiv (parsePattern x.1.2) (parsePattern r.1.2) := by
  simp [sameReg, h]

theorem rel_step (m : Method) (b : MethodBucket) (T : List Reg) (r : Reg)
    (hT : ∀ x ∈ T, x.1.1 = m) (hr : r.1.1 = m) (h : Rel b T) : Rel (bAdd b r) (regRaw T r) := by
  obtain ⟨hl, hp⟩ := h
  unfold bAdd
  rw [addRoute_eq]
  unfold Rel regRaw
  by_cases hlit : litR r = true
  · have hlit' : (parsePattern r.1.2).all Seg.isLit = true := hlit
    have e1 : [r].filter (fun r => !litR r) = [] := by simp [hlit]
    have e2 : [r].filter litR = [r] := by simp [hlit]
    rw [if_pos hlit']
    simp only [List.filter_append, List.map_append, e1, e2, List.map_nil, List.map_cons]
    constructor
    · rw [hl, List.filter_map, List.filter_filter, List.filter_filter]
      congr 2
      apply List.filter_congr
      intro x hx
      have hm : x.1.1 = r.1.1 := by rw [hT x hx, hr]
      rw [sameReg_of_method hm]
      by_cases hxl : litR x = true
      · have := key_ne_iff x.1.2 r.1.2 hxl hlit'
        simp only [Function.comp, kf, hxl, Bool.and_true, Bool.true_and]
        exact this
      · simp at hxl; simp [hxl]
    · rw [hp, List.filter_filter]
      simp only [List.append_nil]
      congr 1
      apply List.filter_congr
      intro x hx
      have hm : x.1.1 = r.1.1 := by rw [hT x hx, hr]
      rw [sameReg_of_method hm]
      by_cases hxl : litR x = true
      · simp [hxl]
      · simp at hxl
        have : patEquiv (parsePattern x.1.2) (parsePattern r.1.2) = false := by
          apply Bool.eq_false_iff.mpr
          intro hc
          have := patEquiv_allLit _ _ hc
          unfold litR at hxl hlit
          rw [hxl, hlit] at this
          exact Bool.noConfusion this
        simp [hxl, this]
  · have hlit' : ¬ ((parsePattern r.1.2).all Seg.isLit = true) := hlit
    have hlitf : litR r = false := by simpa using hlit
    have e1 : [r].filter (fun r => !litR r) = [r] := by simp [hlitf]
    have e2 : [r].filter litR = [] := by simp [hlitf]
    rw [if_neg hlit']
    simp only [List.filter_append, List.map_append, e1, e2, List.map_nil, List.map_cons]
    constructor
    · rw [hl, List.filter_filter]
      simp only [List.append_nil]
      congr 1
      apply List.filter_congr
      intro x hx
      have hm : x.1.1 = r.1.1 := by rw [hT x hx, hr]
      rw [sameReg_of_method hm]
      by_cases hxl : litR x = true
      · have : patEquiv (parsePattern x.1.2) (parsePattern r.1.2) = false := by
          apply Bool.eq_false_iff.mpr
          intro hc
          have := patEquiv_allLit _ _ hc
          unfold litR at hxl hlitf
          rw [hxl, hlitf] at this
          exact Bool.noConfusion this
        simp [hxl, this]
      · simp at hxl; simp [hxl]
    · rw [hp, List.filter_map, List.filter_filter, List.filter_filter]
      congr 2
      apply List.filter_congr
      intro x hx
      have hm : x.1.1 = r.1.1 := by rw [hT x hx, hr]
      rw [sameReg_of_method hm]
      simp only [Function.comp, pf, patEq_parse]
      exact Bool.and_comm _ _

theorem regRaw_method (m : Method) (T : List Reg) (r : Reg) (hT : ∀ x ∈ T, x.1.1 = m) (hr : r.1.1 = m) :
    ∀ x ∈ regRaw T r, x.1.1 = m := by
  intro x hx
  simp only [regRaw, List.mem_append, List.mem_filter, List.mem_singleton] at hx
  rcases hx with hx | hx
  · exact hT x hx.1
  · rw [hx]; exact hr

theorem rel_foldl (m : Method) : ∀ (rs T : List Reg) (b : MethodBucket),
    (∀ x ∈ T, x.1.1 = m) → (∀ x ∈ rs, x.1.1 = m) → Rel b T → Rel (rs.foldl bAdd b) (rs.foldl regRaw T) := by
  intro rs
  induction rs with
  | nil => intro T b _ _ h; exact h
  | cons r rs ih =>
    intro T b hT hrs h
    have hr := hrs r (by simp)
    rw [List.foldl_cons, List.foldl_cons]
    exact ih _ _ (regRaw_method m T r hT hr) (fun x hx => hrs x (by simp [hx])) (rel_step m b T r hT hr h)

/-! ### `finalize` does not change what `find_literal` returns -/

def UniqueKeys (l : List (Bytes × Nat)) : Prop := l.Pairwise (fun a b => a.1 ≠ b.1)

theorem addRoute_unique (b : MethodBucket) (path : Bytes) (route : Nat) (h : UniqueKeys b.literals) :
    UniqueKeys (b.addRoute path route).literals := by
  rw [addRoute_eq]
  split
  · simp only [UniqueKeys]
    rw [List.pairwise_append]
    refine ⟨List.Pairwise.filter _ h, by simp, ?_⟩
    intro a ha c hc
    simp only [List.mem_filter, bne_iff_ne] at ha
    simp only [List.mem_singleton] at hc
    rw [hc]; exact ha.2
  · exact h

theorem foldl_bAdd_unique : ∀ (rs : List Reg) (b : MethodBucket), UniqueKeys b.literals →
    UniqueKeys (rs.foldl bAdd b).literals := by
  intro rs
  induction rs with
  | nil => intro b h; exact h
  | cons r rs ih => intro b h; exact ih _ (addRoute_unique b _ _ h)

theorem insertSorted_perm (x : Bytes × Nat) : ∀ (l : List (Bytes × Nat)), (insertSorted x l).Perm (x :: l) := by
  intro l
  induction l with
  | nil => exact List.Perm.refl _
  | cons y ys ih =>
    unfold insertSorted
    split
    · exact List.Perm.refl _
    · exact (List.Perm.cons y ih).trans (List.Perm.swap x y ys)

theorem sortLiterals_perm : ∀ (l : List (Bytes × Nat)), (sortLiterals l).Perm l := by
  intro l
  induction l with
  | nil => exact List.Perm.refl _
  | cons x xs ih => exact (insertSorted_perm x _).trans (List.Perm.cons x ih)

theorem find_key_of_mem {l : List (Bytes × Nat)} (hu : UniqueKeys l) {x : Bytes × Nat} (hx : x ∈ l) :
    l.find? (fun kv => kv.1 == x.1) = some x := by
  induction l with
  | nil => cases hx
  | cons y ys ih =>
    simp only [UniqueKeys, List.pairwise_cons] at hu
    rcases List.mem_cons.mp hx with rfl | hx'
    · simp
    · have : y.1 ≠ x.1 := hu.1 x hx'
      rw [List.find?_cons_of_neg (by simpa using this)]
      exact ih hu.2 hx'

theorem find_key_perm {l l' : List (Bytes × Nat)} (hp : l'.Perm l) (hu : UniqueKeys l) (k : Bytes) :
    l'.find? (fun kv => kv.1 == k) = l.find? (fun kv => kv.1 == k) := by
  have hu' : UniqueKeys l' := (hp.pairwise_iff (fun h => Ne.symm h)).mpr hu
  cases h : l.find? (fun kv => kv.1 == k) with
  | none =>
    rw [List.find?_eq_none] at h ⊢
    intro x hx
    exact h x (hp.mem_iff.mp hx)
  | some x =>
    have hx := List.mem_of_find?_eq_some h
    have hk : x.1 = k := by simpa using List.find?_some h
    rw [← hk]
    exact find_key_of_mem hu' (hp.mem_iff.mpr hx)

theorem findLiteral_finalize (b : MethodBucket) (hu : UniqueKeys b.literals) (k : Bytes) :
    b.finalize.findLiteral k = b.findLiteral k := by
  unfold MethodBucket.findLiteral MethodBucket.finalize
  simp only
  rw [find_key_perm (sortLiterals_perm b.literals) hu k]
end Khttp.Router
