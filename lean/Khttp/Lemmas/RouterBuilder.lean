/- RouterBuilder / bucket selection: which bucket `match_route` sees for a method after `build` -/
import Khttp.Lemmas.RouterScan
namespace Khttp.Router
open Khttp Khttp.Spec.Route

/-- bucket used by `match_route` for method `m` (a missing extension bucket behaves like an empty one) -/
def bucketOf (rb : RouterBuilder) (m : Method) : MethodBucket :=
  match m with
  | .custom x => (extGet x rb.extensions).getD default
  | m => rb.methods.getD m.index default

def IsStd (m : Method) : Prop := ∀ x, m ≠ .custom x

theorem index_lt_of_std {m : Method} (h : IsStd m) : m.index < 8 := by
  cases m <;> simp [Method.index]
  exact h _ rfl

theorem index_inj {m m' : Method} (h : IsStd m) (h' : IsStd m') (e : m.index = m'.index) : m = m' := by
  cases m <;> cases m' <;> simp [Method.index] at e <;> first | rfl | exact absurd rfl (h _) | exact absurd rfl (h' _)

theorem addRoute_std {m : Method} (h : IsStd m) (rb : RouterBuilder) (p : Bytes) (i : Nat) :
    rb.addRoute m p i = { rb with methods := rb.methods.modify m.index (fun b => b.addRoute p i) } := by
  cases m <;> first | rfl | exact absurd rfl (h _)

theorem bucketOf_std {m : Method} (h : IsStd m) (rb : RouterBuilder) :
    bucketOf rb m = rb.methods.getD m.index default := by
  cases m <;> first | rfl | exact absurd rfl (h _)

theorem std_or_custom (m : Method) : IsStd m ∨ ∃ x, m = .custom x := by
  cases m <;> first | (right; exact ⟨_, rfl⟩) | (left; intro x hx; cases hx)

theorem extGet_extAdd (x y p : Bytes) (i : Nat) : ∀ (ext : List (Bytes × MethodBucket)),
    extGet y (extAdd x p i ext) =
      if x = y then some (((extGet x ext).getD default).addRoute p i) else extGet y ext := by
  intro ext
  induction ext with
  | nil =>
    by_cases h : x = y
    · subst h; simp [extAdd, extGet]
    · simp [extAdd, extGet, h]
  | cons kb rest ih =>
    obtain ⟨k, b⟩ := kb
    by_cases hk : k = x
    · subst hk
      by_cases h : k = y
      · subst h; simp [extAdd, extGet]
      · simp [extAdd, extGet, h]
    · by_cases h : x = y
      · subst h; simp [extAdd, extGet, hk, ih]
      · by_cases hky : k = y
        · subst hky; simp [extAdd, extGet, hk, h]
        · simp [extAdd, extGet, hk, h, hky, ih]

theorem addRoute_methods_length (rb : RouterBuilder) (m : Method) (p : Bytes) (i : Nat) :
    (rb.addRoute m p i).methods.length = rb.methods.length := by
  rcases std_or_custom m with h | ⟨x, rfl⟩
  · rw [addRoute_std h]; simp
  · rfl

theorem bucketOf_addRoute (rb : RouterBuilder) (hl : rb.methods.length = 8) (m' m : Method) (p : Bytes) (i : Nat) :
    bucketOf (rb.addRoute m' p i) m = if m' = m then (bucketOf rb m).addRoute p i else bucketOf rb m := by
  rcases std_or_custom m' with h' | ⟨x, rfl⟩ <;> rcases std_or_custom m with h | ⟨y, rfl⟩
  · rw [addRoute_std h', bucketOf_std h, bucketOf_std h]
    have hi := index_lt_of_std h
    by_cases e : m' = m
    · subst e
      simp [List.getD_eq_getElem?_getD, hl, hi]
    · have : m'.index ≠ m.index := fun c => e (index_inj h' h c)
      simp [List.getD_eq_getElem?_getD, this, e]
  · rw [addRoute_std h']
    have : m' ≠ Method.custom y := h' y
    simp [bucketOf, this]
  · have : Method.custom x ≠ m := fun c => h x c.symm
    simp only [this, if_false]
    rw [bucketOf_std h, bucketOf_std h]
    rfl
  · simp only [RouterBuilder.addRoute, bucketOf, extGet_extAdd]
    by_cases e : x = y
    · subst e; simp
    · have : Method.custom x ≠ Method.custom y := fun c => e (by cases c; rfl)
      simp [e, this]

def bAdd (b : MethodBucket) (r : (Method × Bytes) × Nat) : MethodBucket := b.addRoute r.1.2 r.2
def isM (m : Method) (r : (Method × Bytes) × Nat) : Bool := decide (r.1.1 = m)

theorem addAll_length : ∀ (rs : List ((Method × Bytes) × Nat)) (rb : RouterBuilder),
    (addAll rb rs).methods.length = rb.methods.length := by
  intro rs
  induction rs with
  | nil => intro rb; rfl
  | cons r rs ih => intro rb; simp only [addAll, List.foldl_cons] at ih ⊢; rw [ih, addRoute_methods_length]

theorem bucketOf_addAll (m : Method) : ∀ (rs : List ((Method × Bytes) × Nat)) (rb : RouterBuilder),
    rb.methods.length = 8 →
    bucketOf (addAll rb rs) m = (rs.filter (isM m)).foldl bAdd (bucketOf rb m) := by
  intro rs
  induction rs with
  | nil => intro rb _; rfl
  | cons r rs ih =>
    intro rb hl
    have hl' : (rb.addRoute r.1.1 r.1.2 r.2).methods.length = 8 := by rw [addRoute_methods_length, hl]
    have := ih (rb.addRoute r.1.1 r.1.2 r.2) hl'
    simp only [addAll, List.foldl_cons] at this ⊢
    rw [this, bucketOf_addRoute rb hl]
    by_cases e : r.1.1 = m
    · simp [isM, e, bAdd]
    · simp [isM, e]

theorem default_finalize : (default : MethodBucket).finalize = default := rfl

theorem extGet_map_finalize (x : Bytes) : ∀ (ext : List (Bytes × MethodBucket)),
    extGet x (ext.map (fun kb => (kb.1, kb.2.finalize))) = (extGet x ext).map MethodBucket.finalize := by
  intro ext
  induction ext with
  | nil => rfl
  | cons kb rest ih =>
    obtain ⟨k, b⟩ := kb
    by_cases h : k = x <;> simp [extGet, h, ih]

theorem bucketOf_build (rb : RouterBuilder) (m : Method) : bucketOf rb.build m = (bucketOf rb m).finalize := by
  rcases std_or_custom m with h | ⟨x, rfl⟩
  · rw [bucketOf_std h, bucketOf_std h]
    simp only [RouterBuilder.build, List.getD_eq_getElem?_getD, List.getElem?_map]
    cases rb.methods[m.index]? <;> simp [default_finalize]
  · simp only [bucketOf, RouterBuilder.build, extGet_map_finalize]
    cases extGet x rb.extensions <;> simp [default_finalize]

/-- `match_route` after bucket selection -/
def matchBucket (b : MethodBucket) (uri : Bytes) : Option Nat × Params :=
  match b.findLiteral uri with
  | some route => (some route, [])
  | none =>
    let st := (b.patterns).foldl (scanStep (splitOn SLASH uri)) scanInit
    match st.bestRoute with
    | some route => (some route, st.bestParams)
    | none => (none, [])

theorem matchRoute_eq (r : Router) (m : Method) (path : Bytes) :
    r.matchRoute m path = matchBucket (bucketOf r m) (stripLeadingSlash path) := by
  rcases std_or_custom m with h | ⟨x, rfl⟩
  · rw [bucketOf_std h]
    cases m <;> first | rfl | exact absurd rfl (h _)
  · simp only [Router.matchRoute, bucketOf]
    cases extGet x r.extensions with
    | none => simp [matchBucket, MethodBucket.findLiteral, default, scanInit]
    | some b => rfl
end Khttp.Router
