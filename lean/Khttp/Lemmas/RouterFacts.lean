/- consequences of the `winner` characterisation used by the C11 / C12 property theorems -/
import Khttp.Lemmas.RouterMain
namespace Khttp.Router
open Khttp Khttp.Spec.Route

theorem bindParams_allLit : ∀ (pat : List Seg) (segs : List Bytes), pat.all Seg.isLit = true → bindParams pat segs = [] := by
  intro pat
  induction pat with
  | nil => intro segs _; cases segs <;> rfl
  | cons s ps ih =>
    intro segs h
    simp only [List.all_cons, Bool.and_eq_true] at h
    cases s with
    | lit l => cases segs with
      | nil => rfl
      | cons x xs => simp [bindParams, ih xs h.2]
    | param _ => simp [Seg.isLit] at h
    | star => simp [Seg.isLit] at h
    | dstar => simp [Seg.isLit] at h

theorem firstMaxBy_mem {α} (key : α → Nat) (l : List α) (x : α) (h : firstMaxBy key l = some x) : x ∈ l :=
  List.mem_of_find?_eq_some h

theorem firstMaxBy_max {α} (key : α → Nat) (l : List α) (x : α) (h : firstMaxBy key l = some x) :
    ∀ o ∈ l, key o ≤ key x := by
  have := List.find?_some h
  exact (isMaxIn_iff key l x).mp this

/-- whatever wins is an effective registration of the method that matches, and the parameters are its bindings -/
theorem winner_some {regs : List (Method × Bytes)} {m : Method} {path : Bytes} {id : Nat}
    (h : (winner regs m path).1 = some id) :
    ∃ r ∈ Tm regs m, r.2 = id ∧ matchR (pathSegs path) r = true ∧
      (winner regs m path).2 = bindParams (parsePattern r.1.2) (pathSegs path) := by
  unfold winner at h ⊢
  cases hfl : (Tm regs m).find? (fun r => litR r && matchR (pathSegs path) r) with
  | some r =>
    rw [hfl] at h
    simp only [Option.some.injEq] at h
    have hP := List.find?_some hfl
    simp only [Bool.and_eq_true] at hP
    refine ⟨r, List.mem_of_find?_eq_some hfl, h, hP.2, ?_⟩
    simp only []
    rw [bindParams_allLit _ _ hP.1]
  | none =>
    rw [hfl] at h
    simp only [] at h ⊢
    cases hw : firstMaxBy keyR ((Tm regs m).filter (matchR (pathSegs path))) with
    | none => rw [hw] at h; cases h
    | some r =>
      rw [hw] at h
      simp only [Option.some.injEq] at h
      have hm := firstMaxBy_mem _ _ _ hw
      rw [List.mem_filter] at hm
      exact ⟨r, hm.1, h, hm.2, rfl⟩

theorem winner_none_iff (regs : List (Method × Bytes)) (m : Method) (path : Bytes) :
    (winner regs m path).1 = none ↔ ∀ r ∈ Tm regs m, matchR (pathSegs path) r = false := by
  unfold winner
  cases hfl : (Tm regs m).find? (fun r => litR r && matchR (pathSegs path) r) with
  | some r =>
    have hP := List.find?_some hfl
    simp only [Bool.and_eq_true] at hP
    simp only [reduceCtorEq, false_iff]
    intro hc
    have := hc r (List.mem_of_find?_eq_some hfl)
    rw [hP.2] at this; cases this
  | none =>
    simp only []
    cases hw : firstMaxBy keyR ((Tm regs m).filter (matchR (pathSegs path))) with
    | none =>
      simp only [true_iff]
      have := (firstMaxBy_eq_none _ _).mp hw
      intro r hr
      have := List.filter_eq_nil_iff.mp this r hr
      simpa using this
    | some r =>
      simp only [reduceCtorEq, false_iff]
      intro hc
      have hm := firstMaxBy_mem _ _ _ hw
      rw [List.mem_filter] at hm
      have := hc r hm.1
      rw [hm.2] at this; cases this

theorem mem_Tm_iff {regs : List (Method × Bytes)} {m : Method} {r : Reg} :
    r ∈ Tm regs m ↔ r ∈ effRaw regs.zipIdx ∧ r.1.1 = m := by
  simp [Tm, List.mem_filter, isM]

theorem mem_effectiveTable {regs : List (Method × Bytes)} {e : Entry} :
    e ∈ effectiveTable regs ↔ ∃ r ∈ effRaw regs.zipIdx, toEntry r = e := by
  rw [effectiveTable_eq, List.mem_map]

/-! ### no two effective entries are equivalent -/

theorem foldl_regRaw_pairwise : ∀ (rs T : List Reg), T.Pairwise (fun a b => sameReg b a = false) →
    (rs.foldl regRaw T).Pairwise (fun a b => sameReg b a = false) := by
  intro rs
  induction rs with
  | nil => intro T h; exact h
  | cons r rs ih =>
    intro T h
    rw [List.foldl_cons]
    apply ih
    unfold regRaw
    rw [List.pairwise_append]
    refine ⟨List.Pairwise.filter _ h, by simp, ?_⟩
    intro a ha b hb
    simp only [List.mem_singleton] at hb
    subst hb
    simpa using (List.mem_filter.mp ha).2

theorem pairwise_trichotomy {α} {R : α → α → Prop} : ∀ {l : List α}, l.Pairwise R → ∀ {a b : α}, a ∈ l → b ∈ l →
    a = b ∨ R a b ∨ R b a := by
  intro l
  induction l with
  | nil => intro _ a b ha; cases ha
  | cons x xs ih =>
    intro h a b ha hb
    rw [List.pairwise_cons] at h
    rcases List.mem_cons.mp ha with rfl | ha' <;> rcases List.mem_cons.mp hb with rfl | hb'
    · exact Or.inl rfl
    · exact Or.inr (Or.inl (h.1 b hb'))
    · exact Or.inr (Or.inr (h.1 a ha'))
    · exact ih h.2 ha' hb'

theorem effRaw_unique {rs : List Reg} {a b : Reg} (ha : a ∈ effRaw rs) (hb : b ∈ effRaw rs)
    (hm : a.1.1 = b.1.1) (hp : parsePattern a.1.2 = parsePattern b.1.2) : a = b := by
  have hpw := foldl_regRaw_pairwise rs [] List.Pairwise.nil
  rcases pairwise_trichotomy hpw ha hb with h | h | h
  · exact h
  · simp [sameReg, hm, hp, patEquiv_refl] at h
  · simp [sameReg, hm, hp, patEquiv_refl] at h

/-- an exact literal entry wins, with no parameters -/
theorem winner_exact_literal {regs : List (Method × Bytes)} {m : Method} {path : Bytes} {r : Reg}
    (hr : r ∈ Tm regs m) (hp : parsePattern r.1.2 = (pathSegs path).map Seg.lit) :
    winner regs m path = (some r.2, []) := by
  have hlit : litR r = true := by unfold litR; rw [hp]; simp [Seg.isLit]
  have hmat : matchR (pathSegs path) r = true := by unfold matchR; rw [hp, segMatches_lits_iff]
  unfold winner
  cases hfl : (Tm regs m).find? (fun r => litR r && matchR (pathSegs path) r) with
  | none =>
    have := List.find?_eq_none.mp hfl r hr
    simp [hlit, hmat] at this
  | some r' =>
    have hP := List.find?_some hfl
    simp only [Bool.and_eq_true] at hP
    have hr' := List.mem_of_find?_eq_some hfl
    have hp' : parsePattern r'.1.2 = (pathSegs path).map Seg.lit := by
      have h1 : parsePattern r'.1.2 = (pathSegs r'.1.2).map Seg.lit := allLit_map_parseSeg _ hP.1
      have h2 := hP.2
      unfold matchR at h2
      rw [h1, segMatches_lits_iff] at h2
      rw [h1, h2]
    have : r' = r := by
      apply effRaw_unique (mem_Tm_iff.mp hr').1 (mem_Tm_iff.mp hr).1
      · rw [(mem_Tm_iff.mp hr').2, (mem_Tm_iff.mp hr).2]
      · rw [hp', hp]
    rw [this]

/-! ### a later equivalent registration removes the earlier one -/

theorem not_mem_foldl_regRaw_of_later (A B T : List Reg) (e x : Reg) (hs : sameReg e x = true) (hne : x ≠ e)
    (hB : x ∉ B) : x ∉ (A ++ e :: B).foldl regRaw T := by
  rw [List.foldl_append, List.foldl_cons]
  intro hc
  rcases mem_foldl_regRaw _ _ _ hc with h | h
  · simp only [regRaw, List.mem_append, List.mem_filter, List.mem_singleton] at h
    rcases h with h | h
    · simp [hs] at h
    · exact hne h
  · exact hB h

theorem zipIdx_split {α} (l : List α) (j : Nat) (h : j < l.length) :
    l.zipIdx = (l.take j).zipIdx ++ (l[j], j) :: (l.drop (j + 1)).zipIdx (j + 1) := by
  have : l = l.take j ++ l[j] :: l.drop (j + 1) := by
    rw [List.getElem_cons_drop, List.take_append_drop]
  conv => lhs; rw [this]
  rw [List.zipIdx_append, List.zipIdx_cons]
  simp [List.length_take, Nat.min_eq_left (Nat.le_of_lt h)]

theorem not_mem_effRaw_of_rereg {regs : List (Method × Bytes)} {i j : Nat} {m : Method} {r1 r2 : Bytes}
    (hij : i < j) (_hi : regs[i]? = some (m, r1)) (hj : regs[j]? = some (m, r2))
    (heq : patEquiv (parsePattern r1) (parsePattern r2) = true) :
    ((m, r1), i) ∉ effRaw regs.zipIdx := by
  have hjl : j < regs.length := by
    rcases Nat.lt_or_ge j regs.length with h | h
    · exact h
    · rw [List.getElem?_eq_none h] at hj; cases hj
  have hje : regs[j] = (m, r2) := by
    rw [List.getElem?_eq_getElem hjl] at hj; exact Option.some.inj hj
  unfold effRaw
  rw [zipIdx_split regs j hjl, hje]
  apply not_mem_foldl_regRaw_of_later
  · simp [sameReg, heq]
  · intro hc; injection hc with _ h2; omega
  · intro hc
    have := List.mem_zipIdx hc
    omega

/-! ### the winner has maximal rank among the matching entries -/

theorem leadingLits_le_of_match : ∀ (pat : List Seg) (segs : List Bytes), segMatches pat segs = true →
    leadingLits pat ≤ segs.length := by
  intro pat
  induction pat with
  | nil => intro segs _; simp
  | cons s ps ih =>
    intro segs h
    cases s with
    | lit l =>
      cases segs with
      | nil => simp [segMatches] at h
      | cons x xs =>
        simp [segMatches] at h
        have := ih xs h.2
        simp; omega
    | param _ => simp
    | star => simp
    | dstar => simp

theorem leadingLits_lits (l : List Bytes) : leadingLits (l.map Seg.lit) = l.length := by
  induction l with
  | nil => rfl
  | cons x xs ih => simp [ih]

theorem lastPrec_lits (l : List Bytes) (h : l ≠ []) : lastPrec (l.map Seg.lit) = 3 := by
  unfold lastPrec
  rw [List.getLast?_map]
  cases hq : l.getLast? with
  | none => simp at hq; exact absurd hq h
  | some s => rfl

theorem winner_max {regs : List (Method × Bytes)} {m : Method} {path : Bytes} {id : Nat}
    (h : (winner regs m path).1 = some id) :
    ∃ r ∈ Tm regs m, r.2 = id ∧ ∀ o ∈ Tm regs m, matchR (pathSegs path) o = true → keyR o ≤ keyR r := by
  unfold winner at h
  cases hfl : (Tm regs m).find? (fun r => litR r && matchR (pathSegs path) r) with
  | some r =>
    rw [hfl] at h
    simp only [Option.some.injEq] at h
    have hP := List.find?_some hfl
    simp only [Bool.and_eq_true] at hP
    refine ⟨r, List.mem_of_find?_eq_some hfl, h, ?_⟩
    intro o _ hmo
    have h1 : parsePattern r.1.2 = (pathSegs r.1.2).map Seg.lit := allLit_map_parseSeg _ hP.1
    have h2 := hP.2
    unfold matchR at h2 hmo
    rw [h1, segMatches_lits_iff] at h2
    have hne : pathSegs path ≠ [] := by rw [← splitOn_strip]; exact splitOn_ne_nil _ _
    have hb := leadingLits_le_of_match _ _ hmo
    have hl := lastPrec_le (parsePattern o.1.2)
    unfold keyR keyS
    rw [h1, h2, leadingLits_lits, lastPrec_lits _ hne]
    omega
  | none =>
    rw [hfl] at h
    simp only [] at h
    cases hw : firstMaxBy keyR ((Tm regs m).filter (matchR (pathSegs path))) with
    | none => rw [hw] at h; cases h
    | some r =>
      rw [hw] at h
      simp only [Option.some.injEq] at h
      have hm := firstMaxBy_mem _ _ _ hw
      rw [List.mem_filter] at hm
      refine ⟨r, hm.1, h, ?_⟩
      intro o ho hmo
      exact firstMaxBy_max _ _ _ hw o (List.mem_filter.mpr ⟨ho, hmo⟩)

theorem bindParams_noParams : ∀ (pat : List Seg) (segs : List Bytes), paramNames pat = [] → bindParams pat segs = [] := by
  intro pat
  induction pat with
  | nil => intro segs _; cases segs <;> rfl
  | cons s ps ih =>
    intro segs h
    cases s with
    | param n => simp [paramNames] at h
    | lit l =>
      cases segs with
      | nil => rfl
      | cons x xs => exact ih xs (by simpa [paramNames] using h)
    | star =>
      cases segs with
      | nil => rfl
      | cons x xs => exact ih xs (by simpa [paramNames] using h)
    | dstar => cases segs <;> rfl
end Khttp.Router
