/- model and spec both compute the raw-level `winner` -/
import Khttp.Lemmas.RouterBucket
namespace Khttp.Router
open Khttp Khttp.Spec.Route

def matchR (segs : List Bytes) (r : Reg) : Bool := segMatches (parsePattern r.1.2) segs
def keyR (r : Reg) : Nat := keyS (parsePattern r.1.2)
/-- effective registrations of method `m`, in effective order -/
def Tm (regs : List (Method × Bytes)) (m : Method) : List Reg := (effRaw regs.zipIdx).filter (isM m)

/-- raw-level description of what both the model and the spec compute -/
def winner (regs : List (Method × Bytes)) (m : Method) (path : Bytes) : Option Nat × Params :=
  match (Tm regs m).find? (fun r => litR r && matchR (pathSegs path) r) with
  | some r => (some r.2, [])
  | none =>
    match firstMaxBy keyR ((Tm regs m).filter (matchR (pathSegs path))) with
    | some r => (some r.2, bindParams (parsePattern r.1.2) (pathSegs path))
    | none => (none, [])

theorem segMatches_lits_iff : ∀ (l segs : List Bytes), segMatches (l.map Seg.lit) segs = true ↔ l = segs := by
  intro l
  induction l with
  | nil => intro segs; cases segs <;> simp [segMatches]
  | cons x xs ih =>
    intro segs
    cases segs with
    | nil => simp [segMatches]
    | cons y ys => simp [segMatches, ih ys]

theorem lit_key_match (r : Reg) (path : Bytes) (hl : litR r = true) :
    (stripLeadingSlash r.1.2 == stripLeadingSlash path) = matchR (pathSegs path) r := by
  have hpp : parsePattern r.1.2 = (pathSegs r.1.2).map Seg.lit := allLit_map_parseSeg _ hl
  apply bool_eq_of_iff
  unfold matchR
  rw [hpp, segMatches_lits_iff]
  constructor
  · intro h
    rw [← splitOn_strip, ← splitOn_strip, eq_of_beq h]
  · intro h
    simp [pathSegs_inj h]

theorem firstMaxBy_map {α β} (key : β → Nat) (f : α → β) (l : List α) :
    firstMaxBy key (l.map f) = (firstMaxBy (key ∘ f) l).map f := by
  unfold firstMaxBy
  rw [List.find?_map]
  congr 2
  funext e
  show isMaxIn key (l.map f) (f e) = _
  unfold isMaxIn
  rw [List.all_map]
  rfl

theorem rankLe_pair (l1 p1 l2 p2 : Nat) (h1 : p1 ≤ 3) (h2 : p2 ≤ 3) :
    rankLe (l1, p1) (l2, p2) = decide (4 * l1 + p1 ≤ 4 * l2 + p2) := by
  apply bool_eq_of_iff
  simp [rankLe]
  omega

theorem rankLe_key (a b : List Seg) : rankLe (rank a) (rank b) = decide (keyS a ≤ keyS b) :=
  rankLe_pair _ _ _ _ (lastPrec_le a) (lastPrec_le b)

theorem bucketOf_new (m : Method) : bucketOf RouterBuilder.new m = default := by
  rcases std_or_custom m with h | ⟨x, rfl⟩
  · rw [bucketOf_std h]
    cases m <;> first | rfl | exact absurd rfl (h _)
  · rfl

theorem mem_Tm {regs : List (Method × Bytes)} {m : Method} {r : Reg} (h : r ∈ Tm regs m) :
    r ∈ regs.zipIdx ∧ r.1.1 = m := by
  simp only [Tm, List.mem_filter, isM, decide_eq_true_eq] at h
  refine ⟨?_, h.2⟩
  rcases mem_foldl_regRaw _ _ _ h.1 with h' | h'
  · cases h'
  · exact h'

theorem mem_zipIdx_get {regs : List (Method × Bytes)} {r : Reg} (h : r ∈ regs.zipIdx) :
    regs[r.2]? = some r.1 := by
  obtain ⟨a, i⟩ := r
  have := List.mem_zipIdx h
  simp only [Nat.zero_le, Nat.zero_add, Nat.sub_zero, true_and] at this
  obtain ⟨hi, ha⟩ := this
  simp [ha, hi]

theorem Tm_eq (regs : List (Method × Bytes)) (m : Method) :
    Tm regs m = (regs.zipIdx.filter (isM m)).foldl regRaw [] := by
  unfold Tm effRaw
  rw [foldl_regRaw_filter]; rfl

/-- the model computes `winner` -/
theorem matchRoute_winner (regs : List (Method × Bytes)) (wf : WfTable regs) (m : Method) (path : Bytes) :
    (build regs).matchRoute m path = winner regs m path := by
  rw [matchRoute_eq, build, bucketOf_build, bucketOf_addAll m _ _ (by simp [RouterBuilder.new]), bucketOf_new]
  generalize hb : (regs.zipIdx.filter (isM m)).foldl bAdd default = b
  have hmeth : ∀ x ∈ regs.zipIdx.filter (isM m), x.1.1 = m := by
    intro x hx; simpa [isM] using (List.mem_filter.mp hx).2
  have hrel : Rel b (Tm regs m) := by
    rw [Tm_eq, ← hb]
    exact rel_foldl m _ [] default (by simp) hmeth ⟨rfl, rfl⟩
  have huniq : UniqueKeys b.literals := by
    rw [← hb]; exact foldl_bAdd_unique _ _ List.Pairwise.nil
  obtain ⟨hl, hp⟩ := hrel
  have hfind : b.finalize.findLiteral (stripLeadingSlash path) =
      ((Tm regs m).find? (fun r => litR r && matchR (pathSegs path) r)).map (·.2) := by
    rw [findLiteral_finalize b huniq]
    unfold MethodBucket.findLiteral
    rw [hl, List.find?_map, List.find?_filter, Option.map_map]
    have : (Tm regs m).find? (fun a => decide (litR a = true ∧ ((fun kv => kv.1 == stripLeadingSlash path) ∘ kf) a = true))
         = (Tm regs m).find? (fun r => litR r && matchR (pathSegs path) r) := by
      apply find?_congr'
      intro r _
      by_cases hlr : litR r = true
      · have := lit_key_match r path hlr
        simp only [Function.comp, kf, hlr, true_and, Bool.true_and, this]
        simp
      · simp at hlr; simp [hlr]
    rw [this]
    rfl
  unfold matchBucket winner
  rw [hfind]
  cases hfl : (Tm regs m).find? (fun r => litR r && matchR (pathSegs path) r) with
  | some r => rfl
  | none =>
    simp only [Option.map_none]
    have hpat : b.finalize.patterns = b.patterns := rfl
    rw [hpat, splitOn_strip]
    have hgood : ∀ e ∈ b.patterns, Good e.1 := by
      intro e he
      rw [hp] at he
      obtain ⟨r, hr, rfl⟩ := List.mem_map.mp he
      have hrT := (List.mem_filter.mp hr).1
      have hz := (mem_Tm hrT).1
      have hreg : r.1 ∈ regs := by
        have := mem_zipIdx_get hz
        exact List.mem_of_getElem? this
      refine ⟨?_, parseRoute_ne_nil _, rfl⟩
      simp only [pf, toPat, parseRoute_pattern]
      exact wf r.1 hreg
    have hinv := scan_inv (pathSegs path) b.patterns scanInit none hgood ⟨rfl, rfl, rfl⟩
    have hfilt : b.patterns.filter (matchesM (pathSegs path)) = ((Tm regs m).filter (matchR (pathSegs path))).map pf := by
      rw [hp, List.filter_map, List.filter_filter]
      congr 1
      apply List.filter_congr
      intro r hr
      have hnone := List.find?_eq_none.mp hfl r hr
      have hmm : (matchesM (pathSegs path) ∘ pf) r = matchR (pathSegs path) r := by
        simp [Function.comp, matchesM, pf, toPat, parseRoute_pattern, matchR]
      rw [hmm]
      cases h1 : litR r <;> cases h2 : matchR (pathSegs path) r <;> simp_all
    have hkey : keyM ∘ pf = keyR := by
      funext r; simp [Function.comp, keyM, pf, toPat, parseRoute_pattern, keyR]
    rw [hfilt, bestOf_none_eq, firstMaxBy_map, hkey] at hinv
    cases hw : firstMaxBy keyR ((Tm regs m).filter (matchR (pathSegs path))) with
    | none =>
      rw [hw] at hinv
      simp only [Option.map_none, ScanInv] at hinv
      simp only [hinv.1]
    | some r =>
      rw [hw] at hinv
      simp only [Option.map_some, ScanInv] at hinv
      obtain ⟨_, h1, _, _, h4⟩ := hinv
      simp only [h1, h4, pf, toPat, parseRoute_pattern]

/-- the spec computes `winner` -/
theorem select_winner (regs : List (Method × Bytes)) (m : Method) (path : Bytes) :
    select regs m path = (winner regs m path).1 := by
  have hc : candidates regs m (pathSegs path) = ((Tm regs m).filter (matchR (pathSegs path))).map toEntry := by
    unfold candidates Tm
    rw [effectiveTable_eq, List.filter_map, List.filter_filter]
    congr 1
    apply List.filter_congr
    intro r _
    simp only [Function.comp, toEntry, isM, matchR]
    first | rfl | exact Bool.and_comm _ _
  unfold select winner
  simp only [hc]
  rw [List.find?_map, List.find?_filter]
  have hpred : (Tm regs m).find? (fun a => decide (matchR (pathSegs path) a = true ∧
        ((fun e : Entry => e.pat.all Seg.isLit) ∘ toEntry) a = true))
      = (Tm regs m).find? (fun r => litR r && matchR (pathSegs path) r) := by
    apply find?_congr'
    intro r _
    simp only [Function.comp, toEntry, litR]
    apply bool_eq_of_iff
    simp [and_comm]
  rw [hpred]
  cases hfl : (Tm regs m).find? (fun r => litR r && matchR (pathSegs path) r) with
  | some r => rfl
  | none =>
    simp only [Option.map_none]
    have hfm : firstMax (((Tm regs m).filter (matchR (pathSegs path))).map toEntry)
        = (firstMaxBy keyR ((Tm regs m).filter (matchR (pathSegs path)))).map toEntry := by
      unfold firstMax firstMaxBy
      rw [List.find?_map]
      congr 2
      funext e
      simp only [Function.comp, isMaxIn, List.all_map, toEntry, rankLe_key, keyR]
      rfl
    rw [hfm]
    cases firstMaxBy keyR ((Tm regs m).filter (matchR (pathSegs path))) <;> rfl
end Khttp.Router
