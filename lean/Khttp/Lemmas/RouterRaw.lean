/- raw effective table, pattern equivalence facts -/
import Khttp.Lemmas.RouterBuilder
namespace Khttp.Router
open Khttp Khttp.Spec.Route

abbrev Reg := (Method × Bytes) × Nat

/-! ### pattern equivalence facts -/

theorem isLiteral_toSeg (s : RouteSegment) : s.isLiteral = (toSeg s).isLit := by cases s <;> rfl

theorem segEq_toSeg (a b : RouteSegment) : segEq a b = (toSeg a).equiv (toSeg b) := by
  cases a <;> cases b <;> rfl

theorem segsEq_toSeg : ∀ (a b : List RouteSegment), segsEq a b = patEquiv (a.map toSeg) (b.map toSeg) := by
  intro a
  induction a with
  | nil => intro b; cases b <;> rfl
  | cons x xs ih => intro b; cases b with
    | nil => rfl
    | cons y ys => simp [segsEq, patEquiv, segEq_toSeg, ih]

theorem segEq_prec {a b : RouteSegment} (h : segEq a b = true) : precedenceOf (some a) = precedenceOf (some b) := by
  cases a <;> cases b <;> simp [segEq] at h <;> rfl

theorem segsEq_lastPrec : ∀ (a b : List RouteSegment), segsEq a b = true →
    precedenceOf a.getLast? = precedenceOf b.getLast? := by
  intro a
  induction a with
  | nil => intro b h; cases b with
    | nil => rfl
    | cons _ _ => simp [segsEq] at h
  | cons x xs ih =>
    intro b h
    cases b with
    | nil => simp [segsEq] at h
    | cons y ys =>
      simp [segsEq] at h
      cases xs with
      | nil =>
        cases ys with
        | nil => simpa using segEq_prec h.1
        | cons _ _ => simp [segsEq] at h
      | cons x' xs' =>
        cases ys with
        | nil => simp [segsEq] at h
        | cons y' ys' =>
          rw [List.getLast?_cons_cons, List.getLast?_cons_cons]
          exact ih _ h.2

theorem patEq_parse (o e : Bytes) :
    patEq (parseRoute o).2 (parseRoute e).2 = patEquiv (parsePattern o) (parsePattern e) := by
  rw [← parseRoute_pattern, ← parseRoute_pattern, ← segsEq_toSeg]
  unfold patEq
  cases h : segsEq (parseRoute o).2.pattern (parseRoute e).2.pattern with
  | false => rfl
  | true =>
    have := segsEq_lastPrec _ _ h
    rw [← parseRoute_lastPrec, ← parseRoute_lastPrec] at this
    simp [this]

theorem equiv_isLit {a b : Seg} (h : a.equiv b = true) : a.isLit = b.isLit := by
  cases a <;> cases b <;> simp [Seg.equiv] at h <;> rfl

theorem patEquiv_allLit : ∀ (a b : List Seg), patEquiv a b = true → a.all Seg.isLit = b.all Seg.isLit := by
  intro a
  induction a with
  | nil => intro b h; cases b with
    | nil => rfl
    | cons _ _ => simp [patEquiv] at h
  | cons x xs ih =>
    intro b h
    cases b with
    | nil => simp [patEquiv] at h
    | cons y ys =>
      simp [patEquiv] at h
      simp [List.all_cons, equiv_isLit h.1, ih ys h.2]

theorem patEquiv_refl : ∀ (a : List Seg), patEquiv a a = true := by
  intro a
  induction a with
  | nil => rfl
  | cons x xs ih => cases x <;> simp [patEquiv, Seg.equiv, ih]

theorem parseSeg_lit {s t : Bytes} (h : parseSeg s = Seg.lit t) : t = s := by
  unfold parseSeg at h
  split at h <;> first | (injection h with h; exact h.symm) | cases h

theorem allLit_map_parseSeg : ∀ (l : List Bytes), (l.map parseSeg).all Seg.isLit = true → l.map parseSeg = l.map Seg.lit := by
  intro l
  induction l with
  | nil => intro _; rfl
  | cons x xs ih =>
    intro h
    simp only [List.map_cons, List.all_cons, Bool.and_eq_true] at h
    rw [List.map_cons, List.map_cons, ih h.2]
    cases hp : parseSeg x with
    | lit t => rw [parseSeg_lit hp]
    | param _ => rw [hp] at h; simp [Seg.isLit] at h
    | star => rw [hp] at h; simp [Seg.isLit] at h
    | dstar => rw [hp] at h; simp [Seg.isLit] at h

theorem patEquiv_lits : ∀ (a b : List Bytes), patEquiv (a.map Seg.lit) (b.map Seg.lit) = true → a = b := by
  intro a
  induction a with
  | nil => intro b h; cases b with
    | nil => rfl
    | cons _ _ => simp [patEquiv] at h
  | cons x xs ih =>
    intro b h
    cases b with
    | nil => simp [patEquiv] at h
    | cons y ys =>
      simp [patEquiv, Seg.equiv] at h
      rw [h.1, ih ys h.2]

def litR (r : Reg) : Bool := (parsePattern r.1.2).all Seg.isLit

theorem pathSegs_inj {a b : Bytes} (h : pathSegs a = pathSegs b) : stripLeadingSlash a = stripLeadingSlash b := by
  rw [← splitOn_strip, ← splitOn_strip] at h
  exact splitOn_inj _ _ _ h

/-- for all-literal routes, equivalence of patterns is equality of the normalised strings -/
theorem key_ne_iff (o e : Bytes) (ho : (parsePattern o).all Seg.isLit = true) (he : (parsePattern e).all Seg.isLit = true) :
    (stripLeadingSlash o != stripLeadingSlash e) = !patEquiv (parsePattern o) (parsePattern e) := by
  by_cases h : stripLeadingSlash o = stripLeadingSlash e
  · have : parsePattern o = parsePattern e := by
      unfold parsePattern; rw [← splitOn_strip, ← splitOn_strip, h]
    rw [this, patEquiv_refl]; simp [h]
  · have : patEquiv (parsePattern o) (parsePattern e) = false := by
      apply Bool.eq_false_iff.mpr
      intro hc
      apply h
      apply pathSegs_inj
      unfold parsePattern at ho he hc
      rw [allLit_map_parseSeg _ ho, allLit_map_parseSeg _ he] at hc
      exact patEquiv_lits _ _ hc
    rw [this]; simp [h]

/-! ### effective table over raw registrations -/

def sameReg (e o : Reg) : Bool := decide (o.1.1 = e.1.1) && patEquiv (parsePattern o.1.2) (parsePattern e.1.2)
def regRaw (T : List Reg) (e : Reg) : List Reg := T.filter (fun o => !sameReg e o) ++ [e]
def effRaw (rs : List Reg) : List Reg := rs.foldl regRaw []
def toEntry (r : Reg) : Entry := { id := r.2, method := r.1.1, pat := parsePattern r.1.2 }

theorem foldl_register_map : ∀ (rs T : List Reg),
    (rs.map toEntry).foldl register (T.map toEntry) = ((rs.foldl regRaw T).map toEntry) := by
  intro rs
  induction rs with
  | nil => intro T; rfl
  | cons r rs ih =>
    intro T
    simp only [List.map_cons, List.foldl_cons]
    rw [← ih]
    congr 1
    simp only [register, regRaw, List.map_append, List.filter_map, List.map_cons, List.map_nil]
    rfl

theorem effectiveTable_eq (regs : List (Method × Bytes)) :
    effectiveTable regs = (effRaw regs.zipIdx).map toEntry := by
  unfold effectiveTable effRaw
  exact foldl_register_map regs.zipIdx []

theorem foldl_regRaw_filter (m : Method) : ∀ (rs T : List Reg),
    (rs.foldl regRaw T).filter (isM m) = (rs.filter (isM m)).foldl regRaw (T.filter (isM m)) := by
  intro rs
  induction rs with
  | nil => intro T; rfl
  | cons r rs ih =>
    intro T
    rw [List.foldl_cons, ih]
    by_cases e : r.1.1 = m
    · have : isM m r = true := by simp [isM, e]
      rw [List.filter_cons_of_pos this, List.foldl_cons]
      congr 1
      simp only [regRaw, List.filter_append, List.filter_filter, List.filter_cons_of_pos this, List.filter_nil]
      congr 1
      apply List.filter_congr
      intro x _
      exact Bool.and_comm _ _
    · have : ¬ (isM m r = true) := by simp [isM, e]
      rw [List.filter_cons_of_neg this]
      congr 1
      simp only [regRaw, List.filter_append, List.filter_filter, List.filter_cons_of_neg this, List.filter_nil,
        List.append_nil]
      apply List.filter_congr
      intro x _
      by_cases hx : x.1.1 = m
      · have : ¬ m = r.1.1 := fun c => e c.symm
        simp [isM, hx, sameReg, this]
      · simp [isM, hx]

theorem mem_foldl_regRaw : ∀ (rs T : List Reg) (x : Reg), x ∈ rs.foldl regRaw T → x ∈ T ∨ x ∈ rs := by
  intro rs
  induction rs with
  | nil => intro T x h; exact Or.inl h
  | cons r rs ih =>
    intro T x h
    rw [List.foldl_cons] at h
    rcases ih _ x h with h | h
    · simp only [regRaw, List.mem_append, List.mem_filter, List.mem_singleton] at h
      rcases h with h | h
      · exact Or.inl h.1
      · exact Or.inr (by simp [h])
    · exact Or.inr (by simp [h])
end Khttp.Router
