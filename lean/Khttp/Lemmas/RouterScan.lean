/- the candidate scan of `match_route`: per-candidate segment loop, first-maximum fold -/
import Khttp.Lemmas.RouterBasic
namespace Khttp.Router
open Khttp Khttp.Spec.Route

def finalOk (s : SegState) (lp : Precedence) : Bool :=
  if s.ok && s.uriIter.head?.isSome then decide (lp = Precedence.doubleWildcard) else s.ok

theorem wf_tail {s : Seg} {ps : List Seg} (h : wfPattern (s :: ps) = true) : wfPattern ps = true := by
  cases ps with
  | nil => rfl
  | cons r rs => simp [wfPattern] at h; exact h.2

theorem wf_dstar {ps : List Seg} (h : wfPattern (Seg.dstar :: ps) = true) : ps = [] := by
  cases ps with
  | nil => rfl
  | cons r rs => simp [wfPattern] at h

@[simp] theorem leadingLits_lit (l : Bytes) (ps : List Seg) : leadingLits (Seg.lit l :: ps) = leadingLits ps + 1 := by
  simp [leadingLits, List.takeWhile, Seg.isLit]
@[simp] theorem leadingLits_param (l : Bytes) (ps : List Seg) : leadingLits (Seg.param l :: ps) = 0 := by
  simp [leadingLits, List.takeWhile, Seg.isLit]
@[simp] theorem leadingLits_star (ps : List Seg) : leadingLits (Seg.star :: ps) = 0 := by
  simp [leadingLits, List.takeWhile, Seg.isLit]
@[simp] theorem leadingLits_dstar (ps : List Seg) : leadingLits (Seg.dstar :: ps) = 0 := by
  simp [leadingLits, List.takeWhile, Seg.isLit]
@[simp] theorem leadingLits_nil : leadingLits [] = 0 := rfl

def LastOk (ps : List RouteSegment) (lp : Precedence) : Prop :=
  match ps.getLast? with
  | some s => lp = precedenceOf (some s)
  | none => lp ≠ Precedence.doubleWildcard

theorem lastOk_tail {seg : RouteSegment} {rest : List RouteSegment} {lp : Precedence}
    (h : LastOk (seg :: rest) lp) (hs : seg ≠ .doubleWildcard) : LastOk rest lp := by
  cases rest with
  | nil =>
    simp [LastOk] at h ⊢
    subst h
    cases seg <;> simp [precedenceOf] at hs ⊢
  | cons r rs =>
    simpa [LastOk, List.getLast?_cons_cons] using h

theorem segLoop_spec : ∀ (ps : List RouteSegment) (uri : List Bytes) (lml : Int) (cp : Bool) (rp : Params)
    (lp : Precedence), wfPattern (ps.map toSeg) = true → LastOk ps lp →
    finalOk (segLoop ps ⟨uri, true, lml, cp, rp⟩) lp = segMatches (ps.map toSeg) uri ∧
    (finalOk (segLoop ps ⟨uri, true, lml, cp, rp⟩) lp = true →
      (segLoop ps ⟨uri, true, lml, cp, rp⟩).lml = lml + (if cp then (leadingLits (ps.map toSeg) : Int) else 0) ∧
      (segLoop ps ⟨uri, true, lml, cp, rp⟩).routeParams = rp ++ bindParams (ps.map toSeg) uri) := by
  intro ps
  induction ps with
  | nil =>
    intro uri lml cp rp lp _ hl
    simp [LastOk] at hl
    cases uri <;> simp [segLoop, finalOk, segMatches, hl, bindParams]
  | cons seg rest ih =>
    intro uri lml cp rp lp hwf hl
    cases seg with
    | doubleWildcard =>
      have hr : rest = [] := by
        have := wf_dstar (ps := rest.map toSeg) (by simpa [toSeg] using hwf)
        simpa using this
      subst hr
      simp [LastOk, precedenceOf] at hl
      subst hl
      simp [segLoop, finalOk, toSeg, segMatches, bindParams]
    | wildcard =>
      have hwf' : wfPattern (rest.map toSeg) = true := wf_tail (s := .star) (by simpa [toSeg] using hwf)
      have hl' := lastOk_tail hl (by simp)
      cases uri with
      | nil => simp [segLoop, finalOk, toSeg, segMatches]
      | cons x xs =>
        have := ih xs lml false rp lp hwf' hl'
        simpa [segLoop, toSeg, segMatches, bindParams] using this
    | param name =>
      have hwf' : wfPattern (rest.map toSeg) = true := wf_tail (s := .param name) (by simpa [toSeg] using hwf)
      have hl' := lastOk_tail hl (by simp)
      cases uri with
      | nil => simp [segLoop, finalOk, toSeg, segMatches]
      | cons x xs =>
        have := ih xs lml false (rp ++ [(name, x)]) lp hwf' hl'
        simpa [segLoop, toSeg, segMatches, bindParams] using this
    | literal lit =>
      have hwf' : wfPattern (rest.map toSeg) = true := wf_tail (s := .lit lit) (by simpa [toSeg] using hwf)
      have hl' := lastOk_tail hl (by simp)
      cases uri with
      | nil => simp [segLoop, finalOk, toSeg, segMatches]
      | cons x xs =>
        by_cases hx : lit = x
        · subst hx
          cases cp with
          | true =>
            have := ih xs (lml + 1) true rp lp hwf' hl'
            simp [segLoop, toSeg, segMatches, bindParams] at this ⊢
            refine ⟨this.1, fun h => ?_⟩
            have := this.2 h
            refine ⟨by omega, this.2⟩
          | false =>
            have := ih xs lml false rp lp hwf' hl'
            simpa [segLoop, toSeg, segMatches, bindParams] using this
        · simp [segLoop, finalOk, toSeg, segMatches, hx]

def bestOf {α} (key : α → Nat) : Option α → List α → Option α
  | acc, [] => acc
  | none, x :: xs => bestOf key (some x) xs
  | some a, x :: xs => bestOf key (if key a < key x then some x else some a) xs

/-- `e` is at least as large as every element of `l` -/
def isMaxIn {α} (key : α → Nat) (l : List α) (e : α) : Bool := l.all fun o => decide (key o ≤ key e)

def firstMaxBy {α} (key : α → Nat) (l : List α) : Option α := l.find? (isMaxIn key l)

theorem isMaxIn_iff {α} (key : α → Nat) (l : List α) (e : α) :
    isMaxIn key l e = true ↔ ∀ o ∈ l, key o ≤ key e := by
  simp [isMaxIn]

theorem find?_congr' {α} {p q : α → Bool} : ∀ {l : List α}, (∀ x ∈ l, p x = q x) → l.find? p = l.find? q := by
  intro l
  induction l with
  | nil => intro _; rfl
  | cons a l ih =>
    intro h
    rw [List.find?_cons, List.find?_cons, h a (by simp), ih (fun x hx => h x (by simp [hx]))]

theorem bool_eq_of_iff {a b : Bool} (h : a = true ↔ b = true) : a = b := by
  cases a <;> cases b <;> simp_all

theorem bestOf_some_eq {α} (key : α → Nat) : ∀ (xs : List α) (a : α),
    bestOf key (some a) xs = firstMaxBy key (a :: xs) := by
  intro xs
  induction xs with
  | nil =>
    intro a
    have : isMaxIn key [a] a = true := by rw [isMaxIn_iff]; intro o ho; simp at ho; subst ho; exact Nat.le_refl _
    simp [bestOf, firstMaxBy, this]
  | cons x xs ih =>
    intro a
    unfold bestOf
    by_cases h : key a < key x
    · simp only [h, if_true]
      rw [ih x]; symm
      unfold firstMaxBy
      have ha : isMaxIn key (a :: x :: xs) a = false := by
        apply Bool.eq_false_iff.mpr
        intro hc
        have := (isMaxIn_iff key _ _).mp hc x (by simp)
        omega
      rw [List.find?_cons (a := a), ha]
      apply find?_congr'
      intro e _
      apply bool_eq_of_iff
      rw [isMaxIn_iff, isMaxIn_iff]
      constructor
      · intro hh o ho; exact hh o (by simp [ho])
      · intro hh o ho
        have hx := hh x (by simp)
        rcases List.mem_cons.mp ho with rfl | ho
        · omega
        · exact hh o ho
    · simp only [h, if_false]
      rw [ih a]; symm
      unfold firstMaxBy
      have hxa : key x ≤ key a := by omega
      have hsame : isMaxIn key (a :: x :: xs) a = isMaxIn key (a :: xs) a := by
        apply bool_eq_of_iff
        rw [isMaxIn_iff, isMaxIn_iff]
        constructor
        · intro hh o ho
          rcases List.mem_cons.mp ho with rfl | ho
          · exact Nat.le_refl _
          · exact hh o (by simp [ho])
        · intro hh o ho
          rcases List.mem_cons.mp ho with rfl | ho
          · exact Nat.le_refl _
          · rcases List.mem_cons.mp ho with rfl | ho
            · exact hxa
            · exact hh o (by simp [ho])
      rw [List.find?_cons (a := a), List.find?_cons (a := a), hsame]
      cases hpa : isMaxIn key (a :: xs) a with
      | true => rfl
      | false =>
        simp only []
        have hx : isMaxIn key (a :: x :: xs) x = false := by
          apply Bool.eq_false_iff.mpr
          intro hc
          have hc' := (isMaxIn_iff key _ _).mp hc
          have hk : key a ≤ key x := hc' a (by simp)
          have : isMaxIn key (a :: xs) a = true := by
            rw [isMaxIn_iff]
            intro o ho
            rcases List.mem_cons.mp ho with rfl | ho
            · exact Nat.le_refl _
            · have := hc' o (by simp [ho]); omega
          rw [hpa] at this
          exact Bool.noConfusion this
        rw [List.find?_cons (a := x), hx]
        apply find?_congr'
        intro e _
        apply bool_eq_of_iff
        rw [isMaxIn_iff, isMaxIn_iff]
        constructor
        · intro hh o ho
          rcases List.mem_cons.mp ho with rfl | ho
          · exact hh _ (by simp)
          · exact hh o (by simp [ho])
        · intro hh o ho
          have hae := hh a (by simp)
          rcases List.mem_cons.mp ho with rfl | ho
          · exact hae
          · rcases List.mem_cons.mp ho with rfl | ho
            · omega
            · exact hh o (by simp [ho])

theorem bestOf_none_eq {α} (key : α → Nat) (l : List α) : bestOf key none l = firstMaxBy key l := by
  cases l with
  | nil => rfl
  | cons x xs => simp only [bestOf]; exact bestOf_some_eq key xs x

theorem bestOf_some_isSome {α} (key : α → Nat) : ∀ (xs : List α) (a : α), (bestOf key (some a) xs).isSome := by
  intro xs; induction xs with
  | nil => intro a; rfl
  | cons x xs ih => intro a; unfold bestOf; split <;> exact ih _

theorem firstMaxBy_eq_none {α} (key : α → Nat) (l : List α) : firstMaxBy key l = none ↔ l = [] := by
  rw [← bestOf_none_eq]
  cases l with
  | nil => simp [bestOf]
  | cons x xs =>
    simp only [bestOf]
    have := bestOf_some_isSome key xs x
    cases h : bestOf key (some x) xs <;> simp_all

def toPat (p : RoutePattern) : List Seg := p.pattern.map toSeg

/-- what `parse_route` guarantees about a stored pattern, plus well-formedness -/
def Good (p : RoutePattern) : Prop :=
  wfPattern (toPat p) = true ∧ p.pattern ≠ [] ∧ p.lastPrec = precedenceOf p.pattern.getLast?

def keyS (pat : List Seg) : Nat := 4 * leadingLits pat + lastPrec pat
def matchesM (segs : List Bytes) (e : RoutePattern × Nat) : Bool := segMatches (toPat e.1) segs
def keyM (e : RoutePattern × Nat) : Nat := keyS (toPat e.1)

theorem prec_toNat (s : RouteSegment) : (precedenceOf (some s)).toNat = (toSeg s).prec := by
  cases s <;> simp [precedenceOf, toSeg, Seg.prec] <;> decide

theorem good_lastOk {p : RoutePattern} (h : Good p) : LastOk p.pattern p.lastPrec := by
  obtain ⟨_, hne, hl⟩ := h
  unfold LastOk
  cases hq : p.pattern.getLast? with
  | none => simp at hq; exact absurd hq hne
  | some s => simp only []; rw [hl, hq]

theorem good_lastPrec {p : RoutePattern} (h : Good p) : p.lastPrec.toNat = lastPrec (toPat p) := by
  obtain ⟨_, hne, hl⟩ := h
  cases hq : p.pattern.getLast? with
  | none => simp at hq; exact absurd hq hne
  | some s =>
    rw [hl, hq, prec_toNat]
    simp [lastPrec, toPat, List.getLast?_map, hq]

theorem lastPrec_le (pat : List Seg) : lastPrec pat ≤ 3 := by
  unfold lastPrec
  split
  · rename_i s _; cases s <;> simp [Seg.prec]
  · omega

theorem ite_not_aux {α} (b : Bool) (x y : α) :
    (if (!b) = true then x else y) = (if b = false then x else y) := by cases b <;> simp

theorem scanStep_def (segs : List Bytes) (st : ScanState) (e : RoutePattern × Nat) :
    scanStep segs st e =
      if (finalOk (segLoop e.1.pattern ⟨segs, true, 0, true, []⟩) e.1.lastPrec) = false then
        { st with routeParams := (segLoop e.1.pattern ⟨segs, true, 0, true, []⟩).routeParams }
      else if ((segLoop e.1.pattern ⟨segs, true, 0, true, []⟩).lml > st.bestLml ||
          ((segLoop e.1.pattern ⟨segs, true, 0, true, []⟩).lml == st.bestLml &&
            e.1.lastPrec.toNat > st.bestPrec.toNat)) = true then
        { bestLml := (segLoop e.1.pattern ⟨segs, true, 0, true, []⟩).lml, bestPrec := e.1.lastPrec,
          bestRoute := some e.2,
          bestParams := (segLoop e.1.pattern ⟨segs, true, 0, true, []⟩).routeParams,
          routeParams := st.bestParams }
      else { st with routeParams := (segLoop e.1.pattern ⟨segs, true, 0, true, []⟩).routeParams } := by
  simp only [scanStep, Params.clear]
  exact ite_not_aux (finalOk (segLoop e.1.pattern ⟨segs, true, 0, true, []⟩) e.1.lastPrec) _ _

theorem scanStep_match {segs : List Bytes} {st : ScanState} {e : RoutePattern × Nat}
    (hg : Good e.1) (hm : matchesM segs e = true) :
    scanStep segs st e =
      if ((leadingLits (toPat e.1) : Int) > st.bestLml ||
          ((leadingLits (toPat e.1) : Int) == st.bestLml && e.1.lastPrec.toNat > st.bestPrec.toNat)) = true then
        { bestLml := leadingLits (toPat e.1), bestPrec := e.1.lastPrec, bestRoute := some e.2,
          bestParams := bindParams (toPat e.1) segs, routeParams := st.bestParams }
      else { st with routeParams := bindParams (toPat e.1) segs } := by
  have h := segLoop_spec e.1.pattern segs 0 true [] e.1.lastPrec hg.1 (good_lastOk hg)
  obtain ⟨h1, h2⟩ := h
  have hm' : segMatches (List.map toSeg e.1.pattern) segs = true := hm
  rw [hm'] at h1
  obtain ⟨h3, h4⟩ := h2 h1
  rw [scanStep_def]
  generalize segLoop e.1.pattern ⟨segs, true, 0, true, []⟩ = s at h1 h3 h4
  simp only [if_true, Int.zero_add, List.nil_append] at h3 h4
  rw [h1, h3, h4]
  simp only [toPat]
  simp

theorem scanStep_nomatch {segs : List Bytes} {st : ScanState} {e : RoutePattern × Nat}
    (hg : Good e.1) (hm : matchesM segs e = false) :
    ∃ junk, scanStep segs st e = { st with routeParams := junk } := by
  have h := segLoop_spec e.1.pattern segs 0 true [] e.1.lastPrec hg.1 (good_lastOk hg)
  obtain ⟨h1, _⟩ := h
  have hm' : segMatches (List.map toSeg e.1.pattern) segs = false := hm
  rw [hm'] at h1
  refine ⟨(segLoop e.1.pattern ⟨segs, true, 0, true, []⟩).routeParams, ?_⟩
  rw [scanStep_def, h1]
  simp

def ScanInv (segs : List Bytes) (st : ScanState) : Option (RoutePattern × Nat) → Prop
  | none => st.bestRoute = none ∧ st.bestLml = -1 ∧ st.bestPrec = Precedence.doubleWildcard
  | some w => Good w.1 ∧ st.bestRoute = some w.2 ∧ st.bestLml = leadingLits (toPat w.1) ∧ st.bestPrec = w.1.lastPrec ∧
      st.bestParams = bindParams (toPat w.1) segs

theorem scan_inv (segs : List Bytes) : ∀ (L : List (RoutePattern × Nat)) (st : ScanState) (acc : Option (RoutePattern × Nat)),
    (∀ e ∈ L, Good e.1) → ScanInv segs st acc →
    ScanInv segs (L.foldl (scanStep segs) st) (bestOf keyM acc (L.filter (matchesM segs))) := by
  intro L
  induction L with
  | nil => intro st acc _ h; simpa [bestOf] using h
  | cons e L ih =>
    intro st acc hg hinv
    have hge : Good e.1 := hg e (by simp)
    have hgL : ∀ x ∈ L, Good x.1 := fun x hx => hg x (by simp [hx])
    rw [List.foldl_cons]
    cases hm : matchesM segs e with
    | false =>
      obtain ⟨junk, hj⟩ := scanStep_nomatch (st := st) hge hm
      rw [List.filter_cons_of_neg (by simp [hm]), hj]
      apply ih _ _ hgL
      cases acc with
      | none => exact hinv
      | some w => exact hinv
    | true =>
      rw [List.filter_cons_of_pos (by simp [hm]), scanStep_match hge hm]
      have hpe := good_lastPrec hge
      have hle := lastPrec_le (toPat e.1)
      cases acc with
      | none =>
        obtain ⟨hr, hl, hp⟩ := hinv
        simp only [bestOf]
        apply ih _ _ hgL
        have : ((leadingLits (toPat e.1) : Int) > st.bestLml) := by rw [hl]; omega
        simp only [this, decide_true, Bool.true_or, if_true]
        exact ⟨hge, rfl, rfl, rfl, rfl⟩
      | some w =>
        obtain ⟨hgw, hr, hl, hp, hpar⟩ := hinv
        have hpw := good_lastPrec hgw
        have hlw := lastPrec_le (toPat w.1)
        simp only [bestOf]
        by_cases hk : keyM w < keyM e
        · simp only [hk, if_true]
          apply ih _ _ hgL
          have : ((leadingLits (toPat e.1) : Int) > st.bestLml ||
              ((leadingLits (toPat e.1) : Int) == st.bestLml && e.1.lastPrec.toNat > st.bestPrec.toNat)) = true := by
            simp only [keyM, keyS] at hk
            rw [hl, hp, hpe, hpw]
            simp
            omega
          simp only [this, if_true]
          exact ⟨hge, rfl, rfl, rfl, rfl⟩
        · simp only [hk, if_false]
          apply ih _ _ hgL
          have : ¬ (((leadingLits (toPat e.1) : Int) > st.bestLml ||
              ((leadingLits (toPat e.1) : Int) == st.bestLml && e.1.lastPrec.toNat > st.bestPrec.toNat)) = true) := by
            simp only [keyM, keyS] at hk
            rw [hl, hp, hpe, hpw]
            simp
            omega
          simp only [this]
          exact ⟨hgw, hr, hl, hp, hpar⟩
end Khttp.Router
