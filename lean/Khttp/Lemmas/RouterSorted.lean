/- `finalize` really sorts: the built literal tables are sorted by key and duplicate-free -/
import Khttp.Lemmas.RouterFacts
namespace Khttp.Router
open Khttp Khttp.Spec.Route

theorem u8_trichotomy (x y : UInt8) : x < y ∨ x = y ∨ y < x := by
  rcases Nat.lt_trichotomy x.toNat y.toNat with h | h | h
  · exact Or.inl (UInt8.lt_iff_toNat_lt.mpr h)
  · exact Or.inr (Or.inl (UInt8.toNat_inj.mp h))
  · exact Or.inr (Or.inr (UInt8.lt_iff_toNat_lt.mpr h))

theorem bytesLe_total : ∀ (a b : Bytes), bytesLe a b = true ∨ bytesLe b a = true := by
  intro a
  induction a with
  | nil => intro b; left; cases b <;> rfl
  | cons x xs ih =>
    intro b
    cases b with
    | nil => right; rfl
    | cons y ys =>
      rcases u8_trichotomy x y with h | h | h
      · left; simp [bytesLe, h]
      · subst h
        rcases ih ys with h | h
        · left; simp [bytesLe, h]
        · right; simp [bytesLe, h]
      · right; simp [bytesLe, h]

theorem bytesLe_trans : ∀ (a b c : Bytes), bytesLe a b = true → bytesLe b c = true → bytesLe a c = true := by
  intro a
  induction a with
  | nil => intro b c _ _; cases c <;> rfl
  | cons x xs ih =>
    intro b c h1 h2
    cases b with
    | nil => simp [bytesLe] at h1
    | cons y ys =>
      cases c with
      | nil => simp [bytesLe] at h2
      | cons z zs =>
        simp only [bytesLe, Bool.or_eq_true, Bool.and_eq_true, decide_eq_true_eq, beq_iff_eq] at h1 h2 ⊢
        rcases h1 with h1 | ⟨rfl, h1⟩ <;> rcases h2 with h2 | ⟨rfl, h2⟩
        · left; exact UInt8.lt_trans h1 h2
        · left; exact h1
        · left; exact h2
        · right; exact ⟨rfl, ih _ _ h1 h2⟩

def KeySorted (l : List (Bytes × Nat)) : Prop := l.Pairwise (fun a b => bytesLe a.1 b.1 = true)

theorem insertSorted_sorted (x : Bytes × Nat) : ∀ (l : List (Bytes × Nat)), KeySorted l → KeySorted (insertSorted x l) := by
  intro l
  induction l with
  | nil => intro _; simp [insertSorted, KeySorted]
  | cons y ys ih =>
    intro h
    unfold KeySorted at h
    rw [List.pairwise_cons] at h
    unfold insertSorted
    split
    · rename_i hxy
      unfold KeySorted
      rw [List.pairwise_cons]
      refine ⟨?_, List.pairwise_cons.mpr h⟩
      intro z hz
      rcases List.mem_cons.mp hz with rfl | hz
      · exact hxy
      · exact bytesLe_trans _ _ _ hxy (h.1 z hz)
    · rename_i hxy
      unfold KeySorted
      rw [List.pairwise_cons]
      refine ⟨?_, ih h.2⟩
      intro z hz
      have := (insertSorted_perm x ys).mem_iff.mp hz
      rcases List.mem_cons.mp this with rfl | hz'
      · rcases bytesLe_total z.1 y.1 with h' | h'
        · exact absurd h' hxy
        · exact h'
      · exact h.1 z hz'

theorem sortLiterals_sorted : ∀ (l : List (Bytes × Nat)), KeySorted (sortLiterals l) := by
  intro l
  induction l with
  | nil => exact List.Pairwise.nil
  | cons x xs ih => exact insertSorted_sorted x _ ih

/-- after `build`, the `literals` of the bucket of every method are sorted by key and duplicate-free:
    the precondition under which `binary_search_by_key` is a lookup -/
theorem build_literals_sorted (regs : List (Method × Bytes)) (m : Method) :
    KeySorted (bucketOf (build regs) m).literals ∧ UniqueKeys (bucketOf (build regs) m).literals := by
  rw [build, bucketOf_build, bucketOf_addAll m _ _ (by simp [RouterBuilder.new]), bucketOf_new]
  refine ⟨sortLiterals_sorted _, ?_⟩
  have hu : UniqueKeys ((regs.zipIdx.filter (isM m)).foldl bAdd default).literals :=
    foldl_bAdd_unique _ _ List.Pairwise.nil
  exact ((sortLiterals_perm _).pairwise_iff (fun h => Ne.symm h)).mpr hu
end Khttp.Router
