/- Stage facts for parse_headers / parse_header_line. -/
import Khttp.Model.Parser
import Khttp.Spec.Head
import Khttp.Lemmas.HeadersAux
import Khttp.Lemmas.FramingAux
namespace Khttp

/-- a field line as the *code* accepts it (the name class is the code's table) -/
def WfLineCode (f : Bytes × Bytes) : Prop :=
  f.1 ≠ [] ∧ (∀ b ∈ f.1, isFieldByte b = true) ∧ LF ∉ f.2

/-- the code's field-name table is exactly RFC 9110 `tchar` -/
theorem isFieldByte_eq_isTchar (b : UInt8) : isFieldByte b = Spec.isTchar b := by
  revert b; apply Hdr.forall_uint8; decide +kernel

namespace Hdr
open Spec


theorem startsWith_cons2 (a b : UInt8) (t : Bytes) :
    startsWith (a :: b :: t) [CR, LF] = (CR == a && LF == b) := by
  simp [startsWith, List.isPrefixOf]

theorem startsWith_crlf_iff (buf : Bytes) :
    startsWith buf [CR, LF] = true ↔ ∃ rest, buf = CR :: LF :: rest := by
  match buf with
  | [] => simp [startsWith]
  | [a] => simp [startsWith]
  | a :: b :: t =>
    simp only [startsWith_cons2, Bool.and_eq_true, beq_iff_eq, List.cons.injEq]
    constructor
    · rintro ⟨rfl, rfl⟩; exact ⟨t, rfl, rfl, rfl⟩
    · rintro ⟨_, rfl, rfl, _⟩; exact ⟨rfl, rfl⟩

theorem headersLoop_crlf (fuel : Nat) (h : Headers) (rest : Bytes) :
    headersLoop (fuel+1) h (CR :: LF :: rest) = .ok (h, rest) := by
  unfold headersLoop; simp [startsWith]

theorem not_startsWith_of_not_mem {buf : Bytes} (hn : LF ∉ buf) : startsWith buf [CR, LF] = false := by
  rw [Bool.eq_false_iff]; intro h
  obtain ⟨rest, rfl⟩ := (startsWith_crlf_iff buf).mp h
  simp at hn

theorem headersLoop_eof (fuel : Nat) (h : Headers) (buf : Bytes) (hn : LF ∉ buf) :
    headersLoop (fuel+1) h buf = .err .eof := by
  unfold headersLoop; rw [not_startsWith_of_not_mem hn, memchr_none hn]; rfl

def HdrBad (buf : Bytes) : Prop :=
  startsWith buf [CR, LF] = false ∧
  ((∃ more, buf = LF :: more) ∨
   ∃ line c more, buf = line ++ c :: LF :: more ∧ LF ∉ line ∧ c ≠ LF ∧
     (c ≠ CR ∨ parseHeaderLine line = .err .header))

theorem headersLoop_bad {buf : Bytes} (hb : HdrBad buf) (fuel : Nat) (h : Headers) :
    headersLoop (fuel+1) h buf = .err .header := by
  obtain ⟨hs, ⟨more, rfl⟩ | ⟨line, c, more, rfl, hl, hc, hbad⟩⟩ := hb
  · exact headersLoop_lf fuel h more
  · rw [headersLoop_line fuel h line c more hl hc hs]
    rcases hbad with hcr | hp
    · simp [hcr]
    · rw [hp]; split <;> rfl

theorem startsWith_append_of_mem {buf : Bytes} (hm : LF ∈ buf) (ext : Bytes) :
    startsWith (buf ++ ext) [CR, LF] = startsWith buf [CR, LF] := by
  match buf with
  | [] => simp at hm
  | [a] =>
    have : a = LF := by simpa [eq_comm] using hm
    subst this
    cases ext <;> simp [startsWith, List.isPrefixOf, CR, LF]
  | a :: b :: t => simp [startsWith_cons2]

theorem HdrBad_append {buf : Bytes} (hb : HdrBad buf) (ext : Bytes) : HdrBad (buf ++ ext) := by
  obtain ⟨hs, hb⟩ := hb
  have hm : LF ∈ buf := by
    rcases hb with ⟨more, rfl⟩ | ⟨line, c, more, rfl, _⟩ <;> simp
  refine ⟨by rw [startsWith_append_of_mem hm, hs], ?_⟩
  rcases hb with ⟨more, rfl⟩ | ⟨line, c, more, rfl, hl, hc, hbad⟩
  · left; exact ⟨more ++ ext, by simp⟩
  · right; exact ⟨line, c, more ++ ext, by simp, hl, hc, hbad⟩

theorem headersLoop_wfline {l : Bytes × Bytes} (hl : WfLineCode l) (fuel : Nat) (h : Headers) (more : Bytes) :
    headersLoop (fuel+1) h (renderLine l ++ more) = headersLoop fuel (h.add l.1 (trimStart l.2)) more := by
  obtain ⟨name, v⟩ := l
  obtain ⟨h1, h2, h3⟩ := hl
  simp only at h1 h2 h3
  have hlf : LF ∉ name := fun hm => (isFieldByte_props (h2 _ hm)).2.2.2 rfl
  have e : renderLine (name, v) ++ more = (name ++ COLON :: v) ++ CR :: LF :: more := by
    simp [renderLine, CRLF]
  have hs : startsWith ((name ++ COLON :: v) ++ CR :: LF :: more) [CR, LF] = false := by
    match name, h1, h2 with
    | a :: t, _, h2 =>
      have : a ≠ CR := (isFieldByte_props (h2 a (by simp))).2.2.1
      cases t <;> simp [startsWith_cons2, Ne.symm this]
  rw [e, headersLoop_line fuel h _ CR more (by simp [hlf, h3, show LF ≠ COLON by decide]) (by decide) hs,
    parseHeaderLine_ok h1 h2]
  simp

theorem hdr_cases (buf : Bytes) :
    (∃ rest, buf = CR :: LF :: rest) ∨ LF ∉ buf ∨ HdrBad buf ∨
    ∃ l more, WfLineCode l ∧ buf = renderLine l ++ more := by
  by_cases hs : startsWith buf [CR, LF] = true
  · left; exact (startsWith_crlf_iff buf).mp hs
  · have hs : startsWith buf [CR, LF] = false := by simpa using hs
    right
    rcases memchr_cases LF buf with ⟨hn, _⟩ | ⟨pre, more, rfl, hn, _⟩
    · left; exact hn
    · right
      rcases List.eq_nil_or_concat pre with rfl | ⟨line, c, rfl⟩
      · left; exact ⟨hs, Or.inl ⟨more, rfl⟩⟩
      · simp only [List.concat_eq_append] at *
        have hl : LF ∉ line := fun hm => hn (by simp [hm])
        have hc : c ≠ LF := fun hm => hn (by simp [hm])
        have e : line ++ [c] ++ LF :: more = line ++ c :: LF :: more := by simp
        rw [e] at hs ⊢
        by_cases hcr : c = CR
        · rcases parseHeaderLine_cases line with hp | ⟨name, v, rfl, h1, h2, _⟩
          · left; exact ⟨hs, Or.inr ⟨line, c, more, rfl, hl, hc, Or.inr hp⟩⟩
          · right
            refine ⟨(name, v), more, ⟨h1, h2, fun hm => hl (by simp [hm])⟩, ?_⟩
            subst hcr; simp [renderLine, CRLF]
        · left; exact ⟨hs, Or.inr ⟨line, c, more, rfl, hl, hc, Or.inl hcr⟩⟩

theorem renderLine_length_pos (l : Bytes × Bytes) : 1 ≤ (renderLine l).length := by
  simp [renderLine, CRLF]; omega

theorem headersLoop_safe : ∀ (fuel : Nat) (h : Headers) (buf : Bytes),
    buf.length + 1 ≤ fuel → (headersLoop fuel h buf).Safe := by
  intro fuel
  induction fuel with
  | zero => intro h buf hf; omega
  | succ fuel ih =>
    intro h buf hf
    rcases hdr_cases buf with ⟨rest, rfl⟩ | hn | hb | ⟨l, more, hl, rfl⟩
    · rw [headersLoop_crlf]; exact ⟨rfl, rfl⟩
    · rw [headersLoop_eof _ _ _ hn]; exact ⟨rfl, rfl⟩
    · rw [headersLoop_bad hb]; exact ⟨rfl, rfl⟩
    · rw [headersLoop_wfline hl]
      apply ih
      have := renderLine_length_pos l
      simp only [List.length_append] at hf; omega

theorem headersLoop_ok_of_lines : ∀ (lines : List (Bytes × Bytes)) (fuel : Nat) (h0 : Headers) (rest : Bytes),
    (∀ l ∈ lines, WfLineCode l) → (renderLines lines ++ CRLF ++ rest).length + 1 ≤ fuel →
    headersLoop fuel h0 (renderLines lines ++ CRLF ++ rest) =
      .ok (lines.foldl (fun h f => h.add f.1 (trimStart f.2)) h0, rest) := by
  intro lines
  induction lines with
  | nil =>
    intro fuel h0 rest _ hf
    obtain ⟨f, rfl⟩ : ∃ f, fuel = f + 1 := ⟨fuel - 1, by omega⟩
    simp only [renderLines, List.flatMap_nil, List.nil_append, CRLF, List.cons_append, List.foldl_nil]
    exact headersLoop_crlf f h0 rest
  | cons l ls ih =>
    intro fuel h0 rest hw hf
    obtain ⟨f, rfl⟩ : ∃ f, fuel = f + 1 := ⟨fuel - 1, by omega⟩
    have e : renderLines (l :: ls) ++ CRLF ++ rest = renderLine l ++ (renderLines ls ++ CRLF ++ rest) := by
      simp [renderLines]
    rw [e] at hf ⊢
    rw [headersLoop_wfline (hw l (by simp))]
    rw [ih f _ rest (fun x hx => hw x (by simp [hx]))]
    · rfl
    · have := renderLine_length_pos l
      simp only [List.length_append] at hf ⊢; omega

theorem headersLoop_lines_of_ok : ∀ (fuel : Nat) (h0 : Headers) (buf : Bytes) (h : Headers) (rest : Bytes),
    headersLoop fuel h0 buf = .ok (h, rest) →
    ∃ lines : List (Bytes × Bytes), buf = renderLines lines ++ CRLF ++ rest ∧
      (∀ l ∈ lines, WfLineCode l) ∧ h = lines.foldl (fun h f => h.add f.1 (trimStart f.2)) h0 := by
  intro fuel
  induction fuel with
  | zero => intro h0 buf h rest hr; simp [headersLoop] at hr
  | succ fuel ih =>
    intro h0 buf h rest hr
    rcases hdr_cases buf with ⟨r, rfl⟩ | hn | hb | ⟨l, more, hl, rfl⟩
    · rw [headersLoop_crlf] at hr
      injection hr with hr; injection hr with h1 h2
      subst h1 h2
      exact ⟨[], by simp [renderLines, CRLF], by simp, rfl⟩
    · rw [headersLoop_eof _ _ _ hn] at hr; cases hr
    · rw [headersLoop_bad hb] at hr; cases hr
    · rw [headersLoop_wfline hl] at hr
      obtain ⟨ls, rfl, hw, rfl⟩ := ih _ _ _ _ hr
      refine ⟨l :: ls, by simp [renderLines], ?_, rfl⟩
      intro x hx
      rcases List.mem_cons.mp hx with rfl | hx
      · exact hl
      · exact hw x hx

theorem headersLoop_reject_stable : ∀ (fuel : Nat) (h0 : Headers) (buf : Bytes) (e : PErr),
    headersLoop fuel h0 buf = .err e → e ≠ .eof → ∀ (ext : Bytes) (fuel' : Nat),
    (buf ++ ext).length + 1 ≤ fuel' →
    ∃ e', headersLoop fuel' h0 (buf ++ ext) = .err e' ∧ e' ≠ .eof := by
  intro fuel
  induction fuel with
  | zero => intro h0 buf e hr; simp [headersLoop] at hr
  | succ fuel ih =>
    intro h0 buf e hr he ext fuel' hf
    obtain ⟨f, rfl⟩ : ∃ f, fuel' = f + 1 := ⟨fuel' - 1, by omega⟩
    rcases hdr_cases buf with ⟨r, rfl⟩ | hn | hb | ⟨l, more, hl, rfl⟩
    · rw [headersLoop_crlf] at hr; cases hr
    · rw [headersLoop_eof _ _ _ hn] at hr; cases hr; exact absurd rfl he
    · exact ⟨.header, headersLoop_bad (HdrBad_append hb ext) f h0, by decide⟩
    · rw [headersLoop_wfline hl] at hr
      rw [List.append_assoc, headersLoop_wfline hl]
      apply ih _ _ _ hr he
      have := renderLine_length_pos l
      simp only [List.length_append] at hf ⊢; omega

end Hdr
open Hdr

theorem parseHeaders_safe (buf : Bytes) : (parseHeaders buf).Safe :=
  headersLoop_safe _ _ _ (Nat.le_refl _)

theorem parseHeaders_ok_iff (buf : Bytes) (h : Headers) (rest : Bytes) :
    parseHeaders buf = .ok (h, rest) ↔
      ∃ lines : List (Bytes × Bytes),
        buf = Spec.renderLines lines ++ Spec.CRLF ++ rest ∧ (∀ l ∈ lines, WfLineCode l) ∧ h = Spec.collect lines := by
  constructor
  · intro hr
    exact headersLoop_lines_of_ok _ _ _ _ _ hr
  · rintro ⟨lines, rfl, hw, rfl⟩
    exact headersLoop_ok_of_lines lines _ _ rest hw (Nat.le_refl _)

theorem parseHeaders_reject_stable (buf : Bytes) (e : PErr) (h : parseHeaders buf = .err e) (he : e ≠ .eof)
    (ext : Bytes) : ∃ e', parseHeaders (buf ++ ext) = .err e' ∧ e' ≠ .eof :=
  headersLoop_reject_stable _ _ _ _ h he ext _ (Nat.le_refl _)

/-- RFC-valid framing fields are never flagged as invalid framing by the collection -/
theorem framingOk_collect (fs : List (Bytes × Bytes)) (hw : ∀ f ∈ fs, Spec.WfRfcLine f = true)
    (hf : Spec.framingOk fs = true) : (Spec.collect fs).hasInvalidFraming = false := by
  open Spec in
  unfold framingOk at hf
  simp only [Bool.and_eq_true] at hf
  obtain ⟨⟨h1, h2⟩, h3⟩ := hf
  have hcl : ∃ n, ∀ d ∈ clValues fs, d ≠ [] ∧ d.all isDigit = true ∧ decimal d < 2 ^ 64 ∧ decimal d = n := by
    rw [List.all_eq_true] at h1
    have g : ∀ d ∈ clValues fs, d ≠ [] ∧ d.all isDigit = true ∧ decimal d < 2 ^ 64 := by
      intro d hd
      have := h1 d hd
      simpa [and_assoc] using this
    cases hc : clValues fs with
    | nil => exact ⟨0, by simp⟩
    | cons d ds =>
      rw [hc] at h2 g
      refine ⟨decimal d, ?_⟩
      intro x hx
      obtain ⟨g1, g2, g3⟩ := g x hx
      refine ⟨g1, g2, g3, ?_⟩
      rcases List.mem_cons.mp hx with rfl | hx
      · rfl
      · simp only [List.all_eq_true, beq_iff_eq] at h2
        exact h2 x hx
  obtain ⟨n, hcl⟩ := hcl
  have i1 := fold_invalidCl n fs Headers.new hw hcl rfl (Or.inl rfl)
  have i2 := fold_te fs Headers.new hw
  unfold Headers.hasInvalidFraming collect
  rw [i1, i2]
  unfold finalCodingChunked at h3
  cases hl : (teLines fs).getLast? with
  | none => rfl
  | some v =>
    rw [hl] at h3
    have : teFinal v = true := h3
    simp [this]

end Khttp
