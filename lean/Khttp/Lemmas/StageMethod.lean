/- Stage facts for parse_method, parse_version and the response status line. -/
import Khttp.Model.Parser
import Khttp.Spec.Head
namespace Khttp

theorem str_GETsp : str "GET " = [0x47,0x45,0x54,0x20] := by decide +kernel
theorem str_POSTsp : str "POST " = [0x50,0x4f,0x53,0x54,0x20] := by decide +kernel
theorem str_GET : str "GET" = [0x47,0x45,0x54] := by decide +kernel
theorem str_POST : str "POST" = [0x50,0x4f,0x53,0x54] := by decide +kernel
theorem str_HEAD : str "HEAD" = [0x48,0x45,0x41,0x44] := by decide +kernel
theorem str_PUT : str "PUT" = [0x50,0x55,0x54] := by decide +kernel
theorem str_PATCH : str "PATCH" = [0x50,0x41,0x54,0x43,0x48] := by decide +kernel
theorem str_DELETE : str "DELETE" = [0x44,0x45,0x4c,0x45,0x54,0x45] := by decide +kernel
theorem str_OPTIONS : str "OPTIONS" = [0x4f,0x50,0x54,0x49,0x4f,0x4e,0x53] := by decide +kernel
theorem str_TRACE : str "TRACE" = [0x54,0x52,0x41,0x43,0x45] := by decide +kernel
theorem HTTP1_eq : HTTP1 = [0x48,0x54,0x54,0x50,0x2f,0x31,0x2e] := by decide +kernel

theorem safe_ok {α} (a : α) : (Res.ok a).Safe := ⟨rfl, rfl⟩
theorem safe_err {α} (e : PErr) : (Res.err e : Res α).Safe := ⟨rfl, rfl⟩

theorem isAscii_of_isAlpha (b : UInt8) (h : isAlpha b = true) : isAscii b = true := by
  simp only [isAlpha, isAscii, Bool.or_eq_true, Bool.and_eq_true, decide_eq_true_eq,
    UInt8.le_iff_toNat_le, UInt8.lt_iff_toNat_lt] at *
  have e1 : (0x5a : UInt8).toNat = 0x5a := by decide
  have e2 : (0x7a : UInt8).toNat = 0x7a := by decide
  have e3 : (0x80 : UInt8).toNat = 0x80 := by decide
  omega

theorem all_isAscii_of_isAlpha (mb : Bytes) (h : mb.all isAlpha = true) : mb.all isAscii = true := by
  rw [List.all_eq_true] at *
  intro b hb; exact isAscii_of_isAlpha b (h b hb)

/-- uniqueness of the decomposition at the first SP -/
theorem first_sp_unique : ∀ (p mb r1 r2 : Bytes), SP ∉ p → SP ∉ mb →
    p ++ SP :: r1 = mb ++ SP :: r2 → p = mb ∧ r1 = r2 := by
  intro p
  induction p with
  | nil =>
    intro mb r1 r2 _ hmb h
    cases mb with
    | nil => simpa using h
    | cons a t =>
      simp at h; simp at hmb; exact absurd h.1 hmb.1
  | cons a p ih =>
    intro mb r1 r2 hp hmb h
    cases mb with
    | nil => simp at h; simp at hp; exact absurd h.1.symm (by simpa using hp.1)
    | cons b t =>
      simp at h hp hmb
      obtain ⟨hab, ht⟩ := h
      obtain ⟨h1, h2⟩ := ih t r1 r2 hp.2 hmb.2 ht
      exact ⟨by rw [hab, h1], h2⟩

theorem methodLoop_noSP (buf : Bytes) (h : SP ∉ buf) :
    ∀ fuel i, buf.length - i + 1 ≤ fuel → methodLoop buf fuel i = .err .eof := by
  intro fuel
  induction fuel with
  | zero => intro i hf; omega
  | succ f ih =>
    intro i hf
    unfold methodLoop
    split
    · rename_i hi
      have hne : buf[i] ≠ SP := fun e => h (e ▸ List.getElem_mem hi)
      simp only [idx, List.getElem?_eq_getElem hi]
      simp only [beq_iff_eq, hne, if_false]
      apply ih; omega
    · rfl

theorem methodLoop_SP (mb rest : Bytes) (h : SP ∉ mb) :
    ∀ fuel i, i ≤ mb.length → mb.length - i + 1 ≤ fuel →
      methodLoop (mb ++ SP :: rest) fuel i = (methodOfBytes mb >>= fun m => .ok (m, rest)) := by
  intro fuel
  induction fuel with
  | zero => intro i _ hf; omega
  | succ f ih =>
    intro i hi hf
    unfold methodLoop
    have hlen : i < (mb ++ SP :: rest).length := by simp; omega
    rw [if_pos hlen]
    by_cases hlt : i < mb.length
    · have hne : mb[i] ≠ SP := fun e => h (e ▸ List.getElem_mem hlt)
      simp only [idx, List.getElem?_append_left hlt, List.getElem?_eq_getElem hlt]
      simp only [beq_iff_eq, hne, if_false]
      apply ih <;> omega
    · have hi' : i = mb.length := by omega
      subst hi'
      simp [idx, sliceTo, sliceFrom]

theorem startsWith_iff (buf p : Bytes) : startsWith buf p = true ↔ ∃ r, buf = p ++ r := by
  simp only [startsWith, List.isPrefixOf_iff_prefix, List.IsPrefix]
  constructor
  · rintro ⟨t, ht⟩; exact ⟨t, ht.symm⟩
  · rintro ⟨t, ht⟩; exact ⟨t, ht.symm⟩

theorem parseMethod_noSP (buf : Bytes) (h : SP ∉ buf) : parseMethod buf = .err .eof := by
  unfold parseMethod
  have h1 : startsWith buf (str "GET ") = false := by
    rw [Bool.eq_false_iff]; intro hs
    obtain ⟨r, hr⟩ := (startsWith_iff _ _).1 hs
    apply h; rw [hr, str_GETsp]; simp [SP]
  have h2 : startsWith buf (str "POST ") = false := by
    rw [Bool.eq_false_iff]; intro hs
    obtain ⟨r, hr⟩ := (startsWith_iff _ _).1 hs
    apply h; rw [hr, str_POSTsp]; simp [SP]
  simp only [h1, h2]
  exact methodLoop_noSP buf h _ _ (by omega)

def methodGood (mb : Bytes) : Bool := !mb.isEmpty && mb.all isAlpha

theorem parseMethod_SP (mb rest : Bytes) (h : SP ∉ mb) :
    parseMethod (mb ++ SP :: rest) =
      if methodGood mb then .ok (Spec.methodOf mb, rest) else .err .status := by
  by_cases hG : mb = str "GET"
  · subst hG
    simp [parseMethod, startsWith, str_GETsp, str_GET, SP, methodGood, Spec.methodOf]
    decide
  by_cases hP : mb = str "POST"
  · subst hP
    simp [parseMethod, startsWith, str_GETsp, str_POSTsp, str_POST, SP, methodGood, Spec.methodOf, str_GET]
    decide
  have h1 : startsWith (mb ++ SP :: rest) (str "GET ") = false := by
    rw [Bool.eq_false_iff]; intro hs
    obtain ⟨r, hr⟩ := (startsWith_iff _ _).1 hs
    have : str "GET " ++ r = str "GET" ++ SP :: r := by rw [str_GETsp, str_GET]; rfl
    rw [this] at hr
    exact hG (first_sp_unique _ _ _ _ h (by rw [str_GET]; decide) hr).1
  have h2 : startsWith (mb ++ SP :: rest) (str "POST ") = false := by
    rw [Bool.eq_false_iff]; intro hs
    obtain ⟨r, hr⟩ := (startsWith_iff _ _).1 hs
    have : str "POST " ++ r = str "POST" ++ SP :: r := by rw [str_POSTsp, str_POST]; rfl
    rw [this] at hr
    exact hP (first_sp_unique _ _ _ _ h (by rw [str_POST]; decide) hr).1
  unfold parseMethod
  simp only [h1, h2]
  rw [methodLoop_SP mb rest h _ _ (by omega) (by simp)]
  unfold methodOfBytes Spec.methodOf
  simp only [hG, hP, if_false]
  by_cases c1 : mb = str "HEAD"
  · subst c1; simp [methodGood, str_HEAD]; try decide
  by_cases c2 : mb = str "PUT"
  · subst c2; simp [methodGood, str_PUT, str_HEAD]; try decide
  by_cases c3 : mb = str "PATCH"
  · subst c3; simp [methodGood, str_PUT, str_HEAD, str_PATCH]; try decide
  by_cases c4 : mb = str "DELETE"
  · subst c4; simp [methodGood, str_PUT, str_HEAD, str_PATCH, str_DELETE]; try decide
  by_cases c5 : mb = str "OPTIONS"
  · subst c5; simp [methodGood, str_PUT, str_HEAD, str_PATCH, str_DELETE, str_OPTIONS]; try decide
  by_cases c6 : mb = str "TRACE"
  · subst c6; simp [methodGood, str_PUT, str_HEAD, str_PATCH, str_DELETE, str_OPTIONS, str_TRACE]; try decide
  simp only [c1, c2, c3, c4, c5, c6, if_false]
  by_cases hg : methodGood mb = true
  · have hg' := hg
    simp only [methodGood, Bool.and_eq_true, Bool.not_eq_true'] at hg'
    have ha := all_isAscii_of_isAlpha mb hg'.2
    simp [hg, hg'.1, hg'.2, asciiStr, ha]
  · have hb : (mb.isEmpty || !mb.all isAlpha) = true := by
      simp only [methodGood] at hg
      cases h1 : mb.isEmpty <;> cases h2 : mb.all isAlpha <;> simp_all
    simp [hg, hb]

theorem sp_decomp (buf : Bytes) : SP ∉ buf ∨ ∃ mb rest, buf = mb ++ SP :: rest ∧ SP ∉ mb := by
  by_cases h : SP ∈ buf
  · obtain ⟨a, b, hab, ha⟩ := List.eq_append_cons_of_mem h
    exact Or.inr ⟨a, b, hab, ha⟩
  · exact Or.inl h

theorem methodGood_iff (mb : Bytes) :
    methodGood mb = true ↔ mb ≠ [] ∧ ∀ b ∈ mb, isAlpha b = true := by
  simp [methodGood]

-- ---------------------------------------------------------------- parse_method
theorem parseMethod_safe (buf : Bytes) : (parseMethod buf).Safe := by
  rcases sp_decomp buf with h | ⟨mb, rest, rfl, h⟩
  · rw [parseMethod_noSP buf h]; exact safe_err _
  · rw [parseMethod_SP mb rest h]
    split
    · exact safe_ok _
    · exact safe_err _

theorem parseMethod_ok_iff (buf : Bytes) (m : Method) (rest : Bytes) :
    parseMethod buf = .ok (m, rest) ↔
      ∃ mb, buf = mb ++ SP :: rest ∧ SP ∉ mb ∧ mb ≠ [] ∧ (∀ b ∈ mb, isAlpha b = true) ∧ m = Spec.methodOf mb := by
  constructor
  · intro hp
    rcases sp_decomp buf with h | ⟨mb, rest', rfl, h⟩
    · rw [parseMethod_noSP buf h] at hp; cases hp
    · rw [parseMethod_SP mb rest' h] at hp
      split at hp
      · rename_i hg
        injection hp with hp
        injection hp with h1 h2
        subst h1 h2
        have := (methodGood_iff mb).1 hg
        exact ⟨mb, rfl, h, this.1, this.2, rfl⟩
      · cases hp
  · rintro ⟨mb, rfl, h, hne, hal, rfl⟩
    rw [parseMethod_SP mb rest h, if_pos ((methodGood_iff mb).2 ⟨hne, hal⟩)]

theorem parseMethod_reject_stable (buf : Bytes) (e : PErr) (h : parseMethod buf = .err e) (he : e ≠ .eof)
    (ext : Bytes) : ∃ e', parseMethod (buf ++ ext) = .err e' ∧ e' ≠ .eof := by
  rcases sp_decomp buf with hn | ⟨mb, rest, rfl, hn⟩
  · rw [parseMethod_noSP buf hn] at h; injection h with h; exact absurd h.symm he
  · rw [parseMethod_SP mb rest hn] at h
    split at h
    · cases h
    · rename_i hg
      refine ⟨.status, ?_, by decide⟩
      have : mb ++ SP :: rest ++ ext = mb ++ SP :: (rest ++ ext) := by simp
      rw [this, parseMethod_SP mb _ hn, if_neg hg]

-- ---------------------------------------------------------------- parse_version
theorem HTTP1_length : HTTP1.length = 7 := by rw [HTTP1_eq]; rfl

theorem parseVersion_pre (r : Bytes) :
    parseVersion (HTTP1 ++ r) =
      match r with
      | [] => .err .eof
      | minor :: rest =>
        if minor == 0x31 then .ok (1, rest) else if minor == 0x30 then .ok (0, rest) else .err .ver := by
  have hs : startsWith (HTTP1 ++ r) HTTP1 = true := (startsWith_iff _ _).2 ⟨r, rfl⟩
  have hd : (HTTP1 ++ r).drop 7 = r := by
    rw [← HTTP1_length]; simp
  unfold parseVersion
  rw [if_pos hs, hd]
  cases r <;> rfl

theorem take_min_length (l : Bytes) (n : Nat) : l.take (min l.length n) = l.take n := by
  by_cases h : l.length ≤ n
  · rw [Nat.min_eq_left h, List.take_of_length_le h, List.take_of_length_le (Nat.le_refl _)]
  · rw [Nat.min_eq_right (by omega)]

theorem parseVersion_safe (buf : Bytes) : (parseVersion buf).Safe := by
  unfold parseVersion
  split
  · split
    · exact safe_err _
    · split
      · exact safe_ok _
      · split
        · exact safe_ok _
        · exact safe_err _
  · split <;> exact safe_err _

theorem parseVersion_ok_iff (buf : Bytes) (v : UInt8) (rest : Bytes) :
    parseVersion buf = .ok (v, rest) ↔
      (buf = HTTP1 ++ (0x30 : UInt8) :: rest ∧ v = 0) ∨ (buf = HTTP1 ++ (0x31 : UInt8) :: rest ∧ v = 1) := by
  constructor
  · intro h
    by_cases hs : startsWith buf HTTP1 = true
    · obtain ⟨r, rfl⟩ := (startsWith_iff _ _).1 hs
      rw [parseVersion_pre] at h
      cases r with
      | nil => cases h
      | cons minor r' =>
        simp only at h
        split at h
        · rename_i hm
          injection h with h; injection h with h1 h2
          subst h1 h2
          exact Or.inr ⟨by rw [beq_iff_eq.1 hm], rfl⟩
        · split at h
          · rename_i hm
            injection h with h; injection h with h1 h2
            subst h1 h2
            exact Or.inl ⟨by rw [beq_iff_eq.1 hm], rfl⟩
          · cases h
    · unfold parseVersion at h
      rw [if_neg hs] at h
      split at h <;> cases h
  · rintro (⟨rfl, rfl⟩ | ⟨rfl, rfl⟩)
    · rw [parseVersion_pre]; rfl
    · rw [parseVersion_pre]; rfl

theorem parseVersion_reject_stable (buf : Bytes) (e : PErr) (h : parseVersion buf = .err e) (he : e ≠ .eof)
    (ext : Bytes) : ∃ e', parseVersion (buf ++ ext) = .err e' ∧ e' ≠ .eof := by
  by_cases hs : startsWith buf HTTP1 = true
  · obtain ⟨r, rfl⟩ := (startsWith_iff _ _).1 hs
    rw [parseVersion_pre] at h
    rw [List.append_assoc, parseVersion_pre]
    cases r with
    | nil => injection h with h; exact absurd h.symm he
    | cons minor r' =>
      simp only at h
      simp only [List.cons_append]
      split at h
      · cases h
      · split at h
        · cases h
        · rename_i h1 h0
          refine ⟨.ver, ?_, by decide⟩
          rw [if_neg h1, if_neg h0]
  · unfold parseVersion at h
    rw [if_neg hs] at h
    split at h
    · injection h with h; exact absurd h.symm he
    · rename_i hp
      have hp' : ¬ (buf.take 7 <+: HTTP1) := by
        intro hx; apply hp
        rw [startsWith, List.isPrefixOf_iff_prefix]
        rw [take_min_length]; exact hx
      have hpre : buf.take 7 <+: (buf ++ ext).take 7 := by
        rw [List.take_append]; exact List.prefix_append _ _
      refine ⟨.ver, ?_, by decide⟩
      unfold parseVersion
      have hs2 : ¬ startsWith (buf ++ ext) HTTP1 = true := by
        intro hx
        obtain ⟨r, hr⟩ := (startsWith_iff _ _).1 hx
        apply hp'
        have : (buf ++ ext).take 7 = HTTP1 := by
          rw [hr, ← HTTP1_length]; simp
        rw [this] at hpre; exact hpre
      rw [if_neg hs2]
      have hs3 : ¬ startsWith HTTP1 ((buf ++ ext).take (min (buf ++ ext).length 7)) = true := by
        intro hx
        rw [startsWith, List.isPrefixOf_iff_prefix] at hx
        rw [take_min_length] at hx
        exact hp' (List.IsPrefix.trans hpre hx)
      rw [if_neg hs3]

-- ---------------------------------------------------------------- response status line
theorem isAscii_of_isReasonByte (b : UInt8) (h : isReasonByte b = true) : isAscii b = true := by
  simp only [isReasonByte, isAscii, Bool.or_eq_true, Bool.and_eq_true, decide_eq_true_eq, beq_iff_eq,
    UInt8.le_iff_toNat_le, UInt8.lt_iff_toNat_lt, HT, SP] at *
  have e1 : (0x7e : UInt8).toNat = 0x7e := by decide
  have e3 : (0x80 : UInt8).toNat = 0x80 := by decide
  rcases h with (h | h) | h
  · subst h; decide
  · subst h; decide
  · omega

theorem CR_not_reason : isReasonByte CR = false := by decide

/-- list-recursive form of `reasonLoop`: `pre` is the part already scanned -/
def reasonSpec : Bytes → Bytes → Res (Bytes × Bytes)
  | _, [] => .err .eof
  | pre, c :: t =>
    match t with
    | [] => .err .eof
    | d :: s =>
      if c == CR && d == LF then .ok (pre, s)
      else if !isReasonByte c then .err .status
      else reasonSpec (pre ++ [c]) t

theorem reasonLoop_eq_spec : ∀ (fuel : Nat) (pre suf : Bytes), (∀ b ∈ pre, isReasonByte b = true) →
    suf.length + 1 ≤ fuel → reasonLoop (pre ++ suf) fuel pre.length = reasonSpec pre suf := by
  intro fuel
  induction fuel with
  | zero => intro pre suf _ hf; omega
  | succ f ih =>
    intro pre suf hpre hf
    unfold reasonLoop
    cases suf with
    | nil => rw [if_neg (by simp)]; rfl
    | cons c t =>
      cases t with
      | nil => rw [if_neg (by simp)]; rfl
      | cons d s =>
        have hlen : pre.length + 1 < (pre ++ c :: d :: s).length := by simp
        rw [if_pos hlen]
        have h1 : (pre ++ c :: d :: s)[pre.length]? = some c := by simp
        have h2 : (pre ++ c :: d :: s)[pre.length + 1]? = some d := by
          rw [List.getElem?_append_right (by omega)]; simp
        simp only [idx, h1, h2]
        unfold reasonSpec
        simp only
        by_cases hcl : (c == CR && d == LF) = true
        · rw [if_pos hcl, if_pos hcl]
          have ha : ∀ b ∈ pre, isAscii b = true :=
            fun b hb => isAscii_of_isReasonByte b (hpre b hb)
          have hd : List.drop (pre.length + 2) (pre ++ c :: d :: s) = s := by
            rw [List.drop_append]; simp
          have hle : pre.length + 2 ≤ (pre ++ c :: d :: s).length := by simp
          simp only [sliceTo, sliceFrom, asciiStr, List.all_eq_true]
          rw [if_pos (by simp), if_pos hle, hd]
          simp only [List.take_left', Res.bind_ok]
          rw [if_pos ha]; rfl
        · rw [if_neg hcl, if_neg hcl]
          by_cases hr : (!isReasonByte c) = true
          · rw [if_pos hr, if_pos hr]
          · rw [if_neg hr, if_neg hr]
            have := ih (pre ++ [c]) (d :: s) (by
              intro b hb
              rcases List.mem_append.1 hb with hb | hb
              · exact hpre b hb
              · simp at hb; subst hb; simpa using hr) (by simp at hf ⊢; omega)
            simpa using this

theorem reasonSpec_cons2 (pre : Bytes) (c d : UInt8) (s : Bytes) :
    reasonSpec pre (c :: d :: s) =
      if c == CR && d == LF then .ok (pre, s)
      else if !isReasonByte c then .err .status
      else reasonSpec (pre ++ [c]) (d :: s) := by
  rw [reasonSpec]

theorem reasonSpec_safe : ∀ (suf pre : Bytes), (reasonSpec pre suf).Safe := by
  intro suf
  induction suf with
  | nil => intro pre; exact safe_err _
  | cons c t ih =>
    intro pre
    cases t with
    | nil => exact safe_err _
    | cons d s =>
      rw [reasonSpec_cons2]
      split
      · exact safe_ok _
      · split
        · exact safe_err _
        · exact ih _

theorem reasonSpec_sound : ∀ (suf pre r rest : Bytes), (∀ b ∈ pre, isReasonByte b = true) →
    reasonSpec pre suf = .ok (r, rest) →
    pre ++ suf = r ++ [CR, LF] ++ rest ∧ ∀ b ∈ r, isReasonByte b = true := by
  intro suf
  induction suf with
  | nil => intro pre r rest _ h; cases h
  | cons c t ih =>
    intro pre r rest hpre h
    cases t with
    | nil => cases h
    | cons d s =>
      rw [reasonSpec_cons2] at h
      split at h
      · rename_i hcl
        injection h with h; injection h with h1 h2
        subst h1 h2
        simp only [Bool.and_eq_true, beq_iff_eq] at hcl
        obtain ⟨rfl, rfl⟩ := hcl
        exact ⟨by simp, hpre⟩
      · split at h
        · cases h
        · rename_i hr
          have hr' : isReasonByte c = true := by simpa using hr
          have := ih (pre ++ [c]) r rest (by
            intro b hb
            rcases List.mem_append.1 hb with hb | hb
            · exact hpre b hb
            · simp at hb; subst hb; exact hr') h
          refine ⟨?_, this.2⟩
          rw [← this.1]; simp

theorem reasonSpec_accept_stable : ∀ (suf pre r rest ext : Bytes),
    reasonSpec pre suf = .ok (r, rest) → reasonSpec pre (suf ++ ext) = .ok (r, rest ++ ext) := by
  intro suf
  induction suf with
  | nil => intro pre r rest ext h; cases h
  | cons c t ih =>
    intro pre r rest ext h
    cases t with
    | nil => cases h
    | cons d s =>
      rw [reasonSpec_cons2] at h
      simp only [List.cons_append]
      rw [reasonSpec_cons2]
      split at h
      · rename_i hcl
        injection h with h; injection h with h1 h2
        subst h1 h2
        rw [if_pos hcl]
      · rename_i hcl
        rw [if_neg hcl]
        split at h
        · cases h
        · rename_i hr
          rw [if_neg hr]
          exact ih _ _ _ _ h

theorem reasonSpec_reject_stable : ∀ (suf pre : Bytes) (e : PErr) (ext : Bytes),
    reasonSpec pre suf = .err e → e ≠ .eof → reasonSpec pre (suf ++ ext) = .err e := by
  intro suf
  induction suf with
  | nil => intro pre e ext h he; injection h with h; exact absurd h.symm he
  | cons c t ih =>
    intro pre e ext h he
    cases t with
    | nil => injection h with h; exact absurd h.symm he
    | cons d s =>
      rw [reasonSpec_cons2] at h
      simp only [List.cons_append]
      rw [reasonSpec_cons2]
      split at h
      · cases h
      · rename_i hcl
        rw [if_neg hcl]
        split at h
        · rename_i hr
          rw [if_pos hr]; exact h
        · rename_i hr
          rw [if_neg hr]
          exact ih _ _ _ h he

/-- what `parseResponseStatus` does after the three digits -/
def statusTail (code : Nat) : Bytes → Res (Nat × Bytes × Bytes)
  | [] => .err .eof
  | sp :: tail =>
    if sp != SP then .err .status
    else match reasonSpec [] tail with
      | .ok (reason, rest) => .ok (code, reason, rest)
      | .err e => .err e
      | .panic s => .panic s
      | .ub s => .ub s

theorem parseStatusCode_cases (buf : Bytes) :
    (∃ e, parseStatusCode buf = .err e ∧ (e ≠ .eof → ∀ ext, parseStatusCode (buf ++ ext) = .err e)) ∨
    (∃ d1 d2 d3 r, buf = d1 :: d2 :: d3 :: r ∧ isDigit d1 = true ∧ isDigit d2 = true ∧ isDigit d3 = true ∧
      ∀ r', parseStatusCode (d1 :: d2 :: d3 :: r') =
        .ok ((d1.toNat - 48) * 100 + (d2.toNat - 48) * 10 + (d3.toNat - 48))) := by
  rcases buf with _ | ⟨h, _ | ⟨t, _ | ⟨o, r⟩⟩⟩
  · left; exact ⟨.eof, rfl, fun h => absurd rfl h⟩
  · by_cases h1 : isDigit h = true
    · left; refine ⟨.eof, by simp [parseStatusCode, h1], fun h => absurd rfl h⟩
    · left; refine ⟨.status, by simp [parseStatusCode, h1], fun _ ext => by simp [parseStatusCode, h1]⟩
  · by_cases h1 : isDigit h = true
    · by_cases h2 : isDigit t = true
      · left; refine ⟨.eof, by simp [parseStatusCode, h1, h2], fun h => absurd rfl h⟩
      · left; refine ⟨.status, by simp [parseStatusCode, h1, h2], fun _ ext => by simp [parseStatusCode, h1, h2]⟩
    · left; refine ⟨.status, by simp [parseStatusCode, h1], fun _ ext => by simp [parseStatusCode, h1]⟩
  · by_cases h1 : isDigit h = true
    · by_cases h2 : isDigit t = true
      · by_cases h3 : isDigit o = true
        · right; exact ⟨h, t, o, r, rfl, h1, h2, h3, fun r' => by simp [parseStatusCode, h1, h2, h3]⟩
        · left; refine ⟨.status, by simp [parseStatusCode, h1, h2, h3], fun _ ext => by simp [parseStatusCode, h1, h2, h3]⟩
      · left; refine ⟨.status, by simp [parseStatusCode, h1, h2], fun _ ext => by simp [parseStatusCode, h1, h2]⟩
    · left; refine ⟨.status, by simp [parseStatusCode, h1], fun _ ext => by simp [parseStatusCode, h1]⟩

theorem parseResponseStatus_of_err (buf : Bytes) (e : PErr) (h : parseStatusCode buf = .err e) :
    parseResponseStatus buf = .err e := by
  unfold parseResponseStatus; rw [h]; rfl

theorem parseResponseStatus_of_ok (d1 d2 d3 : UInt8) (r : Bytes) (code : Nat)
    (h : parseStatusCode (d1 :: d2 :: d3 :: r) = .ok code) :
    parseResponseStatus (d1 :: d2 :: d3 :: r) = statusTail code r := by
  unfold parseResponseStatus; rw [h]
  cases r with
  | nil => rfl
  | cons sp tail =>
    simp only [Res.bind_ok, statusTail]
    have : (d1 :: d2 :: d3 :: sp :: tail)[3]? = some sp := rfl
    rw [this]
    simp only
    split
    · rfl
    · have hl := reasonLoop_eq_spec (tail.length + 1) [] tail (by simp) (by omega)
      simp only [List.nil_append, List.length_nil] at hl
      simp only [sliceFrom]
      rw [if_pos (by simp)]
      simp only [Res.bind_ok, List.drop_succ_cons, List.drop_zero]
      rw [hl]
      cases reasonSpec [] tail <;> rfl

theorem statusTail_safe (code : Nat) (r : Bytes) : (statusTail code r).Safe := by
  cases r with
  | nil => exact safe_err _
  | cons sp tail =>
    simp only [statusTail]
    split
    · exact safe_err _
    · have hs := reasonSpec_safe tail []
      cases hr : reasonSpec [] tail with
      | ok x => exact safe_ok _
      | err e => exact safe_err _
      | panic s => rw [hr] at hs; exact absurd hs.1 (by simp [Res.isPanic])
      | ub s => rw [hr] at hs; exact absurd hs.2 (by simp [Res.isUb])

theorem statusTail_ok (code : Nat) (r : Bytes) (c : Nat) (reason rest : Bytes)
    (h : statusTail code r = .ok (c, reason, rest)) :
    c = code ∧ ∃ tail, r = SP :: tail ∧ reasonSpec [] tail = .ok (reason, rest) := by
  cases r with
  | nil => cases h
  | cons sp tail =>
    simp only [statusTail] at h
    split at h
    · cases h
    · rename_i hsp
      have hsp' : sp = SP := by simpa using hsp
      subst hsp'
      cases hr : reasonSpec [] tail with
      | ok x =>
        rw [hr] at h
        obtain ⟨a, b⟩ := x
        simp only at h
        injection h with h; injection h with h1 h2; injection h2 with h2 h3
        subst h1 h2 h3
        exact ⟨rfl, tail, rfl, hr⟩
      | err e => rw [hr] at h; cases h
      | panic s => rw [hr] at h; cases h
      | ub s => rw [hr] at h; cases h

theorem statusTail_accept_stable (code : Nat) (r : Bytes) (c : Nat) (reason rest ext : Bytes)
    (h : statusTail code r = .ok (c, reason, rest)) :
    statusTail code (r ++ ext) = .ok (c, reason, rest ++ ext) := by
  obtain ⟨rfl, tail, rfl, hr⟩ := statusTail_ok code r c reason rest h
  have := reasonSpec_accept_stable tail [] reason rest ext hr
  simp only [List.cons_append, statusTail]
  rw [if_neg (by simp), this]

theorem statusTail_reject_stable (code : Nat) (r : Bytes) (e : PErr) (ext : Bytes)
    (h : statusTail code r = .err e) (he : e ≠ .eof) :
    statusTail code (r ++ ext) = .err e := by
  cases r with
  | nil => injection h with h; exact absurd h.symm he
  | cons sp tail =>
    simp only [statusTail] at h
    simp only [List.cons_append, statusTail]
    split at h
    · rename_i hsp; rw [if_pos hsp]; exact h
    · rename_i hsp
      rw [if_neg hsp]
      cases hr : reasonSpec [] tail with
      | ok x => rw [hr] at h; cases h
      | err e' =>
        rw [hr] at h
        injection h with h; subst h
        rw [reasonSpec_reject_stable tail [] e' ext hr he]
      | panic s => rw [hr] at h; cases h
      | ub s => rw [hr] at h; cases h

theorem parseResponseStatus_safe (buf : Bytes) : (parseResponseStatus buf).Safe := by
  rcases parseStatusCode_cases buf with ⟨e, he, _⟩ | ⟨d1, d2, d3, r, rfl, _, _, _, hc⟩
  · rw [parseResponseStatus_of_err buf e he]; exact safe_err _
  · rw [parseResponseStatus_of_ok _ _ _ _ _ (hc r)]; exact statusTail_safe _ _

/-- an accepted status line is `3DIGIT SP reason CRLF`, the reason being HTAB / SP / visible ASCII -/
theorem parseResponseStatus_sound (buf : Bytes) (code : Nat) (reason rest : Bytes)
    (h : parseResponseStatus buf = .ok (code, reason, rest)) :
    ∃ d1 d2 d3 : UInt8, isDigit d1 = true ∧ isDigit d2 = true ∧ isDigit d3 = true ∧
      code = (d1.toNat - 48) * 100 + (d2.toNat - 48) * 10 + (d3.toNat - 48) ∧
      buf = [d1, d2, d3, SP] ++ reason ++ [CR, LF] ++ rest ∧
      (∀ b ∈ reason, isReasonByte b = true) := by
  rcases parseStatusCode_cases buf with ⟨e, he, _⟩ | ⟨d1, d2, d3, r, rfl, h1, h2, h3, hc⟩
  · rw [parseResponseStatus_of_err buf e he] at h; cases h
  · rw [parseResponseStatus_of_ok _ _ _ _ _ (hc r)] at h
    obtain ⟨hcode, tail, rfl, hr⟩ := statusTail_ok _ _ _ _ _ h
    obtain ⟨hb, hall⟩ := reasonSpec_sound tail [] reason rest (by simp) hr
    refine ⟨d1, d2, d3, h1, h2, h3, hcode, ?_, hall⟩
    simp only [List.nil_append] at hb
    rw [hb]; simp

theorem parseResponseStatus_accept_stable (buf : Bytes) (code : Nat) (reason rest : Bytes)
    (h : parseResponseStatus buf = .ok (code, reason, rest)) (ext : Bytes) :
    parseResponseStatus (buf ++ ext) = .ok (code, reason, rest ++ ext) := by
  rcases parseStatusCode_cases buf with ⟨e, he, _⟩ | ⟨d1, d2, d3, r, rfl, h1, h2, h3, hc⟩
  · rw [parseResponseStatus_of_err buf e he] at h; cases h
  · rw [parseResponseStatus_of_ok _ _ _ _ _ (hc r)] at h
    simp only [List.cons_append]
    rw [parseResponseStatus_of_ok _ _ _ _ _ (hc (r ++ ext))]
    exact statusTail_accept_stable _ _ _ _ _ _ h

theorem parseResponseStatus_reject_stable (buf : Bytes) (e : PErr) (h : parseResponseStatus buf = .err e)
    (he : e ≠ .eof) (ext : Bytes) : ∃ e', parseResponseStatus (buf ++ ext) = .err e' ∧ e' ≠ .eof := by
  rcases parseStatusCode_cases buf with ⟨e0, he0, hst⟩ | ⟨d1, d2, d3, r, rfl, h1, h2, h3, hc⟩
  · rw [parseResponseStatus_of_err buf e0 he0] at h
    injection h with h; subst h
    exact ⟨e0, parseResponseStatus_of_err _ _ (hst he ext), he⟩
  · rw [parseResponseStatus_of_ok _ _ _ _ _ (hc r)] at h
    refine ⟨e, ?_, he⟩
    simp only [List.cons_append]
    rw [parseResponseStatus_of_ok _ _ _ _ _ (hc (r ++ ext))]
    exact statusTail_reject_stable _ _ _ _ h he

end Khttp
