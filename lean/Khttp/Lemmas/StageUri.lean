/- Stage facts for parse_uri and the RequestUri accessors. -/
import Khttp.Model.Parser
import Khttp.Spec.Head
import Khttp.Lemmas.Swar
import Khttp.Lemmas.UriLoop
import Khttp.Lemmas.UriAcc
import Khttp.Lemmas.UriComplete
namespace Khttp


/-- every accepted input: the target is the visible text before the first SP after it -/
theorem parseUri_shape {buf : Bytes} {u : Uri} {rest : Bytes} (h : parseUri buf = .ok (u, rest)) :
    ∃ j, buf[j]? = some SP ∧ VisUpto buf j ∧ u.full = buf.take j ∧ rest = buf.drop (j + 1) ∧
      u.ps ≤ u.pe ∧ u.pe ≤ j := by
  cases buf with
  | nil => simp [parseUri] at h
  | cons b0 t =>
    by_cases hstar : (b0 == STAR) = true
    · unfold parseUri at h
      simp only [hstar, if_true] at h
      split at h
      · next b1 hb1 =>
        split at h
        · next hsp =>
          simp only [Res.ok.injEq, Prod.mk.injEq] at h
          obtain ⟨rfl, rfl⟩ := h
          have hb0 : b0 = STAR := by simpa using hstar
          have hb1' : b1 = SP := by simpa using hsp
          subst hb0 hb1'
          refine ⟨1, hb1, ?_, ?_, rfl, by simp, by simp⟩
          · exact (VisUpto.zero _).succ (b := STAR) (by simp) (by decide)
          · simp [str_star]
        · cases h
      · cases h
    · have hstar' : (b0 == STAR) = false := by simpa using hstar
      by_cases hsp0 : (b0 == SP) = true
      · have : b0 = SP := by simpa using hsp0
        subst this; rw [parseUri_sp] at h; cases h
      have hsp' : (b0 == SP) = false := by simpa using hsp0
      rw [parseUri_cons b0 t hstar' hsp'] at h
      by_cases ho : (b0 == SLASH) = true
      · simp only [ho, if_true, Res.pure_eq, Res.bind_ok, Bool.not_true, Bool.false_and,
          Bool.false_eq_true, if_false] at h
        rw [tailPath_eq _ _ _ (VisUpto.zero _)] at h
        obtain ⟨j, pe, hj, hv, _, hpe, rfl, rfl⟩ := tailPathS_ok (VisUpto.zero _) h
        exact ⟨j, hj, hv, rfl, rfl, Nat.zero_le _, hpe⟩
      · have ho' : (b0 == SLASH) = false := by simpa using ho
        simp only [ho', Bool.false_eq_true, if_false, Bool.not_false, Bool.true_and] at h
        change aloop (b0 :: t) 0 false >>= _ = _ at h
        rcases aloop_spec (b0 :: t) _ 0 false (Nat.le_refl _) (VisUpto.zero _) with
          he | ⟨i', ps, he, _, hv', hps⟩
        · rw [he] at h; cases h
        · rw [he] at h
          simp only [Res.bind_ok] at h
          split at h
          · rw [tailAuth_eq _ _ hv'] at h
            obtain ⟨j, hj, hv, _, rfl, rfl⟩ := tailAuthS_ok hv' h
            exact ⟨j, hj, hv, rfl, rfl, Nat.le_refl _, Nat.zero_le _⟩
          · rw [tailPath_eq _ _ _ hv'] at h
            obtain ⟨j, pe, hj, hv, hle, hpe, rfl, rfl⟩ := tailPathS_ok hv' h
            refine ⟨j, hj, hv, rfl, rfl, ?_, hpe⟩
            show ps ≤ pe
            rcases hps with rfl | rfl
            · exact Nat.zero_le _
            · exact hle

end Khttp
namespace Khttp

theorem safe_err {α} (e : PErr) : (Res.err e : Res α).Safe := ⟨rfl, rfl⟩
theorem safe_ok {α} (a : α) : (Res.ok a : Res α).Safe := ⟨rfl, rfl⟩

theorem parseUri_safe_aux (buf : Bytes) : (parseUri buf).Safe := by
  cases buf with
  | nil => exact safe_err _
  | cons b0 t =>
    by_cases hstar : (b0 == STAR) = true
    · unfold parseUri
      simp only [hstar, if_true]
      split
      · split
        · exact safe_ok _
        · exact safe_err _
      · exact safe_err _
    · have hstar' : (b0 == STAR) = false := by simpa using hstar
      by_cases hsp0 : (b0 == SP) = true
      · have : b0 = SP := by simpa using hsp0
        subst this; rw [parseUri_sp]; exact safe_err _
      have hsp' : (b0 == SP) = false := by simpa using hsp0
      rw [parseUri_cons b0 t hstar' hsp']
      by_cases ho : (b0 == SLASH) = true
      · simp only [ho, if_true, Res.pure_eq, Res.bind_ok, Bool.not_true, Bool.false_and,
          Bool.false_eq_true, if_false]
        rw [tailPath_eq _ _ _ (VisUpto.zero _)]
        exact tailPathS_safe _ _ _
      · have ho' : (b0 == SLASH) = false := by simpa using ho
        simp only [ho', Bool.false_eq_true, if_false, Bool.not_false, Bool.true_and]
        change (aloop (b0 :: t) 0 false >>= _).Safe
        rcases aloop_spec (b0 :: t) _ 0 false (Nat.le_refl _) (VisUpto.zero _) with
          he | ⟨i', ps, he, _, hv', hps⟩
        · rw [he]; exact safe_err _
        · rw [he]
          simp only [Res.bind_ok]
          split
          · rw [tailAuth_eq _ _ hv']; exact tailAuthS_safe _ _
          · rw [tailPath_eq _ _ _ hv']; exact tailPathS_safe _ _ _

theorem parseUri_stable {buf : Bytes} (ext : Bytes) (h : parseUri buf ≠ .err .eof) :
    parseUri (buf ++ ext) = extR ext (parseUri buf) := by
  cases buf with
  | nil => exact absurd rfl h
  | cons b0 t =>
    by_cases hstar : (b0 == STAR) = true
    · unfold parseUri at h ⊢
      simp only [List.cons_append, hstar, if_true] at h ⊢
      cases t with
      | nil => exact absurd rfl h
      | cons b1 t' =>
        simp only [List.cons_append, List.getElem?_cons_succ, List.getElem?_cons_zero]
        split
        · simp [extR]
        · rfl
    · have hstar' : (b0 == STAR) = false := by simpa using hstar
      by_cases hsp0 : (b0 == SP) = true
      · have : b0 = SP := by simpa using hsp0
        subst this; rw [List.cons_append, parseUri_sp, parseUri_sp]; rfl
      have hsp' : (b0 == SP) = false := by simpa using hsp0
      rw [List.cons_append, parseUri_cons b0 _ hstar' hsp', ← List.cons_append]
      rw [parseUri_cons b0 t hstar' hsp'] at h ⊢
      by_cases ho : (b0 == SLASH) = true
      · simp only [ho, if_true, Res.pure_eq, Res.bind_ok, Bool.not_true, Bool.false_and,
          Bool.false_eq_true, if_false] at h ⊢
        rw [tailPath_eq _ _ _ (VisUpto.zero _)] at h
        rw [tailPath_eq (b0 :: t) _ _ (VisUpto.zero _), tailPath_eq _ _ _ (VisUpto.zero _)]
        exact tailPathS_stable ext h
      · have ho' : (b0 == SLASH) = false := by simpa using ho
        simp only [ho', Bool.false_eq_true, if_false, Bool.not_false, Bool.true_and] at h ⊢
        have hlen : ((b0 :: t) ++ ext).length + 1 = ((b0 :: t) ++ ext).length + 1 := rfl
        change aloop (b0 :: t) 0 false >>= _ ≠ _ at h
        change aloop ((b0 :: t) ++ ext) 0 false >>= _ = extR ext (aloop (b0 :: t) 0 false >>= _)
        rcases aloop_stable (b0 :: t) ext _ 0 false (Nat.le_refl _) (Nat.zero_le _) with
          hs | hs | ⟨m, hm, hsl, hs⟩
        · rw [hs]
          rcases aloop_spec (b0 :: t) _ 0 false (Nat.le_refl _) (VisUpto.zero _) with
            he | ⟨i', ps, he, _, hv', hps⟩
          · rw [he]; rfl
          · rw [he] at h ⊢
            simp only [Res.bind_ok] at h ⊢
            split
            · next hc =>
              simp only [hc, if_true] at h
              rw [tailAuth_eq _ _ hv'] at h
              rw [tailAuth_eq (b0 :: t) _ hv', tailAuth_eq _ _ (hv'.append ext)]
              exact tailAuthS_stable ext h
            · next hc =>
              simp only [hc] at h
              rw [tailPath_eq _ _ _ hv'] at h
              rw [tailPath_eq (b0 :: t) _ _ hv', tailPath_eq _ _ _ (hv'.append ext)]
              exact tailPathS_stable ext h
        · -- the scan ran to the end of `buf`: the verdict on `buf` was eof
          exfalso; apply h
          rw [hs]
          simp only [Res.bind_ok, BEq.rfl, if_true]
          have hv : VisUpto (b0 :: t) (b0 :: t).length := by
            rcases aloop_spec (b0 :: t) _ 0 false (Nat.le_refl _) (VisUpto.zero _) with
              he | ⟨i', ps, he, _, hv', _⟩
            · rw [he] at hs; cases hs
            · rw [he] at hs; cases hs; exact hv'
          rw [tailAuth_eq _ _ hv]
          simp [tailAuthS, scanU]
        · -- the scan stopped at a final '/': the verdict on `buf` was eof
          exfalso; apply h
          rw [hs]
          have hm0 : m ≠ 0 := by
            intro h0; subst h0
            simp at hsl; rw [hsl] at ho'; exact absurd ho' (by decide)
          have hc : (m == 0) = false := by simpa using hm0
          simp only [Res.bind_ok, hc, Bool.false_eq_true, if_false]
          have hv : VisUpto (b0 :: t) m := by
            rcases aloop_spec (b0 :: t) _ 0 false (Nat.le_refl _) (VisUpto.zero _) with
              he | ⟨i', ps, he, _, hv', _⟩
            · rw [he] at hs; cases hs
            · rw [he] at hs; cases hs; exact hv'
          rw [tailPath_eq _ _ _ hv]
          have hd : (b0 :: t).drop m = [SLASH] := by
            obtain ⟨hlt, heq⟩ := List.getElem?_eq_some_iff.mp hsl
            rw [List.drop_eq_getElem_cons hlt, heq, List.drop_eq_nil_of_le (by omega)]
          have hsc : scanP [SLASH] = 1 := by decide
          unfold tailPathS
          simp only [hd, hsc]
          have : (b0 :: t)[m + 1]? = none := by
            rw [List.getElem?_eq_none]; omega
          rw [this]

end Khttp

namespace Khttp

theorem parseUri_safe (buf : Bytes) : (parseUri buf).Safe := parseUri_safe_aux buf

/-- what every accepted target looks like: it is the text up to the SP, visible ASCII only -/
theorem parseUri_sound (buf : Bytes) (u : Uri) (rest : Bytes) (h : parseUri buf = .ok (u, rest)) :
    buf = u.full ++ SP :: rest ∧ u.full ≠ [] ∧ (∀ b ∈ u.full, isVisible b = true) ∧
    u.ps ≤ u.pe ∧ u.pe ≤ u.full.length := by
  obtain ⟨j, hj, hv, hfull, hrest, h1, h2⟩ := parseUri_shape h
  have hlt := getElem?_lt hj
  have hlen : u.full.length = j := by rw [hfull, List.length_take]; omega
  have hbuf : buf = u.full ++ SP :: rest := by
    rw [hfull, hrest]; exact getElem?_split buf j SP hj
  refine ⟨hbuf, ?_, ?_, h1, by omega⟩
  · intro hnil
    rw [hnil, List.nil_append] at hbuf
    rw [hbuf, parseUri_sp] at h; cases h
  · rw [hfull]; exact hv.mem_take

/-- every accessor is panic-free on a parsed target, and returns a substring of the target -/
theorem parseUri_accessors (buf : Bytes) (u : Uri) (rest : Bytes) (h : parseUri buf = .ok (u, rest)) :
    (∃ p, u.path = .ok p ∧ p <:+: u.full) ∧
    (∃ q, u.query = .ok q ∧ ∀ s, q = some s → s <:+: u.full) ∧
    (∃ q, u.scheme = .ok q ∧ ∀ s, q = some s → s <:+: u.full) ∧
    (∃ q, u.authority = .ok q ∧ ∀ s, q = some s → s <:+: u.full) ∧
    (∃ p, u.pathAndQuery = .ok p ∧ p <:+: u.full) := by
  obtain ⟨_, _, _, h1, h2⟩ := parseUri_sound buf u rest h
  exact accessors_of_bounds u h1 h2

theorem parseUri_accept_stable (buf : Bytes) (u : Uri) (rest : Bytes) (h : parseUri buf = .ok (u, rest))
    (ext : Bytes) : parseUri (buf ++ ext) = .ok (u, rest ++ ext) := by
  rw [parseUri_stable ext (by rw [h]; intro hc; cases hc), h]; rfl

theorem parseUri_reject_stable (buf : Bytes) (e : PErr) (h : parseUri buf = .err e) (he : e ≠ .eof)
    (ext : Bytes) : ∃ e', parseUri (buf ++ ext) = .err e' ∧ e' ≠ .eof := by
  refine ⟨e, ?_, he⟩
  rw [parseUri_stable ext (by rw [h]; intro hc; cases hc; exact he rfl), h]; rfl

/-- every RFC-conformant target is accepted and split as the grammar says -/
theorem parseUri_complete (t : Spec.Target) (wf : t.Wf = true) (rest : Bytes) :
    ∃ u, parseUri (t.bytes ++ SP :: rest) = .ok (u, rest) ∧ u.full = t.bytes ∧
      u.path = .ok t.path ∧ u.query = .ok t.query := by
  cases t with
  | origin p q => exact complete_origin p q wf rest
  | absolute s a p q => exact complete_absolute s a p q wf rest
  | authority a => exact complete_authority a wf rest
  | asterisk => exact complete_asterisk rest

end Khttp
