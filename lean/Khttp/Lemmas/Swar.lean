/- Characterisation of the SWAR scanners: the 8-byte block loop + scalar tail compute a `takeWhile`.

   Structure of the proof:
   * `scanTail_eq`, `scanLoop_eq`: list-level induction on the fuel, generic in `(hit, stop)`, assuming
     `BlockOK hit stop` (what one 8-byte block must satisfy).
   * `blockOK_of_lanes`: `BlockOK` follows from the lane-level facts `LanesOK` (prefix-correctness of the
     hit mask: below the first stop byte every lane of the mask is exactly "is a stop byte").
   * `hitUri_lanes`, `hitPath_lanes`: the lane-level facts on eight symbolic `BitVec 8` lanes, from the
     kernel-checked lane arithmetic of `Khttp.Lemmas.SwarKernel` (no borrow enters a lane below the first
     stop byte; 8-bit truth tables by `decide`).  No `bv_decide`.
   * bridges `leWord8`, `hitUri_eq`, `hitPath_eq`, `uriStop_iff`, `pathStop_iff` from the model to the
     closed bit-vector terms. -/
import Khttp.Model.Swar
import Khttp.Lemmas.SwarKernel
namespace Khttp
namespace SwarPf

/-! ### generic list-level part -/

/-- what the list-level proof needs to know about one 8-byte block -/
def BlockOK (hit : BitVec 64 → BitVec 64) (stop : UInt8 → Bool) : Prop :=
  ∀ l : Bytes, l.length = 8 →
    (hit (leWord l) = 0 → (l.takeWhile (fun b => !stop b)).length = 8) ∧
    (hit (leWord l) ≠ 0 →
      offsetnz (hit (leWord l)) = (l.takeWhile (fun b => !stop b)).length ∧
      (l.takeWhile (fun b => !stop b)).length < 8)

theorem scanTail_eq (stop : UInt8 → Bool) (bs : Bytes) :
    ∀ fuel i, i ≤ bs.length → bs.length - i + 1 ≤ fuel →
      scanTail stop bs fuel i = .ok (i + ((bs.drop i).takeWhile (fun b => !stop b)).length) := by
  intro fuel
  induction fuel with
  | zero => intro i _ h; omega
  | succ fuel ih =>
    intro i hi hf
    unfold scanTail
    by_cases hlt : i < bs.length
    · rw [if_pos hlt]
      have hget : bs[i]? = some bs[i] := List.getElem?_eq_getElem hlt
      have hdrop : bs.drop i = bs[i] :: bs.drop (i + 1) := List.drop_eq_getElem_cons hlt
      simp only [idxUnchecked, hget, hdrop, List.takeWhile_cons]
      cases hs : stop bs[i]
      · simp only [Bool.not_false, if_true, Bool.false_eq_true, if_false]
        rw [ih (i + 1) (by omega) (by omega)]
        simp only [List.length_cons]
        congr 1; omega
      · simp
    · rw [if_neg hlt]
      have : i = bs.length := by omega
      subst this
      simp

theorem scanLoop_eq {hit : BitVec 64 → BitVec 64} {stop : UInt8 → Bool} (H : BlockOK hit stop)
    (bs : Bytes) :
    ∀ fuel i, i ≤ bs.length → bs.length - i + 2 ≤ fuel →
      scanLoop hit stop bs fuel i = .ok (i + ((bs.drop i).takeWhile (fun b => !stop b)).length) := by
  intro fuel
  induction fuel with
  | zero => intro i _ h; omega
  | succ fuel ih =>
    intro i hi hf
    unfold scanLoop
    by_cases hb : i + 8 ≤ bs.length
    · rw [if_pos hb]
      simp only [readWord, if_pos hb]
      have hlen : ((bs.drop i).take 8).length = 8 := by
        simp only [List.length_take, List.length_drop]; omega
      have hsplit : bs.drop i = (bs.drop i).take 8 ++ bs.drop (i + 8) := by
        rw [show bs.drop (i + 8) = (bs.drop i).drop 8 by rw [List.drop_drop]]
        exact (List.take_append_drop 8 (bs.drop i)).symm
      obtain ⟨hz, hnz⟩ := H _ hlen
      by_cases h0 : hit (leWord ((bs.drop i).take 8)) = 0
      · have h8 := hz h0
        simp only [h0, ne_eq, not_true_eq_false, if_false]
        rw [ih (i + 8) hb (by omega)]
        conv => rhs; rw [hsplit, List.takeWhile_append, if_pos (by rw [h8, hlen])]
        simp only [List.length_append, hlen]
        congr 1; omega
      · obtain ⟨ho, hl8⟩ := hnz h0
        simp only [ne_eq, h0, not_false_eq_true, if_true]
        conv => rhs; rw [hsplit, List.takeWhile_append, if_neg (by rw [hlen]; omega)]
        rw [ho]
    · rw [if_neg hb]
      exact scanTail_eq stop bs (fuel + 1) i hi (by omega)


/-! ### from lanes to blocks -/

/-- lane-level facts about a hit mask, phrased on bytes -/
def LanesOK (hit : BitVec 64 → BitVec 64) (stop : UInt8 → Bool) : Prop :=
  ∀ a0 a1 a2 a3 a4 a5 a6 a7 : UInt8, ∀ h, h = hit (leWord [a0, a1, a2, a3, a4, a5, a6, a7]) →
    (h = 0 ↔ (stop a0 = false ∧ stop a1 = false ∧ stop a2 = false ∧ stop a3 = false ∧
              stop a4 = false ∧ stop a5 = false ∧ stop a6 = false ∧ stop a7 = false)) ∧
    (lane h 0 ≠ 0 ↔ stop a0 = true) ∧
    (stop a0 = false → (lane h 1 ≠ 0 ↔ stop a1 = true)) ∧
    (stop a0 = false → stop a1 = false → (lane h 2 ≠ 0 ↔ stop a2 = true)) ∧
    (stop a0 = false → stop a1 = false → stop a2 = false → (lane h 3 ≠ 0 ↔ stop a3 = true)) ∧
    (stop a0 = false → stop a1 = false → stop a2 = false → stop a3 = false →
      (lane h 4 ≠ 0 ↔ stop a4 = true)) ∧
    (stop a0 = false → stop a1 = false → stop a2 = false → stop a3 = false → stop a4 = false →
      (lane h 5 ≠ 0 ↔ stop a5 = true)) ∧
    (stop a0 = false → stop a1 = false → stop a2 = false → stop a3 = false → stop a4 = false →
      stop a5 = false → (lane h 6 ≠ 0 ↔ stop a6 = true))

theorem blockOK_of_lanes {hit : BitVec 64 → BitVec 64} {stop : UInt8 → Bool}
    (H : LanesOK hit stop) : BlockOK hit stop := by
  intro l hl
  match l, hl with
  | [a0, a1, a2, a3, a4, a5, a6, a7], _ =>
    obtain ⟨hz, l0, l1, l2, l3, l4, l5, l6⟩ := H a0 a1 a2 a3 a4 a5 a6 a7 _ rfl
    generalize hit (leWord [a0, a1, a2, a3, a4, a5, a6, a7]) = h at *
    constructor
    · intro h0
      obtain ⟨s0, s1, s2, s3, s4, s5, s6, s7⟩ := hz.mp h0
      simp [s0, s1, s2, s3, s4, s5, s6, s7]
    · intro hne
      unfold offsetnz
      rw [if_neg hne]
      cases s0 : stop a0
      case true =>
        rw [if_pos (l0.mpr s0)]
        simp [s0]
      rw [if_neg (fun c => by have := l0.mp c; simp [s0] at this)]
      cases s1 : stop a1
      case true =>
        rw [if_pos ((l1 s0).mpr s1)]
        simp [s0, s1]
      rw [if_neg (fun c => by have := (l1 s0).mp c; simp [s1] at this)]
      cases s2 : stop a2
      case true =>
        rw [if_pos ((l2 s0 s1).mpr s2)]
        simp [s0, s1, s2]
      rw [if_neg (fun c => by have := (l2 s0 s1).mp c; simp [s2] at this)]
      cases s3 : stop a3
      case true =>
        rw [if_pos ((l3 s0 s1 s2).mpr s3)]
        simp [s0, s1, s2, s3]
      rw [if_neg (fun c => by have := (l3 s0 s1 s2).mp c; simp [s3] at this)]
      cases s4 : stop a4
      case true =>
        rw [if_pos ((l4 s0 s1 s2 s3).mpr s4)]
        simp [s0, s1, s2, s3, s4]
      rw [if_neg (fun c => by have := (l4 s0 s1 s2 s3).mp c; simp [s4] at this)]
      cases s5 : stop a5
      case true =>
        rw [if_pos ((l5 s0 s1 s2 s3 s4).mpr s5)]
        simp [s0, s1, s2, s3, s4, s5]
      rw [if_neg (fun c => by have := (l5 s0 s1 s2 s3 s4).mp c; simp [s5] at this)]
      cases s6 : stop a6
      case true =>
        rw [if_pos ((l6 s0 s1 s2 s3 s4 s5).mpr s6)]
        simp [s0, s1, s2, s3, s4, s5, s6]
      rw [if_neg (fun c => by have := (l6 s0 s1 s2 s3 s4 s5).mp c; simp [s6] at this)]
      cases s7 : stop a7
      case false => exact absurd (hz.mpr ⟨s0, s1, s2, s3, s4, s5, s6, s7⟩) hne
      simp [s0, s1, s2, s3, s4, s5, s6, s7]

/-! ### closed bit-vector forms -/

theorem U_BM_eq : U_BM = 0x2121212121212121#64 := by decide
theorem U_DEL_eq : U_DEL = 0x7f7f7f7f7f7f7f7f#64 := by decide
theorem U_ONE_eq : U_ONE = 0x0101010101010101#64 := by decide
theorem U_M128_eq : U_M128 = 0x8080808080808080#64 := by decide
theorem P_BM_eq : P_BM = 0x2121212121212121#64 := by decide
theorem P_DEL_eq : P_DEL = 0x7f7f7f7f7f7f7f7f#64 := by decide
theorem P_ONE_eq : P_ONE = 0x0101010101010101#64 := by decide
theorem P_M128_eq : P_M128 = 0x8080808080808080#64 := by decide
theorem P_QQ_eq : P_QQ = 0x3f3f3f3f3f3f3f3f#64 := by decide

/-- little-endian word of eight lanes, in exactly the shape `leWord` unfolds to -/
def W (b0 b1 b2 b3 b4 b5 b6 b7 : BitVec 8) : BitVec 64 :=
  b0.setWidth 64 ||| (b1.setWidth 64 ||| (b2.setWidth 64 ||| (b3.setWidth 64 ||| (b4.setWidth 64 |||
    (b5.setWidth 64 ||| (b6.setWidth 64 ||| (b7.setWidth 64 ||| (0 : BitVec 64) <<< 8)
      <<< 8) <<< 8) <<< 8) <<< 8) <<< 8) <<< 8) <<< 8

/-- `hitUri` with the constants evaluated -/
def hU (x : BitVec 64) : BitVec 64 :=
  (((x - 0x2121212121212121#64) &&& ~~~x) |||
    (((x ^^^ 0x7f7f7f7f7f7f7f7f#64) - 0x0101010101010101#64) &&& ~~~(x ^^^ 0x7f7f7f7f7f7f7f7f#64)) ||| x)
    &&& 0x8080808080808080#64

/-- `hitPath` with the constants evaluated -/
def hP (x : BitVec 64) : BitVec 64 :=
  ((((x ^^^ 0x3f3f3f3f3f3f3f3f#64) - 0x0101010101010101#64) &&& ~~~(x ^^^ 0x3f3f3f3f3f3f3f3f#64)) &&&
      0x8080808080808080#64) |||
  ((((x - 0x2121212121212121#64) &&& ~~~x) |||
    (((x ^^^ 0x7f7f7f7f7f7f7f7f#64) - 0x0101010101010101#64) &&& ~~~(x ^^^ 0x7f7f7f7f7f7f7f7f#64)) ||| x)
    &&& 0x8080808080808080#64)

/-- `uriStop` on a lane: not in 0x21..=0x7e -/
def StopU (b : BitVec 8) : Prop := b ≤ 32#8 ∨ 127#8 ≤ b
/-- `pathStop` on a lane -/
def StopP (b : BitVec 8) : Prop := b = 63#8 ∨ StopU b

theorem leWord8 (a0 a1 a2 a3 a4 a5 a6 a7 : UInt8) :
    leWord [a0, a1, a2, a3, a4, a5, a6, a7] =
      W a0.toBitVec a1.toBitVec a2.toBitVec a3.toBitVec a4.toBitVec a5.toBitVec a6.toBitVec
        a7.toBitVec := by
  simp only [leWord, W, ← UInt8.toNat_toBitVec, BitVec.ofNat_toNat]

theorem hitUri_eq (x : BitVec 64) : hitUri x = hU x := by
  simp only [hitUri, hU, U_BM_eq, U_DEL_eq, U_ONE_eq, U_M128_eq]

theorem hitPath_eq (x : BitVec 64) : hitPath x = hP x := by
  simp only [hitPath, hP, P_BM_eq, P_DEL_eq, P_ONE_eq, P_M128_eq, P_QQ_eq]

theorem uriStop_iff (a : UInt8) : uriStop a = true ↔ StopU a.toBitVec := by
  simp [uriStop, isVisible, StopU, UInt8.lt_iff_toBitVec_lt, Gen.visLo, Gen.visHi]

theorem uriStop_iff' (a : UInt8) : uriStop a = false ↔ ¬ StopU a.toBitVec := by
  rw [← uriStop_iff]; simp

theorem pathStop_iff (a : UInt8) : pathStop a = true ↔ StopP a.toBitVec := by
  have hq : (a == QMARK) = true ↔ a.toBitVec = 63#8 := by
    rw [beq_iff_eq, ← UInt8.toBitVec_inj]; rfl
  have hu : (!isVisible a) = true ↔ StopU a.toBitVec := uriStop_iff a
  simp only [pathStop, Bool.or_eq_true, hq, hu, StopP]

theorem pathStop_iff' (a : UInt8) : pathStop a = false ↔ ¬ StopP a.toBitVec := by
  rw [← pathStop_iff]; simp

/-! ### the two SWAR lane lemmas -/

theorem lane_W (b0 b1 b2 b3 b4 b5 b6 b7 : BitVec 8) :
    lane (W b0 b1 b2 b3 b4 b5 b6 b7) 0 = b0 ∧ lane (W b0 b1 b2 b3 b4 b5 b6 b7) 1 = b1 ∧
    lane (W b0 b1 b2 b3 b4 b5 b6 b7) 2 = b2 ∧ lane (W b0 b1 b2 b3 b4 b5 b6 b7) 3 = b3 ∧
    lane (W b0 b1 b2 b3 b4 b5 b6 b7) 4 = b4 ∧ lane (W b0 b1 b2 b3 b4 b5 b6 b7) 5 = b5 ∧
    lane (W b0 b1 b2 b3 b4 b5 b6 b7) 6 = b6 ∧ lane (W b0 b1 b2 b3 b4 b5 b6 b7) 7 = b7 := by
  unfold W
  have s := fun (a : BitVec 8) (r : BitVec 64) (k : Nat) (hk : k + 1 < 8) =>
    SwarK.lane_cons_succ a r k hk
  refine ⟨?_, ?_, ?_, ?_, ?_, ?_, ?_, ?_⟩
  · exact SwarK.lane_cons_zero _ _
  · rw [s _ _ 0 (by omega), SwarK.lane_cons_zero]
  · rw [s _ _ 1 (by omega), s _ _ 0 (by omega), SwarK.lane_cons_zero]
  · rw [s _ _ 2 (by omega), s _ _ 1 (by omega), s _ _ 0 (by omega), SwarK.lane_cons_zero]
  · rw [s _ _ 3 (by omega), s _ _ 2 (by omega), s _ _ 1 (by omega), s _ _ 0 (by omega),
      SwarK.lane_cons_zero]
  · rw [s _ _ 4 (by omega), s _ _ 3 (by omega), s _ _ 2 (by omega), s _ _ 1 (by omega),
      s _ _ 0 (by omega), SwarK.lane_cons_zero]
  · rw [s _ _ 5 (by omega), s _ _ 4 (by omega), s _ _ 3 (by omega), s _ _ 2 (by omega),
      s _ _ 1 (by omega), s _ _ 0 (by omega), SwarK.lane_cons_zero]
  · rw [s _ _ 6 (by omega), s _ _ 5 (by omega), s _ _ 4 (by omega), s _ _ 3 (by omega),
      s _ _ 2 (by omega), s _ _ 1 (by omega), s _ _ 0 (by omega), SwarK.lane_cons_zero]

theorem hitUri_lanes (b0 b1 b2 b3 b4 b5 b6 b7 : BitVec 8) :
    (hU (W b0 b1 b2 b3 b4 b5 b6 b7) = 0 ↔
      (¬ StopU b0 ∧ ¬ StopU b1 ∧ ¬ StopU b2 ∧ ¬ StopU b3 ∧ ¬ StopU b4 ∧ ¬ StopU b5 ∧ ¬ StopU b6 ∧ ¬ StopU b7)) ∧
    (((hU (W b0 b1 b2 b3 b4 b5 b6 b7) >>> (8 * 0)).setWidth 8 ≠ 0 ↔ StopU b0)) ∧
    (¬ StopU b0 → ((hU (W b0 b1 b2 b3 b4 b5 b6 b7) >>> (8 * 1)).setWidth 8 ≠ 0 ↔ StopU b1)) ∧
    (¬ StopU b0 → ¬ StopU b1 → ((hU (W b0 b1 b2 b3 b4 b5 b6 b7) >>> (8 * 2)).setWidth 8 ≠ 0 ↔ StopU b2)) ∧
    (¬ StopU b0 → ¬ StopU b1 → ¬ StopU b2 → ((hU (W b0 b1 b2 b3 b4 b5 b6 b7) >>> (8 * 3)).setWidth 8 ≠ 0 ↔ StopU b3)) ∧
    (¬ StopU b0 → ¬ StopU b1 → ¬ StopU b2 → ¬ StopU b3 → ((hU (W b0 b1 b2 b3 b4 b5 b6 b7) >>> (8 * 4)).setWidth 8 ≠ 0 ↔ StopU b4)) ∧
    (¬ StopU b0 → ¬ StopU b1 → ¬ StopU b2 → ¬ StopU b3 → ¬ StopU b4 → ((hU (W b0 b1 b2 b3 b4 b5 b6 b7) >>> (8 * 5)).setWidth 8 ≠ 0 ↔ StopU b5)) ∧
    (¬ StopU b0 → ¬ StopU b1 → ¬ StopU b2 → ¬ StopU b3 → ¬ StopU b4 → ¬ StopU b5 → ((hU (W b0 b1 b2 b3 b4 b5 b6 b7) >>> (8 * 6)).setWidth 8 ≠ 0 ↔ StopU b6)) := by
  obtain ⟨w0, w1, w2, w3, w4, w5, w6, w7⟩ := lane_W b0 b1 b2 b3 b4 b5 b6 b7
  have H := SwarK.assemble (hU (W b0 b1 b2 b3 b4 b5 b6 b7))
    (fun k => StopU (lane (W b0 b1 b2 b3 b4 b5 b6 b7) k))
    (fun k hk h => SwarK.hU'_lane_iff _ k hk h)
  simp only [w0, w1, w2, w3, w4, w5, w6, w7] at H
  exact H

theorem hitPath_lanes (b0 b1 b2 b3 b4 b5 b6 b7 : BitVec 8) :
    (hP (W b0 b1 b2 b3 b4 b5 b6 b7) = 0 ↔
      (¬ StopP b0 ∧ ¬ StopP b1 ∧ ¬ StopP b2 ∧ ¬ StopP b3 ∧ ¬ StopP b4 ∧ ¬ StopP b5 ∧ ¬ StopP b6 ∧ ¬ StopP b7)) ∧
    (((hP (W b0 b1 b2 b3 b4 b5 b6 b7) >>> (8 * 0)).setWidth 8 ≠ 0 ↔ StopP b0)) ∧
    (¬ StopP b0 → ((hP (W b0 b1 b2 b3 b4 b5 b6 b7) >>> (8 * 1)).setWidth 8 ≠ 0 ↔ StopP b1)) ∧
    (¬ StopP b0 → ¬ StopP b1 → ((hP (W b0 b1 b2 b3 b4 b5 b6 b7) >>> (8 * 2)).setWidth 8 ≠ 0 ↔ StopP b2)) ∧
    (¬ StopP b0 → ¬ StopP b1 → ¬ StopP b2 → ((hP (W b0 b1 b2 b3 b4 b5 b6 b7) >>> (8 * 3)).setWidth 8 ≠ 0 ↔ StopP b3)) ∧
    (¬ StopP b0 → ¬ StopP b1 → ¬ StopP b2 → ¬ StopP b3 → ((hP (W b0 b1 b2 b3 b4 b5 b6 b7) >>> (8 * 4)).setWidth 8 ≠ 0 ↔ StopP b4)) ∧
    (¬ StopP b0 → ¬ StopP b1 → ¬ StopP b2 → ¬ StopP b3 → ¬ StopP b4 → ((hP (W b0 b1 b2 b3 b4 b5 b6 b7) >>> (8 * 5)).setWidth 8 ≠ 0 ↔ StopP b5)) ∧
    (¬ StopP b0 → ¬ StopP b1 → ¬ StopP b2 → ¬ StopP b3 → ¬ StopP b4 → ¬ StopP b5 → ((hP (W b0 b1 b2 b3 b4 b5 b6 b7) >>> (8 * 6)).setWidth 8 ≠ 0 ↔ StopP b6)) := by
  obtain ⟨w0, w1, w2, w3, w4, w5, w6, w7⟩ := lane_W b0 b1 b2 b3 b4 b5 b6 b7
  have H := SwarK.assemble (hP (W b0 b1 b2 b3 b4 b5 b6 b7))
    (fun k => StopP (lane (W b0 b1 b2 b3 b4 b5 b6 b7) k))
    (fun k hk h => SwarK.hP'_lane_iff _ k hk h)
  simp only [w0, w1, w2, w3, w4, w5, w6, w7] at H
  exact H

theorem lanesOK_uri : LanesOK hitUri uriStop := by
  intro a0 a1 a2 a3 a4 a5 a6 a7 h hh
  subst hh
  rw [leWord8, hitUri_eq]
  simp only [uriStop_iff, uriStop_iff']
  exact hitUri_lanes _ _ _ _ _ _ _ _

theorem lanesOK_path : LanesOK hitPath pathStop := by
  intro a0 a1 a2 a3 a4 a5 a6 a7 h hh
  subst hh
  rw [leWord8, hitPath_eq]
  simp only [pathStop_iff, pathStop_iff']
  exact hitPath_lanes _ _ _ _ _ _ _ _

end SwarPf
open SwarPf

/-! ### main theorems -/

theorem matchUri_eq (bs : Bytes) :
    matchUri bs = .ok (bs.takeWhile (fun b => !uriStop b)).length := by
  have := scanLoop_eq (blockOK_of_lanes lanesOK_uri) bs (bs.length + 2) 0 (Nat.zero_le _) (by omega)
  simpa [matchUri] using this

theorem matchPath_eq (bs : Bytes) :
    matchPath bs = .ok (bs.takeWhile (fun b => !pathStop b)).length := by
  have := scanLoop_eq (blockOK_of_lanes lanesOK_path) bs (bs.length + 2) 0 (Nat.zero_le _) (by omega)
  simpa [matchPath] using this

end Khttp
