/- Kernel-checked SWAR lane arithmetic (no `bv_decide`).

   The 64-bit subtraction `x - c` is analysed lane by lane: if the low `k` lanes of `c` are (as a number)
   at most the low `k` lanes of `x`, no borrow enters lane `k`, so lane `k` of `x - c` is the 8-bit
   difference of the lanes.  Everything else (`&&&`, `|||`, `^^^`, `~~~`) is lane-wise anyway, so lane `k`
   of the hit mask is an 8-bit function of lane `k` of the input, and the 8-bit facts are checked by
   `decide` over the 256 byte values. -/
import Khttp.Model.Swar
namespace Khttp
namespace SwarK

/-! ### lanes and the bitwise operations -/

theorem lane_toNat (x : BitVec 64) (k : Nat) : (lane x k).toNat = x.toNat / 256 ^ k % 256 := by
  simp only [lane, BitVec.toNat_setWidth, BitVec.toNat_ushiftRight, Nat.shiftRight_eq_div_pow]
  rw [Nat.pow_mul]

theorem lane_and (x y : BitVec 64) (k : Nat) : lane (x &&& y) k = lane x k &&& lane y k := by
  apply BitVec.eq_of_getLsbD_eq; intro i hi
  simp [lane, hi]

theorem lane_or (x y : BitVec 64) (k : Nat) : lane (x ||| y) k = lane x k ||| lane y k := by
  apply BitVec.eq_of_getLsbD_eq; intro i hi
  simp [lane, hi]

theorem lane_xor (x y : BitVec 64) (k : Nat) : lane (x ^^^ y) k = lane x k ^^^ lane y k := by
  apply BitVec.eq_of_getLsbD_eq; intro i hi
  simp [lane, hi]

theorem lane_not (x : BitVec 64) (k : Nat) (hk : k < 8) : lane (~~~x) k = ~~~ lane x k := by
  apply BitVec.eq_of_getLsbD_eq; intro i hi
  have : 8 * k + i < 64 := by omega
  simp [lane, hi, this]

/-! ### subtraction without incoming borrow -/

/-- the low `k` lanes of `c` are numerically at most the low `k` lanes of `x` -/
def LowLE (c x : BitVec 64) (k : Nat) : Prop := c.toNat % 256 ^ k ≤ x.toNat % 256 ^ k

theorem lowLE_of_lanes (c x : BitVec 64) :
    ∀ k, (∀ j, j < k → lane c j ≤ lane x j) → LowLE c x k := by
  intro k
  induction k with
  | zero => intro _; simp [LowLE, Nat.mod_one]
  | succ k ih =>
    intro h
    have h1 : LowLE c x k := ih (fun j hj => h j (by omega))
    have h2 : (lane c k).toNat ≤ (lane x k).toNat := BitVec.le_def.mp (h k (by omega))
    rw [lane_toNat, lane_toNat] at h2
    unfold LowLE at *
    rw [Nat.mod_pow_succ, Nat.mod_pow_succ]
    exact Nat.add_le_add h1 (Nat.mul_le_mul_left _ h2)

theorem lane_sub_nat (x c : Nat) (hx : x < 2 ^ 64) (hc : c < 2 ^ 64) (k : Nat) (hk : k < 8)
    (h : c % 256 ^ k ≤ x % 256 ^ k) :
    (2 ^ 64 - c + x) % 2 ^ 64 / 256 ^ k % 256 =
      (2 ^ 8 - c / 256 ^ k % 256 + x / 256 ^ k % 256) % 2 ^ 8 := by
  have hk' : k = 0 ∨ k = 1 ∨ k = 2 ∨ k = 3 ∨ k = 4 ∨ k = 5 ∨ k = 6 ∨ k = 7 := by omega
  rcases hk' with rfl | rfl | rfl | rfl | rfl | rfl | rfl | rfl <;> omega

theorem lane_sub (x c : BitVec 64) (k : Nat) (hk : k < 8) (h : LowLE c x k) :
    lane (x - c) k = lane x k - lane c k := by
  apply BitVec.eq_of_toNat_eq
  rw [BitVec.toNat_sub, lane_toNat, lane_toNat, lane_toNat, BitVec.toNat_sub]
  exact lane_sub_nat x.toNat c.toNat x.isLt c.isLt k hk h

theorem mod_eq_zero_of_digits (z : Nat) :
    ∀ n, (∀ k, k < n → z / 256 ^ k % 256 = 0) → z % 256 ^ n = 0 := by
  intro n
  induction n with
  | zero => intro _; simp [Nat.mod_one]
  | succ n ih =>
    intro h
    rw [Nat.mod_pow_succ, ih (fun k hk => h k (by omega)), h n (by omega)]
    simp

theorem eq_zero_of_lanes (z : BitVec 64) (h : ∀ k, k < 8 → lane z k = 0) : z = 0 := by
  have e : ∀ k, k < 8 → z.toNat / 256 ^ k % 256 = 0 := by
    intro k hk
    rw [← lane_toNat, h k hk]; rfl
  have h0 := mod_eq_zero_of_digits z.toNat 8 e
  have hz : z.toNat < 256 ^ 8 := z.isLt
  rw [Nat.mod_eq_of_lt hz] at h0
  apply BitVec.eq_of_toNat_eq
  rw [h0]; rfl

/-! ### constants -/

theorem lane_BM : ∀ k, k < 8 → lane 0x2121212121212121#64 k = 0x21#8 := by decide
theorem lane_DEL : ∀ k, k < 8 → lane 0x7f7f7f7f7f7f7f7f#64 k = 0x7f#8 := by decide
theorem lane_ONE : ∀ k, k < 8 → lane 0x0101010101010101#64 k = 0x01#8 := by decide
theorem lane_M128 : ∀ k, k < 8 → lane 0x8080808080808080#64 k = 0x80#8 := by decide
theorem lane_QQ : ∀ k, k < 8 → lane 0x3f3f3f3f3f3f3f3f#64 k = 0x3f#8 := by decide

theorem lane_zero (k : Nat) : lane 0 k = 0 := by
  apply BitVec.eq_of_getLsbD_eq; intro i hi
  simp [lane]

/-! ### lanes of a little-endian word built like `leWord` -/

theorem lane_cons_zero (a : BitVec 8) (r : BitVec 64) : lane (a.setWidth 64 ||| r <<< 8) 0 = a := by
  apply BitVec.eq_of_getLsbD_eq; intro i hi
  simp [lane, hi]

theorem lane_cons_succ (a : BitVec 8) (r : BitVec 64) (k : Nat) (hk : k + 1 < 8) :
    lane (a.setWidth 64 ||| r <<< 8) (k + 1) = lane r k := by
  apply BitVec.eq_of_getLsbD_eq; intro i hi
  have h1 : 8 * (k + 1) + i < 64 := by omega
  have h2 : ¬ 8 * (k + 1) + i < 8 := by omega
  have h3 : 8 * (k + 1) + i - 8 = 8 * k + i := by omega
  have h4 : (a.getLsbD (8 * (k + 1) + i)) = false := by
    apply BitVec.getLsbD_of_ge; omega
  have h5 : 8 * k + i < 64 := by omega
  simp [lane, hi, h1, h2, h3, h4, BitVec.getLsbD_eq_getElem h5]

/-! ### the 8-bit hit functions and their truth tables (256 cases each) -/

/-- one lane of the uri hit mask, no incoming borrow -/
def fU (b : BitVec 8) : BitVec 8 :=
  (((b - 0x21#8) &&& ~~~b) ||| (((b ^^^ 0x7f#8) - 0x01#8) &&& ~~~(b ^^^ 0x7f#8)) ||| b) &&& 0x80#8

/-- one lane of the '?' mask, no incoming borrow -/
def fQ (b : BitVec 8) : BitVec 8 :=
  (((b ^^^ 0x3f#8) - 0x01#8) &&& ~~~(b ^^^ 0x3f#8)) &&& 0x80#8

def SU (b : BitVec 8) : Prop := b ≤ 32#8 ∨ 127#8 ≤ b
def SP (b : BitVec 8) : Prop := b = 63#8 ∨ SU b

instance : DecidablePred SU := fun b => by unfold SU; infer_instance
instance : DecidablePred SP := fun b => by unfold SP; infer_instance

theorem fU_iff : ∀ b : BitVec 8, fU b ≠ 0 ↔ SU b := by decide
theorem fP_iff : ∀ b : BitVec 8, fQ b ||| fU b ≠ 0 ↔ SP b := by decide
theorem SU_noborrow : ∀ b : BitVec 8, ¬ SU b → 0x21#8 ≤ b ∧ 0x01#8 ≤ b ^^^ 0x7f#8 := by decide
theorem SP_noborrow : ∀ b : BitVec 8, ¬ SP b →
    0x21#8 ≤ b ∧ 0x01#8 ≤ b ^^^ 0x7f#8 ∧ 0x01#8 ≤ b ^^^ 0x3f#8 := by decide

/-! ### one lane of the 64-bit hit masks -/

/-- the uri hit mask (same term as `SwarPf.hU`) -/
def hU' (x : BitVec 64) : BitVec 64 :=
  (((x - 0x2121212121212121#64) &&& ~~~x) |||
    (((x ^^^ 0x7f7f7f7f7f7f7f7f#64) - 0x0101010101010101#64) &&& ~~~(x ^^^ 0x7f7f7f7f7f7f7f7f#64)) ||| x)
    &&& 0x8080808080808080#64

/-- the '?' part of the path hit mask -/
def hQ' (x : BitVec 64) : BitVec 64 :=
  (((x ^^^ 0x3f3f3f3f3f3f3f3f#64) - 0x0101010101010101#64) &&& ~~~(x ^^^ 0x3f3f3f3f3f3f3f3f#64)) &&&
      0x8080808080808080#64

theorem lane_hU' (x : BitVec 64) (k : Nat) (hk : k < 8)
    (h1 : LowLE 0x2121212121212121#64 x k)
    (h2 : LowLE 0x0101010101010101#64 (x ^^^ 0x7f7f7f7f7f7f7f7f#64) k) :
    lane (hU' x) k = fU (lane x k) := by
  simp only [hU', fU, lane_and, lane_or, lane_not _ _ hk, lane_sub _ _ _ hk h1, lane_sub _ _ _ hk h2,
    lane_xor, lane_BM k hk, lane_DEL k hk, lane_ONE k hk, lane_M128 k hk]

theorem lane_hQ' (x : BitVec 64) (k : Nat) (hk : k < 8)
    (h3 : LowLE 0x0101010101010101#64 (x ^^^ 0x3f3f3f3f3f3f3f3f#64) k) :
    lane (hQ' x) k = fQ (lane x k) := by
  simp only [hQ', fQ, lane_and, lane_not _ _ hk, lane_sub _ _ _ hk h3,
    lane_xor, lane_QQ k hk, lane_ONE k hk, lane_M128 k hk]

/-- below the first uri-stop lane, lane `k` of the mask is non-zero iff lane `k` of the input is a stop byte -/
theorem hU'_lane_iff (x : BitVec 64) (k : Nat) (hk : k < 8) (h : ∀ j, j < k → ¬ SU (lane x j)) :
    lane (hU' x) k ≠ 0 ↔ SU (lane x k) := by
  have h1 : LowLE 0x2121212121212121#64 x k := by
    apply lowLE_of_lanes; intro j hj
    rw [lane_BM j (by omega)]
    exact (SU_noborrow _ (h j hj)).1
  have h2 : LowLE 0x0101010101010101#64 (x ^^^ 0x7f7f7f7f7f7f7f7f#64) k := by
    apply lowLE_of_lanes; intro j hj
    rw [lane_ONE j (by omega), lane_xor, lane_DEL j (by omega)]
    exact (SU_noborrow _ (h j hj)).2
  rw [lane_hU' x k hk h1 h2]
  exact fU_iff _

theorem hP'_lane_iff (x : BitVec 64) (k : Nat) (hk : k < 8) (h : ∀ j, j < k → ¬ SP (lane x j)) :
    lane (hQ' x ||| hU' x) k ≠ 0 ↔ SP (lane x k) := by
  have h1 : LowLE 0x2121212121212121#64 x k := by
    apply lowLE_of_lanes; intro j hj
    rw [lane_BM j (by omega)]
    exact (SP_noborrow _ (h j hj)).1
  have h2 : LowLE 0x0101010101010101#64 (x ^^^ 0x7f7f7f7f7f7f7f7f#64) k := by
    apply lowLE_of_lanes; intro j hj
    rw [lane_ONE j (by omega), lane_xor, lane_DEL j (by omega)]
    exact (SP_noborrow _ (h j hj)).2.1
  have h3 : LowLE 0x0101010101010101#64 (x ^^^ 0x3f3f3f3f3f3f3f3f#64) k := by
    apply lowLE_of_lanes; intro j hj
    rw [lane_ONE j (by omega), lane_xor, lane_QQ j (by omega)]
    exact (SP_noborrow _ (h j hj)).2.2
  rw [lane_or, lane_hU' x k hk h1 h2, lane_hQ' x k hk h3]
  exact fP_iff _

/-! ### assembling the eight lanes -/

/-- the mask is zero iff no lane is a stop byte (given the prefix-correctness of the lanes) -/
theorem zero_iff (F : BitVec 64) (T : Nat → Prop)
    (H : ∀ k, k < 8 → (∀ j, j < k → ¬ T j) → (lane F k ≠ 0 ↔ T k)) :
    F = 0 ↔ ∀ k, k < 8 → ¬ T k := by
  constructor
  · intro hF k
    induction k using Nat.strongRecOn with
    | _ k ih =>
      intro hk hT
      have := (H k hk (fun j hj => ih j hj (by omega))).mpr hT
      exact this (by rw [hF]; exact lane_zero k)
  · intro h
    apply eq_zero_of_lanes
    intro k hk
    have := (H k hk (fun j hj => h j (by omega)))
    exact Classical.byContradiction (fun c => h k hk (this.mp c))

/-- the exact shape of the lane statements in `Khttp.Lemmas.Swar` -/
theorem assemble (F : BitVec 64) (T : Nat → Prop)
    (H : ∀ k, k < 8 → (∀ j, j < k → ¬ T j) → (lane F k ≠ 0 ↔ T k)) :
    (F = 0 ↔ (¬ T 0 ∧ ¬ T 1 ∧ ¬ T 2 ∧ ¬ T 3 ∧ ¬ T 4 ∧ ¬ T 5 ∧ ¬ T 6 ∧ ¬ T 7)) ∧
    (lane F 0 ≠ 0 ↔ T 0) ∧
    (¬ T 0 → (lane F 1 ≠ 0 ↔ T 1)) ∧
    (¬ T 0 → ¬ T 1 → (lane F 2 ≠ 0 ↔ T 2)) ∧
    (¬ T 0 → ¬ T 1 → ¬ T 2 → (lane F 3 ≠ 0 ↔ T 3)) ∧
    (¬ T 0 → ¬ T 1 → ¬ T 2 → ¬ T 3 → (lane F 4 ≠ 0 ↔ T 4)) ∧
    (¬ T 0 → ¬ T 1 → ¬ T 2 → ¬ T 3 → ¬ T 4 → (lane F 5 ≠ 0 ↔ T 5)) ∧
    (¬ T 0 → ¬ T 1 → ¬ T 2 → ¬ T 3 → ¬ T 4 → ¬ T 5 → (lane F 6 ≠ 0 ↔ T 6)) := by
  refine ⟨?_, ?_, ?_, ?_, ?_, ?_, ?_, ?_⟩
  · rw [zero_iff F T H]
    constructor
    · intro h
      exact ⟨h 0 (by omega), h 1 (by omega), h 2 (by omega), h 3 (by omega), h 4 (by omega),
        h 5 (by omega), h 6 (by omega), h 7 (by omega)⟩
    · rintro ⟨h0, h1, h2, h3, h4, h5, h6, h7⟩ k hk
      have : k = 0 ∨ k = 1 ∨ k = 2 ∨ k = 3 ∨ k = 4 ∨ k = 5 ∨ k = 6 ∨ k = 7 := by omega
      rcases this with rfl | rfl | rfl | rfl | rfl | rfl | rfl | rfl <;> assumption
  · exact H 0 (by omega) (fun j hj => by omega)
  · intro h0
    refine H 1 (by omega) (fun j hj => ?_)
    have : j = 0 := by omega
    subst this; assumption
  · intro h0 h1
    refine H 2 (by omega) (fun j hj => ?_)
    have : j = 0 ∨ j = 1 := by omega
    rcases this with rfl | rfl <;> assumption
  · intro h0 h1 h2
    refine H 3 (by omega) (fun j hj => ?_)
    have : j = 0 ∨ j = 1 ∨ j = 2 := by omega
    rcases this with rfl | rfl | rfl <;> assumption
  · intro h0 h1 h2 h3
    refine H 4 (by omega) (fun j hj => ?_)
    have : j = 0 ∨ j = 1 ∨ j = 2 ∨ j = 3 := by omega
    rcases this with rfl | rfl | rfl | rfl <;> assumption
  · intro h0 h1 h2 h3 h4
    refine H 5 (by omega) (fun j hj => ?_)
    have : j = 0 ∨ j = 1 ∨ j = 2 ∨ j = 3 ∨ j = 4 := by omega
    rcases this with rfl | rfl | rfl | rfl | rfl <;> assumption
  · intro h0 h1 h2 h3 h4 h5
    refine H 6 (by omega) (fun j hj => ?_)
    have : j = 0 ∨ j = 1 ∨ j = 2 ∨ j = 3 ∨ j = 4 ∨ j = 5 := by omega
    rcases this with rfl | rfl | rfl | rfl | rfl | rfl <;> assumption

end SwarK
end Khttp
