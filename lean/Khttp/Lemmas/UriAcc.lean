/- The `Uri` accessors are panic-free and return substrings whenever `ps ≤ pe ≤ full.length`. -/
import Khttp.Lemmas.UriAux
namespace Khttp

theorem findSub_go_some (pat : Bytes) : ∀ (fuel : Nat) (s : Bytes) (i r : Nat),
    findSub.go pat fuel s i = some r → ∃ d, r = i + d ∧ d + pat.length ≤ s.length := by
  intro fuel
  induction fuel with
  | zero => intro s i r h; simp [findSub.go] at h
  | succ fuel ih =>
    intro s i r h
    unfold findSub.go at h
    split at h
    · next hp =>
      simp only [Option.some.injEq] at h
      exact ⟨0, by omega, by
        have := (List.isPrefixOf_iff_prefix.mp hp).length_le; omega⟩
    · cases s with
      | nil => simp at h
      | cons a t =>
        simp only [] at h
        obtain ⟨d, hd, hl⟩ := ih t (i + 1) r h
        exact ⟨d + 1, by omega, by simp only [List.length_cons]; omega⟩

theorem findSub_some {pat s : Bytes} {i : Nat} (h : findSub pat s = some i) :
    i + pat.length ≤ s.length := by
  obtain ⟨d, hd, hl⟩ := findSub_go_some pat _ s 0 i h
  omega

theorem findByte_some {p : UInt8 → Bool} {s : Bytes} {i : Nat} (h : findByte p s = some i) :
    i < s.length := by
  unfold findByte at h
  simp only [] at h
  split at h
  · simp only [Option.some.injEq] at h; omega
  · cases h

theorem take_infix {α} (n : Nat) (l : List α) : l.take n <:+: l := (List.take_prefix n l).isInfix
theorem drop_infix {α} (n : Nat) (l : List α) : l.drop n <:+: l := (List.drop_suffix n l).isInfix
theorem drop_take_infix {α} (a n : Nat) (l : List α) : (l.drop a).take n <:+: l :=
  (take_infix n _).trans (drop_infix a l)

theorem sep_length : SCHEME_SEP.length = 3 := by decide +kernel

theorem accessors_of_bounds (u : Uri) (h1 : u.ps ≤ u.pe) (h2 : u.pe ≤ u.full.length) :
    (∃ p, u.path = .ok p ∧ p <:+: u.full) ∧
    (∃ q, u.query = .ok q ∧ ∀ s, q = some s → s <:+: u.full) ∧
    (∃ q, u.scheme = .ok q ∧ ∀ s, q = some s → s <:+: u.full) ∧
    (∃ q, u.authority = .ok q ∧ ∀ s, q = some s → s <:+: u.full) ∧
    (∃ p, u.pathAndQuery = .ok p ∧ p <:+: u.full) := by
  have hps : u.ps ≤ u.full.length := Nat.le_trans h1 h2
  refine ⟨?_, ?_, ?_, ?_, ?_⟩
  · -- path
    refine ⟨_, ?_, drop_take_infix u.ps (u.pe - u.ps) u.full⟩
    simp only [Uri.path, slice, h1, h2, and_self, if_true]
  · -- query
    unfold Uri.query
    simp only [sliceFrom, h2, if_true, Res.bind_ok]
    split
    · next qi hq =>
      have := findByte_some hq
      have hle : qi + 1 ≤ (u.full.drop u.pe).length := by omega
      simp only [hle, if_true, Res.bind_ok]
      refine ⟨_, rfl, ?_⟩
      intro s hs
      simp only [Option.some.injEq] at hs
      subst hs
      exact (drop_infix _ _).trans (drop_infix _ _)
    · exact ⟨none, rfl, by intro s hs; cases hs⟩
  · -- scheme
    unfold Uri.scheme
    split
    · next i hi =>
      have := findSub_some hi
      have hle : i ≤ u.full.length := by omega
      simp only [sliceTo, hle, if_true, Res.bind_ok]
      refine ⟨_, rfl, ?_⟩
      intro s hs
      simp only [Option.some.injEq] at hs
      subst hs
      exact take_infix _ _
    · exact ⟨none, rfl, by intro s hs; cases hs⟩
  · -- authority
    unfold Uri.authority
    split
    · exact ⟨none, rfl, by intro s hs; cases hs⟩
    · split
      · next si hsi =>
        have := findSub_some hsi
        rw [sep_length] at this
        simp only []
        split
        · simp only [sliceFrom, this, if_true, Res.bind_ok]
          split
          · next i hi =>
            have := findByte_some hi
            have hle : i ≤ (u.full.drop (si + 3)).length := by omega
            simp only [sliceTo, hle, if_true, Res.bind_ok]
            refine ⟨_, rfl, ?_⟩
            intro s hs
            simp only [Option.some.injEq] at hs
            subst hs
            exact (take_infix _ _).trans (drop_infix _ _)
          · refine ⟨_, rfl, ?_⟩
            intro s hs
            simp only [Option.some.injEq] at hs
            subst hs
            exact drop_infix _ _
        · split
          · next hle =>
            simp only [slice, hle, hps, and_self, if_true, Res.bind_ok]
            refine ⟨_, rfl, ?_⟩
            intro s hs
            simp only [Option.some.injEq] at hs
            subst hs
            exact drop_take_infix _ _ _
          · simp only [sliceTo, hps, if_true, Res.bind_ok]
            refine ⟨_, rfl, ?_⟩
            intro s hs
            simp only [Option.some.injEq] at hs
            subst hs
            exact take_infix _ _
      · split
        · next i hi =>
          have := findByte_some hi
          have hle : i ≤ u.full.length := by omega
          simp only [sliceTo, hle, if_true, Res.bind_ok]
          refine ⟨_, rfl, ?_⟩
          intro s hs
          simp only [Option.some.injEq] at hs
          subst hs
          exact take_infix _ _
        · refine ⟨_, rfl, ?_⟩
          intro s hs
          simp only [Option.some.injEq] at hs
          subst hs
          exact List.infix_refl _
  · -- pathAndQuery
    unfold Uri.pathAndQuery
    split
    · simp only [sliceFrom, hps, if_true]
      exact ⟨_, rfl, drop_infix _ _⟩
    · split
      · next si hsi =>
        have := findSub_some hsi
        rw [sep_length] at this
        simp only [sliceFrom, this, if_true, Res.bind_ok]
        split
        · next rq hrq =>
          have := findByte_some hrq
          have hle : si + 3 + rq ≤ u.full.length := by
            simp only [List.length_drop] at this; omega
          simp only [hle, if_true]
          exact ⟨_, rfl, drop_infix _ _⟩
        · exact ⟨_, rfl, List.nil_infix⟩
      · exact ⟨_, rfl, List.nil_infix⟩

end Khttp
