/- Helper lemmas for the `parseUri` stage facts: byte classes, list scanning, visible prefixes. -/
import Khttp.Model.Parser
import Khttp.Spec.Head
import Khttp.Lemmas.Swar
namespace Khttp

/-! ## exhausting bytes -/

theorem forall_uint8 (P : UInt8 → Bool)
    (h : (List.range 256).all (fun n => P (UInt8.ofNat n)) = true) : ∀ b, P b = true := by
  intro b
  rw [List.all_eq_true] at h
  have := h b.toNat (by simp [List.mem_range]; exact b.toNat_lt)
  simpa using this

theorem valid_visible (b : UInt8) (h : isValidUriByte b = true) : isVisible b = true := by
  have := forall_uint8 (fun b => !isValidUriByte b || isVisible b) (by decide +kernel) b
  simp [h] at this; exact this

theorem visible_ascii (b : UInt8) (h : isVisible b = true) : isAscii b = true := by
  have := forall_uint8 (fun b => !isVisible b || isAscii b) (by decide +kernel) b
  simp [h] at this; exact this

theorem uriStop_visible (b : UInt8) (h : (!uriStop b) = true) : isVisible b = true := by
  simpa [uriStop] using h

theorem pathStop_visible (b : UInt8) (h : (!pathStop b) = true) : isVisible b = true := by
  simp [pathStop] at h; exact h.2

theorem str_sep : str "://" = [COLON, SLASH, SLASH] := by decide +kernel
theorem str_star : str "*" = [STAR] := by decide +kernel

/-! ## list helpers -/

theorem getElem?_split {α} (l : List α) (j : Nat) (b : α) (h : l[j]? = some b) :
    l = l.take j ++ b :: l.drop (j + 1) := by
  obtain ⟨hlt, heq⟩ := List.getElem?_eq_some_iff.mp h
  conv => lhs; rw [← List.take_append_drop j l, List.drop_eq_getElem_cons hlt, heq]

theorem takeWhile_getElem? {α} (p : α → Bool) : ∀ (l : List α) (m : Nat),
    m < (l.takeWhile p).length → ∃ b, l[m]? = some b ∧ p b = true
  | [], m, h => by simp at h
  | a :: l, m, h => by
    by_cases hp : p a = true
    · rw [List.takeWhile_cons_of_pos hp] at h
      cases m with
      | zero => exact ⟨a, by simp, hp⟩
      | succ m => simpa using takeWhile_getElem? p l m (by simpa using h)
    · rw [List.takeWhile_cons_of_neg hp] at h; simp at h

theorem takeWhile_stop {α} (p : α → Bool) : ∀ (l : List α) (b : α),
    l[(l.takeWhile p).length]? = some b → p b = false
  | [], b, h => by simp at h
  | a :: l, b, h => by
    by_cases hp : p a = true
    · rw [List.takeWhile_cons_of_pos hp] at h
      exact takeWhile_stop p l b (by simpa using h)
    · rw [List.takeWhile_cons_of_neg hp] at h
      simp at h; subst h; simpa using hp

theorem takeWhile_append_stop {α} (p : α → Bool) : ∀ (l e : List α),
    (l.takeWhile p).length < l.length → (l ++ e).takeWhile p = l.takeWhile p
  | [], e, h => by simp at h
  | a :: l, e, h => by
    by_cases hp : p a = true
    · rw [List.takeWhile_cons_of_pos hp] at h
      rw [List.cons_append, List.takeWhile_cons_of_pos hp, List.takeWhile_cons_of_pos hp,
        takeWhile_append_stop p l e (by simpa using h)]
    · rw [List.cons_append, List.takeWhile_cons_of_neg hp, List.takeWhile_cons_of_neg hp]

theorem takeWhile_all_stop {α} (p : α → Bool) (w : List α) (c : α) (r : List α)
    (hw : ∀ b ∈ w, p b = true) (hc : p c = false) : (w ++ c :: r).takeWhile p = w := by
  rw [List.takeWhile_append_of_pos hw, List.takeWhile_cons_of_neg (by simp [hc])]; simp

/-! ## visible prefixes -/

/-- the first `n` bytes exist and are visible ASCII -/
def VisUpto (buf : Bytes) (n : Nat) : Prop :=
  ∀ k, k < n → ∃ b, buf[k]? = some b ∧ isVisible b = true

theorem VisUpto.zero (buf : Bytes) : VisUpto buf 0 := fun _ h => absurd h (Nat.not_lt_zero _)

theorem VisUpto.le_length {buf : Bytes} {n : Nat} (h : VisUpto buf n) : n ≤ buf.length := by
  apply Nat.le_of_not_lt; intro hlt
  obtain ⟨b, hb, _⟩ := h buf.length hlt
  simp at hb

theorem VisUpto.mem_take {buf : Bytes} {n : Nat} (h : VisUpto buf n) :
    ∀ b ∈ buf.take n, isVisible b = true := by
  intro b hb
  obtain ⟨k, hk, rfl⟩ := List.getElem_of_mem hb
  simp at hk
  obtain ⟨c, hc, hv⟩ := h k (by omega)
  rw [List.getElem_take]
  rw [List.getElem?_eq_getElem (by omega)] at hc
  simp at hc; rw [hc]; exact hv

theorem VisUpto.ascii {buf : Bytes} {n : Nat} (h : VisUpto buf n) :
    (buf.take n).all isAscii = true := by
  rw [List.all_eq_true]; intro b hb; exact visible_ascii b (h.mem_take b hb)

theorem VisUpto.succ {buf : Bytes} {n : Nat} {b : UInt8} (h : VisUpto buf n)
    (hb : buf[n]? = some b) (hv : isVisible b = true) : VisUpto buf (n + 1) := by
  intro k hk
  by_cases hkn : k < n
  · exact h k hkn
  · have : k = n := by omega
    subst this; exact ⟨b, hb, hv⟩

theorem VisUpto.scan {buf : Bytes} {i : Nat} (p : UInt8 → Bool)
    (hp : ∀ b, p b = true → isVisible b = true) (h : VisUpto buf i) :
    VisUpto buf (i + ((buf.drop i).takeWhile p).length) := by
  intro k hk
  by_cases hki : k < i
  · exact h k hki
  · obtain ⟨b, hb, hpb⟩ := takeWhile_getElem? p (buf.drop i) (k - i) (by omega)
    rw [List.getElem?_drop] at hb
    have : i + (k - i) = k := by omega
    rw [this] at hb
    exact ⟨b, hb, hp b hpb⟩

theorem VisUpto.append {buf : Bytes} {n : Nat} (h : VisUpto buf n) (ext : Bytes) :
    VisUpto (buf ++ ext) n := by
  intro k hk
  obtain ⟨b, hb, hv⟩ := h k hk
  have hlt : k < buf.length := by have := h.le_length; omega
  exact ⟨b, by rw [List.getElem?_append_left hlt]; exact hb, hv⟩

end Khttp
