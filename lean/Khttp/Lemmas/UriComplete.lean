/- Completeness of `parseUri` on the RFC grammar (`Spec.Target`), one lemma per target form. -/
import Khttp.Lemmas.UriLoop
namespace Khttp
open Spec


/-! ## byte classes of the grammar vs. the scanners -/

theorem pathByte_ok (b : UInt8) (h : isPathByte b = true) : (!pathStop b) = true := by
  have := forall_uint8 (fun b => !isPathByte b || !pathStop b) (by decide +kernel) b
  simp [h] at this; simp [this]

theorem queryByte_ok (b : UInt8) (h : isQueryByte b = true) : (!uriStop b) = true := by
  have := forall_uint8 (fun b => !isQueryByte b || !uriStop b) (by decide +kernel) b
  simp [h] at this; simp [this]

theorem authByte_ok (b : UInt8) (h : isAuthorityByte b = true) :
    isValidUriByte b = true ∧ b ≠ SLASH ∧ b ≠ SP ∧ b ≠ QMARK := by
  have := forall_uint8
    (fun b => !isAuthorityByte b || (isValidUriByte b && b != SLASH && b != SP && b != QMARK))
    (by decide +kernel) b
  simp [h] at this
  exact ⟨this.1.1.1, this.1.1.2, this.1.2, this.2⟩

theorem schemeByte_ok (b : UInt8) (h : isSchemeByte b = true) :
    isAuthorityByte b = true ∧ b ≠ COLON := by
  have := forall_uint8 (fun b => !isSchemeByte b || (isAuthorityByte b && b != COLON))
    (by decide +kernel) b
  simp [h] at this
  exact this

theorem alpha_scheme (b : UInt8) (h : isAlpha b = true) : isSchemeByte b = true := by
  simp [isSchemeByte, h]

/-! ## indexing into a concatenation -/

theorem getElem?_at {α} (A : List α) (c : α) (B : List α) (n : Nat) (hn : n = A.length) :
    (A ++ c :: B)[n]? = some c := by
  subst hn; simp

theorem take_at {α} (A B : List α) (n : Nat) (hn : n = A.length) : (A ++ B).take n = A := by
  subst hn; simp

theorem drop_at {α} (A B : List α) (n : Nat) (hn : n = A.length) : (A ++ B).drop n = B := by
  subst hn; simp

/-! ## the scan over scheme and authority -/

theorem aloop_walk (buf : Bytes) (seen : Bool) : ∀ (a pre post : Bytes), buf = pre ++ (a ++ post) →
    a.all isAuthorityByte = true →
    (seen = true ∨ (a.getLast? = some COLON → post.take 2 ≠ [SLASH, SLASH])) →
    aloop buf pre.length seen = aloop buf (pre.length + a.length) seen := by
  intro a
  induction a with
  | nil => intro pre post _ _ _; rfl
  | cons x a ih =>
    intro pre post hbuf ha hx
    simp only [List.all_cons, Bool.and_eq_true] at ha
    obtain ⟨hval, hsl, hsp, hq⟩ := authByte_ok x ha.1
    have hb : buf[pre.length]? = some x := by
      rw [hbuf, List.cons_append]; exact getElem?_at _ _ _ _ rfl
    rw [aloop_lt hb]
    have hC : (x == COLON && !seen && decide (pre.length + 2 < buf.length) &&
        (buf.drop pre.length).take 3 == str "://") = false := by
      rcases hx with hseen | hx
      · simp [hseen]
      rw [Bool.and_eq_false_iff]; right
      rw [hbuf, drop_at _ _ _ rfl, str_sep]
      cases a with
      | nil =>
        simp only [List.nil_append, List.cons_append, List.take_succ_cons]
        by_cases hxc : x = COLON
        · subst hxc
          have := hx (by simp)
          simpa using this
        · simp [hxc]
      | cons y a' =>
        simp only [List.all_cons, Bool.and_eq_true] at ha
        have hy := (authByte_ok y ha.2.1).2.1
        simp [hy]
    have e1 : (x == SLASH) = false := by simpa using hsl
    have e2 : (x == SP || x == QMARK) = false := by simp [hsp, hq]
    have e3 : (!isValidUriByte x) = false := by simp [hval]
    simp only [hC, e1, e2, e3, Bool.false_eq_true, if_false]
    have := ih (pre ++ [x]) post (by rw [hbuf]; simp) ha.2 (by
      rcases hx with hseen | hx
      · exact Or.inl hseen
      right
      intro hl; apply hx
      cases a with
      | nil => simp at hl
      | cons y a' => simpa using hl)
    simp only [List.length_append, List.length_cons, List.length_nil] at this
    rw [this]; congr 1; simp only [List.length_cons]; omega

end Khttp
namespace Khttp
open Spec

theorem scanP_compute (p : Bytes) (c : UInt8) (r : Bytes) (hp : p.all isPathByte = true)
    (hc : pathStop c = true) : scanP (p ++ c :: r) = p.length := by
  unfold scanP
  rw [takeWhile_all_stop _ p c r (fun b hb => pathByte_ok b (List.all_eq_true.mp hp b hb))
    (by simp [hc])]

theorem scanU_compute (w : Bytes) (c : UInt8) (r : Bytes) (hw : ∀ b ∈ w, (!uriStop b) = true)
    (hc : uriStop c = true) : scanU (w ++ c :: r) = w.length := by
  unfold scanU
  rw [takeWhile_all_stop _ w c r hw (by simp [hc])]

theorem tailPathS_compute (buf pre p : Bytes) (q : Option Bytes) (rest : Bytes) (ps : Nat)
    (hp : p.all isPathByte = true) (hq : wfQuery q = true)
    (hbuf : buf = pre ++ (p ++ (queryBytes q ++ SP :: rest))) :
    tailPathS buf pre.length ps =
      .ok (⟨pre ++ (p ++ queryBytes q), ps, pre.length + p.length⟩, rest) := by
  unfold tailPathS
  simp only []
  have hd : buf.drop pre.length = p ++ (queryBytes q ++ SP :: rest) := by
    rw [hbuf]; exact drop_at _ _ _ rfl
  cases q with
  | none =>
    simp only [queryBytes, List.nil_append, List.append_nil] at hd hbuf ⊢
    rw [hd, scanP_compute p SP rest hp (by decide)]
    have e1 : buf = (pre ++ p) ++ SP :: rest := by rw [hbuf]; simp
    have hn : pre.length + p.length = (pre ++ p).length := by simp
    rw [show buf[pre.length + p.length]? = some SP from by rw [e1]; exact getElem?_at _ _ _ _ hn]
    have e2 : (SP == QMARK) = false := by decide
    simp only [e2, Bool.false_eq_true, if_false, BEq.rfl, if_true]
    rw [e1, take_at _ _ _ hn]
    rw [show (pre ++ p ++ SP :: rest) = (pre ++ p ++ [SP]) ++ rest from by simp,
      drop_at _ _ _ (by simp; omega)]
  | some qq =>
    simp only [queryBytes, List.cons_append] at hd hbuf ⊢
    simp only [wfQuery] at hq
    rw [hd, scanP_compute p QMARK _ hp (by decide)]
    have e1 : buf = (pre ++ p) ++ QMARK :: (qq ++ SP :: rest) := by rw [hbuf]; simp
    have hn : pre.length + p.length = (pre ++ p).length := by simp
    rw [show buf[pre.length + p.length]? = some QMARK from by
      rw [e1]; exact getElem?_at _ _ _ _ hn]
    simp only [BEq.rfl, if_true]
    have hd2 : buf.drop (pre.length + p.length + 1) = qq ++ SP :: rest := by
      rw [show buf = (pre ++ p ++ [QMARK]) ++ (qq ++ SP :: rest) from by rw [e1]; simp]
      exact drop_at _ _ _ (by simp; omega)
    rw [hd2, scanU_compute qq SP rest
      (fun b hb => queryByte_ok b (List.all_eq_true.mp hq b hb)) (by decide)]
    have e3 : buf = (pre ++ (p ++ QMARK :: qq)) ++ SP :: rest := by rw [hbuf]; simp
    have hn3 : pre.length + p.length + 1 + qq.length = (pre ++ (p ++ QMARK :: qq)).length := by
      simp; omega
    rw [show buf[pre.length + p.length + 1 + qq.length]? = some SP from by
      rw [e3]; exact getElem?_at _ _ _ _ hn3]
    simp only [BEq.rfl, if_true]
    rw [e3, take_at _ _ _ hn3]
    rw [show (pre ++ (p ++ QMARK :: qq) ++ SP :: rest) = (pre ++ (p ++ QMARK :: qq) ++ [SP]) ++ rest
      from by simp, drop_at _ _ _ (by simp; omega)]

theorem tailAuthS_compute (buf pre w rest : Bytes) (hw : ∀ b ∈ w, (!uriStop b) = true)
    (hbuf : buf = pre ++ (w ++ SP :: rest)) :
    tailAuthS buf pre.length = .ok (⟨pre ++ w, 0, 0⟩, rest) := by
  unfold tailAuthS
  simp only []
  have hd : buf.drop pre.length = w ++ SP :: rest := by
    rw [hbuf]; exact drop_at _ _ _ rfl
  rw [hd, scanU_compute w SP rest hw (by decide)]
  have e1 : buf = (pre ++ w) ++ SP :: rest := by rw [hbuf]; simp
  have hn : pre.length + w.length = (pre ++ w).length := by simp
  rw [show buf[pre.length + w.length]? = some SP from by rw [e1]; exact getElem?_at _ _ _ _ hn]
  simp only [BEq.rfl, if_true]
  rw [e1, take_at _ _ _ hn]
  rw [show (pre ++ w ++ SP :: rest) = (pre ++ w ++ [SP]) ++ rest from by simp,
    drop_at _ _ _ (by simp; omega)]

end Khttp
namespace Khttp
open Spec

theorem findIdx_first (p : UInt8 → Bool) : ∀ (A : Bytes) (c : UInt8) (B : Bytes),
    (∀ b ∈ A, p b = false) → p c = true → (A ++ c :: B).findIdx p = A.length
  | [], c, B, _, hc => by simp [List.findIdx_cons, hc]
  | a :: A, c, B, h, hc => by
    have ha : p a = false := h a (by simp)
    simp only [List.cons_append, List.findIdx_cons, ha, cond_false, List.length_cons]
    rw [findIdx_first p A c B (fun b hb => h b (by simp [hb])) hc]

theorem findByte_first (p : UInt8 → Bool) (A : Bytes) (c : UInt8) (B : Bytes)
    (h : ∀ b ∈ A, p b = false) (hc : p c = true) : findByte p (A ++ c :: B) = some A.length := by
  unfold findByte
  simp only [findIdx_first p A c B h hc]
  simp

theorem findByte_none_of (p : UInt8 → Bool) (A : Bytes) (h : ∀ b ∈ A, p b = false) :
    findByte p A = none := by
  unfold findByte
  have : A.findIdx p = A.length := by
    rw [List.findIdx_eq_length]; intro x hx; simp [h x hx]
  simp [this]

theorem path_query_split (pre p : Bytes) (q : Option Bytes) :
    (Uri.path ⟨pre ++ (p ++ queryBytes q), pre.length, pre.length + p.length⟩ = .ok p) ∧
    (Uri.query ⟨pre ++ (p ++ queryBytes q), pre.length, pre.length + p.length⟩ = .ok q) := by
  constructor
  · unfold Uri.path slice
    have h1 : pre.length ≤ pre.length + p.length ∧
        pre.length + p.length ≤ (pre ++ (p ++ queryBytes q)).length := by simp
    simp only [h1, and_self, if_true, Nat.add_sub_cancel_left]
    rw [drop_at _ _ _ rfl, take_at _ _ _ rfl]
  · unfold Uri.query sliceFrom
    have h1 : pre.length + p.length ≤ (pre ++ (p ++ queryBytes q)).length := by simp
    simp only [h1, if_true, Res.bind_ok]
    rw [show pre ++ (p ++ queryBytes q) = (pre ++ p) ++ queryBytes q from by simp,
      drop_at _ _ _ (by simp)]
    cases q with
    | none => simp [queryBytes, findByte]
    | some qq =>
      have := findByte_first (· == QMARK) [] QMARK qq (by simp) (by simp)
      simp only [List.nil_append, List.length_nil] at this
      simp only [queryBytes, this]
      simp

theorem path_query_zero (A : Bytes) (q : Option Bytes) (hA : ∀ b ∈ A, b ≠ QMARK) :
    (Uri.path ⟨A ++ queryBytes q, 0, 0⟩ = .ok []) ∧
    (Uri.query ⟨A ++ queryBytes q, 0, 0⟩ = .ok q) := by
  constructor
  · simp [Uri.path, slice]
  · unfold Uri.query sliceFrom
    simp only [Nat.zero_le, if_true, Res.bind_ok, List.drop_zero]
    cases q with
    | none =>
      simp only [queryBytes, List.append_nil]
      rw [findByte_none_of _ A (fun b hb => by simpa using hA b hb)]
    | some qq =>
      simp only [queryBytes]
      rw [findByte_first _ A QMARK qq (fun b hb => by simpa using hA b hb) (by simp)]
      simp only []
      have : A.length + 1 ≤ (A ++ QMARK :: qq).length := by simp
      simp only [this, if_true, Res.bind_ok]
      rw [show A ++ QMARK :: qq = (A ++ [QMARK]) ++ qq from by simp, drop_at _ _ _ (by simp)]

end Khttp
namespace Khttp
open Spec


theorem alpha_ne_star (b : UInt8) (h : isAlpha b = true) : b ≠ STAR := by
  have := forall_uint8 (fun b => !isAlpha b || b != STAR) (by decide +kernel) b
  simpa [h] using this

theorem aloop_slash {buf : Bytes} {i : Nat} {seen : Bool} (hb : buf[i]? = some SLASH) :
    aloop buf i seen = .ok (i, i) := by
  rw [aloop_lt hb]
  have e : (SLASH == COLON) = false := by decide
  simp only [e, Bool.false_and, Bool.false_eq_true, if_false, BEq.rfl, if_true]

theorem aloop_sp {buf : Bytes} {i : Nat} {seen : Bool} (hb : buf[i]? = some SP) :
    aloop buf i seen = .ok (i, 0) := by
  rw [aloop_lt hb]
  have e : (SP == COLON) = false := by decide
  have e1 : (SP == SLASH) = false := by decide
  simp only [e, e1, Bool.false_and, Bool.false_eq_true, if_false, BEq.rfl, Bool.true_or, if_true]

theorem aloop_qmark {buf : Bytes} {i : Nat} {seen : Bool} (hb : buf[i]? = some QMARK) :
    aloop buf i seen = .ok (i, 0) := by
  rw [aloop_lt hb]
  have e : (QMARK == COLON) = false := by decide
  have e1 : (QMARK == SLASH) = false := by decide
  simp only [e, e1, Bool.false_and, Bool.false_eq_true, if_false, BEq.rfl, Bool.or_true, if_true]

theorem aloop_absolute (buf s a post : Bytes) (hbuf : buf = s ++ (str "://" ++ (a ++ post)))
    (hs : s.all isSchemeByte = true) (ha : a.all isAuthorityByte = true) :
    aloop buf 0 false = aloop buf (s ++ (str "://" ++ a)).length true := by
  have hs' : ∀ b ∈ s, isAuthorityByte b = true ∧ b ≠ COLON :=
    fun b hb => schemeByte_ok b (List.all_eq_true.mp hs b hb)
  -- over the scheme
  have h1 := aloop_walk buf false s [] (str "://" ++ (a ++ post)) (by rw [hbuf]; rfl)
    (List.all_eq_true.mpr fun b hb => (hs' b hb).1)
    (Or.inr fun hl => absurd rfl (hs' COLON (List.mem_of_getLast? hl)).2)
  simp only [List.length_nil, Nat.zero_add] at h1
  rw [h1]
  -- the separator
  have hsep : buf = s ++ COLON :: (SLASH :: SLASH :: (a ++ post)) := by rw [hbuf, str_sep]; rfl
  have hb : buf[s.length]? = some COLON := by rw [hsep]; exact getElem?_at _ _ _ _ rfl
  rw [aloop_lt hb]
  have hC : (COLON == COLON && !false && decide (s.length + 2 < buf.length) &&
      (buf.drop s.length).take 3 == str "://") = true := by
    have hl : s.length + 2 < buf.length := by rw [hsep]; simp
    have : (buf.drop s.length).take 3 = str "://" := by
      rw [hsep, drop_at _ _ _ rfl, str_sep]; rfl
    simp [hl, this]
  simp only [hC, if_true]
  -- over the authority
  have h2 := aloop_walk buf true a (s ++ str "://") post (by rw [hbuf]; simp) ha (Or.inl rfl)
  have e1 : (s ++ str "://").length = s.length + 3 := by simp [str_sep]
  have e2 : (s ++ (str "://" ++ a)).length = s.length + 3 + a.length := by
    simp [str_sep]; omega
  rw [e1] at h2
  rw [h2, e2]

theorem parseUri_origin (buf tl : Bytes) (hb : buf = SLASH :: tl) :
    parseUri buf = tailPathS buf 0 0 := by
  rw [hb, parseUri_cons SLASH tl (by decide) (by decide)]
  simp only [BEq.rfl, if_true, Res.pure_eq, Res.bind_ok, Bool.not_true, Bool.false_and,
    Bool.false_eq_true, if_false]
  exact tailPath_eq _ _ _ (VisUpto.zero _)

theorem parseUri_nonorigin (buf : Bytes) (b0 : UInt8) (tl : Bytes) (hb : buf = b0 :: tl)
    (h1 : b0 ≠ STAR) (h2 : b0 ≠ SLASH) (h3 : b0 ≠ SP) (i ps : Nat)
    (hl : aloop buf 0 false = .ok (i, ps)) :
    parseUri buf = if (ps == 0) = true then tailAuthS buf i else tailPathS buf i ps := by
  have hv : VisUpto buf i := by
    rcases aloop_spec buf _ 0 false (Nat.le_refl _) (VisUpto.zero _) with
      he | ⟨i', ps', he, _, hv', _⟩
    · rw [he] at hl; cases hl
    · rw [he] at hl; cases hl; exact hv'
  have e1 : (b0 == STAR) = false := by simpa using h1
  have e2 : (b0 == SLASH) = false := by simpa using h2
  have e3 : (b0 == SP) = false := by simpa using h3
  rw [hb, parseUri_cons b0 tl e1 e3, ← hb]
  simp only [e2, Bool.false_eq_true, if_false, Bool.not_false, Bool.true_and]
  change aloop buf 0 false >>= _ = _
  rw [hl]
  simp only [Res.bind_ok]
  split
  · exact tailAuth_eq _ _ hv
  · exact tailPath_eq _ _ _ hv

end Khttp
namespace Khttp
open Spec

theorem queryBytes_ok (q : Option Bytes) (hq : wfQuery q = true) :
    ∀ b ∈ queryBytes q, (!uriStop b) = true := by
  cases q with
  | none => intro b hb; simp [queryBytes] at hb
  | some qq =>
    intro b hb
    simp only [queryBytes, List.mem_cons] at hb
    rcases hb with rfl | hb
    · decide
    · exact queryByte_ok b (List.all_eq_true.mp hq b hb)

theorem complete_asterisk (rest : Bytes) :
    ∃ u, parseUri (Target.asterisk.bytes ++ SP :: rest) = .ok (u, rest) ∧
      u.full = Target.asterisk.bytes ∧ u.path = .ok Target.asterisk.path ∧
      u.query = .ok Target.asterisk.query := by
  refine ⟨⟨str "*", 0, 1⟩, ?_, str_star, ?_, ?_⟩
  · simp [Target.bytes, parseUri]
  · simp [Uri.path, slice, str_star, Target.path]
  · simp [Uri.query, sliceFrom, str_star, Target.query, findByte]

theorem complete_origin (p : Bytes) (q : Option Bytes) (wf : (Target.origin p q).Wf = true)
    (rest : Bytes) :
    ∃ u, parseUri ((Target.origin p q).bytes ++ SP :: rest) = .ok (u, rest) ∧
      u.full = (Target.origin p q).bytes ∧ u.path = .ok (Target.origin p q).path ∧
      u.query = .ok (Target.origin p q).query := by
  simp only [Target.Wf, Bool.and_eq_true] at wf
  obtain ⟨⟨hh, hp⟩, hq⟩ := wf
  cases p with
  | nil => simp at hh
  | cons c p' =>
    have hc : c = SLASH := by simpa using hh
    subst hc
    have hbuf : (Target.origin (SLASH :: p') q).bytes ++ SP :: rest =
        [] ++ ((SLASH :: p') ++ (queryBytes q ++ SP :: rest)) := by simp [Target.bytes]
    have hcomp := tailPathS_compute _ [] (SLASH :: p') q rest 0 hp hq hbuf
    refine ⟨⟨[] ++ (SLASH :: p' ++ queryBytes q), 0, ([] : Bytes).length + (SLASH :: p').length⟩,
      ?_, ?_, ?_⟩
    · rw [parseUri_origin _ (p' ++ (queryBytes q ++ SP :: rest)) (by simp [Target.bytes])]
      exact hcomp
    · simp [Target.bytes]
    · exact path_query_split [] (SLASH :: p') q

theorem complete_authority (a : Bytes) (wf : (Target.authority a).Wf = true) (rest : Bytes) :
    ∃ u, parseUri ((Target.authority a).bytes ++ SP :: rest) = .ok (u, rest) ∧
      u.full = (Target.authority a).bytes ∧ u.path = .ok (Target.authority a).path ∧
      u.query = .ok (Target.authority a).query := by
  simp only [Target.Wf, Bool.and_eq_true] at wf
  obtain ⟨⟨hne, ha⟩, hstar⟩ := wf
  have ha' : ∀ b ∈ a, isAuthorityByte b = true := fun b hb => List.all_eq_true.mp ha b hb
  cases a with
  | nil => simp at hne
  | cons x a' =>
    have hx1 : x ≠ STAR := by simpa using hstar
    have hx2 : x ≠ SLASH := (authByte_ok x (ha' x (by simp))).2.1
    have hx3 : x ≠ SP := (authByte_ok x (ha' x (by simp))).2.2.1
    simp only [Target.bytes]
    have hbuf : (x :: a') ++ SP :: rest = [] ++ ((x :: a') ++ SP :: rest) := rfl
    have hw := aloop_walk _ false (x :: a') [] (SP :: rest) hbuf ha
      (Or.inr (by intro _ h; simp at h; exact absurd h.1 (by decide)))
    simp only [List.length_nil, Nat.zero_add] at hw
    have hl : aloop ((x :: a') ++ SP :: rest) 0 false = .ok ((x :: a').length, 0) := by
      rw [hw]; exact aloop_sp (getElem?_at _ _ _ _ rfl)
    refine ⟨⟨(x :: a') ++ [], 0, 0⟩, ?_, by simp, ?_⟩
    · rw [parseUri_nonorigin ((x :: a') ++ SP :: rest) x (a' ++ SP :: rest) rfl hx1 hx2 hx3 _ _ hl]
      simp only [BEq.rfl, if_true]
      exact tailAuthS_compute _ (x :: a') [] rest (by simp) rfl
    · exact path_query_zero (x :: a') none (fun b hb => (authByte_ok b (ha' b hb)).2.2.2)

end Khttp
namespace Khttp
open Spec

theorem complete_absolute (s a p : Bytes) (q : Option Bytes)
    (wf : (Target.absolute s a p q).Wf = true) (rest : Bytes) :
    ∃ u, parseUri ((Target.absolute s a p q).bytes ++ SP :: rest) = .ok (u, rest) ∧
      u.full = (Target.absolute s a p q).bytes ∧ u.path = .ok (Target.absolute s a p q).path ∧
      u.query = .ok (Target.absolute s a p q).query := by
  simp only [Target.Wf, Bool.and_eq_true] at wf
  obtain ⟨⟨⟨⟨⟨hsch, hane⟩, ha⟩, hph⟩, hp⟩, hq⟩ := wf
  cases s with
  | nil => simp at hsch
  | cons c cs =>
    simp only [Bool.and_eq_true] at hsch
    have hs : (c :: cs).all isSchemeByte = true := by
      simp only [List.all_cons, Bool.and_eq_true]; exact ⟨alpha_scheme c hsch.1, hsch.2⟩
    have hc1 : c ≠ STAR := alpha_ne_star c hsch.1
    have hs' : ∀ b ∈ c :: cs, isAuthorityByte b = true :=
      fun b hb => (schemeByte_ok b (List.all_eq_true.mp hs b hb)).1
    have ha' : ∀ b ∈ a, isAuthorityByte b = true := fun b hb => List.all_eq_true.mp ha b hb
    have hc2 : c ≠ SLASH := (authByte_ok c (hs' c (by simp))).2.1
    have hc3 : c ≠ SP := (authByte_ok c (hs' c (by simp))).2.2.1
    let pre : Bytes := (c :: cs) ++ (str "://" ++ a)
    let post : Bytes := p ++ (queryBytes q ++ SP :: rest)
    let buf : Bytes := (Target.absolute (c :: cs) a p q).bytes ++ SP :: rest
    have hbuf : buf = (c :: cs) ++ (str "://" ++ (a ++ post)) := by
      simp [buf, post, Target.bytes]
    have hbuf2 : buf = pre ++ post := by rw [hbuf]; simp [pre]
    have hbuf0 : buf = c :: (cs ++ (str "://" ++ (a ++ post))) := by rw [hbuf]; rfl
    have hl0 := aloop_absolute buf (c :: cs) a post hbuf hs ha
    have hpre : ∀ b ∈ pre, b ≠ QMARK := by
      intro b hb
      simp only [pre, List.mem_append] at hb
      rcases hb with hb | hb | hb
      · exact (authByte_ok b (hs' b hb)).2.2.2
      · rw [str_sep] at hb; simp at hb
        rcases hb with rfl | rfl <;> decide
      · exact (authByte_ok b (ha' b hb)).2.2.2
    show ∃ u, parseUri buf = .ok (u, rest) ∧ _
    cases p with
    | nil =>
      have hl : aloop buf 0 false = .ok (pre.length, 0) := by
        rw [hl0]
        cases q with
        | none => exact aloop_sp (by rw [hbuf2]; exact getElem?_at _ _ _ _ rfl)
        | some qq => exact aloop_qmark (by rw [hbuf2]; exact getElem?_at _ _ _ _ rfl)
      refine ⟨⟨pre ++ queryBytes q, 0, 0⟩, ?_, by simp [pre, Target.bytes], ?_⟩
      · rw [parseUri_nonorigin buf c _ hbuf0 hc1 hc2 hc3 _ _ hl]
        simp only [BEq.rfl, if_true]
        exact tailAuthS_compute buf pre (queryBytes q) rest (queryBytes_ok q hq)
          (by rw [hbuf2]; rfl)
      · exact path_query_zero pre q hpre
    | cons d p' =>
      have hd : d = SLASH := by simpa using hph
      subst hd
      have hl : aloop buf 0 false = .ok (pre.length, pre.length) := by
        rw [hl0]
        exact aloop_slash (by rw [hbuf2]; exact getElem?_at _ _ _ _ rfl)
      have hne : (pre.length == 0) = false := by simp [pre]
      refine ⟨⟨pre ++ ((SLASH :: p') ++ queryBytes q), pre.length,
        pre.length + (SLASH :: p').length⟩, ?_, by simp [pre, Target.bytes], ?_⟩
      · rw [parseUri_nonorigin buf c _ hbuf0 hc1 hc2 hc3 _ _ hl]
        simp only [hne, Bool.false_eq_true, if_false]
        exact tailPathS_compute buf pre (SLASH :: p') q rest pre.length hp hq (by rw [hbuf2])
      · exact path_query_split pre (SLASH :: p') q

end Khttp
