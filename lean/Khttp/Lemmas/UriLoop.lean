/- The authority scan of `parseUri` (step 2), fuel-free. -/
import Khttp.Lemmas.UriTail
namespace Khttp

theorem authorityLoop_fuel (buf : Bytes) : ∀ (fuel fuel' i : Nat) (seen : Bool),
    buf.length - i < fuel → buf.length - i < fuel' →
    authorityLoop buf fuel i seen = authorityLoop buf fuel' i seen := by
  intro fuel
  induction fuel with
  | zero => intro _ _ _ h; omega
  | succ fuel ih =>
    intro fuel' i seen h h'
    cases fuel' with
    | zero => omega
    | succ fuel' =>
      unfold authorityLoop
      by_cases hi : i < buf.length
      · simp only [hi, if_true]
        cases hb : idx buf i "parse_uri buf[i]" with
        | ok b =>
          simp only []
          rw [ih fuel' (i + 3) true (by omega) (by omega), ih fuel' (i + 1) seen (by omega) (by omega)]
        | err e => rfl
        | panic s => rfl
        | ub s => rfl
      · simp only [hi, if_false]

/-- the authority scan with the fuel `parseUri` gives it -/
def aloop (buf : Bytes) (i : Nat) (seen : Bool) : Res (Nat × Nat) :=
  authorityLoop buf (buf.length + 1) i seen

theorem aloop_ge {buf : Bytes} {i : Nat} {seen : Bool} (h : buf.length ≤ i) :
    aloop buf i seen = .ok (i, 0) := by
  unfold aloop authorityLoop
  have : ¬ i < buf.length := by omega
  simp only [this, if_false]

theorem aloop_lt {buf : Bytes} {i : Nat} {b : UInt8} {seen : Bool} (hb : buf[i]? = some b) :
    aloop buf i seen =
      if (b == COLON && !seen && decide (i + 2 < buf.length) &&
          (buf.drop i).take 3 == str "://") = true then
        aloop buf (i + 3) true
      else if (b == SLASH) = true then .ok (i, i)
      else if (b == SP || b == QMARK) = true then .ok (i, 0)
      else if (!isValidUriByte b) = true then .err .status
      else aloop buf (i + 1) seen := by
  have hi := getElem?_lt hb
  unfold aloop
  conv => lhs; unfold authorityLoop
  simp only [hi, if_true, idx, hb]
  rw [authorityLoop_fuel buf buf.length (buf.length + 1) (i + 3) true (by omega) (by omega),
    authorityLoop_fuel buf buf.length (buf.length + 1) (i + 1) seen (by omega) (by omega)]

end Khttp
namespace Khttp

theorem take3_sep {buf : Bytes} {i : Nat} (h : ((buf.drop i).take 3 == str "://") = true) :
    buf[i]? = some COLON ∧ buf[i + 1]? = some SLASH ∧ buf[i + 2]? = some SLASH := by
  have hs : str "://" = [COLON, SLASH, SLASH] := by decide +kernel
  have h' : (buf.drop i).take 3 = [COLON, SLASH, SLASH] := by rw [← hs]; simpa using h
  have h0 := congrArg (·[0]?) h'
  have h1 := congrArg (·[1]?) h'
  have h2 := congrArg (·[2]?) h'
  simp [List.getElem?_drop] at h0 h1 h2
  exact ⟨h0, h1, h2⟩

theorem aloop_spec (buf : Bytes) : ∀ (n i : Nat) (seen : Bool), buf.length - i ≤ n → VisUpto buf i →
    aloop buf i seen = .err .status ∨
    ∃ i' ps, aloop buf i seen = .ok (i', ps) ∧ i ≤ i' ∧ VisUpto buf i' ∧ (ps = 0 ∨ ps = i') := by
  intro n
  induction n with
  | zero =>
    intro i seen hn hv
    exact Or.inr ⟨i, 0, aloop_ge (by omega), Nat.le_refl _, hv, Or.inl rfl⟩
  | succ n ih =>
    intro i seen hn hv
    by_cases hi : i < buf.length
    · obtain ⟨b, hb⟩ : ∃ b, buf[i]? = some b := ⟨buf[i], List.getElem?_eq_getElem hi⟩
      rw [aloop_lt hb]
      split
      · next hc =>
        simp only [Bool.and_eq_true, decide_eq_true_eq] at hc
        obtain ⟨h0, h1, h2⟩ := take3_sep hc.2
        have hv3 : VisUpto buf (i + 3) :=
          ((hv.succ h0 (by decide)).succ h1 (by decide)).succ h2 (by decide)
        rcases ih (i + 3) true (by omega) hv3 with h | ⟨i', ps, h, hle, hv', hps⟩
        · exact Or.inl h
        · exact Or.inr ⟨i', ps, h, by omega, hv', hps⟩
      · split
        · exact Or.inr ⟨i, i, rfl, Nat.le_refl _, hv, Or.inr rfl⟩
        · split
          · exact Or.inr ⟨i, 0, rfl, Nat.le_refl _, hv, Or.inl rfl⟩
          · split
            · exact Or.inl rfl
            · next hval =>
              have hval' : isValidUriByte b = true := by simpa using hval
              rcases ih (i + 1) seen (by omega) (hv.succ hb (valid_visible b hval')) with
                h | ⟨i', ps, h, hle, hv', hps⟩
              · exact Or.inl h
              · exact Or.inr ⟨i', ps, h, by omega, hv', hps⟩
    · exact Or.inr ⟨i, 0, aloop_ge (by omega), Nat.le_refl _, hv, Or.inl rfl⟩

theorem aloop_stable (buf ext : Bytes) : ∀ (n i : Nat) (seen : Bool),
    buf.length - i ≤ n → i ≤ buf.length →
    aloop (buf ++ ext) i seen = aloop buf i seen ∨ aloop buf i seen = .ok (buf.length, 0) ∨
    ∃ m, m + 1 = buf.length ∧ buf[m]? = some SLASH ∧ aloop buf i seen = .ok (m, m) := by
  intro n
  induction n with
  | zero =>
    intro i seen hn hi
    have : i = buf.length := by omega
    subst this
    exact Or.inr (Or.inl (aloop_ge (Nat.le_refl _)))
  | succ n ih =>
    intro i seen hn hile
    by_cases hi : i < buf.length
    · obtain ⟨b, hb⟩ : ∃ b, buf[i]? = some b := ⟨buf[i], List.getElem?_eq_getElem hi⟩
      have hb' : (buf ++ ext)[i]? = some b := by rw [List.getElem?_append_left hi]; exact hb
      by_cases hCC : (b == COLON && !seen && decide (i + 2 < (buf ++ ext).length) &&
            ((buf ++ ext).drop i).take 3 == str "://") =
          (b == COLON && !seen && decide (i + 2 < buf.length) && (buf.drop i).take 3 == str "://")
      · rw [aloop_lt hb', aloop_lt hb, hCC]
        split
        · exact ih (i + 3) true (by omega) (by
            next hc => simp only [Bool.and_eq_true, decide_eq_true_eq] at hc; omega)
        · split
          · exact Or.inl rfl
          · split
            · exact Or.inl rfl
            · split
              · exact Or.inl rfl
              · exact ih (i + 1) seen (by omega) (by omega)
      · have h2 : ¬ i + 2 < buf.length := by
          intro h2
          apply hCC
          have hlen : i + 2 < buf.length + ext.length := by omega
          rw [List.drop_append_of_le_length hile,
            List.take_append_of_le_length (by simp only [List.length_drop]; omega)]
          simp [h2, hlen]
        have hC : (b == COLON && !seen && decide (i + 2 < buf.length) &&
            (buf.drop i).take 3 == str "://") = false := by simp [h2]
        rw [hC] at hCC
        have hC' : (b == COLON && !seen && decide (i + 2 < (buf ++ ext).length) &&
            ((buf ++ ext).drop i).take 3 == str "://") = true := Bool.of_not_eq_false hCC
        simp only [Bool.and_eq_true, decide_eq_true_eq] at hC'
        obtain ⟨⟨⟨hbc, _⟩, _⟩, hsep⟩ := hC'
        have hbc : b = COLON := by simpa using hbc
        subst hbc
        obtain ⟨_, hs1, _⟩ := take3_sep hsep
        right
        rw [aloop_lt hb, hC]
        have e1 : (COLON == SLASH) = false := by decide
        have e2 : (COLON == SP || COLON == QMARK) = false := by decide
        have e3 : (!isValidUriByte COLON) = false := by decide
        simp only [e1, e2, e3, Bool.false_eq_true, if_false]
        by_cases hi1 : i + 1 < buf.length
        · right
          have hs1' : buf[i + 1]? = some SLASH := by
            rw [List.getElem?_append_left hi1] at hs1; exact hs1
          refine ⟨i + 1, by omega, hs1', ?_⟩
          rw [aloop_lt hs1']
          have e4 : (SLASH == COLON) = false := by decide
          simp only [e4, Bool.false_and, Bool.false_eq_true, if_false, BEq.rfl, if_true]
        · left
          have : i + 1 = buf.length := by omega
          rw [← this]; exact aloop_ge (by omega)
    · have : i = buf.length := by omega
      subst this
      exact Or.inr (Or.inl (aloop_ge (Nat.le_refl _)))

end Khttp
