/- Closed forms of the two tails of `parseUri` (authority-form and step 3) and their properties. -/
import Khttp.Lemmas.UriAux
namespace Khttp

def scanU (l : Bytes) : Nat := (l.takeWhile (fun b => !uriStop b)).length
def scanP (l : Bytes) : Nat := (l.takeWhile (fun b => !pathStop b)).length

/-- authority-form tail of `parseUri` (copied verbatim from the model) -/
def tailAuth (buf : Bytes) (i : Nat) : Res (Uri × Bytes) := do
        let tail ← sliceFrom buf i "parse_uri &buf[j..]"
        let n ← matchUri tail
        let j := i + n
        match buf[j]? with
        | some b =>
          if b == SP then do
            let full ← sliceTo buf j "parse_uri &buf[..j]"
            let full ← asciiStr full "from_utf8_unchecked(authority-form)"
            let rest ← sliceFrom buf (j + 1) "parse_uri &buf[j+1..]"
            .ok (⟨full, 0, 0⟩, rest)
          else .err .status
        | none => .err .eof

/-- step 3 of `parseUri` (copied verbatim from the model) -/
def tailPath (buf : Bytes) (i ps : Nat) : Res (Uri × Bytes) := do
        let tail ← sliceFrom buf i "parse_uri &buf[i..]"
        let n ← matchPath tail
        let pe := i + n
        let iEnd ←
          match buf[pe]? with
          | some b =>
            if b == QMARK then do
              let tail ← sliceFrom buf (pe + 1) "parse_uri &buf[i..] (query)"
              let n ← matchUri tail
              let k := pe + 1 + n
              match buf[k]? with
              | some c =>
                if c == SP then (pure k : Res Nat)
                else if c == CR || c == LF then .err .ver
                else .err .status
              | none => .err .eof
            else if b == SP then pure pe
            else if b == CR || b == LF then .err .ver
            else .err .status
          | none => .err .eof
        let full ← sliceTo buf iEnd "parse_uri &buf[..i]"
        let full ← asciiStr full "from_utf8_unchecked(uri)"
        let rest ← sliceFrom buf (iEnd + 1) "parse_uri &buf[i+1..]"
        .ok (⟨full, ps, pe⟩, rest)

theorem parseUri_cons (b0 : UInt8) (t : Bytes) (h : (b0 == STAR) = false) (hsp : (b0 == SP) = false) :
    parseUri (b0 :: t) =
      (if b0 == SLASH then (pure (0, 0) : Res (Nat × Nat))
        else authorityLoop (b0 :: t) ((b0 :: t).length + 1) 0 false) >>=
        fun r => if (!(b0 == SLASH) && r.2 == 0) = true then tailAuth (b0 :: t) r.1
                 else tailPath (b0 :: t) r.1 r.2 := by
  unfold parseUri
  simp only [h, hsp]
  cases hs : b0 == SLASH <;> rfl

theorem parseUri_sp (t : Bytes) : parseUri (SP :: t) = .err .status := by
  unfold parseUri
  have e : (SP == STAR) = false := by decide
  simp only [e, BEq.rfl, Bool.false_eq_true, if_false, if_true]

/-- closed form of the authority-form tail -/
def tailAuthS (buf : Bytes) (i : Nat) : Res (Uri × Bytes) :=
  let j := i + scanU (buf.drop i)
  match buf[j]? with
  | some b => if b == SP then .ok (⟨buf.take j, 0, 0⟩, buf.drop (j + 1)) else .err .status
  | none => .err .eof

/-- closed form of step 3 -/
def tailPathS (buf : Bytes) (i ps : Nat) : Res (Uri × Bytes) :=
  let pe := i + scanP (buf.drop i)
  match buf[pe]? with
  | some b =>
    if b == QMARK then
      let k := pe + 1 + scanU (buf.drop (pe + 1))
      match buf[k]? with
      | some c =>
        if c == SP then .ok (⟨buf.take k, ps, pe⟩, buf.drop (k + 1))
        else if c == CR || c == LF then .err .ver
        else .err .status
      | none => .err .eof
    else if b == SP then .ok (⟨buf.take pe, ps, pe⟩, buf.drop (pe + 1))
    else if b == CR || b == LF then .err .ver
    else .err .status
  | none => .err .eof

theorem matchUri_scan (l : Bytes) : matchUri l = .ok (scanU l) := matchUri_eq l
theorem matchPath_scan (l : Bytes) : matchPath l = .ok (scanP l) := matchPath_eq l

theorem visUpto_scanU {buf : Bytes} {i : Nat} (h : VisUpto buf i) :
    VisUpto buf (i + scanU (buf.drop i)) := h.scan _ uriStop_visible
theorem visUpto_scanP {buf : Bytes} {i : Nat} (h : VisUpto buf i) :
    VisUpto buf (i + scanP (buf.drop i)) := h.scan _ pathStop_visible

theorem getElem?_lt {α} {l : List α} {j : Nat} {b : α} (h : l[j]? = some b) : j < l.length :=
  (List.getElem?_eq_some_iff.mp h).1

theorem tailAuth_eq (buf : Bytes) (i : Nat) (hv : VisUpto buf i) :
    tailAuth buf i = tailAuthS buf i := by
  have hi := hv.le_length
  have hj := visUpto_scanU hv
  unfold tailAuth tailAuthS
  simp only [sliceFrom, hi, if_true, Res.bind_ok, matchUri_scan]
  show (match buf[i + scanU (buf.drop i)]? with | some b => _ | none => _) = _
  cases hb : buf[i + scanU (buf.drop i)]? with
  | none => rfl
  | some b =>
    have hlt := getElem?_lt hb
    simp only [sliceTo, asciiStr]
    split
    · have h1 : i + scanU (buf.drop i) ≤ buf.length := by omega
      have h2 : i + scanU (buf.drop i) + 1 ≤ buf.length := by omega
      simp only [h1, h2, hj.ascii, if_true, Res.bind_ok]
    · rfl

end Khttp
namespace Khttp

theorem tailPath_eq (buf : Bytes) (i ps : Nat) (hv : VisUpto buf i) :
    tailPath buf i ps = tailPathS buf i ps := by
  have hi := hv.le_length
  have hpe := visUpto_scanP hv
  unfold tailPath tailPathS
  simp only [sliceFrom, hi, if_true, Res.bind_ok, matchPath_scan]
  cases hb : buf[i + scanP (buf.drop i)]? with
  | none => rfl
  | some b =>
    have hlt := getElem?_lt hb
    simp only []
    by_cases hq : (b == QMARK) = true
    · simp only [hq, if_true]
      have h1 : i + scanP (buf.drop i) + 1 ≤ buf.length := by omega
      have hb' : buf[i + scanP (buf.drop i)]? = some QMARK := by
        rw [hb]; simpa using hq
      have hk := visUpto_scanU (hpe.succ hb' (by decide))
      simp only [h1, if_true, Res.bind_ok, matchUri_scan]
      cases hc : buf[i + scanP (buf.drop i) + 1 + scanU (buf.drop (i + scanP (buf.drop i) + 1))]? with
      | none => rfl
      | some c =>
        have hlt2 := getElem?_lt hc
        simp only []
        by_cases hsp : (c == SP) = true
        · have h2 : i + scanP (buf.drop i) + 1 + scanU (buf.drop (i + scanP (buf.drop i) + 1)) ≤ buf.length := by omega
          have h3 : i + scanP (buf.drop i) + 1 + scanU (buf.drop (i + scanP (buf.drop i) + 1)) + 1 ≤ buf.length := by omega
          simp only [hsp, if_true, Res.pure_eq, Res.bind_ok, sliceTo, asciiStr, h2, h3, hk.ascii]
        · simp only [hsp, Bool.false_eq_true, ↓reduceIte]
          split <;> rfl
    · simp only [hq, Bool.false_eq_true, ↓reduceIte]
      by_cases hsp : (b == SP) = true
      · have h2 : i + scanP (buf.drop i) ≤ buf.length := by omega
        have h3 : i + scanP (buf.drop i) + 1 ≤ buf.length := by omega
        simp only [hsp, if_true, Res.pure_eq, Res.bind_ok, sliceTo, asciiStr, h2, h3, hpe.ascii]
      · simp only [hsp, Bool.false_eq_true, ↓reduceIte]
        split <;> rfl

end Khttp
namespace Khttp

/-! ## safety -/

theorem tailAuthS_safe (buf : Bytes) (i : Nat) : (tailAuthS buf i).Safe := by
  unfold tailAuthS
  simp only []
  split
  · split <;> exact ⟨rfl, rfl⟩
  · exact ⟨rfl, rfl⟩

theorem tailPathS_safe (buf : Bytes) (i ps : Nat) : (tailPathS buf i ps).Safe := by
  unfold tailPathS
  simp only []
  repeat' split
  all_goals exact ⟨rfl, rfl⟩

/-! ## what an accepted tail looks like -/

theorem tailAuthS_ok {buf : Bytes} {i : Nat} {u : Uri} {rest : Bytes} (hv : VisUpto buf i)
    (h : tailAuthS buf i = .ok (u, rest)) :
    ∃ j, buf[j]? = some SP ∧ VisUpto buf j ∧ i ≤ j ∧ u = ⟨buf.take j, 0, 0⟩ ∧ rest = buf.drop (j + 1) := by
  have hj := visUpto_scanU hv
  unfold tailAuthS at h
  simp only [] at h
  split at h
  · next b hb =>
    split at h
    · next hsp =>
      simp only [Res.ok.injEq, Prod.mk.injEq] at h
      refine ⟨_, ?_, hj, Nat.le_add_right _ _, h.1.symm, h.2.symm⟩
      rw [hb]; simpa using hsp
    · cases h
  · cases h

theorem tailPathS_ok {buf : Bytes} {i ps : Nat} {u : Uri} {rest : Bytes} (hv : VisUpto buf i)
    (h : tailPathS buf i ps = .ok (u, rest)) :
    ∃ j pe, buf[j]? = some SP ∧ VisUpto buf j ∧ i ≤ pe ∧ pe ≤ j ∧ u = ⟨buf.take j, ps, pe⟩ ∧
      rest = buf.drop (j + 1) := by
  have hpe := visUpto_scanP hv
  unfold tailPathS at h
  simp only [] at h
  split at h
  · next b hb =>
    split at h
    · next hq =>
      have hb' : buf[i + scanP (buf.drop i)]? = some QMARK := by rw [hb]; simpa using hq
      have hk := visUpto_scanU (hpe.succ hb' (by decide))
      split at h
      · next c hc =>
        split at h
        · next hsp =>
          simp only [Res.ok.injEq, Prod.mk.injEq] at h
          refine ⟨_, _, ?_, hk, Nat.le_add_right _ _, ?_, h.1.symm, h.2.symm⟩
          · rw [hc]; simpa using hsp
          · omega
        · split at h <;> cases h
      · cases h
    · split at h
      · next hsp =>
        simp only [Res.ok.injEq, Prod.mk.injEq] at h
        refine ⟨_, _, ?_, hpe, Nat.le_add_right _ _, Nat.le_refl _, h.1.symm, h.2.symm⟩
        rw [hb]; simpa using hsp
      · split at h <;> cases h
  · cases h

/-! ## stability under extension of the input -/

/-- the result expected on `buf ++ ext` -/
def extR (ext : Bytes) : Res (Uri × Bytes) → Res (Uri × Bytes)
  | .ok (u, rest) => .ok (u, rest ++ ext)
  | r => r

theorem scanU_append {buf : Bytes} {i : Nat} (ext : Bytes)
    (h : i + scanU (buf.drop i) < buf.length) :
    scanU ((buf ++ ext).drop i) = scanU (buf.drop i) := by
  have hi : i ≤ buf.length := by omega
  unfold scanU at *
  rw [List.drop_append_of_le_length hi, takeWhile_append_stop]
  simp only [List.length_drop]; omega

theorem scanP_append {buf : Bytes} {i : Nat} (ext : Bytes)
    (h : i + scanP (buf.drop i) < buf.length) :
    scanP ((buf ++ ext).drop i) = scanP (buf.drop i) := by
  have hi : i ≤ buf.length := by omega
  unfold scanP at *
  rw [List.drop_append_of_le_length hi, takeWhile_append_stop]
  simp only [List.length_drop]; omega

theorem tailAuthS_stable {buf : Bytes} {i : Nat} (ext : Bytes)
    (h : tailAuthS buf i ≠ .err .eof) :
    tailAuthS (buf ++ ext) i = extR ext (tailAuthS buf i) := by
  unfold tailAuthS at *
  simp only [] at *
  cases hb : buf[i + scanU (buf.drop i)]? with
  | none => rw [hb] at h; exact absurd rfl h
  | some b =>
    have hlt := getElem?_lt hb
    rw [scanU_append ext hlt, List.getElem?_append_left hlt, hb]
    simp only []
    split
    · rw [List.take_append_of_le_length (Nat.le_of_lt hlt), List.drop_append_of_le_length hlt]; rfl
    · rfl

theorem tailPathS_stable {buf : Bytes} {i ps : Nat} (ext : Bytes)
    (h : tailPathS buf i ps ≠ .err .eof) :
    tailPathS (buf ++ ext) i ps = extR ext (tailPathS buf i ps) := by
  unfold tailPathS at *
  simp only [] at *
  cases hb : buf[i + scanP (buf.drop i)]? with
  | none => rw [hb] at h; exact absurd rfl h
  | some b =>
    have hlt := getElem?_lt hb
    rw [hb] at h
    rw [scanP_append ext hlt, List.getElem?_append_left hlt, hb]
    simp only [] at h ⊢
    split
    · next hq =>
      simp only [hq, if_true] at h
      cases hc : buf[i + scanP (buf.drop i) + 1 + scanU (buf.drop (i + scanP (buf.drop i) + 1))]? with
      | none => rw [hc] at h; exact absurd rfl h
      | some c =>
        have hlt2 := getElem?_lt hc
        rw [scanU_append ext hlt2, List.getElem?_append_left hlt2, hc]
        simp only []
        split
        · rw [List.take_append_of_le_length (Nat.le_of_lt hlt2), List.drop_append_of_le_length hlt2]; rfl
        · split <;> rfl
    · split
      · rw [List.take_append_of_le_length (Nat.le_of_lt hlt), List.drop_append_of_le_length hlt]; rfl
      · split <;> rfl

end Khttp
